"""C07 — any string over the semantically robust alphabet is a valid molecule."""
import core
import gens
import dec_side
import hist_common as H
from core import S, U, sf, call, drv

ID = 'C07'
TRUSTED = ['spec/AlphaSpec.v: the documented content of the robust alphabet; spec/Reader.v judges the decoded molecules']


def spec_alphabet(t):
    out = set(gens.INDEX)
    for i in '123':
        out |= {'[Ring%s]' % i, '[=Ring%s]' % i, '[Branch%s]' % i, '[=Branch%s]' % i, '[#Branch%s]' % i}
    for k, c in t.items():
        if k == '?':
            continue
        for b, m in (('', 1), ('=', 2), ('#', 3)):
            if m <= c:
                out.add('[' + b + k + ']')
    return out


def work(chunk, extra):
    s_ = sf()
    d = drv()
    rng = core.rng_for(extra['seed'], 'C07/w/%s' % (chunk[0][1],))
    out = []
    for (t, _) in chunk:
        r = {'table': t, 'dis': [], 'fail': [], 'n': 0, 'nontriv': []}
        st = call(s_.set_semantic_constraints, dict(t))
        if 'ok' not in st:
            r['fail'].append({'clause': 'harness: generated table rejected', 'input': {'table': t}, 'impl': st})
            out.append(r)
            continue
        al = set(s_.get_semantic_robust_alphabet())      # copy: the handed-out set is the cached object (known finding)
        m_al = set(U(x) for x in d.one(['alphabet_of', core.T(t)]))
        if al != m_al:
            r['dis'].append({'op': 'get_semantic_robust_alphabet', 'input': {'table': t}, 'impl': sorted(al ^ m_al)})
        want = spec_alphabet(t)
        if al != want:
            r['fail'].append({'clause': 'alphabet = 16 index symbols + 9 branch symbols + single/double ring symbols + [bK] for order(b) <= capacity(K)',
                              'input': {'table': t}, 'impl': sorted(al ^ want)})
        alist = sorted(al)
        tb = core.T(t)
        cases = []
        for _ in range(extra['per_table']):
            k = rng.random()
            if k < 0.5:
                try:
                    x = gens.live_selfies(rng, maxlen=40, alphabet=alist, rich=0.3, dots=0.0, nops=0.0)
                except IndexError:       # an alphabet without some class of symbols: the generator of live strings has nothing to choose from
                    x = gens.uniform_selfies(rng, alistr(alist, rng), 25)
            else:
                x = gens.uniform_selfies(rng, alistr(alist, rng), 25)
            cases.append(x)
        # ring closures that compete for the last free valence of an atom: an atom opens a branch, an atom inside closes a ring back onto it,
        # and after the branch it reads a ring symbol of higher order itself (the ring pass must clip every ring bond by BOTH atoms' free valences)
        atoms_ = [a for a in alist if 'Ring' not in a and 'Branch' not in a]
        rings_ = [a for a in alist if 'Ring1' in a]
        if atoms_ and rings_:
            for _ in range(40):
                x0, y0, z0, w0 = (rng.choice(atoms_) for _ in range(4))
                cases.append(x0 + y0 + '[Branch1][Ring2]' + z0 + rng.choice(rings_) + '[C]' + rng.choice(rings_) + rng.choice(['[C]', '[Ring1]']) + rng.choice(['', w0]))
                cases.append(x0 + y0 + rng.choice(rings_) + '[C]' + z0 + rng.choice(rings_) + '[Ring1]' + rng.choice(rings_) + '[Ring2]' + w0)
        # every single symbol, and every symbol after a chain that leaves state > 0
        cases += alist + ['[C][C]' + a for a in alist if '[C]' in al]
        ms = d.batch([['dec', tb, S(x), False, False] for x in cases])
        for x, m in zip(cases, ms):
            r['n'] += 1
            im = call(s_.decoder, x)
            mm = {'ok': U(m['ok'][0])} if 'ok' in m else m
            if im != mm:
                r['dis'].append({'op': 'decoder', 'input': {'table': t, 'selfies': x}, 'impl': im, 'model': mm})
            if 'ok' not in im:
                r['fail'].append({'clause': 'every string over the returned alphabet decodes without error',
                                  'input': {'table': t, 'selfies': x}, 'impl': im})
            elif not d.one(['valid', tb, S(im['ok'])]):
                r['fail'].append({'clause': 'every string over the returned alphabet decodes to a molecule that obeys the table',
                                  'input': {'table': t, 'selfies': x}, 'impl': im,
                                  'klass': 'ring-label-ge-100' if dec_side.ring_label_ge_100(im['ok']) else None})
            elif dec_side.nontrivial_output(im['ok']):
                r['nontriv'].append(x)
        out.append(r)
    return out


def alistr(alist, rng):
    return alist


def run(rep, tier, seed, b):
    rng = core.rng_for(seed, ID)
    presets = dec_side.preset_tables()
    ntab = 60 if tier == 'quick' else 1200
    tabs = gens.tables(rng, ntab, presets)
    # targeted tables: multi-digit charges, unusual elements, capacity 0 and > 8, only '?'
    tabs += [{'?': 0}, {'?': 8}, {'?': 3, 'C': 0, 'N': 0, 'O': 0}, {'?': 1, 'Fe+10': 6, 'Fe-12': 1, 'Xe': 9, 'Cl+100': 3},
             {'?': 12, 'C': 12, 'C+1': 11, 'H': 3}, {'?': 2, 'Og': 3} if False else {'?': 2, 'Lr': 3, 'Lr-3': 2},
             {'C': True, '?': 8, 'N': False}]
    items = [(t, i) for i, t in enumerate(tabs)]
    res = core.pmap('p_c07', 'work', items, extra={'seed': seed, 'per_table': 250 if tier == 'quick' else 1500}, chunk=5)
    for r in res:
        rep.evaluations += r['n'] + 1
        rep.impl_traces += r['n'] + 1
        rep.disagreements += r['dis']
        rep.oracle_failures += r['fail']
        for x in r['nontriv']:
            rep.nontriv(x + str(sorted(r['table'].items())))
        rep.count('tables')
        rep.count('tables with a charged key', int(any('+' in k or '-' in k for k in r['table'])))
        rep.count('tables with capacity 0', int(any(v == 0 for v in r['table'].values())))
        rep.count('tables with capacity > 8', int(any(v > 8 for v in r['table'].values())))
    # "reflects the table in force at the time of the call": along histories (C12 holds the state part)
    targeted = []
    for _ in range(120 if tier == 'quick' else 1200):
        d0 = H.random_dict(rng, valid=True)
        k = rng.choice([kv[0] for kv in d0 if kv[0] != '?'] or ['C'])
        targeted.append([['new', d0], ['set', ['held', 0]], ['alpha'], ['dec', '[C][N][O]', False, False],
                         ['mut', 0, rng.choice([['setitem', k, rng.choice([0, 1, 5])], ['setitem', 'N', rng.choice([0, 1, 5])], ['del', k], ['setitem', 'Xe', 3]])],
                         ['get'], ['alpha']])
    # the alphabet was already computed under one table; the table is then switched (by preset name, by dict, by reset)
    names = ['default', 'octet_rule', 'hypervalent']
    for _ in range(60 if tier == 'quick' else 600):
        first = rng.choice([[['set', ['name', rng.choice(names)]]], [['new', H.random_dict(rng, valid=True)], ['set', ['held', 0]]]])
        second = rng.choice([[['set', ['name', rng.choice(names)]]], [['new', H.random_dict(rng, valid=True)], ['set', ['held', 1 if first[0][0] == 'new' else 0]]]])
        targeted.append(first + [['alpha'], ['dec', '[C][=Cl][#Br][=I][N]', False, False]] + second + [['dec', '[C][=Cl][#Br][=I][N]', False, False], ['get'], ['alpha']])
    # a REJECTED update must leave table and alphabet alone: alphabet and reported table are compared after it as well
    for _ in range(60 if tier == 'quick' else 600):
        first = rng.choice([[['set', ['name', rng.choice(names)]]], [['new', H.random_dict(rng, valid=True)], ['set', ['held', 0]]]])
        bad = H.random_dict(rng, valid=False)
        if rng.random() < 0.6:       # the offending entry last, after entries that would change capacities
            ok_part = [kv for kv in H.random_dict(rng, valid=True)]
            bad = ok_part + [[rng.choice(H.BAD_KEYS), 2]] if rng.random() < 0.5 else ok_part + [['Fe', -1]]
        targeted.append(first + [['alpha'], ['dec', '[C][=Cl][#Br][=I][N]', False, False], ['new', bad], ['set', ['held', 1 if first[0][0] == 'new' else 0]],
                                 ['dec', '[N][#C][=Xe][=O]', False, False], ['get'], ['alpha']])
    hists = [H.random_history(rng, translate=False) + [['get'], ['alpha']] for _ in range(60 if tier == 'quick' else 600)] + targeted
    for ops in hists:
        im = H.impl_run(ops)
        rep.evaluations += 1
        rep.impl_traces += 1
        if isinstance(im, list) and im[-2] and 'dict' in im[-2] and im[-1] and 'set' in im[-1]:
            t = {k: v for k, v in im[-2]['dict']}
            polluted = any(o[0] == 'mut' and o[2][0] in ('add', 'clear') for o in ops)
            if set(im[-1]['set']) != spec_alphabet(t):
                rep.oracle_failures.append({'clause': 'the alphabet reflects the table in force at the time of the call',
                                            'input': {'ops': ops}, 'impl': sorted(set(im[-1]['set']) ^ spec_alphabet(t)),
                                            'klass': 'alphabet-alias' if polluted else None})
    # near-miss tables: whatever the library ACCEPTS, its alphabet must decode (an ill-spelled key that slips through
    # the validator puts a symbol into the alphabet that the decoder rejects)
    s_ = sf()
    d = drv()
    for bk in H.BAD_KEYS:
        for base in ({'?': 3}, dict(presets[0])):
            t = dict(base)
            t[bk] = 2
            st = call(s_.set_semantic_constraints, dict(t))
            rep.evaluations += 1
            rep.impl_traces += 1
            rep.count('near-miss tables offered')
            if 'ok' not in st:
                continue
            rep.count('near-miss tables accepted')
            for x in sorted(s_.get_semantic_robust_alphabet()):
                im = call(s_.decoder, x)
                if 'ok' not in im:
                    rep.oracle_failures.append({'clause': 'every symbol of the alphabet of an accepted table decodes without error',
                                                'input': {'table': t, 'selfies': x}, 'impl': im})
                    break
    sf().set_semantic_constraints()
    for r in res[:3]:
        rep.sample({'table': r['table'], 'strings_decoded': r['n']})
    rep.rule = ('%d accepted tables (presets, random custom dicts with 1-3 digit charges, unusual elements, capacities 0..40, bool capacities, only "?") set through the public API; '
                'alphabet compared as a set with the model and with the documented content; per table: every symbol alone and after a live chain, plus live and uniform strings over '
                'the returned alphabet, each decoded and judged by the independent reader under that table; alphabet-follows-table along random histories. '
                'non-trivial = distinct (string, table) whose output has >= 3 atoms and a branch or ring' % len(tabs))


def known(f):
    if f['id'] == 'F-C07-int-digits':
        s_ = sf()
        t = dict(s_.get_preset_constraints('default'))
        t[eval(f['witness']['key_expr'], {'__builtins__': {}})] = f['witness']['value']
        try:
            s_.set_semantic_constraints(t)
            big = [x for x in s_.get_semantic_robust_alphabet() if len(x) > 4000]
            r = call(s_.decoder, big[0]) if big else {'ok': None}
        except Exception as e:   # noqa
            r = {'ok': 'rejected: ' + type(e).__name__}
        finally:
            s_.set_semantic_constraints()
        return ('a symbol of the alphabet cannot be decoded: ' + str(r)) if 'err' in r else None
    if f['id'] != 'F-C12-alphabet-alias':
        return None
    im = H.impl_run(f['witness']['ops'])
    if isinstance(im, list) and im[-1] != im[0]:
        return 'the alphabet returned after a caller mutated the previously returned set contains [BOGUS]'
    return None


def replay(data):
    i = data['failure']['input']
    if 'ops' in i:
        return {'input': i, 'impl': H.impl_run(i['ops']), 'fails': True}
    s_ = sf()
    st = call(s_.set_semantic_constraints, dict(i['table']))
    if 'ok' not in st:
        return {'input': i, 'impl': st, 'fails': False, 'note': 'the table is rejected'}
    out = {'input': i, 'alphabet_diff_vs_spec': sorted(set(s_.get_semantic_robust_alphabet()) ^ spec_alphabet(i['table']))}
    if 'selfies' in i:
        r = call(s_.decoder, i['selfies'])
        out['impl'] = r
        out['valid'] = 'ok' in r and drv().one(['valid', core.T(i['table']), S(r['ok'])])
        out['fails'] = not out['valid']
    else:
        out['fails'] = bool(out['alphabet_diff_vs_spec'])
    s_.set_semantic_constraints()
    return out
