"""enc_side.py — shared worker / generators for the encoder-side properties
(C03, C04, C05, C06, C09, C10, C17)."""
import re
import warnings
import core
import gens
import gen_smiles
import dec_common
from core import S, U, sf, call, drv
from p_c14 import load_smiles

warnings.simplefilter('ignore')

RELAXED = None


def relaxed_table():
    """the very permissive table of the repository's own dataset test"""
    global RELAXED
    if RELAXED is None:
        s_ = sf()
        t = s_.get_preset_constraints("hypervalent")
        t.update({"P": 7, "P-1": 8, "P+1": 6, "?": 12})
        RELAXED = t
    return dict(RELAXED)


def canon_enc(r, attr):
    if 'ok' in r and attr:
        return {'ok': [r['ok'][0], dec_common.canon_attr(r['ok'][1])]}
    return r


def model_enc(d, tb, x, strict, attr):
    m = d.one(['enc', tb, S(x), bool(strict), bool(attr)])
    if 'ok' in m:
        smi = U(m['ok'][0])
        if attr:
            return {'ok': [smi, [[a[0], U(a[1]), None if a[2] is None else [[i, U(t)] for i, t in a[2]]] for a in m['ok'][1]]]}
        return {'ok': smi}
    return m


def work(chunk, extra):
    """chunk: [(table, smiles, strict, attr)] -> list of dicts"""
    want = extra or {}
    s_ = sf()
    d = drv()
    out = []
    for (t, x, strict, attr) in chunk:
        dec_common.set_table(s_, t)
        tb = core.T(t)
        r = {}
        im = canon_enc(call(s_.encoder, x, strict=strict, attribute=attr), attr)
        r['impl'] = im
        if want.get('model', True):
            r['model'] = model_enc(d, tb, x, strict, attr)
        if 'ok' in im:
            sel = im['ok'][0] if attr else im['ok']
            r['selfies'] = sel
            if want.get('roundtrip'):
                dd = call(s_.decoder, sel)
                r['decoded'] = dd
                if 'ok' in dd:
                    r['rt'] = d.one(['rt', tb, S(x), S(dd['ok'])])
                    if want.get('reencode'):
                        r['reencoded'] = call(s_.encoder, dd['ok'], strict=strict)
        if want.get('kek'):
            r['kek'] = d.one(['kek', S(x)])
        if want.get('c06'):
            # independent count: the kekulised molecule as the library itself writes it under a table that cannot clip,
            # re-read by the Coq reader and judged against the table in force
            ns = call(s_.encoder, x, strict=False)
            r['nonstrict'] = ns
            if 'ok' in ns:
                dec_common.set_table(s_, relaxed_table())
                dd = call(s_.decoder, ns['ok'])
                dec_common.set_table(s_, t)
                if 'ok' in dd:
                    rr = d.one(['rt', tb, S(x), S(dd['ok'])])
                    r['c06'] = {'kek_smiles': dd['ok'], 'same_molecule': rr.get('same_molecule'), 'violates': rr.get('violates_out')}
        if want.get('table_after'):
            r['table_after'] = s_.get_semantic_constraints() == dict(t)
        out.append(r)
    return out


_MOLS = {}


def mol_of(smi):
    if smi not in _MOLS:
        dump = drv().one(['read', S(smi)])
        _MOLS[smi] = None if dump is None else gen_smiles.Mol(dump)
    return _MOLS[smi]


def gen_smiles_cases(rng, n, mutate=0.3, respell=0.7, stereo_only=False, aromatic_only=False, maxlen=120):
    """dataset molecules, their re-spellings and mutated variants"""
    pool = [s for s in load_smiles() if len(s) <= maxlen]
    if stereo_only:
        pool = [s for s in pool if '@' in s or '/' in s or '\\' in s]
    if aromatic_only:
        pool = [s for s in pool if re.search(r'[cnops]', re.sub(r'\[[^\]]*\]|Cl|Br|Sn|Sc|Os|Co|Cs|Cn|Zn|In|Mn|Mo', '', s))]
    out = []
    while len(out) < n:
        smi = rng.choice(pool)
        k = rng.random()
        if k > respell + 0.0 and k > 0.9:
            out.append(smi)
            continue
        m = mol_of(smi)
        if m is None:
            out.append(smi)
            continue
        if rng.random() < mutate:
            m = gen_smiles.mutate_mol(m, rng)
        x, _ = gen_smiles.respell(m, rng, shuffle=rng.random() < 0.9, digits_after_branches=0.25)
        out.append(x)
    return out


def tables_for(rng, n):
    s_ = sf()
    presets = [s_.get_preset_constraints(k) for k in ('default', 'octet_rule', 'hypervalent')]
    out = [relaxed_table()] + presets
    while len(out) < n:
        t = dict(rng.choice(presets))
        for _ in range(rng.randint(1, 4)):
            k = rng.choice(list(t.keys()))
            t[k] = max(0, t[k] + rng.choice([-2, -1, -1, 1, 1, 2]))
        if rng.random() < 0.3:
            t[rng.choice(['C+1', 'N+1', 'O-1', 'Fe+2', 'Si', 'Se', 'Na'])] = rng.randint(0, 6)
        out.append(t)
    return out


_RB = __import__('re').compile(r'(?P<bond>[-=#:/\\$])?(?:(?P<atom>\[[^\]]*\]|Br|Cl|[A-Za-z*])|(?P<ring>%\d\d|\d)|(?P<par>[()]))|(?P<dot>\.)')


def ring_bond_mismatch(x):
    """the two ends of a ring closure carry different explicit bond symbols (not both of them / or \\): the rejection the
    property text calls 'mismatched ring closures'; judged on the text alone"""
    open_ = {}
    for m in _RB.finditer(x):
        r = m.group('ring')
        if not r:
            continue
        b = m.group('bond')
        if r in open_:
            a = open_.pop(r)
            if a is not None and b is not None and a != b and not (a in '/\\' and b in '/\\'):
                return True
        else:
            open_[r] = b
    return False


def blossom_class(x):
    """known-finding classifier computed by the MODEL: on the pruned aromatic graph of x the library's
    augmenting search (faithfully modelled, CPython set order included) returns something that is not a
    perfect matching, or gives up although one exists"""
    d = drv()
    g = d.one(['pruned_ds', S(x)])
    if 'ok' not in g:
        return None
    g = g['ok']
    m = d.one(['pm', g])
    if 'ok' not in m:
        return None
    if m['ok'] is None:
        return 'matching-no-blossom' if d.one(['haspm', g]) else None
    return None if d.one(['ispm', g, m['ok']]) else 'matching-no-blossom'


FUSED = ['c1ccc2ccccc2c1', 'c1ccc2[nH]ccc2c1', 'c1ccc2c(c1)[nH]c1ccccc12', 'c1ccc2c(c1)Cc1ccccc12', 'c1ccc2c(c1)c1ccccc21', 'c1ccc2cc3ccccc3cc2c1', 'c1ccc2occc2c1',
         'c1ccc2sccc2c1', 'c1ccc2ncccc2c1', 'c1cnc2ccccc2n1', 'c1ccc2c(c1)ccc1ccccc12', 'c1cc2ccc3cccc4ccc(c1)c2c34', 'c1ccc2c(c1)oc1ccccc12', 'c1ccc2c(c1)sc1ccccc12',
         'O=C1c2ccccc2-c2ccccc12', 'c1ccc(cc1)-c1ccccc1', 'c1ccc2c(c1)-c1cccc3cccc-2c13']


# rings whose closure bond can be a double or triple bond (the bond symbol then sits on a ring digit)
UNSAT_RINGS = ['C1#CCCCCCC1', 'C1=CCCCCCC1', 'N1C#CCCCCC1', 'C1CC#CCCCC1CC', 'C1=CC=CCCC1', 'O=C1C#CCCCCC1', 'C1#CCCCCCCCCCC1', 'C1CCC=CCCC1F']


def large_span_cases(rng, n):
    """ring closures and branches whose index Q needs two or three index symbols, at random values and around multiples of 256"""
    out = []
    qs = [rng.randint(16, 4090) for _ in range(n)] + [256 * k + d for k in rng.sample(range(1, 16), min(n // 3 + 1, 4)) for d in (-1, 0, 1, 15, 16)]
    for q in qs:
        if rng.random() < 0.5:
            out.append('C1' + 'C' * q + 'C1')
        else:
            out.append('OC(' + 'C' * (q + 1) + ')N')
    return out


def ring_symbol_cases(rng, n):
    """aromatic ring closures that need an explicit bond symbol (declared-single fusion bonds, biaryl bonds inside rings),
    written with the symbol on the opening digit only, on the closing digit only, or at random"""
    out = []
    while len(out) < n:
        unsat = rng.random() < 0.25
        m = mol_of(rng.choice(UNSAT_RINGS if unsat else FUSED))
        if m is None:
            continue
        m2 = gen_smiles.mutate_mol(m, rng) if (rng.random() < 0.7 and not unsat) else m
        for _ in range(3):
            x, _o = gen_smiles.respell(m2, rng, ring_sym=rng.choice(['open', 'open', 'close', None]), digits_after_branches=0.2)
            out.append(x)
    return out
