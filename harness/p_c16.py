"""C16 — index symbols are a shared base-16 positional code."""
import itertools
import core
from core import S, U, sf, call, drv

ID = 'C16'
TRUSTED = ['spec/IndexSpec.v: documented order of the sixteen index symbols transcribed by hand from docs/source/derivation.rst']


def _impl_funcs():
    try:
        from selfies.grammar_rules import get_index_from_selfies, get_selfies_from_index
        return get_index_from_selfies, get_selfies_from_index
    except Exception:
        return None, None


def run(rep, tier, seed, b):
    s_ = sf()
    gi, gs = _impl_funcs()
    d = drv()
    rng = core.rng_for(seed, ID)
    rep.rule = ('exhaustive n<4096 (+ sampled n up to 10^40, negatives) for the encoder-side conversion; '
                'all 18^3 triples over {16 index symbols, a foreign symbol, missing} and random sequences of length 0..6 '
                'for the decoder-side conversion; public API: decoder on ring/branch strings with crafted Q, encoder on crafted ring spans and branch lengths. '
                'non-trivial = distinct (direction, value) with value > 15 or a foreign/missing digit')
    try:
        alphabet = list(s_.constants.INDEX_ALPHABET)
    except Exception:
        alphabet = [U(x) for x in d.one(['alphabet', [S('')]]).get('ok', [])]
    # ---------------- encoder side
    ns = list(range(0, 4096)) + [4096, 4097, 65535, 65536, 16 ** 5 - 1, 16 ** 5]
    ns += [rng.randrange(16 ** k, 16 ** (k + 1)) for k in range(3, 34) for _ in range(3 if tier == 'quick' else 30)]
    ns += [-1, -2, -4096]
    model = d.batch([['idx_to', n] for n in ns])
    for n, m in zip(ns, model):
        rep.evaluations += 1
        mm = {'ok': [U(x) for x in m['ok']]} if 'ok' in m else m
        if gs is not None:
            im = call(gs, n)
            rep.impl_traces += 1
            if im != mm:
                rep.disagreements.append({'op': 'get_selfies_from_index', 'input': n, 'impl': im, 'model': mm})
            # oracle on the implementation: value, shortest, alphabet
            if n >= 0:
                ok = ('ok' in im and len(im['ok']) >= 1 and all(x in alphabet for x in im['ok'])
                      and d.one(['spec_idx', [S(x) for x in im['ok']]]) == n
                      and (n == 0 and len(im['ok']) == 1 or n > 0 and im['ok'][0] != alphabet[0])
                      and ((len(im['ok']) <= 3) == (n < 4096)))
                if not ok:
                    rep.oracle_failures.append({'clause': 'encoder-side conversion of n is the shortest base-16 code',
                                                'input': {'n': n}, 'impl': im})
            else:
                if 'ok' in im:
                    rep.oracle_failures.append({'clause': 'negative index must be rejected', 'input': {'n': n}, 'impl': im})
        if n > 15:
            rep.nontriv(('to', n))
    rep.sample({'get_selfies_from_index': 4095, 'model': [U(x) for x in d.one(['idx_to', 4095])['ok']]})
    # ---------------- decoder side
    univ = alphabet + ['[F]', None]
    seqs = [list(t) for t in itertools.product(univ, repeat=3)]
    for L in (0, 1, 2, 4, 5, 6):
        seqs += [[rng.choice(univ) for _ in range(L)] for _ in range(200 if tier == 'quick' else 3000)]
    enc = [[None if x is None else S(x) for x in q] for q in seqs]
    model = d.batch([['idx_from', q] for q in enc])
    spec = d.batch([['spec_idx', q] for q in enc])
    for q, m, sp in zip(seqs, model, spec):
        rep.evaluations += 1
        if gi is not None:
            im = call(gi, *q)
            rep.impl_traces += 1
            if im != {'ok': m}:
                rep.disagreements.append({'op': 'get_index_from_selfies', 'input': q, 'impl': im, 'model': m})
            if im != {'ok': sp}:
                rep.oracle_failures.append({'clause': 'decoder-side conversion = sum digit_i*16^(k-1-i), foreign/missing = 0',
                                            'input': {'symbols': q}, 'impl': im, 'spec': sp})
        if m > 15 or any(x is None or x == '[F]' for x in q):
            rep.nontriv(('from', tuple(q)))
    rep.sample({'get_index_from_selfies': ['[Ring1]', '[F]', None], 'model': d.one(['idx_from', [S('[Ring1]'), S('[F]'), None]])})
    # ---------------- public API: decoder places rings / sizes branches by the code
    tbl = core.T(s_.get_semantic_constraints())
    cases = []
    spans = [1, 2, 3, 14, 15, 16, 17, 31, 32, 255, 256, 257] + ([1000, 4094, 4095] if tier == 'thorough' else [300])
    for q in spans:
        for L in (1, 2, 3):
            if q >= 16 ** L:
                continue
            digs = []
            x = q
            for _ in range(L):
                digs.append(alphabet[x % 16])
                x //= 16
            digs = digs[::-1]
            n_atoms = q + 3
            cases.append(('ring', q, L, '[C]' * n_atoms + '[Ring%d]' % L + ''.join(digs) + '[O]'))
            cases.append(('branch', q, L, '[C][N]' + '[Branch%d]' % L + ''.join(digs) + '[C]' * (q + 1) + '[O]'))
            # truncated index (missing symbols count 0) and a foreign symbol in the last position
            cases.append(('ring-trunc', q, L, '[C]' * n_atoms + '[Ring%d]' % L + ''.join(digs[:-1])))
            cases.append(('ring-foreign', q, L, '[C]' * n_atoms + '[Ring%d]' % L + ''.join(digs[:-1]) + '[F]'))
    model = d.batch([['dec', tbl, S(c[3]), False, False] for c in cases])
    for c, m in zip(cases, model):
        rep.evaluations += 1
        rep.impl_traces += 1
        im = call(s_.decoder, c[3])
        mm = {'ok': U(m['ok'][0])} if 'ok' in m else m
        if im != mm:
            rep.disagreements.append({'op': 'decoder', 'input': c[3], 'impl': im, 'model': mm})
        # oracle: position of the ring closure / size of the branch in the output
        kind, q, L = c[0], c[1], c[2]
        if 'ok' in im:
            out = im['ok']
            exp = None
            if kind == 'ring':
                n_atoms = q + 3
                left = n_atoms - 1 - (q + 1)
                exp = 'C' * left + 'C1' + 'C' * q + 'C1O'
            elif kind == 'branch':
                exp = 'CN(' + 'C' * (q + 1) + ')O'
            elif kind in ('ring-trunc', 'ring-foreign'):
                # the last index digit is missing / foreign and reads 0
                q0 = q - q % 16
                n_atoms = q + 3
                left = n_atoms - 1 - (q0 + 1)
                if q0 == 0:    # ring onto the neighbouring atom: the existing bond becomes double
                    exp = 'C' * (n_atoms - 2) + 'C=C'
                else:
                    exp = 'C' * left + 'C1' + 'C' * q0 + 'C1'
            if exp is not None and out != exp:
                rep.oracle_failures.append({'clause': 'decoder reads Q through the base-16 code (%s, Q=%d, %d symbols)' % (kind, q, L),
                                            'input': {'selfies': c[3]}, 'impl': out, 'expected': exp})
        else:
            rep.oracle_failures.append({'clause': 'decoder accepts index symbols', 'input': {'selfies': c[3]}, 'impl': im})
        rep.nontriv(('api', kind, q, L))
    rep.sample({'decoder': cases[4][3][:80] + '...', 'kind': cases[4][0], 'Q': cases[4][1]})
    # ---------------- public API: encoder emits the code for ring spans / branch lengths
    for q in spans:
        smi = 'C1' + 'C' * q + 'C1'
        rep.evaluations += 1
        rep.impl_traces += 1
        im = call(s_.encoder, smi)
        if 'ok' not in im:
            rep.oracle_failures.append({'clause': 'encoder accepts a plain ring', 'input': {'smiles': smi}, 'impl': im})
            continue
        toks = list(s_.split_selfies(im['ok']))
        ring_at = max(i for i, t in enumerate(toks) if t.endswith('Ring1]') or t.endswith('Ring2]') or t.endswith('Ring3]')) \
            if any('Ring' in t for t in toks[q:]) else None
        # the ring symbol is the first symbol after q+2 atoms
        rs = toks[q + 2]
        L = int(rs[-2])
        digs = toks[q + 3:q + 3 + L]
        val = d.one(['spec_idx', [S(x) for x in digs]])
        want = d.one(['idx_to', q])
        if val != q or len(digs) != L or [U(x) for x in want['ok']] != digs:
            rep.oracle_failures.append({'clause': 'encoder writes ring span-1 in the shortest base-16 code', 'input': {'smiles': smi},
                                        'impl': toks[q + 2:], 'expected_Q': q})
        back = call(s_.decoder, im['ok'])
        if back != {'ok': smi}:
            rep.oracle_failures.append({'clause': 'ring span survives encoder->decoder', 'input': {'smiles': smi}, 'impl': back})
        rep.nontriv(('enc', q))
    rep.exhaustive = True
    rep.count('encoder-side n', len(ns))
    rep.count('decoder-side sequences', len(seqs))
    rep.count('public-API strings', len(cases) + len(spans))


def replay(data):
    f = data['failure']
    gi, gs = _impl_funcs()
    s_ = sf()
    inp = f['input']
    out = {'input': inp}
    if 'n' in inp:
        out['impl'] = call(gs, inp['n'])
        out['model'] = drv().one(['idx_to', inp['n']])
        out['fails'] = out['impl'] != ({'ok': [U(x) for x in out['model']['ok']]} if 'ok' in out['model'] else out['model'])
    elif 'symbols' in inp:
        out['impl'] = call(gi, *inp['symbols'])
        out['spec'] = drv().one(['spec_idx', [None if x is None else S(x) for x in inp['symbols']]])
        out['fails'] = out['impl'] != {'ok': out['spec']}
    elif 'selfies' in inp:
        out['impl'] = call(s_.decoder, inp['selfies'])
        out['expected'] = f.get('expected')
        out['fails'] = out['impl'] != {'ok': f.get('expected')}
    elif 'smiles' in inp:
        enc = call(s_.encoder, inp['smiles'])
        out['impl'] = enc
        out['back'] = call(s_.decoder, enc.get('ok', ''))
        out['fails'] = out['back'] != {'ok': inp['smiles']}
    return out


def known(f):
    return None
