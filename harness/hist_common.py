"""history generation / replay shared by C11, C12 (and C07's table part)."""
import json
import os
import subprocess
import core
import gens
from core import S, U, drv

RUNNER = os.path.join(core.VERIF, 'harness', 'hist_runner.py')


def impl_run(ops, hashseed='0'):
    env = dict(os.environ)
    env['PYTHONPATH'] = core.REPO
    env['PYTHONHASHSEED'] = str(hashseed)
    p = subprocess.run([core.PY, RUNNER], input=json.dumps(ops) + '\n', env=env, stdout=subprocess.PIPE,
                       stderr=subprocess.PIPE, text=True, timeout=120)
    if p.returncode != 0 or not p.stdout.strip():
        return {'crash': p.stderr[-500:]}
    return json.loads(p.stdout)


def enc_ops(ops):
    """python-str ops -> driver encoding (code points)"""
    out = []
    for op in ops:
        k = op[0]
        if k == 'new':
            out.append(['new', [[None if kk is None else S(kk), v] for kk, v in op[1]]])
        elif k == 'set':
            r = op[1]
            out.append(['set', ['name', S(r[1])] if r[0] == 'name' else r])
        elif k == 'preset':
            out.append(['preset', S(op[1])])
        elif k == 'mut':
            m = op[2]
            if m[0] == 'setitem':
                m = ['setitem', S(m[1]), m[2]]
            elif m[0] in ('del', 'add'):
                m = [m[0], S(m[1])]
            out.append(['mut', op[1], m])
        elif k in ('dec', 'enc'):
            out.append([k, S(op[1]), op[2], op[3]])
        else:
            out.append(op)
    return out


def model_run(ops):
    res = drv().one(['hist', enc_ops(ops)])
    out = []
    for op, o in zip(ops, res):
        if o is None:
            out.append(None)
        elif 'err' in o:
            out.append(o)
        elif 'dict' in o:
            out.append({'dict': [[None if k is None else U(k), v] for k, v in o['dict']]})
        elif 'set' in o:
            out.append({'set': sorted(U(x) for x in o['set'])})
        elif 'trans' in o:
            t = o['trans']
            if 'ok' in t:
                smi = U(t['ok'][0])
                attr = op[3]
                maps = [[a[0], U(a[1]), None if a[2] is None else [[i, U(tk)] for i, tk in a[2]]] for a in t['ok'][1]] if attr else None
                out.append({'trans': {'ok': [smi, maps]}})
            else:
                out.append({'trans': t})
    return out


BAD_KEYS = ['C+0', 'C+01', 'C+', 'C-', 'Xx', 'c', 'C+1x', 'C+²', '', 'C++1', 'Cl+-1', '+1', 'C 1', '?+1', 'C+٣', 'C-0',
            'C\n', 'Fe+2\n', ' C', 'C ', 'C\t', '\nC', 'C+1\n', 'C\r', 'N-1 ', 'C+1\n\n', '[C]', 'C:1', 'C@', 'CH', 'C1', '13C']


def random_dict(rng, valid=None):
    """a dict argument: valid, or invalid for one of the validator's reasons"""
    if valid is None:
        valid = rng.random() < 0.6
    t = gens.random_table(rng)
    items = [[k, v] for k, v in t.items()]
    if valid:
        if rng.random() < 0.1:
            items[rng.randrange(len(items))][1] = rng.choice([True, False])    # bool is an int
        return items
    why = rng.random()
    if why < 0.2:
        items = [kv for kv in items if kv[0] != '?']
    elif why < 0.5:
        items.insert(rng.randrange(len(items) + 1), [rng.choice(BAD_KEYS), rng.randint(0, 8)])
    elif why < 0.7:
        items[rng.randrange(len(items))][1] = rng.choice([-1, -5, None])
    elif why < 0.8:
        items.insert(rng.randrange(len(items) + 1), [None, 3])                 # non-str key
    else:
        items.insert(rng.randrange(len(items) + 1), [rng.choice(BAD_KEYS), None])
    return items


def random_history(rng, n_ops=None, translate=True, smiles=None):
    ops = []
    held = 0
    n = n_ops or rng.randint(3, 14)
    for _ in range(n):
        k = rng.random()
        if k < 0.16:
            ops.append(['new', random_dict(rng)]); held += 1
            if rng.random() < 0.85:
                ops.append(['set', ['held', held - 1]])
        elif k < 0.26:
            ops.append(['set', ['name', rng.choice(['default', 'octet_rule', 'hypervalent', 'hypervalent', 'bogus', ''])]])
        elif k < 0.29:
            ops.append(['set', ['junk']])
        elif k < 0.41:
            ops.append(['get']); held += 1
        elif k < 0.49:
            ops.append(['preset', rng.choice(['default', 'octet_rule', 'hypervalent', 'nope'])])
            if ops[-1][1] != 'nope':
                held += 1
        elif k < 0.60:
            ops.append(['alpha']); held += 1
        elif k < 0.80 and held > 0:
            i = rng.randrange(held)
            m = rng.choice([['setitem', rng.choice(['C', 'N', '?', 'S', 'Fe+2', 'bogus']), rng.choice([0, 1, 2, 7, None])],
                            ['del', rng.choice(['C', '?', 'N', 'O'])], ['add', '[BOGUS]'], ['add', '[#Zz]'], ['clear']])
            ops.append(['mut', i, m])
            if rng.random() < 0.3:
                ops.append(['set', ['held', i]])        # re-submit a mutated object
        elif translate:
            if rng.random() < 0.65 or not smiles:
                x = gens.live_selfies(rng, maxlen=25, bad=0.01)
                ops.append(['dec', x, rng.random() < 0.15, rng.random() < 0.3])
            else:
                ops.append(['enc', rng.choice(smiles), rng.random() < 0.5, rng.random() < 0.3])
    return ops


def h_boundary(rng):
    """an atom symbol whose explicit H count is one or two above what table SMALL allows for the element and fits table BIG;
    -> dict(sym, selfies, smiles, small, big) with small/big as ['name', preset] or ['items', [[k, v], ...]]"""
    from core import sf
    s_ = sf()
    if rng.random() < 0.35:
        e, h, small, big = rng.choice([('P', 5, 'octet_rule', 'default'), ('P', 4, 'octet_rule', 'hypervalent'), ('S', 3, 'octet_rule', 'default'),
                                       ('S', 5, 'octet_rule', 'hypervalent'), ('N', 4, 'default', 'hypervalent'), ('N', 5, 'octet_rule', 'hypervalent'),
                                       ('Cl', 3, 'default', 'hypervalent'), ('Br', 2, 'octet_rule', 'hypervalent')])
        small, big = ['name', small], ['name', big]
    else:
        base = s_.get_preset_constraints(rng.choice(['default', 'octet_rule', 'hypervalent']))
        e = rng.choice(['C', 'N', 'O', 'P', 'S', 'B', 'F', 'Si', 'Se'])
        cap = base.get(e, base['?'])
        if rng.random() < 0.5:
            cap = rng.randint(0, 5)
        ts = dict(base); ts[e] = cap
        h = cap + rng.randint(1, 2)
        if h > 9:
            h = 9; ts[e] = 8 if e in ts else ts.get(e, 8); ts[e] = min(ts[e], 8)
        tb = dict(base); tb[e] = h + rng.randint(0, 2)
        small, big = ['items', [[k, v] for k, v in ts.items()]], ['items', [[k, v] for k, v in tb.items()]]
    pre = rng.choice(['', '', '=', '#', '/'])
    hs = 'H' if (h == 1 and rng.random() < 0.5) else 'H%d' % h
    sym = '[%s%s%s]' % (pre, e, hs)
    return {'sym': sym, 'selfies': rng.choice(['%s', '[C]%s', '[C]%s[C]', '%s[F]', '[O][C]%s[Branch1][C][F][C]']).replace('%s', sym),
            'smiles': rng.choice(['[%s%s]', 'C[%s%s]', 'C[%s%s]C', 'F[%s%s]']) % (e, hs), 'small': small, 'big': big}


def set_ops(t, held):
    """ops that put table t in force; held = number of objects held so far -> (ops, new_held)"""
    if t[0] == 'name':
        return [['set', ['name', t[1]]]], held
    return [['new', t[1]], ['set', ['held', held]]], held + 1
