"""conc_runner.py — thread stress in THIS (fresh) interpreter: the calls are run serially first
in a second fresh process by the caller; here they run on N threads with a tiny switch interval
and cold caches.  stdin: JSON {"table":..., "calls":[["dec",x]|["enc",s,strict]...], "threads":N, "rounds":R}
stdout: JSON list of results in call order (last round)."""
import json
import sys
import threading
import warnings
warnings.simplefilter('ignore')
import selfies as sf


def one(c):
    try:
        if c[0] == 'dec':
            return {'ok': sf.decoder(c[1])}
        return {'ok': sf.encoder(c[1], strict=c[2])}
    except Exception as e:   # noqa
        return {'err': type(e).__name__, 'msg': str(e)}     # the text too: a message that quotes another call's input is an observation of it


def main():
    job = json.loads(sys.stdin.read())
    if job.get('table') is not None:
        sf.set_semantic_constraints(job['table'])
    calls = job['calls']
    n = job.get('threads', 0)
    if n == 0:
        print(json.dumps([one(c) for c in calls]))
        return
    sys.setswitchinterval(1e-6)
    if job.get('same'):
        # every call is made by ALL threads at the same moment (first-seen races on anything keyed by the input)
        # thread 0 starts at once, the others after a random delay of at most about one call (calibrated spin loop),
        # so that some thread arrives while another is in the middle of the same call
        import random
        import time
        per = [[None] * n for _ in calls]
        barrier = threading.Barrier(n)

        def spin(m):
            x = 0
            for i in range(m):
                x += i
            return x
        t0 = time.perf_counter(); spin(200000); t_spin = (time.perf_counter() - t0) / 200000
        kek = "C1=CC=CC=C1." * 20 + "C"
        sf.encoder(kek)
        t0 = time.perf_counter(); sf.encoder(kek); t_char = (time.perf_counter() - t0) / len(kek)
        sys.setswitchinterval(1e-6)

        def w2(k):
            rng = random.Random(1000 * job.get('seed', 0) + k)
            for i, c in enumerate(calls):
                delay = 0 if k == 0 else int(rng.uniform(0, 1.2) * t_char * len(c[1]) / t_spin)
                barrier.wait()
                spin(delay)
                per[i][k] = one(c)
        ths = [threading.Thread(target=w2, args=(k,)) for k in range(n)]
        for t in ths:
            t.start()
        for t in ths:
            t.join()
        print(json.dumps({'per_thread': per}))
        return
    results = [None] * len(calls)
    bad = []
    barrier = threading.Barrier(n)

    def worker(k):
        barrier.wait()
        for r in range(job.get('rounds', 1)):
            for i in range(k, len(calls), n):
                res = one(calls[i])
                if results[i] is not None and results[i] != res:
                    bad.append([i, results[i], res])
                results[i] = res
    ths = [threading.Thread(target=worker, args=(k,)) for k in range(n)]
    for t in ths:
        t.start()
    for t in ths:
        t.join()
    print(json.dumps({'results': results, 'unstable': bad}))


if __name__ == '__main__':
    main()
