"""core.py — shared machinery of the selfies verification checks.

build (translator -> Generated.v -> coq cone -> extraction -> OCaml driver),
proof status (coqc exit status + Print Assumptions + forbidden-word scan),
driver protocol, implementation access, parallel map, verdict / evidence.
See DESIGN.md section 3 for the protocol this implements.
"""
import fcntl
import hashlib
import json
import multiprocessing as mp
import os
import random
import re
import subprocess
import sys
import time

VERIF = os.path.dirname(os.path.dirname(os.path.abspath(__file__)))
REPO = os.environ.get('VERIF_REPO', '/repo')
COQ = os.path.join(VERIF, 'coq')
OCAML = os.path.join(VERIF, 'ocaml')
BUILD = os.path.join(VERIF, 'build')
PY = '/venv/bin/python'
NPROC = int(os.environ.get('VERIF_JOBS', '16'))

AXIOM_WHITELIST = ()   # stdlib axioms we allow; none are needed so far

FORBIDDEN = re.compile(
    r'\b(Admitted|admit|Axiom|Axioms|Parameter|Parameters|Conjecture|Conjectures|'
    r'Hypothesis|Hypotheses|Variable|Variables|Unset\s+Guard|bypass_check|'
    r'type-in-type|impredicative-set|Admit\s+Obligations|Unset\s+Universe|Unset\s+Positivity)\b')


def sh(cmd, timeout=1800, cwd=None, env=None):
    e = dict(os.environ)
    if env:
        e.update(env)
    p = subprocess.run(cmd, shell=True, cwd=cwd, env=e, stdout=subprocess.PIPE,
                       stderr=subprocess.STDOUT, timeout=timeout, text=True, errors='replace')
    return p.returncode, p.stdout


# --------------------------------------------------------------------------- build
class BuildResult:
    def __init__(self):
        self.gen_status = {}
        self.model_ok = False
        self.driver_ok = False
        self.driver_stale = False
        self.proof_ok = False
        self.proof_log = ''
        self.assumptions = []      # list of (theorem-ish, text)
        self.axioms_ok = False
        self.forbidden = []
        self.cone = []
        self.obligations = 0
        self.discharged = 0
        self.failed_file = None
        self.wall = 0.0
        self.coqchk = None         # thorough tier: summary of coqchk -o on the cone


def _coq_args():
    out = []
    for line in open(os.path.join(COQ, '_CoqProject')):
        line = line.strip()
        if line.startswith('-Q'):
            out.append(line)
    return ' '.join(out) + ' -w -notation-overridden,-deprecated-hint-without-locality,-abstract-large-number'


def _strip_comments(text):
    # remove (* ... *) comments (nested) so that the word scan sees only code
    out = []
    depth = 0
    i = 0
    n = len(text)
    while i < n:
        if text.startswith('(*', i):
            depth += 1
            i += 2
        elif text.startswith('*)', i) and depth > 0:
            depth -= 1
            i += 2
        else:
            if depth == 0:
                out.append(text[i])
            i += 1
    return ''.join(out)


def scan_forbidden(files):
    """Admitted / Axiom / Parameter / … anywhere in the development.  `Variable`
    and `Hypothesis` are allowed only inside a Section (checked syntactically)."""
    bad = []
    for f in files:
        try:
            text = _strip_comments(open(f).read())
        except OSError:
            continue
        depth = 0
        for ln, line in enumerate(text.split('\n'), 1):
            if re.match(r'\s*Section\b', line):
                depth += 1
            if re.match(r'\s*End\b', line) and depth > 0:
                depth -= 1
            for m in FORBIDDEN.finditer(line):
                w = m.group(1)
                if w.split()[0] in ('Variable', 'Variables', 'Hypothesis', 'Hypotheses') and depth > 0:
                    continue
                bad.append('%s:%d:%s' % (os.path.relpath(f, VERIF), ln, w))
    return bad


def _cone_of(target_v):
    """transitive .v dependencies of a file inside coq/ (via coqdep)."""
    rc, out = sh('coqdep -f _CoqProject 2>/dev/null', cwd=COQ)
    deps = {}
    for line in out.split('\n'):
        if ':' not in line:
            continue
        lhs, rhs = line.split(':', 1)
        tg = [t for t in lhs.split() if t.endswith('.vo')]
        if not tg:
            continue
        ds = [d[:-1] for d in rhs.split() if d.endswith('.vo') and not d.startswith('/')]
        deps[tg[0][:-1]] = ds
    seen = []

    def go(v):
        if v in seen:
            return
        seen.append(v)
        for d in deps.get(v, []):
            go(d)
    go(target_v)
    return seen


OBLIGATION = re.compile(r'^\s*(Theorem|Lemma|Corollary|Example|Fact|Proposition|Remark)\s+(\w+)', re.M)


def build(prop_id, want_props=True, log=print, tier='quick'):
    """Regenerate, build model+driver, build the property's proof cone.
    Never raises on a broken proof: reports it."""
    t0 = time.time()
    r = BuildResult()
    os.makedirs(BUILD, exist_ok=True)
    lock = open(os.path.join(BUILD, '.lock'), 'w')
    fcntl.flock(lock, fcntl.LOCK_EX)
    try:
        env = {'PYTHONPATH': REPO, 'PYTHONHASHSEED': '0'}
        rc, out = sh('%s translator/gen.py %s coq/gen/Generated.v build/gen_status.json' % (PY, REPO),
                     cwd=VERIF, env=env, timeout=600)
        if rc != 0:
            r.proof_log = 'translator failed:\n' + out[-3000:]
            r.gen_status = {'error': out[-2000:]}
        else:
            r.gen_status = json.load(open(os.path.join(BUILD, 'gen_status.json')))
        mk = os.path.join(COQ, 'Makefile')
        if (not os.path.exists(mk)
                or os.path.getmtime(mk) < os.path.getmtime(os.path.join(COQ, '_CoqProject'))):
            sh('coq_makefile -f _CoqProject -o Makefile', cwd=COQ)
        # model + extraction
        rc, out = sh('timeout 1500 make -j%d extract/Extract.vo' % NPROC, cwd=COQ, timeout=1600)
        r.model_ok = (rc == 0)
        if not r.model_ok:
            r.proof_log += '\nMODEL BUILD FAILED:\n' + out[-4000:]
        drv = os.path.join(OCAML, 'driver')
        if r.model_ok:
            src_ml = os.path.join(COQ, 'model.ml')
            need = True
            stamp = os.path.join(OCAML, '.stamp')
            h = hashlib.sha256(open(src_ml, 'rb').read() + open(os.path.join(OCAML, 'driver.ml'), 'rb').read()).hexdigest()
            if os.path.exists(stamp) and os.path.exists(drv) and open(stamp).read() == h:
                need = False
            if need:
                sh('cp %s/model.ml %s/model.mli %s/' % (COQ, COQ, OCAML))
                rc, out = sh('ocamlfind ocamlopt -O2 -w -a -package str model.mli model.ml driver.ml -o driver 2>&1'
                             ' || ocamlfind ocamlopt -w -a model.mli model.ml driver.ml -o driver',
                             cwd=OCAML, timeout=900)
                if rc == 0:
                    open(stamp, 'w').write(h)
                else:
                    r.proof_log += '\nDRIVER BUILD FAILED:\n' + out[-4000:]
            r.driver_ok = os.path.exists(drv) and (not need or rc == 0)
        if not r.driver_ok and os.path.exists(drv):
            r.driver_stale = True
        # proof cone
        if want_props:
            target = 'props/%s.v' % prop_id
            r.cone = _cone_of(target)
            rc, out = sh('timeout 2400 make -j%d props/%s.vo' % (NPROC, prop_id), cwd=COQ, timeout=2500)
            r.proof_ok = (rc == 0)
            if rc != 0:
                r.proof_log += '\nPROOF BUILD FAILED (props/%s.vo):\n' % prop_id + out[-6000:]
                m = re.search(r'File "\./([^"]+)", line (\d+)', out)
                if m:
                    r.failed_file = '%s:%s' % (m.group(1), m.group(2))
            # obligations in the cone
            names = []
            for v in r.cone:
                try:
                    txt = _strip_comments(open(os.path.join(COQ, v)).read())
                except OSError:
                    continue
                names += ['%s:%s' % (v, m.group(2)) for m in OBLIGATION.finditer(txt)]
            r.obligations = len(names)
            if r.proof_ok:
                r.discharged = len(names)
            else:
                # obligations in the files of the cone that did compile (their .vo is current)
                done = 0
                for v in r.cone:
                    pv = os.path.join(COQ, v)
                    if os.path.exists(pv + 'o') and os.path.getmtime(pv + 'o') >= os.path.getmtime(pv):
                        done += sum(1 for n in names if n.startswith(v + ':'))
                r.discharged = done
            if r.proof_ok:
                rc, out = sh('timeout 600 coqc %s props/%s.v' % (_coq_args(), prop_id), cwd=COQ, timeout=700)
                closed = out.count('Closed under the global context')
                ax = re.findall(r'Axioms:\n((?:.+\n)+)', out)
                r.assumptions = ['closed x%d' % closed] + [a.strip() for a in ax]
                r.axioms_ok = (rc == 0) and not ax
                # every theorem of the props file must be followed by Print Assumptions
                ptxt = _strip_comments(open(os.path.join(COQ, target)).read())
                thms = [m.group(2) for m in OBLIGATION.finditer(ptxt) if m.group(1) == 'Theorem']
                printed = re.findall(r'Print\s+Assumptions\s+(\w+)', ptxt)
                missing = [t for t in thms if t not in printed]
                if missing:
                    r.axioms_ok = False
                    r.assumptions.append('no Print Assumptions for: ' + ','.join(missing))
                if closed < len(thms):
                    r.axioms_ok = False
            if r.proof_ok and tier == 'thorough':
                # independent re-check of the compiled cone (coqchk -o), cached by the hash of its .vo files
                hh = hashlib.sha256()
                for v in sorted(r.cone):
                    try:
                        hh.update(open(os.path.join(COQ, v + 'o'), 'rb').read())
                    except OSError:
                        hh.update(v.encode())
                cache = os.path.join(BUILD, 'coqchk_%s.json' % prop_id)
                got = None
                if os.path.exists(cache):
                    try:
                        c = json.load(open(cache))
                        if c.get('hash') == hh.hexdigest():
                            got = c
                    except ValueError:
                        got = None
                if got is None:
                    qargs = ' '.join(l.strip() for l in open(os.path.join(COQ, '_CoqProject')) if l.startswith('-Q'))
                    rc, out = sh('timeout 2400 coqchk -silent -o %s Selfies.%s' % (qargs, prop_id), cwd=COQ, timeout=2500)
                    summ = out[out.find('CONTEXT SUMMARY'):] if 'CONTEXT SUMMARY' in out else out[-1500:]
                    fields = dict((k.strip(), v.strip()) for k, v in re.findall(r'\* ([^:\n]+):\s*([^\n]*)', summ))
                    ok = (rc == 0 and fields.get('Axioms') == '<none>'
                          and all(v == '<none>' for k, v in fields.items() if k != 'Theory'))
                    got = {'hash': hh.hexdigest(), 'ok': ok, 'rc': rc, 'fields': fields, 'tail': summ[-1200:]}
                    json.dump(got, open(cache, 'w'), indent=1)
                r.coqchk = got
                if not got['ok']:
                    r.axioms_ok = False
                    r.assumptions.append('coqchk -o does not report a closed, fully checked context: ' + json.dumps(got.get('fields'))[:400])
            allv = []
            for root, _, fs in os.walk(COQ):
                allv += [os.path.join(root, f) for f in fs if f.endswith('.v') and not f.startswith('Tmp_')]
            r.forbidden = scan_forbidden(allv)
    finally:
        fcntl.flock(lock, fcntl.LOCK_UN)
        lock.close()
    r.wall = time.time() - t0
    return r


# --------------------------------------------------------------------------- driver
class Driver:
    """line protocol around the extracted model (ocaml/driver)."""

    def __init__(self):
        self.p = subprocess.Popen([os.path.join(OCAML, 'driver')], stdin=subprocess.PIPE,
                                  stdout=subprocess.PIPE, bufsize=1 << 20)

    def batch(self, reqs):
        """send all requests, read all answers; the writer runs in a thread so that
        neither pipe can fill up while the other side is blocked"""
        import threading
        if not reqs:
            return []
        data = ''.join(json.dumps(q, separators=(',', ':')) + '\n' for q in reqs).encode()
        err = []

        def writer():
            try:
                self.p.stdin.write(data)
                self.p.stdin.flush()
            except Exception as e:   # noqa
                err.append(e)
        th = threading.Thread(target=writer, daemon=True)
        th.start()
        out = []
        for _ in range(len(reqs)):
            line = self.p.stdout.readline()
            if not line:
                raise RuntimeError('driver died (%s)' % (err[:1],))
            out.append(json.loads(line))
        th.join()
        return out

    def one(self, req):
        return self.batch([req])[0]

    def close(self):
        try:
            self.p.stdin.close()
            self.p.wait(timeout=5)
        except Exception:
            self.p.kill()


_DRV = None


def drv():
    global _DRV
    if _DRV is None:
        _DRV = Driver()
    return _DRV


def S(s):
    """python str -> list of code points"""
    return [ord(c) for c in s]


def U(l):
    """list of code points -> python str"""
    return ''.join(chr(c) for c in l)


def T(d):
    """constraint dict -> model table (insertion order)"""
    return [[S(k), int(v)] for k, v in d.items()]


# --------------------------------------------------------------------------- implementation
_SF = None


def sf():
    """the implementation under test: /repo's working tree (never the installed copy)"""
    global _SF
    if _SF is None:
        for m in [m for m in sys.modules if m == 'selfies' or m.startswith('selfies.')]:
            del sys.modules[m]
        if sys.path[0] != REPO:
            sys.path.insert(0, REPO)
        import selfies
        assert os.path.abspath(selfies.__file__).startswith(os.path.abspath(REPO) + os.sep), selfies.__file__
        _SF = selfies
    return _SF


def call(f, *a, **k):
    """run an implementation call, mapping the outcome to {'ok': v} | {'err': ClassName}"""
    try:
        return {'ok': f(*a, **k)}
    except RecursionError:
        return {'err': 'RecursionError'}
    except BaseException as e:   # noqa
        if isinstance(e, (KeyboardInterrupt, SystemExit)):
            raise
        return {'err': type(e).__name__}


# --------------------------------------------------------------------------- parallel map
def _worker_init():
    global _DRV
    _DRV = None      # never share the parent's driver pipes


def _run_chunk(args):
    modname, fname, chunk, extra = args
    mod = __import__(modname)
    f = getattr(mod, fname)
    return f(chunk, extra)


def pmap(modname, fname, items, extra=None, chunk=400, procs=None):
    """apply module.fname(chunk, extra) -> list over chunks of items in parallel
    (each worker has its own driver and its own import of the implementation)."""
    procs = procs or NPROC
    chunks = [items[i:i + chunk] for i in range(0, len(items), chunk)]
    if not chunks:
        return []
    if len(chunks) == 1 or procs == 1:
        out = []
        for c in chunks:
            out += _run_chunk((modname, fname, c, extra))
        return out
    ctx = mp.get_context('fork')
    with ctx.Pool(min(procs, len(chunks)), initializer=_worker_init) as pool:
        res = pool.map(_run_chunk, [(modname, fname, c, extra) for c in chunks])
    out = []
    for r in res:
        out += r
    return out


# --------------------------------------------------------------------------- verdict
class Report:
    def __init__(self, prop_id, tier, seed):
        self.prop = prop_id
        self.tier = tier
        self.seed = seed
        self.t0 = time.time()
        self.evaluations = 0
        self.nontrivial = set()
        self.impl_traces = 0
        self.samples = []
        self.dist = {}
        self.disagreements = []     # correspondence: model != impl on obs_P
        self.oracle_failures = []   # property conclusion false on the implementation
        self.known_hits = {}
        self.notes = []
        self.rule = ''
        self.extra = {}
        self.exhaustive = False

    def count(self, key, n=1):
        self.dist[key] = self.dist.get(key, 0) + n

    def sample(self, x, cap=12):
        if len(self.samples) < cap:
            self.samples.append(x)

    def nontriv(self, key):
        self.nontrivial.add(key if isinstance(key, (str, int, tuple)) else json.dumps(key, sort_keys=True))


def load_known(prop_id):
    p = os.path.join(VERIF, 'known_findings.json')
    if not os.path.exists(p):
        return []
    data = json.load(open(p))
    return [f for f in data.get('findings', []) if prop_id in f.get('properties', [])]


def next_replay_path(prop_id):
    d = os.path.join(VERIF, 'replays')
    os.makedirs(d, exist_ok=True)
    n = 0
    while os.path.exists(os.path.join(d, '%s-%d.json' % (prop_id, n))):
        n += 1
    return os.path.join(d, '%s-%d.json' % (prop_id, n))


def write_evidence(prop_id, tier, seed, b, rep, violations, trusted_extra=None, level='proof'):
    os.makedirs(os.path.join(VERIF, 'evidence'), exist_ok=True)
    tb = [
        'Coq 8.16.1 kernel (coqc, full .vo build; vm_compute used for finite sweeps and witnesses; no native_compute)',
        'axioms: none declared; Print Assumptions of every theorem in props/%s.v: %s' % (prop_id, '; '.join(b.assumptions) or 'n/a'),
        'translator/gen.py (tables by evaluation, next_*_state by ast, shared-state footprint); status: %s'
        % json.dumps(b.gen_status.get('functions', {})),
        'extraction: ExtrOcamlBasic only (bool, option, unit, list, prod, sumbool, sumor); no Extract Constant; N/Z/nat stay inductives; OCaml 4.13.1; ocaml/driver.ml line protocol',
        'correspondence harness (harness/*.py): generators, differ, canonicalisation; CPython semantics of str/list/dict/re/int as modelled in coq/model',
        'hand-written model coq/model/*.v is MODELLED, tied to /repo by differential correspondence at the public API on this run',
    ] + (trusted_extra or [])
    cov = {
        'obligations': b.obligations,
        'discharged': b.discharged,
        'checker_cmd': 'cd /verif/coq && make props/%s.vo && coqc props/%s.v  (Print Assumptions)' % (prop_id, prop_id),
        'trusted_base': tb,
        'evaluations': rep.evaluations,
        'distinct_nontrivial': len(rep.nontrivial),
        'rule': rep.rule,
        'samples': rep.samples[:12] or ['(no case explored)'],
        'traces_validated_against_impl': rep.impl_traces,
        'exhaustive': bool(rep.exhaustive),
        'input_distribution': rep.dist,
        'proof_cone_files': b.cone,
        'proof_ok': b.proof_ok,
        'axioms_ok': b.axioms_ok,
        'coqchk': ({'ok': b.coqchk['ok'], 'fields': b.coqchk.get('fields')} if b.coqchk else 'not run (thorough tier only)'),
        'forbidden_words': b.forbidden,
        'translator': b.gen_status.get('functions', {}),
        'correspondence_disagreements': len(rep.disagreements),
        'oracle_failures_on_impl': len(rep.oracle_failures),
        'known_findings_reproduced': rep.known_hits,
        'build_wall_s': round(b.wall, 1),
    }
    if level == 'translation_validation':
        cov['programs'] = rep.evaluations                      # translation instances validated on this run
        cov['disagreements_checked'] = len(rep.disagreements) + len(rep.oracle_failures)
    if cov['discharged'] < 1:
        del cov['discharged']     # schema: a proof-level record with nothing discharged falls back to the generic counts
    cov.update(rep.extra)
    ev = {
        'property_id': prop_id,
        'tier': tier,
        'seed': seed,
        'level': level,
        'coverage': cov,
        'assumptions': rep.notes,
        'wall_s': round(time.time() - rep.t0, 2),
        'violations': violations,
    }
    path = os.path.join(VERIF, 'evidence', '%s.json' % prop_id)
    tmp = path + '.tmp'
    json.dump(ev, open(tmp, 'w'), indent=1, default=str)
    os.replace(tmp, path)
    return path


def rng_for(seed, tag):
    return random.Random('%s/%s' % (seed, tag))
