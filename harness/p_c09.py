"""C09 — encoder is total: returns or raises EncoderError, always terminates."""
import re
import time
import core
import gens
import gen_smiles
import enc_side as E
import dec_common
from core import S, U, sf, call, drv

ID = 'C09'
TRUSTED = ['the model carries the interpreter\'s int() digit limit explicitly; Python recursion (one frame per branch nesting level in _fragment_to_selfies) is not in the model: '
           'both are known findings with classifiers (nesting depth, digit run)']


def classify(x, err):
    if err == 'RecursionError':
        # the known finding is one Python frame per level of branch nesting: only inputs nested about as deep as the interpreter's
        # recursion limit belong to it; a RecursionError on a shallow input (e.g. a long unbranched chain) is a new violation
        depth = best = 0
        for c in x:
            if c == '(':
                depth += 1
                best = max(best, depth)
            elif c == ')':
                depth -= 1
        import sys
        return 'nesting-depth-over-recursion-limit' if best >= sys.getrecursionlimit() - 150 else None
    if err == 'ValueError' and max((len(m) for m in re.findall(r'\d+', x)), default=0) > 4300:
        return 'digit-run-over-int-limit'
    if err == 'ValueError' and any(ord(c) > 127 for c in x) and max((len(m) for m in re.findall(r'\d+', x)), default=0) > 4300:
        return 'digit-run-over-int-limit'
    return None


def outcome(r):
    return 'returns' if 'ok' in r else r['err']


def work(chunk, extra):
    s_ = sf()
    d = drv()
    out = []
    for (t, x, strict, attr) in chunk:
        dec_common.set_table(s_, t)
        t0 = time.time()
        im = call(s_.encoder, x, strict=strict, attribute=attr)
        dt = time.time() - t0
        m = d.one(['enc', core.T(t), S(x), bool(strict), bool(attr)])
        out.append((outcome(im), outcome(m), dt, s_.get_semantic_constraints() == dict(t)))
    return out


SPECIAL = ["", "(", ")", "C(", "C)", "1C", "C%1", "C%٣٣", "(C)", ".C", "C..C", "C.", "%12", "C=", "C=(C)", "[C", "C]", "C11", "C1C1", "C12CC12", "C%12CC%12",
           "C=1CC=1", "C=1CC#1", "C/1CC\\1", "C-1CC1", "Cc", "c:c", "F:F", "[Fe]:C", "F:1CC1", "C1CC[Na]:1", "c1cc1", "c1cccc1", "C²CC²", "C0CC0", "C%00CC%00",
           "[]", "[[C]]", "[C@@@H]", "[CH-+]", "[C+-]", "[13]", "[H]", "[HH]", "[2H]", "[Cl-]", "[cl]", "[Xx]", "[C:1]", "[C:]", "[C:x]", "C$C", "C*C", "*", "$", "C~C",
           "C(C)(C)(C)(C)(C)C", "C=C=C=C", "C#C#C", "[Fe+10]", "[Fe-100]", "[C+0]", "[C-0]", "[C+01]", "[001C]", "[CH0]", "[CH00]", "[CH10]", "C(=O)(=O)=O",
           "c1ccccc1" * 30, "C" * 3000, "C(" * 300 + "C" + ")" * 300, "C1" + "C" * 5000 + "1", "C%99" + "C" * 10 + "%99", "[C@TB1]", "[C@@H](C)(N)O", "N[C@@H](C)C(=O)O",
           "F/C=C/F", "F/C=C\\F", "C/C=C/1CC1", "C\\1CC/1", "[\\C]", "/C", "C/", "C//C", "C/=C", "C=/C"]


def run(rep, tier, seed, b):
    rng = core.rng_for(seed, ID)
    t0 = E.relaxed_table()
    tabs = [t0, sf().get_preset_constraints('default')]
    n = 30000 if tier == 'quick' else 600000
    base = E.gen_smiles_cases(rng, n // 3, mutate=0.3, maxlen=60)
    items = []
    for x in base:
        items.append((rng.choice(tabs), gen_smiles.malformed(x, rng), rng.random() < 0.5, rng.random() < 0.3))
        items.append((rng.choice(tabs), gen_smiles.malformed(gen_smiles.malformed(x, rng), rng), rng.random() < 0.5, rng.random() < 0.3))
    pool = list('CNOSPFIclBr[]()=#:/\\.-+@H%0123456789nosp*$') + ['Cl', 'Br', '[nH]', '[Fe]', '٣', '²', ' ', 'é', '\n', '\x00', '%1', '%12', '[C@@H]']
    for _ in range(n // 3):
        x = ''.join(rng.choice(pool) for _ in range(rng.randint(0, 18)))
        items.append((rng.choice(tabs), x, rng.random() < 0.5, rng.random() < 0.3))
    for x in SPECIAL:
        for strict in (True, False):
            for attr in (True, False):
                items.append((tabs[1], x, strict, attr))
    # every element the live tables of _prune_from_ds know (AROMATIC_VALENCES / VALENCE_ELECTRONS / the aromatic subset), as an
    # aromatic ring member with and without H, charge, bracket: a table that names an element the other table lacks shows up here
    import selfies.constants as K
    els = sorted(set(K.AROMATIC_VALENCES) | set(K.VALENCE_ELECTRONS) | set(e.capitalize() for e in K.AROMATIC_SUBSET))
    for el in els:
        lo = el.lower()
        for x in ('c1cc[%sH]cc1' % lo, '[%s]1ccccc1' % lo, 'c1cc[%s]cc1' % lo, 'c1cc[%s+]cc1' % lo, 'c1cc[%s-]cc1' % lo, 'c1c[%sH2]ccc1' % lo,
                  '%s1cccc1' % lo, 'c1cc%scc1' % lo, '[%s]1[%s][%s][%s][%s]1' % (lo, lo, lo, lo, lo), '[%sH]1cccc1' % lo, 'C[%s]1cccc1' % lo):
            for strict in (True, False):
                items.append((tabs[1], x, strict, False))
    res = core.pmap('p_c09', 'work', items, chunk=500)
    slow = 0.0
    for it, (oi, om, dt, after) in zip(items, res):
        rep.evaluations += 1
        rep.impl_traces += 1
        rep.count(oi)
        slow = max(slow, dt)
        inp = {'table': it[0], 'smiles': it[1], 'strict': it[2], 'attribute': it[3]}
        if oi != om:
            rep.disagreements.append({'op': 'encoder outcome class', 'input': inp, 'impl': oi, 'model': om})
        if oi not in ('returns', 'EncoderError'):
            rep.oracle_failures.append({'clause': 'encoder returns or raises EncoderError; no other exception type escapes',
                                        'input': inp, 'impl': oi, 'klass': classify(it[1], oi)})
        if not after:
            rep.oracle_failures.append({'clause': 'the constraint table is left untouched by encoder', 'input': inp, 'impl': oi})
        if oi == 'EncoderError' or len(it[1]) > 20:
            rep.nontriv(it[1][:200] + str(it[2]) + str(it[3]))
    rep.extra['slowest_call_s'] = round(slow, 3)
    # the CPython set model itself (C09_encoder_total rests on it: distinct keys, complete lookups, probe loops that end): random add / pop / discard
    # scripts, compared after every operation (popped key or KeyError, iteration order = table order) and at the end (table size, len)
    import val_pyset as VP
    scripts = [VP.gen_script(rng) for _ in range(500 if tier == 'quick' else 8000)]
    for _ in range(20 if tier == 'quick' else 300):
        hi = rng.choice([1 << 10, 1 << 12, 5000])     # keys are node labels: small; the extracted model keeps nat keys in unary
        scripts.append([[rng.choice([0, 0, 0, 1, 2]), rng.randint(0, hi)] for _ in range(rng.randint(1, 120))])
    d_ = core.Driver()
    try:
        mres = []
        for i in range(0, len(scripts), 4):
            mres += d_.batch([['pyset', ops] for ops in scripts[i:i + 4]])
    finally:
        d_.close()
    nops = 0
    for ops, r in zip(scripts, mres):
        evs, mask, used = VP.run_py(ops)
        nops += len(ops)
        rep.impl_traces += 1
        ok = 'ok' in r and r['ok'][0] == evs and r['ok'][1] == mask and r['ok'][3] == used
        if not ok:
            rep.disagreements.append({'op': 'CPython set (add / pop / discard script)', 'input': {'ops': ops[:60]}, 'impl': str((evs[-1:], mask, used))[:300],
                                      'model': str(r.get('ok', r))[-300:]})
    rep.extra['pyset_scripts'] = len(scripts)
    rep.extra['pyset_operations'] = nops
    # the encoder after a history: the caller keeps (and edits, empties) the dict it passed to set_semantic_constraints, or a set call was rejected;
    # whatever table is in force, encoder() returns or raises EncoderError - nothing else (a KeyError from a table that lost its '?' entry, ...)
    import hist_common as H
    probes = ['[Xe](F)(F)(F)F', '[Na+].[Cl-]', '[C+2]', 'c1cc[se]c1', 'C[Si](C)(C)C', 'O=[U]=O', '[Fe+3]', 'C[N+](C)(C)C', 'CS(=O)(=O)C', 'B(F)(F)F', '[13CH4]', 'c1ccccc1[O-]']
    for _ in range(60 if tier == 'quick' else 1200):
        d0 = H.random_dict(rng, valid=True)
        for kv in d0:
            if isinstance(kv[1], bool):
                kv[1] = int(kv[1])
        ops = [['new', d0], ['set', ['held', 0]]] + [['enc', x, True, False] for x in rng.sample(probes, 2)]
        k = rng.random()
        if k < 0.4:
            ops.append(['mut', 0, ['del', '?']])
        elif k < 0.6:
            ops.append(['mut', 0, ['clear']])
        elif k < 0.8:
            ops.append(['mut', 0, ['setitem', rng.choice(['?', 'C', 'N', 'Xe']), rng.choice([None, -1, 0, 9])]])
        else:
            ops += [['new', H.random_dict(rng, valid=False)], ['set', ['held', 1]]]
        tail = [['enc', x, rng.random() < 0.8, rng.random() < 0.3] for x in probes + E.gen_smiles_cases(rng, 3, mutate=0.2, maxlen=40)]
        im = H.impl_run(ops + tail)
        rep.impl_traces += 1
        if not isinstance(im, list):
            rep.oracle_failures.append({'clause': 'encoder returns or raises EncoderError; no other exception type escapes (history run crashed)', 'input': {'ops': ops + tail}, 'impl': str(im)[:300], 'sequence': True})
            continue
        for op, o in zip(tail, im[len(ops):]):
            rep.evaluations += 1
            t = (o or {}).get('trans') or {}
            oi = 'returns' if 'ok' in t else t.get('err')
            rep.count('after a history: ' + str(oi))
            if oi not in ('returns', 'EncoderError'):
                rep.oracle_failures.append({'clause': 'encoder returns or raises EncoderError; no other exception type escapes (after the caller edited the dict it had passed to set_semantic_constraints, or after a rejected set call)',
                                            'input': {'ops': ops + [op]}, 'impl': oi, 'klass': classify(op[1], oi), 'sequence': True})
    for it in items[:3] + items[-2:]:
        rep.sample({'smiles': it[1][:100], 'strict': it[2], 'attribute': it[3]})
    rep.rule = ('dataset / re-spelt / mutated SMILES broken once or twice (deletions, insertions of brackets, digits, %%nn, bonds, dots, stereo marks, aromatic symbols, non-ASCII), '
                'random strings over a SMILES-like character pool, %d hand-written corner cases (self / mismatched / duplicate ring closures, aromatic bonds on non-aromatic elements, '
                'odd aromatic rings, long and nested inputs) x all flag combinations; every element of the live AROMATIC_VALENCES / VALENCE_ELECTRONS tables as an aromatic ring member (H, charge, bracket variants); outcome class compared with the model and judged. '
                'non-trivial = distinct input that is rejected or longer than 20 characters' % len(SPECIAL))


def known(f):
    s_ = sf()
    x = eval(f['witness']['smiles_expr'])
    r = call(s_.encoder, x)
    if 'err' in r and r['err'] != 'EncoderError':
        return 'encoder(%s) raises %s' % (f['witness']['smiles_expr'], r['err'])
    return None


def replay(data):
    i = data['failure']['input']
    r = work([(i['table'], i['smiles'], i.get('strict', True), i.get('attribute', False))], None)[0]
    return {'input': {k: (v if k != 'smiles' else v[:300]) for k, v in i.items()}, 'impl_outcome': r[0], 'model_outcome': r[1],
            'fails': r[0] not in ('returns', 'EncoderError')}
