"""C14 — tokenisation utilities agree with each other and with the translators."""
import os
import core
import gens
from core import S, U, sf, call, drv

ID = 'C14'
TRUSTED = ['spec/WfSpec.v: the well-formed language (sym \'.\'?)* with sym = \'[\' [^][.]* \']\' written by hand from the property text; '
           'its recogniser wf_parse is proved sound and complete (props/C14.v) and run on implementation outputs']

POOL = list("CNOSPFHclBrIabxyz0123456789=#@+-/\\:%() _") + ['é', '٣', '²', ' ', '\U0001F600', '\t', '\n', '§', 'ß', '\x00']


def rand_items(rng, maxn=8):
    items = []
    for _ in range(rng.randint(0, maxn)):
        k = rng.random()
        if k < 0.5:
            body = rng.choice(gens.ATOMS_MAIN + gens.BRANCH + gens.RING + gens.ATOMS_RICH + gens.SPECIAL + gens.LEGACY)[1:-1]
        else:
            body = ''.join(rng.choice(POOL) for _ in range(rng.randint(0, 7)))
        items.append([body, rng.random() < 0.25])
    return items


def split_obs(s_, x):
    toks = []
    try:
        for t in s_.split_selfies(x):
            toks.append(t)
        return [toks, False]
    except ValueError:
        return [toks, True]
    except BaseException as e:  # noqa
        return [toks, type(e).__name__]


def alpha_obs(s_, xs):
    r = call(s_.get_alphabet_from_selfies, xs)
    if 'ok' in r:
        return {'ok': sorted(r['ok'])}
    return r


def work(chunk, extra):
    """chunk: list of ('wf', items) | ('raw', string) | ('coll', [strings], wfflag)"""
    s_ = sf()
    d = drv()
    out = []
    for c in chunk:
        kind = c[0]
        dis, fail = [], []
        if kind in ('wf', 'raw'):
            if kind == 'wf':
                items = c[1]
                x = ''.join('[' + b + ']' + ('.' if dot else '') for b, dot in items)
            else:
                x = c[1]
            sx = S(x)
            m_split = d.one(['split', sx])
            m_split = [[U(t) for t in m_split[0]], m_split[1]]
            i_split = split_obs(s_, x)
            if i_split != m_split:
                dis.append({'op': 'split_selfies', 'input': x, 'impl': i_split, 'model': m_split})
            m_len = d.one(['len', sx])
            i_len = call(s_.len_selfies, x)
            if i_len != {'ok': m_len}:
                dis.append({'op': 'len_selfies', 'input': x, 'impl': i_len, 'model': m_len})
            # oracle on the implementation, for strings the *spec recogniser* accepts
            p = d.one(['wf_parse', sx])
            if p is not None:
                want = [U(t) for t in d.one(['wf_tokens', p])]
                if i_split != [want, False]:
                    fail.append({'clause': 'split_selfies yields exactly the symbols and dots', 'input': {'selfies': x}, 'impl': i_split, 'expected': want})
                elif ''.join(i_split[0]) != x:
                    fail.append({'clause': 'concatenation of the tokens is the original string', 'input': {'selfies': x}, 'impl': i_split})
                if i_len != {'ok': len(want)}:
                    fail.append({'clause': 'len_selfies = number of items yielded', 'input': {'selfies': x}, 'impl': i_len, 'expected': len(want)})
                if kind == 'wf' and [[U(b), dt] for b, dt in p] != [[b, dt] for b, dt in c[1]]:
                    fail.append({'clause': 'harness/spec mismatch on rendering', 'input': {'selfies': x}})
            elif kind == 'wf':
                fail.append({'clause': 'spec recogniser rejects a generated well-formed string (harness error)', 'input': {'selfies': x}})
            out.append((kind, x, p is not None, dis, fail))
        elif kind == 'coll':
            xs = c[1]
            m = d.one(['alphabet', [S(x) for x in xs]])
            mm = {'ok': sorted(U(t) for t in m['ok'])} if 'ok' in m else m
            im = alpha_obs(s_, xs)
            if im != mm:
                dis.append({'op': 'get_alphabet_from_selfies', 'input': xs, 'impl': im, 'model': mm})
            # "the given strings": whatever kind of iterable hands them over (list, tuple, one-shot iterators, dict keys)
            for kname, mk in (('tuple', tuple), ('generator', lambda v: (x for x in v)), ('iter(list)', lambda v: iter(list(v))),
                              ('map', lambda v: map(str, v)), ('dict keys', lambda v: dict.fromkeys(v).keys()), ('reversed', lambda v: reversed(list(v)))):
                other = alpha_obs(s_, mk(xs))
                if other != im:
                    fail.append({'clause': 'get_alphabet_from_selfies returns the same set whatever iterable hands over the strings (%s vs list)' % kname,
                                 'input': {'strings': xs, 'iterable': kname}, 'impl': other, 'expected': im})
                    break
            ps = [d.one(['wf_parse', S(x)]) for x in xs]
            if all(p is not None for p in ps):
                want = sorted(set('[' + U(b) + ']' for p in ps for b, _ in p))
                if im != {'ok': want}:
                    fail.append({'clause': 'get_alphabet_from_selfies = set of symbols without the dot', 'input': {'strings': xs}, 'impl': im, 'expected': want})
            out.append((kind, xs, all(p is not None for p in ps), dis, fail))
        elif kind == 'enc':
            smi = c[1]
            r = call(s_.encoder, smi, strict=False)
            if 'ok' in r:
                p = d.one(['wf_parse', S(r['ok'])])
                if p is None or (p and p[-1][1]) or any(b == '' for b, _ in (p or [])):
                    fail.append({'clause': 'every string returned by encoder is well formed', 'input': {'smiles': smi}, 'impl': r})
            out.append((kind, smi, 'ok' in r, dis, fail))
    return out


def load_smiles(limit=None):
    p = os.path.join(core.VERIF, 'corpus', 'smiles_sample.txt')
    sm = [l.strip() for l in open(p) if l.strip()]
    return sm if limit is None else sm[:limit]


def run(rep, tier, seed, b):
    rng = core.rng_for(seed, ID)
    n = 6000 if tier == 'quick' else 120000
    items = [('wf', [])]
    for _ in range(n):
        items.append(('wf', rand_items(rng)))
    for _ in range(n // 2):
        base = ''.join('[' + bdy + ']' + ('.' if dot else '') for bdy, dot in rand_items(rng))
        items.append(('raw', gens.malformed(rng, base)))
    for _ in range(n // 4):
        k = rng.randint(0, 5)
        xs = []
        for _ in range(k):
            base = ''.join('[' + bdy + ']' + ('.' if dot else '') for bdy, dot in rand_items(rng, 5))
            xs.append(base if rng.random() < 0.85 else gens.malformed(rng, base))
        items.append(('coll', xs))
    # long strings: thousands of symbols, and thousands of dot-separated fragments (one item per symbol and per dot, whatever the length)
    for k in (600, 1100, 2500):
        items.append(('wf', [('Na+1', True)] * k))
        items.append(('wf', [('C', False)] * k + [('O', True)] * k))
        items.append(('wf', [(rng.choice(['C', '=N', 'Branch1', 'Ring1', 'nop', 'Fe+2']), rng.random() < 0.5) for _ in range(k)]))
    sm = load_smiles()
    rng.shuffle(sm)
    for smi in sm[:1500 if tier == 'quick' else len(sm)]:
        items.append(('enc', smi))
        if rng.random() < 0.3:
            items.append(('enc', smi + '.' + rng.choice(sm)))
    res = core.pmap('p_c14', 'work', items, chunk=500)
    for kind, x, wfok, dis, fail in res:
        rep.evaluations += 1
        rep.impl_traces += 1
        rep.count(kind + ('/in-language' if wfok else '/outside'))
        rep.disagreements += dis
        rep.oracle_failures += fail
        if kind in ('wf', 'raw') and wfok and len(x) > 6:
            rep.nontriv(x)
        elif kind == 'coll' and wfok and len(x) >= 2:
            rep.nontriv(tuple(x))
        elif kind == 'enc' and wfok:
            rep.nontriv('enc:' + x)
    for r in res[1:4] + [r for r in res if r[0] == 'coll'][:2] + [r for r in res if r[0] == 'enc'][:2]:
        rep.sample({'kind': r[0], 'input': r[1], 'in_language': r[2]})
    rep.rule = ('random item lists (symbol text from real symbols and from arbitrary code points incl. non-ASCII, empty bodies, 25% dots), '
                'malformed variants (outside the language: correspondence only), collections of 0-5 strings, encoder outputs of dataset SMILES; '
                'non-trivial = distinct in-language input longer than 6 characters / collection of >= 2 strings / encoder output')


def replay(data):
    f = data['failure']
    inp = f['input']
    if 'selfies' in inp:
        r = work([('raw', inp['selfies'])], None)[0]
    elif 'strings' in inp:
        r = work([('coll', inp['strings'])], None)[0]
    else:
        r = work([('enc', inp['smiles'])], None)[0]
    return {'input': inp, 'disagreements': r[3], 'oracle_failures': r[4], 'fails': bool(r[4])}


def known(f):
    return None
