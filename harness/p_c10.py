"""C10 — encoder output is always decodable, standardised and stable under re-encoding."""
import core
import gens
import gen_smiles
import enc_side as E
import dec_side
import dec_common
import hist_common as H
from core import S, U, sf, call, drv

ID = 'C10'
TRUSTED = ['spec/DocGrammar.v symbol_in_grammar: membership of each emitted symbol in the documented grammar under the table in force']

ELEMS = None


def atom_field_cases(rng, n):
    """bracket atoms with extreme fields in small molecules, plus pairs of equivalent spellings"""
    global ELEMS
    if ELEMS is None:
        ELEMS = sorted(U(x) for x in drv().one(['elements']))
    singles, pairs = [], []
    for _ in range(n):
        el = rng.choice(ELEMS)
        iso = rng.choice(['', '', '13', '1', '0', '007', '250', '99999'])
        chi = rng.choice(['', '', '@', '@@'])
        h = rng.choice([0, 0, 1, 2, 3, 9])
        c = rng.choice([0, 0, 1, -1, 2, -2, 3, 10, -10, 12, 15, -15, 100])
        hs = '' if h == 0 else ('H' if h == 1 and rng.random() < 0.5 else 'H%d' % h)
        cs = '' if c == 0 else ('%+d' % c)
        a = '[%s%s%s%s%s]' % (iso, el, chi, hs, cs)
        ctx = rng.choice(['%s', 'C%s', '%sC', 'C%sC', 'C(%s)C', 'C1CC1%s', 'F/C=C/%s', 'C=%s', '%s.%s'])
        singles.append(ctx.replace('%s', a))
        # equivalent spellings of the same atom
        alts = []
        if c in (1, -1):
            alts.append('[%s%s%s%s%s]' % (iso, el, chi, hs, '+' if c > 0 else '-'))
        if abs(c) in (2, 3) or (abs(c) >= 10 and abs(c) <= 15):     # a run of signs and the written number are the same charge, also beyond one digit
            alts.append('[%s%s%s%s%s]' % (iso, el, chi, hs, ('+' if c > 0 else '-') * abs(c)))
        if h == 1:
            alts.append('[%s%s%s%s%s]' % (iso, el, chi, 'H1' if hs == 'H' else 'H', cs))
        if iso not in ('', '0'):
            alts.append('[%s%s%s%s%s]' % ('0' + iso, el, chi, hs, cs))
        if h == 0:
            alts.append('[%s%s%s%s%s]' % (iso, el, chi, 'H0', cs))
        alts.append('[%s%s%s%s%s:7]' % (iso, el, chi, hs, cs))
        for b_ in alts:
            pairs.append((ctx.replace('%s', a), ctx.replace('%s', b_)))
    return singles, pairs


def span_cases():
    out = []
    for q in (14, 15, 16, 17, 254, 255, 256, 257, 4094, 4095, 4096, 4097):
        out.append(('ring', q, 'C1' + 'C' * q + 'C1'))
        out.append(('branch', q, 'C(' + 'C' * (q + 1) + ')C'))
    # ring closures carrying '/' '\\' marks at one or both ends, at every index length (1, 2 and 3 index symbols)
    for q in (3, 14, 15, 16, 17, 254, 255, 256, 257, 300, 1000):
        for lm in ('', '/', '\\'):
            for rm in ('', '/', '\\'):
                if lm or rm:
                    out.append(('stereo-ring', q, 'F/C=C%s1' % lm + 'C' * q + '%s1=C/F' % rm))
    return out


def run(rep, tier, seed, b):
    rng = core.rng_for(seed, ID)
    s_ = sf()
    d = drv()
    tabs = E.tables_for(rng, 5)
    n = 6000 if tier == 'quick' else 150000
    smis = E.gen_smiles_cases(rng, n, mutate=0.35, maxlen=100)
    singles, pairs = atom_field_cases(rng, 1200 if tier == 'quick' else 20000)
    smis += singles
    spans = span_cases()
    items = [(tabs[i % len(tabs)], x, True, False) for i, x in enumerate(smis)] + [(tabs[0], s[2], True, False) for s in spans]
    # tables with capacities of 10 and more: hydrogen counts and bond sums with two digits must still give symbols the decoder reads
    big = dict(tabs[0]); big.update({'?': 40, 'U': 14, 'Xe': 12, 'S': 16, 'C': 12})
    for _ in range(300 if tier == 'quick' else 6000):
        el = rng.choice(['U', 'Xe', 'S', 'C', 'W', 'Os', 'Pt'])
        h = rng.choice([9, 10, 11, 12, 15, 20, 100])
        c = rng.choice(['', '', '+', '-2', '+10'])
        a = '[%s%sH%d%s]' % (rng.choice(['', '', '238']), el, h, c)
        items.append((big, rng.choice(['%s', 'C%s', '%sC', 'C%sC', 'F%s(F)F', '%s.%s']).replace('%s', a), True, False))
    res = core.pmap('enc_side', 'work', items, extra={'roundtrip': True, 'reencode': True}, chunk=250)
    for k, (it, r) in enumerate(zip(items, res)):
        rep.evaluations += 1
        rep.impl_traces += 1
        inp = {'table': it[0], 'smiles': it[1] if len(it[1]) < 400 else it[1][:60] + '...(%d chars)' % len(it[1])}
        im = r['impl']
        if im != r['model']:
            rep.disagreements.append({'op': 'encoder', 'input': inp, 'impl': im if len(str(im)) < 500 else str(im)[:500], 'model': str(r['model'])[:500]})
        if 'ok' not in im:
            rep.count('encoder rejects')
            continue
        sel = im['ok']
        over = len(smis) <= k < len(smis) + len(spans) and spans[k - len(smis)][1] >= 4096
        toks = dec_side.tokens_of(sel)
        wf = ''.join(toks) == sel and sel != '' and not sel.startswith('.') and not sel.endswith('.') and '..' not in sel
        ok = d.one(['symok', core.T(it[0]), [S(t) for t in toks if t != '.']])
        dd = r.get('decoded', {})
        # the hypotheses of C10_encoder_output_decodes_checkable_partial, evaluated by the extracted spec/EncHyp.v
        hyp = d.one(['enc_hyp', core.T(it[0]), S(it[1]), False, S(sel)])
        if hyp == [True, True] and len(it[1]) < 4000:
            rep.count('theorem hypotheses hold (explicit H within capacity, suffixes 1..3): decodability is proved for this input')
            if 'ok' not in dd:
                rep.oracle_failures.append({'clause': 'C10_encoder_output_decodes_checkable_partial: its hypotheses hold for this input, yet decoding the returned string raises', 'input': inp,
                                            'impl': [sel[:300], dd]})
                continue
        else:
            rep.count('theorem hypotheses fail: ' + ('explicit H over capacity' if hyp[0] is False else 'suffix over 3' if hyp[1] is False else 'input too long / not evaluated'))
        if over:
            rep.count('span/length >= 16^3 (outside the documented limit, not judged)')
            continue
        if not wf or not all(ok):
            badsym = [t for t, o in zip([t for t in toks if t != '.'], ok) if not o][:3]
            rep.oracle_failures.append({'clause': 'the returned string is a well-formed SELFIES string made only of symbols the decoder accepts under the table', 'input': inp,
                                        'impl': sel[:300], 'bad_symbols': badsym})
        elif 'ok' not in dd:
            rep.oracle_failures.append({'clause': 'decoding the returned string under the same table never raises', 'input': inp, 'impl': [sel[:300], dd]})
        else:
            re2 = r.get('reencoded', {})
            if re2 != {'ok': sel}:
                rep.oracle_failures.append({'clause': 'encoding the decoded SMILES again reproduces exactly the same SELFIES string', 'input': inp,
                                            'impl': {'selfies': sel[:300], 'decoded': dd['ok'][:300], 'reencoded': str(re2)[:300]}})
            rep.count('stable round trips')
            if len(toks) >= 6:
                rep.nontriv(sel[:300])
    # the round trip holds in whatever state earlier calls left the process: an atom symbol refused for its H count under an earlier table
    for _ in range(250 if tier == 'quick' else 5000):
        c = H.h_boundary(rng)
        small = s_.get_preset_constraints(c['small'][1]) if c['small'][0] == 'name' else dict(c['small'][1])
        big = s_.get_preset_constraints(c['big'][1]) if c['big'][0] == 'name' else dict(c['big'][1])
        dec_common.set_table(s_, small)
        first = call(s_.decoder, c['selfies'])
        dec_common.set_table(s_, big)
        en = call(s_.encoder, c['smiles'], strict=True)
        rep.evaluations += 1
        rep.impl_traces += 3
        inp = {'earlier_table': small, 'earlier_decode': c['selfies'], 'table': big, 'smiles': c['smiles']}
        if 'ok' in en:
            dd = call(s_.decoder, en['ok'])
            if 'ok' not in dd:
                rep.oracle_failures.append({'clause': 'decoding the returned string under the same table never raises (after an earlier call under another table)', 'input': inp,
                                            'impl': [en['ok'], dd], 'sequence': True})
            else:
                re2 = call(s_.encoder, dd['ok'], strict=True)
                if re2 != en:
                    rep.oracle_failures.append({'clause': 'encoding the decoded SMILES again reproduces exactly the same SELFIES string (after an earlier call under another table)',
                                                'input': inp, 'impl': [en, dd, re2], 'sequence': True})
                else:
                    rep.count('stable round trips after a refusal under an earlier table')
        else:
            rep.count('encoder rejects')
    s_.set_semantic_constraints()
    # standardisation: equivalent spellings of an atom give the same symbol
    s_.set_semantic_constraints(E.relaxed_table())
    for a, b_ in pairs:
        ra, rb = call(s_.encoder, a, strict=False), call(s_.encoder, b_, strict=False)
        rep.evaluations += 1
        rep.impl_traces += 2
        if ra != rb:
            rep.oracle_failures.append({'clause': 'equivalent spellings of an atom produce the same symbol', 'input': {'table': E.relaxed_table(), 'smiles': a, 'other_spelling': b_},
                                        'impl': [ra, rb]})
        elif 'ok' in ra:
            rep.count('equivalent-spelling pairs agreeing')
    s_.set_semantic_constraints()
    for (kind, q, x), r in zip(spans, res[len(smis):]):
        rep.sample({'kind': kind, 'Q': q, 'selfies_tail': (r['impl'].get('ok') or '')[-60:], 'roundtrip_ok': r.get('decoded', {}).get('ok') == x})
    for it, r in list(zip(items, res))[:3]:
        rep.sample({'smiles': it[1], 'selfies': r['impl'].get('ok')})
    rep.rule = ('re-spelt / mutated dataset molecules x 5 tables; bracket atoms with extreme fields (every element, isotopes with leading zeros, charges up to +-100, H0-H9, @/@@) in 9 contexts; '
                'pairs of equivalent bracket spellings ([N+]/[N+1], ++/+2, H/H1, leading zeros, H0, atom class); ring spans and branch lengths at 14-17, 254-257, 4094-4097. '
                'round trips after an atom symbol was refused for its H count under an earlier table; judged: symbols in the grammar (Coq spec), decoder accepts, re-encoding of the decoded SMILES gives the same string. non-trivial = distinct output with >= 6 symbols')


def replay(data):
    i = data['failure']['input']
    if 'earlier_table' in i:
        s_ = sf()
        dec_common.set_table(s_, dict(i['earlier_table']))
        first = call(s_.decoder, i['earlier_decode'])
        dec_common.set_table(s_, dict(i['table']))
        en = call(s_.encoder, i['smiles'], strict=True)
        dd = call(s_.decoder, en['ok']) if 'ok' in en else None
        re2 = call(s_.encoder, dd['ok'], strict=True) if dd and 'ok' in dd else None
        s_.set_semantic_constraints()
        return {'input': i, 'impl': [first, en, dd, re2], 'fails': 'ok' in en and (not dd or 'ok' not in dd or re2 != en)}
    if 'other_spelling' in i:
        s_ = sf()
        s_.set_semantic_constraints(dict(i['table']))
        ra, rb = call(s_.encoder, i['smiles'], strict=False), call(s_.encoder, i['other_spelling'], strict=False)
        s_.set_semantic_constraints()
        return {'input': i, 'impl': [ra, rb], 'fails': ra != rb}
    r = E.work([(i['table'], i['smiles'], True, False)], {'roundtrip': True, 'reencode': True})[0]
    sel = r['impl'].get('ok')
    return {'input': i, 'impl': r['impl'], 'decoded': r.get('decoded'), 'reencoded': r.get('reencoded'),
            'fails': sel is not None and (('ok' not in r.get('decoded', {})) or r.get('reencoded') != {'ok': sel})}


def known(f):
    return None
