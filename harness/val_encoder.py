"""val_encoder.py — differential validation of the encoder-side Coq model
(coq/model/{PySet,Matching,Smiles,Kekulize,Encoder}.v, extracted to
ocaml/driver) against the library in $VERIF_REPO (default /repo).

  (a) corpus: SMILES of /repo/tests/test_sets/**/*.csv through sf.encoder with
      strict / attribute in {True, False}, default and custom constraint tables
  (b) mutated / malformed SMILES (all error paths)
  (c) find_perfect_matching on random graphs
  (d) internal dumps: smiles_to_mol (+ attribution) and kekulize()
  (e) the CPython set model (harness/val_pyset.py)

The exact outcome is compared: returned string, attribution list, or the class
name of the exception.

usage: VERIF_REPO=/repo /venv/bin/python harness/val_encoder.py
           [--corpus N] [--mut N] [--graphs N] [--dumps N] [--seed S] [--quick]
"""
import argparse
import collections
import csv
import glob
import json
import os
import random
import sys
import time
import warnings

sys.path.insert(0, os.path.dirname(os.path.abspath(__file__)))
import core  # noqa: E402
from core import S, U, sf, call, drv  # noqa: E402

warnings.simplefilter('ignore')
csv.field_size_limit(1 << 30)

# --------------------------------------------------------------------------- tables
def tables():
    s_ = sf()
    t0 = s_.get_preset_constraints('default')
    t1 = s_.get_preset_constraints('octet_rule')
    t2 = s_.get_preset_constraints('hypervalent')
    t2.update({'P': 7, 'P-1': 8, 'P+1': 6, '?': 12})
    t3 = {'?': 2, 'C': 3, 'N': 1, 'O+1': 1, 'S': 0, 'Fe+10': 3, 'H': 1, 'F': 1, 'Cl': 2, 'O': 2}
    return [t0, t1, t2, t3]


# --------------------------------------------------------------------------- corpus
def load_corpus():
    root = os.path.join(core.REPO, 'tests', 'test_sets')
    out = {}
    for path in sorted(glob.glob(os.path.join(root, '**', '*.csv'), recursive=True)
                       + glob.glob(os.path.join(root, '**', '*.txt'), recursive=True)):
        name = os.path.relpath(path, root)
        smis = []
        try:
            with open(path, newline='') as f:
                if path.endswith('.txt'):
                    smis = [ln.strip() for ln in f if ln.strip()]
                else:
                    rd = csv.DictReader(f)
                    if rd.fieldnames and 'smiles' in rd.fieldnames:
                        for row in rd:
                            v = (row.get('smiles') or '').strip()
                            if v:
                                smis.append(v)
        except OSError:
            continue
        if smis:
            out[name] = smis
    return out


SPECIAL = [
    "C(", "C)", "1C", "C%1", "C%٣٣", "(C)", ".C", "C..C", "C.", "%12", "C=", "C=(C)", "[C",
    "c1ccccc1", "C1CC1", "C12CC12", "C11", "C1C1", "C%12CC%12", "C=1CC=1", "C=1CC#1", "C/1CC\\1",
    "C-1CC1", "[nH]1cccc1", "Cc", "c:c", "F:F", "[Fe]:C", "", ".", "..", "C", "c", "cc", "ccc", "c1ccc1",
    "C:C", "C:1CC1", "C:1CC:1", "c1cc[nH]c1", "c1ccncc1", "c1cc[n+]cc1", "n1ccccc1", "o1cccc1", "s1cccc1",
    "[se]1cccc1", "[te]1cccc1", "[as]1ccccc1", "[si]1ccccc1", "b1ccccc1", "[al]1ccccc1", "p1ccccc1",
    "c1ccc2ccccc2c1", "c1ccc2cc3ccccc3cc2c1", "c12ccccc1cccc2", "C1=CC=CC=C1", "[cH]1[cH][cH][cH][cH][cH]1",
    "[c-]1cccc1", "[cH-]1cccc1", "c1cc[o+]cc1", "[n-]1cccc1", "c1ccccc1-c1ccccc1", "c1ccccc1c1ccccc1",
    "c1ccccc1=O", "O=c1cc[nH]cc1", "O=c1ccocc1", "Cn1cccc1", "c1ccn(C)c1", "c1ccccc1.c1ccccc1",
    "C(C)(C)(C)C", "C((C))", "C()", "C(C))", "C((C)", "C1(C)CC1", "C(C)1CC1", "C(CC1)1", "C(C1)1",
    "C(C1)C1", "C1.C1", "C1CC", "C12", "C1CC2", "C%01CC1", "C%01CC%01", "C1CC%01", "C²CC²",
    "C%½½CC%½½", "C%1a", "C%", "C%1", "C%a1", "C*", "C$C", "C==C", "C=.C", "C]", "C[",
    "[]", "[C]", "[CH4]", "[CH]", "[C@@H](F)(Cl)Br", "[C@H](F)(Cl)Br", "[C@@@H]", "[13CH4]", "[C+]", "[C++]",
    "[C+2]", "[C-2]", "[C---]", "[C+-]", "[C+1:12]", "[C:1]", "[CH2:1]", "[Xx]", "[x]", "[c]", "[cH]",
    "[Cl]", "[cl]", "[Se]", "[se]", "[SE]", "[H]", "[H+]", "[HH]", "[2H]", "[0C]", "[00012C]",
    "[٣C]", "[C+٣]", "[CH٣]", "[C@]", "[C@@]", "é", "Cé", "Q", "q", "b", "Bq", "Br", "Cl",
    "Brc", "BrBr", "ClCl", "CBr", "CCl", "CB", "Bc", "Clc1ccccc1", "N#N", "C#C", "C#CC#C", "C=C=C", "C/C=C/C",
    "C/C=C\\C", "F/C=C/F", "F\\C=C\\F", "C/=C", "C\\1CC/1", "C/1CC1", "C1CC/1", "C=1CC1", "C1CC=1", "C#1CC#1",
    "C-1CC=1", "C:1CC-1", "C/1CC=1", "c1ccccc:1", "c:1ccccc1", "c:1ccccc:1", "c-1ccccc1", "c1ccccc-1",
    "c=1ccccc1", "c1=cc=cc=c1", "c1:c:c:c:c:c1", "c1:c:c:c:c:c:1", "C1:C:C:C:C:C:1", "N1:C:C:C:C:1",
    "[N@@]1(C)(F)CC1", "[C@@]1(F)(Cl)CC1", "[C@]12(F)CC1C2", "[C@@H]1(F)CCC1", "C[C@@H]1CC[C@H](C)CC1",
    "N[C@@]1(C)CC(C2)C12", "C(\\P([C@@]1[N+]([S@](CC2C)12)))", "C1CCC(F)1", "[C@]1(F)(Cl)CCC1",
    "[C@](F)1(Cl)CCC1", "[C@](F)(Cl)1CCC1", "[C@](F)(Cl)(CCC1)1", "C1CC[C@](F)(Cl)1", "C1CC[C@]1(F)Cl",
    "C1CC[C@@]21CC2", "[C@]12(CC1)CC2", "[C@]21(CC1)CC2", "C(CC1)[C@]1(F)Cl", "[S@](=O)(C)CC",
    "FS(F)(F)(F)(F)F", "C(C)(C)(C)(C)C", "[CH5]", "O=O=O", "FF=F", "[Fe+10]", "[Fe+10](C)(C)(C)C", "[C+10]",
    "C.C.C", "C.(C)", "C(.C)", "C(C.C)", "C1.C", "CC.", ".CC", "C..", "C.=C", "C=.", "=C", "=", "(", ")", "1",
    "%", "[", "]", "@", "/", "\\", "-", ":", "#", "+", "H", "h", "[nH]", "[nH]:c", "n:n", "o:o", "c:C", "C:c",
    "c:F", "F:c", "[Fe]:[Fe]", "[Fe]1CCCC:1", "c1cccc[fe]1", "[si]:[si]", "c1cc[siH]cc1", "[nH+]1ccccc1",
    "[n+]1ccccc1", "c1cc[n-]cc1", "c1cc[nH-]cc1", "c1cc[n++]cc1", "c1cc[nH2+]cc1", "[o+]1ccccc1", "[oH+]1cccc1",
    "[s+]1cccc1", "[sH]1cccc1", "[s-]1cccc1", "[pH]1cccc1", "[p+]1ccccc1", "[b-]1ccccc1", "[bH]1cccc1",
    "[cH+]1cccc1", "[c+]1ccccc1", "[cH2]1cccc1", "[13cH]1ccccc1", "[c@H]1ccccc1", "[c@@]1(C)ccccc1",
    "c1ccc(cc1)c1ccccc1", "c1ccc(cc1)-c1ccccc1", "c1cc2ccc3cccc4ccc(c1)c2c34", "c1cccc1", "c1ccccccc1",
    "c1cccccccc1", "c1cc1", "c12c3c4c1c5c2c3c45", "cccc", "ccccc", "c(c)(c)c", "c(c)(c)(c)c", "c1ccccc1c",
    "cc1ccccc1", "c1ccccc1cc", "c1ccc(c)cc1", "c1ccc(cc)cc1", "c1ccc(ccc)cc1", "Cc1ccccc1C", "c1(ccccc1)c",
    "[" + "1" * 4301 + "C]", "[C+" + "1" * 4301 + "]", "[C-" + "٣" * 4301 + "]", "[C-" + "9" * 40 + "]",
    "[99999999999999999999C]", "C" * 300, "C(" * 150 + "C" + ")" * 150, "c1ccccc1" * 30,
]


# --------------------------------------------------------------------------- mutations
ALPH = list("CCCCNNOOSPFIBcccnnosp()()[]==#:://\\\\@@..%%0123456789112233+-HHlra*$ ") \
    + ['Br', 'Cl', '[nH]', '[NH3+]', '[O-]', '[C@@H]', '[C@H]', '[n+]', '[se]', '[Fe]', '%10', '%11', '%12',
       '٣', '²', '½', 'é', 'Ж', '[13C]', '[cH]', '[c-]', '[s+]', '[te]', '[B-]', '[si]',
       '[N@@+]', '[C:3]', '[CH2-]', '[o+]', '=1', '#1', '/1', '\\1', '-1', ':1', '=C', ':c', ':C', ':n', 'c1', 'n1',
       '()', ')(', '1=', 'c:c', '[as]', '[al]', 'b', 'p', '[P+]', '[S@@]', '[S@]', '[PH]', '[te+]', '[se+]', '[b-]']
BONDS = list("-=#:/\\")
DIGITS = "0123456789"


def _atoms_positions(s):
    return [i for i, c in enumerate(s) if c.isalpha()]


def mutate(rng, s):
    n_ops = rng.choice([1, 1, 1, 2, 2, 3, 5])
    for _ in range(n_ops):
        k = rng.randrange(16)
        L = len(s)
        p = rng.randrange(L + 1) if L else 0
        if k == 0 and L:            # deletion
            q = rng.randrange(L)
            s = s[:q] + s[q + 1:]
        elif k == 1:                # insertion
            s = s[:p] + rng.choice(ALPH) + s[p:]
        elif k == 2 and L:          # substitution
            q = rng.randrange(L)
            s = s[:q] + rng.choice(ALPH) + s[q + 1:]
        elif k == 3:                # ring digit move
            ds = [i for i, c in enumerate(s) if c in DIGITS]
            if ds:
                q = rng.choice(ds)
                c = s[q]
                s = s[:q] + s[q + 1:]
                p = rng.randrange(len(s) + 1)
                s = s[:p] + c + s[p:]
        elif k == 4:                # %nn labels
            ds = [i for i, c in enumerate(s) if c in DIGITS and (i == 0 or s[i - 1] not in '[+-H%' + DIGITS)]
            if ds:
                q = rng.choice(ds)
                c = s[q]
                lab = '%' + rng.choice(['0' + c, '1' + c, c + c, '٣' + c])
                if rng.random() < 0.6:   # relabel both occurrences consistently
                    s = ''.join(lab if (ch == c and i in ds) else ch for i, ch in enumerate(s))
                else:
                    s = s[:q] + lab + s[q + 1:]
        elif k == 5:                # explicit bond
            s = s[:p] + rng.choice(BONDS) + s[p:]
        elif k == 6:                # bracket an atom
            ps = _atoms_positions(s)
            if ps:
                q = rng.choice(ps)
                el = s[q]
                body = rng.choice(['', '13', '2', '0']) + el + rng.choice(['', '', '@', '@@', '@@@']) \
                    + rng.choice(['', '', 'H', 'H0', 'H2', 'H4']) \
                    + rng.choice(['', '', '', '+', '-', '++', '--', '+2', '-3', '+0', '+10']) \
                    + rng.choice(['', '', '', ':1', ':'])
                s = s[:q] + '[' + body + ']' + s[q + 1:]
        elif k == 7:                # stereo marks
            s = s[:p] + rng.choice(['/', '\\', '@', '@@']) + s[p:]
        elif k == 8:                # dots
            s = s[:p] + '.' + s[p:]
        elif k == 9 and L > 1:      # swap two characters
            a, b = rng.randrange(L), rng.randrange(L)
            l = list(s)
            l[a], l[b] = l[b], l[a]
            s = ''.join(l)
        elif k == 10 and L:         # truncate
            s = s[:rng.randrange(L)] if rng.random() < 0.5 else s[rng.randrange(L):]
        elif k == 11 and L:         # duplicate a segment
            a = rng.randrange(L)
            b = min(L, a + rng.randrange(1, 8))
            s = s[:b] + s[a:b] + s[b:]
        elif k == 12:               # parentheses
            c = rng.choice(['(', ')', '()', '(C)', '(=O)', '(c)'])
            s = s[:p] + c + s[p:]
        elif k == 13 and L:         # aromatic <-> aliphatic flip of one letter
            ps = _atoms_positions(s)
            if ps:
                q = rng.choice(ps)
                c = s[q]
                s = s[:q] + (c.lower() if c.isupper() else c.upper()) + s[q + 1:]
        elif k == 14:               # new ring closure pair
            d = rng.choice(DIGITS[1:])
            q = rng.randrange(L + 1) if L else 0
            b1 = rng.choice(['', '', '', '=', '/', '\\', ':', '#', '-'])
            b2 = rng.choice(['', '', '', '=', '/', '\\', ':', '#', '-'])
            a, b = min(p, q), max(p, q)
            s = s[:a] + b1 + d + s[a:b] + b2 + d + s[b:]
        elif k == 15 and L:         # hetero-atom substitution inside aromatic rings
            ps = [i for i, c in enumerate(s) if c in 'cnos']
            if ps:
                q = rng.choice(ps)
                s = s[:q] + rng.choice(['n', 'o', 's', 'c', '[nH]', '[n+]', '[n-]', '[se]', 'p', 'b', '[cH-]',
                                        '[o+]', '[s+]', '[c+]', '[te]', '[pH]', '[siH]', '[as]', 'N', 'C', 'O']) + s[q + 1:]
    return s


def random_soup(rng):
    return ''.join(rng.choice(ALPH) for _ in range(rng.randint(1, 14)))


def random_aromatic(rng):
    """small fused / substituted aromatic systems with random heteroatoms"""
    arom = ['c', 'c', 'c', 'c', 'n', 'o', 's', '[nH]', '[n+]', 'p', '[se]', 'b', '[cH-]', '[o+]', '[s+]', '[n-]',
            '[c-]', '[c+]', '[te]', '[b-]', '[si]', '[siH]', '[as]', '[pH]', '[nH+]', '[cH]', 'n(C)', 'c(C)', 'c(=O)',
            'c(F)', 'c(O)', 'c(N)', '[c@H]']
    n = rng.randint(3, 9)
    ring = [rng.choice(arom) for _ in range(n)]
    ring[0] = ring[0].split('(')[0]
    s = ring[0] + '1' + ''.join(ring[1:]) + '1'
    if rng.random() < 0.5:   # fuse a second ring
        m = rng.randint(2, 6)
        r2 = [rng.choice(arom).split('(')[0] for _ in range(m)]
        j = rng.randrange(1, n - 1) if n > 2 else 1
        body = ring[1:]
        body[j - 1] = body[j - 1].split('(')[0] + '2'
        body[j] = body[j].split('(')[0]
        s = ring[0] + '1' + ''.join(body[:j + 1]) + ''.join(r2) + '2' + ''.join(body[j + 1:]) + '1'
    return s


def random_valid(rng):
    """mostly well-formed SMILES with ring digits and branches in arbitrary
    order after an atom, stereo centres, ring closures that end on an earlier
    atom of the chain (C(CC1)1), %nn labels, several fragments"""
    out = []
    st = {'atoms': 0, 'label': 1, 'budget': rng.randint(2, 30)}
    open_rings = []          # (label text, atom it was opened on, had a bond symbol)
    bonded = set()

    def atom():
        r = rng.random()
        if r < 0.5:
            return rng.choice(['C', 'C', 'C', 'C', 'N', 'O', 'S', 'P', 'F', 'Cl'])
        if r < 0.75:
            return rng.choice(['[C@]', '[C@@]', '[C@H]', '[C@@H]', '[N@+]', '[N@@+]', '[S@]', '[S@@]', '[P@]',
                               '[P@@]', '[Si@]', '[C@@]', '[C@]'])
        if r < 0.82:
            return rng.choice(['[NH4+]', '[O-]', '[13C]', '[CH2]', '[B-]', '[Fe+2]', '[2H]', '[N+]', '[CH]'])
        return rng.choice(['c', 'c', 'c', 'n', 'o', 's', '[nH]'])

    def bond(p=0.2):
        return rng.choice(['=', '=', '#', '/', '\\', '-', ':', '/', '\\']) if rng.random() < p else ''

    def label():
        n = st['label']
        st['label'] = n % 40 + 1
        return str(n) if (n < 10 and rng.random() < 0.8) else '%%%02d' % n

    def chain(depth, parent):
        k = 0
        while True:
            st['budget'] -= 1
            out.append((bond() if parent is not None else '') + atom())
            me = st['atoms']
            st['atoms'] += 1
            if parent is not None:
                bonded.add((parent, me))
            decos = []
            for _ in range(rng.choice([0, 0, 0, 0, 1, 1, 2])):
                closable = [r for r in open_rings
                            if (r[1] != me and (r[1], me) not in bonded and (me, r[1]) not in bonded)
                            or rng.random() < 0.02]
                if closable and rng.random() < 0.6:
                    r = rng.choice(closable)
                    open_rings.remove(r)
                    bonded.add((r[1], me))
                    b = ''
                    if rng.random() < 0.12:
                        b = rng.choice(['/', '\\']) if r[2] in ('/', '\\') else (r[2] or bond(1.0))
                    decos.append(b + r[0])
                elif len(open_rings) < 5:
                    lab = label()
                    if all(lab != r[0] for r in open_rings):
                        b = bond(0.12)
                        open_rings.append((lab, me, b))
                        decos.append(b + lab)
            if depth < 4 and st['budget'] > 0:
                for _ in range(rng.choice([0, 0, 0, 0, 1, 1, 2])):
                    decos.append(None)
            rng.shuffle(decos)
            for dct in decos:
                if dct is None:
                    if st['budget'] > 0:
                        out.append('(')
                        chain(depth + 1, me)
                        out.append(')')
                else:
                    out.append(dct)
            k += 1
            if st['budget'] <= 0 or rng.random() < 0.25:
                return me
            parent = me

    last = None
    for f in range(rng.choice([1, 1, 1, 1, 2, 3])):
        if f:
            if rng.random() < 0.8:      # ring_log is per fragment: close before the dot
                while open_rings:
                    out.append(rng.choice(['CC', 'CC', 'C', 'C=C', '']) + open_rings.pop()[0])
            out.append('.')
            st['budget'] = max(st['budget'], rng.randint(1, 8))
        last = chain(0, None)
    while open_rings:
        out.append(rng.choice(['CC', 'CC', 'C', 'C=C', '']) + open_rings.pop(rng.randrange(len(open_rings)))[0])
    return ''.join(out)


# --------------------------------------------------------------------------- workers
_cur = [None]
_aug_calls = [0]
_patched = [False]


def _patch_counters(s_):
    """count calls of _find_augmenting_path (statistics only; behaviour unchanged)"""
    if _patched[0]:
        return
    mu = s_.utils.matching_utils
    orig = mu._find_augmenting_path

    def counting(graph, root, matching):
        _aug_calls[0] += 1
        return orig(graph, root, matching)
    mu._find_augmenting_path = counting
    _patched[0] = True


def set_table(s_, t):
    key = json.dumps(t, sort_keys=False)
    if _cur[0] != key:
        s_.set_semantic_constraints(dict(t))
        _cur[0] = key


def canon_attr(maps):
    return [[m.index, m.token, None if m.attribution is None else [[a.index, a.token] for a in m.attribution]]
            for m in maps]


def impl_encode(s_, x, strict, attr):
    r = call(s_.encoder, x, strict=strict, attribute=attr)
    if 'ok' in r and attr:
        r = {'ok': [r['ok'][0], canon_attr(r['ok'][1])]}
    return r


def model_encode_canon(m, attr):
    if 'ok' in m:
        sel = U(m['ok'][0])
        if attr:
            return {'ok': [sel, [[a[0], U(a[1]), None if a[2] is None else [[i, U(t)] for i, t in a[2]]]
                                 for a in m['ok'][1]]]}
        return {'ok': sel}
    return m


def stage_of(s_, x, strict):
    """where the library's EncoderError comes from (statistics only)"""
    try:
        s_.encoder(x, strict=strict)
    except s_.EncoderError as e:
        msg = str(e)
        if msg.startswith('failed to parse'):
            return 'EncoderError/parse'
        if msg.startswith('kekulization failed'):
            return 'EncoderError/kekulize'
        if msg.startswith('input violates'):
            return 'EncoderError/constraints'
        return 'EncoderError/other'
    except BaseException:
        pass
    return 'EncoderError/?'


def compare_chunk(chunk, extra):
    """chunk: [(table_index, smiles, strict, attribute)]"""
    s_ = sf()
    _patch_counters(s_)
    tabs = extra['tables']
    d = drv()
    reqs = [['enc', core.T(tabs[t]), S(x), bool(st), bool(a)] for (t, x, st, a) in chunk]
    ms = []
    for i in range(0, len(reqs), 50):
        ms += d.batch(reqs[i:i + 50])
    stats = collections.Counter()
    bad = []
    nonenc = []
    for (t, x, st, a), m in zip(chunk, ms):
        set_table(s_, tabs[t])
        before = _aug_calls[0]
        im = impl_encode(s_, x, st, a)
        aug = _aug_calls[0] - before
        mm = model_encode_canon(m, a)
        if 'err' in im and im['err'] == 'RecursionError':
            stats['skipped/RecursionError'] += 1
            continue
        cls = 'ok' if 'ok' in im else im['err']
        if cls == 'EncoderError':
            cls = stage_of(s_, x, st)
        elif cls != 'ok':
            nonenc.append((cls, x if len(x) < 200 else x[:80] + '...(%d chars)' % len(x)))
        stats['outcome/' + cls] += 1
        if any(c in x for c in 'cnosbp:') and ('ok' in im or cls == 'EncoderError/kekulize'
                                                or cls == 'EncoderError/constraints'):
            stats['feature/aromatic-or-colon input past the parser'] += 1
        if aug:
            stats['feature/reached augmenting-path loop'] += 1
            if 'ok' in im:
                stats['feature/augmenting loop then success'] += 1
            elif cls == 'EncoderError/kekulize':
                stats['feature/augmenting loop then kekulize failure'] += 1
        if 'ok' in im and a:
            stats['feature/attribution compared'] += 1
        if im != mm:
            bad.append({'table': t, 'smiles': x, 'strict': st, 'attribute': a, 'impl': im, 'model': mm})
    return [{'stats': dict(stats), 'bad': bad[:20], 'nbad': len(bad), 'nonenc': nonenc[:50]}]


# ---- (c) matching
def random_graph(rng, nmax=14, big=False):
    n = rng.randint(0, nmax) if not big else rng.randint(15, 220)
    adj = [[] for _ in range(n)]
    kind = rng.random()
    if n >= 2:
        if kind < 0.3:          # path / cycle backbone plus chords
            for i in range(n - 1):
                if rng.random() < 0.85:
                    adj[i].append(i + 1)
                    adj[i + 1].append(i)
        tries = rng.randint(0, 2 * n)
        for _ in range(tries):
            a, b = rng.randrange(n), rng.randrange(n)
            if a != b and b not in adj[a] and len(adj[a]) < 3 and len(adj[b]) < 3:
                adj[a].append(b)
                adj[b].append(a)
    for l in adj:
        rng.shuffle(l)
    return adj


def broken_graph(rng):
    """not an undirected simple graph: asymmetric lists, repeated entries,
    self-loops, indices past the end (IndexError / StopIteration paths)"""
    n = rng.randint(1, 9)
    hi = n + (1 if rng.random() < 0.3 else 0)
    return [[rng.randrange(hi) for _ in range(rng.randint(0, 3))] for _ in range(n)]


def ring_system_graph(rng):
    """adjacency of fused odd/even cycles, the shape the kekulizer sees"""
    n = 0
    adj = []

    def new():
        adj.append([])
        return len(adj) - 1

    def edge(a, b):
        if a != b and b not in adj[a] and len(adj[a]) < 3 and len(adj[b]) < 3:
            adj[a].append(b)
            adj[b].append(a)
    first = [new() for _ in range(rng.randint(3, 8))]
    for i in range(len(first)):
        edge(first[i], first[(i + 1) % len(first)])
    for _ in range(rng.randint(0, 6)):
        cand = [(a, b) for a in range(len(adj)) for b in adj[a] if a < b and len(adj[a]) < 3 and len(adj[b]) < 3]
        if not cand:
            break
        a, b = rng.choice(cand)
        chain = [new() for _ in range(rng.randint(1, 6))]
        edge(a, chain[0])
        for i in range(len(chain) - 1):
            edge(chain[i], chain[i + 1])
        edge(chain[-1], b)
    # random relabelling and adjacency orders
    perm = list(range(len(adj)))
    rng.shuffle(perm)
    out = [[] for _ in adj]
    for a in range(len(adj)):
        out[perm[a]] = [perm[b] for b in adj[a]]
    for l in out:
        rng.shuffle(l)
    return out


def matching_chunk(chunk, extra):
    s_ = sf()
    mu = s_.utils.matching_utils
    d = drv()
    ms = d.batch([['pm', g] for g in chunk])
    stats = collections.Counter()
    bad = []
    for g, m in zip(chunk, ms):
        gr = call(mu._greedy_matching, [list(l) for l in g])
        unm = sum(1 for v in gr['ok'] if v is None) if 'ok' in gr else 0
        gm = d.one(['greedy', g])
        if gm != gr:
            bad.append({'graph': g, 'impl_greedy': gr, 'model_greedy': gm})
        im = call(mu.find_perfect_matching, [list(l) for l in g])
        cls = ('None' if im['ok'] is None else 'list') if 'ok' in im else im['err']
        stats['matching/result ' + cls] += 1
        if unm:
            stats['matching/greedy left unmatched nodes (augmenting loop entered)'] += 1
            stats['matching/augmenting loop -> ' + cls] += 1
            if unm >= 5:
                stats['matching/unmatched set resized (>= 5 elements)'] += 1
        if 'ok' in im and im['ok'] is not None:
            mt = im['ok']
            if any(mt[mt[i]] != i for i in range(len(mt))):
                stats['matching/result is not an involution (missing blossom handling)'] += 1
        if im != m:
            bad.append({'graph': g, 'impl': im, 'model': m})
    return [{'stats': dict(stats), 'bad': bad[:20], 'nbad': len(bad), 'nonenc': []}]


# ---- (d) dumps
def _attr_of(mol, o):
    at = mol._attribution.get(o) if mol._attributable else None
    return None if at is None else [[a.index, S(a.token)] for a in at]


def dump_py(mol):
    atoms = [[[S(a.element), bool(a.is_aromatic), a.isotope, None if a.chirality is None else S(a.chirality),
               a.h_count, a.charge], _attr_of(mol, a)] for a in mol._atoms]
    adj = []
    for i, l in enumerate(mol._adj_list):
        row = []
        for b in l:
            if b is None:
                row.append(None)
            else:
                assert b.src == i and mol._bond_dict[(b.src, b.dst)] is b
                o2 = b.order * 2
                assert o2 == int(o2)
                row.append([b.dst, int(o2), None if b.stereo is None else ord(b.stereo), bool(b.ring_bond),
                            _attr_of(mol, b)])
        adj.append(row)
    # every key of the bond dictionary is reachable from the adjacency lists
    assert len(mol._bond_dict) == sum(1 for l in mol._adj_list for b in l if b is not None)
    c2 = []
    for c in mol._bond_counts:
        assert 2 * c == int(2 * c)
        c2.append(int(2 * c))
    return {'atoms': atoms, 'adj': adj, 'roots': list(mol._roots), 'counts2': c2,
            'ringflags': [bool(x) for x in mol._ring_bond_flags],
            'ds': [[k, list(v)] for k, v in mol._delocal_subgraph.items()]}


def dump_chunk(chunk, extra):
    s_ = sf()
    su = s_.utils.smiles_utils
    d = drv()
    ms = []
    reqs = [['parse_kek', S(x), bool(a)] for (x, a) in chunk]
    for i in range(0, len(reqs), 20):
        ms += d.batch(reqs[i:i + 20])
    stats = collections.Counter()
    bad = []
    for (x, a), m in zip(chunk, ms):
        r = call(su.smiles_to_mol, x, attributable=a)
        if 'err' in r:
            im = r
            stats['dump/parse ' + r['err']] += 1
        else:
            mol = r['ok']
            before = dump_py(mol)
            k = call(mol.kekulize)
            if 'err' in k:
                kk = k
                stats['dump/kekulize raised ' + k['err']] += 1
            elif k['ok']:
                kk = {'ok': dump_py(mol)}
                stats['dump/kekulize True' + (' (aromatic)' if before['ds'] else '')] += 1
            else:
                kk = {'ok': None}
                stats['dump/kekulize False'] += 1
                if dump_py(mol) != before:
                    stats['dump/kekulize False but graph changed'] += 1
            if any(None in row for row in before['adj']):
                stats['dump/placeholder left in adjacency'] += 1
            im = {'ok': [before, kk]}
        if im != m:
            bad.append({'smiles': x, 'attributable': a, 'impl': im, 'model': m})
    return [{'stats': dict(stats), 'bad': bad[:5], 'nbad': len(bad), 'nonenc': []}]


# --------------------------------------------------------------------------- main
def merge(results, total, label):
    nbad = 0
    for r in results:
        for k, v in r['stats'].items():
            total['stats'][label + k] += v
        nbad += r['nbad']
        total['bad'] += [dict(b, section=label) for b in r['bad']]
        for c, x in r['nonenc']:
            total['nonenc'][c].add(x)
    total['nbad'] += nbad
    return nbad


def main():
    ap = argparse.ArgumentParser()
    ap.add_argument('--corpus', type=int, default=20000)
    ap.add_argument('--mut', type=int, default=220000)
    ap.add_argument('--graphs', type=int, default=120000)
    ap.add_argument('--dumps', type=int, default=60000)
    ap.add_argument('--seed', type=int, default=1)
    ap.add_argument('--quick', action='store_true')
    ap.add_argument('--skip-pyset', action='store_true')
    a = ap.parse_args()
    if a.quick:
        a.corpus, a.mut, a.graphs, a.dumps = 2000, 20000, 10000, 5000
    rng = random.Random(a.seed)
    t0 = time.time()
    tabs = tables()
    extra = {'tables': tabs}
    total = {'stats': collections.Counter(), 'bad': [], 'nbad': 0, 'nonenc': collections.defaultdict(set)}

    # ---- corpus
    corpus = load_corpus()
    sizes = {k: len(v) for k, v in corpus.items()}
    print('corpus files:', sizes)
    sample = []
    # the large aromatic set gets a guaranteed share
    share = {k: max(50, int(a.corpus * (0.35 if 'nonfullerene' in k else 0.65 / max(1, len(corpus) - 1))))
             for k in corpus}
    for k, v in corpus.items():
        sample += rng.sample(v, min(len(v), share[k]))
    sample = sorted(set(sample))
    rng.shuffle(sample)
    print('corpus sample: %d distinct SMILES' % len(sample))

    # (a) corpus through the encoder
    jobs = []
    for x in sample:
        for st in (True, False):
            for at in (True, False):
                jobs.append((0, x, st, at))
        for t in (1, 2, 3):
            jobs.append((t, x, True, rng.random() < 0.5))
    jobs.sort(key=lambda j: j[0])       # few table switches per worker
    res = core.pmap('val_encoder', 'compare_chunk', jobs, extra, chunk=500)
    print('(a) corpus: %d encoder calls, disagreements %d   [%.0fs]'
          % (len(jobs), merge(res, total, 'a:'), time.time() - t0))

    # (b) special cases and mutations
    jobs = []
    for x in SPECIAL:
        for t in range(4):
            for st in (True, False):
                for at in (True, False):
                    jobs.append((t, x, st, at))
    # int() accepts exactly 4300 digits; printing such a number is slow in the model
    # (Base.str_of_N divides a 14000-bit N 4300 times), so only two calls
    jobs.append((0, "[" + "1" * 4300 + "C]", True, True))
    jobs.append((0, "[C+" + "7" * 600 + "]", True, False))
    n_special = len(jobs)
    muts = set()
    while len(muts) < a.mut:
        r = rng.random()
        if r < 0.66:
            x = mutate(rng, rng.choice(sample))
        elif r < 0.80:
            x = mutate(rng, rng.choice(SPECIAL[:-12]))
        elif r < 0.86:
            x = random_soup(rng)
        elif r < 0.93:
            x = random_valid(rng)
            if rng.random() < 0.25:
                x = mutate(rng, x)
        else:
            x = random_aromatic(rng)
            if rng.random() < 0.5:
                x = mutate(rng, x)
        if x.count('(') < 150:
            muts.add(x)
    muts = sorted(muts)
    rng.shuffle(muts)
    for x in muts:
        jobs.append((rng.choice([0, 0, 0, 1, 2, 3]), x, rng.random() < 0.6, rng.random() < 0.5))
    jobs.sort(key=lambda j: j[0])
    res = core.pmap('val_encoder', 'compare_chunk', jobs, extra, chunk=500)
    print('(b) special + mutated: %d special calls, %d mutated inputs, disagreements %d   [%.0fs]'
          % (n_special, len(muts), merge(res, total, 'b:'), time.time() - t0))

    # (c) perfect matching on raw graphs
    graphs = []
    for _ in range(a.graphs):
        r = rng.random()
        if r < 0.55:
            graphs.append(random_graph(rng))
        elif r < 0.87:
            graphs.append(ring_system_graph(rng))
        elif r < 0.92:
            graphs.append(broken_graph(rng))
        else:
            graphs.append(random_graph(rng, big=True))
    graphs += [[[1, 2], [3, 2, 0], [1, 6, 0], [1, 7], [6, 7], [7, 6], [5, 4, 2], [4, 5, 3]], [], [[]], [[], []]]
    res = core.pmap('val_encoder', 'matching_chunk', graphs, extra, chunk=500)
    print('(c) find_perfect_matching: %d graphs, disagreements %d   [%.0fs]'
          % (len(graphs), merge(res, total, 'c:'), time.time() - t0))

    # (d) dumps
    dj = [(x, True) for x in SPECIAL] + [(x, False) for x in SPECIAL[:60]]
    dj += [(x, True) for x in sample[:a.dumps // 6]]
    dj += [(x, rng.random() < 0.8) for x in muts[:a.dumps - len(dj)]]
    res = core.pmap('val_encoder', 'dump_chunk', dj, extra, chunk=300)
    print('(d) smiles_to_mol / kekulize dumps: %d inputs, disagreements %d   [%.0fs]'
          % (len(dj), merge(res, total, 'd:'), time.time() - t0))

    # (e) CPython set model
    if not a.skip_pyset:
        import val_pyset
        nb = val_pyset.main(1500 if a.quick else 6000, a.seed)
        total['nbad'] += nb

    print()
    print('---- outcome / feature counts (library side) ----')
    for k in sorted(total['stats']):
        print('  %-78s %d' % (k, total['stats'][k]))
    print('---- inputs on which the library raises something other than EncoderError ----')
    if not total['nonenc']:
        print('  (none)')
    for c in sorted(total['nonenc']):
        xs = sorted(total['nonenc'][c], key=len)
        print('  %s: %d distinct inputs seen, shortest: %s' % (c, len(xs), [x for x in xs[:8]]))
    print('---- disagreements: %d ----' % total['nbad'])
    for b in total['bad'][:25]:
        print(json.dumps(b, default=str)[:1500])
    print('wall %.0fs' % (time.time() - t0))
    return 1 if total['nbad'] else 0


if __name__ == '__main__':
    sys.exit(main())
