"""C04 — round trip preserves tetrahedral and double-bond stereochemistry."""
import p_c03

ID = 'C04'
TRUSTED = ['spec/RoundTrip.v same_stereo: per @/@@ atom, tag xor parity of the written neighbour order (preceding atom, implicit H, ring-closure digits in order, branches, chain) '
           'is equal in input and output; every / \\ mark is found on the same bond, same end; RDKit is deliberately not the oracle']
CLAUSE = 'every @/@@ atom keeps its handedness (judged from the written neighbour order) and every / \\ mark is found again on the same bond and end'


def run(rep, tier, seed, b):
    p_c03.run(rep, tier, seed, b, prop_key='same_stereo', clause=CLAUSE, gen=dict(mutate=0.5, stereo_only=True), ident=ID)


def replay(data):
    return p_c03.replay(data, prop_key='same_stereo')


def known(f):
    return None


def search(rep, tier, seed, b, dis):
    p_c03.search(rep, tier, seed, b, dis, prop_key='same_stereo', clause=CLAUSE, ident=ID)
