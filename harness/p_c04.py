"""C04 — round trip preserves tetrahedral and double-bond stereochemistry."""
import p_c03

ID = 'C04'
TRUSTED = ['spec/RoundTrip.v same_stereo: per @/@@ atom, tag xor parity of the written neighbour order (preceding atom, implicit H, ring-closure digits in order, branches, chain) '
           'is equal in input and output; every / \\ mark is found on the same bond, same end; RDKit is deliberately not the oracle']
CLAUSE = 'every @/@@ atom keeps its handedness (judged from the written neighbour order) and every / \\ mark is found again on the same bond and end'


AROMATIC_MARKS = ['c1cc/ccc1', 'c1cccc/c1', 'n1cc/ccc1', 'Cc1cc\\ccc1', 'c1cc/c2ccccc2c1', 'C/C=C/c1cc/ccc1', 'c1cc/c(/C=C/C)cc1', 'c1c/cccc1', 'c1ccc/cc1',
                  'c1cc\\ccc1', 'c/1ccccc1', 'c1ccccc/1', 'c/1ccccc/1', 'c\\1ccccc/1', 'C/c1ccccc1', 'F/C=C/c1cc\\c(F)cc1', 'c1ccc2c(c1)/cc\\2', 'n1/ccccc1',
                  'c1cc/[nH]c1', 'o1cc/cc1', 'c1c/csc1', 'c1cc/c(C)cc1', 'Oc1cc/cc(/C=C\\C)c1', 'c1cc/nc\\c1']


def aromatic_marks(rng, tier):
    """direction marks written on a bond between two aromatic atoms (c/c, c\\c, marks on ring digits of aromatic atoms): the mark
    must be found again on the same bond and end whatever kekulisation does with the bond"""
    import re
    import enc_side as E
    out = list(AROMATIC_MARKS)
    pool = E.gen_smiles_cases(rng, 400 if tier == 'quick' else 8000, mutate=0.0, aromatic_only=True, maxlen=70)
    for x in pool:
        spots = [m.start() + 1 for m in re.finditer(r'(?<![\[A-Za-z@+\-0-9%])[cn](?=[cn](?![a-z]))', x)]
        if not spots:
            continue
        y = x
        for pos in sorted(rng.sample(spots, min(len(spots), rng.choice([1, 1, 2]))), reverse=True):
            y = y[:pos] + rng.choice('/\\') + y[pos:]
        out.append(y)
    return out


def run(rep, tier, seed, b):
    p_c03.run(rep, tier, seed, b, prop_key='same_stereo', clause=CLAUSE, gen=dict(mutate=0.5, stereo_only=True), ident=ID, extra=aromatic_marks)


def replay(data):
    return p_c03.replay(data, prop_key='same_stereo')


def known(f):
    return None


def search(rep, tier, seed, b, dis):
    p_c03.search(rep, tier, seed, b, dis, prop_key='same_stereo', clause=CLAUSE, ident=ID)
