"""dec_side.py — shared worker and generators for the decoder-side properties
(C01, C02, C07, C08, C13, C18)."""
import json
import re
import warnings
import core
import gens
from core import S, U, sf, call, drv
import dec_common

warnings.simplefilter('ignore')


def tokens_of(x):
    """independent tokenisation of a (well-formed) SELFIES string into symbols and dots"""
    return re.findall(r'\[[^\[\]]*\]|\.', x)


def wf_string(x):
    return ''.join(tokens_of(x)) == x and '..' not in x and not x.startswith('.') \
        and all('.' not in t[1:-1] for t in tokens_of(x) if t != '.')


def work(chunk, extra):
    """chunk: [(table, selfies, compat, attr)]
    -> [dict(impl=, model=, valid=, c02=)]   (oracles only where asked in extra)"""
    want = extra or {}
    s_ = sf()
    d = drv()
    out = []
    reqs = [dec_common.model_decode_req(core.T(t), x, c, a) for (t, x, c, a) in chunk]
    ms = d.batch(reqs)
    for (t, x, c, a), m in zip(chunk, ms):
        dec_common.set_table(s_, t)
        im = dec_common.impl_decode(s_, x, c, a)
        r = {'impl': im, 'model': dec_common.model_decode_canon(m, a)}
        tb = core.T(t)
        smi = None
        if 'ok' in im:
            smi = im['ok'][0] if a else im['ok']
        if want.get('valid') and smi is not None:
            r['valid'] = d.one(['valid', tb, S(smi)])
        if want.get('c02') and not c and wf_string(x):
            r['c02'] = d.one(['c02', tb, [S(tk) for tk in tokens_of(x)], S(smi or '')])
        if want.get('table_after'):
            r['table_after'] = s_.get_semantic_constraints() == dict(t)
        out.append(r)
    return out


def gen_cases(rng, n, tables, bad=0.02, legacy=0.0, malformed=0.1, flags=False, maxlen=60):
    items = []
    per = max(1, n // len(tables))
    for t in tables:
        for _ in range(per):
            k = rng.random()
            if k < 1 - malformed - 0.1:
                x = gens.live_selfies(rng, maxlen=maxlen, bad=bad, legacy=legacy)
            elif k < 1 - 0.1:
                x = gens.malformed(rng, gens.live_selfies(rng, 20, bad=bad, legacy=legacy))
            else:
                x = gens.uniform_selfies(rng, gens.ATOMS_MAIN + gens.BRANCH + gens.RING + gens.ATOMS_TERM
                                         + gens.ATOMS_RICH + gens.SPECIAL + ['.'])
            c = flags and rng.random() < 0.4
            a = flags and rng.random() < 0.5
            items.append((t, x, c, a))
    return items


def exhaustive_cases(table, maxlen, alphabet=None):
    return [(table, x, False, False) for x in gens.exhaustive(alphabet or gens.COVER, maxlen)]


def preset_tables():
    s_ = sf()
    return [s_.get_preset_constraints(n) for n in ('default', 'octet_rule', 'hypervalent')]


def nontrivial_output(smi):
    """>= 3 atoms and at least one branch or ring actually formed"""
    if not isinstance(smi, str):
        return False
    atoms = len(re.findall(r'\[[^\]]*\]|Cl|Br|[BCNOPSFI]', smi))
    return atoms >= 3 and ('(' in smi or re.search(r'\d', re.sub(r'\[[^\]]*\]', '', smi)) is not None)


def ring_label_ge_100(smi):
    return isinstance(smi, str) and re.search(r'%\d\d\d', re.sub(r'\[[^\]]*\]', '', smi)) is not None


def many_rings(k=100):
    """the documented witness family: k three-membered rings -> labels up to k"""
    return '[C]' + '[C][C][Ring1][Ring1][C]' * k
