"""C19 — concurrent translation calls give the same results as serial calls."""
import json
import os
import subprocess
import core
import gens
import enc_side as E
import gen_smiles
from core import S, U, sf, call, drv
from p_c14 import load_smiles

ID = 'C19'
TRUSTED = ['NOT exhibited by the model (assumed): bytecode-level atomicity of dict and functools.lru_cache operations under the GIL; free-threaded builds; '
           'the thread stress run (8 threads, 1 microsecond switch interval, cold caches) is supporting evidence only',
           'translator/gen.py footprint pass: every module-level mutable binding, global rebind and lru_cache in /repo/selfies and every function writing to them']

RUNNER = os.path.join(core.VERIF, 'harness', 'conc_runner.py')


def runner(job, hashseed='0'):
    env = dict(os.environ)
    env['PYTHONPATH'] = core.REPO
    env['PYTHONHASHSEED'] = hashseed
    p = subprocess.run([core.PY, RUNNER], input=json.dumps(job), env=env, stdout=subprocess.PIPE, stderr=subprocess.PIPE, text=True, timeout=600)
    if p.returncode != 0:
        return {'crash': p.stderr[-800:]}
    return json.loads(p.stdout)


def work(chunk, extra):
    d = drv()
    out = []
    for job in chunk:
        serial = runner(dict(job, threads=0))
        if job.get('same'):
            conc = runner(dict(job, threads=8))
            conc = {'results': [next((x for x in per if x != serial[i]), per[0]) for i, per in enumerate(conc['per_thread'])], 'unstable': []} \
                if isinstance(conc, dict) and 'per_thread' in conc and isinstance(serial, list) else conc
        else:
            conc = runner(dict(job, threads=8, rounds=2))
        # the model: every call alone
        tb = core.T(job['table'])
        model = []
        for c in job['calls']:
            if c[0] == 'dec':
                m = d.one(['dec', tb, S(c[1]), False, False])
                model.append({'ok': U(m['ok'][0])} if 'ok' in m else m)
            else:
                m = d.one(['enc', tb, S(c[1]), c[2], False])
                model.append({'ok': U(m['ok'][0])} if 'ok' in m else m)
        out.append((serial, conc, model))
    return out


def run(rep, tier, seed, b):
    rng = core.rng_for(seed, ID)
    smiles = [s for s in load_smiles() if len(s) < 70]
    rng.shuffle(smiles)
    s_ = sf()
    tabs = [s_.get_preset_constraints('default'), E.relaxed_table(), {'?': 3, 'C': 4, 'N': 3, 'O': 2, 'Fe+2': 4}]
    jobs = []
    for j in range(12 if tier == 'quick' else 200):
        calls = []
        # many calls sharing symbols (cold symbol cache hit by several threads at once), repeated symbols, rare symbols
        rare = [rng.choice(gens.ATOMS_RICH) for _ in range(6)]
        for _ in range(400 if tier == 'quick' else 1500):
            if rng.random() < 0.6:
                x = gens.live_selfies(rng, maxlen=30, rich=0.3)
                if rng.random() < 0.5:
                    x = rng.choice(rare) + x + rng.choice(rare)
                calls.append(['dec', x])
            else:
                calls.append(['enc', rng.choice(smiles), rng.random() < 0.5])
        jobs.append({'table': tabs[j % len(tabs)], 'calls': calls})
    # the SAME call made by all threads at once, on inputs that exercise per-input work for the first time in the process
    arom = E.gen_smiles_cases(rng, 150 if tier == 'quick' else 3000, mutate=0.1, aromatic_only=True, maxlen=80) + E.ring_symbol_cases(rng, 30) + list(E.FUSED) + fused_respellings(rng, 120 if tier == 'quick' else 3000)
    for j in range(4 if tier == 'quick' else 60):
        rng.shuffle(arom)
        calls = [['enc', x, rng.random() < 0.5] for x in arom[:160]] + [['dec', rng.choice(gens.ATOMS_RICH) + gens.live_selfies(rng, maxlen=25, rich=0.4)] for _ in range(60)]
        rng.shuffle(calls)
        jobs.append({'table': tabs[j % len(tabs)], 'calls': calls, 'same': True})
    res = core.pmap('p_c19', 'work', jobs, chunk=1, procs=min(core.NPROC, 6))
    for job, (serial, conc, model) in zip(jobs, res):
        rep.evaluations += len(job['calls'])
        rep.impl_traces += 2 * len(job['calls'])
        if not isinstance(serial, list) or not isinstance(conc, dict) or 'results' not in conc:
            rep.disagreements.append({'op': 'stress run', 'input': {'table': job['table'], 'n_calls': len(job['calls'])}, 'impl': [str(serial)[:300], str(conc)[:300]]})
            continue
        for i, c in enumerate(job['calls']):
            if {k: v for k, v in serial[i].items() if k != 'msg'} != model[i]:
                rep.disagreements.append({'op': 'serial call', 'input': {'table': job['table'], 'call': c}, 'impl': serial[i], 'model': model[i]})
            if conc['results'][i] != serial[i]:
                rep.oracle_failures.append({'clause': 'a call running concurrently with others returns what it returns when run alone',
                                            'input': {'table': job['table'], 'calls': job['calls'], 'index': i, 'same': bool(job.get('same'))}, 'impl': [serial[i], conc['results'][i]]})
            if 'ok' in serial[i] and len(c[1]) > 12:
                rep.nontriv(json.dumps(c))
        for u in conc.get('unstable', []):
            rep.oracle_failures.append({'clause': 'the same call repeated under concurrency returns the same result',
                                        'input': {'table': job['table'], 'calls': job['calls'], 'index': u[0]}, 'impl': u[1:]})
    rep.sample({'table': jobs[0]['table'], 'first_calls': jobs[0]['calls'][:4], 'threads': 8, 'switch_interval': 1e-6})
    rep.extra['jobs'] = len(jobs)
    rep.rule = ('%d stress jobs in fresh interpreters: 400 (quick) / 1500 (thorough) mixed decoder / encoder calls sharing rare symbols, run serially in one fresh process and on 8 threads '
                '(1 microsecond switch interval, cold caches, two rounds) in another; every call compared with the serial run, with itself across rounds, and the serial run with the model; plus jobs in which each call (aromatic molecules first seen by the process, rare symbols) '
                'is made by all 8 threads at the same moment. '
                'non-trivial = distinct accepted call longer than 12 characters' % len(jobs))


def fused_respellings(rng, n):
    """polycyclic aromatic systems written in random atom orders: the kekulisation's first (greedy) matching is then often not perfect"""
    out = []
    pool = [x for x in load_smiles() if len(x) < 90 and sum(x.count(c) for c in 'cn') >= 9] + list(E.FUSED) * 20
    while len(out) < n:
        m = E.mol_of(rng.choice(pool))
        if m is None:
            continue
        x, _ = gen_smiles.respell(m, rng, shuffle=True, digits_after_branches=0.2)
        out.append(x)
    return out


def search(rep, tier, seed, b, new_dis):
    """the proof or the footprint no longer checks: look harder for a race (all threads making the same first-seen call)"""
    rng = core.rng_for(seed + 7919, ID)
    s_ = sf()
    jobs = []
    for j in range(10 if tier == 'quick' else 60):
        xs = fused_respellings(rng, 250)
        calls = [['enc', x, False] for x in xs] + [['dec', rng.choice(gens.ATOMS_RICH) + gens.live_selfies(rng, maxlen=25, rich=0.5)] for _ in range(50)]
        rng.shuffle(calls)
        jobs.append({'table': E.relaxed_table() if j % 2 else s_.get_preset_constraints('default'), 'calls': calls, 'same': True})
    res = core.pmap('p_c19', 'work', jobs, chunk=1, procs=min(core.NPROC, 8))
    for job, (serial, conc, model) in zip(jobs, res):
        rep.evaluations += len(job['calls'])
        rep.impl_traces += 2 * len(job['calls'])
        if not isinstance(serial, list) or not isinstance(conc, dict) or 'results' not in conc:
            continue
        for i, c in enumerate(job['calls']):
            if conc['results'][i] != serial[i]:
                rep.oracle_failures.append({'clause': 'a call running concurrently with others returns what it returns when run alone',
                                            'input': {'table': job['table'], 'calls': [c], 'index': 0, 'same': True, 'found_in_job_of': len(job['calls'])},
                                            'impl': [serial[i], conc['results'][i]]})


def known(f):
    return None


def replay(data):
    i = data['failure']['input']
    job = {'table': i['table'], 'calls': i['calls']}
    serial = runner(dict(job, threads=0))
    fails = False
    for _ in range(5):
        if i.get('same'):
            conc = runner(dict(job, threads=8, same=True))
            conc = {'results': [next((x for x in per if x != serial[k]), per[0]) for k, per in enumerate(conc.get('per_thread', []))]}
        else:
            conc = runner(dict(job, threads=8, rounds=2))
        if conc.get('results') != serial or conc.get('unstable'):
            fails = True
            break
    return {'n_calls': len(job['calls']), 'fails': fails}
