"""hist_runner.py — replays ONE call history on the implementation in this (fresh) interpreter.
stdin: JSON list of ops (same encoding as the driver's "hist" op, strings as python str);
stdout: JSON list of observations.  Run with PYTHONPATH=<repo>."""
import json
import sys
import warnings
warnings.simplefilter('ignore')
import selfies as sf


def canon_attr(maps):
    return [[m.index, m.token, None if m.attribution is None else [[a.index, a.token] for a in m.attribution]] for m in maps]


def mk_key(k):
    return 12345 if k is None else k          # a non-str key


def mk_val(v):
    return 1.5 if v is None else v            # a non-int value


def obs_of(o):
    if isinstance(o, dict):
        return {'dict': [[k if isinstance(k, str) else None, v if isinstance(v, int) else None] for k, v in o.items()]}
    if isinstance(o, (set, frozenset)):
        return {'set': sorted(o)}
    return None


def run(ops):
    held = []
    out = []
    for op in ops:
        kind = op[0]
        try:
            if kind == 'new':
                held.append({mk_key(k): mk_val(v) for k, v in op[1]})
                out.append(None)
            elif kind == 'set':
                r = op[1]
                if r[0] == 'name':
                    sf.set_semantic_constraints(r[1])
                elif r[0] == 'held':
                    if r[1] >= len(held):
                        out.append(None)
                        continue
                    sf.set_semantic_constraints(held[r[1]])
                else:
                    sf.set_semantic_constraints(None)
                out.append(None)
            elif kind == 'get':
                o = sf.get_semantic_constraints()
                held.append(o)
                out.append(obs_of(o))
            elif kind == 'preset':
                o = sf.get_preset_constraints(op[1])
                held.append(o)
                out.append(obs_of(o))
            elif kind == 'alpha':
                o = sf.get_semantic_robust_alphabet()
                held.append(o)
                out.append(obs_of(o))
            elif kind == 'mut':
                if op[1] < len(held):
                    o = held[op[1]]
                    m = op[2]
                    if isinstance(o, dict):
                        if m[0] == 'setitem':
                            o[m[1]] = mk_val(m[2])
                        elif m[0] == 'del':
                            o.pop(m[1], None)
                        elif m[0] == 'clear':
                            o.clear()
                    elif isinstance(o, set):
                        if m[0] == 'add':
                            o.add(m[1])
                        elif m[0] == 'clear':
                            o.clear()
                out.append(None)
            elif kind == 'dec':
                r = sf.decoder(op[1], compatible=op[2], attribute=op[3])
                out.append({'trans': {'ok': [r[0], canon_attr(r[1])] if op[3] else [r, None]}})
            elif kind == 'enc':
                r = sf.encoder(op[1], strict=op[2], attribute=op[3])
                out.append({'trans': {'ok': [r[0], canon_attr(r[1])] if op[3] else [r, None]}})
        except Exception as e:   # noqa
            if kind in ('dec', 'enc'):
                out.append({'trans': {'err': type(e).__name__}})
            else:
                out.append({'err': type(e).__name__})
    return out


if __name__ == '__main__':
    for line in sys.stdin:
        line = line.strip()
        if line:
            print(json.dumps(run(json.loads(line))))
            sys.stdout.flush()
            break       # one history per interpreter
