"""gen_smiles.py — SMILES input generators for the encoder-side properties.
Untrusted: they only propose inputs; the Coq reader / the implementation judge them.
  respell(mol, rng)  : another spelling of a molecule read by the Coq reader
                       (random roots, neighbour order, ring labels, bond / bracket variants)
  mutate_mol(mol,rng): a chemically different variant (charges, H, isotopes, stereo tags, substituents)
  malformed(s, rng)  : broken SMILES
"""
import random
from core import U

ORG = {"B", "C", "N", "O", "S", "P", "F", "Cl", "Br", "I"}
AROM_PLAIN = {"B", "C", "N", "O", "P", "S"}


class Mol:
    """python view of the reader's smol: atoms = dict(elem, arom, iso, chi, h, charge);
    bonds: {(a,b) a<b: dict(order2, marks {a: mark, b: mark})}"""

    def __init__(self, dump):
        atoms, nbrs = dump
        self.atoms = [dict(elem=U(a[0]), arom=a[1], iso=a[2], chi=None if a[3] is None else U(a[3]), h=a[4], charge=a[5])
                      for a in atoms]
        self.adj = [[] for _ in atoms]
        self.bonds = {}
        for i, row in enumerate(nbrs):
            for (to, o2, mark, ring) in row:
                key = (min(i, to), max(i, to))
                b = self.bonds.setdefault(key, dict(order2=o2, marks={}))
                if mark is not None:
                    b['marks'][i] = chr(mark)
                if to not in self.adj[i]:
                    self.adj[i].append(to)

    def copy(self):
        import copy
        return copy.deepcopy(self)


def atom_text(a, rng, variants=True):
    plain = (a['iso'] is None and a['chi'] is None and a['h'] is None and a['charge'] == 0)
    if plain:
        if a['arom'] and a['elem'] in AROM_PLAIN:
            return a['elem'].lower()
        if not a['arom'] and a['elem'] in ORG:
            return a['elem']
    s = '['
    if a['iso'] is not None:
        s += ('0' if variants and rng.random() < 0.1 else '') + str(a['iso'])
    s += a['elem'].lower() if a['arom'] else a['elem']
    if a['chi']:
        s += a['chi']
    h = a['h'] or 0
    if h == 1:
        s += 'H' if (variants and rng.random() < 0.5) else 'H1'
    elif h > 1:
        s += 'H%d' % h
    elif variants and rng.random() < 0.05:
        s += 'H0'
    c = a['charge']
    if c != 0:
        sign = '+' if c > 0 else '-'
        k = rng.random() if variants else 1.0
        if abs(c) == 1 and k < 0.5:
            s += sign
        elif abs(c) <= 3 and k < 0.65:
            s += sign * abs(c)
        else:
            s += sign + str(abs(c))
    if variants and rng.random() < 0.03:
        s += ':%d' % rng.randint(0, 99)
    return s + ']'


def bond_text(m, a, b, at, rng, explicit=0.1):
    """bond symbol for the bond a-b as written at end `at`"""
    bd = m.bonds[(min(a, b), max(a, b))]
    o2 = bd['order2']
    both_arom = m.atoms[a]['arom'] and m.atoms[b]['arom']
    mk = bd['marks'].get(at)
    if o2 == 4:
        return '='
    if o2 == 6:
        return '#'
    if o2 == 3:
        return '' if both_arom and rng.random() > explicit else ':'
    if mk:
        return mk
    if both_arom:
        return '-'          # a single bond between aromatic atoms must be written
    return '-' if rng.random() < explicit else ''


def respell(m, rng, shuffle=True, digits_after_branches=0.15, variants=True, ring_sym=None):
    # ring_sym: None = random; 'open' / 'close' = a ring bond that needs a symbol carries it on that digit only
    """-> (smiles, order) ; order[k] = original index of the k-th written atom"""
    n = len(m.atoms)
    seen = [False] * n
    order = []
    out = []
    ring_label = {}          # bond key -> label
    free = list(range(1, 100))
    if shuffle and rng.random() < 0.5:
        rng.shuffle(free)
        free = sorted(free[:40]) if rng.random() < 0.5 else free
    open_labels = set()

    comps = []
    comp_seen = [False] * n
    for s in range(n):
        if not comp_seen[s]:
            stack = [s]; comp_seen[s] = True; c = []
            while stack:
                v = stack.pop(); c.append(v)
                for w in m.adj[v]:
                    if not comp_seen[w]:
                        comp_seen[w] = True; stack.append(w)
            comps.append(c)
    if shuffle:
        rng.shuffle(comps)
    first_frag = True

    def label_text(lab):
        if lab < 10:
            return str(lab)
        return '%%%02d' % lab

    # iterative DFS producing the string
    def write(root):
        # pre-pass: DFS tree
        parent = {root: None}
        children = {}
        ring_edges = {}
        stk = [root]
        visit = []
        local_seen = {root}
        # randomised DFS to fix tree edges
        def nb(v):
            l = list(m.adj[v])
            if shuffle:
                rng.shuffle(l)
            return l
        # recursive-free DFS
        it = {root: iter(nb(root))}
        path = [root]
        visit.append(root)
        while path:
            v = path[-1]
            try:
                w = next(it[v])
            except StopIteration:
                path.pop(); continue
            if w == parent[v]:
                continue
            if w in local_seen:
                key = (min(v, w), max(v, w))
                ring_edges.setdefault(key, None)
                continue
            local_seen.add(w); parent[w] = v
            children.setdefault(v, []).append(w)
            it[w] = iter(nb(w)); path.append(w); visit.append(w)
        # emit
        res = []

        def ring_items(v):
            rings_here = [k for k in ring_edges if v in k]
            if shuffle:
                rng.shuffle(rings_here)
            digit_items = []
            for k in rings_here:
                other = k[0] if k[1] == v else k[1]
                bd = m.bonds[k]
                both_arom = m.atoms[v]['arom'] and m.atoms[other]['arom']
                need = bd['order2'] in (4, 6) or (bd['order2'] == 2 and both_arom) or (bd['order2'] == 3 and not both_arom)
                mark_here = bd['marks'].get(v)
                if k in ring_label:                      # closing end
                    lab = ring_label.pop(k)
                    write_sym = bool(mark_here) or (need and not ring_written[k]) or (need and ring_sym is None and rng.random() < 0.3) \
                        or (not need and not bd['marks'] and rng.random() < 0.04)
                    btxt = bond_text(m, v, other, v, rng, explicit=1.0) if write_sym else ''
                    digit_items.append(btxt + label_text(lab))
                    free.append(lab); free.sort()
                else:                                    # opening end
                    lab = free.pop(0) if not shuffle or rng.random() < 0.7 else free.pop(rng.randrange(min(len(free), 12)))
                    ring_label[k] = lab
                    write_sym = bool(mark_here) or (need and (rng.random() < 0.5 if ring_sym is None else ring_sym == 'open')) \
                        or (not need and not bd['marks'] and rng.random() < 0.04)
                    btxt = bond_text(m, v, other, v, rng, explicit=1.0) if write_sym else ''
                    ring_written[k] = write_sym
                    digit_items.append(btxt + label_text(lab))
            return digit_items

        def emit(v):
            order.append(v)
            res.append(atom_text(m.atoms[v], rng, variants))
            ch = children.get(v, [])
            has_rings = any(v in k for k in ring_edges)
            # ring digits either right after the atom (usual) or after all its branches (accepted by the library);
            # in the second case they are produced after the children so that labels follow the textual order
            late = bool(ch) and has_rings and rng.random() < digits_after_branches
            if not late:
                res.extend(ring_items(v))
            for idx, w in enumerate(ch):
                last = (idx == len(ch) - 1) and not late
                if not last:
                    res.append('(')
                res.append(bond_text(m, v, w, v, rng))
                emit_iter(w)
                if not last:
                    res.append(')')
            if late:
                res.extend(ring_items(v))

        # explicit stack version of emit to avoid Python recursion limits
        def emit_iter(v0):
            emit(v0)
        emit(root)
        return ''.join(res)

    ring_written = {}
    import sys
    sys.setrecursionlimit(max(sys.getrecursionlimit(), 5000))
    frags = []
    for c in comps:
        root = rng.choice(c) if shuffle else min(c)
        frags.append(write(root))
    return '.'.join(frags), order


def mutate_mol(m, rng):
    m = m.copy()
    # declare a ring-fusion bond between two aromatic atoms single (it must then be written '-', at either ring digit or in the chain)
    if rng.random() < 0.25:
        fused = [k for k, b in m.bonds.items() if b['order2'] == 3
                 and sum(1 for w in m.adj[k[0]] if m.bonds[(min(k[0], w), max(k[0], w))]['order2'] == 3) == 3
                 and sum(1 for w in m.adj[k[1]] if m.bonds[(min(k[1], w), max(k[1], w))]['order2'] == 3) == 3]
        if fused:
            m.bonds[rng.choice(fused)]['order2'] = 2
    for _ in range(rng.randint(1, 3)):
        i = rng.randrange(len(m.atoms))
        a = m.atoms[i]
        k = rng.random()
        if k < 0.2:
            a['charge'] = rng.choice([-3, -2, -1, 1, 1, 2, 3, 10, 12])
            a['h'] = a['h'] or 0
        elif k < 0.35:
            a['iso'] = rng.choice([1, 2, 13, 14, 15, 18, 123, 0])
            a['h'] = a['h'] or 0
        elif k < 0.5:
            a['h'] = rng.choice([0, 1, 1, 2, 3, 4])
        elif k < 0.7 and not a['arom']:
            a['chi'] = rng.choice(['@', '@@'])
            a['h'] = a['h'] if a['h'] is not None else rng.choice([0, 1])
        elif k < 0.85 and not a['arom']:
            a['elem'] = rng.choice(['C', 'N', 'O', 'S', 'P', 'Si', 'Se', 'Fe', 'B', 'Sn', 'Cl', 'Na'])
            if a['elem'] not in ORG and a['h'] is None:
                a['h'] = 0
        else:
            # stereo marks on the bonds around a double bond
            for key, b in m.bonds.items():
                if b['order2'] == 4 and rng.random() < 0.3:
                    for end in key:
                        for w in m.adj[end]:
                            kk = (min(end, w), max(end, w))
                            if m.bonds[kk]['order2'] == 2 and rng.random() < 0.7:
                                m.bonds[kk]['marks'][end] = rng.choice('/\\')
                                if rng.random() < 0.5:
                                    m.bonds[kk]['marks'][w] = rng.choice('/\\')
    return m


def malformed(s, rng):
    s = list(s)
    junk = ['(', ')', '1', '2', '%', '%1', '%12', '[', ']', '=', '#', ':', '.', '..', '/', '\\', '-', '*', '$', 'X', 'c', 'n', 'Cl', 'F',
            '@', '+', 'H', '0', ' ', '٣', '²', '[C', 'C]', '[nH]', '11', '()', '(C)', '[Fe+10]', '[13CH3-]', '=1', ':1', 'c:F', 'F:']
    for _ in range(rng.randint(1, 3)):
        k = rng.random()
        i = rng.randrange(len(s) + 1)
        if k < 0.35 and s:
            del s[min(i, len(s) - 1)]
        elif k < 0.85:
            s[i:i] = list(rng.choice(junk))
        else:
            j = rng.randrange(len(s) + 1)
            a, b = min(i, j), max(i, j)
            del s[a:b]
    return ''.join(s)
