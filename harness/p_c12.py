"""C12 — constraint configuration API: faithful set/get, atomic rejection, no aliasing."""
import json
import core
import gens
import hist_common as H
from core import S, U, sf, call, drv

ID = 'C12'
TRUSTED = ['each history is replayed on the implementation in a fresh interpreter (harness/hist_runner.py); '
           'non-str keys / non-int values are represented by one exemplar each (12345, 1.5)']


def spec_check(ops, obs):
    """abstract map semantics run in lock-step with the IMPLEMENTATION's observations.
    returns list of (clause, detail)."""
    fails = []
    s_default = None
    cur = None           # abstract current table (list of [k, v]); None = initial default preset
    presets = {}
    held = []            # abstract content of the caller's objects, tracked independently of the library
    alias = []           # which held objects are (by the property) private copies: all of them
    for i, (op, ob) in enumerate(zip(ops, obs)):
        k = op[0]
        if k == 'new':
            held.append(('dict', [list(kv) for kv in op[1]]))
        elif k == 'get':
            if ob is None or 'dict' not in ob:
                fails.append(('get_semantic_constraints returns a dict', i)); held.append(('dict', [])); continue
            if cur is not None and dict_eq(ob['dict'], cur) is False:
                fails.append(('set_semantic_constraints(t); get_semantic_constraints() returns a dict equal to t', i))
            if cur is None:
                if s_default is None:
                    s_default = ob['dict']
                elif not dict_eq(ob['dict'], s_default):
                    fails.append(('the current table changed without a successful set', i))
            held.append(('dict', [list(kv) for kv in ob['dict']]))
        elif k == 'preset':
            if ob is not None and 'dict' in ob:
                if op[1] in presets and not dict_eq(presets[op[1]], ob['dict']):
                    fails.append(('presets never change', i))
                presets.setdefault(op[1], [list(kv) for kv in ob['dict']])
                held.append(('dict', [list(kv) for kv in ob['dict']]))
            elif op[1] in ('default', 'octet_rule', 'hypervalent'):
                fails.append(('get_preset_constraints of a known preset returns a dict', i))
        elif k == 'alpha':
            if ob is None or 'set' not in ob:
                fails.append(('get_semantic_robust_alphabet returns a set', i)); held.append(('set', [])); continue
            held.append(('set', list(ob['set'])))
        elif k == 'mut':
            if op[1] < len(held):
                kind, c = held[op[1]]
                m = op[2]
                if kind == 'dict':
                    if m[0] == 'setitem':
                        for kv in c:
                            if kv[0] == m[1]:
                                kv[1] = m[2]; break
                        else:
                            c.append([m[1], m[2]])
                    elif m[0] == 'del':
                        c[:] = [kv for kv in c if kv[0] != m[1]]
                    elif m[0] == 'clear':
                        c[:] = []
                else:
                    if m[0] == 'add' and m[1] not in c:
                        c.append(m[1])
                    elif m[0] == 'clear':
                        c[:] = []
        elif k == 'set':
            r = op[1]
            if ob is None:        # accepted
                if r[0] == 'name':
                    cur = ('preset', r[1])
                elif r[0] == 'held' and r[1] < len(held):
                    why = definitely_invalid(held[r[1]])
                    if why:
                        fails.append(('an update that must be rejected with ValueError (%s) was accepted' % why, i))
                    cur = [list(kv) for kv in held[r[1]][1]]
                else:
                    fails.append(('junk argument must be rejected', i))
            # rejected: nothing may change (checked through later observations)
        if isinstance(cur, tuple):      # resolve preset lazily
            pass
    return fails


def definitely_invalid(h):
    """the rejections the property names, judged without the library: missing '?', a capacity that is negative or
    not an integer, a key that is not a string or contains a character no atom spelling can contain"""
    kind, c = h
    if kind != 'dict':
        return 'wrong type'
    keys = [kv[0] for kv in c]
    if '?' not in keys:
        return "missing '?'"
    for k, v in c:
        if not isinstance(k, str):
            return 'key is not a string'
        if not isinstance(v, int):
            return 'capacity of %r is not an integer' % (k,)
        if v < 0:
            return 'capacity of %r is negative' % (k,)
        if k != '?' and (k == '' or any(ch not in 'ABCDEFGHIJKLMNOPQRSTUVWXYZabcdefghijklmnopqrstuvwxyz0123456789+-' for ch in k)):
            return 'malformed key %r' % (k,)
    return None


def dict_eq(a, b):
    if isinstance(b, tuple):
        return None
    return {json.dumps(k): v for k, v in a} == {json.dumps(k): v for k, v in b}


def probe_ops():
    """observations that expose the whole configuration state"""
    return [['get'], ['preset', 'default'], ['preset', 'octet_rule'], ['preset', 'hypervalent'], ['alpha'],
            ['dec', '[C][=C][#C][N][=N][O][S][=S][#S][P][F][Cl][Fe][=Fe]', False, False]]


def work(chunk, extra):
    out = []
    for ops in chunk:
        im = H.impl_run(ops)
        mo = H.model_run(ops)
        out.append((im, mo))
    return out


def classify(ops, idx):
    """known finding: the alphabet set handed out is the cached object"""
    seen_alpha = set()
    h = 0
    held_kind = []
    for i, op in enumerate(ops[:idx + 1]):
        if op[0] in ('new', 'get'):
            held_kind.append('dict')
        elif op[0] == 'preset' and op[1] in ('default', 'octet_rule', 'hypervalent'):
            held_kind.append('dict')
        elif op[0] == 'alpha':
            held_kind.append('set')
    for op in ops[:idx + 1]:
        if op[0] == 'mut' and op[1] < len(held_kind) and held_kind[op[1]] == 'set' and op[2][0] in ('add', 'clear'):
            return 'alphabet-alias'
    return None


def run(rep, tier, seed, b):
    rng = core.rng_for(seed, ID)
    n = 800 if tier == 'quick' else 12000
    hists = []
    for _ in range(n):
        ops = H.random_history(rng, translate=False)
        # atomicity / aliasing probes: observe everything, do one more (possibly rejected) op, observe again
        ops = ops + probe_ops()
        hists.append(ops)
    res = core.pmap('p_c12', 'work', hists, chunk=40)
    for ops, (im, mo) in zip(hists, res):
        rep.evaluations += 1
        rep.impl_traces += 1
        rep.count('ops', len(ops))
        if isinstance(im, dict) and 'crash' in im:
            rep.disagreements.append({'op': 'history', 'input': {'ops': ops}, 'impl': im})
            continue
        for o in im:
            if isinstance(o, dict) and 'err' in o:
                rep.count('rejected:' + o['err'])
        if im != mo:
            j = next(i for i, (a, c) in enumerate(zip(im, mo)) if a != c)
            rep.disagreements.append({'op': 'history', 'input': {'ops': ops[:j + 1]}, 'at': j, 'impl': im[j], 'model': mo[j],
                                      'klass': None})
        # oracle 1: abstract map in lock-step on the implementation's own observations
        for clause, i in spec_check(ops, im):
            rep.oracle_failures.append({'clause': clause, 'input': {'ops': ops[:i + 1]}, 'impl': im[i], 'klass': classify(ops, i)})
        # oracle 2: rejected updates and caller mutations change nothing: compare the final probe with a clean
        # history made only of the ACCEPTED sets (replayed with private copies, no mutations, no rejected calls)
        clean = []
        held = []
        for op, ob in zip(ops[:-len(probe_ops())], im):
            if op[0] == 'new':
                held.append([list(kv) for kv in op[1]])
            elif op[0] in ('get', 'alpha') or (op[0] == 'preset' and ob is not None and 'err' not in ob):
                held.append([list(kv) for kv in ob.get('dict', [])] if ob and 'dict' in ob else None)
            elif op[0] == 'mut' and op[1] < len(held) and held[op[1]] is not None:
                m = op[2]
                c = held[op[1]]
                if m[0] == 'setitem':
                    for kv in c:
                        if kv[0] == m[1]:
                            kv[1] = m[2]; break
                    else:
                        c.append([m[1], m[2]])
                elif m[0] == 'del':
                    c[:] = [kv for kv in c if kv[0] != m[1]]
                elif m[0] == 'clear':
                    c[:] = []
            elif op[0] == 'set' and ob is None:
                r = op[1]
                if r[0] == 'name':
                    clean.append(['set', ['name', r[1]]])
                elif r[0] == 'held' and r[1] < len(held) and held[r[1]] is not None:
                    clean.append(['new', [list(kv) for kv in held[r[1]]]])
                    clean.append(['set', ['held', sum(1 for c in clean if c[0] == 'new') - 1]])
        ref = H.impl_run(clean + probe_ops())
        rep.impl_traces += 1
        if isinstance(ref, list):
            a, c = im[-len(probe_ops()):], ref[-len(probe_ops()):]
            if a != c:
                j = next(i for i, (x, y) in enumerate(zip(a, c)) if x != y)
                rep.oracle_failures.append({'clause': 'rejected updates and caller-side mutation of returned / passed objects change nothing inside the library '
                                                      '(probe %s differs from a history containing only the accepted updates)' % probe_ops()[j][0],
                                            'input': {'ops': ops}, 'impl': a[j], 'expected': c[j],
                                            'klass': classify(ops, len(ops) - 1)})
        if sum(1 for o in ops if o[0] in ('set', 'mut')) >= 3:
            rep.nontriv(json.dumps(ops))
    for ops in hists[:3]:
        rep.sample(ops[:-len(probe_ops())])
    rep.rule = ('random histories of 3-14 configuration calls (valid / invalid dicts for every rejection reason incl. non-str keys, non-int and negative values, '
                'unknown presets, junk arguments, bool capacities), caller-side mutation of every returned / passed object and re-submission of mutated dicts, '
                'followed by a probe of the whole configuration state; each replayed in a fresh interpreter and compared with (a) the model, (b) the abstract map '
                'semantics in lock-step, (c) a clean history holding only the accepted updates. non-trivial = distinct history with >= 3 set/mutate operations')


def known(f):
    ops = f['witness']['ops']
    im = H.impl_run(ops)
    if isinstance(im, list) and im[-1] != im[0]:
        return 'get_semantic_robust_alphabet() returns %d symbols incl. [BOGUS] after the caller mutated the set it was given' % len(im[-1]['set'])
    return None


def replay(data):
    f = data['failure']
    ops = f['input']['ops']
    im = H.impl_run(ops)
    mo = H.model_run(ops)
    return {'ops': ops, 'impl': im, 'model': mo, 'spec_failures': spec_check(ops, im) if isinstance(im, list) else None,
            'fails': bool(isinstance(im, list) and spec_check(ops, im)) or im != mo}
