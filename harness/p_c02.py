"""C02 — the decoder implements the published derivation grammar exactly."""
import core
import gens
import dec_side
from core import S, U, sf, call, drv

ID = 'C02'
TRUSTED = ['spec/DocGrammar.v: derivation rules transcribed by hand from docs/source/derivation.rst (v2 symbol names), independent of decoder.py: '
           'token array + position pointer, neighbour-slot molecule, free valence recomputed from slots; three informal points of the document are fixed as stated in its header',
           'spec/Reader.v: independent SMILES reader giving atoms, bonds, marks and written neighbour order of the implementation output']


def run(rep, tier, seed, b):
    rng = core.rng_for(seed, ID)
    presets = dec_side.preset_tables()
    tabs = gens.tables(rng, 8 if tier == 'quick' else 30, presets)
    n = 30000 if tier == 'quick' else 500000
    items = [c for c in dec_side.gen_cases(rng, n, tabs, bad=0.03, malformed=0.0) if dec_side.wf_string(c[1])]
    L = 4 if tier == 'quick' else 5      # 15 symbols: 54 240 strings up to length 4, 813 615 up to length 5 (length 6 would be 12 million per table)
    tight = {'C': 3, 'N': 2, 'O': 1, 'F': 1, 'N+1': 3, '?': 2}
    ex = dec_side.exhaustive_cases(presets[0], L) + dec_side.exhaustive_cases(tight, L - 1)
    items += ex
    res = core.pmap('dec_side', 'work', items, extra={'c02': True}, chunk=600)
    for it, r in zip(items, res):
        rep.evaluations += 1
        rep.impl_traces += 1
        im = r['impl']
        inp = {'table': it[0], 'selfies': it[1]}
        if im != r['model']:
            rep.disagreements.append({'op': 'decoder', 'input': inp, 'impl': im, 'model': r['model']})
        sp = r.get('c02')
        if sp is None:
            continue
        if 'ok' in im:
            rep.count('decoded')
            if sp.get('ok') is not True:
                rep.oracle_failures.append({'clause': 'molecule read from the output = molecule derived by the documented grammar '
                                                      '(atoms with fields, bonds and orders, marks, written neighbour order)',
                                            'input': inp, 'impl': im, 'spec': sp})
            if dec_side.nontrivial_output(im['ok']):
                rep.nontriv(it[1] + str(sorted(it[0].items())))
        else:
            rep.count('rejected:' + im['err'])
            if sp.get('err') != im['err']:
                rep.oracle_failures.append({'clause': 'rejected with DecoderError exactly when the derivation reaches a symbol outside the grammar',
                                            'input': inp, 'impl': im, 'spec': sp})
    # an unclosed bracket is always rejected
    for it in items[:3000]:
        x = it[1]
        if x.count('[') == 0:
            continue
        cut = x[:x.rindex(']')]
        r = dec_side.work([(it[0], cut, False, False)], {})[0]
        rep.evaluations += 1
        if r['impl'] != {'err': 'DecoderError'}:
            rep.oracle_failures.append({'clause': 'a string with an unclosed bracket is rejected with DecoderError',
                                        'input': {'table': it[0], 'selfies': cut}, 'impl': r['impl']})
        if r['impl'] != r['model']:
            rep.disagreements.append({'op': 'decoder', 'input': {'table': it[0], 'selfies': cut}, 'impl': r['impl'], 'model': r['model']})
    for it, r in list(zip(items, res))[:5]:
        rep.sample({'selfies': it[1], 'impl': r['impl'], 'spec_agrees': r.get('c02')})
    rep.extra['exhaustive_strings'] = len(ex)
    rep.rule = ('all strings of length <= %d over a 15-symbol set covering every rule and state (default table; tight custom table), plus state-aware sampling '
                'with 3%% symbols outside the grammar x %d tables; unclosed-bracket variants. non-trivial = distinct (string, table) whose output has >= 3 atoms and a branch or ring'
                % (L, len(tabs)))


def replay(data):
    i = data['failure']['input']
    r = dec_side.work([(i['table'], i['selfies'], False, False)], {'c02': True})[0]
    sp = r.get('c02') or {}
    im = r['impl']
    fails = (sp.get('ok') is not True) if 'ok' in im else (sp.get('err') != im.get('err'))
    return {'input': i, 'impl': im, 'model': r['model'], 'spec': sp,
            'spec_molecule': drv().one(['geval', core.T(i['table']), [S(t) for t in dec_side.tokens_of(i['selfies'])]]),
            'read_from_output': drv().one(['read', S(im.get('ok', ''))]) if 'ok' in im else None, 'fails': fails}


def known(f):
    return None


def search(rep, tier, seed, b, dis):
    rng = core.rng_for(seed, ID + '/search')
    presets = dec_side.preset_tables()
    items = dec_side.exhaustive_cases(presets[0], 5) + \
        [c for c in dec_side.gen_cases(rng, 80000, gens.tables(rng, 12, presets), bad=0.03, malformed=0.0) if dec_side.wf_string(c[1])]
    res = core.pmap('dec_side', 'work', items, extra={'c02': True}, chunk=600)
    for it, r in zip(items, res):
        rep.evaluations += 1
        sp = r.get('c02') or {}
        im = r['impl']
        bad = (sp.get('ok') is not True) if 'ok' in im else (sp.get('err') != im.get('err'))
        if bad:
            rep.oracle_failures.append({'clause': 'decoder = documented grammar', 'input': {'table': it[0], 'selfies': it[1]}, 'impl': im, 'spec': sp})
