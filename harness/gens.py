"""gens.py — input generators (DESIGN 2.5).  Every random choice comes from the
random.Random passed in, so a (seed, tag) pair replays exactly."""
import itertools

INDEX = ["[C]", "[Ring1]", "[Ring2]", "[Branch1]", "[=Branch1]", "[#Branch1]",
         "[Branch2]", "[=Branch2]", "[#Branch2]", "[O]", "[N]", "[=N]", "[=C]", "[#C]", "[S]", "[P]"]
BRANCH = ["[%sBranch%d]" % (b, l) for l in (1, 2, 3) for b in ("", "=", "#")]
RING = ["[%sRing%d]" % (b, l) for l in (1, 2, 3) for b in ("", "=", "#")]
STEREO_RING = ["[%s%sRing%d]" % (a, b, l) for l in (1, 2, 3) for a in "-/\\" for b in "-/\\" if not (a == b == "-")]
ATOMS_MAIN = ["[C]", "[N]", "[O]", "[=C]", "[=N]", "[#C]", "[#N]", "[S]", "[P]", "[=S]", "[=P]", "[=O]", "[B]"]
ATOMS_TERM = ["[F]", "[Cl]", "[Br]", "[I]", "[H]"]
ATOMS_RICH = ["[C@@H1]", "[C@H1]", "[C@@]", "[C@]", "[N+1]", "[O-1]", "[NH1]", "[CH2]", "[13C]", "[13CH1]",
              "[/C]", "[\\C]", "[/N]", "[\\O]", "[=N+1]", "[S+1]", "[P-1]", "[Si]", "[Se]", "[Fe+2]", "[Fe+10]",
              "[Cu]", "[=Si]", "[CH4]", "[CH0]", "[NH4+1]", "[B-1]", "[C-1]", "[#C-1]", "[OH0]", "[2H]", "[S@@]",
              "[=S@]", "[P@@H1]", "[Sn]", "[#P]", "[#S]", "[=B]", "[C+1]", "[Cl+1]", "[I+3]", "[Na]", "[K+1]",
              "[123I]", "[N-1]", "[O+1]", "[=O+1]", "[CH1-1]", "[C@@H1-1]", "[10B]"]
SPECIAL = ["[epsilon]", "[nop]"]
LEGACY = (["[Branch%d_%d]" % (l, m) for l in (1, 2, 3) for m in (1, 2, 3)]
          + ["[Expl%sRing%d]" % (b, l) for l in (1, 2, 3) for b in ("=", "#", "/", "\\")]
          + ["[Cexpl]", "[=Nexpl]", "[C@@Hexpl]", "[N+expl]", "[O-expl]", "[#Cexpl]", "[Fe++expl]", "[NH3+expl]",
             "[cexpl]", "[=nexpl]", "[/C@Hexpl]", "[\\Nexpl]", "[13CHexpl]", "[Brexpl]", "[C-2expl]", "[Xxexpl]",
             "[CH0expl]", "[expl]", "[=expl]", "[H+expl]", "[S--expl]", "[N+1expl]", "[C:1expl]"])
INVALID = ["[X]", "[Xx]", "[c]", "[n]", "[C+0]", "[C+01]", "[CH]", "[CHH]", "[C@@@]", "[]", "[=]", "[ch]", "[ng]",
           "[Brunch1]", "[Branch4]", "[Ring4]", "[=Ring0]", "[--Ring1]", "[C ]", "[ C]", "[C-]", "[C+]", "[1]",
           "[Branch1_4]", "[epsilonn]", "[meps]", "[Expl=Ring4]", "[xRing1]", "[§ng1]", "[٣C]", "[C٣]",
           "[H١]", "[CH١]", "[C+١]", "[²H]", "[Nop]", "[NOP]", "[D]", "[T]", "[*]", "[Uue]",
           "[=/C]", "[/=C]", "[C@H12]", "[CH10]", "[-C]", "[:C]"]


def index_syms(q, n):
    out = []
    for _ in range(n):
        out.append(INDEX[q % 16])
        q //= 16
    return out[::-1]


def live_selfies(rng, maxlen=60, rich=0.15, bad=0.0, dots=0.05, nops=0.03, legacy=0.0, alphabet=None):
    """state-agnostic but structure-aware sampler: mostly chain-extending atoms,
    branches with sensible Q, rings aimed at existing / colliding / out-of-range
    targets, occasional terminators, dots, nops, [epsilon]."""
    n = rng.randint(1, maxlen)
    out = []
    natoms = 0
    atoms_main = ATOMS_MAIN
    atoms_rich = ATOMS_RICH
    atoms_term = ATOMS_TERM
    if alphabet is not None:
        al = [a for a in alphabet if 'Ring' not in a and 'Branch' not in a]
        atoms_main = [a for a in al if a not in ("[F]", "[Cl]", "[Br]", "[I]", "[H]")] or al
        atoms_rich = al
        atoms_term = [a for a in al if a in ("[F]", "[Cl]", "[Br]", "[I]", "[H]")] or al
    while len(out) < n:
        r = rng.random()
        if r < 0.50:
            out.append(rng.choice(atoms_main)); natoms += 1
        elif r < 0.50 + rich:
            out.append(rng.choice(atoms_rich)); natoms += 1
        elif r < 0.72:
            # branch
            sym = rng.choice(BRANCH)
            L = int(sym[-2])
            mode = rng.random()
            if mode < 0.7:
                q = rng.randint(0, 6)
            elif mode < 0.9:
                q = rng.randint(0, 40)
            else:
                q = rng.randint(0, 16 ** L - 1)
            idx = index_syms(q, L)
            if rng.random() < 0.1:
                idx = idx[:rng.randint(0, L)]
            if rng.random() < 0.07:
                # index symbols replaced by other symbols (they are then read for their index value); with a restricted
                # alphabet the replacements come from that alphabet only, so that the string stays inside it
                pool = (atoms_term + atoms_rich) if alphabet is not None else (ATOMS_TERM + SPECIAL + ATOMS_RICH)
                idx = [rng.choice(pool) for _ in idx]
            out.append(sym); out += idx
        elif r < 0.86:
            sym = rng.choice(RING if rng.random() < 0.8 else STEREO_RING)
            if alphabet is not None:
                sym = rng.choice([a for a in alphabet if 'Ring' in a and a not in INDEX] or RING)
            L = int(sym[-2])
            mode = rng.random()
            if mode < 0.6:
                q = rng.randint(0, max(0, min(natoms, 8)))
            elif mode < 0.8:
                q = 0 if rng.random() < 0.5 else rng.randint(0, 2)
            elif mode < 0.9:
                q = rng.randint(0, natoms + 5)
            else:
                q = rng.randint(0, 16 ** L - 1)
            idx = index_syms(q, L)
            if rng.random() < 0.1:
                idx = idx[:rng.randint(0, L)]
            out.append(sym); out += idx
        elif r < 0.90:
            out.append(rng.choice(atoms_term)); natoms += 1
        elif r < 0.90 + dots:
            out.append('.')
        elif r < 0.90 + dots + nops:
            out.append('[nop]')
        elif r < 0.90 + dots + nops + 0.01:
            out.append('[epsilon]' if alphabet is None else rng.choice(atoms_main))
        elif legacy and rng.random() < legacy * 5:
            out.append(rng.choice(LEGACY))
        elif bad and rng.random() < bad * 10:
            out.append(rng.choice(INVALID))
        else:
            out.append(rng.choice(atoms_main)); natoms += 1
    # avoid '..' and leading '.' only sometimes (those are legal inputs too)
    return ''.join(out)


def uniform_selfies(rng, alphabet, maxlen=30):
    n = rng.randint(0, maxlen)
    return ''.join(rng.choice(alphabet) for _ in range(n))


def malformed(rng, base):
    """break a string: delete / insert characters, stray brackets, unicode."""
    s = list(base)
    ops = rng.randint(1, 3)
    junk = ['[', ']', '.', '..', '[[', ']]', 'C', ' ', '٣', '²', '[nop', 'nop]', '%', '(', ')', '\n', '\x00', '[C', '[.]', '[.C]']
    for _ in range(ops):
        if not s:
            s = list(rng.choice(junk))
            continue
        k = rng.random()
        i = rng.randrange(len(s) + 1)
        if k < 0.35 and s:
            del s[min(i, len(s) - 1)]
        elif k < 0.8:
            s[i:i] = list(rng.choice(junk))
        else:
            j = rng.randrange(len(s) + 1)
            a, b = min(i, j), max(i, j)
            del s[a:b]
    return ''.join(s)


COVER = ["[C]", "[=C]", "[#N]", "[O]", "[F]", "[Branch1]", "[=Branch1]", "[#Branch2]", "[Ring1]", "[=Ring1]", "[Ring2]",
         "[epsilon]", "[N+1]", "[CH2]", "."]


def exhaustive(alphabet, maxlen):
    for L in range(0, maxlen + 1):
        for t in itertools.product(alphabet, repeat=L):
            yield ''.join(t)


ELEMS_FOR_TABLES = ["C", "N", "O", "S", "P", "F", "Cl", "Br", "I", "B", "H", "Si", "Se", "Fe", "Cu", "Na", "Sn", "Xe"]


def random_table(rng):
    """a table the (repaired) validator accepts"""
    t = {}
    for _ in range(rng.randint(0, 12)):
        e = rng.choice(ELEMS_FOR_TABLES)
        k = rng.random()
        if k < 0.6:
            key = e
        elif k < 0.9:
            key = e + rng.choice('+-') + str(rng.randint(1, 3))
        else:
            key = e + rng.choice('+-') + str(rng.choice([10, 12, 20, 100]))
        cap = rng.choice([0, 1, 2, 3, 4, 5, 6, 7, 8, 9, 12]) if rng.random() < 0.9 else rng.randint(0, 40)
        t[key] = cap
    t['?'] = rng.choice([0, 1, 2, 3, 4, 6, 8, 8, 8, 10])
    items = list(t.items())
    rng.shuffle(items)
    return dict(items)


def tables(rng, n, presets):
    out = [dict(p) for p in presets]
    while len(out) < n:
        out.append(random_table(rng))
    return out
