"""C06 — strict encoding rejects exactly the constraint-violating molecules."""
import core
import enc_side as E
import dec_common
from core import S, U, sf, call, drv

ID = 'C06'
TRUSTED = ['independent bond count: the kekulised molecule (written by the library under a table that cannot clip, checked equal to the input by same_molecule) is re-read '
           'by spec/Reader.v and judged against the table in force by valence_ok (bond-order sum + explicit H <= capacity; key E, E+n, E-n, fallback ?)']


def s_tab(t):
    return sf().get_preset_constraints(t[1]) if t[0] == 'name' else dict(t[1])


def work2(chunk, extra):
    """strict=False under two tables (the one in force and the relaxed one) and strict=True"""
    s_ = sf()
    out = E.work(chunk, {'c06': True, 'model': True})
    for (t, x, strict, attr), r in zip(chunk, out):
        dec_common.set_table(s_, E.relaxed_table())
        r['nonstrict_relaxed'] = call(s_.encoder, x, strict=False)
        dec_common.set_table(s_, t)
        r['nonstrict_again'] = call(s_.encoder, x, strict=False)
        if extra and extra.get('direct'):
            # the input itself read by the Coq reader and judged against the table (no aromatic atoms in these inputs)
            r['direct'] = core.drv().one(['rt', core.T(t), S(x), S(x)])
    return out


def run(rep, tier, seed, b):
    rng = core.rng_for(seed, ID)
    n = 8000 if tier == 'quick' else 200000
    tabs = E.tables_for(rng, 12 if tier == 'quick' else 60)[1:]      # presets + perturbed (capacities moved by 1-2)
    smis = E.gen_smiles_cases(rng, n, mutate=0.4, maxlen=70)
    # hand-made boundary molecules: each element at capacity-1, capacity, capacity+1 under the preset
    for el, cap in (('C', 4), ('N', 3), ('O', 2), ('S', 6), ('P', 5), ('B', 3), ('F', 1), ('Cl', 1)):
        for k in (cap - 1, cap, cap + 1):
            if k >= 1:
                smis.append(el + '(C)' * (k - 1) + 'C')
                smis.append('[%sH%d]' % (el, 1) + '(C)' * max(0, k - 2) + 'C')
    smis += ['[C+](C)(C)(C)C', '[N+](C)(C)(C)(C)C', '[O-](C)C', '[Fe](C)(C)(C)(C)(C)(C)(C)(C)C', '[Si](C)(C)(C)(C)C', 'c1ccccc1(C)C', 'Cn1cccc1', 'C[n]1(C)cccc1']
    items = [(tabs[rng.randrange(len(tabs))], x, True, False) for x in smis]
    # aromatic rings whose RING-CLOSURE atom is the one at the boundary: the table gives that element one unit less than / exactly what it needs
    # (a ring-closure bond is stored twice in the graph; counting it twice or not at all moves exactly these verdicts)
    dflt = sf().get_preset_constraints('default')
    for x, el, need in (('n1ccccc1', 'N', 3), ('c1ccccn1', 'N', 3), ('[nH]1cccc1', 'N', 3), ('c1ccc[nH]1', 'N', 3), ('o1cccc1', 'O', 2), ('c1ccco1', 'O', 2), ('s1cccc1', 'S', 2),
                        ('c1ccc2ccccc2c1', 'C', 4), ('c12ccccc1cccc2', 'C', 4), ('c1ccccc1', 'C', 4), ('Cc1ccccc1', 'C', 4), ('c1ccc(C)cc1', 'C', 4), ('n1ccncc1', 'N', 3),
                        ('O=n1ccccc1', 'N', 5), ('c1ccn(=O)cc1', 'N', 5), ('c1cc2ccc1CC2', 'C', 4), ('n1c2ccccc2cc1', 'N', 3), ('p1ccccc1', 'P', 3), ('c1cc[se]c1', 'Se', 2)):
        for cap in (need - 1, need, need + 1):
            t = dict(dflt); t[el] = cap
            items.append((t, x, True, False))
    res = core.pmap('p_c06', 'work2', items, chunk=300)
    for it, r in zip(items, res):
        rep.evaluations += 1
        rep.impl_traces += 3
        inp = {'table': it[0], 'smiles': it[1]}
        im = r['impl']
        if im != r['model']:
            rep.disagreements.append({'op': 'encoder(strict=True)', 'input': inp, 'impl': im, 'model': r['model']})
        ns = r.get('nonstrict', {})
        if ns != r.get('nonstrict_relaxed') or ns != r.get('nonstrict_again'):
            rep.oracle_failures.append({'clause': 'encoder(s, strict=False) does not depend on the current constraints', 'input': inp,
                                        'impl': [ns, r.get('nonstrict_relaxed'), r.get('nonstrict_again')]})
        if 'ok' not in ns:
            rep.count('not parseable / not kekulisable')
            if 'ok' in im:
                rep.oracle_failures.append({'clause': 'strict encoding accepts only what non-strict encoding accepts', 'input': inp, 'impl': [im, ns]})
            continue
        c = r.get('c06')
        if not c or not c.get('same_molecule'):
            rep.count('independent count unavailable (not judged)')
            continue
        viol = c['violates']
        rep.count('violating' if viol else 'obeying')
        if viol and 'ok' in im:
            rep.oracle_failures.append({'clause': 'strict=True raises EncoderError when some atom exceeds its capacity', 'input': inp, 'impl': im, 'kekulised': c['kek_smiles'],
                                        'klass': E.blossom_class(it[1])})
        if (not viol) and 'ok' not in im:
            rep.oracle_failures.append({'clause': 'strict=True accepts every molecule that obeys the table', 'input': inp, 'impl': im, 'kekulised': c['kek_smiles'],
                                        'klass': E.blossom_class(it[1])})
        if 'ok' in im and im['ok'] != ns['ok']:
            rep.oracle_failures.append({'clause': 'strict and non-strict encoding return the same string when both succeed', 'input': inp, 'impl': [im, ns]})
        rep.nontriv(it[1] + str(sorted(it[0].items())))
    # atoms whose explicit hydrogens alone reach or exceed the capacity (isolated, bonded, in a later fragment): the kekulised form cannot be
    # written by the decoder for these, so the INPUT is read by the Coq reader and judged directly
    import hist_common as H
    ditems = []
    for _ in range(400 if tier == 'quick' else 8000):
        c = H.h_boundary(rng)
        tsmall = s_tab(c['small']); tbig = s_tab(c['big'])
        core_atom = c['smiles'][c['smiles'].index('['):c['smiles'].index(']') + 1]
        for x in (core_atom, 'C' + core_atom, 'CC.' + core_atom + '.[Cl-]', core_atom + 'C', c['smiles']):
            ditems.append((tsmall if rng.random() < 0.6 else tbig, x, True, False))
    dres = core.pmap('p_c06', 'work2', ditems, extra={'direct': True}, chunk=300)
    for it, r in zip(ditems, dres):
        rep.evaluations += 1
        rep.impl_traces += 3
        inp = {'table': it[0], 'smiles': it[1]}
        im = r['impl']
        if im != r['model']:
            rep.disagreements.append({'op': 'encoder(strict=True)', 'input': inp, 'impl': im, 'model': r['model']})
        dct = r.get('direct') or {}
        ns = r.get('nonstrict', {})
        if 'ok' not in ns or not dct.get('same_molecule'):
            rep.count('H-boundary: not parseable (not judged)')
            continue
        viol = dct.get('violates_out')
        rep.count('H-boundary: violating' if viol else 'H-boundary: obeying')
        if viol and 'ok' in im:
            rep.oracle_failures.append({'clause': 'strict=True raises EncoderError when some atom exceeds its capacity (explicit hydrogens count)', 'input': inp, 'impl': im})
        if (not viol) and 'ok' not in im:
            rep.oracle_failures.append({'clause': 'strict=True accepts every molecule that obeys the table', 'input': inp, 'impl': im})
        rep.nontriv(it[1] + str(sorted(it[0].items())))
    # tables that change between calls, incl. the caller editing the dict it passed: the verdict follows get_semantic_constraints()
    probes = ['CN(C)(C)(C)C', 'CN(C)(C)C', 'CS(=O)(=O)C', 'CS(=O)C', 'C[Si](C)(C)C', 'COC', 'CC(C)(C)C', 'CF', 'FCF', 'C=O', 'C#N', 'CP(C)(C)(C)C', 'C[O+](C)C', 'OCl(=O)=O']
    for _ in range(60 if tier == 'quick' else 800):
        d0 = H.random_dict(rng, valid=True)
        for kv in d0:
            if kv[0] in ('N', 'S', 'O', 'C', 'Si', '?', 'P', 'F', 'Cl') and isinstance(kv[1], bool):
                kv[1] = int(kv[1])
        ops = [['new', d0], ['set', ['held', 0]]] + [['enc', p_, True, False] for p_ in rng.sample(probes, 4)]
        ops += [['mut', 0, ['setitem', rng.choice(['N', 'S', 'O', 'C', 'Si', '?', 'P']), rng.choice([0, 1, 2, 5, 7])]] for _ in range(2)]
        if rng.random() < 0.5:
            # a set call that is REJECTED (invalid key or value somewhere in the dict): the table in force, and every verdict, stay as they were
            ops += [['new', H.random_dict(rng, valid=False)], ['set', ['held', 1]]]
        tail = [['enc', p_, True, False] for p_ in probes]
        im = H.impl_run(ops + [['get']] + tail)
        rep.evaluations += 1
        rep.impl_traces += 1
        if not isinstance(im, list) or not im[len(ops)] or 'dict' not in im[len(ops)]:
            continue
        reported = {k: v for k, v in im[len(ops)]['dict']}
        # reference: a fresh interpreter set to the REPORTED table
        ref = H.impl_run([['new', [[k, v] for k, v in reported.items()]], ['set', ['held', 0]]] + tail)
        if isinstance(ref, list) and im[len(ops) + 1:] != ref[2:]:
            j = next(i for i, (a, c) in enumerate(zip(im[len(ops) + 1:], ref[2:])) if a != c)
            rep.oracle_failures.append({'clause': 'strict encoding follows the constraints in force (as reported by get_semantic_constraints), also when tables change between calls '
                                                  'when the caller later edits the dict it passed, and after a set call that was rejected',
                                        'input': {'ops': ops + [['get'], tail[j]]}, 'impl': im[len(ops) + 1 + j], 'expected': ref[2 + j]})
    # the internal graph itself after smiles_to_mol and after kekulize (atoms, adjacency rows with orders / marks / ring flags, bond counts, ring flags,
    # delocalisation subgraph): the theorems about counts, orders and the subgraph (EncCount, EncOrders, EncKeep, EncKek) are statements about this state
    dj = [(x, False) for x in smis[:1500 if tier == 'quick' else 40000]]
    try:
        dres = core.pmap('val_encoder', 'dump_chunk', dj, chunk=100)
        for r in dres:
            for bd in r['bad']:
                rep.disagreements.append({'op': 'internal graph after smiles_to_mol / kekulize', 'input': {'smiles': bd['smiles']},
                                          'impl': str(bd['impl'])[:400], 'model': str(bd['model'])[:400]})
        rep.impl_traces += len(dj)
        rep.extra['internal_graph_dumps_compared'] = len(dj)
    except Exception as ex:       # the private attributes the dump reads were renamed or removed: the tie to the internal state is broken
        rep.disagreements.append({'op': 'internal graph after smiles_to_mol / kekulize', 'input': {'smiles': dj[0][0] if dj else ''}, 'impl': 'dump failed: %r' % (ex,), 'model': None})
    for it, r in list(zip(items, res))[:4]:
        rep.sample({'smiles': it[1], 'strict': r['impl'], 'independent_count_says_violation': (r.get('c06') or {}).get('violates')})
    rep.rule = ('dataset molecules re-spelt and mutated (charges, explicit H, elements covered only by "?") x %d tables (presets and presets with capacities moved by 1-2, extra charged keys), '
                'plus per-element molecules at capacity-1 / capacity / capacity+1, plus atoms whose explicit H alone reach / exceed the capacity (isolated, bonded, later fragment; input read directly by the Coq reader); for each: strict=True outcome vs the independent count, strict=False under the table in force, '
                'under a relaxed table and again. non-trivial = distinct judged (molecule, table)' % len(tabs))


def replay(data):
    i = data['failure']['input']
    if 'ops' in i:
        import hist_common as H
        im = H.impl_run(i['ops'])
        return {'ops': i['ops'], 'impl': im, 'expected_last': data['failure'].get('expected'),
                'fails': isinstance(im, list) and im[-1] != data['failure'].get('expected')}
    r = work2([(i['table'], i['smiles'], True, False)], None)[0]
    c = r.get('c06') or {}
    bad = ('ok' in r['impl']) == bool(c.get('violates')) if c.get('same_molecule') else False
    return {'input': i, 'strict': r['impl'], 'nonstrict': r.get('nonstrict'), 'independent': c,
            'fails': bad or r.get('nonstrict') != r.get('nonstrict_relaxed')}


def known(f):
    return None
