"""C17 — attribution is observation-only and truthful about tokens."""
import re
import core
import gens
import enc_side as E
import dec_side
import dec_common
from core import S, U, sf, call, drv

ID = 'C17'
TRUSTED = ['independent tokenisations of the input and output strings in the harness (regular expressions); exact attribution lists are additionally compared with the model']

SM_TOK = re.compile(r'(?P<bond>[-=#:/\\])?(?:(?P<atom>\[[^\]]*\]|Br|Cl|[A-Za-z])|(?P<ring>%\d\d|\d)|(?P<par>[()]))|(?P<dot>\.)')
ATOM = re.compile(r'^(\d*)([A-Za-z][a-z]?)(@{0,2})((?:H\d?)?)((?:\++|-+|[+-]\d+)?)((?::\d+)?)$')


def norm_atom(tok):
    """(isotope, element, H, charge) of a SMILES atom token or of a SELFIES atom symbol without its bond prefix"""
    if tok.startswith('['):
        m = ATOM.match(tok[1:-1])
        if not m:
            return None
        iso, el, chi, h, chg, _ = m.groups()
        hc = 0 if h == '' else (1 if h == 'H' else int(h[1:]))
        if chg == '':
            c = 0
        elif chg[-1].isdigit():
            c = int(chg[1:]) * (1 if chg[0] == '+' else -1)
        else:
            c = len(chg) * (1 if chg[0] == '+' else -1)
        return (int(iso) if iso else None, el.capitalize(), hc, c)
    return (None, tok.capitalize(), None, 0)


def norm_symbol(sym):
    body = sym[1:-1]
    if body[:1] in '=#/\\':
        body = body[1:]
    if body in ("B", "C", "N", "O", "S", "P", "F", "Cl", "Br", "I"):
        return (None, body, None, 0)
    return norm_atom('[' + body + ']')


def same_atom(a, b):
    if a is None or b is None:
        return False
    # unbracketed SMILES atoms have H None; their SELFIES symbol too
    return a[0] == b[0] and a[1] == b[1] and a[3] == b[3] and (a[2] == b[2] or a[2] is None or b[2] is None)


def smiles_positions(x):
    """token text per attribution position (the encoder counts atoms, parentheses and ring labels, a bond symbol before an atom counts one extra position, dots are not counted)"""
    pos = {}
    atoms = []
    i = 0
    for m in SM_TOK.finditer(x):
        if m.group('dot'):
            continue
        if m.group('atom'):
            if m.group('bond'):
                i += 1
            pos[i] = m.group('atom')
            atoms.append((i, m.group('atom')))
        i += 1
    return pos, atoms


QCACHE = {}


def check_decoder(x, res, compat=False):
    """x: SELFIES input; res = [smiles, maps]"""
    smi, maps = res
    toks = [t for t in dec_side.tokens_of(x) if t not in ('.', '[nop]')]
    seq, frag = [], 0
    for t in dec_side.tokens_of(x):
        if t == '.':
            frag += 1
        elif t != '[nop]':
            seq.append((t, frag))
    fails = []
    out_atoms = re.findall(r'\[[^\]]*\]|Br|Cl|[BCNOSPFI]', smi)
    n_atom_maps = 0
    for (idx, tok, attr) in maps:
        if smi[idx - len(tok) + 1: idx + 1] != tok:
            fails.append('output token %r is not found in the output ending at index %d' % (tok, idx))
        if attr is None:
            if tok not in ('=', '#', '/', '\\', '-'):      # ring-bond tokens carry no attribution; atoms must
                fails.append('attribution missing for output atom %r' % tok)
            continue
        for (i, t) in attr:
            if i >= len(toks) or toks[i] != t:
                fails.append('contributing token %r is not the symbol at position %d of the input' % (t, i))
        is_atom = tok not in ('=', '#', '/', '\\', '-')
        if is_atom:
            n_atom_maps += 1
            if not attr:
                fails.append('output atom %r has no attribution' % tok)
                continue
            i, t = attr[-1]
            if not same_atom(norm_symbol(t), norm_atom(tok)):
                fails.append('output atom %r is attributed to %r, which is not the atom symbol that created it' % (tok, t))
            prev = -1
            for (j, bt) in attr[:-1]:
                if 'Branch' not in bt or not (prev < j < i):
                    fails.append('output atom %r: enclosing symbols %r are not branch symbols in input order before the atom symbol' % (tok, attr[:-1]))
                    break
                prev = j
            # "enclosing": a branch symbol [..BranchL] at position j whose L index symbols spell Q fetches the symbols it derives itself at positions
            # in (j+L, j+L+Q+1] (a nested branch or ring symbol fetched there may run past that span, with its own index symbols and body); so, reading
            # the listed branch symbols from the outside in, each next one - and finally the atom symbol - lies in that span of the one before it
            # (Q by the documented index code, not the library's; same fragment)
            if not compat and i < len(seq):
                chain = [(j, bt) for (j, bt) in attr[:-1]] + [(i, None)]
                for (j, bt), (nxt, _) in zip(chain, chain[1:]):
                    mb = re.match(r'^\[[=#]?Branch([123])\]$', bt)
                    if not (mb and j < len(seq) and nxt < len(seq) and seq[j][0] == bt):
                        break
                    L = int(mb.group(1))
                    idx = [seq[k][0] if (k < len(seq) and seq[k][1] == seq[j][1]) else None for k in range(j + 1, j + 1 + L)]
                    key = tuple(idx)
                    if key not in QCACHE:
                        QCACHE[key] = drv().one(['spec_idx', [None if t is None else S(t) for t in idx]])
                    Q = QCACHE[key]
                    if not (seq[nxt][1] == seq[j][1] and j + L < nxt <= j + L + Q + 1):
                        fails.append('output atom %r (symbol %d): the branch symbol %r at %d fetches symbols %d..%d only, the next symbol of the attribution (%d) is not among them: not an enclosing branch'
                                     % (tok, i, bt, j, j + L + 1, j + L + Q + 1, nxt))
                        break
    if n_atom_maps != len(out_atoms):
        fails.append('%d atoms in the output but %d atom attribution entries' % (len(out_atoms), n_atom_maps))
    return fails


def check_encoder(x, res):
    sel, maps = res
    pos, atoms = smiles_positions(x)
    fails = []
    for (idx, tok, attr) in maps:
        for (i, t) in (attr or []):
            if pos.get(i) != t:
                fails.append('contributing token %r is not the SMILES token at position %d' % (t, i))
    for (i, t) in atoms:
        cands = [m for m in maps if m[2] == [[i, t]] and 'Branch' not in m[1] and 'Ring' not in m[1]]
        if not any(same_atom(norm_symbol(m[1]), norm_atom(t)) for m in cands):
            fails.append('no SELFIES atom symbol is attributed to the SMILES atom token %r at position %d' % (t, i))
    return fails


def work(chunk, extra):
    s_ = sf()
    d = drv()
    out = []
    for (kind, t, x, flag) in chunk:
        dec_common.set_table(s_, t)
        tb = core.T(t)
        r = {'dis': [], 'fail': []}
        if kind == 'dec':
            plain = dec_common.impl_decode(s_, x, flag, False)
            withattr = dec_common.impl_decode(s_, x, flag, True)
            m = dec_common.model_decode_canon(d.one(dec_common.model_decode_req(tb, x, flag, True)), True)
            if withattr != m:
                r['dis'].append({'op': 'decoder(attribute=True)', 'input': {'table': t, 'selfies': x, 'compatible': flag}, 'impl': withattr, 'model': m})
            if ('ok' in plain) != ('ok' in withattr) or ('ok' in plain and plain['ok'] != withattr['ok'][0]) or ('err' in plain and plain != withattr):
                r['fail'].append({'clause': 'decoder returns the same string with attribute=True as without', 'input': {'table': t, 'selfies': x, 'compatible': flag},
                                  'impl': [plain, withattr]})
            if 'ok' in withattr and not flag and dec_side.wf_string(x):
                for f in check_decoder(x, withattr['ok'], compat=bool(flag))[:3]:
                    r['fail'].append({'clause': 'decoder attribution is truthful: ' + f, 'input': {'table': t, 'selfies': x, 'compatible': flag}, 'impl': withattr})
            r['ok'] = 'ok' in withattr
        else:
            plain = call(s_.encoder, x, strict=flag)
            withattr = E.canon_enc(call(s_.encoder, x, strict=flag, attribute=True), True)
            m = E.model_enc(d, tb, x, flag, True)
            if withattr != m:
                r['dis'].append({'op': 'encoder(attribute=True)', 'input': {'table': t, 'smiles': x, 'strict': flag}, 'impl': withattr, 'model': m})
            if ('ok' in plain) != ('ok' in withattr) or ('ok' in plain and plain['ok'] != withattr['ok'][0]) or ('err' in plain and plain != withattr):
                r['fail'].append({'clause': 'encoder returns the same string with attribute=True as without', 'input': {'table': t, 'smiles': x, 'strict': flag},
                                  'impl': [plain, withattr]})
            if 'ok' in withattr:
                for f in check_encoder(x, withattr['ok'])[:3]:
                    r['fail'].append({'clause': 'encoder attribution is truthful: ' + f, 'input': {'table': t, 'smiles': x, 'strict': flag}, 'impl': withattr})
            r['ok'] = 'ok' in withattr
        out.append(r)
    return out


def run(rep, tier, seed, b):
    rng = core.rng_for(seed, ID)
    presets = dec_side.preset_tables()
    tabs = gens.tables(rng, 5, presets)
    n = 14000 if tier == 'quick' else 300000
    items = []
    for (t, x, c, a) in dec_side.gen_cases(rng, n, tabs, bad=0.01, legacy=0.0, malformed=0.02, flags=False):
        x2 = x
        if rng.random() < 0.5:        # multi-fragment, nop-padded, truncated index symbols
            x2 = x + '.' + gens.live_selfies(rng, 15) if rng.random() < 0.6 else x.replace(']', '][nop]', rng.randint(0, 3))
        items.append(('dec', t, x2, rng.random() < 0.1))
    # many rings: ring labels >= 10 are written %NN, and tokens written after them must still be located exactly
    units = ['[C][C][C][Ring1][Ring1]', '[C][C][C][C][Ring1][Ring2]', '[N][C][C][Ring1][Ring1]', '[C][C][=C][Ring1][Ring1]', '[C][C][C][=Ring1][Ring1]',
             '[C][Branch1][Ring2][C][C][Ring1][Ring1][C]', '[C][C][C][C][C][Ring1][Branch1]']
    for _ in range(400 if tier == 'quick' else 8000):
        k = rng.randint(8, 16)
        x = ''.join(rng.choice(units) for _ in range(k))
        if rng.random() < 0.4:
            cut = rng.randint(1, k - 1)
            parts = x.split(']')
            j = rng.randint(1, len(parts) - 2)
            x = ']'.join(parts[:j]) + '].' + ']'.join(parts[j:])
        x += rng.choice(['[=O]', '[C][=O]', '[#N]', '[C][Branch1][C][F][=N]', '[/C][=C][/F]', '[13CH2][O-1]']) + (gens.live_selfies(rng, 8) if rng.random() < 0.5 else '')
        items.append(('dec', rng.choice(tabs), x, False))
    etabs = E.tables_for(rng, 4)
    for x in E.gen_smiles_cases(rng, n // 3, mutate=0.2, maxlen=90):
        items.append(('enc', rng.choice(etabs), x, rng.random() < 0.6))
    # a bond character in front of the first atom of the string or of a fragment is a token of its own
    lead = E.gen_smiles_cases(rng, 250 if tier == 'quick' else 5000, mutate=0.0, maxlen=40)
    for x in lead:
        b = rng.choice(['=', '-', '#', '/', '\\'])
        k = rng.random()
        if k < 0.6:
            x2 = b + x
        elif k < 0.8:
            x2 = x + '.' + b + rng.choice(['C', 'N', 'CO', '[NH4+]', 'C=O'])
        else:
            x2 = b + x + '.' + rng.choice(['=', '-']) + 'O'
        items.append(('enc', rng.choice(etabs), x2, rng.random() < 0.5))
    for x2 in ('=CN', '-CO', '/C=C/F', '\\C=C/N', '=[NH2+]C', '-[O-].[Na+]', 'C.=NO', '#CC', '=C(C)C', '-C1CC1'):
        items.append(('enc', presets[0], x2, False))
    res = core.pmap('p_c17', 'work', items, chunk=300)
    for it, r in zip(items, res):
        rep.evaluations += 1
        rep.impl_traces += 2
        rep.disagreements += r['dis']
        rep.oracle_failures += r['fail']
        rep.count(it[0] + ('/ok' if r.get('ok') else '/rejected'))
        if r.get('ok') and len(it[2]) > 15:
            rep.nontriv(it[0] + it[2])
    for it in items[:2] + items[-2:]:
        rep.sample({'direction': it[0], 'input': it[2]})
    rep.rule = ('decoder: live strings x tables, half of them multi-fragment / [nop]-padded / with truncated index symbols, 10%% with compatible=True, plus strings with 8-16 ring bonds (labels %%10 and above) followed by further atoms; encoder: re-spelt and mutated dataset SMILES '
                'x tables x strict; for each: string with and without attribution, exact attribution list vs the model, truthfulness judged with independent tokenisations. '
                'non-trivial = distinct accepted input longer than 15 characters')


def replay(data):
    i = data['failure']['input']
    if 'selfies' in i:
        r = work([('dec', i['table'], i['selfies'], i.get('compatible', False))], None)[0]
    else:
        r = work([('enc', i['table'], i['smiles'], i.get('strict', True))], None)[0]
    return {'input': i, 'disagreements': r['dis'], 'oracle_failures': r['fail'], 'fails': bool(r['fail'])}


def known(f):
    return None
