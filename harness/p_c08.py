"""C08 — decoder is total: returns or raises DecoderError, always terminates."""
import sys
import time
import core
import gens
import dec_side
from core import S, U, sf, call, drv

ID = 'C08'
TRUSTED = ['the model carries two interpreter limits explicitly (recursion depth per branch nesting level, int() digit limit); '
           'the theorem is stated under both hypotheses and the two witnesses are known findings']


def classify(x, err):
    if err == 'RecursionError':
        # known finding: one Python frame per level of branch nesting; a level needs at least one branch symbol, so only inputs with about as many
        # branch symbols as the recursion limit can belong to it - a RecursionError on anything shallower is a new violation
        import sys
        return 'nesting-depth-over-recursion-limit' if x.count('ranch') >= sys.getrecursionlimit() - 150 else None
    if err == 'ValueError' and max((len(m) for m in __import__('re').findall(r'\d+', x)), default=0) > 4300:
        return 'digit-run-over-int-limit'
    return None


def outcome(r):
    return 'returns' if 'ok' in r else r['err']


def work(chunk, extra):
    s_ = sf()
    d = drv()
    out = []
    for (t, x, c, a) in chunk:
        import dec_common
        dec_common.set_table(s_, t)
        t0 = time.time()
        im = dec_common.impl_decode(s_, x, c, a)
        dt = time.time() - t0
        after = s_.get_semantic_constraints() == dict(t)
        m = d.one(dec_common.model_decode_req(core.T(t), x, c, a))
        out.append((outcome(im), outcome(m), after, dt))
    return out


def run(rep, tier, seed, b):
    rng = core.rng_for(seed, ID)
    presets = dec_side.preset_tables()
    tabs = gens.tables(rng, 5, presets)
    n = 40000 if tier == 'quick' else 800000
    items = []
    for (t, x, c, a) in dec_side.gen_cases(rng, n, tabs, bad=0.05, legacy=0.03, malformed=0.5, flags=True, maxlen=40):
        items.append((t, x, c, a))
    # arbitrary str: random code points, brackets, nothing SELFIES-like
    pool = list('[].[]C=#/\\@+-HNOepsilonchng1239') + ['٣', '²', '\x00', '\n', ' ', '\U0001F600', 'é']
    for _ in range(n // 4):
        x = ''.join(rng.choice(pool) for _ in range(rng.randint(0, 25)))
        items.append((presets[0], x, rng.random() < 0.3, rng.random() < 0.3))
    # rejected symbols made of every printable character and of format-string / template fragments, at every kind of
    # position where a symbol is processed (the error path builds a message out of the offending symbol)
    frag = [chr(c) for c in range(0x20, 0x7f) if chr(c) not in '[]'] + ['{}', '{0}', '{x}', '{0.real}', '{!r}', '%s', '%d', '%(a)s', '%', '\\N{', '$x', '${x}', '\\', '\'"']
    for fch in frag:
        for sym in ('[%s]' % fch, '[C%s]' % fch, '[%sC]' % fch, '[=%s1]' % fch, '[%sexpl]' % fch):
            for x in (sym, '[C]' + sym, '[C][Branch1]' + sym + '[C]', '[C][C][Ring1]' + sym, '[C].' + sym + '[C]', '[C][=C][Branch1][C]' + sym + '[O]'):
                items.append((presets[0], x, rng.random() < 0.5, rng.random() < 0.5))
    # long inputs (the v2.1.2 recursion bug class) and moderately deep nesting
    for k in ((1500, 3000) if tier == 'quick' else (3000, 8000)):
        items.append((presets[0], '[C]' * k, False, False))
        items.append((presets[0], '[C][Branch1][C][O]' * (k // 4), False, True))
    for dpt in (10, 100, 300):
        items.append((presets[2], '[S][Branch3][P][P][P]' * dpt + '[C]', False, False))
    items.append((presets[0], '[C][Ring3][P][P][P]' * 50, True, True))
    # many ring bonds in one call (100 and more distinct ring closures: the writer's label counter is never reused), in one fragment and across fragments
    for k in (99, 100, 101, 150):
        for a_ in (False, True):
            items.append((presets[0], '[C][C][C][Ring1][Ring1]' * k, False, a_))
            items.append((presets[0], '.'.join(['[C][C][C][Ring1][Ring1]'] * k), False, a_))
            items.append((presets[0], '[C]' + '[C][C][=Ring1][Ring1][C]' * k, False, a_))
            items.append((presets[0], '[C][C][C][Expl=Ring1][Ring1]' * k, True, a_))
    items.append((presets[0], '[' + '1' * 4000 + 'C]', False, False))
    res = core.pmap('p_c08', 'work', items, chunk=500)
    slow = 0.0
    for it, (oi, om, after, dt) in zip(items, res):
        rep.evaluations += 1
        rep.impl_traces += 1
        rep.count(oi)
        slow = max(slow, dt)
        inp = {'table': it[0], 'selfies': it[1], 'compatible': it[2], 'attribute': it[3]}
        if oi != om:
            rep.disagreements.append({'op': 'decoder outcome class', 'input': inp, 'impl': oi, 'model': om})
        if oi not in ('returns', 'DecoderError'):
            rep.oracle_failures.append({'clause': 'decoder returns or raises DecoderError; no other exception type escapes',
                                        'input': inp, 'impl': oi, 'klass': classify(it[1], oi)})
        if not after:
            rep.oracle_failures.append({'clause': 'the global constraint state is left untouched', 'input': inp, 'impl': oi})
        if oi == 'DecoderError' or len(it[1]) > 30:
            rep.nontriv(it[1][:200] + str(it[2]) + str(it[3]))
    rep.extra['slowest_call_s'] = round(slow, 3)
    for it in items[:3] + items[-3:]:
        rep.sample({'selfies': it[1][:120], 'compatible': it[2], 'attribute': it[3]})
    rep.rule = ('50% malformed variants of live strings (stray / missing brackets, dots, non-ASCII), legacy and unknown symbols, arbitrary code-point strings, '
                'all four flag combinations, long inputs (3000 symbols quick / 8000 thorough; the extracted model is quadratic) and nesting depth up to 300; outcome class compared with the model and judged. '
                'non-trivial = distinct input that is rejected or longer than 30 characters')


def known(f):
    s_ = sf()
    s_.set_semantic_constraints('hypervalent')
    try:
        x = eval(f['witness']['selfies_expr'])
        r = call(s_.decoder, x)
    finally:
        s_.set_semantic_constraints()
    if 'err' in r and r['err'] != 'DecoderError':
        return 'decoder(%s) raises %s' % (f['witness']['selfies_expr'], r['err'])
    return None


def replay(data):
    i = data['failure']['input']
    r = work([(i['table'], i['selfies'], i.get('compatible', False), i.get('attribute', False))], None)[0]
    return {'input': {k: (v if k != 'selfies' else v[:300]) for k, v in i.items()}, 'impl_outcome': r[0], 'model_outcome': r[1],
            'table_untouched': r[2], 'fails': r[0] not in ('returns', 'DecoderError') or not r[2]}
