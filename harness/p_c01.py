"""C01 — every SELFIES string decodes to a syntactically valid, valence-valid SMILES."""
import core
import gens
import dec_side
from core import S, U, sf, call, drv

ID = 'C01'
TRUSTED = ['spec/Reader.v: independent SMILES reader + validity predicate valid_smiles_under (balanced branches, legal/paired ring labels, '
           'no self bond, no double bond between a pair, bond sum + H <= capacity under the table), written from OpenSMILES, not from smiles_utils.py',
           'RDKit sanitisation (thorough tier, default table, robust alphabet only) is sampled support outside any model']


def classify(smi):
    return 'ring-label-ge-100' if dec_side.ring_label_ge_100(smi) else None


def run(rep, tier, seed, b):
    rng = core.rng_for(seed, ID)
    s_ = sf()
    presets = dec_side.preset_tables()
    tabs = gens.tables(rng, 10 if tier == 'quick' else 40, presets)
    n = 40000 if tier == 'quick' else 600000
    items = dec_side.gen_cases(rng, n, tabs, bad=0.01, malformed=0.03)
    # bounded exhaustive over a symbol set covering every rule x state, default + a tight custom table
    L = 4 if tier == 'quick' else 5
    tight = {'C': 2, 'N': 1, 'O': 0, 'F': 1, 'N+1': 3, '?': 1}
    items += dec_side.exhaustive_cases(presets[0], L)
    items += dec_side.exhaustive_cases(tight, L - 1)
    # targeted families: many rings (up to 99 legal), deep nesting, collisions
    for k in (1, 9, 10, 98, 99):
        items.append((presets[0], dec_side.many_rings(k), False, False))
    for dpt in (5, 50, 200):
        items.append((presets[2], '[S][Branch3][P][P][P]' * dpt + '[C]', False, False))
    res = core.pmap('dec_side', 'work', items, extra={'valid': True}, chunk=600)
    for it, r in zip(items, res):
        rep.evaluations += 1
        rep.impl_traces += 1
        im = r['impl']
        if im != r['model']:
            rep.disagreements.append({'op': 'decoder', 'input': {'table': it[0], 'selfies': it[1]}, 'impl': im, 'model': r['model']})
        if 'ok' in im:
            rep.count('decoded')
            if not r['valid']:
                rep.oracle_failures.append({'clause': 'decoder output is a well-formed, simple, valence-valid SMILES under the table in force',
                                            'input': {'table': it[0], 'selfies': it[1]}, 'impl': im, 'klass': classify(im['ok'])})
            if dec_side.nontrivial_output(im['ok']):
                rep.nontriv(it[1] + json_key(it[0]))
        else:
            rep.count('rejected:' + im['err'])
    for it, r in list(zip(items, res))[:6]:
        rep.sample({'selfies': it[1], 'table': 'preset' if it[0] in presets else it[0], 'impl': r['impl']})
    # RDKit (sampled support, default table + robust alphabet)
    if tier == 'thorough':
        try:
            from rdkit import Chem, RDLogger
            RDLogger.DisableLog('rdApp.*')
            s_.set_semantic_constraints()
            al = sorted(s_.get_semantic_robust_alphabet())
            bad = 0
            for _ in range(20000):
                x = gens.live_selfies(rng, alphabet=al, rich=0.0)
                smi = s_.decoder(x)
                if smi and Chem.MolFromSmiles(smi) is None:
                    bad += 1
                    rep.oracle_failures.append({'clause': 'RDKit sanitises outputs over the robust alphabet (default table)',
                                                'input': {'table': presets[0], 'selfies': x}, 'impl': smi, 'klass': classify(smi)})
            rep.extra['rdkit_sampled'] = 20000
        except ImportError:
            rep.notes.append('rdkit not importable: sanitizer clause not sampled')
    rep.rule = ('state-aware live sampler + malformed variants x %d tables (3 presets + random custom incl. capacity 0 and >8); all strings of length <= %d '
                'over a 15-symbol rule-covering set (default table) and length <= %d under a tight custom table; ring-count and nesting families. '
                'non-trivial = distinct (string, table) whose output has >= 3 atoms and a branch or ring' % (len(tabs), L, L - 1))
    rep.exhaustive = False


def json_key(t):
    import json
    return json.dumps(t, sort_keys=True)


def known(f):
    s_ = sf()
    s_.set_semantic_constraints()
    w = f['witness']['selfies_expr']
    x = eval(w, {'many_rings': dec_side.many_rings})
    r = call(s_.decoder, x)
    if 'ok' in r and dec_side.ring_label_ge_100(r['ok']) and not drv().one(['valid', core.T(s_.get_semantic_constraints()), S(r['ok'])]):
        return 'decoder(%s) contains a ring label >= %%100' % w
    return None


def replay(data):
    f = data['failure']
    i = f['input']
    r = dec_side.work([(i['table'], i['selfies'], False, False)], {'valid': True})[0]
    return {'input': i, 'impl': r['impl'], 'model': r['model'], 'valid_smiles_under': r.get('valid'),
            'fails': ('ok' in r['impl'] and not r.get('valid'))}


def search(rep, tier, seed, b, dis):
    """proof or tie broken: mutate around the disagreeing inputs and sweep wider"""
    rng = core.rng_for(seed, ID + '/search')
    presets = dec_side.preset_tables()
    items = []
    for dd in dis[:50]:
        i = dd.get('input', {})
        if 'selfies' in i:
            toks = dec_side.tokens_of(i['selfies'])
            for _ in range(40):
                t2 = list(toks)
                for _ in range(rng.randint(1, 3)):
                    if t2 and rng.random() < 0.5:
                        del t2[rng.randrange(len(t2))]
                    else:
                        t2.insert(rng.randrange(len(t2) + 1), rng.choice(gens.ATOMS_MAIN + gens.BRANCH + gens.RING))
                items.append((i.get('table', presets[0]), ''.join(t2), False, False))
    items += dec_side.gen_cases(rng, 60000, gens.tables(rng, 12, presets), bad=0.0, malformed=0.0)
    res = core.pmap('dec_side', 'work', items, extra={'valid': True}, chunk=600)
    for it, r in zip(items, res):
        rep.evaluations += 1
        if 'ok' in r['impl'] and not r['valid']:
            rep.oracle_failures.append({'clause': 'decoder output is a well-formed, simple, valence-valid SMILES under the table in force',
                                        'input': {'table': it[0], 'selfies': it[1]}, 'impl': r['impl'], 'klass': classify(r['impl']['ok'])})
