"""C01 — every SELFIES string decodes to a syntactically valid, valence-valid SMILES."""
import core
import gens
import dec_side
from core import S, U, sf, call, drv

ID = 'C01'
TRUSTED = ['spec/Reader.v: independent SMILES reader + validity predicate valid_smiles_under (balanced branches, legal/paired ring labels, '
           'no self bond, no double bond between a pair, bond sum + H <= capacity under the table), written from OpenSMILES, not from smiles_utils.py',
           'RDKit sanitisation (thorough tier, default table, robust alphabet only) is sampled support outside any model']


def classify(smi):
    return 'ring-label-ge-100' if dec_side.ring_label_ge_100(smi) else None


def run(rep, tier, seed, b):
    rng = core.rng_for(seed, ID)
    s_ = sf()
    presets = dec_side.preset_tables()
    tabs = gens.tables(rng, 10 if tier == 'quick' else 40, presets)
    n = 40000 if tier == 'quick' else 600000
    items = dec_side.gen_cases(rng, n, tabs, bad=0.01, malformed=0.03)
    # bounded exhaustive over a symbol set covering every rule x state, default + a tight custom table
    L = 4 if tier == 'quick' else 5
    tight = {'C': 2, 'N': 1, 'O': 0, 'F': 1, 'N+1': 3, '?': 1}
    items += dec_side.exhaustive_cases(presets[0], L)
    items += dec_side.exhaustive_cases(tight, L - 1)
    # targeted families: many rings (up to 99 legal), deep nesting, collisions
    for k in (1, 9, 10, 98, 99):
        items.append((presets[0], dec_side.many_rings(k), False, False))
    for dpt in (5, 50, 200):
        items.append((presets[2], '[S][Branch3][P][P][P]' * dpt + '[C]', False, False))
    res = core.pmap('dec_side', 'work', items, extra={'valid': True}, chunk=600)
    for it, r in zip(items, res):
        rep.evaluations += 1
        rep.impl_traces += 1
        im = r['impl']
        if im != r['model']:
            rep.disagreements.append({'op': 'decoder', 'input': {'table': it[0], 'selfies': it[1]}, 'impl': im, 'model': r['model']})
        if 'ok' in im:
            rep.count('decoded')
            if not r['valid']:
                rep.oracle_failures.append({'clause': 'decoder output is a well-formed, simple, valence-valid SMILES under the table in force',
                                            'input': {'table': it[0], 'selfies': it[1]}, 'impl': im, 'klass': classify(im['ok'])})
            if dec_side.nontrivial_output(im['ok']):
                rep.nontriv(it[1] + json_key(it[0]))
        else:
            rep.count('rejected:' + im['err'])
    for it, r in list(zip(items, res))[:6]:
        rep.sample({'selfies': it[1], 'table': 'preset' if it[0] in presets else it[0], 'impl': r['impl']})
    # the table in force after a history of calls (tables set, decodes that fill the caches, the caller editing the dict it passed):
    # every later output must obey the constraints the library reports
    import hist_common as H
    d = drv()
    probes = ['[O][=S][=Branch1][C][=O][=O]', '[C][N][Branch1][C][C][Branch1][C][C][Branch1][C][C][C]', '[C][=C][=C][=C]', '[F][P][Branch1][C][F][Branch1][C][F][Branch1][C][F][F]',
              '[C][O][Branch1][C][C][C]', '[C][#S][#C]', '[Cl][Branch1][C][C][C]', '[C][=N][=C]']
    for _ in range(80 if tier == 'quick' else 1500):
        d0 = H.random_dict(rng, valid=True)
        for kv in d0:
            if isinstance(kv[1], bool):
                kv[1] = int(kv[1])
        ops = [['new', d0], ['set', ['held', 0]]] + [['dec', x, False, False] for x in rng.sample(probes, 3)]
        ops += [['mut', 0, ['setitem', rng.choice(['N', 'S', 'O', 'C', 'P', 'Cl', '?']), rng.choice([0, 1, 2, 5, 7])]] for _ in range(2)]
        tail = [['dec', x, False, False] for x in probes] + [['dec', gens.live_selfies(rng, maxlen=20), False, False] for _ in range(4)]
        im = H.impl_run(ops + [['get']] + tail)
        rep.evaluations += len(tail)
        rep.impl_traces += 1
        if not isinstance(im, list) or not im[len(ops)] or 'dict' not in im[len(ops)]:
            continue
        reported = {k: v for k, v in im[len(ops)]['dict'] if k is not None}
        if '?' not in reported or any((not isinstance(v, int)) or v < 0 for v in reported.values()):
            rep.count('history: reported table not a valid table (not judged)')
            continue
        for op, o in zip(tail, im[len(ops) + 1:]):
            t = (o or {}).get('trans') or {}
            if 'ok' in t:
                out = t['ok'][0]
                rep.count('history: decoded')
                if not d.one(['valid', core.T(reported), S(out)]):
                    rep.oracle_failures.append({'clause': 'decoder output obeys the constraints in force (as reported by get_semantic_constraints) after a history of calls',
                                                'input': {'ops': ops + [['get'], op]}, 'impl': out, 'reported_table': reported, 'klass': classify(out)})
    # a REJECTED table must not come into force, not even partly: after set_semantic_constraints raised, every output obeys the table that was in force before
    default = dict(s_.get_preset_constraints('default'))
    sat = {'N': '[N]' + '[Branch1][C][F]' * 5 + '[F]', 'P': '[P]' + '[Branch1][C][F]' * 7 + '[F]', 'O': '[O]' + '[Branch1][C][F]' * 4 + '[F]', 'C': '[C]' + '[Branch1][C][F]' * 6 + '[F]',
           'S': '[S]' + '[Branch1][C][F]' * 7 + '[F]', 'B': '[B]' + '[Branch1][C][F]' * 5 + '[F]', 'F': '[F][=C][=C]', 'Cl': '[Cl][Branch1][C][C][C]', 'Si': '[Si]' + '[Branch1][C][F]' * 7 + '[F]'}
    for _ in range(40 if tier == 'quick' else 800):
        bad = dict(default)
        for el in rng.sample(sorted(sat), 3):
            bad[el] = rng.choice([6, 7, 8])
        why = rng.random()
        if why < 0.35:
            bad['?'] = rng.choice([-1, -3])
        elif why < 0.55:
            del bad['?']
        elif why < 0.8:
            bad[rng.choice(H.BAD_KEYS)] = 3
        else:
            bad[rng.choice(sorted(sat))] = rng.choice([-2, None])
        items_ = [[k, v] for k, v in bad.items()]
        rng.shuffle(items_)
        if '?' in bad and rng.random() < 0.5:      # the offending entry last: everything before it has been looked at already
            items_ = [kv for kv in items_ if kv[0] != '?'] + [['?', bad['?']]]
        warm = [['dec', sat[el], False, False] for el in rng.sample(sorted(sat), 2)] if rng.random() < 0.5 else []
        ops = warm + [['new', items_], ['set', ['held', 0]]]
        tail = [['dec', sat[el], False, False] for el in sorted(sat)]
        im = H.impl_run(ops + [['get']] + tail)
        rep.evaluations += len(tail)
        rep.impl_traces += 1
        if not isinstance(im, list) or 'err' not in (im[len(ops) - 1] or {}):
            rep.count('history: the table meant to be rejected was accepted (not judged)')
            continue
        for op, o in zip(tail, im[len(ops) + 1:]):
            t = (o or {}).get('trans') or {}
            if 'ok' in t:
                out = t['ok'][0]
                rep.count('history: decoded after a rejected table')
                if not d.one(['valid', core.T(default), S(out)]):
                    rep.oracle_failures.append({'clause': 'decoder output obeys the constraints in force - after a REJECTED set_semantic_constraints call these are still the ones in force before it',
                                                'input': {'ops': ops + [['get'], op]}, 'impl': out, 'table_in_force': default, 'klass': classify(out)})
    # RDKit (sampled support, default table + robust alphabet)
    if tier == 'thorough':
        try:
            from rdkit import Chem, RDLogger
            RDLogger.DisableLog('rdApp.*')
            s_.set_semantic_constraints()
            al = sorted(s_.get_semantic_robust_alphabet())
            bad = 0
            for _ in range(20000):
                x = gens.live_selfies(rng, alphabet=al, rich=0.0)
                smi = s_.decoder(x)
                if smi and Chem.MolFromSmiles(smi) is None:
                    bad += 1
                    rep.oracle_failures.append({'clause': 'RDKit sanitises outputs over the robust alphabet (default table)',
                                                'input': {'table': presets[0], 'selfies': x}, 'impl': smi, 'klass': classify(smi)})
            rep.extra['rdkit_sampled'] = 20000
        except ImportError:
            rep.notes.append('rdkit not importable: sanitizer clause not sampled')
    rep.rule = ('state-aware live sampler + malformed variants x %d tables (3 presets + random custom incl. capacity 0 and >8); all strings of length <= %d '
                'over a 15-symbol rule-covering set (default table) and length <= %d under a tight custom table; ring-count and nesting families; histories in fresh interpreters '
                '(custom table, decodes, the caller editing the dict it passed) whose later outputs are judged against the reported table. '
                'non-trivial = distinct (string, table) whose output has >= 3 atoms and a branch or ring' % (len(tabs), L, L - 1))
    rep.exhaustive = False


def json_key(t):
    import json
    return json.dumps(t, sort_keys=True)


def known(f):
    s_ = sf()
    s_.set_semantic_constraints()
    w = f['witness']['selfies_expr']
    x = eval(w, {'many_rings': dec_side.many_rings})
    r = call(s_.decoder, x)
    if 'ok' in r and dec_side.ring_label_ge_100(r['ok']) and not drv().one(['valid', core.T(s_.get_semantic_constraints()), S(r['ok'])]):
        return 'decoder(%s) contains a ring label >= %%100' % w
    return None


def replay(data):
    f = data['failure']
    i = f['input']
    if 'ops' in i:
        import hist_common as H
        im = H.impl_run(i['ops'])
        ok = True
        if isinstance(im, list):
            rep_t = f.get('table_in_force') or {k: v for k, v in (im[-2] or {}).get('dict', []) if k is not None}
            t = ((im[-1] or {}).get('trans') or {})
            ok = 'ok' not in t or bool(drv().one(['valid', core.T(rep_t), S(t['ok'][0])]))
        return {'ops': i['ops'], 'impl': im, 'fails': not ok}
    r = dec_side.work([(i['table'], i['selfies'], False, False)], {'valid': True})[0]
    return {'input': i, 'impl': r['impl'], 'model': r['model'], 'valid_smiles_under': r.get('valid'),
            'fails': ('ok' in r['impl'] and not r.get('valid'))}


def search(rep, tier, seed, b, dis):
    """proof or tie broken: mutate around the disagreeing inputs and sweep wider"""
    rng = core.rng_for(seed, ID + '/search')
    presets = dec_side.preset_tables()
    items = []
    for dd in dis[:50]:
        i = dd.get('input', {})
        if 'selfies' in i:
            toks = dec_side.tokens_of(i['selfies'])
            for _ in range(40):
                t2 = list(toks)
                for _ in range(rng.randint(1, 3)):
                    if t2 and rng.random() < 0.5:
                        del t2[rng.randrange(len(t2))]
                    else:
                        t2.insert(rng.randrange(len(t2) + 1), rng.choice(gens.ATOMS_MAIN + gens.BRANCH + gens.RING))
                items.append((i.get('table', presets[0]), ''.join(t2), False, False))
    items += dec_side.gen_cases(rng, 60000, gens.tables(rng, 12, presets), bad=0.0, malformed=0.0)
    res = core.pmap('dec_side', 'work', items, extra={'valid': True}, chunk=600)
    for it, r in zip(items, res):
        rep.evaluations += 1
        if 'ok' in r['impl'] and not r['valid']:
            rep.oracle_failures.append({'clause': 'decoder output is a well-formed, simple, valence-valid SMILES under the table in force',
                                        'input': {'table': it[0], 'selfies': it[1]}, 'impl': r['impl'], 'klass': classify(r['impl']['ok'])})
