"""C13 — [nop] padding is invisible to the decoder."""
import core
import gens
import dec_side
import dec_common
from core import S, U, sf, call, drv

ID = 'C13'
TRUSTED = []


def decorate(rng, x):
    """insert / delete [nop] at token boundaries: in index positions, inside branches, around dots, at the ends"""
    toks = [t for t in dec_side.tokens_of(x)]
    base = [t for t in toks if t != '[nop]']
    out = []
    mode = rng.random()
    p = 0.15 if mode < 0.6 else (0.5 if mode < 0.9 else 0.95)
    for i, t in enumerate(base):
        # right after a branch / ring symbol (index position) with extra weight
        boost = i > 0 and ('Branch' in base[i - 1] or 'Ring' in base[i - 1])
        k = 0
        while rng.random() < (0.6 if boost else p) and k < 3:
            out.append('[nop]')
            k += 1
        out.append(t)
    while rng.random() < 0.4:
        out.append('[nop]')
    return ''.join(base), ''.join(out)


def work(chunk, extra):
    s_ = sf()
    d = drv()
    res = []
    for (t, x, c, a) in chunk:
        dec_common.set_table(s_, t)
        base, deco = x
        r0 = dec_common.impl_decode(s_, base, c, a)
        r1 = dec_common.impl_decode(s_, deco, c, a)
        m0 = dec_common.model_decode_canon(d.one(dec_common.model_decode_req(core.T(t), base, c, a)), a)
        m1 = dec_common.model_decode_canon(d.one(dec_common.model_decode_req(core.T(t), deco, c, a)), a)
        res.append((r0, r1, m0, m1))
    return res


def run(rep, tier, seed, b):
    rng = core.rng_for(seed, ID)
    s_ = sf()
    presets = dec_side.preset_tables()
    tabs = gens.tables(rng, 6 if tier == 'quick' else 20, presets)
    n = 20000 if tier == 'quick' else 400000
    items = []
    for (t, x, c, a) in dec_side.gen_cases(rng, n, tabs, bad=0.02, legacy=0.02, malformed=0.0, flags=True):
        if not dec_side.wf_string(x):
            continue
        items.append((t, decorate(rng, x), c, a))
    res = core.pmap('p_c13', 'work', items, chunk=500)
    for it, (r0, r1, m0, m1) in zip(items, res):
        rep.evaluations += 1
        rep.impl_traces += 2
        base, deco = it[1]
        if r0 != m0:
            rep.disagreements.append({'op': 'decoder', 'input': {'table': it[0], 'selfies': base, 'compatible': it[2], 'attribute': it[3]}, 'impl': r0, 'model': m0})
        if r1 != m1:
            rep.disagreements.append({'op': 'decoder', 'input': {'table': it[0], 'selfies': deco, 'compatible': it[2], 'attribute': it[3]}, 'impl': r1, 'model': m1})
        if r0 != r1:
            rep.oracle_failures.append({'clause': 'decoder(x with [nop] inserted) = decoder(x), result, error and attribution alike',
                                        'input': {'table': it[0], 'selfies': base, 'decorated': deco, 'compatible': it[2], 'attribute': it[3]},
                                        'impl': [r0, r1]})
        rep.count('ok' if 'ok' in r0 else 'rejected')
        smi = r0.get('ok')
        smi = smi[0] if isinstance(smi, list) else smi
        if deco != base and dec_side.nontrivial_output(smi):
            rep.nontriv(deco)
    # the padding corollary: selfies_to_encoding + encoding_to_selfies, both encodings and the flat-hot batch API,
    # on the plain string and on the string with [nop] already inside it
    for it in items[:2000 if tier == 'quick' else 20000]:
        base, deco = it[1]
        dec_common.set_table(s_, it[0])
        want = call(s_.decoder, base)
        for src in (base, deco):
            toks = dec_side.tokens_of(src)
            vocab = list(dict.fromkeys(toks + ['[nop]', '.']))
            rng.shuffle(vocab)
            stoi = {s: i for i, s in enumerate(vocab)}
            itos = {i: s for s, i in stoi.items()}
            pad = len(toks) + rng.randint(0, 6)
            for enc in ('label', 'one_hot', 'flat_hot'):
                if enc == 'flat_hot':
                    e = call(s_.batch_selfies_to_flat_hot, [src], stoi, pad)
                    back = call(s_.batch_flat_hot_to_selfies, e['ok'], itos) if 'ok' in e else e
                    back = {'ok': back['ok'][0]} if 'ok' in back else back
                else:
                    e = call(s_.selfies_to_encoding, src, stoi, pad, enc)
                    back = call(s_.encoding_to_selfies, e['ok'], itos, enc) if 'ok' in e else e
                rep.evaluations += 1
                rep.count('padding corollary (%s)' % enc)
                if 'ok' not in back:
                    continue
                got = call(s_.decoder, back['ok'])
                if got != want:
                    rep.oracle_failures.append({'clause': 'a string padded by selfies_to_encoding and recovered with encoding_to_selfies decodes like the original (%s)' % enc,
                                                'input': {'table': it[0], 'selfies': base, 'decorated': back['ok'], 'compatible': False, 'attribute': False,
                                                          'encoded_from': src, 'enc_type': enc, 'pad_to_len': pad},
                                                'impl': [want, got]})
    for it in items[:5]:
        rep.sample({'original': it[1][0], 'decorated': it[1][1], 'compatible': it[2], 'attribute': it[3]})
    rep.rule = ('live strings (incl. legacy/invalid symbols, multi-fragment) x tables x flags; [nop] inserted at token boundaries with extra weight on '
                'index positions after branch/ring symbols, densities 15/50/95%, trailing nops; plus the selfies_to_encoding padding corollary. '
                'non-trivial = distinct decorated string whose output has >= 3 atoms and a branch or ring')


def replay(data):
    i = data['failure']['input']
    if 'enc_type' in i:
        s_ = sf()
        dec_common.set_table(s_, i['table'])
        src = i['encoded_from']
        toks = dec_side.tokens_of(src)
        vocab = list(dict.fromkeys(toks + ['[nop]', '.']))
        stoi = {s: k for k, s in enumerate(vocab)}
        itos = {k: s for s, k in stoi.items()}
        if i['enc_type'] == 'flat_hot':
            back = s_.batch_flat_hot_to_selfies(s_.batch_selfies_to_flat_hot([src], stoi, i['pad_to_len']), itos)[0]
        else:
            back = s_.encoding_to_selfies(s_.selfies_to_encoding(src, stoi, i['pad_to_len'], i['enc_type']), itos, i['enc_type'])
        a, b = call(s_.decoder, i['selfies']), call(s_.decoder, back)
        return {'input': i, 'recovered': back, 'impl_original': a, 'impl_recovered': b, 'fails': a != b}
    r = work([(i['table'], (i['selfies'], i['decorated']), i.get('compatible', False), i.get('attribute', False))], None)[0]
    return {'input': i, 'impl_original': r[0], 'impl_decorated': r[1], 'fails': r[0] != r[1]}


def known(f):
    return None
