"""C18 — compatible=True is a conservative extension for pre-v2 symbols."""
import re
import core
import gens
import dec_side
import dec_common
from core import S, U, sf, call, drv

ID = 'C18'
TRUSTED = ['spec/CompatSpec.v: documented table of pre-v2 branch/ring symbols and their modern equivalents, written by hand; '
           'the harness modernises [..expl] atom symbols independently (bracket atom re-spelt by the documented standard form)']

TABLE = {}
for L in '123':
    for m, b in (('1', ''), ('2', '='), ('3', '#')):
        TABLE['[Branch%s_%s]' % (L, m)] = '[%sBranch%s]' % (b, L)
    TABLE['[Expl=Ring%s]' % L] = '[=Ring%s]' % L
    TABLE['[Expl#Ring%s]' % L] = '[#Ring%s]' % L
    TABLE['[Expl/Ring%s]' % L] = '[//Ring%s]' % L
    TABLE['[Expl\\Ring%s]' % L] = '[\\\\Ring%s]' % L

ELEMENTS = None
ORGANIC = {"B", "C", "N", "O", "S", "P", "F", "Cl", "Br", "I"}
AROM = {'b', 'c', 'n', 'o', 'p', 's', 'se', 'as', 'te', 'si', 'al'}
ATOM = re.compile(r'^(\d*)([A-Za-z][a-z]?)(@{0,2})((?:H\d?)?)((?:\++|-+|[+-]\d+)?)((?::\d+)?)$')


def modern(sym):
    """independent rendering of the documented mapping (harness side of the oracle)"""
    global ELEMENTS
    if ELEMENTS is None:
        ELEMENTS = set(U(x) for x in drv().one(['elements']))
    if sym in TABLE:
        return TABLE[sym]
    if not sym.endswith('expl]'):
        return sym
    body = sym[1:-5]
    bond = ''
    if sym[1] in '=#/\\':
        bond, body = sym[1], sym[2:-5]
    m = ATOM.match(body)
    if m is None:
        return sym
    iso, el, chi, h, chg, _ = m.groups()
    if el.islower() and el in AROM:
        return sym if el.capitalize() in ELEMENTS else sym
    el = el.capitalize()
    if el not in ELEMENTS:
        return sym
    hc = 0 if h == '' else (1 if h == 'H' else int(h[1:]))
    if chg == '':
        c = 0
    elif chg[-1].isdigit():
        c = int(chg[1:]) * (1 if chg[0] == '+' else -1)
    else:
        c = len(chg) * (1 if chg[0] == '+' else -1)
    out = (str(int(iso)) if iso else '') + el + chi
    if hc != 0:
        out += 'H%d' % hc
    elif iso == '' and chi == '' and c == 0 and el in ORGANIC:
        out += 'H0'
    if c != 0:
        out += '%+d' % c
    return '[' + bond + out + ']'


def has_legacy(x):
    return any(t in TABLE or t.endswith('expl]') for t in dec_side.tokens_of(x))


def work(chunk, extra):
    s_ = sf()
    d = drv()
    res = []
    for (t, x, a) in chunk:
        dec_common.set_table(s_, t)
        tb = core.T(t)
        r_plain0 = dec_common.impl_decode(s_, x, False, a) if extra and extra.get('plain_first') and (sum(map(ord, x)) % 2 == 0) else None
        r_flag = dec_common.impl_decode(s_, x, True, a)
        r_plain = dec_common.impl_decode(s_, x, False, a)
        m_flag = dec_common.model_decode_canon(d.one(dec_common.model_decode_req(tb, x, True, a)), a)
        m_plain = dec_common.model_decode_canon(d.one(dec_common.model_decode_req(tb, x, False, a)), a)
        toks = dec_side.tokens_of(x)
        xm = ''.join(modern(tk) for tk in toks)
        r_mod = dec_common.impl_decode(s_, xm, False, a)
        res.append((r_flag, r_plain, m_flag, m_plain, xm, r_mod, r_plain0))
    return res


def run(rep, tier, seed, b):
    rng = core.rng_for(seed, ID)
    presets = dec_side.preset_tables()
    tabs = gens.tables(rng, 5 if tier == 'quick' else 15, presets)
    n = 16000 if tier == 'quick' else 300000
    items = []
    for (t, x, c, a) in dec_side.gen_cases(rng, n, tabs, bad=0.01, legacy=0.0, malformed=0.0, flags=True):
        if not dec_side.wf_string(x):
            continue
        k = rng.random()
        if k < 0.35:
            pass                                   # no legacy symbol
        else:
            toks = dec_side.tokens_of(x)
            for _ in range(rng.randint(1, 4)):
                if not toks:
                    break
                i = rng.randrange(len(toks))
                tk = toks[i]
                inv = {v: kk for kk, v in TABLE.items()}
                if tk in inv and rng.random() < 0.8:
                    toks[i] = inv[tk]              # the legacy spelling of this very symbol
                elif tk.startswith('[') and 'Ring' not in tk and 'Branch' not in tk and tk not in ('[nop]', '[epsilon]') and rng.random() < 0.7:
                    body = tk[1:-1]
                    body = re.sub(r'H1$', 'H', body) if rng.random() < 0.5 else body
                    body = re.sub(r'\+1$', '+', body) if rng.random() < 0.5 else body
                    body = re.sub(r'-1$', '-', body) if rng.random() < 0.5 else body
                    body = re.sub(r'\+2$', '++', body)
                    toks[i] = '[' + body + 'expl]'
                else:
                    toks[i] = rng.choice(gens.LEGACY)
            x = ''.join(toks)
        items.append((t, x, a))
    res = core.pmap('p_c18', 'work', items, extra={'plain_first': True}, chunk=500)
    for it, (r_flag, r_plain, m_flag, m_plain, xm, r_mod, r_plain0) in zip(items, res):
        rep.evaluations += 1
        rep.impl_traces += 3
        t, x, a = it
        inp = {'table': t, 'selfies': x, 'attribute': a}
        if r_flag != m_flag:
            rep.disagreements.append({'op': 'decoder(compatible=True)', 'input': inp, 'impl': r_flag, 'model': m_flag})
        if r_plain != m_plain:
            rep.disagreements.append({'op': 'decoder', 'input': inp, 'impl': r_plain, 'model': m_plain})
        leg = has_legacy(x)
        rep.count('with-legacy' if leg else 'modern-only')
        if r_plain0 is not None:
            rep.count('plain call made before and after the flagged call')
            if r_plain0 != r_plain:
                rep.oracle_failures.append({'clause': 'the flag of one call leaks into no other: decoder(x) is the same before and after decoder(x, compatible=True) in one process',
                                            'input': inp, 'impl': [r_plain0, r_flag, r_plain], 'sequence': True})
        if not leg and r_flag != r_plain:
            rep.oracle_failures.append({'clause': 'without legacy symbols compatible=True returns exactly what decoder returns', 'input': inp, 'impl': [r_flag, r_plain]})
        # attribution tokens name the (modernised) symbols, so compare strings and error class
        def proj(r):
            if 'ok' in r:
                return {'ok': r['ok'][0] if a else r['ok']}
            return r
        if proj(r_flag) != proj(r_mod):
            rep.oracle_failures.append({'clause': 'compatible=True = decoder on the string with each legacy symbol replaced by its documented modern equivalent',
                                        'input': inp, 'modernised': xm, 'impl': [r_flag, r_mod]})
        if leg and 'ok' in r_plain:
            # every legacy symbol must have been unreached (after termination / inside skipped budget): removing them keeps the result
            pass
        smi = proj(r_flag).get('ok')
        if leg and dec_side.nontrivial_output(smi):
            rep.nontriv(x)
    # every legacy table symbol, reached without the flag, is rejected
    s_ = sf()
    s_.set_semantic_constraints()
    for k in TABLE:
        for ctx in ('[C]%s[C][C]', '[C][C]%s[C]', '[C][=C][Branch1][C]%s[C]'):
            r = call(s_.decoder, ctx % k)
            rep.evaluations += 1
            if r != {'err': 'DecoderError'}:
                rep.oracle_failures.append({'clause': 'without the flag a reached legacy symbol raises DecoderError',
                                            'input': {'table': s_.get_semantic_constraints(), 'selfies': ctx % k, 'attribute': False}, 'impl': r})
    for it in [i for i in items if has_legacy(i[1])][:5]:
        rep.sample({'selfies': it[1], 'modernised_by_spec': ''.join(modern(tk) for tk in dec_side.tokens_of(it[1]))})
    rep.rule = ('live strings x tables x attribute flag; 65% get 1-4 legacy spellings (the legacy form of a symbol already present, [..expl] re-spellings of its atoms '
                'with H/+/-/++ variants, random legacy symbols incl. aromatic and malformed expl atoms); every table symbol in three reached contexts without the flag. '
                'non-trivial = distinct string with a legacy symbol whose output has >= 3 atoms and a branch or ring')


def replay(data):
    i = data['failure']['input']
    # the plain call first (checksum made even by the work function's own rule or not: call it explicitly here)
    s_ = sf()
    dec_common.set_table(s_, i['table'])
    first = dec_common.impl_decode(s_, i['selfies'], False, i.get('attribute', False))
    r = work([(i['table'], i['selfies'], i.get('attribute', False))], None)[0]
    def proj(x):
        return {'ok': x['ok'][0] if isinstance(x.get('ok'), list) else x.get('ok')} if 'ok' in x else x
    return {'input': i, 'plain_first': first, 'with_flag': r[0], 'plain': r[1], 'modernised': r[4], 'decoder_on_modernised': r[5],
            'fails': proj(r[0]) != proj(r[5]) or (not has_legacy(i['selfies']) and r[0] != r[1]) or first != r[1]}


def known(f):
    return None
