"""C11 — translation is a pure function of the input and the current constraint table."""
import json
import core
import gens
import hist_common as H
from core import S, U, sf, call, drv
from p_c14 import load_smiles

ID = 'C11'
TRUSTED = ['each history is replayed in a fresh interpreter; the reference is another fresh interpreter that is only set to the same current table and asked the same translation; '
           'histories are repeated under different PYTHONHASHSEED values']


def final_ops(rng, smiles):
    out = []
    for _ in range(rng.randint(2, 4)):
        if rng.random() < 0.6:
            out.append(['dec', gens.live_selfies(rng, maxlen=30, bad=0.01), rng.random() < 0.15, rng.random() < 0.4])
        else:
            out.append(['enc', rng.choice(smiles), rng.random() < 0.5, rng.random() < 0.4])
    # the same question twice: repeated calls agree
    out.append(out[-1])
    return out


def work(chunk, extra):
    res = []
    for (ops, fin, seeds) in chunk:
        runs = [H.impl_run(ops + fin, hashseed=s) for s in seeds]
        mo = H.model_run(ops + fin)
        # reference: a fresh interpreter, set to the table the history ended in (as reported by the library itself)
        probe = H.impl_run(ops + [['get']])
        ref = None
        if isinstance(probe, list) and probe[-1] and 'dict' in probe[-1]:
            ref = H.impl_run([['new', probe[-1]['dict']], ['set', ['held', 0]]] + fin, hashseed=seeds[-1])
        res.append((runs, mo, ref))
    return res


def run(rep, tier, seed, b):
    rng = core.rng_for(seed, ID)
    smiles = [s for s in load_smiles() if len(s) < 60]
    rng.shuffle(smiles)
    smiles = smiles[:400]
    n = 500 if tier == 'quick' else 12000
    items = []
    for _ in range(n):
        ops = H.random_history(rng, smiles=smiles)
        fin = final_ops(rng, smiles)
        items.append((ops, fin, ['0', str(rng.randint(1, 9999))] if tier == 'quick' else ['0', '1', str(rng.randint(2, 9999))]))
    hyper = [x for x in smiles if any(g in x for g in ('S(=O)', '(=O)=O', 'P(=O)', 'N(=O)', 'Cl(=O)'))][:60 if tier == 'quick' else 400]
    for x in hyper:
        ops = [['set', ['name', 'hypervalent']], ['enc', x, True, False], ['dec', '[C][S][=Branch1][C][=O][=Branch1][C][=O][C]', False, False],
               ['set', ['name', rng.choice(['octet_rule', 'default'])]]]
        items.append((ops, [['dec', '[C][S][=Branch1][C][=O][=Branch1][C][=O][C]', False, False], ['enc', x, True, False], ['enc', x, True, False]], ['0', '7']))
    # an atom symbol rejected for its H count under one table, then the table changes (either direction), then the same symbol again
    for _ in range(60 if tier == 'quick' else 1500):
        c = H.h_boundary(rng)
        first, second = (c['small'], c['big']) if rng.random() < 0.7 else (c['big'], c['small'])
        o1, held = H.set_ops(first, 0)
        o2, held = H.set_ops(second, held)
        ops = o1 + [['dec', c['selfies'], False, False]] + ([['enc', c['smiles'], True, False]] if rng.random() < 0.5 else []) + o2
        fin = [['dec', c['selfies'], False, rng.random() < 0.3], ['enc', c['smiles'], True, False], ['dec', c['selfies'], False, False], ['dec', c['selfies'], False, False]]
        items.append((ops, fin, ['0', '7']))
    # legacy spellings of one atom with different bond prefixes, earlier in the process and again now (a memo in the
    # compatibility layer must be keyed by everything the answer depends on)
    legacy = ['N+expl', 'C@@Hexpl', 'C@Hexpl', 'Cexpl', 'O-expl', 'S+expl', 'Fe++expl', 'NHexpl', '13Cexpl', 'Seexpl', 'Clexpl', 'Siexpl', 'CH2expl', 'P+expl', 'B-expl', 'NH3+expl']
    for _ in range(60 if tier == 'quick' else 1500):
        a = rng.choice(legacy)
        p1, p2 = rng.sample(['', '=', '#', '/', '\\'], 2)
        x1 = '[C][%s%s][C]' % (p1, a)
        x2 = rng.choice(['[C][%s%s][C]', '[C][C][%s%s]', '[O][%s%s][Branch1_1][C][F][C]', '[%s%s][C]']) % (p2, a)
        both = '[C][%s%s][C][%s%s][C]' % (p1, a, p2, a)
        ops = [['dec', x1, True, False]] + ([['dec', both, True, False]] if rng.random() < 0.3 else [])
        fin = [['dec', x2, True, rng.random() < 0.3], ['dec', both, True, False], ['dec', x1, True, False], ['dec', x2, True, False], ['dec', x2, True, False]]
        items.append((ops, fin, ['0', '7']))
    # earlier decodes that read odd things in index positions (non-index symbols, strings ending inside an index), then
    # strings whose two- and three-symbol indices matter (a lookup table must not learn from what it is asked)
    sloppy = ['[C][Branch1][F][C][C]', '[C][C][C][Ring1]', '[C][Branch2][Cl][Br][C]', '[C][C][Ring2][I]', '[C][=Branch1][N+1][O]', '[C][Branch3][Fe][C]', '[C][C][Ring1][nop]']
    longs = ['[C][Branch2][Ring1][C]' + '[C]' * 17 + '[F]', '[C]' * 20 + '[Ring2][Ring1][C]', '[C][Branch2][Ring1][Ring2]' + '[C]' * 19 + '[O]',
             '[C]' * 30 + '[Ring2][Ring1][=Branch1][N]', '[C][Branch3][C][Ring1][C]' + '[C]' * 17 + '[Cl]']
    for _ in range(40 if tier == 'quick' else 800):
        ops = [['dec', rng.choice(sloppy), rng.random() < 0.2, False] for _ in range(rng.randint(1, 3))]
        fin = [['dec', x, False, rng.random() < 0.2] for x in rng.sample(longs, 3)]
        fin.append(fin[-1])
        items.append((ops, fin, ['0', '7']))
    res = core.pmap('p_c11', 'work', items, chunk=25)
    for (ops, fin, seeds), (runs, mo, ref) in zip(items, res):
        rep.evaluations += 1
        rep.impl_traces += len(runs) + 2
        k = len(fin)
        full = ops + fin
        if any(not isinstance(r, list) for r in runs):
            rep.disagreements.append({'op': 'history', 'input': {'ops': full}, 'impl': runs})
            continue
        im = runs[0]
        if im != mo:
            j = next(i for i, (a, c) in enumerate(zip(im, mo)) if a != c)
            rep.disagreements.append({'op': 'history', 'input': {'ops': full[:j + 1]}, 'at': j, 'impl': im[j], 'model': mo[j]})
        for r, s in zip(runs[1:], seeds[1:]):
            if r[-k:] != im[-k:]:
                rep.oracle_failures.append({'clause': 'results are identical across processes and hash seeds', 'input': {'ops': full, 'hashseed': s},
                                            'impl': [im[-k:], r[-k:]]})
        if im[-1] != im[-2]:
            rep.oracle_failures.append({'clause': 'repeated calls return the same result', 'input': {'ops': full}, 'impl': im[-2:]})
        if ref is not None and isinstance(ref, list):
            for j in range(k):
                op = fin[j]
                a, c = im[len(ops) + j], ref[2 + j]
                if op[0] == 'enc' and op[2]:
                    # strict encoding may depend on the table: same table -> same answer
                    pass
                if a != c:
                    rep.oracle_failures.append({'clause': 'after the history, %s returns what a fresh interpreter set to the same current table returns'
                                                          % ('decoder(x)' if op[0] == 'dec' else 'encoder(s, strict=%s)' % op[2]),
                                                'input': {'ops': ops + [op]}, 'impl': a, 'expected': c})
        # encoder(strict=False) regardless of the table: compare with a pristine interpreter
        for j in range(k):
            if fin[j][0] == 'enc' and not fin[j][2]:
                pristine = H.impl_run([fin[j]])
                rep.impl_traces += 1
                if isinstance(pristine, list) and pristine[0] != im[len(ops) + j]:
                    rep.oracle_failures.append({'clause': 'encoder(s, strict=False) returns what a fresh interpreter returns regardless of the table',
                                                'input': {'ops': ops + [fin[j]]}, 'impl': im[len(ops) + j], 'expected': pristine[0]})
        if sum(1 for o in ops if o[0] in ('set', 'mut', 'dec', 'enc')) >= 4:
            rep.nontriv(json.dumps(full))
        for o in im:
            if isinstance(o, dict) and 'err' in o:
                rep.count('rejected:' + o['err'])
    for (ops, fin, seeds) in items[:3]:
        rep.sample({'history': ops, 'final': fin})
    rep.rule = ('random histories of 3-14 calls (preset / custom / invalid tables, getters, caller mutations of returned and passed objects, earlier encodes and decodes '
                'that fill the caches) ending in 2-4 translation calls (the last one repeated); each replayed in fresh interpreters under %d hash seeds, compared with the model, '
                'with a fresh interpreter set only to the final table, and (strict=False encodes) with a pristine interpreter; plus targeted histories: hypervalent molecules across presets, '
                'atom symbols whose explicit H count is refused under one table and fits the next (both directions), legacy [..expl] spellings of one atom decoded with different bond prefixes earlier and now, and decodes that read non-index symbols in index positions followed by strings with two- and three-symbol indices. '
                'non-trivial = distinct history with >= 4 state-relevant operations' % (2 if tier == 'quick' else 3))


def known(f):
    return None


def replay(data):
    f = data['failure']
    ops = f['input']['ops']
    im = H.impl_run(ops, hashseed=f['input'].get('hashseed', '0'))
    mo = H.model_run(ops)
    return {'ops': ops, 'impl': im, 'model': mo, 'expected': f.get('expected'),
            'fails': (isinstance(im, list) and 'expected' in f and im[-1] != f['expected']) or im != mo}
