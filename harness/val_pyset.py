"""val_pyset.py — validate coq/model/PySet.v (extracted) against the running
CPython's set on random add / pop / discard scripts over small ints.

Compared after every operation: the popped key (or KeyError), the iteration
order of the set (= hash table order), and at the end the table size as
revealed by sys.getsizeof.

usage: /venv/bin/python harness/val_pyset.py [n_scripts] [seed]
"""
import os
import random
import sys

sys.path.insert(0, os.path.dirname(os.path.abspath(__file__)))
import core  # noqa: E402

BASE = sys.getsizeof(set())          # set object with its embedded 8-slot table


def table_size(s):
    extra = sys.getsizeof(s) - BASE
    return 8 if extra == 0 else extra // 16      # sizeof(setentry) = 16


def run_py(ops):
    s = set()
    evs = []
    for code, k in ops:
        popped, kerr = None, False
        if code == 0:
            s.add(k)
        elif code == 1:
            try:
                popped = s.pop()
            except KeyError:
                kerr = True
        else:
            s.discard(k)
        evs.append([popped, kerr, list(s)])
    return evs, table_size(s) - 1, len(s)


def gen_script(rng):
    kind = rng.random()
    hi = rng.choice([8, 16, 40, 100, 200, 200, 200])
    ops = []
    if kind < 0.35:
        # the shape used by find_perfect_matching: increasing adds, then pops / discards
        ks = sorted(rng.sample(range(hi + 1), rng.randint(0, min(hi, 120))))
        ops = [[0, k] for k in ks]
        for _ in range(rng.randint(0, len(ks) + 3)):
            ops.append([1, 0] if rng.random() < 0.6 else [2, rng.randint(0, hi)])
    elif kind < 0.5:
        ks = [rng.randint(0, hi) for _ in range(rng.randint(0, 150))]
        ops = [[0, k] for k in ks]
        for _ in range(rng.randint(0, len(ks) + 3)):
            ops.append([1, 0] if rng.random() < 0.5 else [2, rng.randint(0, hi)])
    else:
        n = rng.randint(1, 250)
        pa = rng.choice([0.4, 0.5, 0.7, 0.9])
        for _ in range(n):
            r = rng.random()
            if r < pa:
                ops.append([0, rng.randint(0, hi)])
            elif r < pa + (1 - pa) / 2:
                ops.append([1, 0])
            else:
                ops.append([2, rng.randint(0, hi)])
    return ops


def main(n=6000, seed=1):
    rng = random.Random(seed)
    d = core.Driver()
    scripts = [gen_script(rng) for _ in range(n)]
    # a few large-key scripts (perturbation beyond one shift) and large sets (several resizes)
    for _ in range(200):
        hi = rng.choice([1 << 10, 1 << 12, 5000])
        scripts.append([[rng.choice([0, 0, 0, 1, 2]), rng.randint(0, hi)] for _ in range(rng.randint(1, 120))])
    res = []
    for i in range(0, len(scripts), 4):      # small batches: replies are large (pipe buffers)
        res += d.batch([['pyset', ops] for ops in scripts[i:i + 4]])
    bad = 0
    n_ops = 0
    max_mask = 0
    n_pop = n_disc_hit = 0
    for ops, r in zip(scripts, res):
        evs, mask, used = run_py(ops)
        n_ops += len(ops)
        max_mask = max(max_mask, mask)
        n_pop += sum(1 for e in evs if e[0] is not None)
        if 'ok' not in r:
            bad += 1
            print('MODEL ERROR', r, ops[:20])
            continue
        mevs, mmask, mfill, mused, mfinger = r['ok']
        if mevs != evs or mmask != mask or mused != used:
            bad += 1
            if bad <= 5:
                for i, (a, b) in enumerate(zip(evs, mevs)):
                    if a != b:
                        print('DISAGREE at op', i, ops[i], 'py', a, 'model', b)
                        break
                else:
                    print('DISAGREE mask/used', mask, mmask, used, mused)
                print('  script', ops)
    print('pyset: scripts=%d ops=%d pops_returning_key=%d max_table=%d disagreements=%d'
          % (len(scripts), n_ops, n_pop, max_mask + 1, bad))
    d.close()
    return bad


if __name__ == '__main__':
    a = sys.argv[1:]
    sys.exit(1 if main(int(a[0]) if a else 6000, int(a[1]) if len(a) > 1 else 1) else 0)
