#!/venv/bin/python
"""check.py — ./check <Cxx> [--tier quick|thorough] [--replay file]

Implements the protocol of DESIGN.md section 3 for one property:
regenerate -> build -> proof status -> correspondence -> oracle sweep ->
known findings -> verdict -> evidence.
"""
import argparse
import importlib
import json
import os
import sys
import time
import traceback

sys.path.insert(0, os.path.dirname(os.path.abspath(__file__)))
import core  # noqa: E402


LEVELS = {'C03': 'translation_validation', 'C04': 'translation_validation'}


def main():
    ap = argparse.ArgumentParser()
    ap.add_argument('prop')
    ap.add_argument('--tier', default=os.environ.get('VERIF_TIER', 'quick'))
    ap.add_argument('--replay')
    a = ap.parse_args()
    prop = a.prop.upper()
    tier = a.tier if a.tier in ('quick', 'thorough') else 'quick'
    try:
        seed = int(os.environ.get('VERIF_SEED', '0'))
    except ValueError:
        seed = 0
    os.environ['PYTHONHASHSEED'] = os.environ.get('PYTHONHASHSEED', '0')
    mod = importlib.import_module('p_' + prop.lower())

    if a.replay:
        b = core.build(prop, want_props=False)
        data = json.load(open(a.replay))
        out = mod.replay(data)
        print(json.dumps(out, indent=1, default=str))
        return 1 if out.get('fails') else 0

    t0 = time.time()
    b = core.build(prop, tier=tier)
    rep = core.Report(prop, tier, seed)
    print('[%s] build %.1fs model_ok=%s driver_ok=%s proof_ok=%s axioms_ok=%s obligations=%d'
          % (prop, b.wall, b.model_ok, b.driver_ok, b.proof_ok, b.axioms_ok, b.obligations), flush=True)

    broken = []          # reasons the theorem no longer transfers
    if not b.model_ok:
        broken.append('model no longer builds against the regenerated tables (coq/gen/Generated.v): see log')
    if not b.proof_ok:
        broken.append('proof obligation fails: %s' % (b.failed_file or 'props/%s.vo' % prop))
    elif not b.axioms_ok:
        broken.append('Print Assumptions not closed: %s' % '; '.join(b.assumptions))
    if b.forbidden:
        broken.append('forbidden declarations in the development: %s' % ', '.join(b.forbidden[:5]))
    for k, v in b.gen_status.get('functions', {}).items():
        if not str(v).startswith('translated'):
            rep.notes.append('translator: %s %s' % (k, v))
    if 'error' in b.gen_status:
        broken.append('translator failed on the current source: %s' % b.gen_status['error'][-400:])

    can_run = b.driver_ok or b.driver_stale
    if b.driver_stale and not b.driver_ok:
        rep.notes.append('driver is STALE (model did not build); oracles run with the last good driver')
    if can_run:
        try:
            mod.run(rep, tier, seed, b)
        except Exception:
            tb = traceback.format_exc()
            print(tb)
            broken.append('harness error while running the correspondence: ' + tb[-800:])
    else:
        broken.append('no driver available: correspondence and oracles not run')

    # ---- known findings
    known = core.load_known(prop)
    known_klass = {}
    for f in known:
        known_klass[f['klass']] = f
    for f in known:
        try:
            still = mod.known(f)
        except Exception:
            still = None
        if still:
            rep.known_hits[f['id']] = str(still)[:300]
            print('KNOWN-FINDING: property=%s %s [%s]' % (prop, f['what'], f['id']))

    new_fail = [x for x in rep.oracle_failures if x.get('klass') not in known_klass]
    for x in rep.oracle_failures:
        if x.get('klass') in known_klass:
            rep.count('oracle failures inside known finding ' + x['klass'])
    new_dis = [x for x in rep.disagreements if x.get('klass') not in known_klass]
    if new_dis:
        broken.append('correspondence model<->implementation disagrees on %d case(s), first: %s'
                      % (len(new_dis), json.dumps(new_dis[0], default=str)[:600]))

    violations = 0
    rc = 0
    if not new_fail and broken and can_run and hasattr(mod, 'search'):
        # the theorem or the tie is broken: look harder for a concrete failing input
        print('[%s] proof/tie broken (%s); searching for a failing input' % (prop, broken[0][:200]), flush=True)
        try:
            mod.search(rep, tier, seed, b, new_dis)
        except Exception:
            print(traceback.format_exc())
        new_fail = [x for x in rep.oracle_failures if x.get('klass') not in known_klass]

    if new_fail:
        violations = len(new_fail)
        first = min(new_fail, key=lambda x: len(json.dumps(x.get('input'), default=str)))
        path = core.next_replay_path(prop)
        json.dump({'property': prop, 'kind': 'failing-input', 'failure': first,
                   'other_failures': new_fail[:20], 'broken': broken,
                   'rerun': './check %s --replay %s' % (prop, path)},
                  open(path, 'w'), indent=1, default=str)
        print('VIOLATION property=%s replay=%s' % (prop, path))
        rc = 1
    elif broken:
        violations = 1
        path = core.next_replay_path(prop)
        json.dump({'property': prop, 'kind': 'no-failing-input-found',
                   'no_longer_checks': broken, 'proof_log': b.proof_log[-6000:],
                   'disagreements': new_dis[:20],
                   'explored': {'evaluations': rep.evaluations, 'dist': rep.dist}},
                  open(path, 'w'), indent=1, default=str)
        print('VIOLATION property=%s replay=%s no-failing-input-found' % (prop, path))
        rc = 1

    ev = core.write_evidence(prop, tier, seed, b, rep, violations,
                             trusted_extra=getattr(mod, 'TRUSTED', None), level=LEVELS.get(prop, 'proof'))
    print('[%s] %s tier=%s evaluations=%d nontrivial=%d impl_traces=%d disagreements=%d oracle_failures=%d (new %d) wall=%.1fs evidence=%s'
          % (prop, 'FAIL' if rc else 'ok', tier, rep.evaluations, len(rep.nontrivial), rep.impl_traces,
             len(rep.disagreements), len(rep.oracle_failures), len(new_fail), time.time() - t0, ev))
    return rc


if __name__ == '__main__':
    sys.exit(main())
