"""C03 — SMILES -> SELFIES -> SMILES round trip preserves the molecule atom for atom."""
import core
import enc_side as E
from core import S, U, sf, call, drv

ID = 'C03'
PROP_KEY = 'same_molecule'
CLAUSE = 'decoder(encoder(s)) read by the independent reader = s read by the independent reader, atom for atom (element, isotope, charge, H; bonded pairs; orders, aromatic -> single/double)'
TRUSTED = ['spec/Reader.v (independent reader) and spec/RoundTrip.v (same_molecule); the re-speller harness/gen_smiles.py only proposes inputs',
           'inputs the independent reader cannot read (e.g. %0n labels, exotic syntax) are not judged']
GEN = dict(mutate=0.3)
EXPLICIT_AROMATIC = ['c:1:c:c:c:c:c:1', 'c:1:c:c:c:c:c1', 'c1:c:c:c:c:c:1', 'n:1:c:c:c:c:c:1', 'Cc:1:c:c:c:c:c:1', 'c:1:c:c:c:2:c:c:c:c:c:2:c:1', 'c1:c:c:c:c:c1', 'o:1:c:c:c:c:1',
                     'c:1:c:c:[nH]:c:1', 'c1cc:ccc1', 'c:1ccccc1', 'C:1C=CC=CC:1', 'c1c[15n]cc[15n]1', 'c1c[n]cc[n]1', 'c1cc[15n][15n]c1', 'Cc1c[15n]c(C)c[15n]1',
                     'c1cc[n]cc1', 'c1c[p]cc[p]1', 'c1cc[as]cc1', 'c1c[13c]ccc1', 'c1cc[nH]c1', 'c1cc[n+](C)cc1', 'c1ccc2[nH]ccc2c1', 'c1ccsc1', 'c1cc[se]c1']


def spans_ok(sel):
    return True


def run(rep, tier, seed, b, prop_key=None, clause=None, gen=None, ident=None, extra=None):
    prop_key = prop_key or PROP_KEY
    clause = clause or CLAUSE
    gen = gen or GEN
    ident = ident or ID
    rng = core.rng_for(seed, ident)
    n = 9000 if tier == 'quick' else 250000
    tabs = E.tables_for(rng, 6 if tier == 'quick' else 30)
    smis = E.gen_smiles_cases(rng, n, **gen)
    smis += E.ring_symbol_cases(rng, 900 if tier == 'quick' else 20000)
    smis += E.large_span_cases(rng, 9 if tier == 'quick' else 600)
    if extra:
        smis += extra(rng, tier)
        rep.extra['extra_family'] = True
    items = [(tabs[i % len(tabs)] if rng.random() < 0.5 else tabs[0], x, True, False) for i, x in enumerate(smis)]
    # the same spelling under a permissive table and then, in the same process, under tighter ones
    # (chunks are processed in order by one worker: a result carried over from the first call would show in the second)
    presets = {k: sf().get_preset_constraints(k) for k in ('default', 'octet_rule')}
    hyper = [x for x in smis if any(g in x for g in ('S(=O)', '(=O)=O', 'P(=O)', 'N(=O)', 'Cl(=O)', '[N+]', 'S(', 'P('))][:400 if tier == 'quick' else 5000]
    seq_items = []
    for x in hyper:
        seq_items += [(E.relaxed_table(), x, True, False), (presets['octet_rule'], x, True, False), (presets['default'], x, True, False)]
    n_main = len(items)
    items += seq_items
    res = core.pmap('enc_side', 'work', items, extra={'roundtrip': True, 'reencode': False}, chunk=300)
    rep.extra['table_switch_sequences'] = len(seq_items) // 3
    for it, r in zip(items, res):
        rep.evaluations += 1
        rep.impl_traces += 1
        inp = {'table': it[0], 'smiles': it[1]}
        im = r['impl']
        if im != r['model']:
            rep.disagreements.append({'op': 'encoder', 'input': inp, 'impl': im, 'model': r['model']})
        if 'ok' not in im:
            rep.count('encoder rejects:' + im['err'])
            continue
        dd = r.get('decoded', {})
        rt = r.get('rt')
        if 'ok' not in dd:
            rep.oracle_failures.append({'clause': 'decoding the encoder output under the same table never raises', 'input': inp, 'impl': [im, dd]})
            continue
        if not rt.get('read_in'):
            rep.count('input not readable by the independent reader (not judged)')
            continue
        if not rt.get('read_out'):
            rep.oracle_failures.append({'clause': 'decoder output is a readable SMILES', 'input': inp, 'impl': dd})
            continue
        rep.count('round trips judged')
        if not rt.get(prop_key):
            rep.oracle_failures.append({'clause': clause, 'input': inp, 'impl': {'selfies': im['ok'], 'smiles_out': dd['ok']}, 'oracle': rt})
        if len(it[1]) > 12 and ('(' in it[1] or any(c.isdigit() for c in it[1])):
            rep.nontriv(it[1])
    for it, r in list(zip(items, res))[:5]:
        rep.sample({'smiles': it[1], 'selfies': r['impl'].get('ok'), 'smiles_out': r.get('decoded', {}).get('ok')})
    rep.rule = ('dataset molecules (committed sample of the repository datasets incl. large aromatic ones), 90%% re-spelt by a random-root / random-neighbour-order writer '
                '(ring labels reused, two-digit, %%nn; ring digits before and after branches; explicit "-" ":" bonds; bracket variants [N+]/[N+1], [CH]/[CH1], ++), '
                '%d%% mutated (charges, isotopes, H counts, chirality tags, elements, cis/trans marks) x %d tables (relaxed, presets, perturbed), strict=True. '
                'non-trivial = distinct accepted input longer than 12 characters with a branch or ring' % (int(100 * gen.get('mutate', 0)), len(tabs)))


def replay(data, prop_key=None):
    prop_key = prop_key or PROP_KEY
    i = data['failure']['input']
    r = E.work([(i['table'], i['smiles'], True, False)], {'roundtrip': True})[0]
    rt = r.get('rt') or {}
    kek = 'Kekule structure' in str(data['failure'].get('clause', ''))
    return {'input': i, 'impl': r['impl'], 'decoded': r.get('decoded'), 'oracle': rt,
            'fails': ('ok' in r['impl']) and (not (rt.get(prop_key) and 'ok' in r.get('decoded', {}))
                                              or (kek and not (rt.get('kekule_ok') and rt.get('out_kekule_form'))))}


def known(f):
    return None


def search(rep, tier, seed, b, dis, prop_key=None, clause=None, ident=None):
    """the tie or a proof is broken: re-spell the molecules on which model and implementation disagree many times
    and look for a spelling on which the property itself fails"""
    import gen_smiles
    prop_key = prop_key or PROP_KEY
    clause = clause or CLAUSE
    rng = core.rng_for(seed, (ident or ID) + '/search')
    seeds = [dd['input'] for dd in dis if isinstance(dd.get('input'), dict) and 'smiles' in dd['input']][:40]
    items = []
    for inp in seeds:
        m = E.mol_of(inp['smiles'])
        items.append((inp['table'], inp['smiles'], True, False))
        if m is None:
            continue
        for _ in range(150):
            x, _o = gen_smiles.respell(m, rng, digits_after_branches=0.3)
            items.append((inp['table'], x, True, False))
    items += [(E.relaxed_table(), x, True, False) for x in E.gen_smiles_cases(rng, 6000, mutate=0.3)]
    # aromatic systems spelt with the explicit ':' bond symbol, and aromatic rings with bracketed / isotope-labelled hetero atoms
    items += [(E.relaxed_table(), x, True, False) for x in EXPLICIT_AROMATIC]
    res = core.pmap('enc_side', 'work', items, extra={'roundtrip': True}, chunk=300)
    import p_c05
    for it, r in zip(items, res):
        rep.evaluations += 1
        rt = r.get('rt') or {}
        if 'ok' in r['impl'] and rt.get('read_in') and not (rt.get('read_out') and rt.get(prop_key)):
            rep.oracle_failures.append({'clause': clause, 'input': {'table': it[0], 'smiles': it[1]},
                                        'impl': {'selfies': r['impl']['ok'], 'smiles_out': r.get('decoded', {}).get('ok')}, 'oracle': rt})
        elif (prop_key == 'same_molecule' and 'ok' in r['impl'] and rt.get('read_in') and rt.get('read_out') and rt.get('same_molecule')
              and not (rt.get('kekule_ok') and rt.get('out_kekule_form')) and p_c05.classify(it[1]) is None and E.blossom_class(it[1]) is None):
            # only in this search (a proof or the tie is already broken): the bond orders inside a former aromatic system, which same_molecule
            # leaves open (single or double), must form a Kekule structure of the input - otherwise it is not the same molecule
            rep.oracle_failures.append({'clause': clause + '; the orders inside a former aromatic system form a Kekule structure of it',
                                        'input': {'table': it[0], 'smiles': it[1]},
                                        'impl': {'selfies': r['impl']['ok'], 'smiles_out': r.get('decoded', {}).get('ok')}, 'oracle': rt})
