"""C15 — label / one-hot encodings are exact inverses of their decoders."""
import core
import gens
from core import S, U, sf, call, drv
from p_c14 import rand_items

ID = 'C15'
TRUSTED = ['spec/EncSpec.v: label/one-hot encodings as plain list functions over a bijective vocabulary']


def mk_case(rng):
    items = rand_items(rng, 7)
    if rng.random() < 0.5:
        items = [[b, dt] for b, dt in items if b not in ('', )]
    x = ''.join('[' + b + ']' + ('.' if dot else '') for b, dot in items)
    if rng.random() < 0.08:
        x = gens.malformed(rng, x)
    syms = ['[' + b + ']' for b, _ in items]
    vocab = sorted(set(syms))
    extra = rng.sample(gens.ATOMS_MAIN + gens.BRANCH, rng.randint(0, 4))
    vocab = list(dict.fromkeys(vocab + extra))
    mode = rng.random()
    if mode < 0.85:
        vocab.append('[nop]')
    if mode < 0.8 or '.' not in x:
        if rng.random() < 0.9:
            vocab.append('.')
    vocab = list(dict.fromkeys(vocab))
    if vocab and rng.random() < 0.06:
        vocab.remove(rng.choice(vocab))      # a missing symbol
    rng.shuffle(vocab)
    idx = list(range(len(vocab)))
    if rng.random() < 0.05 and idx:
        idx[rng.randrange(len(idx))] += rng.choice([1, 5, -1, -len(idx) - 2])   # broken vocabulary
    stoi = dict(zip(vocab, idx))
    itos = {i: s for s, i in stoi.items()}
    if rng.random() < 0.35:                     # the inverse vocabulary built in any order (e.g. from an unordered source): only the mapping counts
        its = list(itos.items())
        rng.shuffle(its)
        itos = dict(its)
    n = x.count('[') + x.count('.')
    pad = rng.choice([-3, -1, 0, n - 2, n - 1, n, n + 1, n + 2, n + 5, rng.randint(-3, n + 5)])
    et = rng.choice(['label', 'one_hot', 'both', 'both', 'label', 'one_hot', 'bad', '', 'Label'])
    return (x, stoi, itos, pad, et, items)


def canon_enc(et, v):
    if et == 'label':
        return ['label', v]
    if et == 'one_hot':
        return ['one_hot', v]
    return ['both', v[0], v[1]]


def work(chunk, extra):
    s_ = sf()
    d = drv()
    out = []
    for (x, stoi, itos, pad, et, items) in chunk:
        dis, fail = [], []
        jst = [[S(k), v] for k, v in stoi.items()]
        jit = [[k, S(v)] for k, v in itos.items()]
        # --- selfies_to_encoding
        im = call(s_.selfies_to_encoding, x, stoi, pad, et)
        if 'ok' in im:
            im = {'ok': canon_enc(et, im['ok'])}
        m = d.one(['s2e', S(x), jst, pad, S(et)])
        if im != m:
            dis.append({'op': 'selfies_to_encoding', 'input': [x, stoi, pad, et], 'impl': im, 'model': m})
        # --- oracle (only when the spec applies: in-language string, proper bijective vocabulary)
        p = d.one(['wf_parse', S(x)])
        toks = [U(t) for t in d.one(['wf_tokens', p])] if p is not None else None
        bij = sorted(stoi.values()) == list(range(len(stoi)))
        k = max(0, pad - len(toks)) if toks is not None else 0
        covered = toks is not None and bij and all(t in stoi for t in toks) and (k == 0 or '[nop]' in stoi)
        if covered and et in ('label', 'one_hot', 'both'):
            want_l = [stoi[t] for t in toks] + [stoi.get('[nop]')] * k
            want_h = [[1 if j == i else 0 for j in range(len(stoi))] for i in want_l]
            want = {'label': ['label', want_l], 'one_hot': ['one_hot', want_h], 'both': ['both', want_l, want_h]}[et]
            if im != {'ok': want}:
                fail.append({'clause': 'selfies_to_encoding = vocabulary indices then [nop] padding (length max(len,pad)), one 1 per row',
                             'input': {'selfies': x, 'stoi': stoi, 'pad': pad, 'enc_type': et}, 'impl': im, 'expected': want})
            # decode back
            padded = x + '[nop]' * k
            for kind, enc in (('label', want_l), ('one_hot', want_h)):
                r = call(s_.encoding_to_selfies, enc, itos, kind)
                mm = d.one(['e2s', kind, enc, jit, S(kind)])
                mm = {'ok': U(mm['ok'])} if 'ok' in mm else mm
                if r != mm:
                    dis.append({'op': 'encoding_to_selfies', 'input': [enc, itos, kind], 'impl': r, 'model': mm})
                if r != {'ok': padded}:
                    fail.append({'clause': 'encoding_to_selfies returns the original string followed by the padding',
                                 'input': {'selfies': x, 'stoi': stoi, 'pad': pad, 'enc_type': kind}, 'impl': r, 'expected': padded})
        elif toks is not None and bij and et in ('label', 'one_hot', 'both') and \
                (any(t not in stoi for t in toks) or (k > 0 and '[nop]' not in stoi)):
            if 'ok' in im:
                fail.append({'clause': 'missing symbol must raise instead of returning data',
                             'input': {'selfies': x, 'stoi': stoi, 'pad': pad, 'enc_type': et}, 'impl': im})
        if et not in ('label', 'one_hot', 'both') and 'ok' in im:
            fail.append({'clause': 'bad enc_type must raise', 'input': {'selfies': x, 'stoi': stoi, 'pad': pad, 'enc_type': et}, 'impl': im})
        # --- decoder-side error cases on raw data
        out.append((x, covered, et, dis, fail))
    return out


def work_batch(chunk, extra):
    s_ = sf()
    d = drv()
    out = []
    for (xs, stoi, itos, pad, ragged) in chunk:
        dis, fail = [], []
        jst = [[S(k), v] for k, v in stoi.items()]
        jit = [[k, S(v)] for k, v in itos.items()]
        im = call(s_.batch_selfies_to_flat_hot, xs, stoi, pad)
        m = d.one(['b2f', [S(x) for x in xs], jst, pad])
        if im != m:
            dis.append({'op': 'batch_selfies_to_flat_hot', 'input': [xs, stoi, pad], 'impl': im, 'model': m})
        if 'ok' in im:
            flat = im['ok']
            # element-wise = per-string function
            per = []
            for x in xs:
                r = call(s_.selfies_to_encoding, x, stoi, pad, 'one_hot')
                per.append([e for row in r['ok'] for e in row] if 'ok' in r else r)
            if per != flat:
                fail.append({'clause': 'batch function = per-string function element-wise', 'input': {'batch': xs, 'stoi': stoi, 'pad': pad}, 'impl': flat})
            if ragged and flat and len(stoi) > 1:
                flat = [list(v) for v in flat]
                flat[0] = flat[0] + [0]
            back = call(s_.batch_flat_hot_to_selfies, flat, itos)
            mb = d.one(['f2b', flat, jit])
            mb = {'ok': [U(t) for t in mb['ok']]} if 'ok' in mb else mb
            if back != mb:
                dis.append({'op': 'batch_flat_hot_to_selfies', 'input': [flat, itos], 'impl': back, 'model': mb})
            if ragged and flat and len(stoi) > 1:
                if 'ok' in back:
                    fail.append({'clause': 'ragged vector must raise', 'input': {'batch': xs, 'stoi': stoi, 'pad': pad, 'ragged': True}, 'impl': back})
            elif len(stoi) > 0 and all(d.one(['wf_parse', S(x)]) is not None for x in xs):
                want = [x + '[nop]' * max(0, pad - (x.count('[') + x.count('.'))) for x in xs]
                if back != {'ok': want}:
                    fail.append({'clause': 'batch functions are inverse to each other', 'input': {'batch': xs, 'stoi': stoi, 'pad': pad},
                                 'impl': back, 'expected': want})
        out.append((xs, 'ok' in im, dis, fail))
    return out


def run(rep, tier, seed, b):
    rng = core.rng_for(seed, ID)
    n = 8000 if tier == 'quick' else 150000
    cases = [mk_case(rng) for _ in range(n)]
    res = core.pmap('p_c15', 'work', cases, chunk=400)
    for (x, covered, et, dis, fail) in res:
        rep.evaluations += 1
        rep.impl_traces += 1
        rep.count(('covered-by-spec/' if covered else 'error-or-outside/') + et)
        rep.disagreements += dis
        rep.oracle_failures += fail
        if covered and len(x) > 6:
            rep.nontriv((x, et))
    batches = []
    for _ in range(n // 8):
        k = rng.randint(0, 4)
        base = [mk_case(rng) for _ in range(k)]
        xs = [c[0] for c in base]
        vocab = list(dict.fromkeys([t for c in base for t in ['[' + bb + ']' for bb, _ in c[5]]] + ['[nop]', '.']))
        if rng.random() < 0.1 and vocab:
            vocab.remove(rng.choice(vocab))
        rng.shuffle(vocab)
        stoi = {s: i for i, s in enumerate(vocab)}
        itos = {i: s for s, i in stoi.items()}
        if rng.random() < 0.35:
            its = list(itos.items())
            rng.shuffle(its)
            itos = dict(its)
        pad = rng.choice([-1, 0, 3, 6, 10])
        batches.append((xs, stoi, itos, pad, rng.random() < 0.15))
    resb = core.pmap('p_c15', 'work_batch', batches, chunk=200)
    for (xs, ok, dis, fail) in resb:
        rep.evaluations += 1
        rep.impl_traces += 1
        rep.count('batch/' + ('ok' if ok else 'raises'))
        rep.disagreements += dis
        rep.oracle_failures += fail
        if ok and len(xs) >= 2:
            rep.nontriv(tuple(xs))
    for c in cases[:4]:
        rep.sample({'selfies': c[0], 'vocab_stoi': c[1], 'pad_to_len': c[3], 'enc_type': c[4]})
    rep.sample({'batch': batches[0][0], 'pad': batches[0][3]})
    rep.rule = ('random in-language strings (incl. dots, empty symbols, non-ASCII symbol text) and 8% malformed ones x random vocabularies '
                '(bijective; 6% with a missing symbol, 5% with a broken index, with/without "." and "[nop]") x pad in {-3..len+5} x enc_type in '
                '{label, one_hot, both, bad values}; batches of 0-4 strings, 15% ragged. non-trivial = distinct (string, enc_type) covered by the spec with >6 characters, or batch of >=2 strings')


def replay(data):
    f = data['failure']
    i = f['input']
    if 'batch' in i:
        stoi = i['stoi']
        r = work_batch([(i['batch'], stoi, {v: k for k, v in stoi.items()}, i['pad'], i.get('ragged', False))], None)[0]
        return {'input': i, 'disagreements': r[2], 'oracle_failures': r[3], 'fails': bool(r[3])}
    stoi = i['stoi']
    r = work([(i['selfies'], stoi, {v: k for k, v in stoi.items()}, i['pad'], i['enc_type'], [])], None)[0]
    return {'input': i, 'disagreements': r[3], 'oracle_failures': r[4], 'fails': bool(r[4])}


def known(f):
    return None
