"""decoder-side correspondence worker: implementation vs extracted model."""
import json
import warnings
import core
from core import S, U, sf, call, drv

warnings.simplefilter('ignore')


def canon_attr(maps):
    out = []
    for m in maps:
        at = m.attribution
        out.append([m.index, m.token, None if at is None else [[a.index, a.token] for a in at]])
    return out


def impl_decode(s_, x, compat, attr):
    r = call(s_.decoder, x, compatible=compat, attribute=attr)
    if 'ok' in r and attr:
        r = {'ok': [r['ok'][0], canon_attr(r['ok'][1])]}
    return r


def model_decode_req(tbl, x, compat, attr):
    return ['dec', tbl, S(x), bool(compat), bool(attr)]


def model_decode_canon(m, attr):
    if 'ok' in m:
        smi = U(m['ok'][0])
        if attr:
            return {'ok': [smi, [[a[0], U(a[1]), None if a[2] is None else [[i, U(t)] for i, t in a[2]]] for a in m['ok'][1]]]}
        return {'ok': smi}
    return m


_cur = [None]


def set_table(s_, t):
    key = json.dumps(t, sort_keys=False)
    if _cur[0] != key:
        s_.set_semantic_constraints(dict(t))
        _cur[0] = key


def compare_chunk(chunk, extra):
    """chunk: [(table, selfies, compat, attr)] -> [(impl, model)] canonical"""
    s_ = sf()
    d = drv()
    reqs = [model_decode_req(core.T(t), x, c, a) for (t, x, c, a) in chunk]
    ms = d.batch(reqs)
    out = []
    for (t, x, c, a), m in zip(chunk, ms):
        set_table(s_, t)
        im = impl_decode(s_, x, c, a)
        out.append((im, model_decode_canon(m, a)))
    return out
