"""C05 — aromatic SMILES are kekulised correctly, or rejected, independent of atom order."""
import itertools
import re
import core
import enc_side as E
import gen_smiles
from core import S, U, sf, call, drv

ID = 'C05'
TRUSTED = ['spec/RoundTrip.v: kekule_ok (per atom: at most one double bond inside the former aromatic system; exactly one / none for the standard atom kinds by an independent '
           'valence rule), has_kekule_structure (exact backtracking search for an alternating assignment), is_perfect_matching / graph_has_pm for the matching routine itself',
           'the known-finding classifier is computed by the model of find_perfect_matching (CPython set order included) on the pruned graph of the failing input']

CARBANION = re.compile(r'\[\d*c(H0)?-')      # any isotope spelling of a hydrogen-free aromatic carbanion


def classify(x):
    k = E.blossom_class(x)
    if k:
        return k
    if CARBANION.search(x):
        return 'aromatic-carbanion-without-H'
    return None


def work_graph(chunk, extra):
    d = drv()
    try:
        from selfies.utils.matching_utils import find_perfect_matching
    except Exception:
        find_perfect_matching = None
    out = []
    for g in chunk:
        m = d.one(['pm', g])
        mm = m.get('ok') if 'ok' in m else m
        im = 'n/a'          # the internal function is not importable: only the model is judged
        if find_perfect_matching is not None:
            r = call(find_perfect_matching, [list(a) for a in g])
            im = r.get('ok') if 'ok' in r else r
        # does a perfect matching exist?  a valid matching from the model is a certificate; otherwise the exact
        # search (exponential on graphs without one) is only run on small graphs
        if isinstance(mm, list) and d.one(['ispm', g, mm]):
            has = True
        elif len(g) <= 20:
            has = d.one(['haspm', g])
        else:
            has = None
        valid = None
        if isinstance(im, list) or (im == 'n/a' and isinstance(mm, list)):
            valid = d.one(['ispm', g, im if isinstance(im, list) else mm])
        out.append((g, im, mm, has, valid))
    return out


def work_hard(chunk, extra):
    """rejection sampling of the instances that need several augmenting searches in one call: benzenoid flakes in random
    node orders on which the greedy pre-matching (model) leaves >= 4 atoms unmatched"""
    d = drv()
    out = []
    for (seed, count) in chunk:
        rng = core.rng_for(seed, 'C05/hard')
        keep = []
        for _ in range(count):
            g = hex_flake(rng, rng.choice([8, 10, 12, 14, 16, 19, 22]))
            if len(g) % 2:
                continue
            gm = d.one(['greedy', g])
            if 'ok' in gm and sum(1 for x in gm['ok'] if x is None) >= 4:
                keep.append(g)
        out.append((count, work_graph(keep, None)))
    return out


def small_graphs(rng, n_nodes, count):
    """random connected graphs with max degree 3 and random adjacency orders"""
    out = []
    while len(out) < count:
        n = rng.choice(n_nodes)
        adj = [[] for _ in range(n)]
        # random spanning tree then extra edges
        for v in range(1, n):
            cands = [u for u in range(v) if len(adj[u]) < 3]
            if not cands:
                break
            u = rng.choice(cands)
            adj[u].append(v); adj[v].append(u)
        else:
            for _ in range(rng.randint(0, n)):
                u, v = rng.randrange(n), rng.randrange(n)
                if u != v and v not in adj[u] and len(adj[u]) < 3 and len(adj[v]) < 3:
                    adj[u].append(v); adj[v].append(u)
            for a in adj:
                rng.shuffle(a)
            out.append(adj)
    return out


def hex_flake(rng, n_hex):
    """a benzenoid flake: n_hex hexagons grown on the hexagonal lattice; returns adjacency lists (random node order, random neighbour order)"""
    # hexagons on axial coordinates; vertices as corners identified by rounded positions
    import math
    cells = {(0, 0)}
    while len(cells) < n_hex:
        q, r = rng.choice(sorted(cells))
        dq, dr = rng.choice([(1, 0), (-1, 0), (0, 1), (0, -1), (1, -1), (-1, 1)])
        cells.add((q + dq, r + dr))
    verts = {}
    edges = set()
    for (q, r) in cells:
        cx = math.sqrt(3) * (q + r / 2.0)
        cy = 1.5 * r
        corners = []
        for k in range(6):
            ang = math.pi / 180 * (60 * k - 30)
            key = (round(cx + math.cos(ang), 3), round(cy + math.sin(ang), 3))
            corners.append(verts.setdefault(key, len(verts)))
        for k in range(6):
            a, b_ = corners[k], corners[(k + 1) % 6]
            edges.add((min(a, b_), max(a, b_)))
    n = len(verts)
    perm = list(range(n))
    rng.shuffle(perm)
    adj = [[] for _ in range(n)]
    for a, b_ in edges:
        adj[perm[a]].append(perm[b_]); adj[perm[b_]].append(perm[a])
    for a in adj:
        rng.shuffle(a)
    return adj


TEMPLATES = ['c13c2c4c(c12)c34', 'c1ccccc1', 'c1ccc2ccccc2c1', 'c1ccc2cc3ccccc3cc2c1', 'c1cc2ccc3cccc4ccc(c1)c2c34', 'c1ccc2c(c1)ccc1ccccc12', 'c1ccc2c(c1)c1cccc3cccc2c31',
             'c1cc2cccc3ccc4cccc5ccc(c1)c2c3c45', 'c1ccc2[nH]ccc2c1', 'c1ccc2occc2c1', 'c1ccc2sccc2c1', 'c1ccncc1', 'c1ccc2ncccc2c1', 'c1cnc2ccccc2n1', 'Cn1cccc1', 'c1cc[nH]c1',
             'c1ccoc1', 'c1ccsc1', 'c1cnc[nH]1', 'c1ccc2[nH]c3ccccc3c2c1', 'c1cc2ccc3ccc4ccc5ccc6ccc1c1c2c3c4c5c61', 'c1ccpcc1', 'c1cc[n+](C)cc1', 'c1ccc2cc3cc4ccccc4cc3cc2c1',
             'c1ccc2c(c1)c1ccccc1c1ccccc21', 'c1cc2cc3ccc4cc5ccc6cc1c1c2c3c4c5c61', 'c1ccc(cc1)-c1ccccc1', 'c12c3c4c1c1c2c3c41', 'c1cc2ccc3ccc1c23', 'c1cccc1', 'c1cc1', 'c1ccccccc1',
             'c1cccccccc1', 'c1ccc2cccc2cc1', 'c1cc2cccccc2c1', 'O=c1cc[nH]cc1', 'O=c1ccocc1', 'c1cc2cc3ccc(cc4ccc(cc5ccc(cc1n2)[nH]5)n4)[nH]3',
             'c1ccc2c(c1)c1nc3nc(nc4[nH]c(nc5nc(nc2[nH]1)c1ccccc51)c1ccccc41)c1ccccc31',
             'c12c3c4c5c1c1c6c7c2c2c8c3c3c9c4c4c%10c5c5c1c1c6c6c%11c7c2c2c7c8c3c3c8c9c4c4c9c%10c5c5c1c1c6c6c%11c2c2c7c3c3c8c4c4c9c5c1c1c6c2c3c41',
             'c1cc[se]c1', 'c1ccc2[se]ccc2c1', 'c1cc[as]cc1', 'c1c[as]cc[as]1', 'c1ccc2[as]c3ccccc3[as]c2c1', 'c1cc[se+]cc1', 'c1c[se+]cc[se+]1', 'c1cc[te]c1', 'c1cc[asH]c1',
             'O=s1cccc1', 'O=s1c2ccccc2c2ccccc12', 'O=p1(C)cccc1', 'O=s1ccs(=O)cc1', 'O=s1c2ccccc2s(=O)c2ccccc12', 'O=p1(O)cccc1', 'O=s1(=O)cccc1', 'Cp1(=O)ccc2ccccc12',
             'c1ccc2[te]ccc2c1', 'C[as+]1ccccc1', 'c1ccc2c(c1)ccc1c2ccc2ccccc12', 'c1cc2ccc3ccc4ccc5cccc6c(c1)c2c3c4c56']


def run(rep, tier, seed, b):
    rng = core.rng_for(seed, ID)
    # ---- the matching routine itself
    graphs = small_graphs(rng, [4, 6, 8, 8, 10, 12], 6000 if tier == 'quick' else 200000)
    if tier == 'thorough':
        graphs += small_graphs(rng, [14, 16, 20, 30], 20000)
    # benzenoid flakes in random node orders: several augmenting searches in one call
    for _ in range(9000 if tier == 'quick' else 150000):
        graphs.append(hex_flake(rng, rng.choice([4, 7, 10, 12, 14, 16, 19])))
    gres = core.pmap('p_c05', 'work_graph', graphs, chunk=500)
    hard = core.pmap('p_c05', 'work_hard', [(seed * 1000 + i, 2500 if tier == 'quick' else 40000) for i in range(32)], chunk=1)
    rep.extra['flakes_sampled_for_multi_search_instances'] = sum(h[0] for h in hard)
    rep.extra['multi_search_instances'] = sum(len(h[1]) for h in hard)
    for h in hard:
        gres += h[1]
    for (g, im, mm, has, valid) in gres:
        rep.evaluations += 1
        if im != 'n/a':
            rep.impl_traces += 1
            if im != mm and not (isinstance(im, dict) or isinstance(mm, dict)):
                rep.disagreements.append({'op': 'find_perfect_matching', 'input': {'graph': g}, 'impl': im, 'model': mm})
        res = mm if im == 'n/a' else im
        if isinstance(im, dict):
            # these graphs are symmetric and have no self loops: the routine raises nothing on them (proved of the model: EncGreedy.v / EncMatchSafe.v)
            rep.disagreements.append({'op': 'find_perfect_matching', 'input': {'graph': g}, 'impl': im, 'model': mm})
            rep.oracle_failures.append({'clause': 'find_perfect_matching returns a matching or None on a symmetric graph without self loops: it raises nothing',
                                        'input': {'graph': g}, 'impl': im, 'klass': None})
        bad = None
        if isinstance(res, list) and valid is False:
            bad = 'a returned matching is a perfect matching of the graph'
        elif res is None and has:
            bad = 'None is returned only if the graph has no perfect matching'
        if bad:
            # classifier: this IS the blossom defect (the routine itself on a non-bipartite graph)
            # known-finding class only if the MODEL of the unchanged algorithm shows the same defect on this graph
            same_in_model = (isinstance(mm, list) and isinstance(res, list) and not drv().one(['ispm', g, mm])) or (mm is None and res is None)
            rep.oracle_failures.append({'clause': bad, 'input': {'graph': g}, 'impl': res, 'klass': 'matching-no-blossom' if same_in_model else None})
        rep.count('graph:' + ('matching' if isinstance(res, list) else 'none' if res is None else 'error'))
        if has and len(g) >= 8:
            rep.nontriv(str(g))
    # ---- encoder on aromatic SMILES
    n = 5000 if tier == 'quick' else 120000
    smis = E.gen_smiles_cases(rng, n, mutate=0.15, aromatic_only=True, maxlen=110)
    groups = []
    for tpl in TEMPLATES:
        m = E.mol_of(tpl)
        if m is None:
            continue
        sp = [tpl] + [gen_smiles.respell(m, rng, variants=False)[0] for _ in range(12 if tier == 'quick' else (400 if len(tpl) > 100 else 60))]
        groups.append((len(smis), len(sp), tpl))
        smis += sp
    smis += ['[c-]1[c-]cccc1', '[c-]1ccccc1', '[cH-]1cccc1', 'c1cc[n-]c1', '[nH+]1ccccc1', 'c1cc[o+]cc1', '[cH+]1cccccc1', '[c+]1cccccc1', '[s+]1cccc1', 'c1cc[c]cc1']
    t = E.relaxed_table()
    items = [(t, x, False, False) for x in smis]
    res = core.pmap('enc_side', 'work', items, extra={'roundtrip': True, 'kek': True}, chunk=250)
    for it, r in zip(items, res):
        rep.evaluations += 1
        rep.impl_traces += 1
        x = it[1]
        inp = {'smiles': x}
        im = r['impl']
        if im != r['model']:
            rep.disagreements.append({'op': 'encoder(strict=False)', 'input': inp, 'impl': im, 'model': r['model']})
        kk = r.get('kek') or {}
        if not kk.get('readable') or kk.get('kekule_form'):
            rep.count('not aromatic / not readable (not judged)')
            continue
        if 'ok' in im:
            rt = r.get('rt') or {}
            if not rt.get('same_molecule') and 'ok' not in call(sf().encoder, x, strict=True):
                rep.count('accepted only with strict=False: the molecule violates the table, decoding clips it (not judged)')
                continue
            rep.count('accepted')
            if not (rt.get('read_out') and rt.get('same_molecule')):
                rep.oracle_failures.append({'clause': 'sigma skeleton, hydrogens and charges are unchanged by kekulisation', 'input': inp,
                                            'impl': r.get('decoded'), 'klass': classify(x)})
            elif not rt.get('kekule_ok') or not rt.get('out_kekule_form'):
                rep.oracle_failures.append({'clause': 'every aromatic atom that needs a pi bond has exactly one double bond inside the former aromatic system, the others none',
                                            'input': inp, 'impl': r.get('decoded'), 'klass': classify(x)})
            elif kk.get('all_standard') and not kk.get('has_kekule'):
                rep.oracle_failures.append({'clause': 'encoder raises EncoderError if no alternating single/double assignment exists', 'input': inp, 'impl': im,
                                            'klass': classify(x)})
            rep.nontriv(x)
        else:
            rep.count('rejected')
            if E.ring_bond_mismatch(x):
                rep.count('rejected: mismatched ring closure symbols (malformed input, not judged)')
            elif im['err'] != 'EncoderError':
                rep.oracle_failures.append({'clause': 'on an aromatic input the encoder succeeds or raises EncoderError - nothing else (acceptance must not depend on the atom order)',
                                            'input': inp, 'impl': im, 'klass': classify(x)})
            elif kk.get('all_standard') and kk.get('has_kekule') and im['err'] == 'EncoderError':
                rep.oracle_failures.append({'clause': 'for the standard aromatic atom kinds the encoder succeeds whenever an alternating assignment exists',
                                            'input': inp, 'impl': im, 'klass': classify(x)})
    # ---- the internal graph after smiles_to_mol and after kekulize, field by field (orders, counts, subgraph): what EncArom / EncKeep / EncPi are about
    dj = [(x, False) for x in smis[:1500 if tier == 'quick' else 40000]]
    try:
        dres = core.pmap('val_encoder', 'dump_chunk', dj, chunk=100)
        for r_ in dres:
            for bd in r_['bad']:
                rep.disagreements.append({'op': 'internal graph after smiles_to_mol / kekulize', 'input': {'smiles': bd['smiles']},
                                          'impl': str(bd['impl'])[:400], 'model': str(bd['model'])[:400]})
        rep.impl_traces += len(dj)
        rep.extra['internal_graph_dumps_compared'] = len(dj)
    except Exception as ex:
        rep.disagreements.append({'op': 'internal graph after smiles_to_mol / kekulize', 'input': {'smiles': dj[0][0] if dj else ''}, 'impl': 'dump failed: %r' % (ex,), 'model': None})
    # ---- acceptance does not depend on the spelling
    for (start, k, tpl) in groups:
        acc = ['ok' in res[start + j]['impl'] for j in range(k)]
        rep.evaluations += 1
        if len(set(acc)) > 1:
            j = acc.index(not acc[0])
            x = smis[start + j] if acc[0] else smis[start]
            bad = smis[start + (j if acc[0] else 0)] if False else x
            rej = [smis[start + i] for i in range(k) if not acc[i]][0]
            rep.oracle_failures.append({'clause': 'acceptance does not depend on the order in which the SMILES lists the atoms (%s)' % tpl,
                                        'input': {'smiles': rej}, 'impl': res[start + smis[start:start + k].index(rej)]['impl'], 'klass': classify(rej)})
    for it, r in list(zip(items, res))[:4]:
        rep.sample({'smiles': it[1], 'selfies': r['impl'].get('ok')})
    rep.sample({'graph': graphs[0]})
    rep.extra['spelling_groups'] = len(groups)
    rep.rule = ('(1) find_perfect_matching on random connected max-degree-3 graphs (4-12 nodes quick, up to 30 thorough) with random adjacency orders, judged by the proved checker; '
                '(2) aromatic dataset molecules re-spelt (15%% mutated: charged / H-bearing / radical centres) and %d fused / bridged / cage / hetero templates incl. C60 in many atom orders, '
                'strict=False, round trip judged by kekule_ok / has_kekule_structure; (3) acceptance equal across the spellings of each template. '
                'non-trivial = distinct accepted aromatic input, or graph with >= 8 nodes that has a perfect matching' % len(TEMPLATES))


def known(f):
    s_ = sf()
    d = drv()
    w = f['witness']
    if 'graph' in w:
        from selfies.utils.matching_utils import find_perfect_matching
        m = find_perfect_matching([list(a) for a in w['graph']])
        if m is not None and not d.one(['ispm', w['graph'], m]):
            return 'find_perfect_matching(%s) = %s is not a matching' % (w['graph'], m)
        return None
    x = w['smiles']
    r = E.work([(E.relaxed_table(), x, False, False)], {'roundtrip': True, 'kek': True})[0]
    if 'ok' in r['impl']:
        rt = r.get('rt') or {}
        if not rt.get('kekule_ok'):
            return 'encoder(%r) succeeds but the decoded structure %s is not a valid Kekule structure of the input' % (x, r.get('decoded', {}).get('ok'))
    elif (r.get('kek') or {}).get('has_kekule'):
        return 'encoder(%r) raises although an alternating assignment exists' % x
    return None


def replay(data):
    i = data['failure']['input']
    if 'graph' in i:
        r = work_graph([i['graph']], None)[0]
        return {'input': i, 'impl': r[1], 'model': r[2], 'has_perfect_matching': r[3], 'impl_result_is_matching': r[4],
                'fails': (isinstance(r[1], list) and r[4] is False) or (r[1] is None and r[3])}
    r = E.work([(E.relaxed_table(), i['smiles'], False, False)], {'roundtrip': True, 'kek': True})[0]
    rt = r.get('rt') or {}
    return {'input': i, 'impl': r['impl'], 'decoded': r.get('decoded'), 'oracle': rt, 'kek': r.get('kek'),
            'fails': ('ok' in r['impl'] and not rt.get('kekule_ok')) or ('ok' not in r['impl'] and (r.get('kek') or {}).get('has_kekule'))}
