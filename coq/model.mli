
val xorb : bool -> bool -> bool

val negb : bool -> bool

type nat =
| O
| S of nat

val fst : ('a1 * 'a2) -> 'a1

val snd : ('a1 * 'a2) -> 'a2

val length : 'a1 list -> nat

val app : 'a1 list -> 'a1 list -> 'a1 list

type comparison =
| Eq
| Lt
| Gt

val compOpp : comparison -> comparison

type uint =
| Nil
| D0 of uint
| D1 of uint
| D2 of uint
| D3 of uint
| D4 of uint
| D5 of uint
| D6 of uint
| D7 of uint
| D8 of uint
| D9 of uint

type uint0 =
| Nil0
| D10 of uint0
| D11 of uint0
| D12 of uint0
| D13 of uint0
| D14 of uint0
| D15 of uint0
| D16 of uint0
| D17 of uint0
| D18 of uint0
| D19 of uint0
| Da of uint0
| Db of uint0
| Dc of uint0
| Dd of uint0
| De of uint0
| Df of uint0

type uint1 =
| UIntDecimal of uint
| UIntHexadecimal of uint0

val add : nat -> nat -> nat

val mul : nat -> nat -> nat

val sub : nat -> nat -> nat

val tail_add : nat -> nat -> nat

val tail_addmul : nat -> nat -> nat -> nat

val tail_mul : nat -> nat -> nat

val of_uint_acc : uint -> nat -> nat

val of_uint : uint -> nat

val of_hex_uint_acc : uint0 -> nat -> nat

val of_hex_uint : uint0 -> nat

val of_num_uint : uint1 -> nat

type positive =
| XI of positive
| XO of positive
| XH

type n =
| N0
| Npos of positive

type z =
| Z0
| Zpos of positive
| Zneg of positive

val eqb : bool -> bool -> bool

module Nat :
 sig
  val pred : nat -> nat

  val sub : nat -> nat -> nat

  val eqb : nat -> nat -> bool

  val leb : nat -> nat -> bool

  val ltb : nat -> nat -> bool

  val max : nat -> nat -> nat

  val min : nat -> nat -> nat

  val even : nat -> bool

  val odd : nat -> bool

  val divmod : nat -> nat -> nat -> nat -> nat * nat

  val div : nat -> nat -> nat

  val modulo : nat -> nat -> nat

  val log2_iter : nat -> nat -> nat -> nat -> nat

  val log2 : nat -> nat
 end

module Pos :
 sig
  type mask =
  | IsNul
  | IsPos of positive
  | IsNeg
 end

module Coq_Pos :
 sig
  val succ : positive -> positive

  val add : positive -> positive -> positive

  val add_carry : positive -> positive -> positive

  val pred_double : positive -> positive

  type mask = Pos.mask =
  | IsNul
  | IsPos of positive
  | IsNeg

  val succ_double_mask : mask -> mask

  val double_mask : mask -> mask

  val double_pred_mask : positive -> mask

  val sub_mask : positive -> positive -> mask

  val sub_mask_carry : positive -> positive -> mask

  val mul : positive -> positive -> positive

  val iter : ('a1 -> 'a1) -> 'a1 -> positive -> 'a1

  val pow : positive -> positive -> positive

  val size : positive -> positive

  val compare_cont : comparison -> positive -> positive -> comparison

  val compare : positive -> positive -> comparison

  val eqb : positive -> positive -> bool

  val iter_op : ('a1 -> 'a1 -> 'a1) -> positive -> 'a1 -> 'a1

  val to_nat : positive -> nat

  val of_succ_nat : nat -> positive
 end

module N :
 sig
  val succ_double : n -> n

  val double : n -> n

  val add : n -> n -> n

  val sub : n -> n -> n

  val mul : n -> n -> n

  val compare : n -> n -> comparison

  val eqb : n -> n -> bool

  val leb : n -> n -> bool

  val ltb : n -> n -> bool

  val pow : n -> n -> n

  val log2 : n -> n

  val pos_div_eucl : positive -> n -> n * n

  val div_eucl : n -> n -> n * n

  val div : n -> n -> n

  val modulo : n -> n -> n

  val to_nat : n -> nat

  val of_nat : nat -> n
 end

module Z :
 sig
  val double : z -> z

  val succ_double : z -> z

  val pred_double : z -> z

  val pos_sub : positive -> positive -> z

  val add : z -> z -> z

  val opp : z -> z

  val sub : z -> z -> z

  val mul : z -> z -> z

  val compare : z -> z -> comparison

  val leb : z -> z -> bool

  val ltb : z -> z -> bool

  val gtb : z -> z -> bool

  val eqb : z -> z -> bool

  val max : z -> z -> z

  val min : z -> z -> z

  val abs_N : z -> n

  val to_nat : z -> nat

  val to_N : z -> n

  val of_nat : nat -> z

  val of_N : n -> z

  val pos_div_eucl : positive -> z -> z * z

  val div_eucl : z -> z -> z * z

  val div : z -> z -> z

  val modulo : z -> z -> z

  val quotrem : z -> z -> z * z

  val quot : z -> z -> z
 end

val nth : nat -> 'a1 list -> 'a1 -> 'a1

val nth_error : 'a1 list -> nat -> 'a1 option

val rev : 'a1 list -> 'a1 list

val concat : 'a1 list list -> 'a1 list

val map : ('a1 -> 'a2) -> 'a1 list -> 'a2 list

val flat_map : ('a1 -> 'a2 list) -> 'a1 list -> 'a2 list

val fold_left : ('a1 -> 'a2 -> 'a1) -> 'a2 list -> 'a1 -> 'a1

val fold_right : ('a2 -> 'a1 -> 'a1) -> 'a1 -> 'a2 list -> 'a1

val existsb : ('a1 -> bool) -> 'a1 list -> bool

val forallb : ('a1 -> bool) -> 'a1 list -> bool

val filter : ('a1 -> bool) -> 'a1 list -> 'a1 list

val find : ('a1 -> bool) -> 'a1 list -> 'a1 option

val combine : 'a1 list -> 'a2 list -> ('a1 * 'a2) list

val firstn : nat -> 'a1 list -> 'a1 list

val skipn : nat -> 'a1 list -> 'a1 list

val seq : nat -> nat -> nat list

val repeat : 'a1 -> nat -> 'a1 list

type ascii =
| Ascii of bool * bool * bool * bool * bool * bool * bool * bool

val n_of_digits : bool list -> n

val n_of_ascii : ascii -> n

type string =
| EmptyString
| String of ascii * string

val append : string -> string -> string

type exn =
| DecoderError
| EncoderError
| SMILESParserError
| ValueError
| KeyError
| IndexError
| TypeError
| AssertionError
| AttributeError
| ZeroDivisionError
| RecursionError
| StopIteration
| OutOfFuel

type 'a res =
| Ok of 'a
| Err of exn

val bind : 'a1 res -> ('a1 -> 'a2 res) -> 'a2 res

type str = n list

val lit : string -> str

val ch : ascii -> n

val str_eqb : str -> str -> bool

val mem_str : str -> str list -> bool

val mem_N : n -> n list -> bool

val find_char_aux : n -> str -> nat -> nat option

val find_char : n -> str -> nat -> nat option

val slice : str -> nat -> nat -> str

val slice_neg : str -> nat -> nat -> str

val suffix : str -> nat -> str

val count_char : n -> str -> nat

val split_char_aux : n -> str -> str -> str list

val split_char : n -> str -> str list

val join : str -> str list -> str

val prefix_of : str -> str -> bool

val last_char : str -> n option

val upd : 'a1 list -> nat -> ('a1 -> 'a1) -> 'a1 list

val insert_at : 'a1 list -> nat -> 'a1 -> 'a1 list

val assoc : str -> (str * 'a1) list -> 'a1 option

val assocZ : z -> (z * 'a1) list -> 'a1 option

val index_of : str -> str list -> nat -> nat option

val digits_fuel : nat -> n -> n -> n list -> n list

val digits : n -> n -> n list

val str_of_N : n -> str

val str_of_Z_signed : z -> str

val elements : n list list

val organic_subset : n list list

val aromatic_subset : n list list

val aromatic_valences : (n list * z list) list

val valence_electrons : (n list * z) list

val index_alphabet : n list list

val index_code : (n list * n) list

val preset_constraints : (n list * (n list * z) list) list

val default_constraints : (n list * z) list

val branch_cache : (n list * (z * nat)) list

val ring_cache : (n list * ((z * nat) * (n option * n option))) list

val atom_cache_seed : n list list

val smiles_bond_orders2 : (n * z) list

val smiles_stereo_bonds : n list

val symbol_update_table : (n list * n list) list

val int_max_str_digits : n

val decimal_zeros : n list

val isdigit_ranges : (n * n) list

val isnumeric_ranges : (n * n) list

val isalpha_ranges : (n * n) list

val next_atom_state : z -> z -> z -> z * z option

val next_branch_state : z -> z -> z * z

val next_branch_state_pre : z -> z -> bool

val next_ring_state : z -> z -> z * z option

val next_ring_state_pre : z -> z -> bool

val c_lb : n

val c_rb : n

val c_dot : n

val dot_tok : str

type lst =
| LSkip
| LStart
| LIn of str

val lex : lst -> str -> str list * bool

val split_selfies : str -> str list * bool

val split_selfies_list : str -> str list res

val len_selfies : str -> nat

val add_set : str -> str list -> str list

val alphabet_from : str list -> str list -> str list res

val get_alphabet_from_selfies : str list -> str list res

val in_ranges : n -> (n * n) list -> bool

val isdigit : n -> bool

val decimal_val_in : n -> n list -> n option

val decimal_val : n -> n option

val isdecimal : n -> bool

val is_upper : n -> bool

val is_lower : n -> bool

val is_19 : n -> bool

val is_09 : n -> bool

val to_upper : n -> n

val to_lower : n -> n

val capitalize : str -> str

val int_of_decimals : str -> n res

val span : (n -> bool) -> str -> str * str

type atom = { a_element : str; a_aromatic : bool; a_isotope : n option;
              a_chirality : str option; a_hcount : n option; a_charge : 
              z }

type table = (str * z) list

val constraint_key : str -> z -> str

val get_bonding_capacity : table -> str -> z -> z res

type capfun = str -> z -> z res

val bonding_capacity_c : capfun -> atom -> z res

val invert_chirality : atom -> atom

val is_stereo_char : n -> bool

val assocN : n -> (n * 'a1) list -> 'a1 option

val smiles_to_bond2 : n option -> z * n option

val bond_to_smiles : z -> n option -> str res

val atom_to_smiles : atom -> bool -> str res

val is_bond_prefix : n -> bool

type sym_fields = { f_bond : n option; f_iso : str; f_elem : str;
                    f_chi : str; f_h : str; f_charge : str }

val match_selfies_atom : str -> sym_fields option

val sign_of : n -> z

val process_atom_nocache : str -> ((z * n option) * atom) option res

val process_atom_symbol_c :
  capfun -> str -> (((z * n option) * atom) * z) option res

val process_atom_symbol :
  table -> str -> (((z * n option) * atom) * z) option res

val is_letter : n -> bool

type br_fields = { g_iso : str; g_elem : str; g_chi : str; g_h : str;
                   g_charge : str; g_class : str }

val match_bracket_atom : str -> br_fields option

val all_lower : str -> bool

val smiles_to_atom : str -> atom option res

val index_base : n

val alphabet_base : n

val index_digit : str option -> n

val index_sum : str option list -> n -> n

val get_index_from_selfies : str option list -> n

val syms_of_digits : n list -> str list res

val get_selfies_from_index : z -> str list res

val process_branch_symbol : str -> (z * nat) option

val process_ring_symbol : str -> ((z * nat) * (n option * n option)) option

val modernize_symbol : str -> str res

type attr = nat * str

type attrs = attr list option

type amap = { am_index : z; am_token : str; am_attr : attrs }

type dbond = { b_src : nat; b_dst : nat; b_order : z; b_stereo : n option;
               b_ring : bool; b_attr : attrs }

type dmol = { atoms : ((atom * z) * attrs) list; roots : nat list;
              adj : dbond list list; counts : z list }

val empty_mol : dmol

val get_count : dmol -> nat -> z res

val get_cap : dmol -> nat -> z res

val add_atom : dmol -> atom -> z -> attrs -> bool -> dmol * nat

val add_bond : dmol -> nat -> nat -> z -> n option -> attrs -> dmol res

val find_bond : dmol -> nat -> nat -> dbond option

val has_bond : dmol -> nat -> nat -> bool

val add_at_loc : dbond list -> nat -> dbond -> dbond list res

val add_ring_bond :
  dmol -> nat -> nat -> z -> n option -> n option -> nat -> nat -> dmol res

val set_order : dbond list -> nat -> z -> dbond list

val update_bond_order : dmol -> nat -> nat -> z -> dmol res

val modernize_all : str list -> exn option -> str list * exn option

val nop_sym : str

val tokenize_selfies : str -> bool -> str list * exn option

val enumerate_from : nat -> 'a1 list -> (nat * 'a1) list

type toks = (nat * str) list

type prev_atom =
| PNone
| PGhost
| PAtom of nat

type ringreq = { r_l : nat; r_r : nat; r_order : z; r_ls : n option;
                 r_rs : n option }

val raise_or : exn option -> 'a1 res -> 'a1 res

val read_index :
  nat -> toks -> exn option -> str option list -> nat -> ((str option
  list * toks) * nat) res

val drain : toks -> exn option -> nat option -> nat -> (toks * nat) res

val below : nat -> nat option -> bool

val push_attr : attrs -> attr -> attrs

val is_branch_like : str -> bool

val is_ring_like : str -> bool

val is_eps_like : str -> bool

val derive_c :
  capfun -> exn option -> nat -> nat -> toks -> dmol -> nat option -> z ->
  prev_atom -> ringreq list -> attrs -> nat -> (((toks * dmol) * ringreq
  list) * nat) res

val form_ring : (dmol * nat list) res -> ringreq -> (dmol * nat list) res

val form_rings : dmol -> ringreq list -> dmol res

type wkind =
| WAtom
| WBond
| WPunct

type wev = { w_kind : wkind; w_tok : str; w_attr : attrs }

val pair_eqb : (nat * nat) -> (nat * nat) -> bool

val ring_label : (nat * nat) list -> nat -> nat -> (nat * nat) list * nat

val label_events : nat -> wev list

val punct : string -> wev

val write_atom :
  nat -> dmol -> nat -> (nat * nat) list -> (wev list * (nat * nat) list) res

val maps_of : wev list -> nat -> nat -> amap list

val write_roots :
  dmol -> nat list -> (nat * nat) list -> nat -> (str list * amap list) res

val mol_to_smiles : dmol -> (str * amap list) res

val tokenize_all : str -> bool -> (str list * exn option) list

val derive_frags_c :
  capfun -> bool -> (str list * exn option) list -> dmol -> ringreq list ->
  nat -> (dmol * ringreq list) res

val decode_graph_c : capfun -> str -> bool -> bool -> dmol res

val decode_graph : table -> str -> bool -> bool -> dmol res

val decoder_c : capfun -> str -> bool -> bool -> (str * amap list) res

val decoder : table -> str -> bool -> bool -> (str * amap list) res

type slot =
| SUnused
| SDummy
| SKey of nat

type pyset = { ps_table : slot list; ps_mask : nat; ps_fill : nat;
               ps_used : nat; ps_finger : nat }

val lINEAR_PROBES : nat

val pERTURB_SHIFT_DIV : nat

val pySet_MINSIZE : nat

val ps_empty : pyset

val run_length : nat -> nat -> nat

val next_perturb : nat -> nat

val next_index : nat -> nat -> nat -> nat

type add_scan_result =
| AUnused of nat * nat option
| AActive
| AMore of nat option

val add_scan : slot list -> nat -> nat -> nat -> nat option -> add_scan_result

type add_where =
| AddNothing
| AddFresh of nat
| AddReuse of nat

val add_probe :
  nat -> slot list -> nat -> nat -> nat -> nat -> nat option -> add_where res

val probe_fuel : nat -> nat -> nat

val clean_scan : slot list -> nat -> nat -> nat option

val clean_probe : nat -> slot list -> nat -> nat -> nat -> nat res

val insert_clean : slot list -> nat -> nat -> slot list res

val grow_size : nat -> nat -> nat -> nat

val reinsert : slot list -> slot list -> nat -> slot list res

val table_resize : pyset -> nat -> pyset res

val ps_add : pyset -> nat -> pyset res

val ps_add_all : pyset -> nat list -> pyset res

val ps_of_list : nat list -> pyset res

val ps_nonempty : pyset -> bool

type look_result =
| LUnused
| LFound of nat
| LMore

val look_scan : slot list -> nat -> nat -> nat -> look_result

val look_probe :
  nat -> slot list -> nat -> nat -> nat -> nat -> nat option res

val ps_discard : nat -> pyset -> pyset res

val first_key_from : slot list -> nat -> (nat * nat) option

val ps_pop : pyset -> (nat * pyset) res

val ps_keys : slot list -> nat list

type ps_op =
| OpAdd of nat
| OpPop
| OpDiscard of nat

val ps_run :
  pyset -> ps_op list -> (((nat option * bool) * nat list) list * pyset) res

type graph = nat list list

type matching = nat option list

val get : 'a1 list -> nat -> 'a1 res

val set_at : 'a1 list -> nat -> 'a1 -> 'a1 list res

type hitem = z * nat

val hitem_lt : hitem -> hitem -> bool

val heappush : hitem list -> hitem -> hitem list

val heappop : hitem list -> (hitem * hitem list) option

val heapify : hitem list -> hitem list

val first_unmatched : nat list -> matching -> nat res

val dec_free :
  nat list -> matching -> z list -> hitem list -> (z list * hitem list) res

val greedy_loop :
  nat -> graph -> matching -> z list -> hitem list -> matching res

val enum_from : nat -> 'a1 list -> (nat * 'a1) list

val total_adj : graph -> nat

val greedy_fuel : graph -> nat

val greedy_matching : graph -> matching res

type parents_t = (nat option * nat option) option list

val scan_adj :
  nat list -> nat -> nat -> matching -> parents_t -> nat list ->
  ((parents_t * nat list) * nat option) res

val bfs :
  nat -> graph -> nat -> matching -> parents_t -> nat list ->
  (parents_t * nat option) res

val build_path : nat -> parents_t -> nat -> nat -> nat list -> nat list res

val find_augmenting_path : graph -> nat -> matching -> nat list option res

val flip_augmenting_path : matching -> nat list -> matching res

val augment_loop :
  ('a1 -> bool) -> ('a1 -> (nat * 'a1) res) -> (nat -> 'a1 -> 'a1 res) -> nat
  -> graph -> matching -> 'a1 -> matching option res

val unmatched_nodes : matching -> nat list

val find_perfect_matching_with :
  (nat list -> 'a1 res) -> ('a1 -> bool) -> ('a1 -> (nat * 'a1) res) -> (nat
  -> 'a1 -> 'a1 res) -> graph -> matching option res

val find_perfect_matching : graph -> matching option res

val greedy_unmatched : graph -> nat res

type ttype =
| TAtom
| TBranch
| TRing
| TDot

type token = { t_bond : n option; t_start : nat; t_type : ttype; t_text : str }

val c_lpar : n

val c_rpar : n

val c_pct : n

val is_bond_char : n -> bool

val in_sorted_ranges : n -> (n * n) list -> bool

val isalpha_s : n -> bool

val isdigit_s : n -> bool

val isnumeric_s : n -> bool

val str_isnumeric : str -> bool

val tokenize_loop : nat -> str -> nat -> token list res

val tokenize_smiles : str -> token list res

type ebond = { e_src : nat; e_dst : nat; e_order2 : z; e_stereo : n option;
               e_ring : bool; e_attr : attrs }

type dsub = { ds_keys : nat list; ds_vals : nat list option list }

val ds_empty : dsub

val ds_is_empty : dsub -> bool

val ds_lookup : dsub -> nat -> nat list option

val arr_set : 'a1 option list -> nat -> 'a1 -> 'a1 option list

val ds_store : dsub -> nat -> nat list -> dsub

val ds_set_empty : dsub -> nat -> dsub

val ds_append : dsub -> nat -> nat -> dsub

val ds_items : dsub -> (nat * nat list) list

type emol = { m_attributable : bool; m_roots : nat list;
              m_atoms : (atom * attrs) list; m_adj : ebond option list list;
              m_counts2 : z list; m_ringflags : bool list; m_ds : dsub }

val mg_empty : bool -> emol

val mg_len : emol -> nat

val set_atoms : emol -> (atom * attrs) list -> emol

val set_adj : emol -> ebond option list list -> emol

val set_counts2 : emol -> z list -> emol

val set_ringflags : emol -> bool list -> emol

val set_ds : emol -> dsub -> emol

val lget : 'a1 list -> nat -> 'a1 res

val lupd : 'a1 list -> nat -> ('a1 -> 'a1) -> 'a1 list res

val mg_get_atom : emol -> nat -> (atom * attrs) res

val mg_get_out_dirbonds : emol -> nat -> ebond option list res

val mg_get_bond_count2 : emol -> nat -> z res

val mg_has_out_ring_bond : emol -> nat -> bool res

val mg_add_atom : emol -> atom -> bool -> emol * nat

val merge_attr : attrs -> attr list -> attrs

val mg_add_attr_atom : emol -> nat -> attr list -> emol res

val mg_get_attr : emol -> attrs -> attrs

val add_bond_at_loc :
  ebond option list -> nat option -> ebond -> ebond option list res

val mg_add_bond_at_loc : emol -> ebond -> nat option -> emol res

val mg_add_count2 : emol -> nat -> z -> emol res

val order2_aromatic : z

val mg_add_bond : emol -> nat -> nat -> z -> n option -> attrs -> emol res

val mg_add_placeholder_bond : emol -> nat -> (emol * nat) res

val mg_add_ring_bond :
  emol -> nat -> nat -> z -> n option -> n option -> nat option -> nat option
  -> emol res

val find_edge : ebond option list -> nat -> ebond option

val mg_find_dirbond : emol -> nat -> nat -> ebond option

val mg_get_dirbond : emol -> nat -> nat -> ebond res

val mg_has_bond : emol -> nat -> nat -> bool

val with_order2 : ebond -> z -> ebond

val set_edge_order2 : ebond option list -> nat -> z -> ebond option list

val mg_update_bond_order : emol -> nat -> nat -> z -> emol res

type pstate = { p_mol : emol; p_i : nat; p_tok : token option;
                p_prev : nat option list; p_branch : token list;
                p_rings : (str * ((token * nat) * nat)) list;
                p_chain_start : bool }

val attach_atom :
  emol -> token -> atom -> nat option -> nat -> ((emol * nat) * nat) res

val optN_eqb : n option -> n option -> bool

val make_ring_bonds : emol -> token -> nat -> nat -> token -> nat -> emol res

val ring_log_find :
  (str * ((token * nat) * nat)) list -> str -> ((token * nat) * nat) option

val ring_log_remove :
  (str * ((token * nat) * nat)) list -> str -> (str * ((token * nat) * nat))
  list

val atom_index : nat option -> nat res

val derive_loop : token list -> pstate -> (pstate * token list) res

val derive_mol_from_tokens :
  emol -> token list -> nat -> ((emol * nat) * token list) res

val fragments_loop : nat -> emol -> token list -> nat -> emol res

val smiles_to_mol : str -> bool -> emol res

val aromatic_valences_of : str -> z list res

val valence_electrons_of : str -> z res

val in_aromatic_valences : str -> bool

val int_of_half : z -> z

val any_eqZ : z -> z list -> bool

val last_valence : z list -> z res

val prune_from_ds : emol -> nat -> bool res

val any_bad_element : emol -> (nat * nat list) list -> bool res

val kept_nodes_of : emol -> nat list -> nat list res

val insert_sorted : nat -> nat list -> nat list

val sort_nat : nat list -> nat list

val label_table : nat -> nat -> nat -> nat list -> nat option list

val relabel : nat option list -> nat list -> nat list

val pruned_ds_of : emol -> nat option list -> nat list -> graph res

val set_single_bonds : emol -> nat -> nat list -> emol res

val clear_aromatic : atom -> atom

val dearomatize : emol -> (nat * nat list) list -> emol res

val set_double_bonds : emol -> nat list -> (nat * nat option) list -> emol res

val kekulize : emol -> emol option res

val pruned_ds : emol -> graph res

val str_of_nat : nat -> str

val ebond_to_smiles : ebond -> str res

val bond_to_selfies : ebond -> bool -> str res

val ring_bonds_to_selfies : ebond -> ebond -> str res

val atom_to_selfies : ebond option -> atom -> str res

val bond_constraint_errors :
  capfun -> emol -> (atom * attrs) list -> nat -> bool res

val check_bond_constraints : capfun -> emol -> unit res

val partition_bonds :
  ebond option list -> nat -> ((nat list * (nat * nat) list) * nat list) res

val insert_by_dst : (nat * nat) -> (nat * nat) list -> (nat * nat) list

val sort_by_dst : (nat * nat) list -> (nat * nat) list

val count_less : nat -> nat list -> nat

val inversions : nat list -> nat

val should_invert_chirality : emol -> nat -> bool res

val invert_pass :
  emol -> (atom * attrs) list -> nat -> (atom * attrs) list res

val mk_amap : nat -> str -> attrs -> amap

val maps_for : str list -> nat -> nat -> attrs -> amap list

val shift_amap : nat -> amap -> amap

val all_some : ebond option list -> ebond list res

val ring_bonds_first : ebond list -> ebond list

val out_loop :
  emol -> (ebond -> nat -> nat -> (str list * amap list) res) -> ebond list
  -> nat -> nat -> (str list * amap list) res

val fragment_walk :
  nat -> emol -> ebond option -> nat -> nat -> nat -> (str list * amap list)
  res

val fragment_to_selfies : emol -> nat -> nat -> (str list * amap list) res

val encode_roots : emol -> nat list -> nat -> (str list * amap list) res

val encode_mol : capfun -> emol -> bool -> (str * amap list) res

val encoder_c : capfun -> str -> bool -> bool -> (str * amap list) res

val encoder : table -> str -> bool -> bool -> (str * amap list) res

type mol_dump = { d_atoms : (atom * attrs) list;
                  d_adj : ((((nat * z) * n option) * bool) * attrs) option
                          list list; d_roots : nat list; d_counts2 : 
                  z list; d_ringflags : bool list;
                  d_ds : (nat * nat list) list }

val dump_mol : emol -> mol_dump

val parse_kekulize : str -> bool -> (mol_dump * mol_dump option res) res

type pyval =
| VInt of z
| VOther

type pykey =
| KStr of str
| KOther

type obj =
| ODict of (pykey * pyval) list
| OSet of str list

type objid = nat

type heap = obj list

val alloc : heap -> obj -> heap * objid

val hget : heap -> objid -> obj option

val hset : heap -> objid -> obj -> heap

val table_of_dict : (pykey * pyval) list -> table

val dict_of_table : table -> (pykey * pyval) list

type lib = { l_heap : heap; l_presets : (str * objid) list;
             l_current : objid; l_alpha_cache : objid option;
             l_cap_memo : ((str * z) * z) list; l_atom_cache : str list }

val init_lib : lib

val current_dict : lib -> (pykey * pyval) list

val current_table : lib -> table

val get_preset_constraints : lib -> str -> (lib * objid) res

val get_semantic_constraints : lib -> lib * objid

val is_ascii_digit : n -> bool

val last_sign_pos : str -> nat option

val valid_key : str -> bool

val valid_value : pyval -> bool

val validate_items : (pykey * pyval) list -> unit res

val has_key : str -> (pykey * pyval) list -> bool

type set_arg =
| ArgName of str
| ArgObj of objid
| ArgJunk

val clear_caches : lib -> heap -> objid -> lib

val set_semantic_constraints : lib -> set_arg -> lib res

val bond_prefix_orders : (str * z) list

val add_unique : str -> str list -> str list

val atom_symbols : table -> str list

val fixed_symbols : str list

val compute_alphabet : table -> str list

val get_semantic_robust_alphabet : lib -> lib * objid

val memo_find : str -> z -> ((str * z) * z) list -> z option

val cap_lookup : lib -> str -> z -> z res

type mutation =
| MSetItem of str * pyval
| MDelItem of str
| MAdd of str
| MClear

val dict_set : (pykey * pyval) list -> str -> pyval -> (pykey * pyval) list

val dict_del : (pykey * pyval) list -> str -> (pykey * pyval) list

val mutate : heap -> objid -> mutation -> heap

type setref =
| RName of str
| RHeld of nat
| RJunk

type op =
| OpNewDict of (pykey * pyval) list
| OpSet of setref
| OpGet
| OpGetPreset of str
| OpGetAlphabet
| OpMutate of nat * mutation
| OpDecode of str * bool * bool
| OpEncode of str * bool * bool

type obs =
| ObsNone
| ObsErr of exn
| ObsDict of (pykey * pyval) list
| ObsSet of str list
| ObsTrans of (str * amap list) res

type world = { w_lib : lib; w_held : objid list }

val init_world : world

val with_lib : world -> lib -> world

val hold : world -> lib -> objid -> world

val content : lib -> objid -> obs

val memo_after : lib -> (str * z) list -> ((str * z) * z) list

val pairs_of_tokens : str list -> (str * z) list

val after_translation : lib -> str list -> lib

val step : world -> op -> world * obs

val run : world -> op list -> world * obs list

val documented_index_alphabet : str list

val doc_digit : str option -> n

val doc_value : n list -> n

val body_char : n -> bool

type item = str * bool

val sym_of : str -> str

val render_item : item -> str

val tokens_item : item -> str list

val render : item list -> str

val tokens : item list -> str list

val symbols : item list -> str list

val take_body : str -> (str * str) option

val wf_parse_fuel : nat -> str -> item list option

val wf_parse : str -> item list option

val nop : str

type encoding =
| Label of z list
| OneHot of z list list
| Both of z list * z list list

val nops : nat -> str

val encode_tokens : (str * z) list -> str list -> bool -> z list res

val one_hot_row : nat -> z -> z list res

val one_hot_rows : nat -> z list -> z list list res

val selfies_to_encoding : str -> (str * z) list -> z -> str -> encoding res

val index_of_one : z list -> z -> z res

val lookup_all : (z * str) list -> z list -> str list res

val rows_to_ints : z list list -> z list res

type enc_input =
| InLabel of z list
| InOneHot of z list list

val encoding_to_selfies : enc_input -> (z * str) list -> str -> str res

val batch_selfies_to_flat_hot :
  str list -> (str * z) list -> z -> z list list res

val chunks : nat -> nat -> z list -> z list list

val batch_flat_hot_to_selfies : z list list -> (z * str) list -> str list res

type satom = { sa_elem : str; sa_arom : bool; sa_iso : n option;
               sa_chi : str option; sa_h : n option; sa_charge : z }

type nslot = { sl_to : nat; sl_order2 : z; sl_mark : n option; sl_ring : bool }

type smol = { sm_atoms : satom list; sm_nbrs : nslot list list }

val is_digit : n -> bool

val is_up : n -> bool

val is_low : n -> bool

val dval : n -> n

val take_while : (n -> bool) -> str -> str * str

val number : str -> n

val organic : str list

val aromatic_organic : str list

val aromatic_bracket : str list

val cap_first : str -> str

val read_chi : str -> str option * str

val parse_bracket : str -> satom option

type stok =
| RAtom of satom
| RBond of z * n option
| ROpen
| RClose
| RDot
| RRing of n

val split_at_rb : str -> (str * str) option

val plain : str -> bool -> satom

val lex_smiles : nat -> str -> stok list option

type rstate = { r_atoms : satom list; r_nbrs : nslot option list list;
                r_prev : nat option; r_stack : nat option list;
                r_pend : (z * n option) option;
                r_open : (n * ((nat * nat) * (z * n option) option)) list }

val set_slot : nslot option list -> nat -> nslot -> nslot option list

val lookupN : n -> (n * 'a1) list -> 'a1 option

val removeN : n -> (n * 'a1) list -> (n * 'a1) list

val default_order : satom -> satom -> z

val step0 : rstate -> stok -> rstate option

val steps : rstate -> stok list -> rstate option

val all_some0 : 'a1 option list -> 'a1 list option

val all_some_rows : 'a1 option list list -> 'a1 list list option

val last_ok : stok list -> bool

val no_double_dot : stok list -> bool

val first_ok : stok list -> bool

val read_smiles : str -> smol option

val has_dup : nat list -> bool

val simple_graph : smol -> bool

val cap_key : satom -> str

val capacity : (str * z) list -> satom -> z option

val bond_sum2 : nslot list -> z

val valence_ok : (str * z) list -> smol -> bool

val kekule_form : smol -> bool

val valid_smiles_under : (str * z) list -> str -> bool

val bond_prefixes : (string * z) list

val branch_symbols : (str * z) list

val ring_len : str -> nat

val stereo_pairs : ((string * n option) * n option) list

val ring_symbols : (str * ((z * n option) * n option)) list

val epsilon_symbol : str

val nop_symbol : str

val is_nz_digit : n -> bool

val strip_brackets : str -> str option

val read_prefix : str -> (z * n option) * str

val read_h : str -> (n option * str) option

val read_charge : str -> z option

val parse_atom_symbol : str -> ((z * n option) * satom) option

val alpha : (str * z) list -> satom -> z option

val symbol_in_grammar : (str * z) list -> str -> bool

type ringq = { q_l : nat; q_r : nat; q_order : z; q_lm : n option;
               q_rm : n option }

type dstate = { dg_atoms : (satom * z) list; dg_nbrs : nslot list list;
                dg_parent : bool list; dg_rings : ringq list }

val dg_empty : dstate

val read_Q : str list -> nat -> nat -> n * nat

val skip : str list -> nat -> nat option -> nat

val dec : nat option -> nat -> nat option

val dd :
  (str * z) list -> str list -> nat -> nat -> nat option -> z -> nat option
  -> dstate -> (nat * dstate) res

val used : nslot list -> z

val set_order2 : nslot list -> nat -> z -> nslot list

val ring_count : nslot list -> nat

val form_one : dstate -> ringq -> dstate

val fragments : str list -> str list -> str list list

val derive_all : (str * z) list -> str list list -> dstate -> dstate res

val grammar_eval : (str * z) list -> str list -> smol res

val opt_eqb : ('a1 -> 'a1 -> bool) -> 'a1 option -> 'a1 option -> bool

val satom_eqb : satom -> satom -> bool

val slot_eqb : nslot -> nslot -> bool

val list_eqb : ('a1 -> 'a1 -> bool) -> 'a1 list -> 'a1 list -> bool

val smol_eqb : smol -> smol -> bool

val atom_same : satom -> satom -> bool

val find_slot : nslot list -> nat -> nslot option

val order_ok : z -> z -> bool

val row_same : nslot list -> nslot list -> bool

val forall2b : ('a1 -> 'a2 -> bool) -> 'a1 list -> 'a2 list -> bool

val same_molecule : smol -> smol -> bool

val nbr_seq_i : nat -> satom -> nslot list -> nat option list

val onat_eqb : nat option -> nat option -> bool

val pos_of : nat option -> nat option list -> nat -> nat option

val positions : nat option list -> nat option list -> nat list option

val count_lt : nat -> nat list -> nat

val inversions0 : nat list -> nat

val perm_parity : nat option list -> nat option list -> bool option

val tag_bit : str -> bool

val chiral_same : nat -> satom -> satom -> nslot list -> nslot list -> bool

val marks_same : nslot list -> nslot list -> bool

val zip3 : 'a1 list -> 'a2 list -> 'a3 list -> (('a1 * 'a2) * 'a3) list

val same_stereo : smol -> smol -> bool

val target_valence : satom -> z option

val sigma : nslot list -> z

val aromatic_degree : nslot list -> nat

val needs_pi : satom -> nslot list -> bool option

val doubles_in_system : nslot list -> nslot list -> nat

val kekule_atom_ok : satom -> nslot list -> nslot list -> bool

val kekule_ok : smol -> smol -> bool

val all_standard : smol -> bool

val pi_graph : smol -> nat list list * bool list

val first_free : bool list -> bool list -> nat -> nat option

val has_pm_fuel : nat -> nat list list -> bool list -> bool list -> bool

val has_kekule_structure : smol -> bool

val violates : (str * z) list -> smol -> bool

val graph_has_pm : nat list list -> bool

val is_perfect_matching : nat list list -> nat option list -> bool
