(* Encoder.v — selfies/encoder.py: encoder, _check_bond_constraints,
   _should_invert_chirality, _fragment_to_selfies, _bond_to_selfies,
   _ring_bonds_to_selfies, _atom_to_selfies.   Definitions only. *)
From Coq Require Import Ascii String List Arith ZArith NArith Bool.
Import ListNotations.
From Selfies Require Import Base Generated Lex Atoms Grammar Decoder Smiles PySet Matching Kekulize.

Definition str_of_nat (n : nat) : str := str_of_N (N.of_nat n).

(* ---------- bond_to_smiles on a half-unit order ---------- *)
Definition ebond_to_smiles (b : ebond) : res str :=
  if (e_order2 b =? 2)%Z then
    Ok (match e_stereo b with Some c => if is_stereo_char c then [c] else [] | None => [] end)
  else if (e_order2 b =? 4)%Z then Ok (lit "=")
  else if (e_order2 b =? 6)%Z then Ok (lit "#")
  else Err ValueError.

(* _bond_to_selfies(bond, show_stereo) *)
Definition bond_to_selfies (b : ebond) (show_stereo : bool) : res str :=
  if negb show_stereo && (e_order2 b =? 2)%Z then Ok [] else ebond_to_smiles b.

(* _ring_bonds_to_selfies(lbond, rbond) *)
Definition ring_bonds_to_selfies (lbond rbond : ebond) : res str :=
  if negb (e_order2 lbond =? e_order2 rbond)%Z then Err AssertionError else
  let none s := match s with None => true | Some _ => false end in
  if negb (e_order2 lbond =? 2)%Z || (none (e_stereo lbond) && none (e_stereo rbond))
  then bond_to_selfies lbond false
  else
    let c s := match s with None => 45%N (* - *) | Some x => x end in
    Ok [c (e_stereo lbond); c (e_stereo rbond)].

(* _atom_to_selfies(bond, atom) *)
Definition atom_to_selfies (bond : option ebond) (a : atom) : res str :=
  if a_aromatic a then Err AssertionError else
  do bond_char <- match bond with None => Ok [] | Some b => bond_to_selfies b true end;
  do t <- atom_to_smiles a false;
  Ok (lit "[" ++ bond_char ++ t ++ lit "]").

(* ---------- _check_bond_constraints ---------- *)
(* returns whether `errors` is non-empty; atom_to_smiles(atom) is evaluated for
   every offending atom, as in the source, so that it can fail as it does there *)
Fixpoint bond_constraint_errors (capf : capfun) (m : emol) (atoms : list (atom * attrs)) (idx : nat)
  : res bool :=
  match atoms with
  | [] => Ok false
  | (a, _) :: r =>
    do cap <- bonding_capacity_c capf a;
    do c2 <- mg_get_bond_count2 m idx;
    if (2 * cap <? c2)%Z then                          (* bond_count > bond_cap *)
      do _ <- atom_to_smiles a true;
      do _ <- bond_constraint_errors capf m r (S idx);
      Ok true
    else bond_constraint_errors capf m r (S idx)
  end.

Definition check_bond_constraints (capf : capfun) (m : emol) : res unit :=
  do bad <- bond_constraint_errors capf m (m_atoms m) 0;
  if bad then Err EncoderError else Ok tt.

(* ---------- _should_invert_chirality ---------- *)
(* partition of the positions of out_bonds: (right ring numbers, left ring
   numbers with their dst, branches and other) *)
Fixpoint partition_bonds (bonds : list (option ebond)) (i : nat)
  : res (list nat * list (nat * nat) * list nat) :=
  match bonds with
  | [] => Ok ([], [], [])
  | None :: _ => Err AttributeError                     (* None.ring_bond *)
  | Some b :: r =>
    do (p0, p1, p2) <- partition_bonds r (S i);
    if negb (e_ring b) then Ok (p0, p1, i :: p2)
    else if e_src b <? e_dst b then Ok (p0, (i, e_dst b) :: p1, p2)
    else Ok (i :: p0, p1, p2)
  end.

(* list.sort(key=dst): stable insertion sort *)
Fixpoint insert_by_dst (x : nat * nat) (l : list (nat * nat)) : list (nat * nat) :=
  match l with
  | [] => [x]
  | y :: r => if snd y <=? snd x then y :: insert_by_dst x r else x :: l
  end.
Definition sort_by_dst (l : list (nat * nat)) : list (nat * nat) :=
  fold_left (fun acc x => insert_by_dst x acc) l [].

(* number of j > i with perm[i] > perm[j] *)
Fixpoint count_less (x : nat) (l : list nat) : nat :=
  match l with [] => 0 | y :: r => (if y <? x then 1 else 0) + count_less x r end.
Fixpoint inversions (perm : list nat) : nat :=
  match perm with [] => 0 | x :: r => count_less x r + inversions r end.

Definition should_invert_chirality (m : emol) (idx : nat) : res bool :=
  do out_bonds <- mg_get_out_dirbonds m idx;
  do (p0, p1, p2) <- partition_bonds out_bonds 0;
  let perm := p0 ++ map fst (sort_by_dst p1) ++ p2 in
  Ok (Nat.odd (inversions perm)).

(* the chirality pass of encoder(): atoms are visited in index order *)
Fixpoint invert_pass (m : emol) (atoms : list (atom * attrs)) (idx : nat)
  : res (list (atom * attrs)) :=
  match atoms with
  | [] => Ok []
  | (a, at_) :: r =>
    do a' <- match a_chirality a with
             | None => Ok a
             | Some _ =>
                 do flag <- mg_has_out_ring_bond m idx;
                 if flag then
                   do inv <- should_invert_chirality m idx;
                   Ok (if inv then invert_chirality a else a)
                 else Ok a
             end;
    do rest <- invert_pass m r (S idx);
    Ok ((a', at_) :: rest)
  end.

(* ---------- _fragment_to_selfies ---------- *)
Definition mk_amap (index : nat) (token : str) (at_ : attrs) : amap :=
  {| am_index := Z.of_nat index; am_token := token; am_attr := at_ |}.

(* maps for tokens appended one after the other starting at list position [pos]:
   AttributionMap(len(derived) - 1 + attribution_index, token, at_) *)
Fixpoint maps_for (toks : list str) (pos aidx : nat) (at_ : attrs) : list amap :=
  match toks with
  | [] => []
  | t :: r => mk_amap (pos + aidx) t at_ :: maps_for r (S pos) aidx at_
  end.

(* attribution_maps[j].index += d *)
Definition shift_amap (d : nat) (a : amap) : amap :=
  {| am_index := (am_index a + Z.of_nat d)%Z; am_token := am_token a; am_attr := am_attr a |}.

(* out_bonds = [b for b in out_bonds if b.ring_bond] + [b for b in out_bonds if not b.ring_bond] *)
Fixpoint all_some (l : list (option ebond)) : res (list ebond) :=
  match l with
  | [] => Ok []
  | None :: _ => Err AttributeError
  | Some b :: r => do t <- all_some r; Ok (b :: t)
  end.
Definition ring_bonds_first (l : list ebond) : list ebond :=
  filter e_ring l ++ filter (fun b => negb (e_ring b)) l.

Section Fragment.
Variable m : emol.

(* What the walk does with a non-ring bond: [walk b aidx off] derives the atom
   b.dst (entered through b) and everything after it, as the continuation of a
   `derived` list that already holds [off] tokens, in a frame whose
   attribution_index is [aidx].  It returns the tokens appended and the
   attribution maps appended, in order. *)
Variable walk : ebond -> nat -> nat -> res (list str * list amap).

(* the `for i, bond in enumerate(out_bonds)` loop; [off] = len(derived) on entry *)
Fixpoint out_loop (bonds : list ebond) (aidx off : nat) : res (list str * list amap) :=
  match bonds with
  | [] => Ok ([], [])
  | b :: rest =>
    if e_ring b then
      if e_src b <? e_dst b then out_loop rest aidx off           (* continue *)
      else
        do rev_bond <- mg_get_dirbond m (e_dst b) (e_src b);
        do Q <- get_selfies_from_index (Z.of_nat (e_src b - e_dst b) - 1);
        do rs <- ring_bonds_to_selfies rev_bond b;
        let ring_symbol := lit "[" ++ rs ++ lit "Ring" ++ str_of_nat (length Q) ++ lit "]" in
        let toks := ring_symbol :: Q in
        let maps := maps_for toks off aidx (mg_get_attr m (e_attr b)) in
        do (ts, ms) <- out_loop rest aidx (off + length toks);
        Ok (toks ++ ts, maps ++ ms)
    else
      match rest with
      | [] =>                                                      (* i == len(out_bonds) - 1 *)
          walk b aidx off                                          (* the while loop goes on with bond.dst *)
      | _ :: _ =>
          (* branch = _fragment_to_selfies(mol, bond, bond.dst, attribution_maps, len(derived)) *)
          do (branch, bmaps) <- walk b off 0;
          do Q <- get_selfies_from_index (Z.of_nat (length branch) - 1);
          do bs <- bond_to_selfies b false;
          let branch_symbol := lit "[" ++ bs ++ lit "Branch" ++ str_of_nat (length Q) ++ lit "]" in
          let at_ := mg_get_attr m (e_attr b) in
          (* derived: branch_symbol, then Q (each with a map), then the shift of the
             branch's maps, then the map of branch_symbol, whose index is computed
             when len(derived) = off + 1 + len(Q) *)
          let qmaps := maps_for Q (S off) aidx at_ in
          let shifted := map (shift_amap (S (length Q))) bmaps in
          let bmap := mk_amap (off + length Q + aidx) branch_symbol at_ in
          do (ts, ms) <- out_loop rest aidx (off + 1 + length Q + length branch);
          Ok (branch_symbol :: Q ++ branch ++ ts, shifted ++ qmaps ++ bmap :: ms)
      end
  end.
End Fragment.

(* one round of the `while True` loop for atom [curr], then the rest of the
   walk.  fuel: one unit per atom entered along a path from the root; tree bonds
   lead to atoms of larger index, so fuel = number of atoms + 1 never runs out. *)
Fixpoint fragment_walk (fuel : nat) (m : emol) (bond_into_curr : option ebond) (curr : nat)
         (aidx off : nat) : res (list str * list amap) :=
  match fuel with O => Err OutOfFuel | S f =>
  do aa <- mg_get_atom m curr;
  do token <- atom_to_selfies bond_into_curr (fst aa);
  let amap0 := mk_amap (off + aidx) token (mg_get_attr m (snd aa)) in
  do raw <- mg_get_out_dirbonds m curr;
  do bonds <- all_some raw;
  do (ts, ms) <- out_loop m (fun b ai o => fragment_walk f m (Some b) (e_dst b) ai o)
                           (ring_bonds_first bonds) aidx (S off);
  Ok (token :: ts, amap0 :: ms)
  end.

(* _fragment_to_selfies(mol, None, root, attribution_maps, attribution_index) *)
Definition fragment_to_selfies (m : emol) (root : nat) (aidx : nat) : res (list str * list amap) :=
  fragment_walk (S (mg_len m)) m None root aidx 0.

(* the loop over mol.get_roots() *)
Fixpoint encode_roots (m : emol) (roots : list nat) (aidx : nat) : res (list str * list amap) :=
  match roots with
  | [] => Ok ([], [])
  | root :: r =>
    do (derived, maps) <- fragment_to_selfies m root aidx;
    do (frags, maps') <- encode_roots m r (aidx + length derived);
    Ok (concat derived :: frags, maps ++ maps')
  end.

(* the part of encoder() after parsing *)
Definition encode_mol (capf : capfun) (m0 : emol) (strict : bool) : res (str * list amap) :=
  do k <- kekulize m0;
  match k with
  | None => Err EncoderError                                  (* kekulization failed *)
  | Some m1 =>
    do _ <- (if strict then check_bond_constraints capf m1 else Ok tt);
    do atoms' <- invert_pass m1 (m_atoms m1) 0;
    let m2 := set_atoms m1 atoms' in
    do (frags, maps) <- encode_roots m2 (m_roots m2) 0;
    (* trim attribution map of empty tokens *)
    let maps := filter (fun a => match am_token a with [] => false | _ => true end) maps in
    Ok (join (lit ".") frags, maps)
  end.

(* encoder(smiles, strict, attribute): the attribution maps are returned in
   both cases (with attribute = false every attribution is None and the source
   drops the list) *)
Definition encoder_c (capf : capfun) (smiles : str) (strict attribute : bool) : res (str * list amap) :=
  match smiles_to_mol smiles attribute with
  | Err SMILESParserError => Err EncoderError                 (* except SMILESParserError *)
  | Err e => Err e
  | Ok m0 => encode_mol capf m0 strict
  end.
Definition encoder (T : table) := encoder_c (get_bonding_capacity T).

(* ---------- dumps for direct comparison with the library's internals ---------- *)
Record mol_dump := {
  d_atoms : list (atom * attrs);
  d_adj : list (list (option (nat * Z * option N * bool * attrs)));
  d_roots : list nat;
  d_counts2 : list Z;
  d_ringflags : list bool;
  d_ds : list (nat * list nat)
}.

Definition dump_mol (m : emol) : mol_dump :=
  {| d_atoms := m_atoms m;
     d_adj := map (map (fun s => match s with
                                 | None => None
                                 | Some e => Some (e_dst e, e_order2 e, e_stereo e, e_ring e,
                                                   mg_get_attr m (e_attr e))
                                 end)) (m_adj m);
     d_roots := m_roots m; d_counts2 := m_counts2 m; d_ringflags := m_ringflags m;
     d_ds := ds_items (m_ds m) |}.

(* smiles_to_mol(smiles, attributable=True) and then mol.kekulize():
   (dump before, Some dump after | None when kekulize() returned False) *)
Definition parse_kekulize (smiles : str) (attributable : bool)
  : res (mol_dump * res (option mol_dump)) :=
  do m <- smiles_to_mol smiles attributable;
  Ok (dump_mol m, match kekulize m with
                  | Ok (Some m') => Ok (Some (dump_mol m'))
                  | Ok None => Ok None
                  | Err e => Err e
                  end).
