(* Conc.v — the cache protocol under interleaving (C19).  Definitions only.
   Shared between threads during translation (see Generated.shared_state): two
   kinds of memo tables over a PURE function F of the key —
     TCall   : a functools.lru_cache call  (atomic get-or-compute-and-store;
               get_bonding_capacity, Atom.bonding_capacity)
     TCached : the dict idiom of process_atom_symbol (dict get; on a miss
               compute, then dict set: two separate atomic steps, another
               thread may run in between)
   Everything else a translation touches is created inside the call. *)
From Coq Require Import List Arith Bool.
Import ListNotations.

Section Conc.
Variables key val res : Type.
Variable key_eqb : key -> key -> bool.
Variable F : key -> val.                       (* the pure function being memoised *)

Inductive tprog :=
| TRet (r : res)
| TCall (k : key) (c : val -> tprog)
| TCached (k : key) (c : val -> tprog).

Inductive tstate :=
| Running (p : tprog)
| AfterMiss (k : key) (c : val -> tprog).      (* dict get missed; next step: store F k and continue *)

Definition memo := list (key * val).

Fixpoint lookup (m : memo) (k : key) : option val :=
  match m with [] => None | (k', v) :: r => if key_eqb k k' then Some v else lookup r k end.

(* what a call computes when it runs alone *)
Fixpoint run_pure (p : tprog) : res :=
  match p with
  | TRet r => r
  | TCall k c => run_pure (c (F k))
  | TCached k c => run_pure (c (F k))
  end.

Definition pure_of (s : tstate) : res :=
  match s with Running p => run_pure p | AfterMiss k c => run_pure (c (F k)) end.

(* one atomic step of one thread on the shared memo *)
Definition tstep (m : memo) (s : tstate) : memo * tstate :=
  match s with
  | Running (TRet r) => (m, s)
  | Running (TCall k c) =>
      match lookup m k with
      | Some v => (m, Running (c v))
      | None => ((k, F k) :: m, Running (c (F k)))
      end
  | Running (TCached k c) =>
      match lookup m k with
      | Some v => (m, Running (c v))
      | None => (m, AfterMiss k c)
      end
  | AfterMiss k c => ((k, F k) :: m, Running (c (F k)))
  end.

(* scheduler events: thread i takes a step, or the cache evicts an arbitrary set of entries *)
Inductive event := Step (i : nat) | Evict (keep : list bool).

Fixpoint filter_by {A} (l : list A) (keep : list bool) : list A :=
  match l, keep with
  | x :: r, b :: kr => if b then x :: filter_by r kr else filter_by r kr
  | _, _ => []
  end.

Definition set_nth {A} (l : list A) (i : nat) (x : A) : list A :=
  (fix go (l : list A) (i : nat) := match l, i with
                                    | [], _ => []
                                    | _ :: r, O => x :: r
                                    | y :: r, S j => y :: go r j end) l i.

Definition sched_step (st : memo * list tstate) (e : event) : memo * list tstate :=
  let '(m, ts) := st in
  match e with
  | Step i => match nth_error ts i with
              | Some s => let '(m', s') := tstep m s in (m', set_nth ts i s')
              | None => st
              end
  | Evict keep => (filter_by m keep, ts)
  end.

Definition run_schedule (m : memo) (ts : list tstate) (es : list event) : memo * list tstate :=
  fold_left sched_step es (m, ts).
End Conc.
