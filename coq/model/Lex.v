(* Lex.v — selfies/utils/selfies_utils.py: split_selfies, len_selfies,
   get_alphabet_from_selfies.  Definitions only. *)
From Coq Require Import Ascii String List Arith NArith Bool.
Import ListNotations.
From Selfies Require Import Base.

Definition c_lb : N := 91.  (* [ *)
Definition c_rb : N := 93.  (* ] *)
Definition c_dot : N := 46. (* . *)
Definition dot_tok : str := [c_dot].

(* split_selfies is a generator: it yields tokens and may then raise ValueError
   (hanging bracket).  Model: (tokens yielded, raised_at_end).
   Character automaton equivalent to the index loop of the source:
     LSkip  – before the first '[' (selfies.find("["))
     LStart – at left_idx: whatever character is here starts a symbol
     LIn a  – inside a symbol, looking for the next ']' (from left_idx+1) *)
Inductive lst := LSkip | LStart | LIn (acc : str).

Fixpoint lex (st : lst) (s : str) : list str * bool :=
  match s with
  | [] => match st with LIn _ => ([], true) | _ => ([], false) end
  | c :: r =>
    match st with
    | LSkip => if N.eqb c c_lb then lex (LIn [c]) r else lex LSkip r
    | LStart => lex (LIn [c]) r
    | LIn acc =>
        if N.eqb c c_rb then
          let sym := rev (c :: acc) in
          match r with
          | d :: r2 =>
              if N.eqb d c_dot
              then let '(ts, bad) := lex LStart r2 in (sym :: dot_tok :: ts, bad)
              else let '(ts, bad) := lex LStart r in (sym :: ts, bad)
          | [] => ([sym], false)
          end
        else lex (LIn (c :: acc)) r
    end
  end.

Definition split_selfies (s : str) : list str * bool := lex LSkip s.

(* list(split_selfies(s)) as a caller sees it *)
Definition split_selfies_list (s : str) : res (list str) :=
  let '(ts, bad) := split_selfies s in if bad then Err ValueError else Ok ts.

Definition len_selfies (s : str) : nat := count_char c_lb s + count_char c_dot s.

Definition add_set (x : str) (l : list str) : list str :=
  if mem_str x l then l else l ++ [x].

(* returns the set as a duplicate-free list (order = first occurrence; the
   harness compares as sets) *)
Fixpoint alphabet_from (ss : list str) (acc : list str) : res (list str) :=
  match ss with
  | [] => Ok (filter (fun x => negb (str_eqb x dot_tok)) acc)
  | s :: r =>
      let '(ts, bad) := split_selfies s in
      let acc' := fold_left (fun a t => add_set t a) ts acc in
      if bad then Err ValueError else alphabet_from r acc'
  end.
Definition get_alphabet_from_selfies (ss : list str) : res (list str) := alphabet_from ss [].
