(* History.v — call histories against the library (C11, C12, C19).
   A world = the library state + the objects the caller holds (by position in
   its own list).  Every operation yields an observation.  Definitions only. *)
From Coq Require Import Ascii String List Arith ZArith NArith Bool.
Import ListNotations.
From Selfies Require Import Base Generated Atoms Grammar Decoder Encoder Config.

Inductive setref :=
| RName (name : str)          (* set_semantic_constraints("...") *)
| RHeld (k : nat)             (* set_semantic_constraints(<k-th object the caller holds>) *)
| RJunk.                      (* set_semantic_constraints(None / 3 / [...]) *)

Inductive op :=
| OpNewDict (d : list (pykey * pyval))      (* caller builds a dict *)
| OpSet (r : setref)
| OpGet                                      (* get_semantic_constraints() *)
| OpGetPreset (name : str)
| OpGetAlphabet
| OpMutate (k : nat) (m : mutation)          (* caller mutates the k-th object it holds *)
| OpDecode (x : str) (compat attr : bool)
| OpEncode (s : str) (strict attr : bool).

Inductive obs :=
| ObsNone                                    (* returned None *)
| ObsErr (e : exn)
| ObsDict (d : list (pykey * pyval))         (* content of the returned dict *)
| ObsSet (s : list str)
| ObsTrans (r : res (str * list amap)).      (* translation result *)

Record world := { w_lib : lib; w_held : list objid }.

Definition init_world : world := {| w_lib := init_lib; w_held := [] |}.

Definition with_lib (w : world) (st : lib) : world := {| w_lib := st; w_held := w_held w |}.
Definition hold (w : world) (st : lib) (o : objid) : world := {| w_lib := st; w_held := w_held w ++ [o] |}.

Definition content (st : lib) (o : objid) : obs :=
  match hget (l_heap st) o with
  | Some (ODict d) => ObsDict d
  | Some (OSet s) => ObsSet s
  | None => ObsNone
  end.

(* symbols a translation call may put into the atom-symbol cache / pairs into the
   capacity memo: over-approximated by "every atom symbol of the input"; only
   coherence of what is stored matters (C11) *)
Definition memo_after (st : lib) (pairs : list (str * Z)) : list (str * Z * Z) :=
  fold_left (fun m '(e, c) =>
     match memo_find e c m with
     | Some _ => m
     | None => match get_bonding_capacity (current_table st) e c with
               | Ok v => m ++ [(e, c, v)]
               | Err _ => m
               end
     end) pairs (l_cap_memo st).

Definition pairs_of_tokens (ts : list str) : list (str * Z) :=
  flat_map (fun t => match process_atom_nocache t with
                     | Ok (Some (_, _, a)) => [(a_element a, a_charge a)]
                     | _ => [] end) ts.

Definition after_translation (st : lib) (ts : list str) : lib :=
  {| l_heap := l_heap st; l_presets := l_presets st; l_current := l_current st;
     l_alpha_cache := l_alpha_cache st;
     l_cap_memo := memo_after st (pairs_of_tokens ts);
     l_atom_cache := fold_left (fun acc t => match process_atom_nocache t with
                                             | Ok (Some _) => add_unique t acc
                                             | _ => acc end) ts (l_atom_cache st) |}.

Definition step (w : world) (o : op) : world * obs :=
  let st := w_lib w in
  match o with
  | OpNewDict d =>
      let '(h, i) := alloc (l_heap st) (ODict d) in
      (hold w {| l_heap := h; l_presets := l_presets st; l_current := l_current st;
                 l_alpha_cache := l_alpha_cache st; l_cap_memo := l_cap_memo st;
                 l_atom_cache := l_atom_cache st |} i, ObsNone)
  | OpSet r =>
      let a := match r with
               | RName n => Some (ArgName n)
               | RHeld k => match nth_error (w_held w) k with Some i => Some (ArgObj i) | None => None end
               | RJunk => Some ArgJunk end in
      match a with
      | None => (w, ObsNone)                     (* no such held object: not a call *)
      | Some a =>
        match set_semantic_constraints st a with
        | Ok st' => (with_lib w st', ObsNone)
        | Err e => (w, ObsErr e)                 (* the library state is what it was *)
        end
      end
  | OpGet =>
      let '(st', i) := get_semantic_constraints st in (hold w st' i, content st' i)
  | OpGetPreset name =>
      match get_preset_constraints st name with
      | Ok (st', i) => (hold w st' i, content st' i)
      | Err e => (w, ObsErr e)
      end
  | OpGetAlphabet =>
      let '(st', i) := get_semantic_robust_alphabet st in (hold w st' i, content st' i)
  | OpMutate k m =>
      match nth_error (w_held w) k with
      | Some i => (with_lib w {| l_heap := mutate (l_heap st) i m; l_presets := l_presets st;
                                 l_current := l_current st; l_alpha_cache := l_alpha_cache st;
                                 l_cap_memo := l_cap_memo st; l_atom_cache := l_atom_cache st |}, ObsNone)
      | None => (w, ObsNone)
      end
  | OpDecode x compat attr =>
      let r := decoder_c (cap_lookup st) x compat attr in
      let ts := flat_map (fun f => fst f) (tokenize_all x compat) in
      (with_lib w (after_translation st ts), ObsTrans r)
  | OpEncode s strict attr =>
      let r := encoder_c (cap_lookup st) s strict attr in
      (w, ObsTrans r)
  end.

Fixpoint run (w : world) (ops : list op) : world * list obs :=
  match ops with
  | [] => (w, [])
  | o :: r => let '(w1, ob) := step w o in
              let '(w2, obs) := run w1 r in (w2, ob :: obs)
  end.
