(* Compat.v — compatibility.py: modernize_symbol.  Definitions only. *)
From Coq Require Import Ascii String List Arith ZArith NArith Bool.
Import ListNotations.
From Selfies Require Import Base Generated Atoms.

Definition modernize_symbol (symbol : str) : res str :=
  match assoc symbol symbol_update_table with
  | Some s => Ok s
  | None =>
    if str_eqb (suffix symbol 5) (lit "expl]") then
      match nth_error symbol 1 with
      | None => Err IndexError
      | Some c1 =>
        let n := length symbol in
        let '(bond, atom_symbol) :=
          if is_bond_prefix c1 then ([c1], slice symbol 2 (n - 5)) else ([], slice symbol 1 (n - 5)) in
        do oa <- smiles_to_atom (lit "[" ++ atom_symbol ++ lit "]");
        match oa with
        | Some a =>
            if a_aromatic a then Ok symbol else
            do t <- atom_to_smiles a false;
            Ok (lit "[" ++ bond ++ t ++ lit "]")
        | None => Ok symbol
        end
      end
    else Ok symbol
  end.
