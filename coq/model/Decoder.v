(* Decoder.v — decoder.py + the MolecularGraph operations it uses + the SMILES
   writer (smiles_utils.mol_to_smiles).  Definitions only. *)
From Coq Require Import Ascii String List Arith ZArith NArith Bool.
Import ListNotations.
From Selfies Require Import Base Generated Lex Atoms Grammar Compat.

(* ---------- attribution values ---------- *)
Definition attr := (nat * str)%type.                 (* Attribution(index, token) *)
Definition attrs := option (list attr).              (* None when not attributable *)
Record amap := { am_index : Z; am_token : str; am_attr : attrs }.   (* AttributionMap *)

(* ---------- molecular graph as the decoder builds it ---------- *)
Record dbond := { b_src : nat; b_dst : nat; b_order : Z; b_stereo : option N;
                  b_ring : bool; b_attr : attrs }.
Record dmol := {
  atoms : list (atom * Z * attrs);   (* atom, its bonding capacity, attribution *)
  roots : list nat;
  adj : list (list dbond);
  counts : list Z
}.
Definition empty_mol := {| atoms := []; roots := []; adj := []; counts := [] |}.

Definition get_count (m : dmol) (i : nat) : res Z :=
  match nth_error (counts m) i with Some c => Ok c | None => Err IndexError end.
Definition get_cap (m : dmol) (i : nat) : res Z :=
  match nth_error (atoms m) i with Some (_, c, _) => Ok c | None => Err IndexError end.

Definition add_atom (m : dmol) (a : atom) (cap : Z) (at_ : attrs) (root : bool) : dmol * nat :=
  let i := length (atoms m) in
  ({| atoms := atoms m ++ [(a, cap, at_)]; roots := if root then roots m ++ [i] else roots m;
      adj := adj m ++ [[]]; counts := counts m ++ [0%Z] |}, i).

Definition add_bond (m : dmol) (src dst : nat) (order : Z) (st : option N) (at_ : attrs) : res dmol :=
  if negb (src <? dst) then Err AssertionError else
  if negb ((src <? length (adj m)) && (dst <? length (counts m))) then Err IndexError else
  let b := {| b_src := src; b_dst := dst; b_order := order; b_stereo := st; b_ring := false; b_attr := at_ |} in
  Ok {| atoms := atoms m; roots := roots m;
        adj := upd (adj m) src (fun l => l ++ [b]);
        counts := upd (upd (counts m) src (fun c => (c + order)%Z)) dst (fun c => (c + order)%Z) |}.

Definition find_bond (m : dmol) (a b : nat) : option dbond :=
  find (fun e => Nat.eqb (b_dst e) b) (nth a (adj m) []).

(* has_bond: key (min,max) in _bond_dict; tree bonds live under (src,dst), src<dst *)
Definition has_bond (m : dmol) (a b : nat) : bool :=
  match find_bond m (Nat.min a b) (Nat.max a b) with Some _ => true | None => false end.

(* _add_bond_at_loc without placeholders *)
Definition add_at_loc (l : list dbond) (pos : nat) (b : dbond) : res (list dbond) :=
  if pos =? length l then Ok (l ++ [b])
  else if pos <? length l then Ok (insert_at l pos b)
  else Err IndexError.

Definition add_ring_bond (m : dmol) (a b : nat) (order : Z) (sa sb : option N) (apos bpos : nat) : res dmol :=
  let ba := {| b_src := a; b_dst := b; b_order := order; b_stereo := sa; b_ring := true; b_attr := None |} in
  let bb := {| b_src := b; b_dst := a; b_order := order; b_stereo := sb; b_ring := true; b_attr := None |} in
  match nth_error (adj m) a with None => Err IndexError | Some la =>
  do la' <- add_at_loc la apos ba;
  let adj1 := upd (adj m) a (fun _ => la') in
  match nth_error adj1 b with None => Err IndexError | Some lb =>
  do lb' <- add_at_loc lb bpos bb;
  Ok {| atoms := atoms m; roots := roots m;
        adj := upd adj1 b (fun _ => lb');
        counts := upd (upd (counts m) a (fun c => (c + order)%Z)) b (fun c => (c + order)%Z) |}
  end end.

Definition set_order (l : list dbond) (dst : nat) (new : Z) : list dbond :=
  map (fun e => if Nat.eqb (b_dst e) dst
                then {| b_src := b_src e; b_dst := b_dst e; b_order := new; b_stereo := b_stereo e;
                        b_ring := b_ring e; b_attr := b_attr e |}
                else e) l.

(* update_bond_order(a, b, new) *)
Definition update_bond_order (m : dmol) (a b : nat) (new : Z) : res dmol :=
  if negb ((1 <=? new)%Z && (new <=? 3)%Z) then Err AssertionError else
  let lo := Nat.min a b in let hi := Nat.max a b in
  match find_bond m lo hi with
  | None => Err KeyError
  | Some e =>
    if (new =? b_order e)%Z then Ok m else
    let old := b_order e in
    let adj1 := upd (adj m) lo (fun l => set_order l hi new) in
    do adj2 <- (if b_ring e then
                  match find_bond m hi lo with
                  | None => Err KeyError
                  | Some _ => Ok (upd adj1 hi (fun l => set_order l lo new))
                  end
                else Ok adj1);
    Ok {| atoms := atoms m; roots := roots m; adj := adj2;
          counts := upd (upd (counts m) lo (fun c => (c + (new - old))%Z)) hi (fun c => (c + (new - old))%Z) |}
  end.

(* ---------- token stream ---------- *)
(* _tokenize_selfies(fragment, compatible): tokens actually yielded and whether
   the generator then raises (hanging bracket, or ValueError inside
   modernize_symbol, both surfacing as DecoderError; anything else as itself) *)
Fixpoint modernize_all (ts : list str) (bad : option exn) : list str * option exn :=
  match ts with
  | [] => ([], bad)
  | t :: r => match modernize_symbol t with
              | Ok t' => let '(ts', b) := modernize_all r bad in (t' :: ts', b)
              | Err ValueError => ([], Some DecoderError)   (* except ValueError -> DecoderError *)
              | Err e => ([], Some e)
              end
  end.

Definition nop_sym : str := lit "[nop]".

Definition tokenize_selfies (frag : str) (compat : bool) : list str * option exn :=
  let '(ts, bad0) := split_selfies frag in
  let bad := if bad0 then Some DecoderError else None in
  let ts := filter (fun t => negb (str_eqb t nop_sym)) ts in
  if compat then modernize_all ts bad else (ts, bad).

Fixpoint enumerate_from {A} (i : nat) (l : list A) : list (nat * A) :=
  match l with [] => [] | x :: r => (i, x) :: enumerate_from (S i) r end.

Definition toks := list (nat * str).

(* ---------- derivation ---------- *)
Inductive prev_atom := PNone | PGhost | PAtom (i : nat).
(* PGhost: an Atom object that was never added to the graph (index None) *)

Record ringreq := { r_l : nat; r_r : nat; r_order : Z; r_ls : option N; r_rs : option N }.

(* _read_index_from_selfies: n symbols, missing ones are None *)
Definition raise_or {A} (bad : option exn) (k : res A) : res A :=
  match bad with Some e => Err e | None => k end.

(* result: index symbols (missing = None), remaining tokens, number actually read *)
Fixpoint read_index (n : nat) (ts : toks) (bad : option exn) (acc : list (option str)) (nread : nat)
  : res (list (option str) * toks * nat) :=
  match n with
  | O => Ok (rev acc, ts, nread)
  | S k => match ts with
           | (_, s) :: r => read_index k r bad (Some s :: acc) (S nread)
           | [] => raise_or bad (read_index k [] bad (None :: acc) nread)
           end
  end.

(* the trailing "consume remaining tokens" loop *)
Definition drain (ts : toks) (bad : option exn) (maxd : option nat) (nd : nat) : res (toks * nat) :=
  match maxd with
  | Some mx =>
      let k := mx - nd in
      if k <=? length ts then Ok (skipn k ts, nd + k)
      else raise_or bad (Ok ([], nd + length ts))
  | None => raise_or bad (Ok ([], nd + length ts))
  end.

Definition below (nd : nat) (maxd : option nat) : bool :=
  match maxd with None => true | Some mx => nd <? mx end.

Definition push_attr (st : attrs) (a : attr) : attrs :=
  match st with Some l => Some (l ++ [a]) | None => None end.

Definition is_branch_like (s : str) : bool := str_eqb (slice_neg s 4 2) (lit "ch").
Definition is_ring_like (s : str) : bool := str_eqb (slice_neg s 4 2) (lit "ng").
Definition is_eps_like (s : str) : bool := str_eqb s (lit "[epsilon]").   (* symbol == "[epsilon]" *)

Section Derive.
Variable capf : capfun.
Variable bad : option exn.    (* what the token generator raises once exhausted, if anything *)
Variable aidx : nat.          (* attribution_index of this fragment *)

(* result: remaining tokens, graph, ring queue, n_derived *)
Fixpoint derive_c (fuel : nat) (ts : toks) (m : dmol) (maxd : option nat) (state : Z)
         (prev : prev_atom) (rings : list ringreq) (astack : attrs) (nd : nat)
  : res (toks * dmol * list ringreq * nat) :=
  match fuel with O => Err OutOfFuel | S f =>
  let finish ts m rings nd :=
    do (ts', nd') <- drain ts bad maxd nd; Ok (ts', m, rings, nd') in
  let continue ts m nstate prev rings nd :=
    match nstate with
    | None => finish ts m rings nd
    | Some st => derive_c f ts m maxd st prev rings astack nd
    end in
  if negb (below nd maxd) then finish ts m rings nd else
  match ts with
  | [] => raise_or bad (finish ts m rings nd)
  | (idx, sym) :: rest =>
    let nd := S nd in
    if is_branch_like sym then
      match process_branch_symbol sym with
      | None => Err DecoderError
      | Some (btype, n) =>
        if (state <=? 1)%Z then continue rest m (Some state) prev rings nd
        else
          if negb (next_branch_state_pre btype state) then Err AssertionError else
          let '(binit, nstate) := next_branch_state btype state in
          do (syms, rest2, nread) <- read_index n rest bad [] 0;
          let Q := N.to_nat (get_index_from_selfies syms) in
          do (rest3, m2, rings2, nsub) <-
             derive_c f rest2 m (Some (Q + 1)) binit prev rings
                    (push_attr astack (idx + aidx, sym)) 0;
          continue rest3 m2 (Some nstate) prev rings2 (nd + (nread + nsub))
      end
    else if is_ring_like sym then
      match process_ring_symbol sym with
      | None => Err DecoderError
      | Some (rtype, n, (ls, rs)) =>
        if (state =? 0)%Z then continue rest m (Some state) prev rings nd
        else
          if negb (next_ring_state_pre rtype state) then Err AssertionError else
          let '(rorder, nstate) := next_ring_state rtype state in
          do (syms, rest2, nread) <- read_index n rest bad [] 0;
          let Q := N.to_nat (get_index_from_selfies syms) in
          match prev with
          | PNone => Err AttributeError
          | PGhost => Err TypeError
          | PAtom p =>
              let lidx := p - (Q + 1) in
              if negb (lidx <? length (atoms m)) then Err IndexError else
              let rq := {| r_l := lidx; r_r := p; r_order := rorder; r_ls := ls; r_rs := rs |} in
              continue rest2 m nstate prev (rings ++ [rq]) (nd + nread)
          end
      end
    else if is_eps_like sym then
      continue rest m (if (state =? 0)%Z then Some 0%Z else None) prev rings nd
    else
      do o <- process_atom_symbol_c capf sym;
      match o with
      | None => Err DecoderError
      | Some (border, stereo, a, cap) =>
        let '(mu, nstate) := next_atom_state border cap state in
        let at_ := push_attr astack (idx + aidx, sym) in
        if (mu =? 0)%Z then
          if (state =? 0)%Z then
            let '(m2, i) := add_atom m a cap at_ true in
            continue rest m2 nstate (PAtom i) rings nd
          else continue rest m nstate PGhost rings nd
        else
          let '(m2, i) := add_atom m a cap at_ false in
          match prev with
          | PNone => Err AttributeError
          | PGhost => Err TypeError          (* assert None < int *)
          | PAtom p =>
              do m3 <- add_bond m2 p i mu stereo at_;
              continue rest m3 nstate (PAtom i) rings nd
          end
      end
  end end.
End Derive.
Definition derive (T : table) := derive_c (get_bonding_capacity T).

(* ---------- _form_rings_bilocally ---------- *)
Definition form_ring (st : res (dmol * list nat)) (r : ringreq) : res (dmol * list nat) :=
  do (m, made) <- st;
  let l := r_l r in let rr := r_r r in
  if Nat.eqb l rr then Ok (m, made) else
  do lc <- get_cap m l; do lcnt <- get_count m l;
  do rc <- get_cap m rr; do rcnt <- get_count m rr;
  let lfree := (lc - lcnt)%Z in let rfree := (rc - rcnt)%Z in
  if ((lfree <=? 0) || (rfree <=? 0))%Z then Ok (m, made) else
  let order := Z.min (Z.min (r_order r) lfree) rfree in
  if has_bond m l rr then
    match find_bond m l rr with
    | None => Err KeyError
    | Some e => let new := Z.min (order + b_order e) 3 in
                do m' <- update_bond_order m l rr new; Ok (m', made)
    end
  else
    match nth_error made l, nth_error made rr with
    | Some pl, Some pr =>
        do m' <- add_ring_bond m l rr order (r_ls r) (r_rs r) pl pr;
        Ok (m', upd (upd made l S) rr S)
    | _, _ => Err IndexError
    end.

Definition form_rings (m : dmol) (rings : list ringreq) : res dmol :=
  do (m', _) <- fold_left form_ring rings (Ok (m, repeat 0 (length (atoms m))));
  Ok m'.

(* ---------- writer: mol_to_smiles ---------- *)
Inductive wkind := WAtom | WBond | WPunct.
Record wev := { w_kind : wkind; w_tok : str; w_attr : attrs }.

Definition pair_eqb (a b : nat * nat) : bool := Nat.eqb (fst a) (fst b) && Nat.eqb (snd a) (snd b).

(* ring_log.setdefault(ends, len(ring_log)+1) *)
Definition ring_label (log : list (nat * nat)) (a b : nat) : list (nat * nat) * nat :=
  let key := (Nat.min a b, Nat.max a b) in
  let fix go (l : list (nat * nat)) (i : nat) : option nat :=
    match l with [] => None | k :: r => if pair_eqb k key then Some i else go r (S i) end in
  match go log 1 with Some i => (log, i) | None => (log ++ [key], S (length log)) end.

Definition label_events (n : nat) : list wev :=
  (if 10 <=? n then [{| w_kind := WPunct; w_tok := lit "%"; w_attr := None |}] else [])
  ++ [{| w_kind := WPunct; w_tok := str_of_N (N.of_nat n); w_attr := None |}].

Definition punct (s : string) : wev := {| w_kind := WPunct; w_tok := lit s; w_attr := None |}.

Fixpoint write_atom (fuel : nat) (m : dmol) (curr : nat) (log : list (nat * nat))
  : res (list wev * list (nat * nat)) :=
  match fuel with O => Err OutOfFuel | S f =>
  match nth_error (atoms m) curr, nth_error (adj m) curr with
  | Some (a, _, at_), Some bonds =>
    do tok <- atom_to_smiles a true;
    let fix go (l : list dbond) (log : list (nat * nat)) : res (list wev * list (nat * nat)) :=
      match l with
      | [] => Ok ([], log)
      | e :: rest =>
        do btok <- bond_to_smiles (b_order e) (b_stereo e);
        let bev := {| w_kind := WBond; w_tok := btok; w_attr := b_attr e |} in
        if b_ring e then
          let '(log2, n) := ring_label log (b_src e) (b_dst e) in
          do (out, log3) <- go rest log2;
          Ok (bev :: label_events n ++ out, log3)
        else
          do (sub, log2) <- write_atom f m (b_dst e) log;
          do (out, log3) <- go rest log2;
          match rest with
          | [] => Ok (bev :: sub ++ out, log3)
          | _ => Ok (punct "(" :: bev :: sub ++ punct ")" :: out, log3)
          end
      end in
    do (out, log2) <- go bonds log;
    Ok ({| w_kind := WAtom; w_tok := tok; w_attr := at_ |} :: out, log2)
  | _, _ => Err IndexError
  end end.

(* attribution maps of one fragment from its events *)
Fixpoint maps_of (evs : list wev) (pos : nat) (base : nat) : list amap :=
  match evs with
  | [] => []
  | e :: r =>
    let pos' := pos + length (w_tok e) in
    let rest := maps_of r pos' base in
    match w_kind e with
    | WPunct => rest
    | _ => match w_tok e with
           | [] => rest           (* "trim attribution map of empty tokens" *)
           | _ => {| am_index := (Z.of_nat pos' - 1 + Z.of_nat base)%Z; am_token := w_tok e;
                     am_attr := w_attr e |} :: rest
           end
    end
  end.

Fixpoint write_roots (m : dmol) (rs : list nat) (log : list (nat * nat)) (base : nat)
  : res (list str * list amap) :=
  match rs with
  | [] => Ok ([], [])
  | r :: rest =>
    do (evs, log2) <- write_atom (S (length (atoms m))) m r log;
    let frag := concat (map w_tok evs) in
    do (frags, maps) <- write_roots m rest log2 (base + length frag + 1);   (* + 1: the '.' separator *)
    Ok (frag :: frags, maps_of evs 0 base ++ maps)
  end.

Definition mol_to_smiles (m : dmol) : res (str * list amap) :=
  do (frags, maps) <- write_roots m (roots m) [] 0;
  Ok (join (lit ".") frags, maps).

(* ---------- decoder ---------- *)
(* the fragments of selfies.split("."), each tokenised (lazily in Python; the
   pair (tokens, exception raised at exhaustion) carries the same information) *)
Definition tokenize_all (s : str) (compat : bool) : list (list str * option exn) :=
  map (fun f => tokenize_selfies f compat) (split_char c_dot s).

Fixpoint derive_frags_c (capf : capfun) (attribute : bool) (tfrags : list (list str * option exn))
         (m : dmol) (rings : list ringreq) (aidx : nat) : res (dmol * list ringreq) :=
  match tfrags with
  | [] => Ok (m, rings)
  | (ts, bad) :: rest =>
    do (_, m2, rings2, n) <-
       derive_c capf bad aidx (S (length ts)) (enumerate_from 0 ts) m None 0%Z PNone rings
                (if attribute then Some [] else None) 0;
    derive_frags_c capf attribute rest m2 rings2 (aidx + n)
  end.
Definition derive_frags (T : table) := derive_frags_c (get_bonding_capacity T).

Definition decode_graph_c (capf : capfun) (s : str) (compat attribute : bool) : res dmol :=
  do (m, rings) <- derive_frags_c capf attribute (tokenize_all s compat) empty_mol [] 0;
  form_rings m rings.
Definition decode_graph (T : table) := decode_graph_c (get_bonding_capacity T).

Definition decoder_c (capf : capfun) (s : str) (compat attribute : bool) : res (str * list amap) :=
  do m <- decode_graph_c capf s compat attribute;
  mol_to_smiles m.
Definition decoder (T : table) := decoder_c (get_bonding_capacity T).

(* the value returned when attribute=False: the string only *)
Definition decoder_str (T : table) (s : str) (compat : bool) : res str :=
  match decoder T s compat false with Ok (o, _) => Ok o | Err e => Err e end.
