(* Base.v — Python values as Gallina values: strings, results, list helpers.
   Model layer: definitions only, no proofs (see proofs/). *)
From Coq Require Import Ascii String List Arith ZArith NArith Bool.
Import ListNotations.

(* ---------- results and exceptions ---------- *)
(* Every partial Python operation is an explicit [Err]; nothing is totalised. *)
Inductive exn :=
| DecoderError | EncoderError            (* the two documented classes *)
| SMILESParserError                      (* internal, converted by encoder *)
| ValueError | KeyError | IndexError | TypeError | AssertionError | AttributeError
| ZeroDivisionError | RecursionError
| StopIteration                          (* next() on an exhausted generator (matching_utils) *)
| OutOfFuel.                             (* model artefact; excluded by theorems *)

Inductive res (A : Type) := Ok (a : A) | Err (e : exn).
Arguments Ok {A}. Arguments Err {A}.

Definition bind {A B} (r : res A) (f : A -> res B) : res B :=
  match r with Ok a => f a | Err e => Err e end.
Notation "'do' x <- r ; k" := (bind r (fun x => k)) (at level 200, x pattern, r at level 100, k at level 200).

Definition exn_eqb (a b : exn) : bool :=
  match a, b with
  | DecoderError, DecoderError | EncoderError, EncoderError
  | SMILESParserError, SMILESParserError | ValueError, ValueError
  | KeyError, KeyError | IndexError, IndexError | TypeError, TypeError
  | AssertionError, AssertionError | AttributeError, AttributeError
  | ZeroDivisionError, ZeroDivisionError | RecursionError, RecursionError
  | StopIteration, StopIteration
  | OutOfFuel, OutOfFuel => true
  | _, _ => false
  end.

(* ---------- Python str = list of Unicode code points ---------- *)
Definition str := list N.

Fixpoint lit (s : string) : str :=
  match s with
  | EmptyString => []
  | String a r => N_of_ascii a :: lit r
  end.

Definition ch (a : ascii) : N := N_of_ascii a.

Fixpoint str_eqb (a b : str) : bool :=
  match a, b with
  | [], [] => true
  | x :: a', y :: b' => N.eqb x y && str_eqb a' b'
  | _, _ => false
  end.

Fixpoint mem_str (s : str) (l : list str) : bool :=
  match l with [] => false | x :: r => str_eqb s x || mem_str s r end.

Fixpoint mem_N (c : N) (l : list N) : bool :=
  match l with [] => false | x :: r => N.eqb c x || mem_N c r end.

(* s.find(c, start) for a one-character needle *)
Fixpoint find_char_aux (c : N) (s : str) (i : nat) : option nat :=
  match s with
  | [] => None
  | x :: r => if N.eqb x c then Some i else find_char_aux c r (S i)
  end.
Definition find_char (c : N) (s : str) (start : nat) : option nat :=
  find_char_aux c (skipn start s) start.

(* s[i:j] with 0 <= i, j (no negative indices) *)
Definition slice (s : str) (i j : nat) : str := firstn (j - i) (skipn i s).

(* s[-a:-b] for a >= b > 0 *)
Definition slice_neg (s : str) (a b : nat) : str :=
  let n := length s in slice s (n - a) (n - b).

(* s[-a:] *)
Definition suffix (s : str) (a : nat) : str := skipn (length s - a) s.

Fixpoint count_char (c : N) (s : str) : nat :=
  match s with [] => 0 | x :: r => (if N.eqb x c then 1 else 0) + count_char c r end.

(* s.split(c): always at least one piece *)
Fixpoint split_char_aux (c : N) (s : str) (cur : str) : list str :=
  match s with
  | [] => [rev cur]
  | x :: r => if N.eqb x c then rev cur :: split_char_aux c r [] else split_char_aux c r (x :: cur)
  end.
Definition split_char (c : N) (s : str) : list str := split_char_aux c s [].

Fixpoint join (sep : str) (l : list str) : str :=
  match l with
  | [] => []
  | [x] => x
  | x :: r => x ++ sep ++ join sep r
  end.

Fixpoint prefix_of (p s : str) : bool :=
  match p, s with
  | [], _ => true
  | x :: p', y :: s' => N.eqb x y && prefix_of p' s'
  | _ :: _, [] => false
  end.

(* sub in s *)
Fixpoint contains (sub s : str) : bool :=
  prefix_of sub s || match s with [] => false | _ :: r => contains sub r end.

Definition last_char (s : str) : option N := nth_error s (length s - 1).

(* ---------- list helpers ---------- *)
Fixpoint upd {A} (l : list A) (i : nat) (f : A -> A) : list A :=
  match l, i with
  | [], _ => []
  | x :: r, O => f x :: r
  | x :: r, S j => x :: upd r j f
  end.

(* list.insert(pos, x) for 0 <= pos *)
Fixpoint insert_at {A} (l : list A) (pos : nat) (x : A) : list A :=
  match pos, l with
  | O, _ => x :: l
  | S _, [] => [x]
  | S p, y :: r => y :: insert_at r p x
  end.

Fixpoint assoc {A} (k : str) (l : list (str * A)) : option A :=
  match l with
  | [] => None
  | (k', v) :: r => if str_eqb k k' then Some v else assoc k r
  end.

Fixpoint assocZ {A} (k : Z) (l : list (Z * A)) : option A :=
  match l with [] => None | (k', v) :: r => if Z.eqb k k' then Some v else assocZ k r end.

Fixpoint index_of (k : str) (l : list str) (i : nat) : option nat :=
  match l with
  | [] => None
  | x :: r => if str_eqb k x then Some i else index_of k r (S i)
  end.

(* ---------- decimal printing / parsing ---------- *)
(* digits of n in [base], most significant first; fuel = bit length suffices *)
Fixpoint digits_fuel (fuel : nat) (base n : N) (acc : list N) : list N :=
  match fuel with
  | O => acc
  | S f => let acc' := (n mod base)%N :: acc in
           if ((n / base) =? 0)%N then acc' else digits_fuel f base (n / base)%N acc'
  end.
Definition digits (base n : N) : list N :=
  digits_fuel (S (N.to_nat (N.log2 n))) base n [].

Definition str_of_N (n : N) : str := map (fun d => (48 + d)%N) (digits 10 n).

(* "{:+}".format(z) *)
Definition str_of_Z_signed (z : Z) : str :=
  match z with
  | Z0 => lit "+0"
  | Zpos p => ch "+" :: str_of_N (Npos p)
  | Zneg p => ch "-" :: str_of_N (Npos p)
  end.

(* value of a list of digit values, big-endian *)
Definition horner (base : N) (ds : list N) : N :=
  fold_left (fun acc d => (acc * base + d)%N) ds 0%N.
