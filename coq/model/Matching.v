(* Matching.v — selfies/utils/matching_utils.py: find_perfect_matching,
   _greedy_matching, _find_augmenting_path, _flip_augmenting_path.

   The `unmatched` set of find_perfect_matching is a CPython set whose pop()
   order depends on the hash-table layout; the augmenting loop is therefore
   written over an abstract set state (Section variables), and instantiated
   with the exact CPython model of PySet.v at the end.   Definitions only. *)
From Coq Require Import List Arith ZArith Bool.
Import ListNotations.
From Selfies Require Import Base PySet.

Definition graph := list (list nat).         (* adjacency list *)
Definition matching := list (option nat).    (* matching[i] : None | j *)

(* l[i] and l[i] = x on Python lists with a non-negative index *)
Definition get {A} (l : list A) (i : nat) : res A :=
  match nth_error l i with Some x => Ok x | None => Err IndexError end.
Definition set_at {A} (l : list A) (i : nat) (x : A) : res (list A) :=
  if i <? length l then Ok (upd l i (fun _ => x)) else Err IndexError.

(* ---------- heapq on (free_degree, node) tuples ---------- *)
(* A heap is a multiset; heappop returns its smallest tuple (lexicographic
   order) and equal tuples are indistinguishable, so any multiset
   representation with "pop a minimum" has exactly heapq's observable
   behaviour.  The multiset is kept as an ascending list: push = sorted
   insertion, pop = head. *)
Definition hitem := (Z * nat)%type.
Definition hitem_lt (a b : hitem) : bool :=
  (fst a <? fst b)%Z || ((fst a =? fst b)%Z && (snd a <? snd b)).

Fixpoint heappush (h : list hitem) (x : hitem) : list hitem :=
  match h with
  | [] => [x]
  | y :: r => if hitem_lt y x then y :: heappush r x else x :: h
  end.
Definition heappop (h : list hitem) : option (hitem * list hitem) :=
  match h with
  | [] => None
  | x :: r => Some (x, r)
  end.
(* heapq.heapify(list) *)
Definition heapify (l : list hitem) : list hitem := fold_right (fun x h => heappush h x) [] l.

(* ---------- _greedy_matching ---------- *)
(* mate = next(i for i in graph[node] if matching[i] is None) *)
Fixpoint first_unmatched (nbrs : list nat) (m : matching) : res nat :=
  match nbrs with
  | [] => Err StopIteration
  | i :: r => do mi <- get m i;
              match mi with None => Ok i | Some _ => first_unmatched r m end
  end.

(* for adj in chain(graph[node], graph[mate]): free_degrees[adj] -= 1; push if still useful *)
Fixpoint dec_free (adjs : list nat) (m : matching) (fd : list Z) (h : list hitem)
  : res (list Z * list hitem) :=
  match adjs with
  | [] => Ok (fd, h)
  | adj :: r =>
    do d <- get fd adj;
    let d' := (d - 1)%Z in
    let fd' := upd fd adj (fun _ => d') in
    do madj <- get m adj;
    let h' := match madj with
              | None => if (0 <? d')%Z then heappush h (d', adj) else h
              | Some _ => h
              end in
    dec_free r m fd' h'
  end.

Fixpoint greedy_loop (fuel : nat) (g : graph) (m : matching) (fd : list Z) (h : list hitem)
  : res matching :=
  match fuel with O => Err OutOfFuel | S f =>
  match heappop h with
  | None => Ok m
  | Some ((_, node), h1) =>
    do mn <- get m node;
    do dn <- get fd node;
    match mn with
    | Some _ => greedy_loop f g m fd h1                     (* continue *)
    | None =>
      if (dn =? 0)%Z then greedy_loop f g m fd h1 else
      do gn <- get g node;
      do mate <- first_unmatched gn m;
      do m1 <- set_at m node (Some mate);
      do m2 <- set_at m1 mate (Some node);
      do gm <- get g mate;
      do (fd', h2) <- dec_free (gn ++ gm) m2 fd h1;
      greedy_loop f g m2 fd' h2
    end
  end end.

Fixpoint enum_from {A} (i : nat) (l : list A) : list (nat * A) :=
  match l with [] => [] | x :: r => (i, x) :: enum_from (S i) r end.

Definition total_adj (g : graph) : nat := fold_left (fun acc l => acc + length l) g 0.

(* fuel: one pop per iteration; the heap starts with len(graph) items and every
   push happens while matching a node, at most len(graph[node]) + len(graph[mate])
   of them, each node being matched at most once *)
Definition greedy_fuel (g : graph) : nat := S (length g + total_adj g).

Definition greedy_matching (g : graph) : res matching :=
  let fd := map (fun l => Z.of_nat (length l)) g in
  let h := heapify (map (fun p => (Z.of_nat (length (snd p)), fst p)) (enum_from 0 g)) in
  greedy_loop (greedy_fuel g) g (map (fun _ => None) g) fd h.

(* ---------- _find_augmenting_path ---------- *)
(* parents[v]: None (unvisited) | [a, b] with a, b possibly None (the root) *)
Definition parents_t := list (option (option nat * option nat)).

(* the `for adj in graph[node]` loop; Some other_end = the loop hit `break` *)
Fixpoint scan_adj (adjs : list nat) (node root : nat) (m : matching)
         (parents : parents_t) (queue : list nat) : res (parents_t * list nat * option nat) :=
  match adjs with
  | [] => Ok (parents, queue, None)
  | adj :: r =>
    do madj <- get m adj;
    match madj with
    | None =>
        if adj =? root then scan_adj r node root m parents queue
        else do p' <- set_at parents adj (Some (Some node, Some adj));
             Ok (p', queue, Some adj)
    | Some adj_mate =>
        do pm <- get parents adj_mate;
        match pm with
        | None => do p' <- set_at parents adj_mate (Some (Some node, Some adj));
                  scan_adj r node root m p' (queue ++ [adj_mate])
        | Some _ => scan_adj r node root m parents queue
        end
    end
  end.

Fixpoint bfs (fuel : nat) (g : graph) (root : nat) (m : matching)
         (parents : parents_t) (queue : list nat) : res (parents_t * option nat) :=
  match fuel with O => Err OutOfFuel | S f =>
  match queue with
  | [] => Ok (parents, None)
  | node :: q =>
    do adjs <- get g node;
    do (p', q', oe) <- scan_adj adjs node root m parents q;
    match oe with
    | Some _ => Ok (p', oe)
    | None => bfs f g root m p' q'
    end
  end end.

(* while node != root: path += [parents[node][1], parents[node][0]]; node = parents[node][0] *)
Fixpoint build_path (fuel : nat) (parents : parents_t) (root node : nat) (acc : list nat)
  : res (list nat) :=
  match fuel with O => Err OutOfFuel | S f =>
  if node =? root then Ok (rev acc) else
  do p <- get parents node;
  match p with
  | None => Err TypeError                     (* None[1] *)
  | Some (Some p0, Some p1) => build_path f parents root p0 (p0 :: p1 :: acc)
  | Some _ => Err TypeError                   (* parents[None] on the next round *)
  end end.

(* fuel: a node enters the queue only when its parents entry is set for the
   first time, so at most len(graph) dequeues; the parent chain has no repeats *)
Definition find_augmenting_path (g : graph) (root : nat) (m : matching) : res (option (list nat)) :=
  do mr <- get m root;
  match mr with Some _ => Err AssertionError | None =>
  let parents0 : parents_t := map (fun _ => None) g in
  do parents1 <- set_at parents0 root (Some (None, None));
  do (parents, oe) <- bfs (S (S (length g))) g root m parents1 [root];
  match oe with
  | None => Ok None
  | Some other_end => do path <- build_path (S (S (length g))) parents root other_end [];
                      Ok (Some path)
  end end.

(* ---------- _flip_augmenting_path ---------- *)
Fixpoint flip_augmenting_path (m : matching) (path : list nat) : res matching :=
  match path with
  | [] => Ok m
  | [_] => Err IndexError                     (* path[i + 1] *)
  | a :: b :: r => do m1 <- set_at m a (Some b);
                   do m2 <- set_at m1 b (Some a);
                   flip_augmenting_path m2 r
  end.

(* ---------- find_perfect_matching over an abstract `unmatched` set ---------- *)
Section Augment.
Variable SetT : Type.
Variable s_of_list : list nat -> res SetT.        (* set(generator) *)
Variable s_nonempty : SetT -> bool.               (* while unmatched *)
Variable s_pop : SetT -> res (nat * SetT).        (* unmatched.pop() *)
Variable s_discard : nat -> SetT -> res SetT.     (* unmatched.discard(x) *)

Fixpoint augment_loop (fuel : nat) (g : graph) (m : matching) (unmatched : SetT)
  : res (option matching) :=
  match fuel with O => Err OutOfFuel | S f =>
  if negb (s_nonempty unmatched) then Ok (Some m) else
  do (root, u1) <- s_pop unmatched;
  do op <- find_augmenting_path g root m;
  match op with
  | None => Ok None
  | Some path =>
      do m' <- flip_augmenting_path m path;
      do p0 <- get path 0;
      do pl <- get path (length path - 1);          (* path[-1]; path is non-empty here *)
      do u2 <- s_discard p0 u1;
      do u3 <- s_discard pl u2;
      augment_loop f g m' u3
  end end.

Definition unmatched_nodes (m : matching) : list nat :=
  map fst (filter (fun p => match snd p with None => true | Some _ => false end) (enum_from 0 m)).

(* fuel: every iteration pops one element and nothing is ever added *)
Definition find_perfect_matching_with (g : graph) : res (option matching) :=
  do m0 <- greedy_matching g;
  do u <- s_of_list (unmatched_nodes m0);
  augment_loop (S (length g)) g m0 u.
End Augment.

(* the instance that runs: CPython's set *)
Definition find_perfect_matching (g : graph) : res (option matching) :=
  find_perfect_matching_with pyset ps_of_list ps_nonempty ps_pop ps_discard g.

(* how many nodes the greedy phase left unmatched (harness statistics) *)
Definition greedy_unmatched (g : graph) : res nat :=
  do m0 <- greedy_matching g; Ok (length (unmatched_nodes m0)).
