(* PySet.v — CPython 3.12 `set` restricted to small non-negative ints
   (Objects/setobject.c).  Only what matching_utils.find_perfect_matching uses
   is needed (construction by repeated add, truthiness, pop, discard), but add
   after discard is modelled too so that the model can be validated on arbitrary
   add/pop/discard sequences.

   Keys are [nat]; hash(k) = k (true for 0 <= k < 2**61 - 1), so a key doubles
   as its hash; the special hash values 0 (unused slot, key NULL) and -1 (dummy)
   are the constructors [SUnused] / [SDummy].

   Mirrors: set_add_entry, set_insert_clean, set_table_resize, set_lookkey,
   set_discard_entry, set_pop, set_len.   Definitions only. *)
From Coq Require Import List Arith Bool.
Import ListNotations.
From Selfies Require Import Base.

Inductive slot := SUnused | SDummy | SKey (k : nat).

Record pyset := {
  ps_table : list slot;   (* so->table, length = ps_mask + 1 *)
  ps_mask : nat;          (* so->mask *)
  ps_fill : nat;          (* so->fill  = active + dummy entries *)
  ps_used : nat;          (* so->used  = active entries *)
  ps_finger : nat         (* so->finger, search finger of pop() *)
}.

Definition LINEAR_PROBES : nat := 9.
Definition PERTURB_SHIFT_DIV : nat := 32.   (* perturb >>= 5 *)
Definition PySet_MINSIZE : nat := 8.

Definition ps_empty : pyset :=
  {| ps_table := repeat SUnused PySet_MINSIZE; ps_mask := PySet_MINSIZE - 1;
     ps_fill := 0; ps_used := 0; ps_finger := 0 |}.

(* number of consecutive entries examined from position i in one round of the
   probe loop: `probes = (i + LINEAR_PROBES <= mask) ? LINEAR_PROBES : 0`
   and the do { } while (probes--) body runs probes + 1 times *)
Definition run_length (i mask : nat) : nat :=
  if i + LINEAR_PROBES <=? mask then S LINEAR_PROBES else 1.

(* next probe position: perturb >>= 5; i = (i * 5 + 1 + perturb) & mask.
   size_t wrap-around is harmless because mask + 1 divides 2**64. *)
Definition next_perturb (perturb : nat) : nat := perturb / PERTURB_SHIFT_DIV.
Definition next_index (i perturb' mask : nat) : nat := (i * 5 + 1 + perturb') mod (S mask).

(* ---------- set_add_entry ---------- *)
Inductive add_scan_result :=
| AUnused (idx : nat) (freeslot : option nat)   (* goto found_unused_or_dummy *)
| AActive                                       (* goto found_active *)
| AMore (freeslot : option nat).                (* run exhausted *)

(* one do-while run over entries i, i+1, ...: [cnt] entries *)
Fixpoint add_scan (tbl : list slot) (key : nat) (i cnt : nat) (freeslot : option nat)
  : add_scan_result :=
  match cnt with
  | O => AMore freeslot
  | S c =>
    match nth_error tbl i with
    | None => AMore freeslot                    (* cannot happen: i + cnt <= mask + 1 *)
    | Some SUnused => AUnused i freeslot
    | Some (SKey k) => if k =? key then AActive else add_scan tbl key (S i) c freeslot
    | Some SDummy => add_scan tbl key (S i) c (Some i)     (* freeslot = entry *)
    end
  end.

Inductive add_where := AddNothing | AddFresh (idx : nat) | AddReuse (idx : nat).

Fixpoint add_probe (fuel : nat) (tbl : list slot) (mask key i perturb : nat)
         (freeslot : option nat) : res add_where :=
  match fuel with O => Err OutOfFuel | S f =>
  match add_scan tbl key i (run_length i mask) freeslot with
  | AActive => Ok AddNothing
  | AUnused j None => Ok (AddFresh j)
  | AUnused _ (Some d) => Ok (AddReuse d)
  | AMore fs =>
      let p := next_perturb perturb in
      add_probe f tbl mask key (next_index i p mask) p fs
  end end.

(* every probe sequence reaches every slot once perturb is 0 (i -> 5i+1 has
   full period modulo a power of two); perturb is 0 after at most [key] halvings *)
Definition probe_fuel (mask key : nat) : nat := S (S mask) + S (Nat.log2 (S key)).

(* ---------- set_insert_clean ---------- *)
Fixpoint clean_scan (tbl : list slot) (i cnt : nat) : option nat :=
  match cnt with
  | O => None
  | S c => match nth_error tbl i with
           | Some SUnused => Some i
           | Some _ => clean_scan tbl (S i) c
           | None => None
           end
  end.

Fixpoint clean_probe (fuel : nat) (tbl : list slot) (mask i perturb : nat) : res nat :=
  match fuel with O => Err OutOfFuel | S f =>
  match clean_scan tbl i (run_length i mask) with
  | Some j => Ok j
  | None => let p := next_perturb perturb in clean_probe f tbl mask (next_index i p mask) p
  end end.

Definition insert_clean (tbl : list slot) (mask key : nat) : res (list slot) :=
  do j <- clean_probe (probe_fuel mask key) tbl mask (key mod S mask) key;
  Ok (upd tbl j (fun _ => SKey key)).

(* ---------- set_table_resize ---------- *)
(* newsize = PySet_MINSIZE; while (newsize <= minused) newsize <<= 1 *)
Fixpoint grow_size (fuel newsize minused : nat) : nat :=
  match fuel with
  | O => newsize
  | S f => if newsize <=? minused then grow_size f (newsize * 2) minused else newsize
  end.

Fixpoint reinsert (old : list slot) (tbl : list slot) (mask : nat) : res (list slot) :=
  match old with
  | [] => Ok tbl
  | SKey k :: r => do t <- insert_clean tbl mask k; reinsert r t mask
  | _ :: r => reinsert r tbl mask            (* unused and dummy entries are not copied *)
  end.

Definition table_resize (s : pyset) (minused : nat) : res pyset :=
  let newsize := grow_size (S minused) PySet_MINSIZE minused in
  do t <- reinsert (ps_table s) (repeat SUnused newsize) (newsize - 1);
  Ok {| ps_table := t; ps_mask := newsize - 1; ps_fill := ps_used s; ps_used := ps_used s;
        ps_finger := ps_finger s |}.

(* ---------- set.add ---------- *)
Definition ps_add (s : pyset) (key : nat) : res pyset :=
  let mask := ps_mask s in
  do w <- add_probe (probe_fuel mask key) (ps_table s) mask key (key mod S mask) key None;
  match w with
  | AddNothing => Ok s
  | AddReuse d =>        (* so->used++ only; no resize check *)
      Ok {| ps_table := upd (ps_table s) d (fun _ => SKey key); ps_mask := mask;
            ps_fill := ps_fill s; ps_used := S (ps_used s); ps_finger := ps_finger s |}
  | AddFresh j =>
      let s' := {| ps_table := upd (ps_table s) j (fun _ => SKey key); ps_mask := mask;
                   ps_fill := S (ps_fill s); ps_used := S (ps_used s);
                   ps_finger := ps_finger s |} in
      if ps_fill s' * 5 <? mask * 3 then Ok s'
      else table_resize s' (if 50000 <? ps_used s' then ps_used s' * 2 else ps_used s' * 4)
  end.

(* set(iterable): set_update_internal adds the items one by one *)
Fixpoint ps_add_all (s : pyset) (l : list nat) : res pyset :=
  match l with
  | [] => Ok s
  | k :: r => do s' <- ps_add s k; ps_add_all s' r
  end.
Definition ps_of_list (l : list nat) : res pyset := ps_add_all ps_empty l.

(* bool(s) / len(s) *)
Definition ps_nonempty (s : pyset) : bool := negb (ps_used s =? 0).

(* ---------- set_lookkey / set.discard ---------- *)
Inductive look_result := LUnused | LFound (idx : nat) | LMore.

Fixpoint look_scan (tbl : list slot) (key : nat) (i cnt : nat) : look_result :=
  match cnt with
  | O => LMore
  | S c =>
    match nth_error tbl i with
    | None => LMore
    | Some SUnused => LUnused
    | Some (SKey k) => if k =? key then LFound i else look_scan tbl key (S i) c
    | Some SDummy => look_scan tbl key (S i) c
    end
  end.

Fixpoint look_probe (fuel : nat) (tbl : list slot) (mask key i perturb : nat) : res (option nat) :=
  match fuel with O => Err OutOfFuel | S f =>
  match look_scan tbl key i (run_length i mask) with
  | LUnused => Ok None
  | LFound j => Ok (Some j)
  | LMore => let p := next_perturb perturb in look_probe f tbl mask key (next_index i p mask) p
  end end.

Definition ps_discard (key : nat) (s : pyset) : res pyset :=
  let mask := ps_mask s in
  do o <- look_probe (probe_fuel mask key) (ps_table s) mask key (key mod S mask) key;
  match o with
  | None => Ok s
  | Some j => Ok {| ps_table := upd (ps_table s) j (fun _ => SDummy); ps_mask := mask;
                    ps_fill := ps_fill s; ps_used := ps_used s - 1; ps_finger := ps_finger s |}
  end.

(* ---------- set.pop ---------- *)
(* first active entry at index >= i *)
Fixpoint first_key_from (tbl : list slot) (i : nat) : option (nat * nat) :=
  match tbl with
  | [] => None
  | SKey k :: _ => Some (i, k)
  | _ :: r => first_key_from r (S i)
  end.

Definition ps_pop (s : pyset) : res (nat * pyset) :=
  if ps_used s =? 0 then Err KeyError else
  let start := ps_finger s mod S (ps_mask s) in       (* so->finger & so->mask *)
  let hit := match first_key_from (skipn start (ps_table s)) start with
             | Some h => Some h
             | None => first_key_from (firstn start (ps_table s)) 0    (* wrap around *)
             end in
  match hit with
  | None => Err OutOfFuel      (* used > 0 but no active entry: the C loop would not terminate *)
  | Some (j, k) =>
      Ok (k, {| ps_table := upd (ps_table s) j (fun _ => SDummy); ps_mask := ps_mask s;
                ps_fill := ps_fill s; ps_used := ps_used s - 1; ps_finger := S j |})
  end.

(* iteration order of the set = table order (for validation dumps) *)
Fixpoint ps_keys (tbl : list slot) : list nat :=
  match tbl with
  | [] => []
  | SKey k :: r => k :: ps_keys r
  | _ :: r => ps_keys r
  end.

(* a script of operations, for validation against the interpreter *)
Inductive ps_op := OpAdd (k : nat) | OpPop | OpDiscard (k : nat).

(* event per operation: popped key (None for the others, or for KeyError on an
   empty set, which leaves the set unchanged) and the iteration order afterwards *)
Fixpoint ps_run (s : pyset) (ops : list ps_op) : res (list (option nat * bool * list nat) * pyset) :=
  match ops with
  | [] => Ok ([], s)
  | o :: r =>
    do (ev, s') <-
       match o with
       | OpAdd k => do s' <- ps_add s k; Ok ((None, false), s')
       | OpDiscard k => do s' <- ps_discard k s; Ok ((None, false), s')
       | OpPop => match ps_pop s with
                  | Ok (k, s') => Ok ((Some k, false), s')
                  | Err KeyError => Ok ((None, true), s)
                  | Err e => Err e
                  end
       end;
    do (evs, s'') <- ps_run s' r;
    Ok ((fst ev, snd ev, ps_keys (ps_table s')) :: evs, s'')
  end.
