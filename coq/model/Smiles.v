(* Smiles.v — the SMILES reader of the encoder:
     smiles_utils.tokenize_smiles / SMILESToken,
     mol_graph.MolecularGraph as the encoder uses it (aromatic atoms, placeholder
       bonds, half-integral bond orders, ring-bond flags, delocalization subgraph),
     smiles_utils.smiles_to_mol / _derive_mol_from_tokens / _attach_atom /
       _make_ring_bonds.
   Bond orders and bond counts are kept in HALF units (1 -> 2, 1.5 -> 3, 2 -> 4,
   3 -> 6): every float the source manipulates is a multiple of 0.5.
   Definitions only. *)
From Coq Require Import Ascii String List Arith ZArith NArith Bool.
Import ListNotations.
From Selfies Require Import Base Generated Lex Atoms Decoder.

(* ====================================================================== *)
(* tokenize_smiles                                                        *)
(* ====================================================================== *)
Inductive ttype := TAtom | TBranch | TRing | TDot.       (* SMILESTokenTypes *)

(* SMILESToken: [t_bond] is extract_bond_char(smiles) (the character at
   bond_idx), [t_text] is both tok.token and extract_symbol(smiles)
   (smiles[start_idx:end_idx]; the two coincide for every token the tokenizer
   builds), [t_start] is start_idx (only used in error messages). *)
Record token := { t_bond : option N; t_start : nat; t_type : ttype; t_text : str }.

Definition c_lpar : N := 40.   (* ( *)
Definition c_rpar : N := 41.   (* ) *)
Definition c_pct : N := 37.    (* % *)

(* smiles[i] in SMILES_BOND_ORDERS *)
Definition is_bond_char (c : N) : bool :=
  match assocN c smiles_bond_orders2 with Some _ => true | None => false end.

(* Character classes with an early exit.  The generated range tables are sorted
   and disjoint, so these agree with Atoms.isalpha / isdigit / isnumeric
   (in_ranges scans the whole table, which costs ~700 comparisons for every
   non-letter); proofs/SmilesFacts.v proves the agreement. *)
Fixpoint in_sorted_ranges (c : N) (rs : list (N * N)) : bool :=
  match rs with
  | [] => false
  | (lo, hi) :: r => if (c <? lo)%N then false
                     else if (c <=? hi)%N then true else in_sorted_ranges c r
  end.
Definition isalpha_s (c : N) : bool := in_sorted_ranges c isalpha_ranges.
Definition isdigit_s (c : N) : bool := in_sorted_ranges c isdigit_ranges.
Definition isnumeric_s (c : N) : bool := in_sorted_ranges c isnumeric_ranges.

(* str.isnumeric(): non-empty and every character numeric *)
Definition str_isnumeric (s : str) : bool :=
  match s with [] => false | _ => forallb isnumeric_s s end.

(* [s] = smiles[i:], fuel >= len(s) + 1: every round consumes at least one character *)
Fixpoint tokenize_loop (fuel : nat) (s : str) (i : nat) : res (list token) :=
  match fuel with O => Err OutOfFuel | S f =>
  match s with
  | [] => Ok []
  | c :: r =>
    if N.eqb c c_dot then
      do ts <- tokenize_loop f r (S i);
      Ok ({| t_bond := None; t_start := i; t_type := TDot; t_text := [c] |} :: ts)
    else
      let '(bond, s1, i1) := if is_bond_char c then (Some c, r, S i) else (None, s, i) in
      let emit (ty : ttype) (len : nat) : res (list token) :=
        do ts <- tokenize_loop f (skipn len s1) (i1 + len);
        Ok ({| t_bond := bond; t_start := i1; t_type := ty; t_text := firstn len s1 |} :: ts) in
      match s1 with
      | [] => Err SMILESParserError                              (* hanging bond *)
      | d :: r1 =>
        if isalpha_s d then
          let two := firstn 2 s1 in
          if str_eqb two (lit "Br") || str_eqb two (lit "Cl") then emit TAtom 2 else emit TAtom 1
        else if N.eqb d c_lb then
          match find_char c_rb r1 0 with                         (* smiles.find("]", i + 1) *)
          | None => Err SMILESParserError                        (* hanging bracket [ *)
          | Some k => emit TAtom (k + 2)
          end
        else if N.eqb d c_lpar || N.eqb d c_rpar then
          match bond with
          | Some _ => Err SMILESParserError                      (* hanging_bond *)
          | None => emit TBranch 1
          end
        else if isdigit_s d then emit TRing 1
        else if N.eqb d c_pct then
          let rnum := firstn 2 r1 in                             (* smiles[i + 1: i + 3] *)
          if str_isnumeric rnum && (length rnum =? 2) then emit TRing 3
          else Err SMILESParserError                             (* invalid ring number *)
        else Err SMILESParserError                               (* unrecognized symbol *)
      end
  end end.

(* list(tokenize_smiles(smiles)); the caller (smiles_to_mol) consumes the whole
   generator into a deque before using any token *)
Definition tokenize_smiles (smiles : str) : res (list token) :=
  tokenize_loop (S (length smiles)) smiles 0.

(* ====================================================================== *)
(* MolecularGraph, encoder side                                           *)
(* ====================================================================== *)
(* DirectedBond; [e_attr] is the entry of mol._attribution for this object
   (None: not a key of the dict) *)
Record ebond := { e_src : nat; e_dst : nat; e_order2 : Z; e_stereo : option N;
                  e_ring : bool; e_attr : attrs }.

(* ---------- the delocalization subgraph (a dict int -> list of int) ---------- *)
(* A dict whose keys are small non-negative ints: the keys in insertion order,
   and the values in an array indexed by key (None = key absent; the array is
   padded on demand, so any nat can be a key). *)
Record dsub := { ds_keys : list nat; ds_vals : list (option (list nat)) }.
Definition ds_empty : dsub := {| ds_keys := []; ds_vals := [] |}.

(* not ds *)
Definition ds_is_empty (ds : dsub) : bool := match ds_keys ds with [] => true | _ :: _ => false end.

(* ds.get(k) *)
Definition ds_lookup (ds : dsub) (k : nat) : option (list nat) :=
  match nth_error (ds_vals ds) k with Some (Some v) => Some v | _ => None end.

Fixpoint arr_set {A} (l : list (option A)) (k : nat) (v : A) : list (option A) :=
  match k, l with
  | O, [] => [Some v]
  | O, _ :: r => Some v :: r
  | S k', [] => None :: arr_set [] k' v
  | S k', x :: r => x :: arr_set r k' v
  end.

(* ds[k] = v: a new key goes to the end of the key order, an old one keeps its place *)
Definition ds_store (ds : dsub) (k : nat) (v : list nat) : dsub :=
  {| ds_keys := match ds_lookup ds k with Some _ => ds_keys ds | None => ds_keys ds ++ [k] end;
     ds_vals := arr_set (ds_vals ds) k v |}.

(* ds[k] = [] *)
Definition ds_set_empty (ds : dsub) (k : nat) : dsub := ds_store ds k [].

(* ds.setdefault(k, []).append(x) *)
Definition ds_append (ds : dsub) (k x : nat) : dsub :=
  ds_store ds k (match ds_lookup ds k with Some v => v ++ [x] | None => [x] end).

(* list(ds.items()) *)
Definition ds_items (ds : dsub) : list (nat * list nat) :=
  flat_map (fun k => match ds_lookup ds k with Some v => [(k, v)] | None => [] end) (ds_keys ds).

(* The source keeps every bond object both in _adj_list[src] and in
   _bond_dict[(src, dst)].  A key (src, dst) is written at most once (tree
   bonds end at a fresh atom, ring bonds are refused between already-bonded
   atoms), so the dictionary is recovered from the adjacency lists: the model
   stores the adjacency lists only, with None for placeholder slots. *)
Record emol := {
  m_attributable : bool;
  m_roots : list nat;                       (* _roots *)
  m_atoms : list (atom * attrs);            (* _atoms, with _attribution[atom] *)
  m_adj : list (list (option ebond));       (* _adj_list *)
  m_counts2 : list Z;                       (* _bond_counts, half units *)
  m_ringflags : list bool;                  (* _ring_bond_flags *)
  m_ds : dsub                               (* _delocal_subgraph, insertion-ordered *)
}.

Definition mg_empty (attributable : bool) : emol :=
  {| m_attributable := attributable; m_roots := []; m_atoms := []; m_adj := [];
     m_counts2 := []; m_ringflags := []; m_ds := ds_empty |}.

Definition mg_len (m : emol) : nat := length (m_atoms m).

Definition set_atoms (m : emol) (x : list (atom * attrs)) : emol :=
  {| m_attributable := m_attributable m; m_roots := m_roots m; m_atoms := x; m_adj := m_adj m;
     m_counts2 := m_counts2 m; m_ringflags := m_ringflags m; m_ds := m_ds m |}.
Definition set_adj (m : emol) (x : list (list (option ebond))) : emol :=
  {| m_attributable := m_attributable m; m_roots := m_roots m; m_atoms := m_atoms m; m_adj := x;
     m_counts2 := m_counts2 m; m_ringflags := m_ringflags m; m_ds := m_ds m |}.
Definition set_counts2 (m : emol) (x : list Z) : emol :=
  {| m_attributable := m_attributable m; m_roots := m_roots m; m_atoms := m_atoms m; m_adj := m_adj m;
     m_counts2 := x; m_ringflags := m_ringflags m; m_ds := m_ds m |}.
Definition set_ringflags (m : emol) (x : list bool) : emol :=
  {| m_attributable := m_attributable m; m_roots := m_roots m; m_atoms := m_atoms m; m_adj := m_adj m;
     m_counts2 := m_counts2 m; m_ringflags := x; m_ds := m_ds m |}.
Definition set_ds (m : emol) (x : dsub) : emol :=
  {| m_attributable := m_attributable m; m_roots := m_roots m; m_atoms := m_atoms m; m_adj := m_adj m;
     m_counts2 := m_counts2 m; m_ringflags := m_ringflags m; m_ds := x |}.

(* l[i] with 0 <= i *)
Definition lget {A} (l : list A) (i : nat) : res A :=
  match nth_error l i with Some x => Ok x | None => Err IndexError end.
(* l[i] = f(l[i]) *)
Definition lupd {A} (l : list A) (i : nat) (f : A -> A) : res (list A) :=
  if i <? length l then Ok (upd l i f) else Err IndexError.

Definition mg_get_atom (m : emol) (i : nat) : res (atom * attrs) := lget (m_atoms m) i.
Definition mg_get_out_dirbonds (m : emol) (i : nat) : res (list (option ebond)) := lget (m_adj m) i.
Definition mg_get_bond_count2 (m : emol) (i : nat) : res Z := lget (m_counts2 m) i.
Definition mg_has_out_ring_bond (m : emol) (i : nat) : res bool := lget (m_ringflags m) i.

(* ---------- add_atom ---------- *)
Definition mg_add_atom (m : emol) (a : atom) (mark_root : bool) : emol * nat :=
  let i := mg_len m in
  ({| m_attributable := m_attributable m;
      m_roots := if mark_root then m_roots m ++ [i] else m_roots m;
      m_atoms := m_atoms m ++ [(a, None)];
      m_adj := m_adj m ++ [[]];
      m_counts2 := m_counts2 m ++ [0%Z];
      m_ringflags := m_ringflags m ++ [false];
      m_ds := if a_aromatic a then ds_set_empty (m_ds m) i else m_ds m |}, i).

(* ---------- add_attribution / get_attribution ---------- *)
Definition merge_attr (old : attrs) (new : list attr) : attrs :=
  match old with Some l => Some (l ++ new) | None => Some new end.

Definition mg_add_attr_atom (m : emol) (i : nat) (at_ : list attr) : res emol :=
  if m_attributable m then
    do l <- lupd (m_atoms m) i (fun p => (fst p, merge_attr (snd p) at_)); Ok (set_atoms m l)
  else Ok m.

(* get_attribution(o): _attributable and o in _attribution *)
Definition mg_get_attr (m : emol) (entry : attrs) : attrs :=
  if m_attributable m then entry else None.

(* ---------- _add_bond_at_loc ---------- *)
(* pos: None = -1 *)
Definition add_bond_at_loc (out_edges : list (option ebond)) (pos : option nat) (b : ebond)
  : res (list (option ebond)) :=
  match pos with
  | None => Ok (out_edges ++ [Some b])
  | Some p =>
    if p =? length out_edges then Ok (out_edges ++ [Some b]) else
    match nth_error out_edges p with
    | None => Err IndexError
    | Some None => Ok (upd out_edges p (fun _ => Some b))
    | Some (Some _) => Ok (insert_at out_edges p (Some b))
    end
  end.

Definition mg_add_bond_at_loc (m : emol) (b : ebond) (pos : option nat) : res emol :=
  do out_edges <- lget (m_adj m) (e_src b);
  do out' <- add_bond_at_loc out_edges pos b;
  Ok (set_adj m (upd (m_adj m) (e_src b) (fun _ => out'))).

Definition mg_add_count2 (m : emol) (i : nat) (d : Z) : res emol :=
  do c <- lupd (m_counts2 m) i (fun x => (x + d)%Z); Ok (set_counts2 m c).

Definition order2_aromatic : Z := 3.     (* 1.5 *)

(* ---------- add_bond ---------- *)
(* the bond's attribution is attached right after creation by _attach_atom
   (add_attribution on the fresh object); it is passed here so that the stored
   record is complete *)
Definition mg_add_bond (m : emol) (src dst : nat) (order2 : Z) (stereo : option N) (at_ : attrs)
  : res emol :=
  if negb (src <? dst) then Err AssertionError else
  let b := {| e_src := src; e_dst := dst; e_order2 := order2; e_stereo := stereo;
              e_ring := false; e_attr := at_ |} in
  do m1 <- mg_add_bond_at_loc m b None;
  do m2 <- mg_add_count2 m1 src order2;
  do m3 <- mg_add_count2 m2 dst order2;
  if (order2 =? order2_aromatic)%Z
  then Ok (set_ds m3 (ds_append (ds_append (m_ds m3) src dst) dst src))
  else Ok m3.

(* ---------- add_placeholder_bond ---------- *)
Definition mg_add_placeholder_bond (m : emol) (src : nat) : res (emol * nat) :=
  do out_edges <- lget (m_adj m) src;
  Ok (set_adj m (upd (m_adj m) src (fun l => l ++ [None])), length out_edges).

(* ---------- add_ring_bond ---------- *)
Definition mg_add_ring_bond (m : emol) (a b : nat) (order2 : Z) (a_stereo b_stereo : option N)
           (a_pos b_pos : option nat) : res emol :=
  let a_bond := {| e_src := a; e_dst := b; e_order2 := order2; e_stereo := a_stereo;
                   e_ring := true; e_attr := None |} in
  let b_bond := {| e_src := b; e_dst := a; e_order2 := order2; e_stereo := b_stereo;
                   e_ring := true; e_attr := None |} in
  do m1 <- mg_add_bond_at_loc m a_bond a_pos;
  do m2 <- mg_add_bond_at_loc m1 b_bond b_pos;
  do m3 <- mg_add_count2 m2 a order2;
  do m4 <- mg_add_count2 m3 b order2;
  do f1 <- lupd (m_ringflags m4) a (fun _ => true);
  do f2 <- lupd f1 b (fun _ => true);
  let m5 := set_ringflags m4 f2 in
  if (order2 =? order2_aromatic)%Z
  then Ok (set_ds m5 (ds_append (ds_append (m_ds m5) a b) b a))
  else Ok m5.

(* ---------- _bond_dict lookups ---------- *)
Fixpoint find_edge (l : list (option ebond)) (dst : nat) : option ebond :=
  match l with
  | [] => None
  | Some e :: r => if e_dst e =? dst then Some e else find_edge r dst
  | None :: r => find_edge r dst
  end.

(* (src, dst) in _bond_dict *)
Definition mg_find_dirbond (m : emol) (src dst : nat) : option ebond :=
  match nth_error (m_adj m) src with Some l => find_edge l dst | None => None end.

(* get_dirbond: _bond_dict[(src, dst)] *)
Definition mg_get_dirbond (m : emol) (src dst : nat) : res ebond :=
  match mg_find_dirbond m src dst with Some e => Ok e | None => Err KeyError end.

Definition mg_has_bond (m : emol) (a b : nat) : bool :=
  match mg_find_dirbond m (Nat.min a b) (Nat.max a b) with Some _ => true | None => false end.

(* ---------- update_bond_order ---------- *)
Definition with_order2 (e : ebond) (o : Z) : ebond :=
  {| e_src := e_src e; e_dst := e_dst e; e_order2 := o; e_stereo := e_stereo e;
     e_ring := e_ring e; e_attr := e_attr e |}.

Definition set_edge_order2 (l : list (option ebond)) (dst : nat) (o : Z) : list (option ebond) :=
  map (fun s => match s with
                | Some e => if e_dst e =? dst then Some (with_order2 e o) else Some e
                | None => None
                end) l.

Definition mg_update_bond_order (m : emol) (a0 b0 : nat) (new2 : Z) : res emol :=
  if negb ((2 <=? new2)%Z && (new2 <=? 6)%Z) then Err AssertionError else    (* 1 <= new_order <= 3 *)
  let a := Nat.min a0 b0 in let b := Nat.max a0 b0 in
  do a_to_b <- mg_get_dirbond m a b;
  if (new2 =? e_order2 a_to_b)%Z then Ok m else
  do adj1 <- (if e_ring a_to_b then
                do _ <- mg_get_dirbond m b a;
                Ok (upd (upd (m_adj m) a (fun l => set_edge_order2 l b new2))
                         b (fun l => set_edge_order2 l a new2))
              else Ok (upd (m_adj m) a (fun l => set_edge_order2 l b new2)));
  let delta := (new2 - e_order2 a_to_b)%Z in
  do m1 <- mg_add_count2 (set_adj m adj1) a delta;
  mg_add_count2 m1 b delta.

(* ====================================================================== *)
(* smiles_to_mol                                                          *)
(* ====================================================================== *)
(* state of one call of _derive_mol_from_tokens; stacks have their top first.
   Atom objects on the stacks are represented by their index in the graph
   (every Atom on a stack has been added to the graph). *)
Record pstate := {
  p_mol : emol;
  p_i : nat;                                       (* running attribution index *)
  p_tok : option token;                            (* tok *)
  p_prev : list (option nat);                      (* prev_stack *)
  p_branch : list token;                           (* branch_stack *)
  p_rings : list (str * (token * nat * nat));      (* ring_log: symbol -> (tok, latom, lpos) *)
  p_chain_start : bool
}.

(* _attach_atom *)
Definition attach_atom (m : emol) (tok : token) (a : atom) (prev : option nat) (i : nat)
  : res (emol * nat * nat) :=
  let is_root := match prev with None => true | Some _ => false end in
  let i := match t_bond tok with Some _ => S i | None => i end in       (* if bond_char: i += 1 *)
  let '(m1, idx) := mg_add_atom m a is_root in
  let at_ := [(i, t_text tok)] in                                       (* [Attribution(i, str(tok))] *)
  do m2 <- mg_add_attr_atom m1 idx at_;
  match prev with
  | None => Ok (m2, idx, i)
  | Some src =>
    let '(order2, stereo) := smiles_to_bond2 (t_bond tok) in
    do pa <- mg_get_atom m2 src;
    let order2 := if a_aromatic (fst pa) && a_aromatic a
                     && match t_bond tok with None => true | Some _ => false end
                  then order2_aromatic else order2 in
    do m3 <- mg_add_bond m2 src idx order2 stereo
                         (if m_attributable m2 then Some at_ else None);
    Ok (m3, idx, i)
  end.

Definition optN_eqb (a b : option N) : bool :=
  match a, b with
  | None, None => true
  | Some x, Some y => N.eqb x y
  | _, _ => false
  end.

(* _make_ring_bonds *)
Definition make_ring_bonds (m : emol) (ltoken : token) (latom lpos : nat) (rtoken : token)
           (ratom : nat) : res emol :=
  if latom =? ratom then Err SMILESParserError else       (* ring bond between an atom and itself *)
  if mg_has_bond m latom ratom then Err SMILESParserError else
  let lb := t_bond ltoken in let rb := t_bond rtoken in
  let '(b0, b1) := match lb with None => (rb, lb) | Some _ => (lb, rb) end in
  let all_stereo := match b0, b1 with
                    | Some x, Some y => is_stereo_char x && is_stereo_char y
                    | _, _ => false
                    end in
  if negb (optN_eqb b0 b1 || match b1 with None => true | Some _ => false end || all_stereo)
  then Err SMILESParserError else                          (* mismatched ring bonds *)
  let '(lorder, lstereo) := smiles_to_bond2 lb in
  let '(rorder, rstereo) := smiles_to_bond2 rb in
  do la <- mg_get_atom m latom;
  do ra <- mg_get_atom m ratom;
  let both_none := match b0, b1 with None, None => true | _, _ => false end in
  let '(lorder, rorder) := if a_aromatic (fst la) && a_aromatic (fst ra) && both_none
                           then (order2_aromatic, order2_aromatic) else (lorder, rorder) in
  mg_add_ring_bond m latom ratom (Z.max lorder rorder) lstereo rstereo (Some lpos) None.

Fixpoint ring_log_find (l : list (str * (token * nat * nat))) (k : str) : option (token * nat * nat) :=
  match l with
  | [] => None
  | (k', v) :: r => if str_eqb k k' then Some v else ring_log_find r k
  end.
Fixpoint ring_log_remove (l : list (str * (token * nat * nat))) (k : str) : list (str * (token * nat * nat)) :=
  match l with
  | [] => []
  | (k', v) :: r => if str_eqb k k' then r else (k', v) :: ring_log_remove r k
  end.

(* prev_atom.index *)
Definition atom_index (prev : option nat) : res nat :=
  match prev with Some i => Ok i | None => Err AttributeError end.

(* the `while tokens:` loop of _derive_mol_from_tokens; returns the state at
   loop exit and the tokens left in the deque *)
Fixpoint derive_loop (ts : list token) (st : pstate) : res (pstate * list token) :=
  match ts with
  | [] => Ok (st, [])
  | tok :: rest =>
    match p_prev st with
    | [] => Err IndexError                                    (* prev_stack[-1] *)
    | prev_atom :: below =>
      let mk m i prevs branch rings cs :=
        {| p_mol := m; p_i := i; p_tok := Some tok; p_prev := prevs; p_branch := branch;
           p_rings := rings; p_chain_start := cs |} in
      match t_type tok with
      | TDot =>                                               (* break (i is not incremented) *)
          Ok (mk (p_mol st) (p_i st) (p_prev st) (p_branch st) (p_rings st) (p_chain_start st), rest)
      | TAtom =>
          do oa <- smiles_to_atom (t_text tok);
          match oa with
          | None => Err SMILESParserError                     (* invalid atom symbol *)
          | Some a =>
              do (m', idx, i') <- attach_atom (p_mol st) tok a prev_atom (p_i st);
              derive_loop rest (mk m' (S i') (Some idx :: below) (p_branch st) (p_rings st) false)
          end
      | TBranch =>
          if p_chain_start st then Err SMILESParserError else  (* chain begins with non-atom *)
          if str_eqb (t_text tok) (lit "(") then
            derive_loop rest (mk (p_mol st) (S (p_i st)) (prev_atom :: p_prev st)
                                 (tok :: p_branch st) (p_rings st) true)
          else
            match p_branch st with
            | [] => Err SMILESParserError                     (* hanging ')' bracket *)
            | _ :: branch' =>
                derive_loop rest (mk (p_mol st) (S (p_i st)) below branch' (p_rings st)
                                     (p_chain_start st))
            end
      | TRing =>
          if p_chain_start st then Err SMILESParserError else
          match ring_log_find (p_rings st) (t_text tok) with
          | None =>
              do src <- atom_index prev_atom;
              do (m', lpos) <- mg_add_placeholder_bond (p_mol st) src;
              derive_loop rest (mk m' (S (p_i st)) (p_prev st) (p_branch st)
                                   (p_rings st ++ [(t_text tok, (tok, src, lpos))])
                                   (p_chain_start st))
          | Some (ltoken, latom, lpos) =>
              do ratom <- atom_index prev_atom;
              do m' <- make_ring_bonds (p_mol st) ltoken latom lpos tok ratom;
              derive_loop rest (mk m' (S (p_i st)) (p_prev st) (p_branch st)
                                   (ring_log_remove (p_rings st) (t_text tok))
                                   (p_chain_start st))
          end
      end
    end
  end.

(* _derive_mol_from_tokens: returns the graph, the new i and the remaining tokens *)
Definition derive_mol_from_tokens (m : emol) (ts : list token) (i : nat)
  : res (emol * nat * list token) :=
  let st0 := {| p_mol := m; p_i := i; p_tok := None; p_prev := [None]; p_branch := [];
                p_rings := []; p_chain_start := true |} in
  do (st, rest) <- derive_loop ts st0;
  if mg_len (p_mol st) =? 0 then Err SMILESParserError else      (* empty SMILES fragment *)
  match p_branch st with
  | _ :: _ => Err SMILESParserError                               (* hanging '(' bracket *)
  | [] =>
    match p_rings st with
    | _ :: _ => Err SMILESParserError                             (* hanging ring number *)
    | [] => Ok (p_mol st, p_i st, rest)
    end
  end.

(* while tokens: i = _derive_mol_from_tokens(...) ; every call pops at least one token *)
Fixpoint fragments_loop (fuel : nat) (m : emol) (ts : list token) (i : nat) : res emol :=
  match fuel with O => Err OutOfFuel | S f =>
  match ts with
  | [] => Ok m
  | _ => do (m', i', rest) <- derive_mol_from_tokens m ts i;
         fragments_loop f m' rest i'
  end end.

Definition smiles_to_mol (smiles : str) (attributable : bool) : res emol :=
  match smiles with
  | [] => Err SMILESParserError                                   (* empty SMILES *)
  | _ => do ts <- tokenize_smiles smiles;
         fragments_loop (S (length ts)) (mg_empty attributable) ts 0
  end.
