(* Grammar.v — grammar_rules.py: index code, branch/ring symbol tables,
   (state functions come from Generated.v).  Definitions only. *)
From Coq Require Import Ascii String List Arith ZArith NArith Bool.
Import ListNotations.
From Selfies Require Import Base Generated.

Definition index_base : N := N.of_nat (length index_code).       (* len(INDEX_CODE) *)
Definition alphabet_base : N := N.of_nat (length index_alphabet). (* len(INDEX_ALPHABET) *)

(* INDEX_CODE.get(c, 0); c = None (missing symbol) is not a key *)
Definition index_digit (c : option str) : N :=
  match c with
  | None => 0%N
  | Some s => match assoc s index_code with Some d => d | None => 0%N end
  end.

(* get_index_from_selfies: sum over reversed positions *)
Fixpoint index_sum (rev_syms : list (option str)) (i : N) : N :=
  match rev_syms with
  | [] => 0%N
  | c :: r => (index_digit c * index_base ^ i + index_sum r (i + 1))%N
  end.
Definition get_index_from_selfies (syms : list (option str)) : N := index_sum (rev syms) 0.

(* get_selfies_from_index(index) *)
Fixpoint syms_of_digits (ds : list N) : res (list str) :=
  match ds with
  | [] => Ok []
  | d :: r => match nth_error index_alphabet (N.to_nat d) with
              | Some s => do t <- syms_of_digits r; Ok (s :: t)
              | None => Err IndexError
              end
  end.

Definition get_selfies_from_index (index : Z) : res (list str) :=
  if (index <? 0)%Z then Err IndexError else
  let n := Z.to_N index in
  match index_alphabet with
  | [] => Err IndexError
  | a0 :: _ =>
    if (n =? 0)%N then Ok [a0] else syms_of_digits (digits alphabet_base n)
  end.

Definition process_branch_symbol (s : str) : option (Z * nat) := assoc s branch_cache.
Definition process_ring_symbol (s : str) : option (Z * nat * (option N * option N)) := assoc s ring_cache.
