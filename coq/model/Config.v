(* Config.v — bond_constraints.py as a state machine over a small object heap.
   Definitions only.

   Python values crossing the API are objects: the library holds some (preset
   dicts, the current dict, the cached alphabet set), the caller holds others
   (dicts it built, everything the library returned).  Aliasing matters for C12,
   so dicts and sets live in a heap and the API passes object ids. *)
From Coq Require Import Ascii String List Arith ZArith NArith Bool.
Import ListNotations.
From Selfies Require Import Base Generated Atoms Grammar.

(* ---------- values ---------- *)
Inductive pyval :=
| VInt (z : Z)                (* int, and bool: True = 1, False = 0 *)
| VOther.                     (* float, str, None, ... : not an int *)

Inductive pykey :=
| KStr (s : str)
| KOther.                     (* a key that is not a str (int, tuple, ...) *)

Inductive obj :=
| ODict (d : list (pykey * pyval))      (* insertion-ordered, keys unique *)
| OSet (s : list str).                  (* set of str; order irrelevant *)

Definition objid := nat.
Definition heap := list obj.             (* object id = position; objects are never freed *)

Definition alloc (h : heap) (o : obj) : heap * objid := (h ++ [o], length h).
Definition hget (h : heap) (i : objid) : option obj := nth_error h i.
Definition hset (h : heap) (i : objid) (o : obj) : heap := upd h i (fun _ => o).

(* a well-typed constraint dict as a table *)
Fixpoint table_of_dict (d : list (pykey * pyval)) : table :=
  match d with
  | [] => []
  | (KStr k, VInt v) :: r => (k, v) :: table_of_dict r
  | _ :: r => table_of_dict r
  end.
Definition dict_of_table (t : table) : list (pykey * pyval) := map (fun '(k, v) => (KStr k, VInt v)) t.

(* ---------- library state ---------- *)
Record lib := {
  l_heap : heap;
  l_presets : list (str * objid);        (* _PRESET_CONSTRAINTS: name -> dict object *)
  l_current : objid;                     (* _current_constraints *)
  l_alpha_cache : option objid;          (* lru_cache of get_semantic_robust_alphabet: the cached set object *)
  l_cap_memo : list (str * Z * Z);       (* lru_cache of get_bonding_capacity: (element, charge) -> capacity *)
  l_atom_cache : list str                (* keys of _PROCESS_ATOM_CACHE (values are table-independent factories) *)
}.

(* module import: three preset dict objects; the current table IS the default preset object *)
Definition init_lib : lib :=
  let h := map (fun '(_, t) => ODict (dict_of_table t)) preset_constraints in
  let ps := combine (map fst preset_constraints) (seq 0 (length preset_constraints)) in
  {| l_heap := h;
     l_presets := ps;
     l_current := match assoc (lit "default") ps with Some i => i | None => 0 end;
     l_alpha_cache := None;
     l_cap_memo := [];
     l_atom_cache := atom_cache_seed |}.

Definition current_dict (st : lib) : list (pykey * pyval) :=
  match hget (l_heap st) (l_current st) with Some (ODict d) => d | _ => [] end.
Definition current_table (st : lib) : table := table_of_dict (current_dict st).

(* ---------- get_preset_constraints / get_semantic_constraints ---------- *)
(* both return dict(...) : a fresh object *)
Definition get_preset_constraints (st : lib) (name : str) : res (lib * objid) :=
  match assoc name (l_presets st) with
  | None => Err ValueError
  | Some i =>
      match hget (l_heap st) i with
      | Some (ODict d) =>
          let '(h, o) := alloc (l_heap st) (ODict d) in
          Ok ({| l_heap := h; l_presets := l_presets st; l_current := l_current st;
                 l_alpha_cache := l_alpha_cache st; l_cap_memo := l_cap_memo st;
                 l_atom_cache := l_atom_cache st |}, o)
      | _ => Err TypeError
      end
  end.

Definition get_semantic_constraints (st : lib) : lib * objid :=
  let '(h, o) := alloc (l_heap st) (ODict (current_dict st)) in
  ({| l_heap := h; l_presets := l_presets st; l_current := l_current st;
      l_alpha_cache := l_alpha_cache st; l_cap_memo := l_cap_memo st;
      l_atom_cache := l_atom_cache st |}, o).

(* ---------- set_semantic_constraints ---------- *)
Definition is_ascii_digit (c : N) : bool := ((48 <=? c) && (c <=? 57))%N.

(* j = max(key.find("+"), key.find("-")); -1 encoded as None *)
Definition last_sign_pos (key : str) : option nat :=
  match find_char 43 key 0, find_char 45 key 0 with
  | Some a, Some b => Some (Nat.max a b)
  | Some a, None => Some a
  | None, Some b => Some b
  | None, None => None
  end.

Definition valid_key (key : str) : bool :=
  if str_eqb key (lit "?") then true else
  match last_sign_pos key with
  | None => mem_str key elements
  | Some j =>
      let c := skipn (S j) key in
      mem_str (firstn j key) elements
      && forallb (fun x => (x <? 128)%N) c        (* c.isascii() *)
      && (negb (Nat.eqb (length c) 0) && forallb is_ascii_digit c)   (* c.isdigit() on an ASCII string *)
      && match c with x :: _ => negb (N.eqb x 48) | [] => false end
  end.

Definition valid_value (v : pyval) : bool :=
  match v with VInt z => (0 <=? z)%Z | VOther => false end.

(* the validation loop: first offending item decides the exception *)
Fixpoint validate_items (d : list (pykey * pyval)) : res unit :=
  match d with
  | [] => Ok tt
  | (KOther, _) :: _ => Err AttributeError           (* key.find on a non-str *)
  | (KStr k, v) :: r =>
      if negb (valid_key k) then Err ValueError
      else if negb (valid_value v) then Err ValueError
      else validate_items r
  end.

Definition has_key (k : str) (d : list (pykey * pyval)) : bool :=
  existsb (fun kv => match fst kv with KStr s => str_eqb s k | KOther => false end) d.

Inductive set_arg :=
| ArgName (name : str)        (* a str *)
| ArgObj (o : objid)          (* a dict (or a set: not a dict) held by the caller *)
| ArgJunk.                    (* None, int, list, ... *)

Definition clear_caches (st : lib) (h : heap) (cur : objid) : lib :=
  {| l_heap := h; l_presets := l_presets st; l_current := cur;
     l_alpha_cache := None; l_cap_memo := []; l_atom_cache := l_atom_cache st |}.

Definition set_semantic_constraints (st : lib) (a : set_arg) : res lib :=
  match a with
  | ArgName name =>
      do (st1, o) <- get_preset_constraints st name;
      Ok (clear_caches st1 (l_heap st1) o)
  | ArgObj i =>
      match hget (l_heap st) i with
      | Some (ODict d) =>
          if negb (has_key (lit "?") d) then Err ValueError else
          do _ <- validate_items d;
          let '(h, o) := alloc (l_heap st) (ODict d) in      (* dict(bond_constraints) *)
          Ok (clear_caches st h o)
      | _ => Err ValueError                                   (* not a str or dict *)
      end
  | ArgJunk => Err ValueError
  end.

(* ---------- get_semantic_robust_alphabet ---------- *)
Definition bond_prefix_orders : list (str * Z) := [([], 1%Z); ([61%N], 2%Z); ([35%N], 3%Z)].

Definition add_unique (x : str) (l : list str) : list str := if mem_str x l then l else l ++ [x].

Definition atom_symbols (t : table) : list str :=
  fold_left (fun acc '(a, c) =>
     fold_left (fun acc '(b, m) =>
        if ((c <? m)%Z || str_eqb a (lit "?")) then acc
        else add_unique (lit "[" ++ b ++ a ++ lit "]") acc) bond_prefix_orders acc) t [].

Definition fixed_symbols : list str :=
  flat_map (fun i => [lit "[Ring" ++ [i] ++ lit "]"; lit "[=Ring" ++ [i] ++ lit "]";
                      lit "[Branch" ++ [i] ++ lit "]"; lit "[=Branch" ++ [i] ++ lit "]";
                      lit "[#Branch" ++ [i] ++ lit "]"]) [49%N; 50%N; 51%N].

Definition compute_alphabet (t : table) : list str :=
  fold_left (fun acc x => add_unique x acc) (fixed_symbols ++ index_alphabet) (atom_symbols t).

(* returns the CACHED object (lru_cache): the same set object on every call until
   the next successful set_semantic_constraints *)
Definition get_semantic_robust_alphabet (st : lib) : lib * objid :=
  match l_alpha_cache st with
  | Some o => (st, o)
  | None =>
      let '(h, o) := alloc (l_heap st) (OSet (compute_alphabet (current_table st))) in
      ({| l_heap := h; l_presets := l_presets st; l_current := l_current st;
          l_alpha_cache := Some o; l_cap_memo := l_cap_memo st; l_atom_cache := l_atom_cache st |}, o)
  end.

(* ---------- the capacity memo (lru_cache of get_bonding_capacity) ---------- *)
Fixpoint memo_find (e : str) (c : Z) (m : list (str * Z * Z)) : option Z :=
  match m with
  | [] => None
  | (e', c', v) :: r => if str_eqb e e' && Z.eqb c c' then Some v else memo_find e c r
  end.

Definition cap_lookup (st : lib) (e : str) (c : Z) : res Z :=
  match memo_find e c (l_cap_memo st) with
  | Some v => Ok v
  | None => get_bonding_capacity (current_table st) e c
  end.

(* ---------- caller-side mutation of objects it holds ---------- *)
Inductive mutation :=
| MSetItem (k : str) (v : pyval)     (* d[k] = v *)
| MDelItem (k : str)                 (* d.pop(k, None) *)
| MAdd (x : str)                     (* s.add(x) *)
| MClear.                            (* .clear() *)

Fixpoint dict_set (d : list (pykey * pyval)) (k : str) (v : pyval) : list (pykey * pyval) :=
  match d with
  | [] => [(KStr k, v)]
  | (KStr k', v') :: r => if str_eqb k k' then (KStr k', v) :: r else (KStr k', v') :: dict_set r k v
  | x :: r => x :: dict_set r k v
  end.
Definition dict_del (d : list (pykey * pyval)) (k : str) : list (pykey * pyval) :=
  filter (fun kv => match fst kv with KStr s => negb (str_eqb s k) | KOther => true end) d.

Definition mutate (h : heap) (i : objid) (m : mutation) : heap :=
  match hget h i, m with
  | Some (ODict d), MSetItem k v => hset h i (ODict (dict_set d k v))
  | Some (ODict d), MDelItem k => hset h i (ODict (dict_del d k))
  | Some (ODict _), MClear => hset h i (ODict [])
  | Some (OSet s), MAdd x => hset h i (OSet (add_unique x s))
  | Some (OSet _), MClear => hset h i (OSet [])
  | _, _ => h
  end.
