(* EncUtils.v — selfies/utils/encoding_utils.py.  Definitions only.
   vocab_stoi : dict str -> int   = list (str * Z)  (insertion order irrelevant here)
   vocab_itos : dict int -> str   = list (Z * str) *)
From Coq Require Import Ascii String List Arith ZArith NArith Bool.
Import ListNotations.
From Selfies Require Import Base Lex.

Definition nop : str := lit "[nop]".

Inductive encoding :=
| Label (l : list Z)
| OneHot (m : list (list Z))
| Both (l : list Z) (m : list (list Z)).

(* "[nop]" * k  (k <= 0 gives "") *)
Definition nops (k : nat) : str := concat (repeat nop k).

(* the for-loop over split_selfies: stops at the first KeyError; if all yielded
   tokens are in the vocabulary and the generator then raises, ValueError *)
Fixpoint encode_tokens (stoi : list (str * Z)) (ts : list str) (bad : bool) : res (list Z) :=
  match ts with
  | [] => if bad then Err ValueError else Ok []
  | t :: r =>
      match assoc t stoi with
      | None => Err KeyError    (* covers both the explicit "." check and vocab_stoi[char] *)
      | Some i => do rest <- encode_tokens stoi r bad; Ok (i :: rest)
      end
  end.

(* letter = [0]*n; letter[index] = 1   (negative indices wrap, out of range raises) *)
Definition one_hot_row (n : nat) (index : Z) : res (list Z) :=
  let zn := Z.of_nat n in
  if ((index <? - zn) || (zn <=? index))%Z then Err IndexError
  else let i := Z.to_nat (if (index <? 0)%Z then index + zn else index)%Z in
       Ok (upd (repeat 0%Z n) i (fun _ => 1%Z)).

Fixpoint one_hot_rows (n : nat) (l : list Z) : res (list (list Z)) :=
  match l with
  | [] => Ok []
  | i :: r => do row <- one_hot_row n i; do rest <- one_hot_rows n r; Ok (row :: rest)
  end.

Definition selfies_to_encoding (s : str) (stoi : list (str * Z)) (pad_to_len : Z) (enc_type : str)
  : res encoding :=
  let is_label := str_eqb enc_type (lit "label") in
  let is_hot := str_eqb enc_type (lit "one_hot") in
  let is_both := str_eqb enc_type (lit "both") in
  if negb (is_label || is_hot || is_both) then Err ValueError else
  let n := Z.of_nat (len_selfies s) in
  let s := if (n <? pad_to_len)%Z then s ++ nops (Z.to_nat (pad_to_len - n)) else s in
  let '(ts, bad) := split_selfies s in
  do ints <- encode_tokens stoi ts bad;
  if is_label then Ok (Label ints) else
  do hot <- one_hot_rows (length stoi) ints;
  if is_hot then Ok (OneHot hot) else Ok (Both ints hot).

(* row.index(1) *)
Fixpoint index_of_one (row : list Z) (i : Z) : res Z :=
  match row with
  | [] => Err ValueError
  | x :: r => if (x =? 1)%Z then Ok i else index_of_one r (i + 1)%Z
  end.

Fixpoint lookup_all (itos : list (Z * str)) (l : list Z) : res (list str) :=
  match l with
  | [] => Ok []
  | i :: r => match assocZ i itos with
              | None => Err KeyError
              | Some s => do rest <- lookup_all itos r; Ok (s :: rest)
              end
  end.

Fixpoint rows_to_ints (rows : list (list Z)) : res (list Z) :=
  match rows with
  | [] => Ok []
  | row :: r => do i <- index_of_one row 0; do rest <- rows_to_ints r; Ok (i :: rest)
  end.

Inductive enc_input := InLabel (l : list Z) | InOneHot (m : list (list Z)).

Definition encoding_to_selfies (e : enc_input) (itos : list (Z * str)) (enc_type : str) : res str :=
  let is_label := str_eqb enc_type (lit "label") in
  let is_hot := str_eqb enc_type (lit "one_hot") in
  if negb (is_label || is_hot) then Err ValueError else
  do ints <- (if is_hot then
                match e with
                | InOneHot m => rows_to_ints m
                | InLabel _ => Err AttributeError    (* int has no .index *)
                end
              else match e with
                   | InLabel l => Ok l
                   | InOneHot _ => Err TypeError      (* list is unhashable as a dict key *)
                   end);
  do syms <- lookup_all itos ints;
  Ok (concat syms).

Fixpoint batch_selfies_to_flat_hot (batch : list str) (stoi : list (str * Z)) (pad_to_len : Z)
  : res (list (list Z)) :=
  match batch with
  | [] => Ok []
  | s :: r =>
      do e <- selfies_to_encoding s stoi pad_to_len (lit "one_hot");
      match e with
      | OneHot m => do rest <- batch_selfies_to_flat_hot r stoi pad_to_len; Ok (concat m :: rest)
      | _ => Err TypeError
      end
  end.

(* flat[M*i : M*(i+1)] for i in range(L) *)
Fixpoint chunks (fuel : nat) (m : nat) (l : list Z) : list (list Z) :=
  match fuel with
  | O => []
  | S f => firstn m l :: chunks f m (skipn m l)
  end.

Fixpoint batch_flat_hot_to_selfies (batch : list (list Z)) (itos : list (Z * str)) : res (list str) :=
  match batch with
  | [] => Ok []
  | flat :: r =>
      let m := length itos in
      if Nat.eqb m 0 then Err ZeroDivisionError else
      if negb (Nat.eqb (Nat.modulo (length flat) m) 0) then Err ValueError else
      let L := Nat.div (length flat) m in
      do s <- encoding_to_selfies (InOneHot (chunks L m flat)) itos (lit "one_hot");
      do rest <- batch_flat_hot_to_selfies r itos;
      Ok (s :: rest)
  end.
