(* Kekulize.v — mol_graph.MolecularGraph.kekulize and _prune_from_ds.
   Bond counts are in half units (see Smiles.v): a count c of the source is the
   integer c2 = 2c here;  int(c) = c2 quot 2 (truncation toward zero),
   c % 1 = (c2 mod 2) / 2.   Definitions only. *)
From Coq Require Import List Arith ZArith NArith Bool.
Import ListNotations.
From Selfies Require Import Base Generated Atoms Decoder Smiles PySet Matching.

(* AROMATIC_VALENCES[element] / VALENCE_ELECTRONS[element] *)
Definition aromatic_valences_of (element : str) : res (list Z) :=
  match assoc element aromatic_valences with Some v => Ok v | None => Err KeyError end.
Definition valence_electrons_of (element : str) : res Z :=
  match assoc element valence_electrons with Some v => Ok v | None => Err KeyError end.
Definition in_aromatic_valences (element : str) : bool :=
  match assoc element aromatic_valences with Some _ => true | None => false end.

(* int(x) for x = c2 / 2 *)
Definition int_of_half (c2 : Z) : Z := Z.quot c2 2.

Definition any_eqZ (x : Z) (l : list Z) : bool := existsb (fun v => (x =? v)%Z) l.

(* valences[-1] *)
Definition last_valence (l : list Z) : res Z :=
  match rev l with v :: _ => Ok v | [] => Err IndexError end.

(* _prune_from_ds(node) *)
Definition prune_from_ds (m : emol) (node : nat) : res bool :=
  match ds_lookup (m_ds m) node with
  | None => Err KeyError
  | Some adj_nodes =>
    match adj_nodes with
    | [] => Ok true                                  (* aromatic atom with no aromatic bonds *)
    | _ =>
      do aa <- mg_get_atom m node;
      let a := fst aa in
      do valences <- aromatic_valences_of (a_element a);
      do c2 <- mg_get_bond_count2 m node;
      (* int(bond_count - 0.5 * len(adj_nodes)) *)
      let used := int_of_half (c2 - Z.of_nat (length adj_nodes)) in
      match a_hcount a with
      | None =>
          if negb (a_charge a =? 0)%Z then Err AssertionError else
          Ok (any_eqZ used valences)
      | Some h =>
          let h := Z.of_N h in
          let charge := a_charge a in
          do vlast <- last_valence valences;
          let valence := (vlast - charge)%Z in
          let used := (used + h)%Z in
          (* max(0, charge) + h_count + int(bc) + int(2 * (bc % 1)) *)
          let bound := (Z.max 0 charge + h + int_of_half c2 + (c2 mod 2))%Z in
          do ve <- valence_electrons_of (a_element a);
          let radical := (Z.max 0 (ve - bound) mod 2)%Z in
          let free := (valence - used - radical)%Z in
          if existsb (fun v => (used =? v - charge)%Z) valences then Ok true
          else Ok (negb ((0 <=? free)%Z && negb (free mod 2 =? 0)%Z))
      end
    end
  end.

(* any(ds[v] and (atoms[v].element not in AROMATIC_VALENCES) for v in ds) *)
Fixpoint any_bad_element (m : emol) (ds : list (nat * list nat)) : res bool :=
  match ds with
  | [] => Ok false
  | (v, []) :: r => any_bad_element m r
  | (v, _ :: _) :: r =>
      do aa <- mg_get_atom m v;
      if negb (in_aromatic_valences (a_element (fst aa))) then Ok true else any_bad_element m r
  end.

(* itertools.filterfalse(self._prune_from_ds, ds), in dict order *)
Fixpoint kept_nodes_of (m : emol) (keys : list nat) : res (list nat) :=
  match keys with
  | [] => Ok []
  | k :: r => do p <- prune_from_ds m k;
              do rest <- kept_nodes_of m r;
              Ok (if p then rest else k :: rest)
  end.

(* sorted(kept_nodes) — insertion sort *)
Fixpoint insert_sorted (x : nat) (l : list nat) : list nat :=
  match l with
  | [] => [x]
  | y :: r => if x <=? y then x :: l else y :: insert_sorted x r
  end.
Definition sort_nat (l : list nat) : list nat := fold_right insert_sorted [] l.

(* node_to_label as a table indexed by node: entry v is Some label iff v is kept.
   [sorted] is label_to_node (ascending); v runs over 0 .. n-1. *)
Fixpoint label_table (n : nat) (v : nat) (label : nat) (sorted : list nat) : list (option nat) :=
  match n with
  | O => []
  | S n' =>
    match sorted with
    | x :: r => if x =? v then Some label :: label_table n' (S v) (S label) r
                else None :: label_table n' (S v) label sorted
    | [] => None :: label_table n' (S v) label []
    end
  end.

(* [node_to_label[adj] for adj in ds[node] if adj in kept_nodes] *)
Fixpoint relabel (labels : list (option nat)) (adjs : list nat) : list nat :=
  match adjs with
  | [] => []
  | a :: r => match nth_error labels a with
              | Some (Some l) => l :: relabel labels r
              | _ => relabel labels r
              end
  end.

(* pruned_ds: one adjacency list per label.  The source fills the lists while
   iterating over the *set* kept_nodes, but each list pruned_ds[label] receives
   only the items of ds[label_to_node[label]], in that list's order, so the
   iteration order of the set is immaterial. *)
Fixpoint pruned_ds_of (m : emol) (labels : list (option nat)) (sorted : list nat) : res graph :=
  match sorted with
  | [] => Ok []
  | node :: r =>
    match ds_lookup (m_ds m) node with
    | None => Err KeyError
    | Some adjs => do rest <- pruned_ds_of m labels r; Ok (relabel labels adjs :: rest)
    end
  end.

(* for node in ds: for adj in ds[node]: update_bond_order(node, adj, 1) *)
Fixpoint set_single_bonds (m : emol) (node : nat) (adjs : list nat) : res emol :=
  match adjs with
  | [] => Ok m
  | adj :: r => do m' <- mg_update_bond_order m node adj 2; set_single_bonds m' node r
  end.

Definition clear_aromatic (a : atom) : atom :=
  {| a_element := a_element a; a_aromatic := false; a_isotope := a_isotope a;
     a_chirality := a_chirality a; a_hcount := a_hcount a; a_charge := a_charge a |}.

Fixpoint dearomatize (m : emol) (ds : list (nat * list nat)) : res emol :=
  match ds with
  | [] => Ok m
  | (node, adjs) :: r =>
    do m1 <- set_single_bonds m node adjs;
    do atoms' <- lupd (m_atoms m1) node (fun p => (clear_aromatic (fst p), snd p));
    (* self._bond_counts[node] = int(self._bond_counts[node]) *)
    do counts' <- lupd (m_counts2 m1) node (fun c2 => (2 * int_of_half c2)%Z);
    dearomatize (set_counts2 (set_atoms m1 atoms') counts') r
  end.

(* for matched_labels in enumerate(matching): update_bond_order(nodes..., new_order=2) *)
Fixpoint set_double_bonds (m : emol) (label_to_node : list nat) (pairs : list (nat * option nat))
  : res emol :=
  match pairs with
  | [] => Ok m
  | (i, oj) :: r =>
    do a <- lget label_to_node i;
    match oj with
    | None => Err TypeError                            (* label_to_node[None] *)
    | Some j =>
      do b <- lget label_to_node j;
      do m' <- mg_update_bond_order m a b 4;
      set_double_bonds m' label_to_node r
    end
  end.

(* kekulize(): None = returned False (graph untouched), Some m' = returned True *)
Definition kekulize (m : emol) : res (option emol) :=
  if ds_is_empty (m_ds m) then Ok (Some m) else         (* is_kekulized() *)
  let ds := ds_items (m_ds m) in
    do bad <- any_bad_element m ds;
    if bad then Ok None else
    do kept <- kept_nodes_of m (ds_keys (m_ds m));
    let label_to_node := sort_nat kept in
    let labels := label_table (mg_len m) 0 0 label_to_node in
    do pruned <- pruned_ds_of m labels label_to_node;
    do om <- find_perfect_matching pruned;
    match om with
    | None => Ok None
    | Some mt =>
      do m1 <- dearomatize m ds;
      do m2 <- set_double_bonds m1 label_to_node (enum_from 0 mt);
      Ok (Some (set_ds m2 ds_empty))
    end.

(* pruned delocalization subgraph alone (harness statistics / direct comparison) *)
Definition pruned_ds (m : emol) : res graph :=
  do kept <- kept_nodes_of m (ds_keys (m_ds m));
  let label_to_node := sort_nat kept in
  pruned_ds_of m (label_table (mg_len m) 0 0 label_to_node) label_to_node.
