(* Atoms.v — atoms, bonds and their two textual grammars.
   Mirrors: mol_graph.Atom, bond_constraints.get_bonding_capacity,
   grammar_rules.SELFIES_ATOM_PATTERN/_process_atom_selfies_no_cache/process_atom_symbol,
   smiles_utils.SMILES_BRACKETED_ATOM_PATTERN/smiles_to_atom/smiles_to_bond/
   atom_to_smiles/bond_to_smiles.   Definitions only. *)
From Coq Require Import Ascii String List Arith ZArith NArith Bool.
Import ListNotations.
From Selfies Require Import Base Generated.

(* ---------- character classes of the running interpreter ---------- *)
Fixpoint in_ranges (c : N) (rs : list (N * N)) : bool :=
  match rs with
  | [] => false
  | (lo, hi) :: r => ((lo <=? c) && (c <=? hi))%N || in_ranges c r
  end.
Definition isdigit (c : N) : bool := in_ranges c isdigit_ranges.
Definition isnumeric (c : N) : bool := in_ranges c isnumeric_ranges.
Definition isalpha (c : N) : bool := in_ranges c isalpha_ranges.

(* regex \d == str.isdecimal; value as int() reads it *)
Fixpoint decimal_val_in (c : N) (zs : list N) : option N :=
  match zs with
  | [] => None
  | z :: r => if ((z <=? c) && (c <=? z + 9))%N then Some (c - z)%N else decimal_val_in c r
  end.
Definition decimal_val (c : N) : option N := decimal_val_in c decimal_zeros.
Definition isdecimal (c : N) : bool := match decimal_val c with Some _ => true | None => false end.

Definition is_upper (c : N) : bool := ((65 <=? c) && (c <=? 90))%N.
Definition is_lower (c : N) : bool := ((97 <=? c) && (c <=? 122))%N.
Definition is_19 (c : N) : bool := ((49 <=? c) && (c <=? 57))%N.
Definition is_09 (c : N) : bool := ((48 <=? c) && (c <=? 57))%N.
Definition to_upper (c : N) : N := if is_lower c then (c - 32)%N else c.
Definition to_lower (c : N) : N := if is_upper c then (c + 32)%N else c.
(* str.capitalize on ASCII letters *)
Definition capitalize (s : str) : str :=
  match s with [] => [] | c :: r => to_upper c :: map to_lower r end.

(* int(s) for a string of decimal characters; CPython refuses > limit digits *)
Definition int_of_decimals (s : str) : res N :=
  if (int_max_str_digits <? N.of_nat (length s))%N && negb (int_max_str_digits =? 0)%N then Err ValueError
  else
    (fix go (s : str) (acc : N) : res N :=
       match s with
       | [] => Ok acc
       | c :: r => match decimal_val c with
                   | Some d => go r (acc * 10 + d)%N
                   | None => Err ValueError
                   end
       end) s 0%N.

(* longest prefix satisfying p *)
Fixpoint span (p : N -> bool) (s : str) : str * str :=
  match s with
  | [] => ([], [])
  | c :: r => if p c then let '(a, b) := span p r in (c :: a, b) else ([], s)
  end.

(* ---------- atoms ---------- *)
Record atom := {
  a_element : str;
  a_aromatic : bool;
  a_isotope : option N;
  a_chirality : option str;
  a_hcount : option N;
  a_charge : Z
}.

Definition table := list (str * Z).   (* insertion-ordered dict str -> int *)

Definition constraint_key (element : str) (charge : Z) : str :=
  if (charge =? 0)%Z then element else element ++ str_of_Z_signed charge.

(* bond_constraints.get_bonding_capacity *)
Definition get_bonding_capacity (T : table) (element : str) (charge : Z) : res Z :=
  match assoc (constraint_key element charge) T with
  | Some v => Ok v
  | None => match assoc (lit "?") T with Some v => Ok v | None => Err KeyError end
  end.

(* Atom.bonding_capacity; [capf] is whatever answers get_bonding_capacity(element, charge):
   the table itself, or the memoised lookup of Config.v *)
Definition capfun := str -> Z -> res Z.
Definition bonding_capacity_c (capf : capfun) (a : atom) : res Z :=
  do c <- capf (a_element a) (a_charge a);
  Ok (c - match a_hcount a with None => 0 | Some h => Z.of_N h end)%Z.
Definition bonding_capacity (T : table) (a : atom) : res Z := bonding_capacity_c (get_bonding_capacity T) a.

Definition invert_chirality (a : atom) : atom :=
  let flip := match a_chirality a with
              | Some c => if str_eqb c (lit "@") then Some (lit "@@")
                          else if str_eqb c (lit "@@") then Some (lit "@") else Some c
              | None => None end in
  {| a_element := a_element a; a_aromatic := a_aromatic a; a_isotope := a_isotope a;
     a_chirality := flip; a_hcount := a_hcount a; a_charge := a_charge a |}.

(* ---------- bonds ---------- *)
(* smiles_to_bond, integral orders only (SELFIES side: never ':') *)
Definition is_stereo_char (c : N) : bool := mem_N c smiles_stereo_bonds.

Fixpoint assocN {A} (k : N) (l : list (N * A)) : option A :=
  match l with [] => None | (k', v) :: r => if N.eqb k k' then Some v else assocN k r end.

(* order in HALF units *)
Definition smiles_to_bond2 (bc : option N) : Z * option N :=
  let order2 := match bc with
                | None => 2%Z
                | Some c => match assocN c smiles_bond_orders2 with Some o => o | None => 2%Z end
                end in
  let stereo := match bc with Some c => if is_stereo_char c then Some c else None | None => None end in
  (order2, stereo).

(* bond_to_smiles on an integral order *)
Definition bond_to_smiles (order : Z) (stereo : option N) : res str :=
  if (order =? 1)%Z then
    Ok (match stereo with Some c => if is_stereo_char c then [c] else [] | None => [] end)
  else if (order =? 2)%Z then Ok (lit "=")
  else if (order =? 3)%Z then Ok (lit "#")
  else Err ValueError.

(* ---------- atom_to_smiles ---------- *)
Definition atom_to_smiles (a : atom) (brackets : bool) : res str :=
  if a_aromatic a then Err AssertionError else
  match a_isotope a, a_chirality a, a_hcount a, (a_charge a =? 0)%Z with
  | None, None, None, true => Ok (a_element a)
  | iso, chi, hc, ch0 =>
      let s_iso := match iso with Some n => str_of_N n | None => [] end in
      let s_chi := match chi with Some c => c | None => [] end in
      let s_h := match hc with
                 | None => lit "HNone"          (* "H" + str(None): h_count != 0 holds for None *)
                 | Some 0%N =>
                     match iso, chi, ch0 with
                     | None, None, true => if mem_str (a_element a) organic_subset then lit "H0" else []
                     | _, _, _ => []
                     end
                 | Some h => ch "H" :: str_of_N h
                 end in
      let s_ch := if ch0 then [] else str_of_Z_signed (a_charge a) in
      Ok ((if brackets then lit "[" else []) ++ s_iso ++ a_element a ++ s_chi ++ s_h ++ s_ch
          ++ (if brackets then lit "]" else []))
  end.

(* ---------- SELFIES atom symbols ---------- *)
Definition is_bond_prefix (c : N) : bool := mem_N c (lit "=#/\").

Record sym_fields := {
  f_bond : option N; f_iso : str; f_elem : str; f_chi : str; f_h : str; f_charge : str
}.

(* SELFIES_ATOM_PATTERN.match(symbol).groups(); the pattern is deterministic
   (every quantified class is disjoint from what may follow it), so greedy
   left-to-right scanning equals the backtracking matcher. *)
Definition match_selfies_atom (symbol : str) : option sym_fields :=
  match symbol with
  | c0 :: s1 =>
    if negb (N.eqb c0 91) then None else
    let '(bond, s2) := match s1 with
                       | c :: r => if is_bond_prefix c then (Some c, r) else (None, s1)
                       | [] => (None, s1) end in
    let '(iso, s3) := span is_09 s2 in
    match s3 with
    | e1 :: s4 =>
      if negb (is_upper e1) then None else
      let '(elem, s5) := match s4 with
                         | e2 :: r => if is_lower e2 then ([e1; e2], r) else ([e1], s4)
                         | [] => ([e1], s4) end in
      let '(chi, s6) := if prefix_of (lit "@@") s5 then (lit "@@", skipn 2 s5)
                        else if prefix_of (lit "@") s5 then (lit "@", skipn 1 s5)
                        else ([], s5) in
      let '(h, s7) := match s6 with
                      | c :: d :: r => if N.eqb c 72 && is_09 d then ([c; d], r) else ([], s6)
                      | _ => ([], s6) end in
      let '(chg, s8) := match s7 with
                        | sg :: r =>
                            if (N.eqb sg 43 || N.eqb sg 45) then
                              (* [1-9][0-9]* *)
                              match r with
                              | d1 :: r1 =>
                                  if is_19 d1 then
                                    let '(ds, r') := span is_09 r1 in (sg :: d1 :: ds, r')
                                  else ([], s7)
                              | [] => ([], s7)
                              end
                            else ([], s7)
                        | [] => ([], s7) end in
      if str_eqb s8 (lit "]")
      then Some {| f_bond := bond; f_iso := iso; f_elem := elem; f_chi := chi;
                   f_h := h; f_charge := chg |}
      else None
    | [] => None
    end
  | [] => None
  end.

Definition sign_of (c : N) : Z := if N.eqb c 43 then 1%Z else (-1)%Z.

(* _process_atom_selfies_no_cache: Some ((order, stereo), atom) *)
Definition process_atom_nocache (symbol : str) : res (option (Z * option N * atom)) :=
  match match_selfies_atom symbol with
  | None => Ok None
  | Some f =>
    let '(order2, stereo) := smiles_to_bond2 (f_bond f) in
    let order := (order2 / 2)%Z in
    let body := slice symbol (1 + match f_bond f with Some _ => 1 | None => 0 end) (length symbol - 1) in
    if mem_str body organic_subset then
      Ok (Some (order, stereo,
                {| a_element := f_elem f; a_aromatic := false; a_isotope := None;
                   a_chirality := None; a_hcount := None; a_charge := 0 |}))
    else
      do iso <- match f_iso f with [] => Ok None | ds => do n <- int_of_decimals ds; Ok (Some n) end;
      if negb (mem_str (f_elem f) elements) then Ok None else
      let chi := match f_chi f with [] => None | c => Some c end in
      do h <- match f_h f with [] => Ok 0%N | _ :: ds => int_of_decimals ds end;
      do chg <- match f_charge f with
                | [] => Ok 0%Z
                | sg :: ds => do n <- int_of_decimals ds; Ok (Z.of_N n * sign_of sg)%Z
                end;
      Ok (Some (order, stereo,
                {| a_element := f_elem f; a_aromatic := false; a_isotope := iso;
                   a_chirality := chi; a_hcount := Some h; a_charge := chg |}))
  end.

(* process_atom_symbol (the memo is transparent: see Config.v) *)
Definition process_atom_symbol_c (capf : capfun) (symbol : str)
  : res (option (Z * option N * atom * Z)) :=
  do o <- process_atom_nocache symbol;
  match o with
  | None => Ok None
  | Some (order, stereo, a) =>
      do cap <- bonding_capacity_c capf a;
      if (cap <? 0)%Z then Ok None else Ok (Some (order, stereo, a, cap))
  end.
Definition process_atom_symbol (T : table) := process_atom_symbol_c (get_bonding_capacity T).

(* ---------- SMILES bracket atoms ---------- *)
Definition is_letter (c : N) : bool := is_upper c || is_lower c.

Record br_fields := {
  g_iso : str; g_elem : str; g_chi : str; g_h : str; g_charge : str; g_class : str
}.

Definition match_bracket_atom (symbol : str) : option br_fields :=
  match symbol with
  | c0 :: s1 =>
    if negb (N.eqb c0 91) then None else
    let '(iso, s3) := span isdecimal s1 in
    match s3 with
    | e1 :: s4 =>
      if negb (is_letter e1) then None else
      let '(elem, s5) := match s4 with
                         | e2 :: r => if is_lower e2 then ([e1; e2], r) else ([e1], s4)
                         | [] => ([e1], s4) end in
      let '(chi, s6) := if prefix_of (lit "@@") s5 then (lit "@@", skipn 2 s5)
                        else if prefix_of (lit "@") s5 then (lit "@", skipn 1 s5)
                        else ([], s5) in
      let '(h, s7) := match s6 with
                      | c :: r => if N.eqb c 72 then
                                    match r with
                                    | d :: r' => if isdecimal d then ([c; d], r') else ([c], r)
                                    | [] => ([c], r)
                                    end
                                  else ([], s6)
                      | [] => ([], s6) end in
      (* (?:[+]+|[-]+|[+-]\d+)? followed by (?::\d+)?\]$ : alternatives in order,
         a later one is tried only if the rest cannot match after the earlier one *)
      let tail_ok (s : str) : option str :=   (* returns class text if (?::\d+)?\]$ matches *)
        if str_eqb s (lit "]") then Some [] else
        match s with
        | c :: r => if N.eqb c 58 then
                      let '(ds, r') := span isdecimal r in
                      match ds with
                      | _ :: _ => if str_eqb r' (lit "]") then Some (c :: ds) else None
                      | [] => None end
                    else None
        | [] => None end in
      let try_sign (sg : N) : option (str * str) :=   (* [+]+ or [-]+ *)
        let '(run, r) := span (N.eqb sg) s7 in
        match run with
        | [] => None
        | _ => match tail_ok r with Some cl => Some (run, cl) | None => None end
        end in
      let try_num : option (str * str) :=
        match s7 with
        | sg :: r => if (N.eqb sg 43 || N.eqb sg 45) then
                       let '(ds, r') := span isdecimal r in
                       match ds with
                       | [] => None
                       | _ => match tail_ok r' with Some cl => Some (sg :: ds, cl) | None => None end
                       end
                     else None
        | [] => None end in
      let res :=
        match try_sign 43%N with Some x => Some x | None =>
        match try_sign 45%N with Some x => Some x | None =>
        match try_num with Some x => Some x | None =>
        match tail_ok s7 with Some cl => Some ([], cl) | None => None end end end end in
      match res with
      | Some (chg, cl) => Some {| g_iso := iso; g_elem := elem; g_chi := chi; g_h := h;
                                  g_charge := chg; g_class := cl |}
      | None => None
      end
    | [] => None
    end
  | [] => None
  end.

Definition all_lower (s : str) : bool := forallb is_lower s.

(* smiles_to_atom *)
Definition smiles_to_atom (sym : str) : res (option atom) :=
  match sym with
  | [] => Err IndexError
  | c0 :: _ =>
    if (N.eqb c0 91 && match last_char sym with Some c => N.eqb c 93 | None => false end) then
      match match_bracket_atom sym with
      | None => Ok None
      | Some g =>
        do iso <- match g_iso g with [] => Ok None | ds => do n <- int_of_decimals ds; Ok (Some n) end;
        let arom := all_lower (g_elem g) && mem_str (g_elem g) aromatic_subset in
        let elem := capitalize (g_elem g) in
        if negb (mem_str elem elements) then Ok None else
        let chi := match g_chi g with [] => None | c => Some c end in
        do h <- match g_h g with
                | [] => Ok 0%N
                | [_] => Ok 1%N
                | _ :: ds => int_of_decimals ds end;
        do chg <- match g_charge g with
                  | [] => Ok 0%Z
                  | sg :: rest =>
                      match last_char (sg :: rest) with
                      | Some l => if isdigit l
                                  then do n <- int_of_decimals rest; Ok (Z.of_N n * sign_of sg)%Z
                                  else Ok (Z.of_nat (length (sg :: rest)) * sign_of sg)%Z
                      | None => Ok 0%Z
                      end
                  end;
        Ok (Some {| a_element := elem; a_aromatic := arom; a_isotope := iso;
                    a_chirality := chi; a_hcount := Some h; a_charge := chg |})
      end
    else if mem_str sym organic_subset then
      Ok (Some {| a_element := sym; a_aromatic := false; a_isotope := None; a_chirality := None;
                  a_hcount := None; a_charge := 0 |})
    else if mem_str sym aromatic_subset then
      Ok (Some {| a_element := capitalize sym; a_aromatic := true; a_isotope := None;
                  a_chirality := None; a_hcount := None; a_charge := 0 |})
    else Ok None
  end.
