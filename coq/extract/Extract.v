(* Extract.v — extraction of the executable model and oracles to OCaml.
   ExtrOcamlBasic only (bool, option, unit, list, prod, sumbool, sumor);
   nat / N / Z / positive stay the extracted inductives.  No Extract Constant. *)
From Coq Require Import Extraction ExtrOcamlBasic ZArith NArith List.
From Selfies Require Import Base Generated Lex Atoms Grammar Compat Decoder.
From Selfies Require Import PySet Matching Smiles Kekulize Encoder Config History.
From Selfies Require Import IndexSpec WfSpec EncUtils Reader DocGrammar RoundTrip EncHyp.
Extraction Language OCaml.
Set Extraction AccessOpaque.
Extraction "model.ml"
  Z.add Z.mul Z.opp Z.of_N Z.of_nat N.add N.mul N.of_nat N.to_nat Z.to_N
  lit str_eqb elements default_constraints preset_constraints
  split_selfies split_selfies_list len_selfies get_alphabet_from_selfies
  get_index_from_selfies get_selfies_from_index index_digit
  process_atom_symbol smiles_to_atom atom_to_smiles modernize_symbol
  next_atom_state next_branch_state next_ring_state
  decoder decode_graph run init_world compute_alphabet valid_key
  encoder parse_kekulize tokenize_smiles smiles_to_mol kekulize pruned_ds
  find_perfect_matching greedy_matching greedy_unmatched
  ps_empty ps_run ps_of_list ps_pop ps_discard ps_add ps_keys
  doc_digit doc_value
  render tokens symbols wf_parse
  graph_has_pm is_perfect_matching symbol_in_grammar enc_hyp
  same_molecule same_stereo kekule_ok all_standard has_kekule_structure violates kekule_form
  read_smiles valid_smiles_under simple_graph valence_ok kekule_form grammar_eval smol_eqb
  selfies_to_encoding encoding_to_selfies batch_selfies_to_flat_hot batch_flat_hot_to_selfies.
