(* DecFacts.v — decimal printing and parsing are inverse on canonical digit
   strings (non-empty, ASCII digits, no leading zero): int(c) = n and "{}".format(n) = c. *)
From Coq Require Import Ascii String List Arith ZArith NArith Bool Lia.
Import ListNotations.
From Selfies Require Import Base Generated Atoms BaseFacts TokFacts.
Local Open Scope N_scope.

Lemma horner_snoc base ds d : horner base (ds ++ [d]) = horner base ds * base + d.
Proof. rewrite !horner_unfold, fold_left_app. reflexivity. Qed.

Lemma horner_lt base ds : 0 < base -> Forall (fun d => d < base) ds -> horner base ds < base ^ N.of_nat (length ds).
Proof.
  intros Hb. induction ds as [|d ds IH] using rev_ind; intro F; [cbn; lia|].
  apply Forall_app in F as [F1 F2]. inversion F2 as [|? ? Hd _]; subst.
  rewrite horner_snoc, app_length. cbn [length]. rewrite Nat.add_1_r, Nat2N.inj_succ, N.pow_succ_r'.
  specialize (IH F1). nia.
Qed.

Lemma horner_ge base ds : 2 <= base -> ds <> [] -> 0 < hd 0 ds -> base ^ N.of_nat (length ds - 1) <= horner base ds.
Proof.
  intros Hb. induction ds as [|d ds IH] using rev_ind; intros Hne Hhd; [contradiction|].
  rewrite horner_snoc, app_length. cbn [length]. destruct ds as [|d0 ds'].
  - cbn [app hd length Nat.add Nat.sub] in *. change (horner base []) with 0. change (N.of_nat 0) with 0. rewrite N.pow_0_r. lia.
  - assert (X : (length (d0 :: ds') + 1 - 1 = S (length (d0 :: ds') - 1))%nat) by (cbn [length]; lia).
    rewrite X, Nat2N.inj_succ, N.pow_succ_r'. cbn [app hd] in Hhd.
    specialize (IH ltac:(discriminate) Hhd). nia.
Qed.

Lemma pow_interval_unique base k k' n : 2 <= base -> (1 <= k)%nat -> (1 <= k')%nat ->
  base ^ N.of_nat (k - 1) <= n < base ^ N.of_nat k -> base ^ N.of_nat (k' - 1) <= n < base ^ N.of_nat k' -> k = k'.
Proof.
  intros Hb Hk Hk' [A B] [A' B'].
  destruct (Nat.lt_trichotomy k k') as [L|[E|L]]; [|exact E|]; exfalso.
  - assert (base ^ N.of_nat k <= base ^ N.of_nat (k' - 1)) by (apply N.pow_le_mono_r; lia). lia.
  - assert (base ^ N.of_nat k' <= base ^ N.of_nat (k - 1)) by (apply N.pow_le_mono_r; lia). lia.
Qed.

Lemma horner_inj_len base : 0 < base -> forall a b, length a = length b ->
  Forall (fun d => d < base) a -> Forall (fun d => d < base) b -> horner base a = horner base b -> a = b.
Proof.
  intros Hb. induction a as [|x a IH] using rev_ind; intros b Hl Fa Fb E.
  - destruct b; [reflexivity|discriminate].
  - destruct b as [|y b _] using rev_ind; [rewrite app_length in Hl; cbn in Hl; lia|].
    rewrite !app_length in Hl. cbn [length] in Hl.
    apply Forall_app in Fa as [Fa1 Fa2]. apply Forall_app in Fb as [Fb1 Fb2].
    inversion Fa2 as [|? ? Hx _]; subst. inversion Fb2 as [|? ? Hy _]; subst.
    rewrite !horner_snoc in E.
    assert (Exy : x = y).
    { assert (X1 : (horner base a * base + x) mod base = x) by (rewrite N.add_comm, N.mod_add by lia; apply N.mod_small; exact Hx).
      assert (X2 : (horner base b * base + y) mod base = y) by (rewrite N.add_comm, N.mod_add by lia; apply N.mod_small; exact Hy).
      rewrite E in X1. congruence. }
    subst y. f_equal. apply IH; [lia|exact Fa1|exact Fb1|]. nia.
Qed.

(* canonical digit lists: digits (value) gives them back *)
Theorem digits_horner base ds : 2 <= base -> ds <> [] -> 0 < hd 0 ds -> Forall (fun d => d < base) ds ->
  digits base (horner base ds) = ds.
Proof.
  intros Hb Hne Hhd F. set (n := horner base ds).
  assert (Hn : 0 < n).
  { pose proof (horner_ge base ds Hb Hne Hhd). assert (0 < base ^ N.of_nat (length ds - 1)) by (apply N.neq_0_lt_0, N.pow_nonzero; lia). unfold n. lia. }
  destruct (digits_shape base n Hb) as (Dne & Dhd & Dlt & Dge).
  apply (horner_inj_len base ltac:(lia)).
  - apply (pow_interval_unique base _ _ n Hb).
    + destruct (digits base n); [contradiction|cbn; lia].
    + destruct ds; [contradiction|cbn; lia].
    + split; [apply Dge; exact Hn|exact Dlt].
    + split; [apply horner_ge; assumption|apply horner_lt; [lia|exact F]].
  - apply digits_range. lia.
  - exact F.
  - apply digits_value. exact Hb.
Qed.

(* ---------- strings of ASCII digits ---------- *)
Definition vals (c : str) : list N := map (fun x => x - 48) c.

Lemma decimal_val_09_eq c : is_09 c = true -> decimal_val c = Some (c - 48).
Proof.
  unfold is_09. intro H. apply andb_true_iff in H as [H1 H2]. apply N.leb_le in H1, H2.
  unfold decimal_val.
  assert (Hz : exists r, decimal_zeros = 48 :: r) by (eexists; reflexivity).
  destruct Hz as [r ->]. cbn [decimal_val_in].
  assert (X : ((48 <=? c) && (c <=? 48 + 9)) = true) by (apply andb_true_iff; split; apply N.leb_le; lia).
  rewrite X. reflexivity.
Qed.

Lemma int_of_decimals_value c : Forall (fun x => is_09 x = true) c -> within_limit (length c) ->
  int_of_decimals c = Ok (horner 10 (vals c)).
Proof.
  intros F W. unfold int_of_decimals.
  assert (X : ((int_max_str_digits <? N.of_nat (length c)) && negb (int_max_str_digits =? 0)) = false).
  { destruct W as [Z|L]; [rewrite Z; cbn; now rewrite andb_false_r|apply andb_false_iff; left; apply N.ltb_ge; exact L]. }
  rewrite X. clear X W. rewrite horner_unfold. generalize 0 as acc.
  induction F as [|x r Hx F IH]; intro acc; [reflexivity|].
  rewrite (decimal_val_09_eq x Hx). cbn [vals map fold_left]. unfold hstep at 2. apply IH.
Qed.

Definition canonical (c : str) : Prop :=
  c <> [] /\ Forall (fun x => is_09 x = true) c /\ hd 48 c <> 48.

Lemma vals_canonical c : canonical c -> vals c <> [] /\ 0 < hd 0 (vals c) /\ Forall (fun d => d < 10) (vals c).
Proof.
  intros (Hne & F & Hhd). split; [destruct c; [contradiction|discriminate]|]. split.
  - destruct c as [|x r]; [contradiction|]. cbn in *. inversion F as [|? ? Hx _]; subst.
    unfold is_09 in Hx. apply andb_true_iff in Hx as [H1 H2]. apply N.leb_le in H1, H2. lia.
  - unfold vals. apply Forall_forall. intros d Hd. apply in_map_iff in Hd as (x & <- & Hx).
    rewrite Forall_forall in F. specialize (F x Hx). unfold is_09 in F. apply andb_true_iff in F as [H1 H2]. apply N.leb_le in H1, H2. lia.
Qed.

Theorem str_of_N_int c : canonical c -> str_of_N (horner 10 (vals c)) = c /\ 0 < horner 10 (vals c).
Proof.
  intro Hc. destruct (vals_canonical c Hc) as (Vne & Vhd & VF). pose proof Hc as (_ & F & _).
  split.
  - unfold str_of_N. rewrite (digits_horner 10 (vals c) ltac:(lia) Vne Vhd VF). unfold vals. rewrite map_map.
    rewrite <- (map_id c) at 2. apply map_ext_in. intros x Hx. rewrite Forall_forall in F. specialize (F x Hx).
    unfold is_09 in F. apply andb_true_iff in F as [H1 H2]. apply N.leb_le in H1. lia.
  - pose proof (horner_ge 10 (vals c) ltac:(lia) Vne Vhd).
    assert (0 < 10 ^ N.of_nat (length (vals c) - 1)) by (apply N.neq_0_lt_0, N.pow_nonzero; lia). lia.
Qed.
