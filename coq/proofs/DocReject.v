(* DocReject.v — C02, the rejection side: a derivation the decoder rejects is rejected by the documented
   derivation too (so the decoder accepts exactly the strings of the documented grammar). *)
From Coq Require Import Ascii String List Arith ZArith NArith Bool Lia.
Import ListNotations.
From Selfies Require Import Base Generated Lex Atoms Grammar Decoder IndexSpec Reader DocGrammar WfSpec BaseFacts StateFacts ConfigFacts DecoderBasics
  DecoderInv DeriveOk TokFacts WriterAtoms WriterFinal RingCount DocAtoms DocDerive DocRings DocConverse.
Local Open Scope Z_scope.

(* ---------- the counters keep their length ---------- *)
Definition W (m : dmol) : Prop := length (counts m) = natoms m.

Lemma W_atom m a cap at_ root : W m -> W (fst (add_atom m a cap at_ root)).
Proof. unfold W, natoms, add_atom. cbn [fst counts atoms]. rewrite !app_length. cbn. lia. Qed.

Lemma W_bond m src dst o st at_ m' : W m -> add_bond m src dst o st at_ = Ok m' -> W m'.
Proof.
  unfold W, add_bond. intros H E. destruct (negb _); [discriminate|]. destruct (negb _); [discriminate|]. injection E as <-.
  unfold natoms. cbn [counts atoms]. now rewrite !upd_length.
Qed.

Section Wd.
Variable capf : capfun.
Variable bad : option exn.
Variable aidx : nat.
Lemma derive_W : forall fuel ts m maxd state prev rings astack nd ts' m' rings' nd',
  derive_c capf bad aidx fuel ts m maxd state prev rings astack nd = Ok (ts', m', rings', nd') -> W m -> W m'.
Proof.
  induction fuel as [|f IH]; intros ts m maxd state prev rings astack nd ts' m' rings' nd' E HM; [discriminate|].
  cbn [derive_c] in E. cbv zeta in E.
  assert (Fin : forall ts0 (m0 : dmol) (rings0 : list ringreq) nd0,
            (do (t, n) <- drain ts0 bad maxd nd0; Ok (t, m0, rings0, n)) = Ok (ts', m', rings', nd') -> W m0 -> W m').
  { intros ts0 m0 rings0 nd0 H H0. destruct (drain ts0 bad maxd nd0) as [[t n]|]; cbn [bind] in H; [|discriminate]. now inversion H; subst. }
  assert (Cont : forall ts0 m0 nst prev0 rings0 nd0,
            match nst with
            | None => do (t, n) <- drain ts0 bad maxd nd0; Ok (t, m0, rings0, n)
            | Some st => derive_c capf bad aidx f ts0 m0 maxd st prev0 rings0 astack nd0 end = Ok (ts', m', rings', nd') -> W m0 -> W m').
  { intros ts0 m0 nst prev0 rings0 nd0 H H0. destruct nst; [exact (IH _ _ _ _ _ _ _ _ _ _ _ _ H H0)|exact (Fin _ _ _ _ H H0)]. }
  destruct (negb (below nd maxd)); [exact (Fin _ _ _ _ E HM)|].
  destruct ts as [|[idx sym] rest].
  - unfold raise_or in E. destruct bad; [discriminate|]. exact (Fin _ _ _ _ E HM).
  - destruct (is_branch_like sym).
    { destruct (process_branch_symbol sym) as [[btype n]|]; [|discriminate].
      destruct (state <=? 1); [exact (Cont rest m (Some state) _ _ _ E HM)|].
      destruct (negb (next_branch_state_pre btype state)); [discriminate|].
      destruct (next_branch_state btype state) as [binit nstate].
      destruct (read_index n rest bad [] 0) as [[[syms rest2] nread]|]; cbn [bind] in E; [|discriminate].
      destruct (derive_c capf bad aidx f rest2 m _ binit prev rings _ 0) as [[[[rest3 m2] rings2] nsub]|] eqn:Es; cbn [bind] in E; [|discriminate].
      pose proof (IH _ _ _ _ _ _ _ _ _ _ _ _ Es HM) as HM2. exact (Cont rest3 m2 (Some nstate) _ _ _ E HM2). }
    destruct (is_ring_like sym).
    { destruct (process_ring_symbol sym) as [[[rtype n] [ls rs]]|]; [|discriminate].
      destruct (state =? 0); [exact (Cont rest m (Some state) _ _ _ E HM)|].
      destruct (negb (next_ring_state_pre rtype state)); [discriminate|].
      destruct (next_ring_state rtype state) as [rorder nstate].
      destruct (read_index n rest bad [] 0) as [[[syms rest2] nread]|]; cbn [bind] in E; [|discriminate].
      destruct prev as [| |p]; try discriminate.
      destruct (negb _); [discriminate|]. exact (Cont _ _ _ _ _ _ E HM). }
    destruct (is_eps_like sym); [exact (Cont _ _ _ _ _ _ E HM)|].
    destruct (process_atom_symbol_c capf sym) as [[[[[border stereo] a] cap]|]|]; cbn [bind] in E; try discriminate.
    destruct (next_atom_state border cap state) as [mu nstate].
    destruct (mu =? 0).
    + destruct (state =? 0); [|exact (Cont _ _ _ _ _ _ E HM)].
      destruct (add_atom m a cap _ true) as [m2 i] eqn:Ea. apply (Cont _ _ _ _ _ _ E). change m2 with (fst (m2, i)). rewrite <- Ea. now apply W_atom.
    + destruct (add_atom m a cap _ false) as [m2 i] eqn:Ea. destruct prev as [| |p]; try discriminate.
      destruct (add_bond m2 p i mu stereo _) as [m3|] eqn:Eb; cbn [bind] in E; [|discriminate]. apply (Cont _ _ _ _ _ _ E).
      assert (H2 : W m2) by (change m2 with (fst (m2, i)); rewrite <- Ea; now apply W_atom). exact (W_bond _ _ _ _ _ _ _ H2 Eb).
Qed.
End Wd.

(* ---------- small facts about the symbol classes ---------- *)
Lemma branch_none_doc sym : process_branch_symbol sym = None -> assoc sym branch_symbols = None.
Proof.
  unfold process_branch_symbol. intro H. destruct branch_table_documented as [E _]. rewrite <- E.
  rewrite (assoc_map_snd (fun v => fst v)), H. reflexivity.
Qed.

Lemma ring_none_doc sym : process_ring_symbol sym = None -> assoc sym ring_symbols = None.
Proof.
  unfold process_ring_symbol. intro H. destruct ring_table_documented as [E _]. rewrite <- E.
  rewrite (assoc_map_snd (fun v => (fst (fst v), fst (snd v), snd (snd v)))), H. reflexivity.
Qed.

Lemma branch_not_ring_like sym : is_branch_like sym = true -> is_ring_like sym = false.
Proof.
  unfold is_branch_like, is_ring_like. intro H. apply str_eqb_eq in H. rewrite H. reflexivity.
Qed.

Lemma branch_not_eps sym : is_branch_like sym = true -> str_eqb sym epsilon_symbol = false.
Proof. intro H. destruct (str_eqb sym epsilon_symbol) eqn:E; [|reflexivity]. apply str_eqb_eq in E. subst sym. discriminate H. Qed.

Lemma ring_not_eps sym : is_ring_like sym = true -> str_eqb sym epsilon_symbol = false.
Proof. intro H. destruct (str_eqb sym epsilon_symbol) eqn:E; [|reflexivity]. apply str_eqb_eq in E. subst sym. discriminate H. Qed.

(* ---------- rejections ---------- *)
Section Reject.
Variable T : table.
Hypothesis Hq : exists c, assoc (lit "?") T = Some c.
Variable toks : list str.
Hypothesis Htoks : Forall tok_ok toks.
Variable aidx : nat.

Lemma At_tok ts pos idx sym rest : At toks ts pos -> ts = (idx, sym) :: rest -> tok_ok sym.
Proof.
  intros HA ->. destruct (At_cons _ _ _ _ _ HA) as [Hn _]. rewrite Forall_forall in Htoks. apply Htoks. eapply nth_error_In. exact Hn.
Qed.

Theorem derive_err_sim : forall fuel ts m maxd state prev rings astack nd e,
  derive T None aidx fuel ts m maxd state prev rings astack nd = Err e ->
  forall pos d, At toks ts pos -> Rel m rings d -> W m -> 0 <= state -> prev <> PGhost ->
  (forall p, prev = PAtom p -> (p < natoms m)%nat) ->
  exists e', dd T toks fuel pos (left_of maxd nd) state (cur_of prev) d = Err e'.
Proof.
  induction fuel as [|f IH]; intros ts m maxd state prev rings astack nd e E pos d HA HR HW Hst Hng Hpl; [cbn; eauto|].
  unfold derive in E. cbn [derive_c] in E. cbv zeta in E. fold (derive T) in E.
  assert (Fin : forall ts0 (m0 : dmol) (rings0 : list ringreq) nd0,
            (do (t, n) <- drain ts0 None maxd nd0; Ok (t, m0, rings0, n)) = Err e -> False).
  { intros ts0 m0 rings0 nd0 H. destruct (drain_ok ts0 maxd nd0) as [[t n] Ed]. rewrite Ed in H. discriminate. }
  assert (Cont : forall ts0 m0 nst prev0 rings0 nd0 pos0 d0,
            match nst with
            | None => do (t, n) <- drain ts0 None maxd nd0; Ok (t, m0, rings0, n)
            | Some st => derive T None aidx f ts0 m0 maxd st prev0 rings0 astack nd0 end = Err e ->
            At toks ts0 pos0 -> Rel m0 rings0 d0 -> W m0 ->
            match nst with Some st => 0 <= st /\ prev0 <> PGhost /\ (forall p, prev0 = PAtom p -> (p < natoms m0)%nat) | None => True end ->
            exists e', match nst with
                       | None => Ok (skip toks pos0 (left_of maxd nd0), d0)
                       | Some st => dd T toks f pos0 (left_of maxd nd0) st (cur_of prev0) d0 end = Err e').
  { intros ts0 m0 nst prev0 rings0 nd0 pos0 d0 H HA0 HR0 HW0 Hnst. destruct nst as [st0|]; [|exfalso; exact (Fin _ _ _ _ H)].
    destruct Hnst as (S1 & S2 & S3). exact (IH _ _ _ _ _ _ _ _ _ H pos0 d0 HA0 HR0 HW0 S1 S2 S3). }
  cbn [dd].
  destruct (negb (below nd maxd)) eqn:Ebel; [exfalso; exact (Fin _ _ _ _ E)|].
  apply negb_false_iff in Ebel.
  assert (Hleft : match left_of maxd nd with Some O => False | _ => True end).
  { unfold below in Ebel. destruct maxd as [mx|]; cbn [left_of]; [|exact I]. apply Nat.ltb_lt in Ebel. destruct (mx - nd)%nat eqn:X; [lia|exact I]. }
  destruct ts as [|[idx sym] rest]; [cbn [raise_or] in E; exfalso; exact (Fin _ _ _ _ E)|].
  pose proof (At_tok _ _ _ _ _ HA eq_refl) as Htok.
  destruct (At_cons _ _ _ _ _ HA) as [Hnth HA1]. rewrite Hnth.
  assert (Hl1 : dec (left_of maxd nd) 1 = left_of maxd (S nd)) by (rewrite left_dec; f_equal; lia).
  assert (Hdd : forall X : res (nat * dstate), match left_of maxd nd with Some O => Ok (pos, d) | _ => X end = X).
  { intro X. destruct (left_of maxd nd) as [[|k]|]; [destruct Hleft|reflexivity|reflexivity]. }
  rewrite Hdd. rewrite Hl1.
  destruct (is_branch_like sym) eqn:Ebl.
  { destruct (process_branch_symbol sym) as [[btype n]|] eqn:Epb.
    2:{ rewrite (branch_none_doc _ Epb), (not_ring_like sym (branch_not_ring_like _ Ebl)), (branch_not_eps _ Ebl), (branch_like_not_atom _ Ebl). eauto. }
    destruct (branch_sym_doc _ _ _ Epb) as [Eas Elen]. rewrite Eas.
    destruct (state <=? 1) eqn:Es1.
    - apply (Cont rest m (Some state) prev rings (S nd) (S pos) d E HA1 HR HW). auto.
    - pose proof (branch_pre_holds sym btype n state Epb Es1) as Hpre. rewrite Hpre in E. cbn [negb] in E.
      destruct (next_branch_state btype state) as [binit nstate] eqn:Enb.
      destruct (nbs_spec _ _ _ _ Enb Hpre) as (Hbi & Hns & Hbr & Hns1 & _).
      rewrite read_index_spec in E. cbn [bind rev app] in E.
      rewrite Elen, (read_Q_spec toks rest (S pos) n HA1).
      set (Q := get_index_from_selfies (map (fun j => option_map snd (nth_error rest j)) (seq 0 n))) in *.
      set (got := Nat.min n (length rest)) in *.
      assert (HA2 : At toks (skipn n rest) (S pos + got)).
      { unfold got. destruct (Nat.le_ge_cases n (length rest)) as [L|L].
        - rewrite Nat.min_l by lia. now apply At_skip.
        - rewrite Nat.min_r by lia. rewrite skipn_all2 by lia. pose proof (At_len _ _ _ HA1) as Hl. destruct HA1 as [_ Hp1]. split; [cbn [map]; rewrite skipn_all2 by lia; reflexivity|lia]. }
      rewrite <- Hbi.
      destruct (derive T None aidx f (skipn n rest) m (Some (N.to_nat Q + 1)%nat) binit prev rings _ 0) as [[[[rest3 m2] rings2] nsub]|e1] eqn:Esub; cbn [bind] in E.
      + (* the nested instance succeeds, the rest fails *)
        destruct (derive_sim T toks aidx _ _ _ _ _ _ _ _ _ _ _ _ _ Esub (S pos + got)%nat d HA2 HR ltac:(lia) Hng Hpl) as (pos3 & d2 & D2 & A3 & R2 & C2 & N2 & P2).
        cbn [left_of] in D2. replace (N.to_nat Q + 1 - 0)%nat with (S (N.to_nat Q)) in D2 by lia. rewrite D2. cbn [bind].
        assert (Hl2 : dec (left_of maxd (S nd)) (got + (pos3 - (S pos + got))) = left_of maxd (S nd + (0 + got + nsub))) by (rewrite left_dec; f_equal; lia).
        rewrite Hl2. replace (state - binit) with nstate by lia.
        apply (Cont rest3 m2 (Some nstate) prev rings2 (S nd + (0 + got + nsub))%nat pos3 d2 E A3 R2 (derive_W _ _ _ _ _ _ _ _ _ _ _ _ _ _ _ _ Esub HW)).
        split; [lia|]. split; [exact Hng|]. intros p Hp. specialize (Hpl p Hp). lia.
      + (* the nested instance fails *)
        destruct (IH _ _ _ _ _ _ _ _ _ Esub (S pos + got)%nat d HA2 HR HW ltac:(lia) Hng Hpl) as [e' D2].
        cbn [left_of] in D2. replace (N.to_nat Q + 1 - 0)%nat with (S (N.to_nat Q)) in D2 by lia. rewrite D2. cbn [bind]. eauto. }
  rewrite (not_branch_like sym Ebl).
  destruct (is_ring_like sym) eqn:Erl.
  { destruct (process_ring_symbol sym) as [[[rtype n] [ls rs]]|] eqn:Epr.
    2:{ rewrite (ring_none_doc _ Epr), (ring_not_eps _ Erl), (ring_like_not_atom _ Erl). eauto. }
    destruct (ring_sym_doc _ _ _ _ _ Epr) as [Eas Elen]. rewrite Eas.
    destruct (state =? 0) eqn:Es0.
    - apply (Cont rest m (Some state) prev rings (S nd) (S pos) d E HA1 HR HW). auto.
    - destruct (ring_table_marks _ _ _ _ _ Epr) as (Hrt & _).
      pose proof (ring_pre_holds rtype state Hst Es0) as Hpre. rewrite Hpre in E. cbn [negb] in E.
      destruct (next_ring_state rtype state) as [rorder nstate] eqn:Enr.
      destruct (nrs_spec _ _ _ _ Enr Hpre Hrt) as (Hro & Hro1 & _ & Hro2 & Hns).
      rewrite read_index_spec in E. cbn [bind rev app] in E.
      rewrite Elen, (read_Q_spec toks rest (S pos) n HA1).
      set (Q := get_index_from_selfies (map (fun j => option_map snd (nth_error rest j)) (seq 0 n))) in *.
      set (got := Nat.min n (length rest)) in *.
      destruct prev as [| |p]; [cbn [cur_of]; eauto|contradiction|]. cbn [cur_of].
      specialize (Hpl p eq_refl).
      assert (Xi : ((p - (N.to_nat Q + 1) <? length (atoms m))%nat) = true) by (apply Nat.ltb_lt; unfold natoms in Hpl; lia).
      rewrite Xi in E. cbn [negb] in E.
      assert (HA2 : At toks (skipn n rest) (S pos + got)).
      { unfold got. destruct (Nat.le_ge_cases n (length rest)) as [L|L].
        - rewrite Nat.min_l by lia. now apply At_skip.
        - rewrite Nat.min_r by lia. rewrite skipn_all2 by lia. pose proof (At_len _ _ _ HA1) as Hl. destruct HA1 as [_ Hp1]. split; [cbn [map]; rewrite skipn_all2 by lia; reflexivity|lia]. }
      set (rq := {| r_l := (p - (N.to_nat Q + 1))%nat; r_r := p; r_order := rorder; r_ls := ls; r_rs := rs |}) in *.
      pose proof (rel_push_ring m rings d rq HR) as HR2.
      assert (Erq : ringq_of rq = {| q_l := (p - S (N.to_nat Q))%nat; q_r := p; q_order := Z.min rtype state; q_lm := ls; q_rm := rs |}).
      { unfold ringq_of, rq. cbn. f_equal; lia. }
      rewrite Erq in HR2.
      assert (Hl2 : dec (left_of maxd (S nd)) got = left_of maxd (S nd + (0 + got))) by (rewrite left_dec; f_equal; lia).
      rewrite Hl2.
      assert (Hcase : (state - Z.min rtype state =? 0) = match nstate with None => true | Some _ => false end).
      { destruct nstate as [k|]; [apply Z.eqb_neq; lia|apply Z.eqb_eq; lia]. }
      rewrite Hcase.
      pose proof (Cont (skipn n rest) m nstate (PAtom p) (rings ++ [rq]) (S nd + (0 + got))%nat (S pos + got)%nat _ E HA2 HR2 HW) as G.
      destruct nstate as [k|].
      + destruct Hns as [-> Hk]. replace (state - Z.min rtype state) with (state - rorder) by (rewrite Hro; reflexivity).
        apply G. split; [lia|]. split; [discriminate|]. intros q Hq'. injection Hq' as <-. exact Hpl.
      + apply G. exact I. }
  rewrite (not_ring_like sym Erl).
  change (str_eqb sym epsilon_symbol) with (is_eps_like sym).
  destruct (is_eps_like sym) eqn:Eeps.
  { destruct (state =? 0) eqn:Es0.
    - apply Z.eqb_eq in Es0. subst state. apply (Cont rest m (Some 0) prev rings (S nd) (S pos) d E HA1 HR HW). auto.
    - apply (Cont rest m None prev rings (S nd) (S pos) d E HA1 HR HW). exact I. }
  fold (process_atom_symbol T) in E.
  destruct (pas_total T Hq sym Htok) as [o Eo]. rewrite Eo in E. cbn [bind] in E.
  destruct o as [[[[border stereo] a] cap]|].
  2:{ destruct (pas_none_doc T sym Eo) as [-> | (b & mk & a0 & -> & ->)]; eauto. }
  destruct (doc_symbol_of_model T sym border stereo a cap Eo) as [Eparse Ealpha]. rewrite Eparse, Ealpha.
  assert (Hbs : 1 <= border <= 3 /\ (forall c, stereo = Some c -> border = 1 /\ is_stereo_char c = true) /\ 0 <= cap).
  { unfold process_atom_symbol, process_atom_symbol_c in Eo.
    destruct (process_atom_nocache sym) as [[[[o' st'] a']|]|] eqn:Ep; cbn [bind] in Eo; try discriminate.
    destruct (bonding_capacity_c _ a') as [c|]; cbn [bind] in Eo; [|discriminate].
    destruct (c <? 0) eqn:Ec; [discriminate|]. injection Eo as <- <- <- <-. apply Z.ltb_ge in Ec.
    destruct (nocache_stereo _ _ _ _ Ep) as [A B]. auto. }
  destruct Hbs as (Hb & Hstq & Hcap).
  destruct (next_atom_state border cap state) as [mu nstate] eqn:Ena.
  destruct (nas_spec _ _ _ _ _ Ena ltac:(lia) Hcap Hst) as (Hmu & Hmu0 & Hmub & Hmuc & Hmus & Hs0 & Hns).
  rewrite <- Hmu.
  assert (Hk : length (dg_atoms d) = natoms m) by (rewrite (rl_atoms _ _ _ HR), map_length; reflexivity).
  destruct (mu =? 0) eqn:Em0.
  - apply Z.eqb_eq in Em0. subst mu.
    destruct (state =? 0) eqn:Es0.
    + pose proof (rel_add_root m rings d a cap (push_attr astack ((idx + aidx)%nat, sym)) HR) as HR2.
      pose proof (W_atom m a cap (push_attr astack ((idx + aidx)%nat, sym)) true HW) as HW2.
      destruct (add_atom m a cap _ true) as [m2 i] eqn:Eadd.
      assert (Hi : i = natoms m) by (unfold add_atom in Eadd; now inversion Eadd).
      cbn [fst] in HR2, HW2.
      assert (Hn2 : natoms m2 = S (natoms m)) by (change m2 with (fst (m2, i)); rewrite <- Eadd; apply natoms_add_atom).
      rewrite Hk.
      assert (Hcase : (cap =? 0) = match nstate with None => true | Some _ => false end).
      { destruct nstate as [k|]; [apply Z.eqb_neq; lia|apply Z.eqb_eq; lia]. }
      rewrite Hcase.
      pose proof (Cont rest m2 nstate (PAtom i) rings (S nd) (S pos) _ E HA1 HR2 HW2) as G.
      destruct nstate as [k|].
      * destruct Hns as [Hk0 Hk1]. rewrite Z.sub_0_r in Hk0. subst k. subst i. apply G. split; [lia|]. split; [discriminate|]. intros p Hp. injection Hp as <-. lia.
      * apply G. exact I.
    + assert (nstate = None).
      { destruct nstate as [k|]; [|reflexivity]. exfalso. apply Z.eqb_neq in Es0. destruct Hns as [-> Hk']. lia. }
      subst nstate. exfalso. exact (Fin _ _ _ _ E).
  - apply Z.eqb_neq in Em0.
    pose proof (W_atom m a cap (push_attr astack ((idx + aidx)%nat, sym)) false HW) as HW2.
    destruct (add_atom m a cap (push_attr astack ((idx + aidx)%nat, sym)) false) as [m2 i] eqn:Eadd.
    assert (Hi : i = natoms m) by (unfold add_atom in Eadd; now inversion Eadd).
    assert (Hm2 : m2 = fst (add_atom m a cap (push_attr astack ((idx + aidx)%nat, sym)) false)) by now rewrite Eadd.
    cbn [fst] in HW2.
    destruct prev as [| |p]; [cbn [cur_of]; eauto|contradiction|]. cbn [cur_of]. specialize (Hpl p eq_refl).
    destruct (add_bond m2 p i mu stereo _) as [m3|e3] eqn:Eb; cbn [bind] in E.
    + rewrite Hm2, Hi in Eb.
      pose proof (rel_add_child m rings d a cap _ p mu stereo _ m3 stereo HR Hpl Eb
                    (mark_of_bond mu stereo ltac:(lia) ltac:(intros c Hc; destruct (Hstq c Hc) as [X Y]; split; [lia|exact Y]))) as HR3.
      assert (Hn3 : natoms m3 = S (natoms m)).
      { unfold add_bond in Eb. destruct (negb _); [discriminate|]. destruct (negb _); [discriminate|]. injection Eb as <-. exact (natoms_add_atom m a cap _ false). }
      assert (HW3 : W m3) by (apply (W_bond _ _ _ _ _ _ _ (W_atom m a cap _ false HW) Eb)).
      rewrite Hk.
      assert (Hcase : (cap - mu =? 0) = match nstate with None => true | Some _ => false end).
      { destruct nstate as [k|]; [apply Z.eqb_neq; lia|apply Z.eqb_eq; lia]. }
      rewrite Hcase.
      pose proof (Cont rest m3 nstate (PAtom i) rings (S nd) (S pos) _ E HA1 HR3 HW3) as G.
      destruct nstate as [k|].
      * destruct Hns as [-> Hk1]. subst i. apply G. split; [lia|]. split; [discriminate|]. intros q Hq'. injection Hq' as <-. lia.
      * apply G. exact I.
    + (* add_bond cannot fail *)
      exfalso. unfold add_bond in Eb.
      assert (Hn2 : natoms m2 = S (natoms m)) by (rewrite Hm2; apply natoms_add_atom).
      assert (Ha2 : length (adj m2) = S (natoms m)).
      { rewrite Hm2. unfold add_atom. cbn [fst adj]. rewrite app_length, (rl_alen _ _ _ HR). cbn. lia. }
      assert (X1 : (p <? i)%nat = true) by (apply Nat.ltb_lt; lia). rewrite X1 in Eb. cbn [negb] in Eb.
      assert (X2 : ((p <? length (adj m2)) && (i <? length (counts m2)))%nat = true).
      { apply andb_true_iff. split; apply Nat.ltb_lt; [lia|]. unfold W in HW2. rewrite HW2, Hn2. lia. }
      rewrite X2 in Eb. discriminate.
Qed.
End Reject.
