(* DocRings.v — C02: the decoder's ring-forming pass computes what the documented second pass
   (spec/DocGrammar.v: form_one) computes. *)
From Coq Require Import Ascii String List Arith ZArith NArith Bool Lia.
Import ListNotations.
From Selfies Require Import Base Generated Lex Atoms Grammar Decoder IndexSpec Reader DocGrammar BaseFacts StateFacts ConfigFacts DecoderBasics
  DecoderInv DecoderTree DecoderSum WriterAtoms WriterLex WriterSim WriterFinal RingCount DocAtoms DocDerive.
Local Open Scope Z_scope.

(* ---------- lists ---------- *)
Lemma insert_at_end {A} (l : list A) x : insert_at l (length l) x = l ++ [x].
Proof. induction l as [|y l IH]; [reflexivity|]. cbn [length insert_at app]. now rewrite IH. Qed.

Lemma insert_at_app {A} (pre l : list A) k x : insert_at (pre ++ l) (length pre + k) x = pre ++ insert_at l k x.
Proof. induction pre as [|y pre IH]; [reflexivity|]. cbn [length app Nat.add insert_at]. now rewrite IH. Qed.

Lemma insert_at_map {A B} (f : A -> B) (l : list A) k x : map f (insert_at l k x) = insert_at (map f l) k (f x).
Proof. revert k. induction l as [|y l IH]; intros [|k]; cbn [insert_at map]; try reflexivity. now rewrite IH. Qed.

Lemma add_at_loc_insert l pos b l' : add_at_loc l pos b = Ok l' -> l' = insert_at l pos b /\ (pos <= length l)%nat.
Proof.
  unfold add_at_loc. destruct (Nat.eqb_spec pos (length l)) as [->|N].
  - intro E. injection E as <-. split; [now rewrite insert_at_end|lia].
  - destruct (Nat.ltb_spec pos (length l)); [|discriminate]. intro E. injection E as <-. split; [reflexivity|lia].
Qed.

Lemma find_map {A B} (f : A -> B) (p : B -> bool) (l : list A) : find p (map f l) = option_map f (find (fun a => p (f a)) l).
Proof. induction l as [|a l IH]; [reflexivity|]. cbn [map find]. destruct (p (f a)); [reflexivity|exact IH]. Qed.

Lemma find_app_none {A} (p : A -> bool) (l1 l2 : list A) : (forall x, In x l1 -> p x = false) -> find p (l1 ++ l2) = find p l2.
Proof. induction l1 as [|a l1 IH]; intro H; [reflexivity|]. cbn [app find]. rewrite (H a (or_introl eq_refl)). apply IH. intros x Hx. apply H. now right. Qed.

Lemma filter_insert_at {A} (p : A -> bool) (l : list A) k x : (k <= length l)%nat ->
  length (filter p (insert_at l k x)) = ((if p x then 1 else 0) + length (filter p l))%nat.
Proof.
  revert k. induction l as [|y l IH]; intros [|k] H; cbn [length] in H; try lia; cbn [insert_at filter].
  - destruct (p x); reflexivity.
  - destruct (p x); reflexivity.
  - destruct (p y); cbn [length]; rewrite IH by lia; destruct (p x); lia.
Qed.

Lemma filter_len_le {A} (p : A -> bool) (l : list A) : (length (filter p l) <= length l)%nat.
Proof. induction l as [|a l IH]; [apply le_n|]. cbn [filter]. destruct (p a); cbn [length]; lia. Qed.

(* ---------- the state of the second pass ---------- *)
Section Rings.
Variable T : table.
Variable R0 : list ringreq.    (* the queue, left alone by the second pass *)

Definition rcount (m : dmol) (x : nat) : nat := length (filter b_ring (row m x)).

Record RInv (m : dmol) (made : list nat) (d : dstate) : Prop := {
  ri_rel : Rel m R0 d;
  ri_wf : MolWF (P2 T) SumInv m;
  ri_tree : TreeInv m;
  ri_mlen : length made = natoms m;
  ri_made : forall x, (x < natoms m)%nat -> nth x made 0%nat = rcount m x }.

Lemma hb_of m : MolWF (P2 T) SumInv m -> forall i e, In e (row m i) ->
  (b_dst e < natoms m)%nat /\ 1 <= b_order e <= 3 /\ (b_ring e = false -> (i < b_dst e)%nat).
Proof. intros G i e He. destruct (wf_bonds _ _ _ G i e He) as (A & B & C & _). auto. Qed.

Lemma pre_par m d x : Rel m R0 d -> MolWF (P2 T) SumInv m -> TreeInv m -> (x < natoms m)%nat ->
  exists pre, nth x (dg_nbrs d) [] = pre ++ map slot_of (row m x) /\
    pre = match par m x with Some (p, e) => [mkslot p e false] | None => [] end /\
    (nth x (dg_parent d) false = match par m x with Some _ => true | None => false end).
Proof.
  intros HR G HT Hx. destruct (rl_rows _ _ _ HR x Hx) as (pre & E1 & E2). exists pre. split; [exact E1|].
  unfold pre_ok in E2. destruct (nth x (dg_parent d) false).
  - destruct E2 as (p & e & He & Hr & Hd & ->).
    rewrite (par_of_child m (hb_of m G) (si_nodup _ (wf_extra _ _ _ G)) HT (wf_adj _ _ _ G) p x e He Hr Hd). auto.
  - destruct E2 as [-> Hroot]. rewrite (root_par_none m (hb_of m G) HT x Hroot). auto.
Qed.

Lemma used_cnt m d x : Rel m R0 d -> MolWF (P2 T) SumInv m -> TreeInv m -> (x < natoms m)%nat ->
  used (nth x (dg_nbrs d) []) = cnt m x.
Proof.
  intros HR G HT Hx. destruct (pre_par m d x HR G HT Hx) as (pre & E1 & E2 & _).
  unfold used. change (fold_left (fun acc s => acc + sl_order2 s) (nth x (dg_nbrs d) []) 0) with (bond_sum2 (nth x (dg_nbrs d) [])).
  rewrite E1, bond_sum2_app. unfold slot_of. rewrite (bond_sum2_slots b_dst b_ring).
  rewrite (si_val _ (wf_extra _ _ _ G) x Hx). unfold valence. rewrite (isum_par T m G HT x).
  assert (X : bond_sum2 pre = 2 * match par m x with Some (_, e) => b_order e | None => 0 end).
  { rewrite E2. destruct (par m x) as [[p e]|]; [|reflexivity]. unfold bond_sum2, mkslot. cbn [fold_left sl_order2]. lia. }
  rewrite X. rewrite <- Z.mul_add_distr_l, Z.mul_comm, Z.div_mul by lia. lia.
Qed.

(* ---------- rows after the two graph operations of the pass ---------- *)
Lemma ring_bond_rows_eq m l rr o sa sb pl pr m2 : add_ring_bond m l rr o sa sb pl pr = Ok m2 ->
  length (adj m) = natoms m -> (l < rr)%nat -> (rr < natoms m)%nat ->
  atoms m2 = atoms m /\ roots m2 = roots m /\ length (adj m2) = natoms m /\
  exists la' lb',
    add_at_loc (row m l) pl {| b_src := l; b_dst := rr; b_order := o; b_stereo := sa; b_ring := true; b_attr := None |} = Ok la' /\
    add_at_loc (row m rr) pr {| b_src := rr; b_dst := l; b_order := o; b_stereo := sb; b_ring := true; b_attr := None |} = Ok lb' /\
    forall j, row m2 j = if Nat.eqb j l then la' else if Nat.eqb j rr then lb' else row m j.
Proof.
  intros E Ha Hlt Hrn. unfold add_ring_bond in E.
  destruct (nth_error (adj m) l) as [la|] eqn:Ela; [|discriminate].
  assert (Hla : la = row m l) by (unfold row; now rewrite (nth_error_nth _ _ [] Ela)). subst la.
  destruct (add_at_loc (row m l) pl _) as [la'|] eqn:Ela'; cbn [bind] in E; [|discriminate].
  rewrite nth_error_upd_other in E by lia.
  destruct (nth_error (adj m) rr) as [lb|] eqn:Elb; [|discriminate].
  assert (Hlb : lb = row m rr) by (unfold row; now rewrite (nth_error_nth _ _ [] Elb)). subst lb.
  destruct (add_at_loc (row m rr) pr _) as [lb'|] eqn:Elb'; cbn [bind] in E; [|discriminate].
  injection E as <-. cbn [atoms roots adj]. split; [reflexivity|]. split; [reflexivity|]. split; [now rewrite !upd_length|].
  exists la', lb'. split; [reflexivity|]. split; [reflexivity|].
  intro j. unfold row. cbn [adj]. rewrite !nth_upd, !upd_length, Ha.
  rewrite (Nat.eqb_sym rr j), (Nat.eqb_sym l j).
  assert (Xl : (l <? natoms m)%nat = true) by (apply Nat.ltb_lt; lia).
  assert (Xr : (rr <? natoms m)%nat = true) by (apply Nat.ltb_lt; lia).
  destruct (Nat.eqb_spec j rr) as [E1'|N1']; destruct (Nat.eqb_spec j l) as [E2'|N2']; cbn [andb].
  - exfalso. lia.
  - subst j. now rewrite Xr.
  - subst j. now rewrite Xl.
  - reflexivity.
Qed.

Lemma ring_count_row pre (row : list dbond) : (forall s, In s pre -> sl_ring s = false) ->
  ring_count (pre ++ map slot_of row) = length (filter b_ring row).
Proof.
  intro Hp. unfold ring_count. rewrite filter_app, app_length.
  assert (X : filter sl_ring pre = []).
  { induction pre as [|s pre IH]; [reflexivity|]. cbn [filter]. rewrite (Hp s (or_introl eq_refl)). apply IH. intros t Ht. apply Hp. now right. }
  rewrite X. cbn [length Nat.add]. induction row as [|e row IH]; [reflexivity|]. cbn [map filter]. unfold slot_of at 1, mkslot. cbn [sl_ring].
  destruct (b_ring e); cbn [length]; now rewrite IH.
Qed.

Definition RingMark (r : ringreq) : Prop :=
  (forall c, r_ls r = Some c -> r_order r = 1 /\ is_stereo_char c = true) /\
  (forall c, r_rs r = Some c -> r_order r = 1 /\ is_stereo_char c = true).

Lemma mark_of_ring o st e : 1 <= o <= 3 -> (forall c, st = Some c -> o = 1 /\ is_stereo_char c = true) ->
  b_order e = o -> b_stereo e = st -> mark_of e = st.
Proof. intros Ho Hs E1 E2. exact (mark_of_bond o st Ho Hs e E1 E2). Qed.

Lemma rel_ring m d l rr o sa sb m2 : Rel m R0 d -> MolWF (P2 T) SumInv m -> TreeInv m ->
  (l < rr)%nat -> (rr < natoms m)%nat -> 1 <= o <= 3 ->
  (forall c, sa = Some c -> o = 1 /\ is_stereo_char c = true) -> (forall c, sb = Some c -> o = 1 /\ is_stereo_char c = true) ->
  add_ring_bond m l rr o sa sb (rcount m l) (rcount m rr) = Ok m2 ->
  Rel m2 R0 {| dg_atoms := dg_atoms d;
               dg_nbrs := upd (upd (dg_nbrs d) l (fun row => insert_at row ((if nth l (dg_parent d) false then 1 else 0) + ring_count (nth l (dg_nbrs d) []))%nat
                                                                 {| sl_to := rr; sl_order2 := 2 * o; sl_mark := sa; sl_ring := true |}))
                              rr (fun row => insert_at row ((if nth rr (dg_parent d) false then 1 else 0) + ring_count (nth rr (dg_nbrs d) []))%nat
                                                                 {| sl_to := l; sl_order2 := 2 * o; sl_mark := sb; sl_ring := true |});
               dg_parent := dg_parent d; dg_rings := dg_rings d |} /\
  rcount m2 l = S (rcount m l) /\ rcount m2 rr = S (rcount m rr) /\ (forall j, j <> l -> j <> rr -> rcount m2 j = rcount m j).
Proof.
  intros HR G HT Hlt Hrn Ho Hsa Hsb E.
  destruct (ring_bond_rows_eq _ _ _ _ _ _ _ _ _ E (wf_adj _ _ _ G) Hlt Hrn) as (Eat & Ero & Eal & la' & lb' & Ela & Elb & Hrow).
  set (ba := {| b_src := l; b_dst := rr; b_order := o; b_stereo := sa; b_ring := true; b_attr := None |}) in *.
  set (bb := {| b_src := rr; b_dst := l; b_order := o; b_stereo := sb; b_ring := true; b_attr := None |}) in *.
  apply add_at_loc_insert in Ela as [-> Hpl]. apply add_at_loc_insert in Elb as [-> Hpr].
  assert (Hn : natoms m2 = natoms m) by (unfold natoms; now rewrite Eat).
  assert (Hrc : forall x, (x < natoms m)%nat ->
            exists pre, nth x (dg_nbrs d) [] = pre ++ map slot_of (row m x) /\ pre_ok m x (nth x (dg_parent d) false) pre /\
                        length pre = (if nth x (dg_parent d) false then 1 else 0)%nat /\ ring_count (nth x (dg_nbrs d) []) = rcount m x).
  { intros x Hx. destruct (rl_rows _ _ _ HR x Hx) as (pre & E1 & E2). exists pre. split; [exact E1|]. split; [exact E2|].
    assert (Hpre : length pre = (if nth x (dg_parent d) false then 1 else 0)%nat /\ forall s, In s pre -> sl_ring s = false).
    { unfold pre_ok in E2. destruct (nth x (dg_parent d) false).
      - destruct E2 as (p & e & _ & _ & _ & ->). split; [reflexivity|]. intros s [<-|[]]. reflexivity.
      - destruct E2 as [-> _]. split; [reflexivity|intros s []]. }
    destruct Hpre as [Hl Hr]. split; [exact Hl|]. rewrite E1. now apply ring_count_row. }
  assert (Hsl : slot_of ba = {| sl_to := rr; sl_order2 := 2 * o; sl_mark := sa; sl_ring := true |}).
  { unfold slot_of, mkslot. cbn [b_dst b_order b_ring ba]. f_equal. apply (mark_of_ring o sa ba Ho Hsa); reflexivity. }
  assert (Hsr : slot_of bb = {| sl_to := l; sl_order2 := 2 * o; sl_mark := sb; sl_ring := true |}).
  { unfold slot_of, mkslot. cbn [b_dst b_order b_ring bb]. f_equal. apply (mark_of_ring o sb bb Ho Hsb); reflexivity. }
  split; [|split; [|split]].
  - destruct HR as [Ra Rl Rp Rad Rr Rq]. constructor; cbn [dg_atoms dg_nbrs dg_parent dg_rings]; rewrite ?Hn.
    + now rewrite Eat.
    + now rewrite !upd_length.
    + exact Rp.
    + exact Eal.
    + intros x Hx. destruct (Hrc x Hx) as (pre & E1 & E2 & Hlen & Hcount). exists pre. split.
      * rewrite !nth_upd, !upd_length, Rl, Hrow. rewrite (Nat.eqb_sym rr x), (Nat.eqb_sym l x).
        assert (Xx : (x <? natoms m)%nat = true) by (apply Nat.ltb_lt; lia). rewrite Xx, !andb_true_r.
        destruct (Nat.eqb_spec x rr) as [->|N1].
        -- destruct (Nat.eqb_spec rr l) as [Ex|_]; [lia|].
           rewrite E1 at 1. rewrite <- Hlen, Hcount, insert_at_app, insert_at_map, Hsr. reflexivity.
        -- destruct (Nat.eqb_spec x l) as [->|N2]; [|exact E1].
           rewrite E1 at 1. rewrite <- Hlen, Hcount, insert_at_app, insert_at_map, Hsl. reflexivity.
      * unfold pre_ok in *. destruct (nth x (dg_parent d) false).
        -- destruct E2 as (p & e & He & Hrg & Hd & Hp). exists p, e. repeat split; auto.
           rewrite Hrow. destruct (Nat.eqb_spec p l) as [->|N1]; [|destruct (Nat.eqb_spec p rr) as [->|N2]; [|exact He]].
           ++ revert He. generalize (row m l). intro L. generalize (rcount m l). intros k He. clear - He. revert k. induction L as [|y L IH]; intros [|k]; cbn [insert_at]; try (now right); try (now destruct He).
              destruct He as [<-|He]; [now left|right; now apply IH].
           ++ revert He. generalize (row m rr). intro L. generalize (rcount m rr). intros k He. clear - He. revert k. induction L as [|y L IH]; intros [|k]; cbn [insert_at]; try (now right); try (now destruct He).
              destruct He as [<-|He]; [now left|right; now apply IH].
        -- destruct E2 as [-> Hroot]. split; [reflexivity|]. now rewrite Ero.
    + exact Rq.
  - unfold rcount. rewrite Hrow, Nat.eqb_refl. rewrite filter_insert_at by exact Hpl. reflexivity.
  - unfold rcount. rewrite Hrow, Nat.eqb_refl. destruct (Nat.eqb_spec rr l); [lia|]. rewrite filter_insert_at by exact Hpr. reflexivity.
  - intros j N1 N2. unfold rcount. rewrite Hrow. destruct (Nat.eqb_spec j l); [contradiction|]. destruct (Nat.eqb_spec j rr); [contradiction|]. reflexivity.
Qed.

(* ---------- raising the order of an existing bond ---------- *)
Lemma setord_same e new : b_order e = new -> setord e new = e.
Proof. intros <-. destruct e; reflexivity. Qed.

Lemma set_order_id L t new : (forall e0, In e0 L -> b_dst e0 = t -> b_order e0 = new) -> set_order L t new = L.
Proof.
  intro H. rewrite set_order_map. rewrite <- (map_id L) at 2. apply map_ext_in. intros e0 He0.
  destruct (Nat.eqb_spec (b_dst e0) t) as [Ed|]; [|reflexivity]. apply setord_same. now apply H.
Qed.

Lemma mark_none_high e : 2 <= b_order e -> mark_of e = None.
Proof.
  intro H. unfold mark_of, pend_of, btoks. destruct (Z.eqb_spec (b_order e) 1); [lia|].
  destruct (b_order e =? 2); [reflexivity|]. destruct (b_order e =? 3); reflexivity.
Qed.

Lemma set_order2_slots L t new : 2 <= new ->
  set_order2 (map slot_of L) t (2 * new) = map slot_of (set_order L t new).
Proof.
  intro Hn. rewrite set_order_map, map_map. unfold set_order2. rewrite map_map. apply map_ext. intro e0.
  unfold slot_of at 1, mkslot at 1. cbn [sl_to]. destruct (Nat.eqb (b_dst e0) t); [|reflexivity].
  unfold slot_of, mkslot, setord. cbn [b_dst b_order b_ring sl_order2 sl_mark sl_ring]. f_equal.
  destruct (Z.eqb_spec (2 * new) 2); [lia|]. symmetry. apply mark_none_high. cbn [b_order]. lia.
Qed.

Lemma set_order2_other pre t o2 : (forall s, In s pre -> sl_to s <> t) -> set_order2 pre t o2 = pre.
Proof.
  intro H. unfold set_order2. rewrite <- (map_id pre) at 2. apply map_ext_in. intros s Hs.
  destruct (Nat.eqb_spec (sl_to s) t) as [E|]; [exfalso; exact (H s Hs E)|reflexivity].
Qed.

Lemma set_order2_app a b t o2 : set_order2 (a ++ b) t o2 = set_order2 a t o2 ++ set_order2 b t o2.
Proof. unfold set_order2. apply map_app. Qed.

Lemma rcount_set_order L t new : length (filter b_ring (set_order L t new)) = length (filter b_ring L).
Proof.
  rewrite set_order_map. induction L as [|e0 L IH]; [reflexivity|]. cbn [map filter].
  assert (X : b_ring (if Nat.eqb (b_dst e0) t then setord e0 new else e0) = b_ring e0) by (destruct (Nat.eqb (b_dst e0) t); reflexivity).
  rewrite X. destruct (b_ring e0); cbn [length]; now rewrite IH.
Qed.

Lemma update_rows_eq m l rr new e m2 : MolWF (P2 T) SumInv m -> (l < rr)%nat -> (rr < natoms m)%nat -> 1 <= new <= 3 ->
  find_bond m l rr = Some e -> update_bond_order m l rr new = Ok m2 ->
  atoms m2 = atoms m /\ roots m2 = roots m /\ length (adj m2) = natoms m /\
  forall j, row m2 j = if Nat.eqb j l then set_order (row m l) rr new
                       else if Nat.eqb j rr && b_ring e then set_order (row m rr) l new else row m j.
Proof.
  intros G Hlt Hrn Hnew Ef E. pose proof (wf_adj _ _ _ G) as Ha.
  pose proof (si_nodup _ (wf_extra _ _ _ G)) as Hnd. pose proof (si_sym _ (wf_extra _ _ _ G)) as Hsym.
  pose proof Ef as Ef0. unfold find_bond in Ef. fold (row m l) in Ef. apply find_some in Ef as [Hein Hed]. apply Nat.eqb_eq in Hed.
  assert (Huniq : forall e0, In e0 (row m l) -> b_dst e0 = rr -> e0 = e).
  { intros e0 H0 Hd0. specialize (Hnd l). revert Hnd Hein H0. generalize (row m l). intros L Hn H1 H2.
    induction L as [|y L IH]; [destruct H1|]. cbn [map] in Hn. apply NoDup_cons_iff in Hn as [Hy Hn'].
    destruct H1 as [->|H1]; destruct H2 as [->|H2]; auto.
    - exfalso. apply Hy. rewrite Hed, <- Hd0. now apply in_map.
    - exfalso. apply Hy. rewrite Hd0, <- Hed. now apply in_map. }
  unfold update_bond_order in E.
  assert (X1 : (1 <=? new) && (new <=? 3) = true) by (apply andb_true_iff; split; apply Z.leb_le; lia).
  rewrite X1 in E. cbn [negb] in E. replace (Nat.min l rr) with l in E by lia. replace (Nat.max l rr) with rr in E by lia.
  rewrite Ef0 in E.
  destruct (Z.eqb_spec new (b_order e)) as [En|Hnn].
  - injection E as <-. split; [reflexivity|]. split; [reflexivity|]. split; [exact Ha|].
    intro j. destruct (Nat.eqb_spec j l) as [->|N1].
    + symmetry. apply set_order_id. intros e0 H0 Hd0. rewrite (Huniq e0 H0 Hd0). now symmetry.
    + destruct (Nat.eqb_spec j rr) as [->|N2]; cbn [andb]; [|reflexivity]. destruct (b_ring e) eqn:Er; [|reflexivity].
      symmetry. apply set_order_id. intros e0 H0 Hd0.
      destruct (wf_bonds _ _ _ G rr e0 H0) as (_ & _ & Htree & _).
      destruct (b_ring e0) eqn:Er0; [|specialize (Htree eq_refl); lia].
      destruct (Hsym rr e0 H0 Er0) as (e' & He' & Hd' & Ho' & _). rewrite Hd0 in He'. rewrite (Huniq e' He' Hd') in Ho'. lia.
  - destruct (b_ring e) eqn:Er.
    + destruct (find_bond m rr l); [|discriminate]. cbn [bind] in E. injection E as <-. cbn [atoms roots adj].
      split; [reflexivity|]. split; [reflexivity|]. split; [now rewrite !upd_length|].
      intro j. unfold row. cbn [adj]. rewrite !nth_upd, !upd_length, Ha. rewrite (Nat.eqb_sym rr j), (Nat.eqb_sym l j).
      assert (Xl : (l <? natoms m)%nat = true) by (apply Nat.ltb_lt; lia).
      assert (Xr : (rr <? natoms m)%nat = true) by (apply Nat.ltb_lt; lia).
      destruct (Nat.eqb_spec j rr) as [E1|N1]; destruct (Nat.eqb_spec j l) as [E2|N2]; cbn [andb]; try lia.
      * subst j. now rewrite Xr.
      * subst j. now rewrite Xl.
      * reflexivity.
    + cbn [bind] in E. injection E as <-. cbn [atoms roots adj].
      split; [reflexivity|]. split; [reflexivity|]. split; [now rewrite !upd_length|].
      intro j. unfold row. cbn [adj]. rewrite !nth_upd, Ha. rewrite (Nat.eqb_sym l j). rewrite andb_false_r.
      assert (Xl : (l <? natoms m)%nat = true) by (apply Nat.ltb_lt; lia).
      destruct (Nat.eqb_spec j l) as [->|N2]; cbn [andb]; [now rewrite Xl|reflexivity].
Qed.

Lemma rel_update m d l rr new e m2 : Rel m R0 d -> MolWF (P2 T) SumInv m -> TreeInv m ->
  (l < rr)%nat -> (rr < natoms m)%nat -> 2 <= new <= 3 ->
  find_bond m l rr = Some e -> update_bond_order m l rr new = Ok m2 ->
  Rel m2 R0 {| dg_atoms := dg_atoms d;
               dg_nbrs := upd (upd (dg_nbrs d) l (fun row => set_order2 row rr (2 * new))) rr (fun row => set_order2 row l (2 * new));
               dg_parent := dg_parent d; dg_rings := dg_rings d |} /\
  forall j, rcount m2 j = rcount m j.
Proof.
  intros HR G HT Hlt Hrn Hnew Ef E.
  destruct (update_rows_eq m l rr new e m2 G Hlt Hrn ltac:(lia) Ef E) as (Eat & Ero & Eal & Hrow).
  pose proof (hb_of m G) as Hb. pose proof (si_nodup _ (wf_extra _ _ _ G)) as Hnd. pose proof (si_sym _ (wf_extra _ _ _ G)) as Hsym.
  pose proof Ef as Ef0. unfold find_bond in Ef0. fold (row m l) in Ef0. apply find_some in Ef0 as [Hein Hed]. apply Nat.eqb_eq in Hed.
  assert (Huniq : forall e0, In e0 (row m l) -> b_dst e0 = rr -> e0 = e).
  { intros e0 H0 Hd0. specialize (Hnd l). revert Hnd Hein H0. generalize (row m l). intros L Hn H1 H2.
    induction L as [|y L IH]; [destruct H1|]. cbn [map] in Hn. apply NoDup_cons_iff in Hn as [Hy Hn'].
    destruct H1 as [->|H1]; destruct H2 as [->|H2]; auto.
    - exfalso. apply Hy. rewrite Hed, <- Hd0. now apply in_map.
    - exfalso. apply Hy. rewrite Hd0, <- Hed. now apply in_map. }
  assert (Hn : natoms m2 = natoms m) by (unfold natoms; now rewrite Eat).
  (* entries of row rr that point to l exist only when the bond is a ring bond *)
  assert (Hrr : b_ring e = false -> forall e0, In e0 (row m rr) -> b_dst e0 <> l).
  { intros Er e0 H0 Hd0. destruct (Hb rr e0 H0) as (_ & _ & Htree).
    destruct (b_ring e0) eqn:Er0; [|specialize (Htree eq_refl); lia].
    destruct (Hsym rr e0 H0 Er0) as (e' & He' & Hd' & _ & Hr'). rewrite Hd0 in He'. rewrite (Huniq e' He' Hd') in Hr'. congruence. }
  assert (Hrowrr : map slot_of (row m2 rr) = set_order2 (map slot_of (row m rr)) l (2 * new)).
  { rewrite Hrow. destruct (Nat.eqb_spec rr l); [lia|]. rewrite Nat.eqb_refl. cbn [andb]. destruct (b_ring e) eqn:Er.
    - symmetry. apply set_order2_slots. lia.
    - symmetry. apply set_order2_other. intros s Hs. apply in_map_iff in Hs as (e0 & <- & H0). cbn. exact (Hrr eq_refl e0 H0). }
  assert (Hkeep : forall p e0, In e0 (row m p) -> (p = l -> b_dst e0 <> rr) -> (p = rr -> b_dst e0 <> l) -> In e0 (row m2 p)).
  { intros p e0 H0 N1 N2. rewrite Hrow. destruct (Nat.eqb_spec p l) as [->|Np].
    - pose proof (In_set_order_img (row m l) rr new e0 H0) as X. destruct (Nat.eqb_spec (b_dst e0) rr); [exfalso; now apply N1|exact X].
    - destruct (Nat.eqb_spec p rr) as [->|Np2]; cbn [andb]; [|exact H0]. destruct (b_ring e); [|exact H0].
      pose proof (In_set_order_img (row m rr) l new e0 H0) as X. destruct (Nat.eqb_spec (b_dst e0) l); [exfalso; now apply N2|exact X]. }
  split.
  - destruct HR as [Ra Rl Rp Rad Rr Rq]. constructor; cbn [dg_atoms dg_nbrs dg_parent dg_rings]; rewrite ?Hn.
    + now rewrite Eat.
    + now rewrite !upd_length.
    + exact Rp.
    + exact Eal.
    + intros x Hx. destruct (Rr x Hx) as (pre & E1 & E2).
      rewrite !nth_upd, !upd_length, Rl. rewrite (Nat.eqb_sym rr x), (Nat.eqb_sym l x).
      assert (Xx : (x <? natoms m)%nat = true) by (apply Nat.ltb_lt; lia). rewrite Xx, !andb_true_r.
      destruct (Nat.eqb_spec x rr) as [->|N1].
      * (* the row of rr *)
        destruct (Nat.eqb_spec rr l); [lia|]. rewrite E1, set_order2_app, <- Hrowrr.
        unfold pre_ok in E2. destruct (nth rr (dg_parent d) false).
        -- destruct E2 as (p & e0 & He0 & Hr0 & Hd0 & ->).
           destruct (Nat.eqb_spec p l) as [->|Np].
           ++ (* the parent is l: the bond raised is the tree bond *)
              assert (e0 = e) by (apply Huniq; assumption). subst e0.
              exists [mkslot l (setord e new) false]. split.
              ** f_equal. unfold set_order2, mkslot. cbn [map sl_to]. rewrite Nat.eqb_refl. cbn [sl_order2 sl_ring setord b_order]. f_equal. f_equal.
                 destruct (Z.eqb_spec (2 * new) 2); [lia|]. symmetry. apply mark_none_high. unfold setord. cbn [b_order]. lia.
              ** exists l, (setord e new). repeat split; try assumption.
                 rewrite Hrow, Nat.eqb_refl. pose proof (In_set_order_img (row m l) rr new e Hein) as X. rewrite Hed, Nat.eqb_refl in X. exact X.
           ++ exists [mkslot p e0 false]. split.
              ** f_equal. apply set_order2_other. intros s [<-|[]]. cbn. exact Np.
              ** exists p, e0. repeat split; try assumption. apply Hkeep; [exact He0|intro; contradiction|].
                 intros ->. destruct (Hb rr e0 He0) as (_ & _ & Htree). specialize (Htree Hr0). lia.
        -- destruct E2 as [-> Hroot]. exists []. split; [reflexivity|]. split; [reflexivity|now rewrite Ero].
      * destruct (Nat.eqb_spec x l) as [->|N2].
        -- (* the row of l *)
           rewrite E1, set_order2_app, (set_order2_slots (row m l) rr new ltac:(lia)).
           assert (Hl : row m2 l = set_order (row m l) rr new) by (rewrite Hrow, Nat.eqb_refl; reflexivity). rewrite <- Hl.
           exists pre. split.
           ++ f_equal. apply set_order2_other. intros s Hs. unfold pre_ok in E2. destruct (nth l (dg_parent d) false).
              ** destruct E2 as (p & e0 & He0 & Hr0 & Hd0 & ->). destruct Hs as [<-|[]]. cbn.
                 destruct (Hb p e0 He0) as (_ & _ & Htree). specialize (Htree Hr0). lia.
              ** destruct E2 as [-> _]. destruct Hs.
           ++ unfold pre_ok in *. destruct (nth l (dg_parent d) false).
              ** destruct E2 as (p & e0 & He0 & Hr0 & Hd0 & ->). exists p, e0. repeat split; try assumption.
                 destruct (Hb p e0 He0) as (_ & _ & Htree). specialize (Htree Hr0).
                 apply Hkeep; [exact He0|intros ->; lia|intros ->; lia].
              ** destruct E2 as [-> Hroot]. split; [reflexivity|now rewrite Ero].
        -- (* any other row *)
           exists pre. split.
           ++ rewrite E1. f_equal. f_equal. rewrite Hrow. destruct (Nat.eqb_spec x l); [contradiction|]. destruct (Nat.eqb_spec x rr); [contradiction|reflexivity].
           ++ unfold pre_ok in *. destruct (nth x (dg_parent d) false).
              ** destruct E2 as (p & e0 & He0 & Hr0 & Hd0 & ->). exists p, e0. repeat split; try assumption.
                 apply Hkeep; [exact He0|intros _; congruence|intros _; congruence].
              ** destruct E2 as [-> Hroot]. split; [reflexivity|now rewrite Ero].
    + exact Rq.
  - intro j. unfold rcount. rewrite Hrow. destruct (Nat.eqb_spec j l) as [->|N1]; [apply rcount_set_order|].
    destruct (Nat.eqb_spec j rr) as [->|N2]; cbn [andb]; [|reflexivity]. destruct (b_ring e); [apply rcount_set_order|reflexivity].
Qed.

(* ---------- one ring request ---------- *)
Lemma doc_atom_at m d x : Rel m R0 d -> (x < natoms m)%nat -> exists a, nth_error (dg_atoms d) x = Some (a, capOf m x).
Proof.
  intros HR Hx. rewrite (rl_atoms _ _ _ HR), nth_error_map. unfold capOf.
  destruct (nth_error (atoms m) x) as [[[a c] at_]|] eqn:E; [|apply nth_error_None in E; unfold natoms in Hx; lia].
  exists (abs_atom a). reflexivity.
Qed.

Lemma doc_find m d l rr : Rel m R0 d -> MolWF (P2 T) SumInv m -> TreeInv m -> (l < rr)%nat -> (l < natoms m)%nat ->
  find (fun s => Nat.eqb (sl_to s) rr) (nth l (dg_nbrs d) []) = option_map slot_of (find_bond m l rr).
Proof.
  intros HR G HT Hlt Hl. destruct (pre_par m d l HR G HT Hl) as (pre & E1 & E2 & _). rewrite E1, find_app_none.
  - unfold slot_of. rewrite find_map. reflexivity.
  - intros s Hs. rewrite E2 in Hs. destruct (par m l) as [[p e]|] eqn:Ep; [|destruct Hs]. destruct Hs as [<-|[]]. cbn [mkslot sl_to].
    destruct (par_some m (hb_of m G) _ _ _ Ep) as (_ & _ & _ & Hp). apply Nat.eqb_neq. lia.
Qed.

Lemma ring_step m made d r m' made' : RInv m made d ->
  (r_l r <= r_r r)%nat -> (r_r r < natoms m)%nat -> 1 <= r_order r <= 3 -> RingMark r ->
  form_ring (Ok (m, made)) r = Ok (m', made') -> RInv m' made' (form_one d (ringq_of r)).
Proof.
  intros [HR G HT Hml Hmade] Hlr Hrn Ho [Hmk1 Hmk2] E.
  assert (HMO : MadeOK m made).
  { split; [exact Hml|]. intros i Hi. rewrite (Hmade i Hi). unfold rcount. apply filter_len_le. }
  pose proof (form_ring_good (P2 T) SumInv (sum_upd (P2 T)) (sum_add_ring (P2 T)) TreeInv (tree_upd (P2 T) SumInv) (tree_ring (P2 T) SumInv)
                m made r G HT HMO Hlr Hrn Ho) as FG. rewrite E in FG. destruct FG as (G' & _ & Eat & Ero & HT').
  assert (Hn' : natoms m' = natoms m) by (unfold natoms; now rewrite Eat).
  unfold form_ring in E. cbn [bind] in E. cbv zeta in E. unfold form_one. cbn [ringq_of q_l q_r q_order q_lm q_rm].
  set (l := r_l r) in *. set (rr := r_r r) in *.
  destruct (Nat.eqb_spec l rr) as [Eq|Hne].
  { injection E as <- <-. constructor; assumption. }
  assert (Hl : (l < natoms m)%nat) by lia. assert (Hlt : (l < rr)%nat) by lia.
  destruct (get_ok _ _ m l G Hl) as [Ec1 Ec2]. destruct (get_ok _ _ m rr G Hrn) as [Ec3 Ec4]. rewrite Ec1, Ec2, Ec3, Ec4 in E. cbn [bind] in E.
  destruct (doc_atom_at m d l HR Hl) as [al Eal]. destruct (doc_atom_at m d rr HR Hrn) as [ar Ear]. rewrite Eal, Ear.
  rewrite (used_cnt m d l HR G HT Hl), (used_cnt m d rr HR G HT Hrn).
  destruct ((capOf m l - cnt m l <=? 0) || (capOf m rr - cnt m rr <=? 0)) eqn:Efree.
  { injection E as <- <-. constructor; assumption. }
  apply orb_false_iff in Efree as [F1 F2]. apply Z.leb_gt in F1, F2.
  set (order := Z.min (Z.min (r_order r) (capOf m l - cnt m l)) (capOf m rr - cnt m rr)) in *.
  assert (Hord : 1 <= order <= 3) by (unfold order; lia).
  rewrite (doc_find m d l rr HR G HT Hlt Hl).
  unfold has_bond in E. replace (Nat.min l rr) with l in E by lia. replace (Nat.max l rr) with rr in E by lia.
  destruct (find_bond m l rr) as [e|] eqn:Ef; cbn [option_map].
  - (* the pair is bonded already *)
    destruct (update_bond_order m l rr _) as [m2|] eqn:Eu; cbn [bind] in E; [|discriminate]. injection E as <- <-.
    assert (Hbe : 1 <= b_order e <= 3).
    { unfold find_bond in Ef. apply find_some in Ef as [Hin _]. fold (row m l) in Hin. destruct (hb_of m G l e Hin) as (_ & B & _). exact B. }
    assert (Hs2 : sl_order2 (slot_of e) / 2 = b_order e) by (unfold slot_of, mkslot; cbn [sl_order2]; rewrite Z.mul_comm, Z.div_mul by lia; reflexivity).
    rewrite Hs2.
    assert (Hnew : 2 <= Z.min (order + b_order e) 3 <= 3) by lia.
    destruct (rel_update m d l rr _ e m2 HR G HT Hlt Hrn Hnew Ef Eu) as [R2 Hrc].
    constructor; [exact R2|exact G'|exact HT'|now rewrite Hn'|].
    intros x Hx. rewrite Hn' in Hx. rewrite (Hmade x Hx). symmetry. apply Hrc.
  - (* a new ring bond *)
    destruct (nth_error made l) as [pl|] eqn:Epl; [|discriminate]. destruct (nth_error made rr) as [pr|] eqn:Epr; [|discriminate].
    destruct (add_ring_bond m l rr order _ _ pl pr) as [m2|] eqn:Ea; cbn [bind] in E; [|discriminate]. injection E as <- <-.
    assert (Hpl : pl = rcount m l) by (rewrite <- (Hmade l Hl); symmetry; now apply nth_error_nth).
    assert (Hpr : pr = rcount m rr) by (rewrite <- (Hmade rr Hrn); symmetry; now apply nth_error_nth).
    subst pl pr.
    destruct (rel_ring m d l rr order (r_ls r) (r_rs r) m2 HR G HT Hlt Hrn Hord) as (R2 & C1 & C2 & C3).
    { intros c Hc. destruct (Hmk1 c Hc) as [X Y]. split; [unfold order; lia|exact Y]. }
    { intros c Hc. destruct (Hmk2 c Hc) as [X Y]. split; [unfold order; lia|exact Y]. }
    { exact Ea. }
    constructor; [exact R2|exact G'|exact HT'| |].
    + rewrite !upd_length. now rewrite Hn'.
    + intros x Hx. rewrite Hn' in Hx. rewrite !nth_upd, !upd_length, Hml. rewrite (Nat.eqb_sym rr x), (Nat.eqb_sym l x).
      assert (Xx : (x <? natoms m)%nat = true) by (apply Nat.ltb_lt; lia). rewrite Xx, !andb_true_r.
      destruct (Nat.eqb_spec x rr) as [->|N1].
      * destruct (Nat.eqb_spec rr l); [lia|]. rewrite C2, (Hmade rr Hrn). reflexivity.
      * destruct (Nat.eqb_spec x l) as [->|N2]; [rewrite C1, (Hmade l Hl); reflexivity|]. rewrite (C3 x N2 N1). now apply Hmade.
Qed.

(* ---------- the whole queue ---------- *)
Lemma rings_sim : forall rings m made d m' made', fold_left form_ring rings (Ok (m, made)) = Ok (m', made') ->
  RInv m made d -> RingsOK m rings -> Forall RingMark rings ->
  RInv m' made' (fold_left form_one (map ringq_of rings) d).
Proof.
  induction rings as [|r rest IH]; intros m made d m' made' E HI HO HM; cbn [fold_left map] in *.
  - injection E as <- <-. exact HI.
  - destruct (form_ring (Ok (m, made)) r) as [[m2 made2]|ee] eqn:E1; [|rewrite fold_form_ring_err in E; discriminate].
    inversion HO as [|? ? (A & B & C) HO']; subst. inversion HM as [|? ? HM1 HM']; subst.
    pose proof (ring_step m made d r m2 made2 HI A B C HM1 E1) as HI2.
    apply (IH m2 made2 _ m' made' E HI2); [|exact HM'].
    assert (Hn : natoms m2 = natoms m).
    { pose proof (form_ring_keys m made r m2 made2 E1) as [X _]. exact X. }
    unfold RingsOK in *. rewrite Forall_forall in *. intros q Hq. rewrite Hn. now apply HO'.
Qed.
End Rings.

(* ---------- ring requests carry a mark only when they ask for a single bond ---------- *)
Lemma ring_table_marks sym rt n ls rs : process_ring_symbol sym = Some (rt, n, (ls, rs)) ->
  1 <= rt /\ (forall c, ls = Some c -> rt = 1 /\ is_stereo_char c = true) /\ (forall c, rs = Some c -> rt = 1 /\ is_stereo_char c = true).
Proof.
  unfold process_ring_symbol. intro H. apply assoc_in in H.
  assert (F : forallb (fun kv => let '(rt, _, (ls, rs)) := snd kv in
                        (1 <=? rt) && match ls with Some c => (rt =? 1) && is_stereo_char c | None => true end
                                   && match rs with Some c => (rt =? 1) && is_stereo_char c | None => true end) ring_cache = true)
    by (vm_compute; reflexivity).
  rewrite forallb_forall in F. specialize (F _ H). cbn [snd] in F.
  apply andb_true_iff in F as [F F3]. apply andb_true_iff in F as [F1 F2]. apply Z.leb_le in F1. split; [exact F1|]. split.
  - intros c ->. apply andb_true_iff in F2 as [A B]. apply Z.eqb_eq in A. auto.
  - intros c ->. apply andb_true_iff in F3 as [A B]. apply Z.eqb_eq in A. auto.
Qed.

Section Marks.
Variable capf : capfun.
Variable bad : option exn.
Variable aidx : nat.

Lemma derive_marks : forall fuel ts m maxd state prev rings astack nd ts' m' rings' nd',
  derive_c capf bad aidx fuel ts m maxd state prev rings astack nd = Ok (ts', m', rings', nd') ->
  Forall RingMark rings -> Forall RingMark rings'.
Proof.
  induction fuel as [|f IH]; intros ts m maxd state prev rings astack nd ts' m' rings' nd' E HM; [discriminate|].
  cbn [derive_c] in E. cbv zeta in E.
  assert (Fin : forall ts0 (m0 : dmol) (rings0 : list ringreq) nd0,
            (do (t, n) <- drain ts0 bad maxd nd0; Ok (t, m0, rings0, n)) = Ok (ts', m', rings', nd') ->
            Forall RingMark rings0 -> Forall RingMark rings').
  { intros ts0 m0 rings0 nd0 H H0. destruct (drain ts0 bad maxd nd0) as [[t n]|]; cbn [bind] in H; [|discriminate]. now inversion H; subst. }
  assert (Cont : forall ts0 m0 nst prev0 rings0 nd0,
            match nst with
            | None => do (t, n) <- drain ts0 bad maxd nd0; Ok (t, m0, rings0, n)
            | Some st => derive_c capf bad aidx f ts0 m0 maxd st prev0 rings0 astack nd0 end = Ok (ts', m', rings', nd') ->
            Forall RingMark rings0 -> Forall RingMark rings').
  { intros ts0 m0 nst prev0 rings0 nd0 H H0. destruct nst; [exact (IH _ _ _ _ _ _ _ _ _ _ _ _ H H0)|exact (Fin _ _ _ _ H H0)]. }
  destruct (negb (below nd maxd)); [exact (Fin _ _ _ _ E HM)|].
  destruct ts as [|[idx sym] rest].
  - unfold raise_or in E. destruct bad; [discriminate|]. exact (Fin _ _ _ _ E HM).
  - destruct (is_branch_like sym).
    { destruct (process_branch_symbol sym) as [[btype n]|]; [|discriminate].
      destruct (state <=? 1); [exact (Cont rest m (Some state) _ _ _ E HM)|].
      destruct (negb (next_branch_state_pre btype state)); [discriminate|].
      destruct (next_branch_state btype state) as [binit nstate].
      destruct (read_index n rest bad [] 0) as [[[syms rest2] nread]|]; cbn [bind] in E; [|discriminate].
      destruct (derive_c capf bad aidx f rest2 m _ binit prev rings _ 0) as [[[[rest3 m2] rings2] nsub]|] eqn:Es; cbn [bind] in E; [|discriminate].
      pose proof (IH _ _ _ _ _ _ _ _ _ _ _ _ Es HM) as HM2. exact (Cont rest3 m2 (Some nstate) _ _ _ E HM2). }
    destruct (is_ring_like sym).
    { destruct (process_ring_symbol sym) as [[[rtype n] [ls rs]]|] eqn:Epr; [|discriminate].
      destruct (ring_table_marks _ _ _ _ _ Epr) as (Hrt & Hl & Hr).
      destruct (state =? 0); [exact (Cont rest m (Some state) _ _ _ E HM)|].
      destruct (next_ring_state_pre rtype state) eqn:Hpre; cbn [negb] in E; [|discriminate].
      destruct (next_ring_state rtype state) as [rorder nstate] eqn:Enr.
      destruct (nrs_spec _ _ _ _ Enr Hpre Hrt) as (_ & Ho1 & Ho2 & _).
      destruct (read_index n rest bad [] 0) as [[[syms rest2] nread]|]; cbn [bind] in E; [|discriminate].
      destruct prev as [| |p]; try discriminate.
      destruct (negb _); [discriminate|]. apply Cont in E; [exact E|]. apply Forall_app. split; [exact HM|]. constructor; [|constructor].
      split; cbn [r_ls r_rs r_order]; intros c Hc; [destruct (Hl c Hc) as [X Y]|destruct (Hr c Hc) as [X Y]]; (split; [lia|exact Y]). }
    destruct (is_eps_like sym); [exact (Cont _ _ _ _ _ _ E HM)|].
    destruct (process_atom_symbol_c capf sym) as [[[[[border stereo] a] cap]|]|]; cbn [bind] in E; try discriminate.
    destruct (next_atom_state border cap state) as [mu nstate].
    destruct (mu =? 0).
    + destruct (state =? 0); [|exact (Cont _ _ _ _ _ _ E HM)].
      destruct (add_atom m a cap _ true) as [m2 i]. exact (Cont _ _ _ _ _ _ E HM).
    + destruct (add_atom m a cap _ false) as [m2 i]. destruct prev as [| |p]; try discriminate.
      destruct (add_bond m2 p i mu stereo _) as [m3|]; cbn [bind] in E; [|discriminate]. exact (Cont _ _ _ _ _ _ E HM).
Qed.
End Marks.

Lemma derive_frags_marks capf attribute : forall tfrags m rings aidx m' rings',
  derive_frags_c capf attribute tfrags m rings aidx = Ok (m', rings') -> Forall RingMark rings -> Forall RingMark rings'.
Proof.
  induction tfrags as [|[ts bad] rest IH]; intros m rings aidx m' rings' E HM; cbn [derive_frags_c] in E.
  - now inversion E; subst.
  - destruct (derive_c capf bad aidx _ _ m None 0 PNone rings _ 0) as [[[[ts' m2] rings2] n]|] eqn:Ed; cbn [bind] in E; [|discriminate].
    apply derive_marks in Ed; [|exact HM]. exact (IH _ _ _ _ _ E Ed).
Qed.
