(* EncKeep.v — C05/C03: kekulize changes nothing but the orders of aromatic bonds, and those become 1 or 2.
   Reader invariant K3: every pair listed in the delocalisation subgraph is joined by a stored edge of order 1.5 (from
   the smaller to the larger index).  kekulize calls update_bond_order only on listed pairs (dearomatize) and on matched
   pairs, which are relabelled listed pairs; with "no parallel edges" and "opposite edges carry the same order" every
   edge it rewrites was an aromatic bond of the graph the reader built.  Everything but the order of an edge (position
   in its row, destination, ring flag, stereo mark, attribution) is left alone by construction. *)
From Coq Require Import Ascii String List Arith ZArith NArith Bool Lia.
Import ListNotations.
From Selfies Require Import Base Generated Lex Atoms Grammar Decoder Smiles PySet Matching Kekulize Encoder BaseFacts ConfigFacts DecoderInv
  ParserTotal EncHyp EncShape EncTokens EncRows EncAttr EncStereo EncFuel EncIndex EncKey EncAttrErr EncArom EncUniq EncOrders EncKek EncMatch.
Local Open Scope nat_scope.

(* ---------- the reader: listed pairs are aromatic bonds ---------- *)
Definition edge3 (m : emol) (k d : nat) : Prop :=
  exists row e, nth_error (m_adj m) (Nat.min k d) = Some row /\ In (Some e) row /\ e_dst e = Nat.max k d /\ e_order2 e = 3%Z.
Definition sub (m m' : emol) : Prop :=
  forall j row e, nth_error (m_adj m) j = Some row -> In (Some e) row -> exists row', nth_error (m_adj m') j = Some row' /\ In (Some e) row'.
Definition K3 (m : emol) (D : dsub) : Prop := forall k l d, ds_lookup D k = Some l -> In d l -> edge3 m k d.

Lemma edge3_sym m a b : edge3 m a b -> edge3 m b a.
Proof. unfold edge3. now rewrite Nat.min_comm, Nat.max_comm. Qed.
Lemma sub_refl m m' : m_adj m' = m_adj m -> sub m m'.
Proof. intros H j row e Hn Hin. rewrite H. eauto. Qed.
Lemma sub_trans a b c : sub a b -> sub b c -> sub a c.
Proof. intros H1 H2 j row e Hn Hin. destruct (H1 j row e Hn Hin) as (r1 & N1 & I1). exact (H2 j r1 e N1 I1). Qed.
Lemma edge3_sub m m' a b : sub m m' -> edge3 m a b -> edge3 m' a b.
Proof. intros H (row & e & Hn & Hin & Hd & Ho). destruct (H _ _ _ Hn Hin) as (row' & Hn' & Hin'). exists row', e. auto. Qed.
Lemma k3_sub m m' D : sub m m' -> K3 m D -> K3 m' D.
Proof. intros H Hk k l d Hl Hd. exact (edge3_sub _ _ _ _ H (Hk k l d Hl Hd)). Qed.

Lemma append_k3 m D a b : K3 m D -> edge3 m a b -> K3 m (ds_append D a b).
Proof.
  intros H Hl k l d Hk Hd. unfold ds_append in Hk. destruct (Nat.eq_dec k a) as [->|Hne].
  - rewrite lookup_store_same in Hk. inversion Hk; subst l. destruct (ds_lookup D a) as [v|] eqn:E.
    + apply in_app_iff in Hd as [Hd|[Hd|[]]]; [exact (H a v d E Hd)|subst; exact Hl].
    + destruct Hd as [Hd|[]]; subst; exact Hl.
  - rewrite lookup_store_other in Hk by exact Hne. exact (H k l d Hk Hd).
Qed.

Lemma at_loc_sub m b pos m' : mg_add_bond_at_loc m b pos = Ok m' ->
  sub m m' /\ exists row', nth_error (m_adj m') (e_src b) = Some row' /\ In (Some b) row'.
Proof.
  intro E. destruct (at_loc_rows _ _ _ _ E) as (out & out' & Ho & Hadj & Hin). split.
  - intros j row e Hn Hi. rewrite Hadj, nth_error_upd. destruct (Nat.eqb_spec (e_src b) j) as [<-|Hne]; [|eauto].
    rewrite Ho in Hn. inversion Hn; subst row. rewrite Ho. cbn. eexists. split; [reflexivity|]. apply Hin. now right.
  - rewrite Hadj, nth_error_upd, Nat.eqb_refl, Ho. cbn. eexists. split; [reflexivity|]. apply Hin. now left.
Qed.

Lemma k3_step m m' a b : K3 m (m_ds m) -> sub m m' ->
  (m_ds m' = m_ds m \/ (m_ds m' = ds_append (ds_append (m_ds m) a b) b a /\ edge3 m' a b)) -> K3 m' (m_ds m').
Proof.
  intros H S [E|[E L]]; rewrite E; [exact (k3_sub _ _ _ S H)|].
  apply append_k3; [apply append_k3; [exact (k3_sub _ _ _ S H)|exact L]|exact (edge3_sym _ _ _ L)].
Qed.

Lemma add_bond_k3 m src dst o2 st at_ m' : K3 m (m_ds m) -> mg_add_bond m src dst o2 st at_ = Ok m' -> K3 m' (m_ds m').
Proof.
  intros Hd E. unfold mg_add_bond in E. destruct (src <? dst) eqn:Elt; cbn [negb] in E; [|discriminate]. apply Nat.ltb_lt in Elt.
  destruct (mg_add_bond_at_loc _ _ _) as [m1|] eqn:E1; cbn [bind] in E; [|discriminate].
  destruct (mg_add_count2 m1 _ _) as [m2|] eqn:E2; cbn [bind] in E; [|discriminate].
  destruct (mg_add_count2 m2 _ _) as [m3|] eqn:E3; cbn [bind] in E; [|discriminate].
  destruct (at_loc_sub _ _ _ _ E1) as [S1 (row' & Hn & Hin)]. cbn [e_src] in Hn.
  pose proof (at_loc_ds _ _ _ _ E1) as D1. pose proof (add_count_ds _ _ _ _ E2) as D2. pose proof (add_count_ds _ _ _ _ E3) as D3.
  pose proof (add_count_adj _ _ _ _ E2) as A2. pose proof (add_count_adj _ _ _ _ E3) as A3.
  assert (S3 : sub m m3) by (apply (sub_trans _ m1); [exact S1|apply sub_refl; congruence]).
  destruct (Z.eqb_spec o2 order2_aromatic) as [Eo|No]; inversion E; subst m'.
  - apply (k3_step m _ src dst Hd); [intros j row e Hj Hi; exact (S3 j row e Hj Hi)|]. right. split; [cbn [set_ds m_ds]; congruence|].
    unfold edge3. rewrite Nat.min_l, Nat.max_r by lia. cbn [set_ds m_adj]. rewrite A3, A2. eexists row', _. split; [exact Hn|]. split; [exact Hin|]. split; [reflexivity|exact Eo].
  - apply (k3_step m _ 0 0 Hd S3). left. congruence.
Qed.

Lemma add_ring_k3 m a b o2 sa sb pa pb m' : K3 m (m_ds m) -> mg_add_ring_bond m a b o2 sa sb pa pb = Ok m' -> K3 m' (m_ds m').
Proof.
  intros Hd E. unfold mg_add_ring_bond in E.
  destruct (mg_add_bond_at_loc m _ _) as [m1|] eqn:E1; cbn [bind] in E; [|discriminate].
  destruct (mg_add_bond_at_loc m1 _ _) as [m2|] eqn:E2; cbn [bind] in E; [|discriminate].
  destruct (mg_add_count2 m2 _ _) as [m3|] eqn:E3; cbn [bind] in E; [|discriminate].
  destruct (mg_add_count2 m3 _ _) as [m4|] eqn:E4; cbn [bind] in E; [|discriminate].
  destruct (lupd (m_ringflags m4) _ _) as [f1|]; cbn [bind] in E; [|discriminate].
  destruct (lupd f1 _ _) as [f2|]; cbn [bind] in E; [|discriminate].
  destruct (at_loc_sub _ _ _ _ E1) as [S1 (r1 & Hn1 & Hi1)]. destruct (at_loc_sub _ _ _ _ E2) as [S2 (r2 & Hn2 & Hi2)]. cbn [e_src] in Hn1, Hn2.
  pose proof (at_loc_ds _ _ _ _ E1) as D1. pose proof (at_loc_ds _ _ _ _ E2) as D2. pose proof (add_count_ds _ _ _ _ E3) as D3. pose proof (add_count_ds _ _ _ _ E4) as D4.
  pose proof (add_count_adj _ _ _ _ E3) as A3. pose proof (add_count_adj _ _ _ _ E4) as A4.
  assert (S4 : sub m m4) by (apply (sub_trans _ m1); [exact S1|apply (sub_trans _ m2); [exact S2|apply sub_refl; congruence]]).
  destruct (S2 _ _ _ Hn1 Hi1) as (r1' & Hn1' & Hi1').
  destruct (Z.eqb_spec o2 order2_aromatic) as [Eo|No]; inversion E; subst m'.
  - apply (k3_step m _ a b Hd); [intros j row e Hj Hi; exact (S4 j row e Hj Hi)|]. right. split; [cbn [set_ds set_ringflags m_ds]; congruence|].
    unfold edge3. cbn [set_ds set_ringflags m_adj]. rewrite A4, A3. destruct (Nat.le_ge_cases a b) as [L|L].
    + rewrite Nat.min_l, Nat.max_r by lia. eexists r1', _. split; [exact Hn1'|]. split; [exact Hi1'|]. split; [reflexivity|exact Eo].
    + rewrite Nat.min_r, Nat.max_l by lia. eexists r2, _. split; [exact Hn2|]. split; [exact Hi2|]. split; [reflexivity|exact Eo].
  - apply (k3_step m _ 0 0 Hd); [intros j row e Hj Hi; exact (S4 j row e Hj Hi)|]. left. cbn [set_ringflags m_ds]. congruence.
Qed.

Lemma make_ring_k3 m lt la lp rt ra m' : K3 m (m_ds m) -> make_ring_bonds m lt la lp rt ra = Ok m' -> K3 m' (m_ds m').
Proof.
  intros Hd. unfold make_ring_bonds. destruct (_ =? _); [discriminate|]. destruct (mg_has_bond _ _ _); [discriminate|].
  match goal with |- (let '(b0, b1) := ?X in _) = _ -> _ => destruct X as [b0 b1] end.
  destruct (negb _); [discriminate|].
  destruct (smiles_to_bond2 (t_bond lt)) as [lo ls]. destruct (smiles_to_bond2 (t_bond rt)) as [ro rs].
  destruct (mg_get_atom m la); cbn [bind]; [|discriminate]. destruct (mg_get_atom m ra); cbn [bind]; [|discriminate].
  match goal with |- (let '(x, y) := ?X in _) = _ -> _ => destruct X as [lo' ro'] end.
  apply add_ring_k3; assumption.
Qed.

Lemma placeholder_k3 m src m' k : K3 m (m_ds m) -> mg_add_placeholder_bond m src = Ok (m', k) -> K3 m' (m_ds m').
Proof.
  intros Hd E. apply (k3_step m m' 0 0 Hd); [|left; exact (placeholder_ds _ _ _ _ E)].
  unfold mg_add_placeholder_bond in E. destruct (lget (m_adj m) src) as [out|] eqn:El; cbn [bind] in E; [|discriminate]. apply lget_In in El. inversion E; subst.
  intros j row e Hn Hin. cbn [set_adj m_adj]. rewrite nth_error_upd. destruct (Nat.eqb_spec src j) as [<-|Hne]; [|eauto].
  rewrite Hn. cbn. eexists. split; [reflexivity|]. apply in_app_iff. now left.
Qed.

Lemma attach_k3 m tok a prev i m' idx i' : K3 m (m_ds m) -> attach_atom m tok a prev i = Ok (m', idx, i') -> K3 m' (m_ds m').
Proof.
  intros H. unfold attach_atom. destruct (mg_add_atom m a _) as [m1 ix] eqn:Ea.
  assert (D1 : K3 m1 (m_ds m1)).
  { unfold mg_add_atom in Ea. inversion Ea; subst m1 ix. cbn [m_ds].
    assert (S : sub m {| m_attributable := m_attributable m; m_roots := (if match prev with None => true | Some _ => false end then m_roots m ++ [mg_len m] else m_roots m);
                        m_atoms := m_atoms m ++ [(a, None)]; m_adj := m_adj m ++ [[]]; m_counts2 := m_counts2 m ++ [0%Z]; m_ringflags := m_ringflags m ++ [false];
                        m_ds := (if a_aromatic a then ds_set_empty (m_ds m) (mg_len m) else m_ds m) |}).
    { intros j row e Hn Hin. cbn [m_adj]. exists row. split; [|exact Hin]. rewrite nth_error_app1; [exact Hn|]. apply nth_error_Some. congruence. }
    destruct (a_aromatic a); [|exact (k3_sub _ _ _ S H)]. intros k l d Hk Hd. unfold ds_set_empty in Hk.
    destruct (Nat.eq_dec k (mg_len m)) as [->|Hne]; [rewrite lookup_store_same in Hk; inversion Hk; subst; destruct Hd|].
    rewrite lookup_store_other in Hk by exact Hne. exact (edge3_sub _ _ _ _ S (H k l d Hk Hd)). }
  destruct (mg_add_attr_atom m1 ix _) as [m2|] eqn:E2; cbn [bind]; [|discriminate].
  assert (D2 : K3 m2 (m_ds m2)).
  { pose proof (add_attr_adj _ _ _ _ E2) as A2.
    assert (Dd : m_ds m2 = m_ds m1) by (unfold mg_add_attr_atom in E2; destruct (m_attributable m1); [destruct (lupd _ _ _); cbn [bind] in E2; [inversion E2; reflexivity|discriminate]|inversion E2; reflexivity]).
    apply (k3_step m1 m2 0 0 D1 (sub_refl _ _ A2)). now left. }
  destruct prev as [src|]; [|intro E; inversion E; subst; exact D2].
  destruct (smiles_to_bond2 (t_bond tok)) as [o2 st].
  destruct (mg_get_atom m2 src); cbn [bind]; [|discriminate].
  destruct (mg_add_bond m2 _ _ _ _ _) as [m3|] eqn:E3; cbn [bind]; [|discriminate].
  intro E; inversion E; subst. exact (add_bond_k3 _ _ _ _ _ _ _ D2 E3).
Qed.

Lemma derive_loop_k3 : forall ts st st' rest, K3 (p_mol st) (m_ds (p_mol st)) -> derive_loop ts st = Ok (st', rest) -> K3 (p_mol st') (m_ds (p_mol st')).
Proof.
  induction ts as [|tok r IH]; intros st st' rest Hd E; cbn [derive_loop] in E; [inversion E; subst; exact Hd|].
  destruct (p_prev st) as [|prev below]; [discriminate|].
  destruct (t_type tok).
  - destruct (smiles_to_atom (t_text tok)) as [[a|]|]; cbn [bind] in E; try discriminate.
    destruct (attach_atom _ _ _ _ _) as [[[m' idx] i']|] eqn:Eat; cbn [bind] in E; [|discriminate].
    apply IH in E; [exact E|]. cbn [p_mol]. exact (attach_k3 _ _ _ _ _ _ _ _ Hd Eat).
  - destruct (p_chain_start st); [discriminate|].
    destruct (str_eqb _ _); [apply IH in E; [exact E|exact Hd]|]. destruct (p_branch st); [discriminate|]. apply IH in E; [exact E|exact Hd].
  - destruct (p_chain_start st); [discriminate|].
    destruct (ring_log_find _ _) as [[[ltok latom] lpos]|].
    + destruct (atom_index prev) as [ratom|]; cbn [bind] in E; [|discriminate].
      destruct (make_ring_bonds _ _ _ _ _ _) as [m'|] eqn:Er; cbn [bind] in E; [|discriminate].
      apply IH in E; [exact E|]. cbn [p_mol]. exact (make_ring_k3 _ _ _ _ _ _ _ Hd Er).
    + destruct (atom_index prev) as [src|]; cbn [bind] in E; [|discriminate].
      destruct (mg_add_placeholder_bond _ _) as [[m' lpos]|] eqn:Epl; cbn [bind] in E; [|discriminate].
      apply IH in E; [exact E|]. cbn [p_mol]. exact (placeholder_k3 _ _ _ _ Hd Epl).
  - inversion E; subst. exact Hd.
Qed.

Lemma fragments_k3 : forall fuel m ts i m', K3 m (m_ds m) -> fragments_loop fuel m ts i = Ok m' -> K3 m' (m_ds m').
Proof.
  induction fuel as [|f IH]; intros m ts i m' Hd E; [discriminate|]. cbn [fragments_loop] in E.
  destruct ts as [|t r]; [inversion E; subst; exact Hd|].
  destruct (derive_mol_from_tokens m (t :: r) i) as [[[m1 i1] rest]|] eqn:Ed; cbn [bind] in E; [|discriminate].
  unfold derive_mol_from_tokens in Ed.
  destruct (derive_loop (t :: r) _) as [[st rest']|] eqn:El; cbn [bind] in Ed; [|discriminate].
  pose proof (derive_loop_k3 _ _ _ _ (Hd : K3 (p_mol {| p_mol := m; p_i := i; p_tok := None; p_prev := [None]; p_branch := []; p_rings := []; p_chain_start := true |}) _) El) as D1.
  destruct (_ =? _); [discriminate|]. destruct (p_branch st); [|discriminate]. destruct (p_rings st); [|discriminate].
  inversion Ed; subst. exact (IH _ _ _ _ D1 E).
Qed.

Theorem parsed_k3 smiles attributable m : smiles_to_mol smiles attributable = Ok m -> K3 m (m_ds m).
Proof.
  unfold smiles_to_mol. destruct smiles as [|c s]; [discriminate|].
  destruct (tokenize_smiles (c :: s)) as [ts|]; cbn [bind]; [|discriminate].
  apply fragments_k3. intros k l d Hk. unfold ds_lookup in Hk. cbn in Hk. destruct k; discriminate.
Qed.

(* ---------- kekulize: only aromatic bonds change, to single or double ---------- *)
Definition R (x y : Z) : Prop := (y = x \/ (x = 3 /\ (y = 2 \/ y = 4)))%Z.
Definition Rel (m0 m : emol) : Prop :=
  forall j row' e', nth_error (m_adj m) j = Some row' -> In (Some e') row' ->
    exists row0 e0, nth_error (m_adj m0) j = Some row0 /\ In (Some e0) row0 /\ e_dst e' = e_dst e0 /\ R (e_order2 e0) (e_order2 e').

Lemma rel_refl m : Rel m m.
Proof. intros j row e Hn Hin. exists row, e. split; [exact Hn|]. split; [exact Hin|]. split; [reflexivity|now left]. Qed.
Lemma rel_same m0 m m' : m_adj m' = m_adj m -> Rel m0 m -> Rel m0 m'.
Proof. intros H Hr j row e Hn Hin. rewrite H in Hn. exact (Hr j row e Hn Hin). Qed.

Lemma update_rel m0 m a0 b0 o m' : U m0 -> EQ m0 -> edge3 m0 a0 b0 -> (o = 2 \/ o = 4)%Z -> Rel m0 m ->
  mg_update_bond_order m a0 b0 o = Ok m' -> Rel m0 m'.
Proof.
  intros Hu Hq (r3 & e3 & Hn3 & Hi3 & Hd3 & Ho3) Ho Hr E. destruct (update_desc _ _ _ _ _ E) as (rowa & ab & Era & Ef & Cases). cbv zeta in Cases.
  set (a := Nat.min a0 b0) in *. set (b := Nat.max a0 b0) in *.
  destruct Cases as [[_ ->]|[_ Hdesc]]; [exact Hr|].
  intros j row' e' Hn' Hin'. destruct (Hdesc j row' e' Hn' Hin') as (row1 & e1 & Hn1 & Hi1 & Hd1 & Hord).
  destruct (Hr j row1 e1 Hn1 Hi1) as (row0 & e0 & Hn0 & Hi0 & Hd0 & Hr0). exists row0, e0. split; [exact Hn0|]. split; [exact Hi0|]. split; [congruence|].
  match type of Hord with _ = (if ?c then _ else _) => destruct c eqn:Ec end; [|rewrite Hord; exact Hr0].
  rewrite Hord. right. split; [|exact Ho].
  assert (Hcase : (a = j /\ e_dst e0 = b) \/ (b = j /\ e_dst e0 = a)).
  { rewrite Hd0 in Ec. destruct (e_ring ab).
    - apply orb_true_iff in Ec as [Ec|Ec]; apply andb_true_iff in Ec as [X Y]; apply Nat.eqb_eq in X, Y; [right|left]; auto.
    - apply andb_true_iff in Ec as [X Y]; apply Nat.eqb_eq in X, Y. left; auto. }
  destruct Hcase as [[<- Hdb]|[<- Hda]].
  - (* the edge a -> b itself: it is the aromatic edge of the reader's graph *)
    rewrite Hn3 in Hn0. inversion Hn0; subst row0.
    destruct (In_pos _ _ Hi3) as [p Hp]. destruct (In_pos _ _ Hi0) as [q Hq0].
    assert (p = q) by (apply (Hu a r3 p q e3 e0 Hn3 Hp Hq0); congruence). subst q. congruence.
  - (* the stored reverse b -> a: same order as a -> b in the reader's graph *)
    rewrite <- Ho3. symmetry. exact (Hq a b r3 row0 e3 e0 Hn3 Hi3 Hd3 Hn0 Hi0 Hda).
Qed.

Lemma single_bonds_rel m0 : U m0 -> EQ m0 -> forall adjs m node m', (forall d, In d adjs -> edge3 m0 node d) -> Rel m0 m ->
  set_single_bonds m node adjs = Ok m' -> Rel m0 m'.
Proof.
  intros Hu Hq. induction adjs as [|x r IH]; intros m node m' Ha Hr E; cbn [set_single_bonds] in E; [inversion E; subst; exact Hr|].
  destruct (mg_update_bond_order m node x 2) as [m1|] eqn:E1; cbn [bind] in E; [|discriminate].
  apply (IH m1 node m'); [intros d Hd; apply Ha; now right| |exact E].
  exact (update_rel m0 m node x 2 m1 Hu Hq (Ha x (or_introl eq_refl)) (or_introl eq_refl) Hr E1).
Qed.

Lemma dearomatize_rel m0 : U m0 -> EQ m0 -> forall L m m', (forall node adjs, In (node, adjs) L -> forall d, In d adjs -> edge3 m0 node d) -> Rel m0 m ->
  dearomatize m L = Ok m' -> Rel m0 m'.
Proof.
  intros Hu Hq. induction L as [|[node adjs] r IH]; intros m m' Hl Hr E; cbn [dearomatize] in E; [inversion E; subst; exact Hr|].
  destruct (set_single_bonds m node adjs) as [m1|] eqn:E1; cbn [bind] in E; [|discriminate].
  destruct (lupd (m_atoms m1) _ _) as [atoms'|]; cbn [bind] in E; [|discriminate].
  destruct (lupd (m_counts2 m1) _ _) as [counts'|]; cbn [bind] in E; [|discriminate].
  pose proof (single_bonds_rel m0 Hu Hq adjs m node m1 (Hl node adjs (or_introl eq_refl)) Hr E1) as R1.
  apply (IH (set_counts2 (set_atoms m1 atoms') counts') m'); [intros n0 a0 Hin; apply Hl; now right|exact (rel_same m0 m1 _ eq_refl R1)|exact E].
Qed.

Lemma double_bonds_rel m0 l2n : U m0 -> EQ m0 -> forall prs m m',
  (forall i j, In (i, Some j) prs -> exists ni nj, nth_error l2n i = Some ni /\ nth_error l2n j = Some nj /\ edge3 m0 ni nj) -> Rel m0 m ->
  set_double_bonds m l2n prs = Ok m' -> Rel m0 m'.
Proof.
  intros Hu Hq. induction prs as [|[i oj] r IH]; intros m m' Hp Hr E; cbn [set_double_bonds] in E; [inversion E; subst; exact Hr|].
  destruct (lget l2n i) as [a|] eqn:Ea; cbn [bind] in E; [|discriminate]. destruct oj as [j|]; [|discriminate].
  destruct (lget l2n j) as [b|] eqn:Eb; cbn [bind] in E; [|discriminate].
  destruct (mg_update_bond_order m a b 4) as [m1|] eqn:E1; cbn [bind] in E; [|discriminate].
  apply (IH m1 m'); [intros i0 j0 Hin; apply Hp; now right| |exact E].
  destruct (Hp i j (or_introl eq_refl)) as (ni & nj & Hi & Hj & He). apply lget_In in Ea, Eb. rewrite Hi in Ea. rewrite Hj in Eb. inversion Ea; inversion Eb; subst.
  exact (update_rel m0 m a b 4 m1 Hu Hq He (or_intror eq_refl) Hr E1).
Qed.

Lemma gedge_link3 m sorted g : K3 m (m_ds m) -> pruned_ds_of m (label_table (mg_len m) 0 0 sorted) sorted = Ok g ->
  forall i j, gedge g i j -> exists ni nj, nth_error sorted i = Some ni /\ nth_error sorted j = Some nj /\ edge3 m ni nj.
Proof.
  intros H2 E i j He. destruct He as (li & Hn & Hj). destruct (pruned_spec _ _ _ _ E) as [_ P]. destruct (P i li Hn) as (node & adjs & Hs & Hl & ->).
  apply relabel_spec in Hj as (a & Ha & Hlab). apply label_spec in Hlab as (k & Hk & Hs'). cbn in Hk, Hs'. subst k.
  exists node, a. split; [exact Hs|]. split; [exact Hs'|]. exact (H2 node adjs a Hl Ha).
Qed.

Theorem kekulize_rel m m' : U m -> EQ m -> K3 m (m_ds m) -> kekulize m = Ok (Some m') -> Rel m m'.
Proof.
  intros Hu Hq Hk E. unfold kekulize in E. destruct (ds_is_empty _); [inversion E; subst; apply rel_refl|].
  destruct (any_bad_element _ _) as [bad|]; cbn [bind] in E; [|discriminate]. destruct bad; [discriminate|].
  destruct (kept_nodes_of _ _) as [kept|]; cbn [bind] in E; [|discriminate].
  destruct (pruned_ds_of _ _ _) as [g|] eqn:Eg; cbn [bind] in E; [|discriminate].
  destruct (find_perfect_matching g) as [[mt|]|] eqn:Em; cbn [bind] in E; try discriminate.
  destruct (dearomatize m _) as [m1|] eqn:E1; cbn [bind] in E; [|discriminate].
  destruct (set_double_bonds m1 _ _) as [m2|] eqn:E2; cbn [bind] in E; [|discriminate].
  inversion E; subst. apply (rel_same m m2); [reflexivity|].
  apply (double_bonds_rel m (sort_nat kept) Hu Hq (enum_from 0 mt) m1 m2); [|exact (dearomatize_rel m Hu Hq (ds_items (m_ds m)) m m1 (fun node adjs Hin d Hd => Hk node adjs d (proj1 (items_spec _ _ _ Hin)) Hd) (rel_refl m) E1)|exact E2].
  intros i j Hin. apply enum_from_nth in Hin as [_ Hn]. rewrite Nat.sub_0_r in Hn.
  destruct (perfect_matching_valid _ _ Em) as [[_ Hm] _].
  destruct (Hm i j Hn) as [He|He]; [exact (gedge_link3 m _ g Hk Eg i j He)|].
  destruct (gedge_link3 m _ g Hk Eg j i He) as (a & b & A & B & C). exists b, a. split; [exact B|]. split; [exact A|exact (edge3_sym _ _ _ C)].
Qed.

(* the rest of every edge is untouched: rows keep their slots, and a slot differs from the reader's only in the order *)
Definition skel (adj : list (list (option ebond))) : list (list (option ebond)) :=
  map (map (option_map (fun e => with_order2 e 0))) adj.

Lemma skel_upd adj i d o : skel (upd adj i (fun l => set_edge_order2 l d o)) = skel adj.
Proof.
  unfold skel. revert i. induction adj as [|row r IH]; intros [|i]; cbn [upd map]; try reflexivity; [|now rewrite IH].
  f_equal. unfold set_edge_order2. rewrite map_map. apply map_ext. intros [e|]; [|reflexivity]. destruct (_ =? _); reflexivity.
Qed.

Lemma update_skel m a b o m' : mg_update_bond_order m a b o = Ok m' -> skel (m_adj m') = skel (m_adj m).
Proof.
  unfold mg_update_bond_order. destruct (negb _); [discriminate|].
  destruct (mg_get_dirbond m _ _) as [ab|]; cbn [bind]; [|discriminate].
  destruct (_ =? _)%Z; [intro E; inversion E; reflexivity|].
  match goal with |- (do adj1 <- ?X; _) = _ -> _ => destruct X as [adj1|] eqn:Ead end; cbn [bind]; [|discriminate].
  destruct (mg_add_count2 (set_adj m adj1) _ _) as [m1|] eqn:E1; cbn [bind]; [|discriminate]. intro E2.
  apply add_count_adj in E1, E2. rewrite E2, E1. cbn [set_adj m_adj].
  destruct (e_ring ab); [destruct (mg_get_dirbond m _ _); cbn [bind] in Ead; [|discriminate]|]; inversion Ead; subst; now rewrite ?skel_upd.
Qed.

Lemma single_bonds_skel : forall adjs m node m', set_single_bonds m node adjs = Ok m' -> skel (m_adj m') = skel (m_adj m).
Proof.
  induction adjs as [|x r IH]; intros m node m' E; cbn [set_single_bonds] in E; [inversion E; reflexivity|].
  destruct (mg_update_bond_order m node x 2) as [m1|] eqn:E1; cbn [bind] in E; [|discriminate]. rewrite (IH _ _ _ E). exact (update_skel _ _ _ _ _ E1).
Qed.
Lemma dearomatize_skel : forall L m m', dearomatize m L = Ok m' -> skel (m_adj m') = skel (m_adj m).
Proof.
  induction L as [|[node adjs] r IH]; intros m m' E; cbn [dearomatize] in E; [inversion E; reflexivity|].
  destruct (set_single_bonds m node adjs) as [m1|] eqn:E1; cbn [bind] in E; [|discriminate].
  destruct (lupd (m_atoms m1) _ _) as [atoms'|]; cbn [bind] in E; [|discriminate].
  destruct (lupd (m_counts2 m1) _ _) as [counts'|]; cbn [bind] in E; [|discriminate].
  rewrite (IH _ _ E). cbn [set_counts2 set_atoms m_adj]. exact (single_bonds_skel _ _ _ _ E1).
Qed.
Lemma double_bonds_skel : forall prs m l2n m', set_double_bonds m l2n prs = Ok m' -> skel (m_adj m') = skel (m_adj m).
Proof.
  induction prs as [|[i oj] r IH]; intros m l2n m' E; cbn [set_double_bonds] in E; [inversion E; reflexivity|].
  destruct (lget l2n i); cbn [bind] in E; [|discriminate]. destruct oj as [j|]; [|discriminate].
  destruct (lget l2n j); cbn [bind] in E; [|discriminate].
  destruct (mg_update_bond_order m _ _ 4) as [m1|] eqn:E1; cbn [bind] in E; [|discriminate]. rewrite (IH _ _ _ E). exact (update_skel _ _ _ _ _ E1).
Qed.
Theorem kekulize_skel m m' : kekulize m = Ok (Some m') -> skel (m_adj m') = skel (m_adj m).
Proof.
  unfold kekulize. destruct (ds_is_empty _); [intro E; inversion E; reflexivity|].
  destruct (any_bad_element _ _) as [bad|]; cbn [bind]; [|discriminate]. destruct bad; [discriminate|].
  destruct (kept_nodes_of _ _) as [kept|]; cbn [bind]; [|discriminate].
  destruct (pruned_ds_of _ _ _) as [g|]; cbn [bind]; [|discriminate].
  destruct (find_perfect_matching g) as [[mt|]|]; cbn [bind]; try discriminate.
  destruct (dearomatize m _) as [m1|] eqn:E1; cbn [bind]; [|discriminate].
  destruct (set_double_bonds m1 _ _) as [m2|] eqn:E2; cbn [bind]; [|discriminate].
  intro E; inversion E; subst. cbn [set_ds m_adj]. rewrite (double_bonds_skel _ _ _ _ E2). exact (dearomatize_skel _ _ _ E1).
Qed.

Theorem parsed_kekulize_keeps smiles attributable m0 m1 : smiles_to_mol smiles attributable = Ok m0 -> kekulize m0 = Ok (Some m1) ->
  skel (m_adj m1) = skel (m_adj m0) /\ Rel m0 m1.
Proof.
  intros Ep Ek. split; [exact (kekulize_skel _ _ Ek)|].
  destruct (parsed_gue _ _ _ Ep) as (_ & _ & _ & _ & _ & _ & Hu & Hq). exact (kekulize_rel m0 m1 Hu Hq (parsed_k3 _ _ _ Ep) Ek).
Qed.
