(* DocConverse.v — C02, the rejection side: what the documented grammar reads as an atom symbol the decoder
   reads as one too, symbols that look like branch / ring symbols are no atom symbols, and therefore a
   derivation the decoder rejects is rejected by the documented derivation as well. *)
From Coq Require Import Ascii String List Arith ZArith NArith Bool Lia.
Import ListNotations.
From Selfies Require Import Base Generated Lex Atoms Grammar Decoder IndexSpec Reader DocGrammar WfSpec BaseFacts StateFacts ConfigFacts DecoderBasics
  DecoderInv TokFacts DecFacts AlphaClosure WriterAtoms WriterFinal DocAtoms DocDerive.
Local Open Scope Z_scope.

(* ---------- the documented reader's pieces, read backwards ---------- *)
Lemma strip_inv sym body : strip_brackets sym = Some body -> sym = 91%N :: body ++ [93%N].
Proof.
  unfold strip_brackets. destruct sym as [|c0 s0]; [discriminate|]. destruct (N.eqb_spec c0 91) as [->|]; [|discriminate].
  destruct (rev s0) as [|c1 rb] eqn:Er; [discriminate|]. destruct (N.eqb_spec c1 93) as [->|]; [|discriminate].
  intro H. injection H as <-. f_equal. rewrite <- (rev_involutive s0), Er. reflexivity.
Qed.

Lemma take_while_spec (p : N -> bool) : forall s a b, take_while p s = (a, b) -> s = a ++ b /\ Forall (fun c => p c = true) a /\ nf p b.
Proof.
  induction s as [|c r IH]; intros a b E; cbn [take_while] in E.
  - injection E as <- <-. repeat split; constructor.
  - destruct (p c) eqn:Ec.
    + destruct (take_while p r) as [a' b'] eqn:Er. injection E as <- <-. destruct (IH _ _ eq_refl) as (E1 & F & N).
      split; [cbn; now rewrite <- E1|]. split; [now constructor|exact N].
    + injection E as <- <-. split; [reflexivity|]. split; [constructor|exact Ec].
Qed.

Lemma read_prefix_inv body beta mark s1 : read_prefix body = (beta, mark, s1) ->
  exists B, body = B ++ s1 /\ (B = [] \/ exists c, B = [c] /\ is_bond_prefix c = true) /\
            (beta, mark) = (fst (smiles_to_bond2 (hd_error B)) / 2, snd (smiles_to_bond2 (hd_error B))) /\
            (B = [] -> nf (fun c => N.eqb c 61 || N.eqb c 35 || N.eqb c 47 || N.eqb c 92) s1).
Proof.
  unfold read_prefix. destruct body as [|c r].
  - intro E. injection E as <- <- <-. exists []. repeat split; auto.
  - destruct (N.eqb_spec c 61) as [->|N1]; [intro E; injection E as <- <- <-; exists [61%N]; repeat split; [right; eauto|discriminate]|].
    destruct (N.eqb_spec c 35) as [->|N2]; [intro E; injection E as <- <- <-; exists [35%N]; repeat split; [right; eauto|discriminate]|].
    destruct (N.eqb_spec c 47) as [->|N3]; [intro E; injection E as <- <- <-; exists [47%N]; repeat split; [right; eauto|discriminate]|].
    destruct (N.eqb_spec c 92) as [->|N4]; [intro E; injection E as <- <- <-; exists [92%N]; repeat split; [right; eauto|discriminate]|].
    intro E. injection E as <- <- <-. exists []. repeat split; auto. intros _. cbn [nf].
    repeat (apply orb_false_iff; split); now apply N.eqb_neq.
Qed.

Lemma read_chi_inv s c r : read_chi s = (c, r) -> exists C, s = C ++ r /\ chi_ok C /\ c = match C with [] => None | _ => Some C end /\
  (C = [] -> nf (fun x => N.eqb x 64) r) /\ (C = lit "@" -> nf (fun x => N.eqb x 64) r).
Proof.
  unfold read_chi. destruct s as [|c1 r1].
  - intro E. injection E as <- <-. exists []. repeat split; auto. now left.
  - destruct (N.eqb_spec c1 64) as [->|N1].
    + destruct r1 as [|c2 r2].
      * intro E. injection E as <- <-. exists [64%N]. repeat split; auto. right; now left.
      * destruct (N.eqb_spec c2 64) as [->|N2].
        -- intro E. injection E as <- <-. exists [64%N; 64%N]. repeat split; auto; try discriminate. right; now right.
        -- intro E. injection E as <- <-. exists [64%N]. repeat split; auto; try discriminate; [right; now left|]. intros _. cbn. now apply N.eqb_neq.
    + intro E. injection E as <- <-. exists []. repeat split; auto; try discriminate; [now left|]. intros _. cbn. now apply N.eqb_neq.
Qed.

Lemma read_h_inv s h r : read_h s = Some (h, r) -> exists H, s = H ++ r /\ h_ok H /\ h = match H with [_; d] => Some (dval d) | _ => None end /\
  (H = [] -> nf (fun x => N.eqb x 72) r).
Proof.
  unfold read_h. destruct s as [|c r0].
  - intro E. injection E as <- <-. exists []. repeat split; auto. now left.
  - destruct (N.eqb_spec c 72) as [->|N1].
    + destruct r0 as [|d r']; [discriminate|]. destruct (is_digit d) eqn:Ed; [|discriminate]. intro E. injection E as <- <-.
      exists [72%N; d]. repeat split; auto; try discriminate. right. eauto.
    + intro E. injection E as <- <-. exists []. repeat split; auto; [now left|]. intros _. cbn. now apply N.eqb_neq.
Qed.

Lemma read_charge_inv s c : read_charge s = Some c -> chg_ok s.
Proof.
  unfold read_charge. destruct s as [|sg r]; [intros _; now left|].
  destruct (N.eqb sg 43 || N.eqb sg 45) eqn:Es; [|discriminate]. destruct r as [|d1 r']; [discriminate|].
  destruct (is_nz_digit d1 && forallb is_digit r') eqn:Ed; [|discriminate]. intros _. right. exists sg, d1, r'.
  apply andb_true_iff in Ed as [D1 D2]. repeat split; auto.
  - apply orb_true_iff in Es as [E|E]; apply N.eqb_eq in E; auto.
  - apply Forall_forall. intros x Hx. rewrite forallb_forall in D2. exact (D2 x Hx).
Qed.

(* ---------- an atom symbol of the documented grammar is tiled like the decoder's ---------- *)
Record tiles (B I E C H G : str) : Prop := {
  t_B : B = [] \/ exists c, B = [c] /\ is_bond_prefix c = true;
  t_B0 : B = [] -> nf (fun c => N.eqb c 61 || N.eqb c 35 || N.eqb c 47 || N.eqb c 92) (I ++ E ++ C ++ H ++ G);
  t_I : Forall (fun c => is_09 c = true) I;
  t_E : elem_shape E = true;
  t_E1 : length E = 1%nat -> nf is_lower (C ++ H ++ G);
  t_C : chi_ok C;
  t_C0 : C = [] -> nf (fun x => N.eqb x 64) (H ++ G);
  t_C1 : C = lit "@" -> nf (fun x => N.eqb x 64) (H ++ G);
  t_H : h_ok H;
  t_H0 : H = [] -> nf (fun x => N.eqb x 72) G;
  t_G : chg_ok G }.

Lemma organic_shapes s : mem_str s organic = true -> elem_shape s = true /\ s <> [].
Proof.
  intro H. apply mem_str_In in H. cbn in H.
  repeat (destruct H as [<-|H]; [split; [reflexivity|discriminate]|]). destruct H.
Qed.

Lemma doc_tiles sym beta mark a : parse_atom_symbol sym = Some (beta, mark, a) ->
  exists B I E C H G, sym = (91%N :: B ++ I ++ E ++ C ++ H ++ G ++ [93%N])%list /\ tiles B I E C H G /\
    (mem_str (I ++ E ++ C ++ H ++ G) organic = true \/ mem_str E elements = true).
Proof.
  rewrite parse_atom_symbol_body. destruct (strip_brackets sym) as [body|] eqn:Es; [|discriminate].
  apply strip_inv in Es. destruct (read_prefix body) as [[b mk] s1] eqn:Ep.
  destruct (read_prefix_inv _ _ _ _ Ep) as (B & Eb & HB & _ & HB0).
  destruct (doc_body s1) as [a0|] eqn:Ed; [|discriminate]. intros _.
  unfold doc_body in Ed. destruct (mem_str s1 organic) eqn:Eorg.
  - (* an organic-subset symbol *)
    destruct (organic_shapes s1 Eorg) as [Hsh Hne].
    exists B, [], s1, [], [], []. cbn [app]. split; [rewrite Es, Eb, <- app_assoc; reflexivity|].
    split; [|left; now rewrite app_nil_r].
    constructor; try (now left); try (intros; exact I); auto.
    intro HB'. specialize (HB0 HB'). cbn [app]. now rewrite app_nil_r.
  - destruct (take_while is_digit s1) as [iso s2] eqn:Et. destruct (take_while_spec _ _ _ _ Et) as (E1 & Fi & Ni).
    destruct s2 as [|e1 s3]; [discriminate|]. destruct (is_up e1) eqn:Eu; cbn [negb] in Ed; [|discriminate].
    set (es := match s3 with e2 :: r => if is_low e2 then ([e1; e2], r) else ([e1], s3) | [] => ([e1], s3) end) in *.
    assert (Hes : (e1 :: s3 = fst es ++ snd es)%list /\ elem_shape (fst es) = true /\ (length (fst es) = 1%nat -> nf is_lower (snd es))).
    { unfold es. destruct s3 as [|e2 r]; cbn [fst snd app elem_shape length].
      - split; [reflexivity|]. split; [exact Eu|]. intros _. exact I.
      - destruct (is_low e2) eqn:El; cbn [fst snd app elem_shape length].
        + split; [reflexivity|]. split; [change (is_upper e1) with (is_up e1); change (is_lower e2) with (is_low e2); now rewrite Eu, El|]. intro X; discriminate.
        + split; [reflexivity|]. split; [exact Eu|]. intros _. exact El. }
    destruct es as [elem s4]. cbn [fst snd] in Hes. destruct Hes as (E2 & Hel & Hel1).
    destruct (mem_str elem elements) eqn:Eel; cbn [negb] in Ed; [|discriminate].
    destruct (read_chi s4) as [chi s5] eqn:Ec. destruct (read_chi_inv _ _ _ Ec) as (C & E3 & HC & _ & HC0 & HC1).
    destruct (read_h s5) as [[h s6]|] eqn:Eh; [|discriminate]. destruct (read_h_inv _ _ _ Eh) as (H & E4 & HH & _ & HH0).
    destruct (read_charge s6) as [c|] eqn:Eg; [|discriminate]. pose proof (read_charge_inv _ _ Eg) as HG.
    exists B, iso, elem, C, H, s6. split.
    { rewrite Es, Eb, E1, E2, E3, E4. rewrite <- ?app_assoc. reflexivity. }
    split; [|right; exact Eel].
    constructor; auto.
    + intro HB'. specialize (HB0 HB'). rewrite E1, E2, E3, E4 in HB0. rewrite <- ?app_assoc in HB0. exact HB0.
    + intro L. specialize (Hel1 L). rewrite E3, E4 in Hel1. rewrite <- ?app_assoc in Hel1. exact Hel1.
    + intro X. specialize (HC0 X). now rewrite E4 in HC0.
    + intro X. specialize (HC1 X). now rewrite E4 in HC1.
Qed.

(* ---------- the decoder's matcher on such a tiling ---------- *)
Lemma span_stop (p : N -> bool) ds x r : Forall (fun c => p c = true) ds -> p x = false -> span p (ds ++ x :: r) = (ds, x :: r).
Proof. intros F Hx. induction F as [|c l Hc F IH]; cbn [app span]; [now rewrite Hx|]. now rewrite Hc, IH. Qed.

Lemma nf_snoc (p : N -> bool) s : nf p s -> p 93%N = false -> nf p (s ++ [93%N]).
Proof. destruct s; cbn; auto. Qed.

Lemma match_on_tiles B I E C H G : tiles B I E C H G ->
  match_selfies_atom (91%N :: B ++ I ++ E ++ C ++ H ++ G ++ [93%N]) =
    Some {| f_bond := hd_error B; f_iso := I; f_elem := E; f_chi := C; f_h := H; f_charge := G |}.
Proof.
  intros [HB HB0 HI HE HE1 HC HC0 HC1 HH HH0 HG]. unfold match_selfies_atom. cbn [negb N.eqb Pos.eqb].
  (* the bond prefix *)
  assert (E1 : match B ++ I ++ E ++ C ++ H ++ G ++ [93%N] with
               | c :: r => if is_bond_prefix c then (Some c, r) else (None, B ++ I ++ E ++ C ++ H ++ G ++ [93%N])
               | [] => (None, B ++ I ++ E ++ C ++ H ++ G ++ [93%N]) end = (hd_error B, I ++ E ++ C ++ H ++ G ++ [93%N])).
  { destruct HB as [->|(c & -> & Hc)].
    - cbn [app hd_error]. specialize (HB0 eq_refl).
      destruct (I ++ E ++ C ++ H ++ G) as [|c r] eqn:Eq.
      + exfalso. destruct I; [|discriminate]. destruct E as [|? ?]; [discriminate HE|discriminate].
      + assert (Eq' : I ++ E ++ C ++ H ++ G ++ [93%N] = c :: r ++ [93%N]).
        { replace (I ++ E ++ C ++ H ++ G ++ [93%N]) with ((I ++ E ++ C ++ H ++ G) ++ [93%N]) by (now rewrite <- !app_assoc). now rewrite Eq. }
        rewrite Eq'. cbn [nf] in HB0. unfold is_bond_prefix. cbn -[N.eqb].
        apply orb_false_iff in HB0 as [X H4]. apply orb_false_iff in X as [X H3]. apply orb_false_iff in X as [H1 H2].
        rewrite H1, H2, H3, H4. reflexivity.
    - cbn [app hd_error]. now rewrite Hc. }
  rewrite E1.
  (* the isotope digits stop at the element *)
  destruct E as [|e1 E']; [discriminate HE|].
  assert (Hu : is_upper e1 = true) by (destruct E' as [|e2 [|? ?]]; cbn [elem_shape] in HE; [exact HE|apply andb_true_iff in HE; tauto|discriminate]).
  assert (Hd : is_09 e1 = false).
  { unfold is_upper in Hu. apply andb_true_iff in Hu as [A B']. apply N.leb_le in A, B'. unfold is_09. apply andb_false_iff. right. apply N.leb_gt. lia. }
  cbn [app]. rewrite (span_stop is_09 I e1 _ HI Hd). rewrite Hu. cbn [negb].
  (* the element *)
  assert (E2 : match E' ++ C ++ H ++ G ++ [93%N] with
               | e2 :: r => if is_lower e2 then ([e1; e2], r) else ([e1], E' ++ C ++ H ++ G ++ [93%N])
               | [] => ([e1], E' ++ C ++ H ++ G ++ [93%N]) end = (e1 :: E', C ++ H ++ G ++ [93%N])).
  { destruct E' as [|e2 [|? ?]]; cbn [elem_shape] in HE; [| |discriminate].
    - cbn [app]. specialize (HE1 eq_refl).
      assert (N1 : nf is_lower (C ++ H ++ G ++ [93%N])).
      { replace (C ++ H ++ G ++ [93%N]) with ((C ++ H ++ G) ++ [93%N]) by (now rewrite <- !app_assoc). apply nf_snoc; [exact HE1|reflexivity]. }
      destruct (C ++ H ++ G ++ [93%N]) as [|e2 r]; [reflexivity|]. cbn in N1. now rewrite N1.
    - apply andb_true_iff in HE as [_ Hl]. cbn [app]. now rewrite Hl. }
  rewrite E2.
  (* the chirality tag *)
  assert (N2 : forall X, nf (fun x => N.eqb x 64) X -> nf (fun x => N.eqb x 64) (X ++ [93%N])) by (intros X HX; apply nf_snoc; [exact HX|reflexivity]).
  assert (E3 : (if prefix_of (lit "@@") (C ++ H ++ G ++ [93%N]) then (lit "@@", skipn 2 (C ++ H ++ G ++ [93%N]))
                else if prefix_of (lit "@") (C ++ H ++ G ++ [93%N]) then (lit "@", skipn 1 (C ++ H ++ G ++ [93%N]))
                else ([], C ++ H ++ G ++ [93%N])) = (C, H ++ G ++ [93%N])).
  { destruct HC as [->|[->| ->]].
    - specialize (HC0 eq_refl). cbn [app]. replace (H ++ G ++ [93%N]) with ((H ++ G) ++ [93%N]) by (now rewrite <- app_assoc).
      specialize (N2 _ HC0). destruct ((H ++ G) ++ [93%N]) as [|x r]; [reflexivity|]. cbn in N2. cbn -[N.eqb]. rewrite (N.eqb_sym 64 x), N2. reflexivity.
    - specialize (HC1 eq_refl). cbn [app lit]. replace (H ++ G ++ [93%N]) with ((H ++ G) ++ [93%N]) by (now rewrite <- app_assoc).
      specialize (N2 _ HC1). destruct ((H ++ G) ++ [93%N]) as [|x r]; [reflexivity|]. cbn in N2. cbn -[N.eqb]. rewrite (N.eqb_sym 64 x), N2. reflexivity.
    - reflexivity. }
  rewrite E3.
  (* the hydrogen count *)
  assert (E4 : match H ++ G ++ [93%N] with
               | c :: d :: r => if N.eqb c 72 && is_09 d then ([c; d], r) else ([], H ++ G ++ [93%N])
               | _ => ([], H ++ G ++ [93%N]) end = (H, G ++ [93%N])).
  { destruct HH as [->|(d & -> & Hd')].
    - specialize (HH0 eq_refl). cbn [app]. destruct G as [|g G']; [reflexivity|]. cbn [app]. cbn [nf] in HH0.
      destruct (G' ++ [93%N]) eqn:Eq; [destruct G'; discriminate|]. now rewrite HH0.
    - cbn [app]. rewrite N.eqb_refl, Hd'. reflexivity. }
  rewrite E4.
  (* the charge *)
  destruct HG as [->|(sg & d1 & ds & -> & Hsg & H1 & Hds)].
  - cbn [app]. cbn. reflexivity.
  - cbn [app]. assert (X : (N.eqb sg 43 || N.eqb sg 45) = true) by (destruct Hsg as [-> | ->]; reflexivity). rewrite X, H1.
    rewrite (span_stop is_09 ds 93%N [] Hds eq_refl). cbn. reflexivity.
Qed.

(* ---------- what the documented grammar reads as an atom symbol, the decoder reads as one ---------- *)
Lemma model_of_doc sym beta mark a : tok_ok sym -> parse_atom_symbol sym = Some (beta, mark, a) ->
  exists o st a', process_atom_nocache sym = Ok (Some (o, st, a')).
Proof.
  intros [o' Ho'] Hp. destruct (doc_tiles _ _ _ _ Hp) as (B & I & E & C & H & G & Es & Ht & Hel).
  pose proof (match_on_tiles B I E C H G Ht) as Em. rewrite <- Es in Em.
  unfold process_atom_nocache in *. rewrite Em in *. cbn [f_bond f_iso f_elem f_chi f_h f_charge] in *.
  destruct (smiles_to_bond2 (hd_error B)) as [o2 st2].
  assert (Hbody : slice sym (1 + match hd_error B with Some _ => 1 | None => 0 end) (length sym - 1) = I ++ E ++ C ++ H ++ G).
  { assert (Hlen : length B = match hd_error B with Some _ => 1%nat | None => 0%nat end).
    { destruct (t_B _ _ _ _ _ _ Ht) as [->|(c & -> & _)]; reflexivity. }
    rewrite <- Hlen, Es. change (91%N :: B ++ I ++ E ++ C ++ H ++ G ++ [93%N]) with ((91%N :: B) ++ I ++ E ++ C ++ H ++ G ++ [93%N]).
    replace (I ++ E ++ C ++ H ++ G ++ [93%N]) with ((I ++ E ++ C ++ H ++ G) ++ [93%N]) by (now rewrite <- !app_assoc).
    pose proof (slice_mid (91%N :: B) (I ++ E ++ C ++ H ++ G) [93%N]) as X. cbn [length] in X.
    replace (length ((91%N :: B) ++ (I ++ E ++ C ++ H ++ G) ++ [93%N]) - 1)%nat with (S (length B) + length (I ++ E ++ C ++ H ++ G))%nat; [exact X|].
    rewrite !app_length. cbn [length]. lia. }
  rewrite Hbody in *. rewrite <- organic_same in *.
  destruct (mem_str (I ++ E ++ C ++ H ++ G) organic) eqn:Eorg; [eauto|].
  destruct Hel as [X|Hel]; [discriminate|].
  destruct (match I with [] => Ok None | _ => _ end) as [iso|]; cbn [bind] in *; [|discriminate].
  rewrite Hel in *. cbn [negb] in *.
  destruct (match H with [] => Ok 0%N | _ => _ end) as [h|]; cbn [bind] in *; [|discriminate].
  destruct (match G with [] => Ok 0 | _ => _ end) as [chg|]; cbn [bind] in *; [|discriminate].
  eauto.
Qed.

Lemma nocache_none_doc sym : process_atom_nocache sym = Ok None -> parse_atom_symbol sym = None.
Proof.
  intro H. destruct (parse_atom_symbol sym) as [[[b mk] a]|] eqn:Ep; [|reflexivity].
  destruct (model_of_doc sym b mk a (ex_intro _ None H) Ep) as (o & st & a' & E). congruence.
Qed.

Lemma pas_none_doc T sym : process_atom_symbol T sym = Ok None ->
  parse_atom_symbol sym = None \/ exists b mk a, parse_atom_symbol sym = Some (b, mk, a) /\ alpha T a = None.
Proof.
  unfold process_atom_symbol, process_atom_symbol_c.
  destruct (process_atom_nocache sym) as [[[[o st] a]|]|] eqn:Ep; cbn [bind]; try discriminate.
  - unfold bonding_capacity_c. destruct (get_bonding_capacity T (a_element a) (a_charge a)) as [c|] eqn:Ec; cbn [bind]; [|discriminate].
    destruct (_ <? 0) eqn:Eneg; [|discriminate]. intros _. right. exists o, st, (abs_atom a). split; [now apply doc_parse_of_model|].
    unfold alpha. rewrite (capacity_eq T a c Ec). unfold abs_atom. cbn [sa_h].
    assert (X : c - Z.of_N (match a_hcount a with Some h => h | None => 0%N end) = c - match a_hcount a with None => 0 | Some h => Z.of_N h end)
      by (destruct (a_hcount a); reflexivity).
    now rewrite X, Eneg.
  - intros _. left. now apply nocache_none_doc.
Qed.

(* ---------- symbols that look like branch or ring symbols are no atom symbols ---------- *)
Fixpoint lowok (s : str) : bool :=
  match s with
  | x :: r => match r with y :: _ => (negb (is_lower y) || is_upper x) && lowok r | [] => true end
  | [] => true
  end.

Lemma lowok_pair : forall p x y q, lowok (p ++ x :: y :: q) = true -> is_lower y = true -> is_upper x = true.
Proof.
  induction p as [|a p IH]; intros x y q H Hy.
  - cbn [app lowok] in H. apply andb_true_iff in H as [H _]. rewrite Hy in H. exact H.
  - cbn [app] in H. cbn [lowok] in H. destruct (p ++ x :: y :: q) eqn:E; [destruct p; discriminate|].
    apply andb_true_iff in H as [_ H]. rewrite <- E in H. exact (IH _ _ _ H Hy).
Qed.

Lemma lowok_app : forall a b, lowok a = true -> lowok b = true -> nf is_lower b -> lowok (a ++ b) = true.
Proof.
  induction a as [|x a IH]; intros b Ha Hb Hn; [exact Hb|].
  cbn [app]. cbn [lowok]. destruct (a ++ b) as [|y r] eqn:E; [reflexivity|].
  rewrite <- E. rewrite IH; [|destruct a; [reflexivity|cbn [lowok] in Ha; apply andb_true_iff in Ha; tauto]|exact Hb|exact Hn].
  rewrite andb_true_r. destruct a as [|y' a'].
  - cbn [app] in E. subst b. cbn [nf] in Hn. now rewrite Hn.
  - cbn [app] in E. injection E as <- _. cbn [lowok] in Ha. apply andb_true_iff in Ha. tauto.
Qed.

Lemma nolower_lowok s : forallb (fun c => negb (is_lower c)) s = true -> lowok s = true.
Proof.
  induction s as [|x s IH]; intro H; [reflexivity|]. cbn [forallb] in H. apply andb_true_iff in H as [_ H].
  cbn [lowok]. destruct s as [|y r]; [reflexivity|]. rewrite (IH H). cbn [forallb] in H. apply andb_true_iff in H as [Hy _]. now rewrite Hy.
Qed.

Lemma digits_nolower I : Forall (fun c => is_09 c = true) I -> forallb (fun c => negb (is_lower c)) I = true.
Proof.
  intro F. apply forallb_forall. intros c Hc. rewrite Forall_forall in F. specialize (F c Hc).
  unfold is_09 in F. apply andb_true_iff in F as [A B]. apply N.leb_le in A, B. unfold is_lower. apply negb_true_iff, andb_false_iff. left. apply N.leb_gt. lia.
Qed.

Lemma tiles_lowok B I E C H G : tiles B I E C H G -> lowok (91%N :: B ++ I ++ E ++ C ++ H ++ G ++ [93%N]) = true.
Proof.
  intros [HB _ HI HE _ HC _ _ HH _ HG].
  assert (LG : lowok (G ++ [93%N]) = true /\ nf is_lower (G ++ [93%N])).
  { destruct HG as [->|(sg & d1 & ds & -> & Hsg & H1 & Hds)]; [split; reflexivity|]. split.
    - apply nolower_lowok. cbn [app forallb]. rewrite forallb_app. cbn [forallb].
      assert (X1 : negb (is_lower sg) = true) by (destruct Hsg as [-> | ->]; reflexivity).
      assert (X2 : negb (is_lower d1) = true).
      { unfold is_19 in H1. apply andb_true_iff in H1 as [A B']. apply N.leb_le in A, B'. unfold is_lower. apply negb_true_iff, andb_false_iff. left. apply N.leb_gt. lia. }
      rewrite X1, X2, (digits_nolower ds Hds). reflexivity.
    - destruct Hsg as [-> | ->]; reflexivity. }
  destruct LG as [LG NG].
  assert (LH : lowok (H ++ G ++ [93%N]) = true /\ nf is_lower (H ++ G ++ [93%N])).
  { destruct HH as [->|(d & -> & Hd)]; [split; assumption|]. split; [|reflexivity].
    apply (lowok_app [72%N; d]); [|exact LG|exact NG]. apply nolower_lowok. cbn [forallb]. rewrite andb_true_r.
    unfold is_09 in Hd. apply andb_true_iff in Hd as [A B']. apply N.leb_le in A, B'. cbn. unfold is_lower. apply negb_true_iff, andb_false_iff. left. apply N.leb_gt. lia. }
  destruct LH as [LH NH].
  assert (LC : lowok (C ++ H ++ G ++ [93%N]) = true /\ nf is_lower (C ++ H ++ G ++ [93%N])).
  { destruct HC as [->|[->| ->]]; [split; assumption| |]; (split; [|reflexivity]); (apply lowok_app; [reflexivity|exact LH|exact NH]). }
  destruct LC as [LC NC].
  assert (LE : lowok (E ++ C ++ H ++ G ++ [93%N]) = true /\ nf is_lower (E ++ C ++ H ++ G ++ [93%N])).
  { destruct E as [|e1 [|e2 [|? ?]]]; cbn [elem_shape] in HE; try discriminate.
    - assert (X : is_lower e1 = false).
      { unfold is_upper in HE. apply andb_true_iff in HE as [A B']. apply N.leb_le in A, B'. unfold is_lower. apply andb_false_iff. left. apply N.leb_gt. lia. }
      split; [|exact X]. apply (lowok_app [e1]); [reflexivity|exact LC|exact NC].
    - apply andb_true_iff in HE as [Hu Hl].
      assert (X : is_lower e1 = false).
      { unfold is_upper in Hu. apply andb_true_iff in Hu as [A B']. apply N.leb_le in A, B'. unfold is_lower. apply andb_false_iff. left. apply N.leb_gt. lia. }
      split; [|exact X]. apply (lowok_app [e1; e2]); [|exact LC|exact NC]. cbn [lowok]. rewrite Hu. now rewrite orb_true_r. }
  destruct LE as [LE NE].
  assert (LI : lowok (I ++ E ++ C ++ H ++ G ++ [93%N]) = true /\ nf is_lower (I ++ E ++ C ++ H ++ G ++ [93%N])).
  { split.
    - apply lowok_app; [apply nolower_lowok; now apply digits_nolower|exact LE|exact NE].
    - destruct I as [|d ds]; [exact NE|]. inversion HI as [|? ? Hd _]; subst. cbn [app nf].
      unfold is_09 in Hd. apply andb_true_iff in Hd as [A B']. apply N.leb_le in A, B'. unfold is_lower. apply andb_false_iff. left. apply N.leb_gt. lia. }
  destruct LI as [LI NI].
  assert (LB : lowok (B ++ I ++ E ++ C ++ H ++ G ++ [93%N]) = true /\ nf is_lower (B ++ I ++ E ++ C ++ H ++ G ++ [93%N])).
  { destruct HB as [->|(c & -> & Hc)]; [split; assumption|]. split.
    - apply (lowok_app [c]); [reflexivity|exact LI|exact NI].
    - cbn [app nf]. destruct (bond_prefix_cases c Hc) as [->|[->|[->| ->]]]; reflexivity. }
  destruct LB as [LB NB].
  apply (lowok_app [91%N]); [reflexivity|exact LB|exact NB].
Qed.

Lemma like_not_atom sym a b : is_lower b = true -> is_upper a = false ->
  str_eqb (slice_neg sym 4 2) [a; b] = true -> parse_atom_symbol sym = None.
Proof.
  intros Hb Ha Hs. destruct (parse_atom_symbol sym) as [[[bt mk] at_]|] eqn:Ep; [|reflexivity]. exfalso.
  destruct (doc_tiles _ _ _ _ Ep) as (B & I & E & C & H & G & Es & Ht & _).
  pose proof (tiles_lowok _ _ _ _ _ _ Ht) as L. rewrite <- Es in L.
  apply str_eqb_eq in Hs. unfold slice_neg, slice in Hs.
  set (k := (length sym - 4)%nat) in *.
  assert (Hsk : exists q, skipn k sym = a :: b :: q).
  { destruct (skipn k sym) as [|x [|y q]]; cbn in Hs; try discriminate.
    - destruct (length sym - 2 - k)%nat; discriminate.
    - destruct (length sym - 2 - k)%nat as [|[|?]]; cbn in Hs; try discriminate.
    - destruct (length sym - 2 - k)%nat as [|[|?]]; cbn in Hs; try discriminate; injection Hs as -> ->; eauto. }
  destruct Hsk as [q Hq]. rewrite <- (firstn_skipn k sym), Hq in L.
  pose proof (lowok_pair _ _ _ _ L Hb). congruence.
Qed.

Lemma branch_like_not_atom sym : is_branch_like sym = true -> parse_atom_symbol sym = None.
Proof. unfold is_branch_like. apply like_not_atom; reflexivity. Qed.

Lemma ring_like_not_atom sym : is_ring_like sym = true -> parse_atom_symbol sym = None.
Proof. unfold is_ring_like. apply like_not_atom; reflexivity. Qed.
