(* EncSize.v — C10: the decodability theorem with hypotheses on sizes only: an input of at most 16^3 characters whose
   output has at most 16^3 symbols is decodable (every ring span is below the number of atoms, every branch length below
   the number of symbols). *)
From Coq Require Import Ascii String List Arith ZArith NArith Bool Lia.
Import ListNotations.
From Selfies Require Import Base Generated Lex Atoms Grammar Decoder Smiles PySet Matching Kekulize Encoder Reader
  BaseFacts WfSpec LexFacts NopFacts DecoderInv TokFacts DeriveOk AlphaClosure WriterAtoms ParserTotal IndexSpec IndexCode
  EncHyp EncShape EncTokens EncAtoms EncGood EncDecodes EncRows.
Local Open Scope Z_scope.

Ltac slia := unfold str in *; lia.

Inductive etokb (m : emol) (B : Z) : str -> Prop :=
| eb_atom bc a at_ i t : mg_get_atom m i = Ok (a, at_) -> a_aromatic a = false -> In bc bond5 -> atom_to_smiles a false = Ok t ->
    etokb m B (lit "[" ++ bc ++ t ++ lit "]")
| eb_index t : In t index_alphabet -> etokb m B t
| eb_branch bs Q idx : In bs branch_prefixes -> get_selfies_from_index idx = Ok Q -> idx < B ->
    etokb m B (lit "[" ++ bs ++ lit "Branch" ++ str_of_nat (length Q) ++ lit "]")
| eb_ring rs Q idx : In rs ring_prefixes -> get_selfies_from_index idx = Ok Q -> idx < B ->
    etokb m B (lit "[" ++ rs ++ lit "Ring" ++ str_of_nat (length Q) ++ lit "]").

Lemma etokb_etok m B t : etokb m B t -> etok m t.
Proof. intros [bc a at_ i t0 H1 H2 H3 H4|t0 H|bs Q idx H1 H2 _|rs Q idx H1 H2 _]; [eapply et_atom; eassumption|now apply et_index|eapply et_branch; eassumption|eapply et_ring; eassumption]. Qed.

Definition bounded (m : emol) (ts : list str) : Prop :=
  forall B, Z.of_nat (mg_len m) <= B -> Z.of_nat (length ts) <= B -> Forall (etokb m B) ts.

Section Walk.
Variable m : emol.
Hypothesis Hadj : AdjP m.
Hypothesis Hrow : RowP m.

Lemma out_loop_bounded (walk : ebond -> nat -> nat -> res (list str * list amap)) :
  (forall b ai o ts ms, walk b ai o = Ok (ts, ms) -> bounded m ts) ->
  forall bonds aidx off ts ms, Forall (fun b => sok (e_stereo b) /\ (e_src b < mg_len m)%nat) bonds ->
    out_loop m walk bonds aidx off = Ok (ts, ms) -> bounded m ts.
Proof.
  intro Hw. induction bonds as [|b rest IH]; intros aidx off ts ms Hb E; cbn [out_loop] in E; [inversion E; subst; intros B _ _; constructor|].
  inversion Hb as [|? ? [Hb1 Hb1'] Hb2]; subst.
  destruct (e_ring b).
  - destruct (e_src b <? e_dst b)%nat; [exact (IH _ _ _ _ Hb2 E)|].
    destruct (mg_get_dirbond m (e_dst b) (e_src b)) as [rv|] eqn:Erv; cbn [bind] in E; [|discriminate].
    destruct (get_selfies_from_index _) as [Q|] eqn:EQ; cbn [bind] in E; [|discriminate].
    destruct (ring_bonds_to_selfies rv b) as [rs|] eqn:Er; cbn [bind] in E; [|discriminate].
    match type of E with (do _ <- ?X; _) = _ => destruct X as [[ts1 ms1]|] eqn:E1 end; cbn [bind] in E; [|discriminate].
    inversion E; subst; clear E. intros B HB HL. cbn [length app] in HL. rewrite app_length in HL. constructor.
    { eapply eb_ring; [|exact EQ|slia]. exact (ring_sel_cases _ _ _ (dirbond_sok _ _ _ _ Hadj Erv) Hb1 Er). }
    apply Forall_app. split; [|apply (IH _ _ _ _ Hb2 E1 B HB); slia].
    eapply Forall_impl; [|exact (index_syms_in _ _ EQ)]. intros t Ht. now apply eb_index.
  - destruct rest as [|b2 rest2]; [exact (Hw _ _ _ _ _ E)|].
    destruct (walk b off 0%nat) as [[branch bmaps]|] eqn:Eb; cbn [bind] in E; [|discriminate].
    destruct (get_selfies_from_index _) as [Q|] eqn:EQ; cbn [bind] in E; [|discriminate].
    destruct (bond_to_selfies b false) as [bs|] eqn:Ebs; cbn [bind] in E; [|discriminate].
    match type of E with (do _ <- ?X; _) = _ => destruct X as [[ts1 ms1]|] eqn:E1 end; cbn [bind] in E; [|discriminate].
    inversion E; subst; clear E. intros B HB HL. cbn [length] in HL. rewrite !app_length in HL.
    constructor; [eapply eb_branch; [exact (bond_sel_false_cases _ _ Ebs)|exact EQ|slia]|]. apply Forall_app. split.
    + eapply Forall_impl; [|exact (index_syms_in _ _ EQ)]. intros t Ht. now apply eb_index.
    + apply Forall_app. split; [apply (Hw _ _ _ _ _ Eb B HB); lia|apply (IH _ _ _ _ Hb2 E1 B HB); slia].
Qed.

Lemma walk_bounded : forall fuel b curr aidx off ts ms, fragment_walk fuel m b curr aidx off = Ok (ts, ms) -> bounded m ts.
Proof.
  induction fuel as [|f IH]; intros b curr aidx off ts ms E; [discriminate|]. cbn [fragment_walk] in E.
  destruct (mg_get_atom m curr) as [[a at_]|] eqn:Ea; cbn [bind fst snd] in E; [|discriminate].
  destruct (atom_to_selfies b a) as [tok|] eqn:Et; cbn [bind fst] in E; [|discriminate].
  destruct (mg_get_out_dirbonds m curr) as [raw|] eqn:Eraw; cbn [bind] in E; [|discriminate].
  destruct (Encoder.all_some raw) as [bonds|] eqn:Eall; cbn [bind] in E; [|discriminate].
  match type of E with (do _ <- ?X; _) = _ => destruct X as [[ts1 ms1]|] eqn:E1 end; cbn [bind] in E; [|discriminate].
  inversion E; subst; clear E. intros B HB HL. cbn [length] in HL. constructor.
  { unfold atom_to_selfies in Et. destruct (a_aromatic a) eqn:Ear; [discriminate|].
    destruct (match b with None => Ok [] | Some b0 => bond_to_selfies b0 true end) as [bc|] eqn:Ebc; cbn [bind] in Et; [|discriminate].
    destruct (atom_to_smiles a false) as [t|] eqn:Eas; cbn [bind] in Et; [|discriminate]. inversion Et; subst.
    eapply eb_atom; [exact Ea|exact Ear| |exact Eas].
    destruct b as [b0|]; [exact (bond_sel_cases _ _ Ebc)|inversion Ebc; now left]. }
  assert (Hcurr : (curr < mg_len m)%nat).
  { unfold mg_get_atom in Ea. apply lget_In in Ea. unfold mg_len. apply nth_error_Some. congruence. }
  refine (out_loop_bounded _ (fun b0 ai o ts0 ms0 H => IH _ _ _ _ _ _ H) _ _ _ _ _ _ E1 B HB ltac:(slia)).
  unfold ring_bonds_first. unfold mg_get_out_dirbonds in Eraw. apply lget_In in Eraw.
  pose proof Hadj as Hadj'. unfold AdjP in Hadj'. rewrite Forall_forall in Hadj'.
  pose proof (all_some_sok _ _ (Hadj' _ (nth_error_In _ _ Eraw)) Eall) as Fb.
  assert (Fs : Forall (fun b0 => sok (e_stereo b0) /\ (e_src b0 < mg_len m)%nat) bonds).
  { apply Forall_forall. intros b0 Hb0. rewrite Forall_forall in Fb. split; [now apply Fb|].
    assert (Hin : In (Some b0) raw).
    { clear -Eall Hb0. revert bonds Eall Hb0. induction raw as [|[x|] r IHr]; intros bonds Eall Hb0; cbn [Encoder.all_some] in Eall; [inversion Eall; subst; destruct Hb0| |discriminate].
      destruct (Encoder.all_some r) as [t|]; cbn [bind] in Eall; [|discriminate]. inversion Eall; subst. destruct Hb0 as [->|Hb0]; [now left|right; exact (IHr _ eq_refl Hb0)]. }
    rewrite (proj1 (Hrow _ _ _ Eraw Hin)). exact Hcurr. }
  apply Forall_app. split; now apply Forall_filter.
Qed.
End Walk.

Lemma encode_roots_bounded m : AdjP m -> RowP m -> forall roots aidx frags maps, encode_roots m roots aidx = Ok (frags, maps) ->
  exists tss, frags = map (@concat N) tss /\ Forall (bounded m) tss.
Proof.
  intros Hadj Hrow. induction roots as [|r rest IH]; intros aidx frags maps E; cbn [encode_roots] in E.
  - inversion E; subst. exists []. split; constructor.
  - destruct (fragment_to_selfies m r aidx) as [[derived mp]|] eqn:Ef; cbn [bind] in E; [|discriminate].
    destruct (encode_roots m rest _) as [[frags' maps']|] eqn:Er; cbn [bind] in E; [|discriminate]. inversion E; subst; clear E.
    destruct (IH _ _ _ Er) as (tss & -> & F). exists (derived :: tss). split; [reflexivity|].
    constructor; [|exact F]. unfold fragment_to_selfies in Ef. exact (walk_bounded m Hadj Hrow _ _ _ _ _ _ _ Ef).
Qed.

(* no emitted token is [nop] *)
Lemma good_not_nop T t : good_tok T t -> t <> nop_sym.
Proof.
  intros [_ H] ->. assert (E : process_atom_symbol T nop_sym = Ok None) by (unfold process_atom_symbol, process_atom_symbol_c; reflexivity).
  change (is_branch_like nop_sym) with false in H. change (is_ring_like nop_sym) with false in H. change (is_eps_like nop_sym) with false in H.
  cbv iota in H. destruct H as [x Hx]. rewrite E in Hx. discriminate.
Qed.

Lemma qlen_small : Qlen 4096.
Proof. unfold Qlen. first [right; vm_compute; reflexivity | left; vm_compute; reflexivity]. Qed.

Lemma small_index idx Q : get_selfies_from_index idx = Ok Q -> idx < 4096 -> (length Q <= 3)%nat.
Proof.
  intros E H. assert (H0 : 0 <= idx) by (unfold get_selfies_from_index in E; destruct (idx <? 0) eqn:El; [discriminate|apply Z.ltb_ge in El; exact El]).
  apply (three_symbols_iff (Z.to_N idx)); [rewrite Z2N.id by exact H0; exact E|lia].
Qed.

Theorem encoder_output_decodes_sized T smiles strict attribute s maps attribute' :
  table_ok T ->
  encoder T smiles strict attribute = Ok (s, maps) ->
  (forall m0, smiles_to_mol smiles attribute = Ok m0 -> Forall (cap_ok T) (atoms_of m0)) ->
  (length smiles <= 4096)%nat ->
  (length (flat_map fst (tokenize_all s false)) <= 4096)%nat ->
  exists out, decoder T s false attribute' = Ok out.
Proof.
  intros HT E Hcap Hin Hout. unfold encoder, encoder_c in E.
  assert (Hlen : Qlen (length smiles)) by exact (Qlen_le _ _ Hin qlen_small).
  destruct (smiles_to_mol smiles attribute) as [m0|e] eqn:Ep; [|destruct e; discriminate].
  specialize (Hcap m0 eq_refl).
  assert (P0 : Forall (fun a => PShape a /\ cap_ok T a) (atoms_of m0)).
  { assert (A : Forall PShape (atoms_of m0)).
    { apply (parsed_atoms (fun tok => Qlen (length (t_text tok))) PShape (fun tok a Hq Ea => smiles_atom_shape _ a Hq Ea) smiles attribute m0); [|exact Ep].
      intros ts Et. unfold tokenize_smiles in Et. apply tokenize_loop_texts in Et. eapply Forall_impl; [|exact Et].
      cbn beta. intros tok Hl. exact (Qlen_le _ _ Hl Hlen). }
    apply Forall_forall. intros a Ha. rewrite Forall_forall in A, Hcap. split; auto. }
  pose proof (parsed_adj _ _ _ Ep) as A0. destruct (parsed_row _ _ _ Ep) as [R0 L0].
  unfold encode_mol in E.
  destruct (kekulize m0) as [[m1|]|] eqn:Ek; cbn [bind] in E; try discriminate.
  assert (P1 : Forall (fun a => PShape a /\ cap_ok T a) (atoms_of m1)).
  { apply (kekulize_atoms (fun a => PShape a /\ cap_ok T a)) with (m := m0); [|exact P0|exact Ek].
    intros a1 [X Y]. split; [now apply pshape_clear|now apply cap_clear]. }
  pose proof (kekulize_adj _ _ A0 Ek) as A1. destruct (kekulize_row _ _ R0 Ek) as [R1 L1].
  match type of E with (do _ <- ?X; _) = _ => destruct X; cbn [bind] in E; [|discriminate] end.
  destruct (invert_pass m1 (m_atoms m1) 0) as [atoms'|] eqn:Ei; cbn [bind] in E; [|discriminate].
  set (m2 := set_atoms m1 atoms') in *.
  assert (P2 : Forall (fun a => PShape a /\ cap_ok T a) (atoms_of m2)).
  { unfold atoms_of, m2. cbn [set_atoms m_atoms].
    apply (invert_pass_atoms (fun a => PShape a /\ cap_ok T a)) with (m := m1) (atoms := m_atoms m1) (idx := 0%nat); [|exact P1|exact Ei].
    intros a1 [X Y]. split; [now apply pshape_invert|now apply cap_invert]. }
  assert (A2 : AdjP m2) by exact A1. assert (R2 : RowP m2) by exact R1.
  assert (L2 : (mg_len m2 <= 4096)%nat).
  { unfold mg_len, m2. cbn [set_atoms m_atoms]. rewrite (invert_pass_len _ _ _ _ Ei). unfold mg_len in *. lia. }
  destruct (encode_roots m2 (m_roots m2) 0) as [[frags maps0]|] eqn:Er; cbn [bind] in E; [|discriminate].
  inversion E; subst s maps; clear E.
  destruct (encode_roots_bounded m2 A2 R2 _ _ _ _ Er) as (tss & -> & Hb).
  (* the tokens as plain emitted tokens: symbols, none of them [nop] *)
  assert (Hany : forall ts t, In ts tss -> In t ts -> etok m2 t).
  { intros ts t Hts Ht. rewrite Forall_forall in Hb. specialize (Hb ts Hts (Z.max (Z.of_nat (mg_len m2)) (Z.of_nat (length ts))) ltac:(slia) ltac:(slia)).
    rewrite Forall_forall in Hb. exact (etokb_etok _ _ _ (Hb t Ht)). }
  assert (Hsym : Forall (Forall is_symbol) tss).
  { apply Forall_forall. intros ts Hts. apply Forall_forall. intros t Ht. exact (etok_symbol T HT m2 P2 t (Hany ts t Hts Ht)). }
  assert (Hnn : forall ts t, In ts tss -> In t ts -> t <> nop_sym).
  { intros ts t Hts Ht. destruct (Hany ts t Hts Ht) as [bc a9 at_ i9 t0 Ea Har Hbc Et|t0 Hi|bs Q idx Hbs EQ|rs Q idx Hrs EQ].
    - destruct (atom_of_graph T m2 P2 _ _ _ Ea) as [Hp Hc]. exact (good_not_nop T _ (proj1 (atom_token_good T a9 bc t0 Hp Har Hc Hbc Et))).
    - exact (good_not_nop T _ (proj1 (index_token_good T t0 HT Hi))).
    - exact (struct_not_nop bs (lit "ranch") _ 66%N (branch_in_ring _ Hbs) (or_intror eq_refl)).
    - exact (struct_not_nop rs (lit "ing") _ 82%N Hrs (or_introl eq_refl)). }
  destruct (fragments_exist tss Hsym) as (frs & Hw & Hr & Hs).
  apply (decoder_ok T (proj1 HT)).
  destruct frs as [|fr0 frs'].
  { destruct tss; [|discriminate]. cbn [map join]. rewrite tokenize_empty. constructor; [split; [reflexivity|constructor]|constructor]. }
  change (join _ (map (@concat N) tss)) with (join [c_dot] (map (@concat N) tss)) in Hout |- *.
  assert (Etk : tokenize_all (join [c_dot] (map (@concat N) tss)) false = map (fun ts => (ts, None)) tss).
  { rewrite <- Hr. etransitivity; [apply (tokenize_all_frags (fr0 :: frs') false); [discriminate|exact Hw]|]. cbv zeta. rewrite <- Hs, map_map.
    apply map_ext_in. intros fr Hfr. f_equal. apply filter_all. intros t Ht. apply negb_true_iff. apply str_eqb_neq.
    apply (Hnn (symbols fr)); [rewrite <- Hs; now apply in_map|exact Ht]. }
  rewrite Etk in Hout |- *.
  assert (Hcat : forall ts, In ts tss -> (length ts <= length (flat_map fst (map (fun ts0 : list str => (ts0, @None exn)) tss)))%nat).
  { clear. induction tss as [|x r IH]; intros ts Hi; [destruct Hi|]. destruct Hi as [<-|H]; cbn [map flat_map fst]; rewrite app_length; [slia|specialize (IH ts H); slia]. }
  apply Forall_forall. intros f Hf. apply in_map_iff in Hf as (ts & <- & Hts). split; [reflexivity|]. cbn [fst].
  rewrite Forall_forall in Hb. specialize (Hb ts Hts 4096 ltac:(slia) ltac:(specialize (Hcat ts Hts); slia)).
  eapply Forall_impl; [|exact Hb]. intros t [bc a9 at_ i9 t0 Ea Har Hbc Et|t0 Hi|bs Q idx Hbs EQ Hlt|rs Q idx Hrs EQ Hlt].
  - destruct (atom_of_graph T m2 P2 _ _ _ Ea) as [Hp Hc]. exact (proj1 (atom_token_good T a9 bc t0 Hp Har Hc Hbc Et)).
  - exact (proj1 (index_token_good T t0 HT Hi)).
  - exact (proj1 (branch_token_good T bs Q idx Hbs EQ (small_index _ _ EQ Hlt))).
  - exact (proj1 (ring_token_good T rs Q idx Hrs EQ (small_index _ _ EQ Hlt))).
Qed.
