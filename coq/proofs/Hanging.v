(* Hanging.v — C02 / C08: a fragment with an unclosed bracket is always rejected. *)
From Coq Require Import Ascii String List Arith ZArith NArith Bool Lia.
Import ListNotations.
From Selfies Require Import Base Generated Lex Atoms Grammar Compat Decoder BaseFacts DecoderInv DecoderSum.
Local Open Scope Z_scope.

Section Top.
Variable capf : capfun.
Variable e0 : exn.
Variable aidx : nat.

(* an instance without a budget whose token stream ends in an exception never returns *)
Lemma derive_bad_top : forall fuel ts m state prev rings astack nd r,
  derive_c capf (Some e0) aidx fuel ts m None state prev rings astack nd = Ok r -> False.
Proof.
  induction fuel as [|f IH]; intros ts m state prev rings astack nd r E; [discriminate|].
  cbn [derive_c] in E. cbv zeta in E.
  assert (Fin : forall ts0 (m0 : dmol) (rings0 : list ringreq) nd0,
            (do (t, n) <- drain ts0 (Some e0) None nd0; Ok (t, m0, rings0, n)) = Ok r -> False).
  { intros ts0 m0 rings0 nd0 H. unfold drain, raise_or in H. discriminate. }
  assert (Cont : forall ts0 m0 nst prev0 rings0 nd0,
            match nst with
            | None => do (t, n) <- drain ts0 (Some e0) None nd0; Ok (t, m0, rings0, n)
            | Some st => derive_c capf (Some e0) aidx f ts0 m0 None st prev0 rings0 astack nd0 end = Ok r -> False).
  { intros ts0 m0 nst prev0 rings0 nd0 H. destruct nst; [exact (IH _ _ _ _ _ _ _ _ H)|exact (Fin _ _ _ _ H)]. }
  cbn [below negb] in E.
  destruct ts as [|[idx sym] rest]; [discriminate|].
  destruct (is_branch_like sym).
  { destruct (process_branch_symbol sym) as [[btype n]|]; [|discriminate].
    destruct (state <=? 1); [exact (Cont _ _ (Some state) _ _ _ E)|].
    destruct (negb (next_branch_state_pre btype state)); [discriminate|].
    destruct (next_branch_state btype state) as [binit nstate].
    destruct (read_index n rest (Some e0) [] 0) as [[[syms rest2] nread]|]; cbn [bind] in E; [|discriminate].
    destruct (derive_c capf (Some e0) aidx f rest2 m _ binit prev rings _ 0) as [[[[rest3 m2] rings2] nsub]|]; cbn [bind] in E; [|discriminate].
    exact (Cont _ _ (Some nstate) _ _ _ E). }
  destruct (is_ring_like sym).
  { destruct (process_ring_symbol sym) as [[[rtype n] [ls rs]]|]; [|discriminate].
    destruct (state =? 0); [exact (Cont _ _ (Some state) _ _ _ E)|].
    destruct (negb (next_ring_state_pre rtype state)); [discriminate|].
    destruct (next_ring_state rtype state) as [rorder nstate].
    destruct (read_index n rest (Some e0) [] 0) as [[[syms rest2] nread]|]; cbn [bind] in E; [|discriminate].
    destruct prev as [| |p]; try discriminate.
    destruct (negb _); [discriminate|]. exact (Cont _ _ _ _ _ _ E). }
  destruct (is_eps_like sym); [exact (Cont _ _ _ _ _ _ E)|].
  destruct (process_atom_symbol_c capf sym) as [[[[[border stereo] a] cap]|]|]; cbn [bind] in E; try discriminate.
  destruct (next_atom_state border cap state) as [mu nstate].
  destruct (mu =? 0).
  - destruct (state =? 0); [|exact (Cont _ _ _ _ _ _ E)].
    destruct (add_atom m a cap _ true) as [m2 i]. exact (Cont _ _ _ _ _ _ E).
  - destruct (add_atom m a cap _ false) as [m2 i]. destruct prev as [| |p]; try discriminate.
    destruct (add_bond m2 p i mu stereo _) as [m3|]; cbn [bind] in E; [|discriminate]. exact (Cont _ _ _ _ _ _ E).
Qed.
End Top.

(* a fragment whose token stream ends in an exception makes the whole decode fail *)
Lemma derive_frags_bad capf attribute : forall tfrags m rings aidx r,
  Exists (fun f => snd f <> None) tfrags -> derive_frags_c capf attribute tfrags m rings aidx = Ok r -> False.
Proof.
  induction tfrags as [|[ts bad] rest IH]; intros m rings aidx r Hex E; [inversion Hex|].
  cbn [derive_frags_c] in E.
  destruct (derive_c capf bad aidx _ _ m None 0 PNone rings _ 0) as [[[[ts' m2] rings2] n]|] eqn:Ed; cbn [bind] in E; [|discriminate].
  inversion Hex as [? ? Hb|? ? Hr]; subst.
  - cbn [snd] in Hb. destruct bad as [e0|]; [|congruence]. exact (derive_bad_top _ _ _ _ _ _ _ _ _ _ _ _ Ed).
  - exact (IH _ _ _ _ Hr E).
Qed.

(* the string has an unclosed bracket: some fragment's symbols do not end with a closed bracket *)
Definition unclosed (s : str) : Prop := exists frag, In frag (split_char c_dot s) /\ snd (split_selfies frag) = true.

Theorem unclosed_rejected T s attribute : (exists c, assoc (lit "?") T = Some c) -> digits_ok s -> unclosed s ->
  decoder T s false attribute = Err DecoderError.
Proof.
  intros Hq Hd (frag & Hin & Hbad).
  destruct (decoder_total_ok T s attribute Hq Hd) as [[out Ho]|He]; [|exact He]. exfalso.
  unfold decoder, decoder_c, decode_graph_c in Ho.
  destruct (derive_frags_c (get_bonding_capacity T) attribute (tokenize_all s false) empty_mol [] 0) as [[m1 rings]|] eqn:Ed; cbn [bind] in Ho; [|discriminate].
  apply (derive_frags_bad (get_bonding_capacity T) attribute (tokenize_all s false) empty_mol [] 0%nat (m1, rings)); [|exact Ed].
  apply Exists_exists. exists (tokenize_selfies frag false). split; [unfold tokenize_all; exact (in_map (fun f => tokenize_selfies f false) _ _ Hin)|].
  unfold tokenize_selfies. destruct (split_selfies frag) as [ts b]. cbn [snd] in *. subst b. cbn. discriminate.
Qed.
