(* ParserTotal.v — C09, first stage: the SMILES reader of the encoder
   (tokenize_smiles + smiles_to_mol) never crashes.  For EVERY string it returns
   a graph whose arrays agree in length, or raises SMILESParserError (which
   encoder() turns into EncoderError), or ValueError from int() on an over-long
   digit field (the interpreter limit, known finding).  No IndexError, KeyError,
   AttributeError, AssertionError, no fuel exhaustion. *)
From Coq Require Import Ascii String List Arith ZArith NArith Bool Lia.
Import ListNotations.
From Selfies Require Import Base Generated Lex Atoms Smiles BaseFacts ConfigFacts DecoderInv.
Local Open Scope Z_scope.

Definition perr (e : exn) : Prop := e = SMILESParserError \/ e = ValueError.

(* ---------- tokenizer ---------- *)
Definition tok_nonempty (t : token) : Prop := t_text t <> [].

Lemma firstn_nonempty {A} (l : list A) n : l <> [] -> (1 <= n)%nat -> firstn n l <> [].
Proof. destruct l; [contradiction|]. destruct n; [lia|]. discriminate. Qed.

Lemma tokenize_loop_ok : forall fuel s i, (length s < fuel)%nat ->
  match tokenize_loop fuel s i with
  | Ok ts => Forall tok_nonempty ts /\ (length ts <= length s)%nat
  | Err e => e = SMILESParserError
  end.
Proof.
  induction fuel as [|f IH]; intros s i Hf; [lia|]. cbn [tokenize_loop].
  destruct s as [|c r]; [split; [constructor|cbn; lia]|]. cbn [length] in Hf.
  destruct (N.eqb c c_dot).
  { specialize (IH r (S i) ltac:(lia)). destruct (tokenize_loop f r (S i)) as [ts|e]; cbn [bind]; [|exact IH].
    destruct IH as [A B]. split; [constructor; [discriminate|exact A]|cbn [length]; lia]. }
  assert (Emit : forall bond s1 i1 ty len, (1 <= len)%nat -> s1 <> [] -> (length s1 <= S (length r))%nat ->
            match (do ts <- tokenize_loop f (skipn len s1) (i1 + len);
                   Ok ({| t_bond := bond; t_start := i1; t_type := ty; t_text := firstn len s1 |} :: ts)) with
            | Ok ts => Forall tok_nonempty ts /\ (length ts <= S (length r))%nat
            | Err e => e = SMILESParserError end).
  { intros bond s1 i1 ty len Hlen Hne Hs1.
    assert (Hsk : (length (skipn len s1) < f)%nat).
    { rewrite skipn_length. destruct s1; [contradiction|]. cbn [length] in *. lia. }
    specialize (IH (skipn len s1) (i1 + len)%nat Hsk).
    destruct (tokenize_loop f (skipn len s1) (i1 + len)) as [ts|e]; cbn [bind]; [|exact IH].
    destruct IH as [A B]. split; [constructor; [now apply firstn_nonempty|exact A]|].
    cbn [length]. rewrite skipn_length in B. destruct s1; [contradiction|]. cbn [length] in *. lia. }
  assert (Rest : forall bond s1 i1, (length s1 <= S (length r))%nat ->
    match
      (let emit (ty : ttype) (len : nat) : res (list token) :=
         do ts <- tokenize_loop f (skipn len s1) (i1 + len);
         Ok ({| t_bond := bond; t_start := i1; t_type := ty; t_text := firstn len s1 |} :: ts) in
       match s1 with
       | [] => Err SMILESParserError
       | d :: r1 =>
         if isalpha_s d then
           let two := firstn 2 s1 in
           if str_eqb two (lit "Br") || str_eqb two (lit "Cl") then emit TAtom 2%nat else emit TAtom 1%nat
         else if N.eqb d c_lb then
           match find_char c_rb r1 0 with
           | None => Err SMILESParserError
           | Some k => emit TAtom (k + 2)%nat
           end
         else if N.eqb d c_lpar || N.eqb d c_rpar then
           match bond with
           | Some _ => Err SMILESParserError
           | None => emit TBranch 1%nat
           end
         else if isdigit_s d then emit TRing 1%nat
         else if N.eqb d c_pct then
           let rnum := firstn 2 r1 in
           if str_isnumeric rnum && (length rnum =? 2)%nat then emit TRing 3%nat
           else Err SMILESParserError
         else Err SMILESParserError
       end)
    with
    | Ok ts => Forall tok_nonempty ts /\ (length ts <= S (length r))%nat
    | Err e => e = SMILESParserError end).
  { intros bond s1 i1 Hs1. lazy beta zeta. destruct s1 as [|d r1]; [reflexivity|].
    assert (Hne : d :: r1 <> []) by discriminate.
    destruct (isalpha_s d).
    { destruct (_ || _); apply Emit; auto; lia. }
    destruct (N.eqb d c_lb).
    { destruct (find_char c_rb r1 0); [apply Emit; auto; lia|reflexivity]. }
    destruct (_ || _).
    { destruct bond; [reflexivity|apply Emit; auto]. }
    destruct (isdigit_s d); [apply Emit; auto|].
    destruct (N.eqb d c_pct); [|reflexivity].
    destruct (_ && _); [apply Emit; auto; lia|reflexivity]. }
  destruct (is_bond_char c); [apply (Rest (Some c) r (S i)); lia|apply (Rest None (c :: r) i); cbn [length]; lia].
Qed.

Lemma tokenize_ok s : match tokenize_smiles s with
                      | Ok ts => Forall tok_nonempty ts
                      | Err e => e = SMILESParserError end.
Proof.
  unfold tokenize_smiles. pose proof (tokenize_loop_ok (S (length s)) s 0%nat ltac:(lia)) as H.
  destruct (tokenize_loop _ s 0); [tauto|exact H].
Qed.

(* ---------- atoms ---------- *)
Lemma int_of_decimals_err ds e : int_of_decimals ds = Err e -> e = ValueError.
Proof.
  unfold int_of_decimals. destruct (_ && _); [intro H; now inversion H|].
  generalize 0%N as acc. induction ds as [|c r IH]; intro acc; [discriminate|].
  destruct (decimal_val c); [apply IH|intro H; now inversion H].
Qed.

Lemma iso_err (ds : str) e :
  match ds with [] => Ok None | x :: xs => do n <- int_of_decimals (x :: xs); Ok (Some n) end = Err e -> e = ValueError.
Proof.
  destruct ds as [|x xs]; [discriminate|]. destruct (int_of_decimals (x :: xs)) eqn:E; cbn [bind]; [discriminate|].
  intro H. inversion H; subst. now apply int_of_decimals_err in E.
Qed.

Lemma h_err (hs : str) e :
  match hs with [] => Ok 0%N | [_] => Ok 1%N | _ :: ds => int_of_decimals ds end = Err e -> e = ValueError.
Proof. destruct hs as [|h0 [|h1 r]]; try discriminate. apply int_of_decimals_err. Qed.

Lemma chg_err (cs : str) e :
  match cs with
  | [] => Ok 0
  | sg :: rest =>
      match last_char (sg :: rest) with
      | Some l => if isdigit l then do n <- int_of_decimals rest; Ok (Z.of_N n * sign_of sg) else Ok (Z.of_nat (length (sg :: rest)) * sign_of sg)
      | None => Ok 0
      end
  end = Err e -> e = ValueError.
Proof.
  destruct cs as [|sg rest]; [discriminate|]. destruct (last_char (sg :: rest)) as [l|]; [|discriminate].
  destruct (isdigit l); [|discriminate]. destruct (int_of_decimals rest) eqn:E; cbn [bind]; [discriminate|].
  intro H. inversion H; subst. now apply int_of_decimals_err in E.
Qed.

Lemma smiles_to_atom_err t e : t <> [] -> smiles_to_atom t = Err e -> e = ValueError.
Proof.
  intros Hne. unfold smiles_to_atom. destruct t as [|c0 r]; [contradiction|].
  destruct (_ && _).
  - destruct (match_bracket_atom (c0 :: r)) as [g|]; [|discriminate].
    destruct (match g_iso g with [] => Ok None | _ => _ end) as [iso|e1] eqn:E1; cbn [bind];
      [|intro H; inversion H; subst; now apply iso_err in E1].
    destruct (negb _); [discriminate|].
    destruct (match g_h g with [] => Ok 0%N | _ => _ end) as [h|e2] eqn:E2; cbn [bind];
      [|intro H; inversion H; subst; now apply h_err in E2].
    destruct (match g_charge g with [] => Ok 0 | _ => _ end) as [c|e3] eqn:E3; cbn [bind];
      [discriminate|intro H; inversion H; subst; now apply chg_err in E3].
  - destruct (mem_str _ organic_subset); [discriminate|]. destruct (mem_str _ aromatic_subset); discriminate.
Qed.

(* ---------- the graph under construction ---------- *)
Record GWF (m : emol) : Prop := {
  g_adj : length (m_adj m) = mg_len m;
  g_cnt : length (m_counts2 m) = mg_len m;
  g_flg : length (m_ringflags m) = mg_len m
}.

Definition rowlen (m : emol) (j : nat) : nat := length (nth j (m_adj m) []).
(* m' extends m: same or more atoms, no adjacency row got shorter *)
Definition ext (m m' : emol) : Prop := (mg_len m <= mg_len m')%nat /\ forall j, (rowlen m j <= rowlen m' j)%nat.

Lemma ext_refl m : ext m m. Proof. split; auto. Qed.
Lemma ext_trans a b c : ext a b -> ext b c -> ext a c.
Proof. intros [A1 A2] [B1 B2]. split; [lia|]. intro j. specialize (A2 j). specialize (B2 j). lia. Qed.

Lemma gwf_empty b : GWF (mg_empty b). Proof. constructor; reflexivity. Qed.

Lemma lget_ok {A} (l : list A) i : (i < length l)%nat -> exists x, lget l i = Ok x.
Proof. intro H. unfold lget. destruct (nth_error l i) eqn:E; [eauto|]. apply nth_error_None in E. lia. Qed.

Lemma lupd_ok {A} (l : list A) i f : (i < length l)%nat -> lupd l i f = Ok (upd l i f).
Proof. intro H. unfold lupd. assert (X : (i <? length l)%nat = true) by (apply Nat.ltb_lt; exact H). now rewrite X. Qed.

Lemma nth_upd_len {A} (l : list (list A)) i j f : (forall x, (length x <= length (f x))%nat) ->
  (length (nth j l []) <= length (nth j (upd l i f) []))%nat.
Proof.
  intro Hf. revert i j. induction l as [|x l IH]; intros [|i] [|j]; cbn [upd nth]; auto.
Qed.

Lemma add_atom_gwf m a root : GWF m ->
  let m' := fst (mg_add_atom m a root) in
  GWF m' /\ mg_len m' = S (mg_len m) /\ snd (mg_add_atom m a root) = mg_len m /\ ext m m'.
Proof.
  intros [A B C]. cbn. unfold mg_len in *. cbn [m_atoms m_adj m_counts2 m_ringflags].
  split; [constructor; unfold mg_len; cbn [m_atoms m_adj m_counts2 m_ringflags]; rewrite !app_length; cbn [length]; lia|].
  split; [rewrite app_length; cbn; lia|]. split; [reflexivity|]. split.
  - unfold mg_len. cbn [m_atoms]. rewrite app_length. lia.
  - intro j. unfold rowlen. cbn [m_adj]. destruct (Nat.lt_ge_cases j (length (m_adj m))) as [L|L].
    + rewrite app_nth1 by exact L. lia.
    + rewrite (nth_overflow (m_adj m)) by exact L. cbn. lia.
Qed.

Lemma set_adj_facts m x : mg_len (set_adj m x) = mg_len m /\ m_counts2 (set_adj m x) = m_counts2 m /\
  m_ringflags (set_adj m x) = m_ringflags m /\ m_adj (set_adj m x) = x /\ m_atoms (set_adj m x) = m_atoms m.
Proof. repeat split. Qed.

Lemma add_attr_ok m i at_ : (i < mg_len m)%nat -> GWF m ->
  exists m', mg_add_attr_atom m i at_ = Ok m' /\ GWF m' /\ mg_len m' = mg_len m /\ m_adj m' = m_adj m /\
             m_attributable m' = m_attributable m /\ (forall j, option_map fst (nth_error (m_atoms m') j) = option_map fst (nth_error (m_atoms m) j)).
Proof.
  intros Hi [A B C]. unfold mg_add_attr_atom. destruct (m_attributable m) eqn:Ea.
  - rewrite lupd_ok by exact Hi. cbn [bind]. eexists. split; [reflexivity|].
    assert (L : mg_len (set_atoms m (upd (m_atoms m) i (fun p => (fst p, merge_attr (snd p) at_)))) = mg_len m)
      by (unfold mg_len; cbn [set_atoms m_atoms]; apply upd_length).
    split; [constructor; cbn [set_atoms m_adj m_counts2 m_ringflags]; rewrite L; assumption|].
    split; [exact L|]. split; [reflexivity|]. split; [exact Ea|].
    intro j. cbn [set_atoms m_atoms]. destruct (Nat.eq_dec i j) as [->|N].
    + destruct (nth_error (m_atoms m) j) eqn:E.
      * rewrite (nth_error_upd_same _ _ _ _ E). reflexivity.
      * assert (X : nth_error (upd (m_atoms m) j (fun p => (fst p, merge_attr (snd p) at_))) j = None)
          by (apply nth_error_None; rewrite upd_length; now apply nth_error_None). now rewrite X.
    + now rewrite nth_error_upd_other.
  - eexists. split; [reflexivity|]. split; [constructor; assumption|]. auto.
Qed.

Lemma add_count_ok m i d : (i < mg_len m)%nat -> GWF m ->
  exists m', mg_add_count2 m i d = Ok m' /\ GWF m' /\ mg_len m' = mg_len m /\ m_adj m' = m_adj m /\
             m_atoms m' = m_atoms m /\ m_ringflags m' = m_ringflags m /\ m_attributable m' = m_attributable m.
Proof.
  intros Hi [A B C]. unfold mg_add_count2. rewrite lupd_ok by lia. cbn [bind]. eexists. split; [reflexivity|].
  split; [constructor; cbn [set_counts2 m_adj m_counts2 m_ringflags]; unfold mg_len; cbn [set_counts2 m_atoms]; rewrite ?upd_length; assumption|].
  repeat split.
Qed.

Lemma len_set_ds m x : mg_len (set_ds m x) = mg_len m. Proof. reflexivity. Qed.
Lemma len_set_flags m x : mg_len (set_ringflags m x) = mg_len m. Proof. reflexivity. Qed.

Lemma rowlen_upd m x i (l' : list (option ebond)) : m_adj x = upd (m_adj m) i (fun _ => l') -> (i < length (m_adj m))%nat ->
  forall j, rowlen x j = if Nat.eqb i j then length l' else rowlen m j.
Proof.
  intros E Hi j. unfold rowlen. rewrite E, nth_upd. destruct (Nat.eqb_spec i j) as [->|]; [|reflexivity].
  cbn [andb]. assert (X : (j <? length (m_adj m))%nat = true) by (apply Nat.ltb_lt; exact Hi). now rewrite X.
Qed.

Lemma add_at_loc_ok m b pos : GWF m -> (e_src b < mg_len m)%nat ->
  match pos with None => True | Some p => (p <= rowlen m (e_src b))%nat end ->
  exists m', mg_add_bond_at_loc m b pos = Ok m' /\ GWF m' /\ mg_len m' = mg_len m /\ ext m m' /\
             m_atoms m' = m_atoms m /\ m_counts2 m' = m_counts2 m /\ m_ringflags m' = m_ringflags m /\
             m_attributable m' = m_attributable m.
Proof.
  intros Hg Hs Hp. pose proof Hg as [A B C]. unfold mg_add_bond_at_loc.
  destruct (lget_ok (m_adj m) (e_src b) ltac:(lia)) as [out Eo]. rewrite Eo. cbn [bind].
  assert (Hout : out = nth (e_src b) (m_adj m) []).
  { unfold lget in Eo. destruct (nth_error (m_adj m) (e_src b)) eqn:E; inversion Eo; subst. symmetry. now apply nth_error_nth. }
  assert (Hloc : exists out', add_bond_at_loc out pos b = Ok out' /\ (length out <= length out')%nat).
  { unfold add_bond_at_loc. destruct pos as [p|]; [|eexists; split; [reflexivity|rewrite app_length; lia]].
    destruct (Nat.eqb_spec p (length out)); [eexists; split; [reflexivity|rewrite app_length; lia]|].
    unfold rowlen in Hp. rewrite <- Hout in Hp.
    destruct (nth_error out p) as [[e|]|] eqn:E.
    - eexists. split; [reflexivity|]. rewrite length_insert_at. lia.
    - eexists. split; [reflexivity|]. rewrite upd_length. lia.
    - apply nth_error_None in E. lia. }
  destruct Hloc as (out' & -> & Hlen). cbn [bind]. eexists. split; [reflexivity|].
  set (m' := set_adj m (upd (m_adj m) (e_src b) (fun _ => out'))).
  assert (L : mg_len m' = mg_len m) by reflexivity.
  split; [constructor; unfold m'; cbn [set_adj m_adj m_counts2 m_ringflags]; rewrite ?upd_length; unfold mg_len; cbn [set_adj m_atoms]; assumption|].
  split; [exact L|]. split; [|repeat split].
  split; [lia|]. intro j. rewrite (rowlen_upd m m' (e_src b) out' eq_refl ltac:(lia)).
  destruct (Nat.eqb_spec (e_src b) j) as [<-|]; [unfold rowlen; rewrite <- Hout; exact Hlen|lia].
Qed.

Lemma add_bond_total m src dst o2 st at_ : GWF m -> (src < dst)%nat -> (dst < mg_len m)%nat ->
  exists m', mg_add_bond m src dst o2 st at_ = Ok m' /\ GWF m' /\ mg_len m' = mg_len m /\ ext m m' /\
             m_attributable m' = m_attributable m /\ m_atoms m' = m_atoms m.
Proof.
  intros Hg Hlt Hd. unfold mg_add_bond. assert (X : (src <? dst)%nat = true) by (apply Nat.ltb_lt; exact Hlt). rewrite X. cbn [negb].
  set (b := {| e_src := src; e_dst := dst; e_order2 := o2; e_stereo := st; e_ring := false; e_attr := at_ |}).
  destruct (add_at_loc_ok m b None Hg ltac:(cbn; lia) I) as (m1 & -> & G1 & L1 & X1 & A1 & _ & _ & T1). cbn [bind].
  destruct (add_count_ok m1 src o2 ltac:(lia) G1) as (m2 & -> & G2 & L2 & D2 & A2 & _ & T2). cbn [bind].
  destruct (add_count_ok m2 dst o2 ltac:(lia) G2) as (m3 & -> & G3 & L3 & D3 & A3 & _ & T3). cbn [bind].
  assert (E3 : ext m m3).
  { eapply ext_trans; [exact X1|]. split; [lia|]. intro j. unfold rowlen. rewrite D3, D2. lia. }
  destruct (o2 =? order2_aromatic).
  - eexists. split; [reflexivity|]. split; [destruct G3; constructor; assumption|]. split; [rewrite len_set_ds; lia|].
    split; [destruct E3 as [E31 E32]; split; [exact E31|exact E32]|]. split; [cbn [set_ds m_attributable]; congruence|cbn [set_ds m_atoms]; congruence].
  - eexists. split; [reflexivity|]. split; [exact G3|]. split; [lia|]. split; [exact E3|]. split; congruence.
Qed.

Lemma placeholder_ok m src : GWF m -> (src < mg_len m)%nat ->
  exists m', mg_add_placeholder_bond m src = Ok (m', rowlen m src) /\ GWF m' /\ mg_len m' = mg_len m /\ ext m m' /\
             (rowlen m src < rowlen m' src)%nat /\ m_attributable m' = m_attributable m.
Proof.
  intros Hg Hs. pose proof Hg as [A B C]. unfold mg_add_placeholder_bond.
  destruct (lget_ok (m_adj m) src ltac:(lia)) as [out Eo]. rewrite Eo. cbn [bind].
  assert (Hout : out = nth src (m_adj m) []).
  { unfold lget in Eo. destruct (nth_error (m_adj m) src) eqn:E; inversion Eo; subst. symmetry. now apply nth_error_nth. }
  eexists. split; [unfold rowlen; rewrite <- Hout; reflexivity|].
  set (m' := set_adj m (upd (m_adj m) src (fun l => l ++ [None]))).
  assert (Hr : forall j, rowlen m' j = if Nat.eqb src j then S (rowlen m j) else rowlen m j).
  { intro j. unfold rowlen, m'. cbn [set_adj m_adj]. rewrite nth_upd. destruct (Nat.eqb_spec src j) as [->|]; [|reflexivity].
    cbn [andb]. assert (X : (j <? length (m_adj m))%nat = true) by (apply Nat.ltb_lt; lia). rewrite X, app_length. cbn. lia. }
  split; [constructor; unfold m'; cbn [set_adj m_adj m_counts2 m_ringflags]; rewrite ?upd_length; unfold mg_len; cbn [set_adj m_atoms]; assumption|].
  split; [reflexivity|]. split; [split; [unfold m', mg_len; cbn; lia|intro j; rewrite Hr; destruct (Nat.eqb src j); lia]|].
  split; [rewrite Hr, Nat.eqb_refl; lia|reflexivity].
Qed.

Lemma add_ring_total m a b o2 sa sb lpos : GWF m -> (a < mg_len m)%nat -> (b < mg_len m)%nat -> (lpos <= rowlen m a)%nat ->
  exists m', mg_add_ring_bond m a b o2 sa sb (Some lpos) None = Ok m' /\ GWF m' /\ mg_len m' = mg_len m /\ ext m m' /\
             m_attributable m' = m_attributable m.
Proof.
  intros Hg Ha Hb Hp. unfold mg_add_ring_bond.
  set (ab := {| e_src := a; e_dst := b; e_order2 := o2; e_stereo := sa; e_ring := true; e_attr := None |}).
  set (bb := {| e_src := b; e_dst := a; e_order2 := o2; e_stereo := sb; e_ring := true; e_attr := None |}).
  destruct (add_at_loc_ok m ab (Some lpos) Hg ltac:(cbn; lia) ltac:(cbn; lia)) as (m1 & -> & G1 & L1 & X1 & A1 & C1 & F1 & T1). cbn [bind].
  destruct (add_at_loc_ok m1 bb None G1 ltac:(cbn; lia) I) as (m2 & -> & G2 & L2 & X2 & A2 & C2 & F2 & T2). cbn [bind].
  destruct (add_count_ok m2 a o2 ltac:(lia) G2) as (m3 & -> & G3 & L3 & D3 & A3 & F3 & T3). cbn [bind].
  destruct (add_count_ok m3 b o2 ltac:(lia) G3) as (m4 & -> & G4 & L4 & D4 & A4 & F4 & T4). cbn [bind].
  pose proof G4 as [GA GB GC].
  rewrite lupd_ok by lia. cbn [bind]. rewrite lupd_ok by (rewrite upd_length; lia). cbn [bind].
  assert (E4 : ext m m4).
  { eapply ext_trans; [exact X1|]. eapply ext_trans; [exact X2|]. split; [lia|]. intro j. unfold rowlen. rewrite D4, D3. lia. }
  set (m5 := set_ringflags m4 _).
  assert (G5 : GWF m5) by (constructor; unfold m5; cbn [set_ringflags m_adj m_counts2 m_ringflags]; rewrite ?upd_length; unfold mg_len; cbn [set_ringflags m_atoms]; assumption).
  assert (E5 : ext m m5) by (destruct E4 as [E41 E42]; split; [exact E41|exact E42]).
  destruct (o2 =? order2_aromatic).
  - eexists. split; [reflexivity|]. split; [destruct G5; constructor; assumption|]. split; [rewrite len_set_ds; unfold m5; rewrite len_set_flags; lia|].
    split; [destruct E5 as [E51 E52]; split; [exact E51|exact E52]|cbn [set_ds set_ringflags m_attributable m5]; unfold m5; cbn [set_ringflags m_attributable]; congruence].
  - eexists. split; [reflexivity|]. split; [exact G5|]. split; [unfold m5; rewrite len_set_flags; lia|]. split; [exact E5|unfold m5; cbn [set_ringflags m_attributable]; congruence].
Qed.

(* ---------- _attach_atom, _make_ring_bonds ---------- *)
Lemma attach_atom_total m tok a prev i : GWF m ->
  match prev with Some p => (p < mg_len m)%nat | None => True end ->
  exists m' idx i', attach_atom m tok a prev i = Ok (m', idx, i') /\ GWF m' /\ idx = mg_len m /\ mg_len m' = S (mg_len m) /\ ext m m'.
Proof.
  intros Hg Hp. unfold attach_atom.
  destruct (add_atom_gwf m a (match prev with None => true | Some _ => false end) Hg) as (G1 & L1 & I1 & X1).
  destruct (mg_add_atom m a _) as [m1 idx] eqn:Ea. cbn [fst snd] in G1, L1, I1, X1. subst idx.
  set (j := match t_bond tok with Some _ => S i | None => i end).
  destruct (add_attr_ok m1 (mg_len m) [(j, t_text tok)] ltac:(lia) G1) as (m2 & -> & G2 & L2 & D2 & T2 & At2). cbn [bind].
  assert (X2 : ext m m2).
  { eapply ext_trans; [exact X1|]. split; [lia|]. intro k. unfold rowlen. rewrite D2. lia. }
  destruct prev as [src|]; [|exists m2, (mg_len m), j; split; [reflexivity|]; split; [exact G2|]; split; [reflexivity|]; split; [lia|exact X2]].
  destruct (smiles_to_bond2 (t_bond tok)) as [o2 stereo].
  destruct (lget_ok (m_atoms m2) src ltac:(unfold mg_len in *; lia)) as [pa Epa]. unfold mg_get_atom. rewrite Epa. cbn [bind].
  destruct (add_bond_total m2 src (mg_len m)
              (if a_aromatic (fst pa) && a_aromatic a && match t_bond tok with None => true | Some _ => false end then order2_aromatic else o2)
              stereo (if m_attributable m2 then Some [(j, t_text tok)] else None) G2 Hp ltac:(lia))
    as (m3 & -> & G3 & L3 & X3 & _). cbn [bind].
  exists m3, (mg_len m), j. split; [reflexivity|]. split; [exact G3|]. split; [reflexivity|]. split; [lia|eapply ext_trans; eassumption].
Qed.

Lemma make_ring_total m lt la lp rt ra : GWF m -> (la < mg_len m)%nat -> (ra < mg_len m)%nat -> (lp <= rowlen m la)%nat ->
  match make_ring_bonds m lt la lp rt ra with
  | Ok m' => GWF m' /\ mg_len m' = mg_len m /\ ext m m'
  | Err e => e = SMILESParserError end.
Proof.
  intros Hg Hla Hra Hlp. unfold make_ring_bonds.
  destruct (la =? ra)%nat; [reflexivity|]. destruct (mg_has_bond m la ra); [reflexivity|].
  cbv zeta.
  assert (Core : forall b0 b1 xl xr : option N,
     match (if negb (optN_eqb b0 b1 || match b1 with None => true | Some _ => false end ||
                     match b0, b1 with Some x, Some y => is_stereo_char x && is_stereo_char y | _, _ => false end)
            then Err SMILESParserError else
            let '(lorder, lstereo) := smiles_to_bond2 xl in
            let '(rorder, rstereo) := smiles_to_bond2 xr in
            do la0 <- mg_get_atom m la;
            do ra0 <- mg_get_atom m ra;
            let both_none := match b0, b1 with None, None => true | _, _ => false end in
            let '(lorder0, rorder0) := if a_aromatic (fst la0) && a_aromatic (fst ra0) && both_none
                                       then (order2_aromatic, order2_aromatic) else (lorder, rorder) in
            mg_add_ring_bond m la ra (Z.max lorder0 rorder0) lstereo rstereo (Some lp) None)
     with Ok m' => GWF m' /\ mg_len m' = mg_len m /\ ext m m' | Err e => e = SMILESParserError end).
  { intros b0 b1 xl xr. match goal with |- context [if negb ?X then _ else _] => destruct (negb X) end; [reflexivity|].
    destruct (smiles_to_bond2 xl) as [lo ls]. destruct (smiles_to_bond2 xr) as [ro rs].
    unfold mg_get_atom.
    destruct (lget_ok (m_atoms m) la ltac:(unfold mg_len in *; lia)) as [x ->]. cbn [bind].
    destruct (lget_ok (m_atoms m) ra ltac:(unfold mg_len in *; lia)) as [y ->]. cbn [bind].
    match goal with |- context [if ?C then (order2_aromatic, order2_aromatic) else (lo, ro)] => destruct C end;
    [destruct (add_ring_total m la ra (Z.max order2_aromatic order2_aromatic) ls rs lp Hg Hla Hra Hlp) as (m' & -> & G & L & X & _)
    |destruct (add_ring_total m la ra (Z.max lo ro) ls rs lp Hg Hla Hra Hlp) as (m' & -> & G & L & X & _)]; auto. }
  destruct (t_bond lt) as [lb|]; [exact (Core (Some lb) (t_bond rt) (Some lb) (t_bond rt))|exact (Core (t_bond rt) None None (t_bond rt))].
Qed.

(* ---------- the token loop ---------- *)
Definition prev_ok (m : emol) (x : option nat) : Prop := match x with Some i => (i < mg_len m)%nat | None => True end.
Definition ring_ok (m : emol) (e : str * (token * nat * nat)) : Prop :=
  let '(_, (_, la, lp)) := e in (la < mg_len m)%nat /\ (lp < rowlen m la)%nat.

Record SInv (st : pstate) : Prop := {
  s_g : GWF (p_mol st);
  s_len : length (p_prev st) = S (length (p_branch st));
  s_top : p_chain_start st = false -> exists i, hd None (p_prev st) = Some i;
  s_prev : Forall (prev_ok (p_mol st)) (p_prev st);
  s_tail : Forall (fun x => x <> None) (tl (p_prev st));
  s_rings : Forall (ring_ok (p_mol st)) (p_rings st)
}.

Lemma prev_ok_ext m m' x : ext m m' -> prev_ok m x -> prev_ok m' x.
Proof. intros [A _]. destruct x; cbn; [lia|auto]. Qed.
Lemma ring_ok_ext m m' e : ext m m' -> ring_ok m e -> ring_ok m' e.
Proof. intros [A B]. destruct e as [k [[t la] lp]]. cbn. intros [X Y]. specialize (B la). split; lia. Qed.

Lemma ring_find_in l k v : ring_log_find l k = Some v -> In (k, v) l \/ exists k', In (k', v) l.
Proof.
  induction l as [|[k' v'] l IH]; cbn; [discriminate|]. destruct (str_eqb k k'); [intro H; inversion H; subst; right; exists k'; now left|].
  intro H. destruct (IH H) as [X|[k2 X]]; [left; now right|right; exists k2; now right].
Qed.

Lemma ring_remove_sub l k : forall x, In x (ring_log_remove l k) -> In x l.
Proof.
  induction l as [|[k' v'] l IH]; cbn; [tauto|]. destruct (str_eqb k k'); [intros x H; now right|].
  intros x [H|H]; [now left|right; now apply IH].
Qed.

Lemma derive_loop_ok : forall ts st, Forall tok_nonempty ts -> SInv st ->
  match derive_loop ts st with
  | Ok (st', rest) => SInv st' /\ (length rest <= length ts)%nat /\ (ts <> [] -> (length rest < length ts)%nat)
  | Err e => perr e end.
Proof.
  induction ts as [|tok rest IH]; intros st Hne Hinv; [cbn; split; [exact Hinv|split; [lia|congruence]]|].
  inversion Hne as [|? ? Htok Hrest]; subst. pose proof Hinv as [Hg Hlen Htop Hprev Htail Hrings].
  cbn [derive_loop]. destruct (p_prev st) as [|prev_atom below] eqn:Ep; [cbn in Hlen; lia|].
  cbn [hd tl] in Htop, Htail. inversion Hprev as [|? ? Hp0 Hbelow]; subst.
  assert (Fin : forall st', SInv st' ->
            match derive_loop rest st' with
            | Ok (st'', r) => SInv st'' /\ (length r <= length (tok :: rest))%nat /\ (tok :: rest <> [] -> (length r < length (tok :: rest))%nat)
            | Err e => perr e end).
  { intros st' H'. specialize (IH st' Hrest H'). destruct (derive_loop rest st') as [[st'' r]|e]; [|exact IH].
    destruct IH as (A & B & _). split; [exact A|]. cbn [length]. split; [lia|intros _; lia]. }
  destruct (t_type tok).
  - (* atom *)
    destruct (smiles_to_atom (t_text tok)) as [oa|e] eqn:Ea; cbn [bind]; [|right; eapply smiles_to_atom_err; eassumption].
    destruct oa as [a|]; [|now left].
    destruct (attach_atom_total (p_mol st) tok a prev_atom (p_i st) Hg Hp0) as (m' & idx & i' & -> & G' & Ei & L' & X'). cbn [bind].
    apply Fin. constructor; cbn [p_mol p_prev p_branch p_rings p_chain_start].
    + exact G'.
    + cbn [length] in *. lia.
    + intros _. eexists. reflexivity.
    + constructor; [cbn; lia|]. eapply Forall_impl; [|exact Hbelow]. intros x. now apply prev_ok_ext.
    + exact Htail.
    + eapply Forall_impl; [|exact Hrings]. intros x. now apply ring_ok_ext.
  - (* branch *)
    destruct (p_chain_start st) eqn:Ecs; [now left|]. destruct (Htop eq_refl) as [p0 E0]. cbn in E0. subst prev_atom.
    destruct (str_eqb (t_text tok) (lit "(")).
    + apply Fin. constructor; cbn [p_mol p_prev p_branch p_rings p_chain_start].
      * exact Hg.
      * cbn [length] in *. lia.
      * discriminate.
      * constructor; [exact Hp0|exact Hprev].
      * cbn [tl]. constructor; [discriminate|exact Htail].
      * exact Hrings.
    + destruct (p_branch st) as [|b0 branch'] eqn:Eb; [now left|].
      apply Fin. constructor; cbn [p_mol p_prev p_branch p_rings p_chain_start].
      * exact Hg.
      * cbn [length] in *. lia.
      * intros _. destruct below as [|x xs]; [cbn in Hlen; lia|]. inversion Htail as [|? ? Hx _]; subst.
        destruct x as [i|]; [exists i; reflexivity|contradiction].
      * exact Hbelow.
      * destruct below as [|x xs]; [constructor|]. inversion Htail; subst. assumption.
      * exact Hrings.
  - (* ring number *)
    destruct (p_chain_start st) eqn:Ecs; [now left|]. destruct (Htop eq_refl) as [p0 E0]. cbn in E0. subst prev_atom.
    cbn [atom_index bind prev_ok] in *.
    destruct (ring_log_find (p_rings st) (t_text tok)) as [[[ltoken latom] lpos]|] eqn:Er.
    + assert (Hr : (latom < mg_len (p_mol st))%nat /\ (lpos < rowlen (p_mol st) latom)%nat).
      { rewrite Forall_forall in Hrings. destruct (ring_find_in _ _ _ Er) as [X|[k' X]]; apply Hrings in X; exact X. }
      pose proof (make_ring_total (p_mol st) ltoken latom lpos tok p0 Hg (proj1 Hr) Hp0 ltac:(lia)) as MR.
      destruct (make_ring_bonds (p_mol st) ltoken latom lpos tok p0) as [m'|e]; cbn [bind]; [|left; exact MR].
      destruct MR as (G' & L' & X').
      apply Fin. constructor; cbn [p_mol p_prev p_branch p_rings p_chain_start].
      * exact G'.
      * exact Hlen.
      * intros _. eexists. reflexivity.
      * eapply Forall_impl; [|exact Hprev]. intros x. now apply prev_ok_ext.
      * exact Htail.
      * apply Forall_forall. intros x Hx. apply ring_remove_sub in Hx. rewrite Forall_forall in Hrings. eapply ring_ok_ext; [exact X'|now apply Hrings].
    + destruct (placeholder_ok (p_mol st) p0 Hg Hp0) as (m' & -> & G' & L' & X' & Hgrow & _). cbn [bind].
      apply Fin. constructor; cbn [p_mol p_prev p_branch p_rings p_chain_start].
      * exact G'.
      * exact Hlen.
      * intros _. eexists. reflexivity.
      * eapply Forall_impl; [|exact Hprev]. intros x. now apply prev_ok_ext.
      * exact Htail.
      * apply Forall_app. split; [eapply Forall_impl; [|exact Hrings]; intros x; now apply ring_ok_ext|].
        constructor; [|constructor]. cbn. split; [lia|exact Hgrow].
  - (* dot: break *)
    split; [|cbn [length]; split; [lia|intros _; lia]].
    constructor; cbn [p_mol p_prev p_branch p_rings p_chain_start]; try assumption.
Qed.

Lemma derive_mol_ok m ts i : GWF m -> Forall tok_nonempty ts -> ts <> [] ->
  match derive_mol_from_tokens m ts i with
  | Ok (m', _, rest) => GWF m' /\ (length rest < length ts)%nat /\ Forall tok_nonempty rest
  | Err e => perr e end.
Proof.
  intros Hg Hne Hts. unfold derive_mol_from_tokens.
  set (st0 := {| p_mol := m; p_i := i; p_tok := None; p_prev := [None]; p_branch := []; p_rings := []; p_chain_start := true |}).
  assert (H0 : SInv st0).
  { constructor; cbn; auto; try discriminate. constructor; [exact I|constructor]. }
  pose proof (derive_loop_ok ts st0 Hne H0) as L.
  assert (Hsuf : forall st' r, derive_loop ts st0 = Ok (st', r) -> Forall tok_nonempty r).
  { clear L. generalize st0. induction ts as [|t r IHr]; intros s0 st' r0 E; [cbn in E; inversion E; constructor|].
    inversion Hne as [|? ? _ Hr']; subst. cbn [derive_loop] in E. destruct (p_prev s0) as [|pa bl]; [discriminate|].
    destruct (t_type t).
    - destruct (smiles_to_atom (t_text t)) as [[a|]|]; cbn [bind] in E; try discriminate.
      destruct (attach_atom _ _ _ _ _) as [[[m' idx] i']|]; cbn [bind] in E; [|discriminate]. eapply IHr; [exact Hr'|discriminate|exact E] || (destruct r; [cbn in E; inversion E; constructor|eapply IHr; [exact Hr'|discriminate|exact E]]).
    - destruct (p_chain_start s0); [discriminate|]. destruct (str_eqb _ _).
      + destruct r; [cbn in E; inversion E; constructor|eapply IHr; [exact Hr'|discriminate|exact E]].
      + destruct (p_branch s0); [discriminate|]. destruct r; [cbn in E; inversion E; constructor|eapply IHr; [exact Hr'|discriminate|exact E]].
    - destruct (p_chain_start s0); [discriminate|]. destruct (ring_log_find _ _) as [[[lt la] lp]|].
      + destruct (atom_index pa); cbn [bind] in E; [|discriminate]. destruct (make_ring_bonds _ _ _ _ _ _); cbn [bind] in E; [|discriminate].
        destruct r; [cbn in E; inversion E; constructor|eapply IHr; [exact Hr'|discriminate|exact E]].
      + destruct (atom_index pa); cbn [bind] in E; [|discriminate]. destruct (mg_add_placeholder_bond _ _) as [[m' lp]|]; cbn [bind] in E; [|discriminate].
        destruct r; [cbn in E; inversion E; constructor|eapply IHr; [exact Hr'|discriminate|exact E]].
    - inversion E; subst. exact Hr'. }
  destruct (derive_loop ts st0) as [[st r]|e] eqn:E; cbn [bind]; [|exact L].
  destruct L as (Hs & _ & Hlt). destruct (mg_len (p_mol st) =? 0)%nat; [now left|].
  destruct (p_branch st); [|now left]. destruct (p_rings st); [|now left].
  split; [exact (s_g _ Hs)|]. split; [now apply Hlt|eapply Hsuf; reflexivity].
Qed.

Lemma fragments_ok : forall fuel m ts i, (length ts < fuel)%nat -> GWF m -> Forall tok_nonempty ts ->
  match fragments_loop fuel m ts i with Ok m' => GWF m' | Err e => perr e end.
Proof.
  induction fuel as [|f IH]; intros m ts i Hf Hg Hne; [lia|]. cbn [fragments_loop].
  destruct ts as [|t r]; [exact Hg|].
  pose proof (derive_mol_ok m (t :: r) i Hg Hne ltac:(discriminate)) as D.
  destruct (derive_mol_from_tokens m (t :: r) i) as [[[m' i'] rest]|e]; cbn [bind]; [|exact D].
  destruct D as (G' & Hl & Hr). apply IH; [cbn [length] in *; lia|exact G'|exact Hr].
Qed.

(* C09, stage 1: reading a SMILES string never crashes *)
Theorem smiles_to_mol_total s attributable :
  match smiles_to_mol s attributable with
  | Ok m => GWF m
  | Err e => e = SMILESParserError \/ e = ValueError
  end.
Proof.
  unfold smiles_to_mol. destruct s as [|c r]; [now left|].
  pose proof (tokenize_ok (c :: r)) as Tk. destruct (tokenize_smiles (c :: r)) as [ts|e]; cbn [bind]; [|now left].
  apply (fragments_ok (S (length ts)) (mg_empty attributable) ts 0%nat ltac:(lia) (gwf_empty _) Tk).
Qed.
