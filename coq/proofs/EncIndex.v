(* EncIndex.v — C09, last stage: after the reader and kekulize have returned, nothing in encoder() raises IndexError.
   Every edge ends at an atom of the graph and never at its own source, the roots are atoms of the graph, the four arrays
   of the graph keep equal lengths through kekulize, ring distances and branch lengths are never negative, and the digits of
   an index are below the size of the index alphabet. *)
From Coq Require Import Ascii String List Arith ZArith NArith Bool Lia.
Import ListNotations.
From Selfies Require Import Base Generated Lex Atoms Grammar Decoder Smiles PySet Matching Kekulize Encoder BaseFacts ConfigFacts DecoderInv
  IndexSpec IndexCode ParserTotal EncHyp EncShape EncTokens EncRows EncAttr EncStereo EncFuel.
Local Open Scope nat_scope.

(* ---------- edges end inside the graph, never at their source ---------- *)
Definition inb (n : nat) (e : ebond) : Prop := e_dst e < n /\ e_src e <> e_dst e.
Lemma inb_order n e o : inb n e -> inb n (with_order2 e o). Proof. exact (fun H => H). Qed.
Lemma inb_mono n n' e : n <= n' -> inb n e -> inb n' e. Proof. unfold inb. intros; lia. Qed.
Lemma edgep_inb_mono n n' m : n <= n' -> EdgeP (inb n) m -> EdgeP (inb n') m.
Proof. intros H Hm j row e Hn Hin. eapply inb_mono; [exact H|exact (Hm j row e Hn Hin)]. Qed.

Lemma add_ring_inb n m a b o2 sa sb pa pb m' : EdgeP (inb n) m -> a < n -> b < n -> a <> b ->
  mg_add_ring_bond m a b o2 sa sb pa pb = Ok m' -> EdgeP (inb n) m'.
Proof.
  intros Hm Ha Hb Hab. unfold mg_add_ring_bond.
  destruct (mg_add_bond_at_loc m _ _) as [m1|] eqn:E1; cbn [bind]; [|discriminate].
  destruct (mg_add_bond_at_loc m1 _ _) as [m2|] eqn:E2; cbn [bind]; [|discriminate].
  destruct (mg_add_count2 m2 _ _) as [m3|] eqn:E3; cbn [bind]; [|discriminate].
  destruct (mg_add_count2 m3 _ _) as [m4|] eqn:E4; cbn [bind]; [|discriminate].
  destruct (lupd (m_ringflags m4) _ _) as [f1|]; cbn [bind]; [|discriminate].
  destruct (lupd f1 _ _) as [f2|]; cbn [bind]; [|discriminate].
  apply (at_loc_edge (inb n)) in E1; [|exact Hm|split; cbn; lia]. apply (at_loc_edge (inb n)) in E2; [|exact E1|split; cbn; lia]. apply add_count_adj in E3, E4.
  assert (A4 : EdgeP (inb n) m4) by (apply (edge_same _ m2); [congruence|exact E2]).
  destruct (_ =? _)%Z; intro E; inversion E; subst; exact A4.
Qed.

Lemma make_ring_inb n m lt la lp rt ra m' : EdgeP (inb n) m -> la < n -> ra < n -> make_ring_bonds m lt la lp rt ra = Ok m' -> EdgeP (inb n) m'.
Proof.
  intros Hm Hla Hra. unfold make_ring_bonds. destruct (Nat.eqb_spec la ra) as [|Hne]; [discriminate|]. destruct (mg_has_bond _ _ _); [discriminate|].
  match goal with |- (let '(b0, b1) := ?X in _) = _ -> _ => destruct X as [b0 b1] end.
  destruct (negb _); [discriminate|].
  destruct (smiles_to_bond2 (t_bond lt)) as [lo ls]. destruct (smiles_to_bond2 (t_bond rt)) as [ro rs].
  destruct (mg_get_atom m la); cbn [bind]; [|discriminate]. destruct (mg_get_atom m ra); cbn [bind]; [|discriminate].
  match goal with |- (let '(x, y) := ?X in _) = _ -> _ => destruct X as [lo' ro'] end. now apply add_ring_inb.
Qed.

(* ---------- the reader ---------- *)
Definition prev_in (n : nat) (x : option nat) : Prop := match x with Some i => i < n | None => True end.
Definition log_in (n : nat) (e : str * (token * nat * nat)) : Prop := let '(_, (_, la, _)) := e in la < n.

Record PInv (st : pstate) : Prop := {
  pi_edges : EdgeP (inb (mg_len (p_mol st))) (p_mol st);
  pi_roots : Forall (fun r => r < mg_len (p_mol st)) (m_roots (p_mol st));
  pi_prev : Forall (prev_in (mg_len (p_mol st))) (p_prev st);
  pi_log : Forall (log_in (mg_len (p_mol st))) (p_rings st)
}.

Lemma roots_same m m' : m_roots m' = m_roots m -> mg_len m' = mg_len m -> Forall (fun r => r < mg_len m) (m_roots m) -> Forall (fun r => r < mg_len m') (m_roots m').
Proof. intros -> ->. auto. Qed.

Lemma add_count_roots m i d m' : mg_add_count2 m i d = Ok m' -> m_roots m' = m_roots m.
Proof. unfold mg_add_count2. destruct (lupd _ _ _); cbn [bind]; [intro E; inversion E; reflexivity|discriminate]. Qed.
Lemma at_loc_roots m b pos m' : mg_add_bond_at_loc m b pos = Ok m' -> m_roots m' = m_roots m.
Proof.
  unfold mg_add_bond_at_loc. destruct (lget _ _); cbn [bind]; [|discriminate].
  destruct (add_bond_at_loc _ _ _); cbn [bind]; [intro E; inversion E; reflexivity|discriminate].
Qed.
Lemma add_bond_roots m src dst o2 st at_ m' : mg_add_bond m src dst o2 st at_ = Ok m' -> m_roots m' = m_roots m.
Proof.
  unfold mg_add_bond. destruct (negb _); [discriminate|].
  destruct (mg_add_bond_at_loc _ _ _) as [m1|] eqn:E1; cbn [bind]; [|discriminate].
  destruct (mg_add_count2 m1 _ _) as [m2|] eqn:E2; cbn [bind]; [|discriminate].
  destruct (mg_add_count2 m2 _ _) as [m3|] eqn:E3; cbn [bind]; [|discriminate].
  apply at_loc_roots in E1. apply add_count_roots in E2, E3.
  destruct (_ =? _)%Z; intro E; inversion E; subst; cbn [set_ds m_roots]; congruence.
Qed.
Lemma placeholder_roots m src m' k : mg_add_placeholder_bond m src = Ok (m', k) -> m_roots m' = m_roots m.
Proof. unfold mg_add_placeholder_bond. destruct (lget _ _); cbn [bind]; [intro E; inversion E; reflexivity|discriminate]. Qed.
Lemma add_ring_roots m a b o2 sa sb pa pb m' : mg_add_ring_bond m a b o2 sa sb pa pb = Ok m' -> m_roots m' = m_roots m.
Proof.
  unfold mg_add_ring_bond.
  destruct (mg_add_bond_at_loc m _ _) as [m1|] eqn:E1; cbn [bind]; [|discriminate].
  destruct (mg_add_bond_at_loc m1 _ _) as [m2|] eqn:E2; cbn [bind]; [|discriminate].
  destruct (mg_add_count2 m2 _ _) as [m3|] eqn:E3; cbn [bind]; [|discriminate].
  destruct (mg_add_count2 m3 _ _) as [m4|] eqn:E4; cbn [bind]; [|discriminate].
  destruct (lupd (m_ringflags m4) _ _) as [f1|]; cbn [bind]; [|discriminate].
  destruct (lupd f1 _ _) as [f2|]; cbn [bind]; [|discriminate].
  apply at_loc_roots in E1, E2. apply add_count_roots in E3, E4.
  destruct (_ =? _)%Z; intro E; inversion E; subst; cbn [set_ds set_ringflags m_roots]; congruence.
Qed.
Lemma make_ring_roots m lt la lp rt ra m' : make_ring_bonds m lt la lp rt ra = Ok m' -> m_roots m' = m_roots m.
Proof.
  unfold make_ring_bonds. destruct (_ =? _); [discriminate|]. destruct (mg_has_bond _ _ _); [discriminate|].
  match goal with |- (let '(b0, b1) := ?X in _) = _ -> _ => destruct X as [b0 b1] end.
  destruct (negb _); [discriminate|].
  destruct (smiles_to_bond2 (t_bond lt)) as [lo ls]. destruct (smiles_to_bond2 (t_bond rt)) as [ro rs].
  destruct (mg_get_atom m la); cbn [bind]; [|discriminate]. destruct (mg_get_atom m ra); cbn [bind]; [|discriminate].
  match goal with |- (let '(x, y) := ?X in _) = _ -> _ => destruct X as [lo' ro'] end. apply add_ring_roots.
Qed.

Lemma attach_inb m tok a prev i m' idx i' : EdgeP (inb (mg_len m)) m -> Forall (fun r => r < mg_len m) (m_roots m) -> prev_in (mg_len m) prev ->
  attach_atom m tok a prev i = Ok (m', idx, i') ->
  EdgeP (inb (mg_len m')) m' /\ Forall (fun r => r < mg_len m') (m_roots m') /\ idx = mg_len m /\ mg_len m' = S (mg_len m).
Proof.
  intros Hm Hr Hp E. pose proof (attach_atoms _ _ _ _ _ _ _ _ E) as At.
  assert (L : mg_len m' = S (mg_len m)).
  { apply (f_equal (@length atom)) in At. unfold atoms_of in At. rewrite app_length, !map_length in At. unfold mg_len. cbn [length] in At. lia. }
  revert E. unfold attach_atom. destruct (mg_add_atom m a _) as [m1 ix] eqn:Ea.
  assert (A1 : EdgeP (inb (S (mg_len m))) m1 /\ ix = mg_len m /\ Forall (fun r => r < S (mg_len m)) (m_roots m1)).
  { unfold mg_add_atom in Ea. inversion Ea; subst. split; [|split; [reflexivity|]].
    - intros j row e Hn Hin. cbn [m_adj] in Hn. destruct (Nat.lt_ge_cases j (length (m_adj m))) as [Lt|G].
      + rewrite nth_error_app1 in Hn by exact Lt. eapply inb_mono; [|exact (Hm _ _ _ Hn Hin)]. lia.
      + rewrite nth_error_app2 in Hn by exact G. destruct (j - length (m_adj m)) as [|k]; cbn in Hn; [inversion Hn; subst; destruct Hin|destruct k; discriminate].
    - cbn [m_roots]. assert (H0 : Forall (fun r => r < S (mg_len m)) (m_roots m)) by (eapply Forall_impl; [|exact Hr]; cbn; intros; lia).
      destruct prev; [exact H0|apply Forall_app; split; [exact H0|constructor; [lia|constructor]]]. }
  destruct A1 as (A1 & Eix & R1). subst ix.
  destruct (mg_add_attr_atom m1 (mg_len m) _) as [m2|] eqn:E2; cbn [bind]; [|discriminate].
  assert (R2 : m_roots m2 = m_roots m1).
  { unfold mg_add_attr_atom in E2. destruct (m_attributable m1); [|inversion E2; reflexivity]. destruct (lupd _ _ _); cbn [bind] in E2; [inversion E2; reflexivity|discriminate]. }
  apply add_attr_adj in E2. assert (A2 : EdgeP (inb (S (mg_len m))) m2) by (apply (edge_same _ m1); assumption).
  destruct prev as [src|]; [|intro E; inversion E; subst; rewrite L; split; [exact A2|split; [rewrite R2; exact R1|split; reflexivity]]].
  destruct (smiles_to_bond2 (t_bond tok)) as [o2 st]. destruct (mg_get_atom m2 src); cbn [bind]; [|discriminate].
  destruct (mg_add_bond m2 _ _ _ _ _) as [m3|] eqn:E3; cbn [bind]; [|discriminate].
  intro E; inversion E; subst. rewrite L. split; [|split; [|split; reflexivity]].
  - eapply (add_bond_edge (inb _)); [exact A2| |exact E3]. cbn [prev_in] in Hp. split; cbn; lia.
  - rewrite (add_bond_roots _ _ _ _ _ _ _ E3), R2. exact R1.
Qed.

Lemma derive_loop_pinv : forall ts st st' rest, PInv st -> derive_loop ts st = Ok (st', rest) -> PInv st'.
Proof.
  induction ts as [|tok r IH]; intros st st' rest Hi E; cbn [derive_loop] in E; [inversion E; subst; exact Hi|].
  destruct Hi as [He Hr Hp Hl].
  destruct (p_prev st) as [|prev below] eqn:Epv; [discriminate|]. inversion Hp as [|? ? Hp0 Hpb]; subst.
  assert (Keep : forall m', mg_len m' = mg_len (p_mol st) -> EdgeP (inb (mg_len (p_mol st))) m' -> m_roots m' = m_roots (p_mol st) ->
            forall prevs branch rings cs i, Forall (prev_in (mg_len (p_mol st))) prevs -> Forall (log_in (mg_len (p_mol st))) rings ->
            PInv {| p_mol := m'; p_i := i; p_tok := Some tok; p_prev := prevs; p_branch := branch; p_rings := rings; p_chain_start := cs |}).
  { intros m' L A R prevs branch rings cs i P1 P2. constructor; cbn [p_mol p_prev p_rings]; rewrite ?L; [exact A|rewrite R; exact Hr|exact P1|exact P2]. }
  destruct (t_type tok).
  - destruct (smiles_to_atom (t_text tok)) as [[a|]|]; cbn [bind] in E; try discriminate.
    destruct (attach_atom _ _ _ _ _) as [[[m' idx] i']|] eqn:Eat; cbn [bind] in E; [|discriminate].
    destruct (attach_inb _ _ _ _ _ _ _ _ He Hr Hp0 Eat) as (A & R & Ei & L). apply IH in E; [exact E|].
    constructor; cbn [p_mol p_prev p_rings]; [exact A|exact R| |].
    + constructor; [cbn; lia|]. eapply Forall_impl; [|exact Hpb]. intros [x|]; cbn; [lia|auto].
    + eapply Forall_impl; [|exact Hl]. intros [k [[tk la] lp]]; cbn; lia.
  - destruct (p_chain_start st); [discriminate|].
    destruct (str_eqb _ _).
    + apply IH in E; [exact E|]. apply Keep; auto; try (constructor; [exact Hp0|]; rewrite ?Epv; exact Hp).
    + destruct (p_branch st); [discriminate|]. apply IH in E; [exact E|]. apply Keep; auto.
  - destruct (p_chain_start st); [discriminate|].
    destruct (ring_log_find _ _) as [[[ltok latom] lpos]|] eqn:Ef.
    + destruct (atom_index prev) as [ratom|] eqn:Ea; cbn [bind] in E; [|discriminate].
      destruct (make_ring_bonds _ _ _ _ _ _) as [m'|] eqn:Er; cbn [bind] in E; [|discriminate].
      assert (Hra : ratom < mg_len (p_mol st)) by (destruct prev; inversion Ea; subst; exact Hp0).
      assert (Hla : latom < mg_len (p_mol st)).
      { clear -Ef Hl. revert Hl Ef. generalize (mg_len (p_mol st)). intro n. induction (p_rings st) as [|[k v] rr IHr]; intros Hl Ef; cbn [ring_log_find] in Ef; [discriminate|].
        inversion Hl as [|? ? H1 H2]; subst. destruct (str_eqb _ _); [inversion Ef; subst; exact H1|exact (IHr H2 Ef)]. }
      assert (L : mg_len m' = mg_len (p_mol st)) by (unfold mg_len; now rewrite (make_ring_atoms _ _ _ _ _ _ _ Er)).
      apply IH in E; [exact E|]. apply Keep; [exact L|exact (make_ring_inb _ _ _ _ _ _ _ _ He Hla Hra Er)|exact (make_ring_roots _ _ _ _ _ _ _ Er)|rewrite ?Epv; exact Hp|].
      clear -Hl. revert Hl. generalize (mg_len (p_mol st)). intro n. induction (p_rings st) as [|[k v] rr IHr]; intro Hl; cbn [ring_log_remove]; [constructor|].
      inversion Hl as [|? ? H1 H2]; subst. destruct (str_eqb _ _); [exact H2|constructor; [exact H1|exact (IHr H2)]].
    + destruct (atom_index prev) as [src|] eqn:Ea; cbn [bind] in E; [|discriminate].
      destruct (mg_add_placeholder_bond _ _) as [[m' lpos]|] eqn:Epl; cbn [bind] in E; [|discriminate].
      assert (Hs : src < mg_len (p_mol st)) by (destruct prev; inversion Ea; subst; exact Hp0).
      assert (L : mg_len m' = mg_len (p_mol st)) by (unfold mg_len; now rewrite (placeholder_atoms _ _ _ _ Epl)).
      apply IH in E; [exact E|]. apply Keep; [exact L|exact (placeholder_edge (inb _) _ _ _ _ He Epl)|exact (placeholder_roots _ _ _ _ Epl)|rewrite ?Epv; exact Hp|].
      apply Forall_app. split; [exact Hl|constructor; [exact Hs|constructor]].
  - inversion E; subst. apply Keep; auto; rewrite ?Epv; exact Hp.
Qed.

Definition GI (m : emol) : Prop := EdgeP (inb (mg_len m)) m /\ Forall (fun r => r < mg_len m) (m_roots m).

Lemma fragments_gi : forall fuel m ts i m', GI m -> fragments_loop fuel m ts i = Ok m' -> GI m'.
Proof.
  induction fuel as [|f IH]; intros m ts i m' [He Hr] E; [discriminate|]. cbn [fragments_loop] in E.
  destruct ts as [|t r]; [inversion E; subst; split; assumption|].
  destruct (derive_mol_from_tokens m (t :: r) i) as [[[m1 i1] rest]|] eqn:Ed; cbn [bind] in E; [|discriminate].
  apply IH in E; [exact E|]. unfold derive_mol_from_tokens in Ed.
  destruct (derive_loop (t :: r) _) as [[st rest']|] eqn:El; cbn [bind] in Ed; [|discriminate].
  apply derive_loop_pinv in El; [|constructor; cbn [p_mol p_prev p_rings]; [exact He|exact Hr|constructor; [exact I|constructor]|constructor]].
  destruct (_ =? _); [discriminate|]. destruct (p_branch st); [|discriminate]. destruct (p_rings st); [|discriminate].
  inversion Ed; subst. destruct El as [A B _ _]. split; assumption.
Qed.

Theorem parsed_gi smiles attributable m : smiles_to_mol smiles attributable = Ok m -> GI m.
Proof.
  unfold smiles_to_mol. destruct smiles as [|c s]; [discriminate|].
  destruct (tokenize_smiles (c :: s)) as [ts|]; cbn [bind]; [|discriminate].
  apply fragments_gi. split; [intros j row e Hn; destruct j; discriminate|constructor].
Qed.

(* ---------- kekulize keeps the arrays aligned, the roots and the edges' ends ---------- *)
Lemma add_count_gwf m i d m' : GWF m -> mg_add_count2 m i d = Ok m' -> GWF m' /\ m_roots m' = m_roots m /\ mg_len m' = mg_len m.
Proof.
  intros [A B C]. unfold mg_add_count2. destruct (lupd (m_counts2 m) i _) as [c|] eqn:El; cbn [bind]; [|discriminate]. intro E; inversion E; subst.
  apply lupd_eq in El. subst c. split; [|split; reflexivity]. constructor; unfold mg_len in *; cbn [set_counts2 m_adj m_counts2 m_ringflags m_atoms]; rewrite ?upd_length; assumption.
Qed.

Lemma update_order_gwf m a b o m' : GWF m -> mg_update_bond_order m a b o = Ok m' -> GWF m' /\ m_roots m' = m_roots m /\ mg_len m' = mg_len m.
Proof.
  intro Hg. unfold mg_update_bond_order. destruct (negb _); [discriminate|].
  destruct (mg_get_dirbond m _ _) as [ab|]; cbn [bind]; [|discriminate].
  destruct (_ =? _)%Z; [intro E; inversion E; subst; auto|].
  match goal with |- (do adj1 <- ?X; _) = _ -> _ => destruct X as [adj1|] eqn:Ead end; cbn [bind]; [|discriminate].
  assert (La : length adj1 = length (m_adj m)).
  { destruct (e_ring ab); [destruct (mg_get_dirbond m _ _); cbn [bind] in Ead; [|discriminate]|]; inversion Ead; subst; now rewrite ?upd_length. }
  assert (G1 : GWF (set_adj m adj1)).
  { destruct Hg as [A B C]. constructor; unfold mg_len in *; cbn [set_adj m_adj m_counts2 m_ringflags m_atoms]; congruence. }
  destruct (mg_add_count2 (set_adj m adj1) _ _) as [m1|] eqn:E1; cbn [bind]; [|discriminate].
  intro E2. destruct (add_count_gwf _ _ _ _ G1 E1) as (G2 & R2 & L2). destruct (add_count_gwf _ _ _ _ G2 E2) as (G3 & R3 & L3).
  split; [exact G3|]. split; [rewrite R3, R2; reflexivity|rewrite L3, L2; reflexivity].
Qed.

Lemma single_bonds_gwf : forall adjs m node m', GWF m -> set_single_bonds m node adjs = Ok m' -> GWF m' /\ m_roots m' = m_roots m /\ mg_len m' = mg_len m.
Proof.
  induction adjs as [|x r IH]; intros m node m' Hg E; cbn [set_single_bonds] in E; [inversion E; subst; auto|].
  destruct (mg_update_bond_order m node x 2) as [m1|] eqn:E1; cbn [bind] in E; [|discriminate].
  destruct (update_order_gwf _ _ _ _ _ Hg E1) as (G1 & R1 & L1). destruct (IH _ _ _ G1 E) as (G2 & R2 & L2). split; [exact G2|split; congruence].
Qed.

Lemma double_bonds_gwf : forall pairs m l2n m', GWF m -> set_double_bonds m l2n pairs = Ok m' -> GWF m' /\ m_roots m' = m_roots m /\ mg_len m' = mg_len m.
Proof.
  induction pairs as [|[i oj] r IH]; intros m l2n m' Hg E; cbn [set_double_bonds] in E; [inversion E; subst; auto|].
  destruct (lget l2n i); cbn [bind] in E; [|discriminate]. destruct oj as [j|]; [|discriminate].
  destruct (lget l2n j); cbn [bind] in E; [|discriminate].
  destruct (mg_update_bond_order m _ _ 4) as [m1|] eqn:E1; cbn [bind] in E; [|discriminate].
  destruct (update_order_gwf _ _ _ _ _ Hg E1) as (G1 & R1 & L1). destruct (IH _ _ _ G1 E) as (G2 & R2 & L2). split; [exact G2|split; congruence].
Qed.

Lemma dearomatize_gwf : forall ds m m', GWF m -> dearomatize m ds = Ok m' -> GWF m' /\ m_roots m' = m_roots m /\ mg_len m' = mg_len m.
Proof.
  induction ds as [|[node adjs] r IH]; intros m m' Hg E; cbn [dearomatize] in E; [inversion E; subst; auto|].
  destruct (set_single_bonds m node adjs) as [m1|] eqn:E1; cbn [bind] in E; [|discriminate].
  destruct (lupd (m_atoms m1) _ _) as [atoms'|] eqn:Ea; cbn [bind] in E; [|discriminate].
  destruct (lupd (m_counts2 m1) _ _) as [counts'|] eqn:Ec; cbn [bind] in E; [|discriminate].
  destruct (single_bonds_gwf _ _ _ _ Hg E1) as ([A B C] & R1 & L1). apply lupd_eq in Ea, Ec. subst atoms' counts'.
  assert (G2 : GWF (set_counts2 (set_atoms m1 (upd (m_atoms m1) node (fun p => (clear_aromatic (fst p), snd p)))) (upd (m_counts2 m1) node (fun c2 => (2 * int_of_half c2)%Z)))).
  { constructor; unfold mg_len in *; cbn [set_counts2 set_atoms m_adj m_counts2 m_ringflags m_atoms]; rewrite ?upd_length; assumption. }
  destruct (IH _ _ G2 E) as (G3 & R3 & L3). split; [exact G3|]. split; [rewrite R3; exact R1|].
  rewrite L3. unfold mg_len in *. cbn [set_counts2 set_atoms m_atoms]. rewrite upd_length. exact L1.
Qed.

Theorem kekulize_gwf m m' : GWF m -> kekulize m = Ok (Some m') -> GWF m' /\ m_roots m' = m_roots m /\ mg_len m' = mg_len m.
Proof.
  intros Hg. unfold kekulize. destruct (ds_is_empty _); [intro E; inversion E; subst; auto|].
  destruct (any_bad_element _ _) as [bad|]; cbn [bind]; [|discriminate]. destruct bad; [discriminate|].
  destruct (kept_nodes_of _ _) as [kept|]; cbn [bind]; [|discriminate].
  destruct (pruned_ds_of _ _ _) as [pruned|]; cbn [bind]; [|discriminate].
  destruct (find_perfect_matching pruned) as [[mt|]|]; cbn [bind]; try discriminate.
  destruct (dearomatize m _) as [m1|] eqn:E1; cbn [bind]; [|discriminate].
  destruct (set_double_bonds m1 _ _) as [m2|] eqn:E2; cbn [bind]; [|discriminate].
  intro E; inversion E; subst. destruct (dearomatize_gwf _ _ _ Hg E1) as (G1 & R1 & L1). destruct (double_bonds_gwf _ _ _ _ G1 E2) as ([A B C] & R2 & L2).
  split; [constructor; unfold mg_len in *; cbn [set_ds m_adj m_counts2 m_ringflags m_atoms]; assumption|]. split; [cbn [set_ds m_roots]; congruence|unfold mg_len in *; cbn [set_ds m_atoms]; congruence].
Qed.

(* ---------- the emitting walk raises no IndexError ---------- *)
Definition noidx (e : exn) : Prop := e <> IndexError.

Lemma index_ok idx : (0 <= idx)%Z -> exists Q, get_selfies_from_index idx = Ok Q.
Proof. intro H. destruct (from_index_spec (Z.to_N idx)) as (syms & Hs & _). rewrite Z2N.id in Hs by exact H. eauto. Qed.

Lemma ebond_noidx b e : ebond_to_smiles b = Err e -> noidx e.
Proof. unfold ebond_to_smiles. repeat destruct (_ =? _)%Z; try discriminate. intro H; inversion H; discriminate. Qed.
Lemma bond_sel_noidx b sh e : bond_to_selfies b sh = Err e -> noidx e.
Proof. unfold bond_to_selfies. destruct (_ && _); [discriminate|apply ebond_noidx]. Qed.
Lemma atom_smiles_noidx a br e : atom_to_smiles a br = Err e -> noidx e.
Proof.
  unfold atom_to_smiles. destruct (a_aromatic a); [intro H; inversion H; discriminate|].
  destruct (a_isotope a), (a_chirality a), (a_hcount a), (a_charge a =? 0)%Z; discriminate.
Qed.
Lemma atom_sel_noidx b a e : atom_to_selfies b a = Err e -> noidx e.
Proof.
  unfold atom_to_selfies. destruct (a_aromatic a); [intro H; inversion H; discriminate|].
  destruct b as [b0|]; cbn [bind].
  - destruct (bond_to_selfies b0 true) as [bc|e1] eqn:Eb; cbn [bind]; [|intro H; inversion H; subst; exact (bond_sel_noidx _ _ _ Eb)].
    destruct (atom_to_smiles a false) as [t|e2] eqn:Ea; cbn [bind]; [discriminate|intro H; inversion H; subst; exact (atom_smiles_noidx _ _ _ Ea)].
  - destruct (atom_to_smiles a false) as [t|e2] eqn:Ea; cbn [bind]; [discriminate|intro H; inversion H; subst; exact (atom_smiles_noidx _ _ _ Ea)].
Qed.
Lemma all_some_noidx l e : Encoder.all_some l = Err e -> noidx e.
Proof.
  induction l as [|[b|] r IH]; cbn [Encoder.all_some]; [discriminate| |intro H; inversion H; discriminate].
  destruct (Encoder.all_some r) as [t|e1]; cbn [bind]; [discriminate|]. intro H; inversion H; subst. now apply IH.
Qed.
Lemma dirbond_noidx m s d e : mg_get_dirbond m s d = Err e -> noidx e.
Proof. unfold mg_get_dirbond. destruct (mg_find_dirbond m s d); [discriminate|]. intro H; inversion H; discriminate. Qed.
Lemma ring_sel_noidx lb rb e : ring_bonds_to_selfies lb rb = Err e -> noidx e.
Proof.
  unfold ring_bonds_to_selfies. destruct (negb (_ =? _)%Z); [intro H; inversion H; discriminate|].
  destruct (_ || _); [apply bond_sel_noidx|discriminate].
Qed.

Section Walk.
Variable m : emol.
Hypothesis Hg : GWF m.
Hypothesis He : EdgeP (inb (mg_len m)) m.
Hypothesis Hrow : RowP m.

Definition walk_ok (r : res (list str * list amap)) : Prop :=
  match r with Ok (ts, _) => ts <> [] | Err e => noidx e end.

Lemma out_loop_noidx (walk : ebond -> nat -> nat -> res (list str * list amap)) curr :
  forall bonds, (forall b ai o, In b bonds -> e_ring b = false -> walk_ok (walk b ai o)) ->
  Forall (fun b => e_src b = curr /\ e_src b <> e_dst b) bonds ->
  forall aidx off e, out_loop m walk bonds aidx off = Err e -> noidx e.
Proof.
  induction bonds as [|b rest IH]; intros Hw Hb aidx off e E; cbn [out_loop] in E; [discriminate|].
  assert (Hw' : forall b0 ai o, In b0 rest -> e_ring b0 = false -> walk_ok (walk b0 ai o)) by (intros; apply Hw; [right|]; assumption).
  inversion Hb as [|? ? [Hs Hne] Hb']; subst.
  destruct (e_ring b) eqn:Ering.
  - destruct (e_src b <? e_dst b) eqn:Elt; [exact (IH Hw' Hb' _ _ _ E)|]. apply Nat.ltb_ge in Elt.
    destruct (mg_get_dirbond m (e_dst b) (e_src b)) as [rv|e1] eqn:Erv; cbn [bind] in E; [|inversion E; subst; exact (dirbond_noidx _ _ _ _ Erv)].
    destruct (index_ok (Z.of_nat (e_src b - e_dst b) - 1) ltac:(lia)) as [Q EQ]. rewrite EQ in E. cbn [bind] in E.
    destruct (ring_bonds_to_selfies rv b) as [rs|e1] eqn:Er; cbn [bind] in E; [|inversion E; subst; exact (ring_sel_noidx _ _ _ Er)].
    match type of E with (do _ <- ?X; _) = _ => destruct X as [[ts1 ms1]|e1] eqn:E1 end; cbn [bind] in E; [discriminate|].
    inversion E; subst. exact (IH Hw' Hb' _ _ _ E1).
  - destruct rest as [|b2 rest2].
    + specialize (Hw b aidx off (or_introl eq_refl) Ering). rewrite E in Hw. exact Hw.
    + pose proof (Hw b off 0 (or_introl eq_refl) Ering) as Hwb.
      destruct (walk b off 0) as [[branch bmaps]|e1] eqn:Eb; cbn [bind] in E; [|inversion E; subst; exact Hwb].
      cbn [walk_ok] in Hwb. destruct (index_ok (Z.of_nat (length branch) - 1) ltac:(destruct branch; [contradiction|cbn [length]; lia])) as [Q EQ]. rewrite EQ in E. cbn [bind] in E.
      destruct (bond_to_selfies b false) as [bs|e1] eqn:Ebs; cbn [bind] in E; [|inversion E; subst; exact (bond_sel_noidx _ _ _ Ebs)].
      match type of E with (do _ <- ?X; _) = _ => destruct X as [[ts1 ms1]|e1] eqn:E1 end; cbn [bind] in E; [discriminate|].
      inversion E; subst. exact (IH Hw' Hb' _ _ _ E1).
Qed.

Lemma walk_noidx : forall fuel b curr aidx off, curr < mg_len m -> walk_ok (fragment_walk fuel m b curr aidx off).
Proof.
  induction fuel as [|f IH]; intros b curr aidx off Hc; [cbn; discriminate|]. cbn [fragment_walk].
  destruct Hg as [GA GC GF].
  destruct (lget_ok (m_atoms m) curr Hc) as [[a at_] Ea]. unfold mg_get_atom. rewrite Ea. cbn [bind fst snd].
  destruct (atom_to_selfies b a) as [tok|e1] eqn:Et; cbn [bind]; [|exact (atom_sel_noidx _ _ _ Et)].
  destruct (lget_ok (m_adj m) curr ltac:(lia)) as [raw Eraw]. unfold mg_get_out_dirbonds. rewrite Eraw. cbn [bind].
  destruct (Encoder.all_some raw) as [bonds|e1] eqn:Eall; cbn [bind]; [|exact (all_some_noidx _ _ Eall)].
  match goal with |- walk_ok (do _ <- ?X; _) => destruct X as [[ts1 ms1]|e1] eqn:E1 end; cbn [bind walk_ok]; [discriminate|].
  apply lget_In in Eraw.
  assert (Hin : forall b0, In b0 (ring_bonds_first bonds) -> In (Some b0) raw).
  { intros b0 Hb0. unfold ring_bonds_first in Hb0. apply in_app_iff in Hb0. apply (all_some_In' _ _ _ Eall). destruct Hb0 as [H|H]; apply filter_In in H; tauto. }
  refine (out_loop_noidx _ curr _ _ _ _ _ _ E1).
  - intros b0 ai o Hb0 Hr0. apply IH. exact (proj1 (He _ _ _ Eraw (Hin _ Hb0))).
  - apply Forall_forall. intros b0 Hb0. split; [exact (proj1 (Hrow _ _ _ Eraw (Hin _ Hb0)))|exact (proj2 (He _ _ _ Eraw (Hin _ Hb0)))].
Qed.

Lemma encode_roots_noidx : forall roots aidx e, Forall (fun r => r < mg_len m) roots -> encode_roots m roots aidx = Err e -> noidx e.
Proof.
  induction roots as [|r rest IH]; intros aidx e Hr E; cbn [encode_roots] in E; [discriminate|]. inversion Hr; subst.
  pose proof (walk_noidx (S (mg_len m)) None r aidx 0 H1) as Hw. unfold fragment_to_selfies in E.
  destruct (fragment_walk (S (mg_len m)) m None r aidx 0) as [[derived mp]|e1]; cbn [bind] in E; [|inversion E; subst; exact Hw].
  destruct (encode_roots m rest _) as [[frags' maps']|e1] eqn:Er; cbn [bind] in E; [discriminate|]. inversion E; subst. exact (IH _ _ H2 Er).
Qed.
End Walk.

(* ---------- strict check and inversion pass ---------- *)
Lemma constraint_errors_noidx capf m : GWF m -> (forall el c e, capf el c = Err e -> noidx e) ->
  forall atoms idx e, idx + length atoms <= mg_len m -> bond_constraint_errors capf m atoms idx = Err e -> noidx e.
Proof.
  intros [GA GC GF] Hc. induction atoms as [|[a at_] r IH]; intros idx e Hl E; cbn [bond_constraint_errors] in E; [discriminate|]. cbn [length] in Hl.
  unfold bonding_capacity_c in E. destruct (capf (a_element a) (a_charge a)) as [c|e1] eqn:Ec; cbn [bind] in E; [|inversion E; subst; exact (Hc _ _ _ Ec)].
  destruct (lget_ok (m_counts2 m) idx ltac:(lia)) as [c2 Eb]. unfold mg_get_bond_count2 in E. rewrite Eb in E. cbn [bind] in E.
  destruct (_ <? _)%Z; [|exact (IH (S idx) e ltac:(lia) E)].
  destruct (atom_to_smiles a true) as [x|e1] eqn:Ea; cbn [bind] in E; [|inversion E; subst; exact (atom_smiles_noidx _ _ _ Ea)].
  destruct (bond_constraint_errors capf m r (S idx)) as [x2|e1] eqn:Er; cbn [bind] in E; [discriminate|inversion E; subst; exact (IH (S idx) _ ltac:(lia) Er)].
Qed.

Lemma partition_noidx : forall bonds i e, partition_bonds bonds i = Err e -> noidx e.
Proof.
  induction bonds as [|[b|] r IH]; intros i e E; cbn [partition_bonds] in E; [discriminate| |inversion E; discriminate].
  destruct (partition_bonds r (S i)) as [[[p0 p1] p2]|e1] eqn:Ep; cbn [bind] in E; [|inversion E; subst; exact (IH _ _ Ep)].
  destruct (negb (e_ring b)); [discriminate|]. destruct (_ <? _); discriminate.
Qed.

Lemma invert_pass_noidx m : GWF m -> forall atoms idx e, idx + length atoms <= mg_len m -> invert_pass m atoms idx = Err e -> noidx e.
Proof.
  intros [GA GC GF]. induction atoms as [|[a at_] r IH]; intros idx e Hl E; cbn [invert_pass] in E; [discriminate|]. cbn [length] in Hl.
  match type of E with (do a' <- ?X; _) = _ => destruct X as [a'|e1] eqn:Ea end; cbn [bind] in E.
  - destruct (invert_pass m r (S idx)) as [rest|e1] eqn:Er; cbn [bind] in E; [discriminate|inversion E; subst; exact (IH (S idx) _ ltac:(lia) Er)].
  - inversion E; subst e1; clear E. destruct (a_chirality a); [|discriminate].
    destruct (lget_ok (m_ringflags m) idx ltac:(lia)) as [flag Ef]. unfold mg_has_out_ring_bond in Ea. rewrite Ef in Ea. cbn [bind] in Ea.
    destruct flag; [|discriminate].
    destruct (should_invert_chirality m idx) as [inv|e1] eqn:Es; cbn [bind] in Ea; [discriminate|]. inversion Ea; subst e1.
    unfold should_invert_chirality in Es. destruct (lget_ok (m_adj m) idx ltac:(lia)) as [ob Eo]. unfold mg_get_out_dirbonds in Es. rewrite Eo in Es. cbn [bind] in Es.
    destruct (partition_bonds ob 0) as [[[p0 p1] p2]|e2] eqn:Ep; cbn [bind] in Es; [discriminate|inversion Es; subst; exact (partition_noidx _ _ _ Ep)].
Qed.

Lemma capacity_noidx T el c e : get_bonding_capacity T el c = Err e -> noidx e.
Proof. unfold get_bonding_capacity. destruct (assoc _ T); [discriminate|]. destruct (assoc _ T); [discriminate|]. intro H; inversion H; discriminate. Qed.

(* once the reader and kekulize have returned, encoder() cannot end in IndexError *)
Theorem encoder_after_kekulize_no_index_error T smiles strict attribute m0 m1 e :
  smiles_to_mol smiles attribute = Ok m0 -> kekulize m0 = Ok (Some m1) ->
  encoder T smiles strict attribute = Err e -> noidx e.
Proof.
  intros Ep Ek E. unfold encoder, encoder_c in E. rewrite Ep in E. unfold encode_mol in E. rewrite Ek in E. cbn [bind] in E.
  pose proof (smiles_to_mol_total smiles attribute) as G0. rewrite Ep in G0.
  destruct (parsed_row _ _ _ Ep) as [R0 _]. destruct (kekulize_row _ _ R0 Ek) as [R1 _].
  destruct (parsed_gi _ _ _ Ep) as [I0 Rt0]. destruct (kekulize_gwf _ _ G0 Ek) as (G1 & Rt1 & L1).
  pose proof (kekulize_edge _ (inb_order _) _ _ I0 Ek) as I1. rewrite <- L1 in I1.
  assert (Rts : Forall (fun r => r < mg_len m1) (m_roots m1)) by (rewrite Rt1, L1; exact Rt0).
  match type of E with (do _ <- ?X; _) = _ => destruct X as [u|e1] eqn:Ec end; cbn [bind] in E.
  - destruct (invert_pass m1 (m_atoms m1) 0) as [atoms'|e1] eqn:Ei; cbn [bind] in E; [|inversion E; subst; exact (invert_pass_noidx _ G1 (m_atoms m1) 0 _ ltac:(unfold mg_len; lia) Ei)].
    set (m2 := set_atoms m1 atoms') in *.
    assert (L2 : mg_len m2 = mg_len m1) by (unfold mg_len, m2; cbn [set_atoms m_atoms]; exact (invert_pass_len _ _ _ _ Ei)).
    assert (G2 : GWF m2) by (destruct G1 as [A B C]; constructor; rewrite L2; assumption).
    assert (I2 : EdgeP (inb (mg_len m2)) m2) by (rewrite L2; exact I1).
    destruct (encode_roots m2 _ 0) as [[frags maps]|e1] eqn:Er; cbn [bind] in E; [discriminate|].
    inversion E; subst. apply (encode_roots_noidx m2 G2 I2 R1 _ _ _ ltac:(rewrite L2; exact Rts) Er).
  - inversion E; subst e1; clear E. destruct strict; [|discriminate]. unfold check_bond_constraints in Ec.
    destruct (bond_constraint_errors _ m1 (m_atoms m1) 0) as [bad|e1] eqn:Eb; cbn [bind] in Ec.
    + destruct bad; [inversion Ec; discriminate|discriminate].
    + inversion Ec; subst. exact (constraint_errors_noidx _ _ G1 (capacity_noidx T) (m_atoms m1) 0 _ ltac:(unfold mg_len; lia) Eb).
Qed.
