(* EncGreedyT.v — C09: the greedy phase of find_perfect_matching terminates (and so, with EncGreedy.v, always returns a
   matching) on a symmetric graph without self loops.  Potential: heap size + the adjacency lengths of the still
   unmatched nodes; a pop takes one off, matching node and mate pushes at most len(graph[node]) + len(graph[mate])
   items while both lengths leave the sum. *)
From Coq Require Import Ascii String List Arith ZArith NArith Bool Lia.
Import ListNotations.
From Selfies Require Import Base Generated Lex Atoms Grammar Decoder Smiles PySet Matching Kekulize Encoder BaseFacts ConfigFacts
  ParserTotal EncShape EncRows EncKey EncIndex EncAttrErr EncUniq EncKek EncMatch EncMatchSafe EncCount EncGreedy.
Local Open Scope nat_scope.

Lemma heappush_length : forall h x, length (heappush h x) = S (length h).
Proof. induction h as [|y r IH]; intro x; cbn [heappush]; [reflexivity|]. destruct (hitem_lt y x); cbn [length]; [now rewrite IH|reflexivity]. Qed.

Lemma dec_free_length : forall adjs m fd h fd' h', dec_free adjs m fd h = Ok (fd', h') -> length h' <= length h + length adjs.
Proof.
  induction adjs as [|adj r IH]; intros m fd h fd' h' E; cbn [dec_free] in E; [inversion E; subst; cbn; lia|].
  destruct (get fd adj) as [d|]; cbn [bind] in E; [|discriminate]. destruct (get m adj) as [madj|]; cbn [bind] in E; [|discriminate].
  apply IH in E. cbn [length]. destruct madj; [lia|]. destruct (0 <? d - 1)%Z; [rewrite heappush_length in E|]; lia.
Qed.

(* adjacency lengths of the free nodes, over (index, list) pairs *)
Fixpoint pot (m : matching) (l : list (nat * list nat)) : nat :=
  match l with [] => 0 | (i, li) :: r => (if isfree m i then length li else 0) + pot m r end.

Lemma pot_other m m' : forall l, (forall i li, In (i, li) l -> isfree m' i = isfree m i) -> pot m' l = pot m l.
Proof. induction l as [|[i li] r IH]; intro H; cbn [pot]; [reflexivity|]. rewrite (H i li (or_introl eq_refl)), IH; [reflexivity|]. intros; apply (H i0 li0); now right. Qed.

Lemma pot_match2 m m' a b : a <> b -> isfree m a = true -> isfree m b = true -> isfree m' a = false -> isfree m' b = false ->
  (forall i, i <> a -> i <> b -> isfree m' i = isfree m i) ->
  forall (g : graph) k, pot m (enum_from k g) =
    pot m' (enum_from k g) + (match nth_error g (a - k) with Some la => if k <=? a then length la else 0 | None => 0 end)
                           + (match nth_error g (b - k) with Some lb => if k <=? b then length lb else 0 | None => 0 end).
Proof.
  intros Hab Fa Fb Fa' Fb' Ho. induction g as [|li r IH]; intro k; cbn [enum_from pot].
  - destruct (a - k), (b - k); reflexivity.
  - rewrite (IH (S k)).
    destruct (Nat.eq_dec k a) as [->|Hka]; [|destruct (Nat.eq_dec k b) as [->|Hkb]].
    + rewrite Fa, Fa', Nat.sub_diag, Nat.leb_refl. cbn [nth_error]. replace (a - S a) with 0 by lia. destruct (Nat.leb_spec (S a) a); [lia|].
      destruct (Nat.leb_spec a b), (Nat.leb_spec (S a) b); try lia.
      * replace (b - a) with (S (b - S a)) by lia. cbn [nth_error]. destruct r; cbn; destruct (nth_error _ _); lia.
      * replace (b - a) with 0 by lia. replace (b - S a) with 0 by lia. cbn [nth_error]. destruct r; lia.
    + rewrite Fb, Fb', Nat.sub_diag, Nat.leb_refl. cbn [nth_error]. replace (b - S b) with 0 by lia. destruct (Nat.leb_spec (S b) b); [lia|].
      destruct (Nat.leb_spec b a), (Nat.leb_spec (S b) a); try lia.
      * replace (a - b) with (S (a - S b)) by lia. cbn [nth_error]. destruct r; cbn; destruct (nth_error _ _); lia.
      * replace (a - b) with 0 by lia. replace (a - S b) with 0 by lia. cbn [nth_error]. destruct r; lia.
    + rewrite (Ho k Hka Hkb).
      assert (X : forall c, k <> c -> (match nth_error (li :: r) (c - k) with Some lc => if k <=? c then length lc else 0 | None => 0 end) =
                                      (match nth_error r (c - S k) with Some lc => if S k <=? c then length lc else 0 | None => 0 end)).
      { intros c Hc. destruct (Nat.leb_spec k c), (Nat.leb_spec (S k) c); try lia.
        - replace (c - k) with (S (c - S k)) by lia. reflexivity.
        - replace (c - k) with 0 by lia. replace (c - S k) with 0 by lia. cbn [nth_error]. destruct r; reflexivity. }
      rewrite (X a Hka), (X b Hkb). lia.
Qed.

Lemma pot_free_all m : forall (g : graph) k, (forall i li, In (i, li) (enum_from k g) -> isfree m i = true) -> pot m (enum_from k g) = total_adj g.
Proof.
  assert (T : forall (g : graph) acc, fold_left (fun a l => a + length l) g acc = acc + fold_left (fun a l => a + length l) g 0).
  { induction g as [|li r IH]; intro acc; cbn [fold_left]; [lia|]. rewrite (IH (acc + length li)), (IH (0 + length li)). lia. }
  induction g as [|li r IH]; intros k H; cbn [enum_from pot]; [reflexivity|]. unfold total_adj. cbn [fold_left]. rewrite T. fold (total_adj r).
  rewrite (H k li (or_introl eq_refl)), (IH (S k)); [lia|]. intros i l Hin. apply (H i l). now right.
Qed.

Section GreedyT.
Variable g : graph.
Hypothesis GR : forall i li j, nth_error g i = Some li -> In j li -> j < length g.
Hypothesis NSL : forall i li, nth_error g i = Some li -> ~ In i li.
Hypothesis SYM : forall u v lu lv, nth_error g u = Some lu -> nth_error g v = Some lv -> occ lu v = occ lv u.

Lemma greedy_loop_total : forall fuel m fd h, GInv g m fd h -> length h + pot m (enum_from 0 g) < fuel -> exists m', greedy_loop fuel g m fd h = Ok m'.
Proof.
  induction fuel as [|f IH]; intros m fd h [Lm Lf Hh Hc] Hfu; [lia|]. cbn [greedy_loop].
  destruct h as [|[d node] h1]; cbn [heappop]; [eauto|]. inversion Hh as [|? ? Hnode Hh1]; subst. unfold nodeok in Hnode. cbn [snd] in Hnode. cbn [length] in Hfu.
  assert (Lnode : node < length m) by (rewrite Lm; exact Hnode). assert (Lnf : node < length fd) by (rewrite Lf; exact Hnode).
  destruct (get_ok m node Lnode) as (mn & Egm & Hnm). rewrite Egm. cbn [bind].
  destruct (get_ok fd node Lnf) as (dn & Egf & Hnf). rewrite Egf. cbn [bind].
  assert (Rest : GInv g m fd h1) by (constructor; assumption).
  destruct mn as [y|]; [apply (IH _ _ _ Rest); lia|].
  destruct (Z.eqb_spec dn 0) as [Hd0|Hd0]; [apply (IH _ _ _ Rest); lia|].
  destruct (get_ok g node Hnode) as (gn & Egg & Hng). rewrite Egg. cbn [bind].
  assert (Ffree : isfree m node = true) by (unfold isfree; now rewrite Hnm).
  pose proof (Hc node gn Hng Ffree) as Hcnt. rewrite Hnf in Hcnt. inversion Hcnt; subst dn.
  destruct (first_unmatched_total gn m (fun i Hi => ltac:(rewrite Lm; exact (GR node gn i Hng Hi))) ltac:(lia)) as (mate & Ef & Hin & Fm). rewrite Ef. cbn [bind].
  pose proof (GR node gn mate Hng Hin) as Hmate. assert (Hne : node <> mate) by (intros ->; exact (NSL mate gn Hng Hin)).
  assert (Lmate : mate < length m) by (rewrite Lm; exact Hmate).
  rewrite (set_at_ok m node _ Lnode). cbn [bind]. rewrite (set_at_ok _ mate _ ltac:(rewrite upd_length; exact Lmate)). cbn [bind].
  destruct (get_ok g mate Hmate) as (gm & Eggm & Hngm). rewrite Eggm. cbn [bind].
  set (m2 := upd (upd m node (fun _ => Some mate)) mate (fun _ => Some node)).
  assert (Lm2 : length m2 = length g) by (unfold m2; now rewrite !upd_length).
  destruct (dec_free_total g (gn ++ gm) m2 fd h1) as (fd' & h2 & Ed & Lf' & Hh2 & Sd); [|exact Lf|exact Lm2|exact Hh1|].
  { intros a Ha. apply in_app_iff in Ha as [Ha|Ha]; [exact (GR node gn a Hng Ha)|exact (GR mate gm a Hngm Ha)]. }
  rewrite Ed. cbn [bind].
  assert (F2 : forall v, isfree m2 v = if Nat.eqb mate v then false else if Nat.eqb node v then false else isfree m v).
  { intro v. unfold isfree, m2. rewrite nth_set by (rewrite upd_length; exact Lmate). destruct (Nat.eqb mate v); [reflexivity|]. rewrite nth_set by exact Lnode. destruct (Nat.eqb node v); reflexivity. }
  apply IH.
  - constructor; [exact Lm2|exact Lf'|exact Hh2|]. intros v lv Hv Fv. rewrite F2 in Fv.
    destruct (Nat.eqb_spec mate v) as [|Hmv]; [discriminate|]. destruct (Nat.eqb_spec node v) as [|Hnv]; [discriminate|].
    rewrite Sd, (Hc v lv Hv Fv). cbn [option_map]. f_equal.
    pose proof (cntf_set2 m node mate Lnode Lmate Hne Ffree Fm lv) as C. fold m2 in C.
    unfold occ in *. rewrite count_occ_app. rewrite (SYM node v gn lv Hng Hv), (SYM mate v gm lv Hngm Hv). unfold occ. lia.
  - pose proof (dec_free_length _ _ _ _ _ _ Ed) as Lh2. rewrite app_length in Lh2.
    pose proof (pot_match2 m m2 node mate Hne Ffree Fm ltac:(rewrite F2; rewrite Nat.eqb_refl; destruct (mate =? node); reflexivity) ltac:(rewrite F2; now rewrite Nat.eqb_refl)) as PM.
    specialize (PM ltac:(intros i Hi1 Hi2; rewrite F2; destruct (Nat.eqb_spec mate i); [congruence|]; destruct (Nat.eqb_spec node i); [congruence|reflexivity]) g 0).
    rewrite !Nat.sub_0_r, Hng, Hngm in PM. cbn [Nat.leb] in PM. lia.
Qed.

Theorem greedy_total : exists m0, greedy_matching g = Ok m0.
Proof.
  unfold greedy_matching. apply greedy_loop_total.
  - constructor.
    + now rewrite map_length.
    + now rewrite map_length.
    + unfold heapify. assert (X : Forall (nodeok g) (map (fun p : nat * list nat => (Z.of_nat (length (snd p)), fst p)) (enum_from 0 g))).
      { apply Forall_forall. intros it Hit. apply in_map_iff in Hit as ([i li] & <- & Hin). unfold nodeok. cbn [snd fst].
        apply enum_from_nth in Hin as [_ Hn]. rewrite Nat.sub_0_r in Hn. apply nth_error_Some. congruence. }
      induction X as [|x l Hx Hl IHl]; cbn [fold_right]; [constructor|apply heappush_forall; assumption].
    + intros v lv Hv _. rewrite nth_error_map, Hv. cbn [option_map]. f_equal. f_equal. symmetry. apply cntf_all_free.
      intros i Hi. unfold isfree. pose proof (GR v lv i Hv Hi) as Li.
      destruct (nth_error g i) as [x|] eqn:E; [|apply nth_error_None in E; lia]. rewrite nth_error_map, E. reflexivity.
  - assert (Lh : forall (l : list hitem), length (heapify l) = length l).
    { unfold heapify. induction l as [|x r IHl]; cbn [fold_right length]; [reflexivity|]. now rewrite heappush_length, IHl. }
    rewrite Lh, map_length.
    assert (Le : forall (l : graph) k, length (enum_from k l) = length l) by (induction l as [|x r IHl]; intro k; cbn [enum_from length]; [reflexivity|now rewrite IHl]).
    rewrite Le. rewrite pot_free_all; [unfold greedy_fuel; lia|].
    intros i li Hin. apply enum_from_nth in Hin as [_ Hn]. rewrite Nat.sub_0_r in Hn. unfold isfree. rewrite nth_error_map, Hn. reflexivity.
Qed.
End GreedyT.

Theorem parsed_greedy_total smiles attributable m0 g : smiles_to_mol smiles attributable = Ok m0 -> pruned_ds m0 = Ok g -> exists mt, greedy_matching g = Ok mt.
Proof.
  intros Ep Eg. unfold pruned_ds in Eg. destruct (kept_nodes_of m0 (ds_keys (m_ds m0))) as [kept|] eqn:Ek; cbn [bind] in Eg; [|discriminate].
  assert (Hns : NoSelf m0).
  { destruct (parsed_gue _ _ _ Ep) as (_ & _ & _ & _ & Hrow & _). destruct (parsed_gi _ _ _ Ep) as [Hi _].
    intros j d r (row & e0 & Hn & Hin & Hd & _). subst d. destruct (Hi j row e0 Hn Hin) as [_ Hne]. rewrite (proj1 (Hrow _ _ _ Hn Hin)) in Hne. congruence. }
  destruct (pruned_graph_ok m0 kept g (parsed_kpre _ _ _ Ep) (parsed_dsp _ _ _ Ep) Hns Ek Eg) as (GR & NSL & SYM).
  exact (greedy_total g GR NSL SYM).
Qed.
