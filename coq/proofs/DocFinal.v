(* DocFinal.v — C02 as a theorem: the molecule read from the decoder's output is, up to the numbering of
   its atoms, the molecule the documented derivation (spec/DocGrammar.v: grammar_eval) assigns to the string. *)
From Coq Require Import Ascii String List Arith ZArith NArith Bool Lia.
Import ListNotations.
From Selfies Require Import Base Generated Lex Atoms Grammar Decoder IndexSpec Reader DocGrammar WfSpec BaseFacts StateFacts ConfigFacts DecoderBasics
  LexFacts NopFacts CompatFacts DecoderInv DecoderTree DecoderSum TokFacts WriterAtoms WriterLex WriterSim WriterFinal RingCount CompatTotal DocAtoms DocDerive DocRings Preorder.
Local Open Scope Z_scope.

(* ---------- the decoded graph and the documented state ---------- *)
Theorem decode_graph_doc T s attribute (frs : list (list str)) m :
  (exists c, assoc (lit "?") T = Some c) ->
  tokenize_all s false = map (fun fr => (fr, @None exn)) frs -> Forall (Forall tok_ok) frs ->
  decode_graph T s false attribute = Ok m ->
  exists d0 rings made, derive_all T frs dg_empty = Ok d0 /\ RInv T rings m made (fold_left form_one (dg_rings d0) d0).
Proof.
  intros Hq Htok Hok E. unfold decode_graph, decode_graph_c in E. rewrite Htok in E. fold (derive_frags T) in E.
  destruct (derive_frags T attribute (map (fun fr => (fr, @None exn)) frs) empty_mol [] 0) as [[m1 rings]|] eqn:Ed; cbn [bind] in E; [|discriminate].
  destruct (frags_sim T attribute frs empty_mol [] 0%nat m1 rings dg_empty Ed rel_empty) as (d0 & D0 & R0).
  assert (Hfr : Forall frag_ok (map (fun fr => (fr, @None exn)) frs)).
  { apply Forall_forall. intros f Hf. apply in_map_iff in Hf as (fr & <- & Hin). split; [now left|]. cbn [fst]. rewrite Forall_forall in Hok. now apply Hok. }
  pose proof (derive_frags_good (P2 T) SumInv (sum_add_atom (P2 T)) (sum_add_bond (P2 T)) TreeInv (tree_root (P2 T) SumInv) (tree_step (P2 T) SumInv)
                T Hq (pas_p2 T) attribute _ empty_mol [] 0%nat (wf_empty (P2 T) SumInv sum_empty) tree_empty (Forall_nil _) Hfr) as G.
  rewrite Ed in G. destruct G as (G1 & RO & HT1).
  pose proof (derive_frags_rc (get_bonding_capacity T) attribute _ _ _ _ _ _ Ed) as [_ Hnr]. specialize (Hnr noring_empty).
  pose proof (derive_frags_marks (get_bonding_capacity T) attribute _ _ _ _ _ _ Ed (Forall_nil _)) as HM.
  unfold form_rings in E. destruct (fold_left form_ring rings _) as [[m2 made]|] eqn:Ef; cbn [bind] in E; [|discriminate]. injection E as <-.
  assert (HI : RInv T rings m1 (repeat 0%nat (length (atoms m1))) d0).
  { constructor; auto.
    - now rewrite repeat_length.
    - intros x Hx. rewrite nth_repeat. unfold rcount. symmetry.
      assert (X : forall L : list dbond, (forall e, In e L -> b_ring e = false) -> length (filter b_ring L) = 0%nat).
      { induction L as [|e L IH]; intro H; [reflexivity|]. cbn [filter]. rewrite (H e (or_introl eq_refl)). apply IH. intros e' He'. apply H. now right. }
      apply X. intros e He. exact (Hnr x e He). }
  pose proof (rings_sim T rings rings m1 _ d0 m2 made Ef HI RO HM) as HI2.
  exists d0, rings, made. split; [exact D0|]. now rewrite (rl_rings _ _ _ R0).
Qed.

(* ---------- the documented state as a molecule ---------- *)
Definition frow_id (m : dmol) (x : nat) : list nslot :=
  match par m x with Some (p, e) => [mkslot p e false] | None => [] end ++ map slot_of (row m x).

Lemma list_as_seq {A} (l : list A) d : l = map (fun i => nth i l d) (seq 0 (length l)).
Proof.
  induction l as [|a l IH]; [reflexivity|]. cbn [length seq map nth]. f_equal. rewrite <- seq_shift, map_map. exact IH.
Qed.

Lemma nth_map_seq {A} (f : nat -> A) n j d : (j < n)%nat -> nth j (map f (seq 0 n)) d = f j.
Proof. intro H. rewrite (nth_indep _ d (f 0%nat)) by (rewrite map_length, seq_length; exact H). rewrite (map_nth f), seq_nth by exact H. reflexivity. Qed.

Lemma atoms_as_seq (l : list (atom * Z * attrs)) :
  map (fun x => fst (datom_of x)) l =
  map (fun j => match nth_error l j with Some (a, _, _) => abs_atom a | None => dummy_atom end) (seq 0 (length l)).
Proof.
  induction l as [|[[a c] at_] l IH]; [reflexivity|]. cbn [length seq map nth_error datom_of fst snd]. f_equal.
  rewrite <- seq_shift, map_map. exact IH.
Qed.

Lemma state_graph T R0 m made d : RInv T R0 m made d ->
  map fst (dg_atoms d) = map (aat m) (seq 0 (natoms m)) /\ dg_nbrs d = map (frow_id m) (seq 0 (natoms m)).
Proof.
  intros [HR G HT _ _]. split.
  - rewrite (rl_atoms _ _ _ HR), map_map. exact (atoms_as_seq (atoms m)).
  - rewrite (list_as_seq (dg_nbrs d) []) at 1. rewrite (rl_len _ _ _ HR). apply map_ext_in. intros x Hx. apply in_seq in Hx.
    destruct (pre_par T R0 m d x HR G HT ltac:(lia)) as (pre & E1 & E2 & _). rewrite E1, E2. reflexivity.
Qed.

Definition reslot (f : nat -> nat) (s : nslot) : nslot :=
  {| sl_to := f (sl_to s); sl_order2 := sl_order2 s; sl_mark := sl_mark s; sl_ring := sl_ring s |}.

(* the same molecule with its atoms listed in the order ord *)
Definition relabel (ord : list nat) (g : smol) : smol :=
  {| sm_atoms := map (fun j => nth j (sm_atoms g) dummy_atom) ord;
     sm_nbrs := map (fun j => map (reslot (pos ord)) (nth j (sm_nbrs g) [])) ord |}.

Lemma frow_relabel m ord x : frow m ord x = map (reslot (pos ord)) (frow_id m x).
Proof.
  unfold frow, frow_id, fps. rewrite map_app, map_map. f_equal.
  destruct (par m x) as [[p e]|]; reflexivity.
Qed.

(* ---------- the token list of a well-formed string, as the documented evaluator takes it ---------- *)
Fixpoint dtoks (frs : list (list item)) : list str :=
  match frs with
  | [] => []
  | fr :: rest => match rest with [] => symbols fr | _ => symbols fr ++ [c_dot] :: dtoks rest end
  end.

Lemma fragments_syms ss rest cur : Forall (fun t => str_eqb t [46%N] = false) ss ->
  fragments (ss ++ rest) cur = fragments rest (rev (filter not_nop ss) ++ cur).
Proof.
  intro H. revert cur. induction H as [|t ss Ht _ IH]; intro cur; [reflexivity|].
  cbn [app fragments filter]. rewrite Ht. unfold not_nop at 1. change nop_symbol with nop_sym.
  destruct (str_eqb t nop_sym); cbn [negb]; rewrite IH; [reflexivity|]. cbn [rev]. now rewrite <- app_assoc.
Qed.

Lemma symbols_nodot fr : Forall (fun t => str_eqb t [46%N] = false) (symbols fr).
Proof. unfold symbols. apply Forall_forall. intros t Ht. apply in_map_iff in Ht as (i & <- & _). reflexivity. Qed.

Lemma fragments_dtoks : forall frs cur, frs <> [] ->
  fragments (dtoks frs) cur = (rev cur ++ filter not_nop (symbols (hd [] frs))) :: map (fun fr => filter not_nop (symbols fr)) (tl frs).
Proof.
  induction frs as [|fr rest IH]; intros cur Hne; [congruence|]. cbn [hd tl]. destruct rest as [|fr2 rest'].
  - cbn [dtoks map]. rewrite <- (app_nil_r (symbols fr)), (fragments_syms _ [] cur (symbols_nodot fr)). cbn [fragments].
    now rewrite app_nil_r, rev_app_distr, rev_involutive.
  - change (dtoks (fr :: fr2 :: rest')) with (symbols fr ++ [c_dot] :: dtoks (fr2 :: rest')).
    rewrite (fragments_syms _ _ cur (symbols_nodot fr)). cbn [fragments]. change (str_eqb [c_dot] [46%N]) with true. cbn iota.
    rewrite rev_app_distr, rev_involutive. f_equal. rewrite (IH [] ltac:(discriminate)). reflexivity.
Qed.

(* ---------- C02 ---------- *)
Theorem decoder_refines_grammar T (frs : list (list item)) attribute out maps :
  (exists c, assoc (lit "?") T = Some c) -> frs <> [] -> Forall wfd frs ->
  symbols_short (render_frags frs) -> (ring_symbol_count (render_frags frs) false < 100)%nat ->
  decoder T (render_frags frs) false attribute = Ok (out, maps) ->
  exists g ord, grammar_eval T (dtoks frs) = Ok g /\ NoDup ord /\ (forall j, In j ord <-> (j < length (sm_atoms g))%nat) /\
                read_smiles out = Some (relabel ord g).
Proof.
  intros Hq Hne Hwf Hs Hr E. set (s := render_frags frs) in *.
  pose proof (frags_ok_of_symbols s false Hs) as Hd.
  unfold decoder, decoder_c in E. change (decode_graph_c (get_bonding_capacity T) s false attribute) with (decode_graph T s false attribute) in E.
  destruct (decode_graph T s false attribute) as [m|] eqn:Eg; cbn [bind] in E; [|discriminate].
  destruct (decode_graph_ok2 T s false attribute m Hq Hd Eg) as [HG HT].
  assert (Hr' : (length (ring_pairs m) < 100)%nat).
  { apply Nat.le_lt_trans with (ring_symbol_count s false); [|exact Hr]. exact (ring_pairs_le_symbols (get_bonding_capacity T) s false attribute m Eg). }
  destruct (printed_reads T m HG HT Hr' out maps E) as (ord & Hnd & Hall & Hread).
  set (frs' := map (fun fr => filter not_nop (symbols fr)) frs).
  assert (Htok : tokenize_all s false = map (fun fr => (fr, @None exn)) frs').
  { unfold s, frs'. rewrite (tokenize_all_false frs Hne Hwf), map_map. reflexivity. }
  assert (Hok : Forall (Forall tok_ok) frs').
  { unfold frags_ok in Hd. rewrite Htok in Hd. apply Forall_forall. intros fr Hfr. rewrite Forall_forall in Hd.
    destruct (Hd (fr, None) ltac:(apply in_map_iff; eauto)) as [_ X]. exact X. }
  destruct (decode_graph_doc T s attribute frs' m Hq Htok Hok Eg) as (d0 & rings & made & D0 & HI).
  destruct (state_graph T rings m made _ HI) as [Sa Sn].
  assert (Hfrag : fragments (dtoks frs) [] = frs').
  { rewrite (fragments_dtoks frs [] Hne). unfold frs'. destruct frs as [|fr rest]; [congruence|]. reflexivity. }
  exists {| sm_atoms := map (aat m) (seq 0 (natoms m)); sm_nbrs := map (frow_id m) (seq 0 (natoms m)) |}, ord.
  split; [|split; [exact Hnd|split]].
  - unfold grammar_eval. rewrite Hfrag, D0. cbn [bind]. now rewrite Sa, Sn.
  - cbn [sm_atoms]. rewrite map_length, seq_length. exact Hall.
  - rewrite Hread. f_equal. unfold relabel. cbn [sm_atoms sm_nbrs]. f_equal.
    + apply map_ext_in. intros j Hj. apply Hall in Hj. now rewrite nth_map_seq.
    + apply map_ext_in. intros j Hj. apply Hall in Hj. rewrite nth_map_seq by exact Hj. apply frow_relabel.
Qed.

(* ---------- "atoms in derivation order": the emission order is the creation order ---------- *)
Lemma pos_seq n j : (j < n)%nat -> pos (seq 0 n) j = j.
Proof.
  intro H. apply (pos_nth (seq 0 n) j j (seq_NoDup n 0)). rewrite nth_error_nth' with (d := 0%nat) by (now rewrite seq_length). now rewrite seq_nth.
Qed.

Theorem decoder_refines_grammar_exact T (frs : list (list item)) attribute out maps :
  (exists c, assoc (lit "?") T = Some c) -> frs <> [] -> Forall wfd frs ->
  symbols_short (render_frags frs) -> (ring_symbol_count (render_frags frs) false < 100)%nat ->
  decoder T (render_frags frs) false attribute = Ok (out, maps) ->
  exists g, grammar_eval T (dtoks frs) = Ok g /\ read_smiles out = Some g.
Proof.
  intros Hq Hne Hwf Hs Hr E. set (s := render_frags frs) in *.
  pose proof (frags_ok_of_symbols s false Hs) as Hd.
  unfold decoder, decoder_c in E. change (decode_graph_c (get_bonding_capacity T) s false attribute) with (decode_graph T s false attribute) in E.
  destruct (decode_graph T s false attribute) as [m|] eqn:Eg; cbn [bind] in E; [|discriminate].
  destruct (decode_graph_ok2 T s false attribute m Hq Hd Eg) as [HG HT].
  assert (Hr' : (length (ring_pairs m) < 100)%nat).
  { apply Nat.le_lt_trans with (ring_symbol_count s false); [|exact Hr]. exact (ring_pairs_le_symbols (get_bonding_capacity T) s false attribute m Eg). }
  destruct (printed_reads_ord T m HG HT Hr' out maps E) as (ord & Hnd & Hall & Hread & Eord).
  rewrite (Preorder.decoded_eord T s false attribute m Eg) in Eord. subst ord.
  set (frs' := map (fun fr => filter not_nop (symbols fr)) frs).
  assert (Htok : tokenize_all s false = map (fun fr => (fr, @None exn)) frs').
  { unfold s, frs'. rewrite (tokenize_all_false frs Hne Hwf), map_map. reflexivity. }
  assert (Hok : Forall (Forall tok_ok) frs').
  { unfold frags_ok in Hd. rewrite Htok in Hd. apply Forall_forall. intros fr Hfr. rewrite Forall_forall in Hd.
    destruct (Hd (fr, None) ltac:(apply in_map_iff; eauto)) as [_ X]. exact X. }
  destruct (decode_graph_doc T s attribute frs' m Hq Htok Hok Eg) as (d0 & rings & made & D0 & HI).
  destruct (state_graph T rings m made _ HI) as [Sa Sn].
  assert (Hfrag : fragments (dtoks frs) [] = frs').
  { rewrite (fragments_dtoks frs [] Hne). unfold frs'. destruct frs as [|fr rest]; [congruence|]. reflexivity. }
  exists {| sm_atoms := map (aat m) (seq 0 (natoms m)); sm_nbrs := map (frow_id m) (seq 0 (natoms m)) |}.
  split.
  - unfold grammar_eval. rewrite Hfrag, D0. cbn [bind]. now rewrite Sa, Sn.
  - rewrite Hread. f_equal. f_equal. apply map_ext_in. intros x Hx. apply in_seq in Hx.
    rewrite frow_relabel. rewrite <- (map_id (frow_id m x)) at 2. apply map_ext_in. intros sl Hsl.
    assert (Hto : (sl_to sl < natoms m)%nat).
    { unfold frow_id in Hsl. apply in_app_iff in Hsl as [Hsl|Hsl].
      - destruct (par m x) as [[p e]|] eqn:Ep; [|destruct Hsl]. destruct Hsl as [<-|[]]. cbn [mkslot sl_to].
        destruct (par_some m (hb_of T m HG) _ _ _ Ep) as (_ & _ & _ & Hp). lia.
      - apply in_map_iff in Hsl as (e & <- & He). cbn. destruct (hb_of T m HG x e He) as (A & _). exact A. }
    unfold reslot. rewrite (pos_seq _ _ Hto). destruct sl; reflexivity.
Qed.
