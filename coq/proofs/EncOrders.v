(* EncOrders.v — C09, last stage: no bond keeps the order 1.5 after kekulize.  The reader lists every aromatic bond in the
   delocalisation subgraph on both sides, at the moment it adds the bond; kekulize lowers every listed pair to a single
   bond (and raises the matched ones to double); so every bond of the graph the walk runs over has order 1, 2 or 3 and
   bond_to_smiles never raises ValueError. *)
From Coq Require Import Ascii String List Arith ZArith NArith Bool Lia.
Import ListNotations.
From Selfies Require Import Base Generated Lex Atoms Grammar Decoder Smiles PySet Matching Kekulize Encoder BaseFacts ConfigFacts DecoderInv
  ParserTotal EncHyp EncShape EncTokens EncRows EncAttr EncStereo EncFuel EncIndex EncKey EncAttrErr EncArom EncUniq.
Local Open Scope nat_scope.

(* ---------- orders and the delocalisation subgraph ---------- *)
Definition okord (o : Z) : Prop := (o = 2 \/ o = 3 \/ o = 4 \/ o = 6)%Z.
Definition listed (D : dsub) (s d : nat) : Prop := exists l, ds_lookup D s = Some l /\ In d l.
Definition linked (D : dsub) (s d : nat) : Prop := listed D s d /\ listed D d s.
Definition pe (D : dsub) (e : ebond) : Prop := okord (e_order2 e) /\ (e_order2 e = 3%Z -> linked D (e_src e) (e_dst e)).

Lemma listed_append D k x s d : listed D s d -> listed (ds_append D k x) s d.
Proof.
  intros (l & Hl & Hin). unfold listed, ds_append. destruct (Nat.eq_dec s k) as [->|Hne].
  - rewrite lookup_store_same, Hl. eexists. split; [reflexivity|]. apply in_app_iff. now left.
  - rewrite lookup_store_other by exact Hne. eauto.
Qed.
Lemma listed_new D k x : listed (ds_append D k x) k x.
Proof. unfold listed, ds_append. rewrite lookup_store_same. destruct (ds_lookup D k); eexists; (split; [reflexivity|]); [apply in_app_iff; right|]; now left. Qed.
Lemma linked_append D k x s d : linked D s d -> linked (ds_append D k x) s d.
Proof. intros [A B]. split; now apply listed_append. Qed.
Lemma linked_pair D a b : linked (ds_append (ds_append D a b) b a) a b.
Proof. split; [apply listed_append, listed_new|apply listed_new]. Qed.
Lemma listed_fresh D i s d : ds_lookup D i = None -> listed D s d -> listed (ds_set_empty D i) s d.
Proof.
  intros Hn (l & Hl & Hin). unfold listed, ds_set_empty. destruct (Nat.eq_dec s i) as [->|Hne]; [congruence|]. rewrite lookup_store_other by exact Hne. eauto.
Qed.

Lemma pe_mono D D' e : (forall s d, linked D s d -> linked D' s d) -> pe D e -> pe D' e.
Proof. intros H [A B]. split; [exact A|intro E; exact (H _ _ (B E))]. Qed.
Lemma edgep_pe_mono D D' m : (forall s d, linked D s d -> linked D' s d) -> EdgeP (pe D) m -> EdgeP (pe D') m.
Proof. intros H Hm j row e Hn Hin. exact (pe_mono _ _ _ H (Hm j row e Hn Hin)). Qed.

Lemma assocN_in (c : N) (l : list (N * Z)) (o : Z) : assocN c l = Some o -> In o (map snd l).
Proof. induction l as [|[k v] r IH]; cbn [assocN map snd]; [discriminate|]. destruct (N.eqb c k); [intro H; inversion H; now left|intro H; right; now apply IH]. Qed.

Lemma bond2_okord bc : okord (fst (smiles_to_bond2 bc)).
Proof.
  unfold smiles_to_bond2. cbn [fst]. destruct bc as [c|]; [|left; reflexivity].
  destruct (assocN c smiles_bond_orders2) as [o|] eqn:E; [|left; reflexivity].
  apply assocN_in in E. assert (F : forallb (fun o => (o =? 2) || (o =? 3) || (o =? 4) || (o =? 6))%Z (map snd smiles_bond_orders2) = true) by (vm_compute; reflexivity).
  rewrite forallb_forall in F. specialize (F o E). unfold okord.
  repeat (apply orb_true_iff in F as [F|F]); apply Z.eqb_eq in F; auto.
Qed.
Lemma okord_max a b : okord a -> okord b -> okord (Z.max a b).
Proof. unfold okord. intros H1 H2. destruct H1 as [H1|[H1|[H1|H1]]], H2 as [H2|[H2|[H2|H2]]]; subst; cbn; auto. Qed.

(* ---------- the invariant of the reader ---------- *)
Definition DSI (m : emol) : Prop :=
  EdgeP (pe (m_ds m)) m /\ (forall k, ds_lookup (m_ds m) k <> None -> k < mg_len m).

Lemma keys_append D k x n : (forall j, ds_lookup D j <> None -> j < n) -> k < n -> forall j, ds_lookup (ds_append D k x) j <> None -> j < n.
Proof. intros H Hk j Hj. unfold ds_append in Hj. destruct (Nat.eq_dec j k) as [->|Hne]; [exact Hk|]. rewrite lookup_store_other in Hj by exact Hne. exact (H j Hj). Qed.

Lemma dsi_append m a b : DSI m -> a < mg_len m -> b < mg_len m -> DSI (set_ds m (ds_append (ds_append (m_ds m) a b) b a)).
Proof.
  intros [He Hk] Ha Hb. split; cbn [set_ds m_ds].
  - apply (edgep_pe_mono (m_ds m)); [intros s d H; now apply linked_append, linked_append|]. exact He.
  - unfold mg_len. cbn [set_ds m_atoms]. apply keys_append; [apply keys_append; assumption|assumption].
Qed.

Lemma add_count_dsi m i d m' : mg_add_count2 m i d = Ok m' -> m_ds m' = m_ds m /\ m_adj m' = m_adj m /\ m_atoms m' = m_atoms m.
Proof. unfold mg_add_count2. destruct (lupd _ _ _); cbn [bind]; [intro E; inversion E; auto|discriminate]. Qed.

Lemma dsi_same m m' : m_ds m' = m_ds m -> m_adj m' = m_adj m -> m_atoms m' = m_atoms m -> DSI m -> DSI m'.
Proof. intros H1 H2 H3 [A B]. split; [rewrite H1; exact (edge_same _ m m' H2 A)|rewrite H1; unfold mg_len; rewrite H3; exact B]. Qed.

Lemma at_loc_dsi m b pos m' : DSI m -> pe (m_ds m) b -> mg_add_bond_at_loc m b pos = Ok m' -> DSI m'.
Proof.
  intros [He Hk] Hb E. pose proof (at_loc_ds _ _ _ _ E) as D1. pose proof (add_at_loc_atoms _ _ _ _ E) as A1.
  split; [rewrite D1; exact (at_loc_edge _ _ _ _ _ He Hb E)|rewrite D1; unfold mg_len; rewrite A1; exact Hk].
Qed.

Lemma add_bond_dsi m src dst o2 st at_ m' : DSI m -> okord o2 -> src < mg_len m -> dst < mg_len m ->
  mg_add_bond m src dst o2 st at_ = Ok m' -> DSI m'.
Proof.
  intros Hd Ho Hs Hdd. unfold mg_add_bond. destruct (negb _); [discriminate|].
  destruct (Z.eqb_spec o2 order2_aromatic) as [E3|N3].
  - (* aromatic: the pair is listed by the same call; treat the bond as linked in the extended subgraph *)
    destruct (mg_add_bond_at_loc _ _ _) as [m1|] eqn:E1; cbn [bind]; [|discriminate].
    destruct (mg_add_count2 m1 _ _) as [m2|] eqn:E2; cbn [bind]; [|discriminate].
    destruct (mg_add_count2 m2 _ _) as [m3|] eqn:E3'; cbn [bind]; [|discriminate].
    intro E; inversion E; subst m'. destruct (add_count_dsi _ _ _ _ E2) as (D2 & A2 & T2). destruct (add_count_dsi _ _ _ _ E3') as (D3 & A3 & T3).
    pose proof (at_loc_ds _ _ _ _ E1) as D1. pose proof (add_at_loc_atoms _ _ _ _ E1) as T1.
    destruct Hd as [He Hk]. split; cbn [set_ds m_ds].
    + rewrite D3, D2, D1. intros j row e Hn Hin. cbn [set_ds m_adj] in Hn. rewrite A3, A2 in Hn.
      assert (X : EdgeP (pe (ds_append (ds_append (m_ds m) src dst) dst src)) m1).
      { apply (at_loc_edge (pe (ds_append (ds_append (m_ds m) src dst) dst src)) _ _ _ _ (edgep_pe_mono (m_ds m) _ m (fun s d H => linked_append _ dst src s d (linked_append _ src dst s d H)) He)) in E1; [exact E1|].
        split; cbn [e_order2 e_src e_dst]; [exact Ho|intros _; apply linked_pair]. }
      exact (X j row e Hn Hin).
    + unfold mg_len. cbn [set_ds m_atoms]. rewrite D3, D2, D1, T3, T2, T1. apply keys_append; [apply keys_append; assumption|assumption].
  - destruct (mg_add_bond_at_loc _ _ _) as [m1|] eqn:E1; cbn [bind]; [|discriminate].
    destruct (mg_add_count2 m1 _ _) as [m2|] eqn:E2; cbn [bind]; [|discriminate].
    destruct (mg_add_count2 m2 _ _) as [m3|] eqn:E3'; cbn [bind]; [|discriminate].
    intro E; inversion E; subst m'. destruct (add_count_dsi _ _ _ _ E2) as (D2 & A2 & T2). destruct (add_count_dsi _ _ _ _ E3') as (D3 & A3 & T3).
    apply (dsi_same m1); [congruence|congruence|congruence|].
    apply (at_loc_dsi _ _ _ _ Hd) in E1; [exact E1|]. split; cbn [e_order2]; [exact Ho|intro H; unfold order2_aromatic in N3; congruence].
Qed.

Lemma add_ring_dsi m a b o2 sa sb pa pb m' : DSI m -> okord o2 -> a < mg_len m -> b < mg_len m ->
  mg_add_ring_bond m a b o2 sa sb pa pb = Ok m' -> DSI m'.
Proof.
  intros [He Hk] Ho Ha Hb. unfold mg_add_ring_bond.
  destruct (mg_add_bond_at_loc m _ _) as [m1|] eqn:E1; cbn [bind]; [|discriminate].
  destruct (mg_add_bond_at_loc m1 _ _) as [m2|] eqn:E2; cbn [bind]; [|discriminate].
  destruct (mg_add_count2 m2 _ _) as [m3|] eqn:E3; cbn [bind]; [|discriminate].
  destruct (mg_add_count2 m3 _ _) as [m4|] eqn:E4; cbn [bind]; [|discriminate].
  destruct (lupd (m_ringflags m4) _ _) as [f1|]; cbn [bind]; [|discriminate].
  destruct (lupd f1 _ _) as [f2|]; cbn [bind]; [|discriminate].
  pose proof (at_loc_ds _ _ _ _ E1) as D1. pose proof (at_loc_ds _ _ _ _ E2) as D2. pose proof (add_at_loc_atoms _ _ _ _ E1) as T1. pose proof (add_at_loc_atoms _ _ _ _ E2) as T2.
  destruct (add_count_dsi _ _ _ _ E3) as (D3 & A3 & T3). destruct (add_count_dsi _ _ _ _ E4) as (D4 & A4 & T4).
  set (D' := ds_append (ds_append (m_ds m) a b) b a).
  assert (Mono : forall s d, linked (m_ds m) s d -> linked D' s d) by (intros s d H; now apply linked_append, linked_append).
  assert (Hlink : linked D' a b /\ linked D' b a).
  { pose proof (linked_pair (m_ds m) a b) as L. split; [exact L|destruct L; split; assumption]. }
  (* in the subgraph extended by the pair, both new bonds are linked; in the old one they are linked only if not aromatic *)
  assert (X' : EdgeP (pe D') m2).
  { apply (at_loc_edge (pe D') _ _ _ _ (edgep_pe_mono _ _ _ Mono He)) in E1; [|split; cbn [e_order2 e_src e_dst]; [exact Ho|intros _; exact (proj1 Hlink)]].
    apply (at_loc_edge (pe D') _ _ _ _ E1) in E2; [exact E2|split; cbn [e_order2 e_src e_dst]; [exact Ho|intros _; exact (proj2 Hlink)]]. }
  assert (X : (o2 =? order2_aromatic)%Z = false -> EdgeP (pe (m_ds m)) m2).
  { intro N3. apply Z.eqb_neq in N3. unfold order2_aromatic in N3.
    apply (at_loc_edge (pe (m_ds m)) _ _ _ _ He) in E1; [|split; cbn [e_order2]; [exact Ho|congruence]].
    apply (at_loc_edge (pe (m_ds m)) _ _ _ _ E1) in E2; [exact E2|split; cbn [e_order2]; [exact Ho|congruence]]. }
  destruct (o2 =? order2_aromatic)%Z eqn:Earo; intro E; inversion E; subst m'; split; cbn [set_ds set_ringflags m_ds].
  - rewrite D4, D3, D2, D1. fold D'. apply (edge_same _ m2); [cbn [set_ds set_ringflags m_adj]; congruence|exact X'].
  - unfold mg_len. cbn [set_ds set_ringflags m_atoms]. rewrite D4, D3, D2, D1, T4, T3, T2, T1. apply keys_append; [apply keys_append; assumption|assumption].
  - rewrite D4, D3, D2, D1. apply (edge_same _ m2); [cbn [set_ringflags m_adj]; congruence|exact (X eq_refl)].
  - unfold mg_len. cbn [set_ringflags m_atoms]. rewrite D4, D3, D2, D1, T4, T3, T2, T1. exact Hk.
Qed.

Lemma make_ring_dsi m lt la lp rt ra m' : DSI m -> la < mg_len m -> ra < mg_len m -> make_ring_bonds m lt la lp rt ra = Ok m' -> DSI m'.
Proof.
  intros Hd Hla Hra. unfold make_ring_bonds. destruct (_ =? _); [discriminate|]. destruct (mg_has_bond _ _ _); [discriminate|].
  match goal with |- (let '(b0, b1) := ?X in _) = _ -> _ => destruct X as [b0 b1] end.
  destruct (negb _); [discriminate|].
  pose proof (bond2_okord (t_bond lt)) as Ol. pose proof (bond2_okord (t_bond rt)) as Or.
  destruct (smiles_to_bond2 (t_bond lt)) as [lo ls]. destruct (smiles_to_bond2 (t_bond rt)) as [ro rs]. cbn [fst] in Ol, Or.
  destruct (mg_get_atom m la); cbn [bind]; [|discriminate]. destruct (mg_get_atom m ra); cbn [bind]; [|discriminate].
  match goal with |- (let '(x, y) := ?X in _) = _ -> _ => destruct X as [lo' ro'] eqn:Ep end.
  assert (Oo : okord (Z.max lo' ro')).
  { destruct (_ && _) in Ep; inversion Ep; subst; [right; left; reflexivity|apply okord_max; assumption]. }
  apply add_ring_dsi; assumption.
Qed.

Lemma placeholder_dsi m src m' k : DSI m -> mg_add_placeholder_bond m src = Ok (m', k) -> DSI m'.
Proof.
  intros [He Hk] E. pose proof (placeholder_ds _ _ _ _ E) as D1. pose proof (placeholder_atoms _ _ _ _ E) as T1.
  split; [rewrite D1; exact (placeholder_edge _ _ _ _ _ He E)|rewrite D1; unfold mg_len; rewrite T1; exact Hk].
Qed.

Lemma attach_dsi m tok a prev i m' idx i' : DSI m -> prev_in (mg_len m) prev -> attach_atom m tok a prev i = Ok (m', idx, i') -> DSI m'.
Proof.
  intros [He Hk] Hp. unfold attach_atom. destruct (mg_add_atom m a _) as [m1 ix] eqn:Ea.
  assert (A1 : DSI m1 /\ ix = mg_len m /\ mg_len m1 = S (mg_len m)).
  { unfold mg_add_atom in Ea. inversion Ea; subst. unfold mg_len. cbn [m_atoms]. rewrite app_length. cbn [length]. split; [|split; [reflexivity|lia]].
    assert (Fresh : ds_lookup (m_ds m) (length (m_atoms m)) = None).
    { destruct (ds_lookup (m_ds m) (length (m_atoms m))) eqn:E; [|reflexivity]. assert (X : length (m_atoms m) < mg_len m) by (apply Hk; congruence). unfold mg_len in X. lia. }
    split; cbn [m_ds m_adj m_atoms].
    - assert (Mono : forall s d, linked (m_ds m) s d -> linked (if a_aromatic a then ds_set_empty (m_ds m) (mg_len m) else m_ds m) s d).
      { intros s d [A B]. destruct (a_aromatic a); [split; now apply listed_fresh|split; assumption]. }
      intros j row e Hn Hin. cbn [m_adj] in Hn. apply (pe_mono _ _ _ Mono). destruct (Nat.lt_ge_cases j (length (m_adj m))) as [Lt|G].
      + rewrite nth_error_app1 in Hn by exact Lt. exact (He _ _ _ Hn Hin).
      + rewrite nth_error_app2 in Hn by exact G. destruct (j - length (m_adj m)) as [|k]; cbn in Hn; [inversion Hn; subst; destruct Hin|destruct k; discriminate].
    - intros k Hl. unfold mg_len. cbn [m_atoms]. rewrite app_length. cbn [length]. destruct (a_aromatic a).
      + unfold ds_set_empty in Hl. destruct (Nat.eq_dec k (mg_len m)) as [->|Hne]; [unfold mg_len; lia|]. rewrite lookup_store_other in Hl by exact Hne. specialize (Hk k Hl). unfold mg_len in Hk. lia.
      + specialize (Hk k Hl). unfold mg_len in Hk. lia. }
  destruct A1 as (D1 & Eix & L1). subst ix.
  destruct (mg_add_attr_atom m1 (mg_len m) _) as [m2|] eqn:E2; cbn [bind]; [|discriminate].
  assert (D2 : DSI m2 /\ mg_len m2 = mg_len m1).
  { pose proof (add_attr_adj _ _ _ _ E2) as A2. pose proof (add_attr_atoms _ _ _ _ E2) as T2.
    assert (Dd : m_ds m2 = m_ds m1) by (unfold mg_add_attr_atom in E2; destruct (m_attributable m1); [destruct (lupd _ _ _); cbn [bind] in E2; [inversion E2; reflexivity|discriminate]|inversion E2; reflexivity]).
    assert (L : mg_len m2 = mg_len m1) by (unfold mg_len, atoms_of in *; apply (f_equal (@length atom)) in T2; rewrite !map_length in T2; exact T2).
    split; [|exact L]. destruct D1 as [X Y]. split; [rewrite Dd; exact (edge_same _ m1 m2 A2 X)|rewrite Dd, L; exact Y]. }
  destruct D2 as [D2 L2].
  destruct prev as [src|]; [|intro E; inversion E; subst; exact D2].
  pose proof (bond2_okord (t_bond tok)) as Ob. destruct (smiles_to_bond2 (t_bond tok)) as [o2 st]. cbn [fst] in Ob.
  destruct (mg_get_atom m2 src); cbn [bind]; [|discriminate].
  destruct (mg_add_bond m2 _ _ _ _ _) as [m3|] eqn:E3; cbn [bind]; [|discriminate].
  intro E; inversion E; subst. cbn [prev_in] in Hp. apply (add_bond_dsi _ _ _ _ _ _ _ D2) in E3; [exact E3| |lia|lia].
  destruct (_ && _); [right; left; reflexivity|exact Ob].
Qed.

Lemma step_dsi tok st st1 r1 : PInv st -> DSI (p_mol st) -> derive_loop [tok] st = Ok (st1, r1) -> DSI (p_mol st1).
Proof.
  intros [He Hr Hp Hl] Hd E. cbn [derive_loop] in E.
  destruct (p_prev st) as [|prev below]; [discriminate|]. inversion Hp as [|? ? Hp0 Hpb]; subst.
  destruct (t_type tok).
  - destruct (smiles_to_atom (t_text tok)) as [[a|]|]; cbn [bind] in E; try discriminate.
    destruct (attach_atom _ _ _ _ _) as [[[m' idx] i']|] eqn:Eat; cbn [bind] in E; [|discriminate]. inversion E; subst. cbn [p_mol].
    exact (attach_dsi _ _ _ _ _ _ _ _ Hd Hp0 Eat).
  - destruct (p_chain_start st); [discriminate|].
    destruct (str_eqb _ _); [inversion E; subst; exact Hd|]. destruct (p_branch st); [discriminate|]. inversion E; subst; exact Hd.
  - destruct (p_chain_start st); [discriminate|].
    destruct (ring_log_find _ _) as [[[ltok latom] lpos]|] eqn:Ef.
    + destruct (atom_index prev) as [ratom|] eqn:Ea; cbn [bind] in E; [|discriminate].
      destruct (make_ring_bonds _ _ _ _ _ _) as [m'|] eqn:Er; cbn [bind] in E; [|discriminate]. inversion E; subst. cbn [p_mol].
      assert (Hra : ratom < mg_len (p_mol st)) by (destruct prev; inversion Ea; subst; exact Hp0).
      assert (Hla : latom < mg_len (p_mol st)).
      { clear -Ef Hl. revert Hl Ef. generalize (mg_len (p_mol st)). intro n. induction (p_rings st) as [|[k v] rr IHr]; intros Hl Ef; cbn [ring_log_find] in Ef; [discriminate|].
        inversion Hl as [|? ? H1 H2]; subst. destruct (str_eqb _ _); [inversion Ef; subst; exact H1|exact (IHr H2 Ef)]. }
      exact (make_ring_dsi _ _ _ _ _ _ _ Hd Hla Hra Er).
    + destruct (atom_index prev) as [src|]; cbn [bind] in E; [|discriminate].
      destruct (mg_add_placeholder_bond _ _) as [[m' lpos]|] eqn:Epl; cbn [bind] in E; [|discriminate]. inversion E; subst. cbn [p_mol].
      exact (placeholder_dsi _ _ _ _ Hd Epl).
  - inversion E; subst. exact Hd.
Qed.

Lemma derive_loop_dsi : forall ts st st' rest, PInv st -> DSI (p_mol st) -> derive_loop ts st = Ok (st', rest) -> DSI (p_mol st').
Proof.
  induction ts as [|tok r IH]; intros st st' rest HP Hd E; [cbn in E; inversion E; subst; exact Hd|].
  destruct (t_type tok) eqn:Ety.
  1-3: rewrite derive_loop_cons in E by congruence;
       destruct (derive_loop [tok] st) as [[st1 r1]|] eqn:E1; cbn [bind fst] in E; [|discriminate];
       apply (IH st1 st' rest); [exact (derive_loop_pinv _ _ _ _ HP E1)|exact (step_dsi _ _ _ _ HP Hd E1)|exact E].
  cbn [derive_loop] in E. destruct (p_prev st); [discriminate|]. rewrite Ety in E. inversion E; subst. exact Hd.
Qed.

Lemma fragments_dsi : forall fuel m ts i m', GI m -> DSI m -> fragments_loop fuel m ts i = Ok m' -> DSI m'.
Proof.
  induction fuel as [|f IH]; intros m ts i m' [He Hr] Hd E; [discriminate|]. cbn [fragments_loop] in E.
  destruct ts as [|t r]; [inversion E; subst; exact Hd|].
  destruct (derive_mol_from_tokens m (t :: r) i) as [[[m1 i1] rest]|] eqn:Ed; cbn [bind] in E; [|discriminate].
  unfold derive_mol_from_tokens in Ed.
  destruct (derive_loop (t :: r) _) as [[st rest']|] eqn:El; cbn [bind] in Ed; [|discriminate].
  assert (HP : PInv {| p_mol := m; p_i := i; p_tok := None; p_prev := [None]; p_branch := []; p_rings := []; p_chain_start := true |}).
  { constructor; cbn [p_mol p_prev p_rings]; [exact He|exact Hr|constructor; [exact I|constructor]|constructor]. }
  pose proof (derive_loop_dsi _ _ _ _ HP Hd El) as D1. pose proof (derive_loop_pinv _ _ _ _ HP El) as [A B _ _].
  destruct (_ =? _); [discriminate|]. destruct (p_branch st); [|discriminate]. destruct (p_rings st); [|discriminate].
  inversion Ed; subst. exact (IH _ _ _ _ (conj A B) D1 E).
Qed.

Theorem parsed_dsi smiles attributable m : smiles_to_mol smiles attributable = Ok m -> DSI m.
Proof.
  unfold smiles_to_mol. destruct smiles as [|c s]; [discriminate|].
  destruct (tokenize_smiles (c :: s)) as [ts|]; cbn [bind]; [|discriminate].
  apply fragments_dsi.
  - split; [intros j row e Hn; destruct j; discriminate|constructor].
  - split; [intros j row e Hn; destruct j; discriminate|]. intros k Hk. unfold ds_lookup in Hk. cbn in Hk. destruct k; contradiction.
Qed.

(* ---------- kekulize lowers every listed pair ---------- *)
Definition P3 (m : emol) (pend : nat -> nat -> Prop) : Prop :=
  forall j row e, nth_error (m_adj m) j = Some row -> In (Some e) row -> e_order2 e = 3%Z -> pend j (e_dst e).
Definition OR (m : emol) : Prop := forall j row e, nth_error (m_adj m) j = Some row -> In (Some e) row -> okord (e_order2 e).

Lemma p3_weaken m (p q : nat -> nat -> Prop) : (forall j d, p j d -> q j d) -> P3 m p -> P3 m q.
Proof. intros H Hp j row e Hn Hin Ho. exact (H _ _ (Hp j row e Hn Hin Ho)). Qed.

(* what update_bond_order does to the edges *)
Lemma update_desc m a0 b0 o m' : mg_update_bond_order m a0 b0 o = Ok m' ->
  let a := Nat.min a0 b0 in let b := Nat.max a0 b0 in
  exists rowa ab, nth_error (m_adj m) a = Some rowa /\ find_edge rowa b = Some ab /\
    ((e_order2 ab = o /\ m' = m) \/
     (e_order2 ab <> o /\ forall j row' e', nth_error (m_adj m') j = Some row' -> In (Some e') row' ->
        exists row0 e0, nth_error (m_adj m) j = Some row0 /\ In (Some e0) row0 /\ e_dst e' = e_dst e0 /\
          e_order2 e' = (if (if e_ring ab then ((b =? j) && (e_dst e0 =? a)) || ((a =? j) && (e_dst e0 =? b)) else (a =? j) && (e_dst e0 =? b))
                         then o else e_order2 e0))).
Proof.
  unfold mg_update_bond_order. destruct (negb _); [discriminate|]. cbv zeta.
  set (a := Nat.min a0 b0). set (b := Nat.max a0 b0).
  destruct (mg_get_dirbond m a b) as [ab|] eqn:Eab; cbn [bind]; [|discriminate].
  unfold mg_get_dirbond, mg_find_dirbond in Eab. destruct (nth_error (m_adj m) a) as [rowa|] eqn:Era; [|discriminate].
  destruct (find_edge rowa b) as [x|] eqn:Ef; [|discriminate]. inversion Eab; subst x.
  destruct (Z.eqb_spec o (e_order2 ab)) as [Eo|No]; [intro E; inversion E; subst; exists rowa, ab; split; [reflexivity|]; split; [exact Ef|left; auto]|].
  match goal with |- (do adj1 <- ?X; _) = _ -> _ => destruct X as [adj1|] eqn:Ead end; cbn [bind]; [|discriminate].
  destruct (mg_add_count2 (set_adj m adj1) _ _) as [m1|] eqn:E1; cbn [bind]; [|discriminate].
  intro E2. apply add_count_adj in E1, E2. exists rowa, ab. split; [reflexivity|]. split; [exact Ef|]. right. split; [congruence|].
  intros j row' e' Hn Hi. rewrite E2, E1 in Hn. cbn [set_adj m_adj] in Hn.
  destruct (e_ring ab).
  - destruct (mg_get_dirbond m b a); cbn [bind] in Ead; [|discriminate]. inversion Ead; subst adj1.
    set (mm := set_adj m (upd (m_adj m) a (fun l => set_edge_order2 l b o))).
    destruct (upd_set_desc mm b a o j row' e' Hn Hi) as (r1 & e1 & Hn1 & Hi1 & Hd1 & Ho1). cbn [mm set_adj m_adj] in Hn1.
    destruct (upd_set_desc m a b o j r1 e1 Hn1 Hi1) as (r0 & e0 & Hn0 & Hi0 & Hd0 & Ho0). exists r0, e0. split; [exact Hn0|]. split; [exact Hi0|]. split; [congruence|].
    rewrite Ho1, Ho0, Hd0. destruct ((b =? j) && (e_dst e0 =? a)); cbn [orb]; reflexivity.
  - inversion Ead; subst adj1. exact (upd_set_desc m a b o j row' e' Hn Hi).
Qed.

(* a non-ring bond a -> b has no edge back *)
Lemma noback m a b rowa ab : RowP m -> RS m -> U m -> a <= b -> nth_error (m_adj m) a = Some rowa -> find_edge rowa b = Some ab -> e_ring ab = false ->
  forall rb1 e1, nth_error (m_adj m) b = Some rb1 -> In (Some e1) rb1 -> e_dst e1 = a -> False.
Proof.
  intros Hrow Hrs Hu Hab Era Ef Ering rb1 e1 Hn1 Hi1 Hd1. destruct (Hrow _ _ _ Hn1 Hi1) as [Hs1 Hf1]. destruct (e_ring e1) eqn:Er1.
  - destruct (Hrs b a) as (r2 & e2 & Hn2 & Hi2 & Hd2 & Hr2); [exists rb1, e1; auto|]. rewrite Era in Hn2. inversion Hn2; subst r2.
    destruct (In_pos _ _ (find_edge_In _ _ _ Ef)) as [p Hp]. destruct (In_pos _ _ Hi2) as [q Hq2].
    assert (p = q) by (apply (Hu a rowa p q ab e2 Era Hp Hq2); rewrite (find_edge_dst _ _ _ Ef); congruence). subst q. congruence.
  - specialize (Hf1 eq_refl). lia.
Qed.

Lemma update_pend m node adj o m' pend : Q4 m -> (o = 2 \/ o = 4)%Z -> P3 m pend -> OR m -> mg_update_bond_order m node adj o = Ok m' ->
  P3 m' pend /\ OR m' /\ (o = 2%Z -> P3 m' (fun j d => pend j d /\ ~ (j = node /\ d = adj))).
Proof.
  intros (Hrow & Hrs & Hu & Hq) Ho Hp Hor E. destruct (update_desc _ _ _ _ _ E) as (rowa & ab & Era & Ef & Cases). cbv zeta in Cases.
  set (a := Nat.min node adj) in *. set (b := Nat.max node adj) in *.
  pose proof (find_edge_In _ _ _ Ef) as Hab_in. pose proof (find_edge_dst _ _ _ Ef) as Hab_d.
  assert (Pair : (node = a /\ adj = b) \/ (node = b /\ adj = a)) by (unfold a, b; lia).
  destruct Cases as [[Eo ->]|[No D]].
  - split; [exact Hp|]. split; [exact Hor|]. intros E2 j row e Hn Hin H3. split; [exact (Hp j row e Hn Hin H3)|]. intros [-> Hd].
    destruct Pair as [[Pa Pb]|[Pa Pb]].
    + rewrite Pa in Hn. rewrite Era in Hn. inversion Hn; subst row. destruct (In_pos _ _ Hab_in) as [p Hp1]. destruct (In_pos _ _ Hin) as [q Hq1].
      assert (p = q) by (apply (Hu a rowa p q ab e Era Hp1 Hq1); congruence). subst q. assert (ab = e) by congruence. subst e. lia.
    + assert (X : e_order2 ab = e_order2 e) by (apply (Hq a b rowa row ab e Era Hab_in Hab_d); [rewrite <- Pa; exact Hn|exact Hin|congruence]). lia.
  - assert (Desc : forall j row' e', nth_error (m_adj m') j = Some row' -> In (Some e') row' -> e_order2 e' = 3%Z ->
              exists row0 e0, nth_error (m_adj m) j = Some row0 /\ In (Some e0) row0 /\ e_dst e' = e_dst e0 /\ e_order2 e0 = 3%Z /\
                (if e_ring ab then ((b =? j) && (e_dst e0 =? a)) || ((a =? j) && (e_dst e0 =? b)) else (a =? j) && (e_dst e0 =? b)) = false).
    { intros j row' e' Hn Hin H3. destruct (D j row' e' Hn Hin) as (row0 & e0 & Hn0 & Hi0 & Hd0 & Ho0). exists row0, e0.
      destruct (if e_ring ab then _ else _) eqn:Ech; [exfalso; rewrite Ho0 in H3; lia|]. rewrite Ho0 in H3. auto. }
    split; [|split].
    + intros j row' e' Hn Hin H3. destruct (Desc _ _ _ Hn Hin H3) as (row0 & e0 & Hn0 & Hi0 & Hd0 & H30 & _). rewrite Hd0. exact (Hp j row0 e0 Hn0 Hi0 H30).
    + intros j row' e' Hn Hin. destruct (D j row' e' Hn Hin) as (row0 & e0 & Hn0 & Hi0 & Hd0 & Ho0). rewrite Ho0.
      destruct (if e_ring ab then _ else _); [unfold okord; lia|exact (Hor j row0 e0 Hn0 Hi0)].
    + intros E2 j row' e' Hn Hin H3. destruct (Desc _ _ _ Hn Hin H3) as (row0 & e0 & Hn0 & Hi0 & Hd0 & H30 & Hch). rewrite Hd0.
      split; [exact (Hp j row0 e0 Hn0 Hi0 H30)|]. intros [-> Hd].
      destruct Pair as [[Pa Pb]|[Pa Pb]].
      * rewrite Pa, Pb in *. destruct (e_ring ab); rewrite Nat.eqb_refl in Hch; rewrite Hd, Nat.eqb_refl in Hch; cbn [andb orb] in Hch; [rewrite orb_true_r in Hch|]; discriminate.
      * rewrite Pa, Pb in *. destruct (e_ring ab) eqn:Ering.
        -- rewrite Nat.eqb_refl, Hd, Nat.eqb_refl in Hch. cbn [andb orb] in Hch. discriminate.
        -- exact (noback m a b rowa ab Hrow Hrs Hu ltac:(unfold a, b; lia) Era Ef Ering row0 e0 Hn0 Hi0 Hd).
Qed.

Lemma single_bonds_pend : forall adjs m node m' pend, Q4 m -> P3 m (fun j d => pend j d \/ (j = node /\ In d adjs)) -> OR m ->
  set_single_bonds m node adjs = Ok m' -> Q4 m' /\ P3 m' pend /\ OR m'.
Proof.
  induction adjs as [|x r IH]; intros m node m' pend HQ Hp Hor E; cbn [set_single_bonds] in E.
  - inversion E; subst. split; [exact HQ|]. split; [|exact Hor]. eapply p3_weaken; [|exact Hp]. intros j d [H|[_ []]]; exact H.
  - destruct (mg_update_bond_order m node x 2) as [m1|] eqn:E1; cbn [bind] in E; [|discriminate].
    destruct (update_pend _ _ _ _ _ _ HQ (or_introl eq_refl) Hp Hor E1) as (_ & Or1 & Hrem). specialize (Hrem eq_refl).
    apply (IH m1 node m' pend (update_order_q4 _ _ _ _ _ HQ E1)); [|exact Or1|exact E].
    eapply p3_weaken; [|exact Hrem]. cbv beta. intros j d H. destruct H as [[H|[Hj [Hd|Hd]]] Hn]; [now left|exfalso; apply Hn; split; congruence|right; auto].
Qed.

Lemma double_bonds_pend : forall pairs m l2n m', Q4 m -> P3 m (fun _ _ => False) -> OR m -> set_double_bonds m l2n pairs = Ok m' -> P3 m' (fun _ _ => False) /\ OR m'.
Proof.
  induction pairs as [|[i oj] r IH]; intros m l2n m' HQ Hp Hor E; cbn [set_double_bonds] in E; [inversion E; subst; auto|].
  destruct (lget l2n i); cbn [bind] in E; [|discriminate]. destruct oj as [j|]; [|discriminate].
  destruct (lget l2n j); cbn [bind] in E; [|discriminate].
  destruct (mg_update_bond_order m _ _ 4) as [m1|] eqn:E1; cbn [bind] in E; [|discriminate].
  destruct (update_pend _ _ _ _ _ _ HQ (or_intror eq_refl) Hp Hor E1) as (P1 & Or1 & _).
  exact (IH _ _ _ (update_order_q4 _ _ _ _ _ HQ E1) P1 Or1 E).
Qed.

Lemma dearomatize_pend : forall L m m', Q4 m -> P3 m (fun j d => exists adjs, In (j, adjs) L /\ In d adjs) -> OR m ->
  dearomatize m L = Ok m' -> Q4 m' /\ P3 m' (fun _ _ => False) /\ OR m'.
Proof.
  induction L as [|[node adjs] r IH]; intros m m' HQ Hp Hor E; cbn [dearomatize] in E.
  - inversion E; subst. split; [exact HQ|]. split; [|exact Hor]. eapply p3_weaken; [|exact Hp]. cbv beta. intros j d H. destruct H as (x & [] & _).
  - destruct (set_single_bonds m node adjs) as [m1|] eqn:E1; cbn [bind] in E; [|discriminate].
    destruct (lupd (m_atoms m1) _ _) as [atoms'|]; cbn [bind] in E; [|discriminate].
    destruct (lupd (m_counts2 m1) _ _) as [counts'|]; cbn [bind] in E; [|discriminate].
    destruct (single_bonds_pend adjs m node m1 (fun j d => exists adjs0, In (j, adjs0) r /\ In d adjs0) HQ) as (Q1 & P1 & Or1); [|exact Hor|exact E1|].
    + eapply p3_weaken; [|exact Hp]. cbv beta. intros j d H. destruct H as (x & [Hx|Hx] & Hd); [inversion Hx; subst; right; auto|left; eauto].
    + apply (IH (set_counts2 (set_atoms m1 atoms') counts') m' (q4_same m1 _ eq_refl Q1)); [exact P1|exact Or1|exact E].
Qed.

Lemma ds_items_in D j l : dsWF D -> ds_lookup D j = Some l -> In (j, l) (ds_items D).
Proof.
  intros W Hl. unfold ds_items. apply in_flat_map. exists j. split; [apply W; congruence|]. rewrite Hl. now left.
Qed.

Theorem kekulize_orders m m' : Q4 m -> DSI m -> dsWF (m_ds m) -> kekulize m = Ok (Some m') ->
  forall j row e, nth_error (m_adj m') j = Some row -> In (Some e) row -> (e_order2 e = 2 \/ e_order2 e = 4 \/ e_order2 e = 6)%Z.
Proof.
  intros HQ [He Hk] W. pose proof HQ as (Hrow & _).
  assert (Or0 : OR m) by (intros j row e Hn Hin; exact (proj1 (He j row e Hn Hin))).
  assert (Fin : forall mm, P3 mm (fun _ _ => False) -> OR mm -> forall j row e, nth_error (m_adj mm) j = Some row -> In (Some e) row -> (e_order2 e = 2 \/ e_order2 e = 4 \/ e_order2 e = 6)%Z).
  { intros mm Hp Ho j row e Hn Hin. destruct (Ho j row e Hn Hin) as [H|[H|[H|H]]]; auto. destruct (Hp j row e Hn Hin H). }
  unfold kekulize. destruct (ds_is_empty (m_ds m)) eqn:Ee.
  - intro E; inversion E; subst. apply Fin; [|exact Or0]. intros j row e Hn Hin H3. destruct (proj2 (He j row e Hn Hin) H3) as [(l & Hl & _) _].
    unfold ds_is_empty in Ee. assert (X : In (e_src e) (ds_keys (m_ds m'))) by (apply W; congruence). destruct (ds_keys (m_ds m')); [destruct X|discriminate].
  - destruct (any_bad_element _ _) as [bad|]; cbn [bind]; [|discriminate]. destruct bad; [discriminate|].
    destruct (kept_nodes_of _ _) as [kept|]; cbn [bind]; [|discriminate].
    destruct (pruned_ds_of _ _ _) as [pruned|]; cbn [bind]; [|discriminate].
    destruct (find_perfect_matching pruned) as [[mt|]|]; cbn [bind]; try discriminate.
    destruct (dearomatize m _) as [m1|] eqn:E1; cbn [bind]; [|discriminate].
    destruct (set_double_bonds m1 _ _) as [m2|] eqn:E2; cbn [bind]; [|discriminate].
    intro E; inversion E; subst. cbn [set_ds m_adj].
    destruct (dearomatize_pend (ds_items (m_ds m)) m m1 HQ) with (2 := Or0) (3 := E1) as (Q1 & P1 & Or1).
    + intros j row e Hn Hin H3. destruct (proj2 (He j row e Hn Hin) H3) as [(l & Hl & Hd) _]. rewrite (proj1 (Hrow _ _ _ Hn Hin)) in Hl.
      exists l. split; [exact (ds_items_in _ _ _ W Hl)|exact Hd].
    + destruct (double_bonds_pend _ _ _ _ Q1 P1 Or1 E2) as [P2 Or2]. exact (Fin m2 P2 Or2).
Qed.

(* ---------- hence: bond_to_smiles never sees an order other than 1, 2, 3 ---------- *)
Definition novalue (e : exn) : Prop := e <> ValueError.
Definition good3 (b : ebond) : Prop := (e_order2 b = 2 \/ e_order2 b = 4 \/ e_order2 b = 6)%Z.
Definition O3 (m : emol) : Prop := forall j row e, nth_error (m_adj m) j = Some row -> In (Some e) row -> good3 e.

Lemma ebond_novalue b e : good3 b -> ebond_to_smiles b = Err e -> novalue e.
Proof. unfold ebond_to_smiles, good3. intros [H|[H|H]]; rewrite H; cbn; discriminate. Qed.
Lemma bond_sel_novalue b sh e : good3 b -> bond_to_selfies b sh = Err e -> novalue e.
Proof. intro H. unfold bond_to_selfies. destruct (_ && _); [discriminate|now apply ebond_novalue]. Qed.
Lemma atom_smiles_novalue a br e : atom_to_smiles a br = Err e -> novalue e.
Proof. unfold atom_to_smiles. destruct (a_aromatic a); [intro H; inversion H; discriminate|]. destruct (a_isotope a), (a_chirality a), (a_hcount a), (a_charge a =? 0)%Z; discriminate. Qed.
Lemma atom_sel_novalue b a e : (forall b0, b = Some b0 -> good3 b0) -> atom_to_selfies b a = Err e -> novalue e.
Proof.
  intro Hb. unfold atom_to_selfies. destruct (a_aromatic a); [intro H; inversion H; discriminate|]. destruct b as [b0|]; cbn [bind].
  - destruct (bond_to_selfies b0 true) as [bc|e1] eqn:Eb; cbn [bind]; [|intro H; inversion H; subst; exact (bond_sel_novalue _ _ _ (Hb _ eq_refl) Eb)].
    destruct (atom_to_smiles a false) as [t|e2] eqn:Ea; cbn [bind]; [discriminate|intro H; inversion H; subst; exact (atom_smiles_novalue _ _ _ Ea)].
  - destruct (atom_to_smiles a false) as [t|e2] eqn:Ea; cbn [bind]; [discriminate|intro H; inversion H; subst; exact (atom_smiles_novalue _ _ _ Ea)].
Qed.
Lemma syms_novalue : forall ds e, syms_of_digits ds = Err e -> novalue e.
Proof.
  induction ds as [|d r IH]; intros e; cbn [syms_of_digits]; [discriminate|].
  destruct (nth_error index_alphabet (N.to_nat d)); [|intro H; inversion H; discriminate].
  destruct (syms_of_digits r) as [t|e1] eqn:E1; cbn [bind]; [discriminate|]. intro H; inversion H; subst. exact (IH _ eq_refl).
Qed.
Lemma index_novalue idx e : get_selfies_from_index idx = Err e -> novalue e.
Proof.
  unfold get_selfies_from_index. destruct (idx <? 0)%Z; [intro H; inversion H; discriminate|].
  destruct index_alphabet; [intro H; inversion H; discriminate|]. destruct (_ =? _)%N; [discriminate|apply syms_novalue].
Qed.
Lemma dirbond_novalue m s d e : mg_get_dirbond m s d = Err e -> novalue e.
Proof. unfold mg_get_dirbond. destruct (mg_find_dirbond m s d); [discriminate|]. intro H; inversion H; discriminate. Qed.
Lemma all_some_novalue l e : Encoder.all_some l = Err e -> novalue e.
Proof.
  induction l as [|[b|] r IH]; cbn [Encoder.all_some]; [discriminate| |intro H; inversion H; discriminate].
  destruct (Encoder.all_some r) as [t|e1]; cbn [bind]; [discriminate|]. intro H; inversion H; subst. now apply IH.
Qed.
Lemma lget_novalue {A} (l : list A) i e : lget l i = Err e -> novalue e.
Proof. unfold lget. destruct (nth_error l i); [discriminate|]. intro H; inversion H; discriminate. Qed.

Section Walk.
Variable m : emol.
Hypothesis Ho : O3 m.

Lemma out_loop_novalue (walk : ebond -> nat -> nat -> res (list str * list amap)) :
  forall bonds, (forall b ai o e, good3 b -> walk b ai o = Err e -> novalue e) -> Forall good3 bonds ->
  forall aidx off e, out_loop m walk bonds aidx off = Err e -> novalue e.
Proof.
  induction bonds as [|b rest IH]; intros Hw Hb aidx off e E; cbn [out_loop] in E; [discriminate|].
  inversion Hb as [|? ? Hb1 Hb']; subst.
  destruct (e_ring b) eqn:Ering.
  - destruct (e_src b <? e_dst b); [exact (IH Hw Hb' _ _ _ E)|].
    destruct (mg_get_dirbond m (e_dst b) (e_src b)) as [rv|e1] eqn:Erv; cbn [bind] in E; [|inversion E; subst; exact (dirbond_novalue _ _ _ _ Erv)].
    destruct (get_selfies_from_index _) as [Q|e1] eqn:EQ; cbn [bind] in E; [|inversion E; subst; exact (index_novalue _ _ EQ)].
    assert (Grv : good3 rv).
    { unfold mg_get_dirbond, mg_find_dirbond in Erv. destruct (nth_error (m_adj m) (e_dst b)) as [rowd|] eqn:Ed; [|discriminate].
      destruct (find_edge rowd (e_src b)) as [x|] eqn:Ef; [|discriminate]. inversion Erv; subst x. exact (Ho _ _ _ Ed (find_edge_In _ _ _ Ef)). }
    destruct (ring_bonds_to_selfies rv b) as [rs|e1] eqn:Er; cbn [bind] in E.
    + match type of E with (do _ <- ?X; _) = _ => destruct X as [[ts1 ms1]|e1] eqn:E1 end; cbn [bind] in E; [discriminate|].
      inversion E; subst. exact (IH Hw Hb' _ _ _ E1).
    + inversion E; subst. unfold ring_bonds_to_selfies in Er. destruct (negb (_ =? _)%Z) in Er; [inversion Er; discriminate|].
      destruct (_ || _) in Er; [exact (bond_sel_novalue _ _ _ Grv Er)|discriminate].
  - destruct rest as [|b2 rest2]; [exact (Hw _ _ _ _ Hb1 E)|].
    destruct (walk b off 0) as [[branch bmaps]|e1] eqn:Eb; cbn [bind] in E; [|inversion E; subst; exact (Hw _ _ _ _ Hb1 Eb)].
    destruct (get_selfies_from_index _) as [Q|e1] eqn:EQ; cbn [bind] in E; [|inversion E; subst; exact (index_novalue _ _ EQ)].
    destruct (bond_to_selfies b false) as [bs|e1] eqn:Ebs; cbn [bind] in E; [|inversion E; subst; exact (bond_sel_novalue _ _ _ Hb1 Ebs)].
    match type of E with (do _ <- ?X; _) = _ => destruct X as [[ts1 ms1]|e1] eqn:E1 end; cbn [bind] in E; [discriminate|].
    inversion E; subst. exact (IH Hw Hb' _ _ _ E1).
Qed.

Lemma walk_novalue : forall fuel b curr aidx off e, (forall b0, b = Some b0 -> good3 b0) -> fragment_walk fuel m b curr aidx off = Err e -> novalue e.
Proof.
  induction fuel as [|f IH]; intros b curr aidx off e Hb E; [inversion E; discriminate|]. cbn [fragment_walk] in E.
  destruct (mg_get_atom m curr) as [[a at_]|e1] eqn:Ea; cbn [bind fst snd] in E; [|inversion E; subst; exact (lget_novalue _ _ _ Ea)].
  destruct (atom_to_selfies b a) as [tok|e1] eqn:Et; cbn [bind fst] in E; [|inversion E; subst; exact (atom_sel_novalue _ _ _ Hb Et)].
  destruct (mg_get_out_dirbonds m curr) as [raw|e1] eqn:Eraw; cbn [bind] in E; [|inversion E; subst; exact (lget_novalue _ _ _ Eraw)].
  destruct (Encoder.all_some raw) as [bonds|e1] eqn:Eall; cbn [bind] in E; [|inversion E; subst; exact (all_some_novalue _ _ Eall)].
  match type of E with (do _ <- ?X; _) = _ => destruct X as [[ts1 ms1]|e1] eqn:E1 end; cbn [bind] in E; [discriminate|].
  inversion E; subst e1; clear E. unfold mg_get_out_dirbonds in Eraw. apply lget_In in Eraw.
  refine (out_loop_novalue _ _ (fun b0 ai o e0 Hg H => IH _ _ _ _ _ (fun b1 Hb1 => _) H) _ _ _ _ E1).
  - inversion Hb1; subst; exact Hg.
  - apply Forall_forall. intros b0 Hb0. unfold ring_bonds_first in Hb0. apply in_app_iff in Hb0. apply (Ho _ _ _ Eraw). apply (all_some_In' _ _ _ Eall). destruct Hb0 as [H|H]; apply filter_In in H; tauto.
Qed.

Lemma encode_roots_novalue : forall roots aidx e, encode_roots m roots aidx = Err e -> novalue e.
Proof.
  induction roots as [|r rest IH]; intros aidx e E; cbn [encode_roots] in E; [discriminate|].
  destruct (fragment_to_selfies m r aidx) as [[derived mp]|e1] eqn:Ef; cbn [bind] in E.
  - destruct (encode_roots m rest _) as [[frags' maps']|e1] eqn:Er; cbn [bind] in E; [discriminate|]. inversion E; subst. exact (IH _ _ Er).
  - inversion E; subst. unfold fragment_to_selfies in Ef. refine (walk_novalue _ _ _ _ _ _ _ Ef). discriminate.
Qed.
End Walk.

Lemma constraint_errors_novalue capf m : (forall el c e, capf el c = Err e -> novalue e) -> forall atoms idx e,
  bond_constraint_errors capf m atoms idx = Err e -> novalue e.
Proof.
  intro Hc. induction atoms as [|[a at_] r IH]; intros idx e E; cbn [bond_constraint_errors] in E; [discriminate|].
  unfold bonding_capacity_c in E. destruct (capf (a_element a) (a_charge a)) as [c|e1] eqn:Ec; cbn [bind] in E; [|inversion E; subst; exact (Hc _ _ _ Ec)].
  destruct (mg_get_bond_count2 m idx) as [c2|e1] eqn:Eb; cbn [bind] in E; [|inversion E; subst; exact (lget_novalue _ _ _ Eb)].
  destruct (_ <? _)%Z; [|exact (IH _ _ E)].
  destruct (atom_to_smiles a true) as [x|e1] eqn:Ea; cbn [bind] in E; [|inversion E; subst; exact (atom_smiles_novalue _ _ _ Ea)].
  destruct (bond_constraint_errors capf m r (S idx)) as [x2|e1] eqn:Er; cbn [bind] in E; [discriminate|inversion E; subst; exact (IH _ _ Er)].
Qed.

Lemma partition_novalue : forall bonds i e, partition_bonds bonds i = Err e -> novalue e.
Proof.
  induction bonds as [|[b|] r IH]; intros i e E; cbn [partition_bonds] in E; [discriminate| |inversion E; discriminate].
  destruct (partition_bonds r (S i)) as [[[p0 p1] p2]|e1] eqn:Ep; cbn [bind] in E; [|inversion E; subst; exact (IH _ _ Ep)].
  destruct (negb (e_ring b)); [discriminate|]. destruct (_ <? _); discriminate.
Qed.

Lemma invert_pass_novalue m : forall atoms idx e, invert_pass m atoms idx = Err e -> novalue e.
Proof.
  induction atoms as [|[a at_] r IH]; intros idx e E; cbn [invert_pass] in E; [discriminate|].
  match type of E with (do a' <- ?X; _) = _ => destruct X as [a'|e1] eqn:Ea end; cbn [bind] in E.
  - destruct (invert_pass m r (S idx)) as [rest|e1] eqn:Er; cbn [bind] in E; [discriminate|inversion E; subst; exact (IH _ _ Er)].
  - inversion E; subst e1; clear E. destruct (a_chirality a); [|discriminate].
    destruct (mg_has_out_ring_bond m idx) as [flag|e1] eqn:Ef; cbn [bind] in Ea; [|inversion Ea; subst; exact (lget_novalue _ _ _ Ef)].
    destruct flag; [|discriminate].
    destruct (should_invert_chirality m idx) as [inv|e1] eqn:Es; cbn [bind] in Ea; [discriminate|]. inversion Ea; subst e1.
    unfold should_invert_chirality in Es. destruct (mg_get_out_dirbonds m idx) as [ob|e2] eqn:Eo; cbn [bind] in Es; [|inversion Es; subst; exact (lget_novalue _ _ _ Eo)].
    destruct (partition_bonds ob 0) as [[[p0 p1] p2]|e2] eqn:Ep; cbn [bind] in Es; [discriminate|inversion Es; subst; exact (partition_novalue _ _ _ Ep)].
Qed.

Lemma capacity_novalue T el c e : get_bonding_capacity T el c = Err e -> novalue e.
Proof. unfold get_bonding_capacity. destruct (assoc _ T); [discriminate|]. destruct (assoc _ T); [discriminate|]. intro H; inversion H; discriminate. Qed.

Theorem encoder_after_kekulize_no_value_error T smiles strict attribute m0 m1 e :
  smiles_to_mol smiles attribute = Ok m0 -> kekulize m0 = Ok (Some m1) ->
  encoder T smiles strict attribute = Err e -> novalue e.
Proof.
  intros Ep Ek E. unfold encoder, encoder_c in E. rewrite Ep in E. unfold encode_mol in E. rewrite Ek in E. cbn [bind] in E.
  destruct (parsed_gue _ _ _ Ep) as (_ & _ & _ & Hrs & Hrow & _ & Hu & Hq).
  pose proof (kekulize_orders _ _ (conj Hrow (conj Hrs (conj Hu Hq))) (parsed_dsi _ _ _ Ep) (proj1 (parsed_aro _ _ _ Ep)) Ek) as O1.
  match type of E with (do _ <- ?X; _) = _ => destruct X as [u|e1] eqn:Ec end; cbn [bind] in E.
  - destruct (invert_pass m1 (m_atoms m1) 0) as [atoms'|e1] eqn:Ei; cbn [bind] in E; [|inversion E; subst; exact (invert_pass_novalue _ _ _ _ Ei)].
    destruct (encode_roots (set_atoms m1 atoms') _ 0) as [[frags maps]|e1] eqn:Er; cbn [bind] in E; [discriminate|].
    inversion E; subst. exact (encode_roots_novalue (set_atoms m1 atoms') O1 _ _ _ Er).
  - inversion E; subst e1; clear E. destruct strict; [|discriminate]. unfold check_bond_constraints in Ec.
    destruct (bond_constraint_errors _ m1 (m_atoms m1) 0) as [bad|e1] eqn:Eb; cbn [bind] in Ec.
    + destruct bad; [inversion Ec; discriminate|discriminate].
    + inversion Ec; subst. exact (constraint_errors_novalue _ _ (capacity_novalue T) _ _ _ Eb).
Qed.

Theorem parsed_kekulize_orders smiles attribute m0 m1 :
  smiles_to_mol smiles attribute = Ok m0 -> kekulize m0 = Ok (Some m1) ->
  forall j row e, nth_error (m_adj m1) j = Some row -> In (Some e) row -> (e_order2 e = 2 \/ e_order2 e = 4 \/ e_order2 e = 6)%Z.
Proof.
  intros Ep Ek. destruct (parsed_gue _ _ _ Ep) as (_ & _ & _ & Hrs & Hrow & _ & Hu & Hq).
  exact (kekulize_orders _ _ (conj Hrow (conj Hrs (conj Hu Hq))) (parsed_dsi _ _ _ Ep) (proj1 (parsed_aro _ _ _ Ep)) Ek).
Qed.
