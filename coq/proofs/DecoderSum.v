(* DecoderSum.v — the bond counters of the decoder's graph ARE the sums of the
   orders of the bonds at each atom (C01): together with DecoderInv.v this gives
   "sum of bond orders at every atom <= its bonding capacity" for every graph the
   decoder builds.  The invariant also says that no two bonds of an atom lead to
   the same neighbour and that ring bonds are stored at both ends with one order. *)
From Coq Require Import Ascii String List Arith ZArith NArith Bool Lia Permutation.
Import ListNotations.
From Selfies Require Import Base Generated Lex Atoms Grammar Compat Decoder BaseFacts StateFacts DecoderBasics ConfigFacts DecoderInv DecoderTree.
Local Open Scope Z_scope.

(* ---------- sums ---------- *)
Fixpoint zsum {A} (f : A -> Z) (l : list A) : Z :=
  match l with [] => 0 | x :: r => f x + zsum f r end.

Lemma zsum_app {A} (f : A -> Z) l1 l2 : zsum f (l1 ++ l2) = zsum f l1 + zsum f l2.
Proof. induction l1 as [|x l1 IH]; cbn [zsum app]; lia. Qed.

Lemma zsum_perm {A} (f : A -> Z) l1 l2 : Permutation l1 l2 -> zsum f l1 = zsum f l2.
Proof. induction 1; cbn [zsum]; lia. Qed.

Lemma zsum_zero {A} (f : A -> Z) l : (forall x, In x l -> f x = 0) -> zsum f l = 0.
Proof. induction l as [|x l IH]; intro H; cbn [zsum]; [reflexivity|]. rewrite (H x (or_introl eq_refl)), IH; [reflexivity|]. intros y Hy. apply H. now right. Qed.

Lemma zsum_nonneg {A} (f : A -> Z) l : (forall x, In x l -> 0 <= f x) -> 0 <= zsum f l.
Proof. induction l as [|x l IH]; intro H; cbn [zsum]; [lia|]. pose proof (H x (or_introl eq_refl)). assert (0 <= zsum f l) by (apply IH; intros y Hy; apply H; now right). lia. Qed.

Lemma zsum_zero_inv {A} (f : A -> Z) l : (forall x, In x l -> 0 <= f x) -> zsum f l = 0 -> forall x, In x l -> f x = 0.
Proof.
  induction l as [|y l IH]; intros Hnn Hz x Hx; [destruct Hx|]. cbn [zsum] in Hz.
  pose proof (Hnn y (or_introl eq_refl)) as Hy.
  assert (Hl : 0 <= zsum f l) by (apply zsum_nonneg; intros z Hz'; apply Hnn; now right).
  destruct Hx as [<-|Hx]; [lia|]. apply IH; auto; [intros z Hz'; apply Hnn; now right|lia].
Qed.

Lemma zsum_upd {A} (f : A -> Z) (l : list A) k g d : (k < length l)%nat ->
  zsum f (upd l k g) = zsum f l - f (nth k l d) + f (g (nth k l d)).
Proof.
  revert k. induction l as [|x l IH]; intros [|k] H; cbn [length] in H; try lia; cbn [upd zsum nth].
  - lia.
  - rewrite IH by lia. lia.
Qed.

Lemma NoDup_app_single {A} (l : list A) x : NoDup l -> ~ In x l -> NoDup (l ++ [x]).
Proof.
  intros H Hx. induction H as [|y l Hy H IH]; cbn; [constructor; [intros []|constructor]|].
  constructor; [|apply IH; intro; apply Hx; now right].
  intro Hin. apply in_app_iff in Hin as [Hin|[<-|[]]]; [contradiction|]. apply Hx. now left.
Qed.

(* ---------- valence of an atom in the graph ---------- *)
Definition inw (i : nat) (e : dbond) : Z := if negb (b_ring e) && Nat.eqb (b_dst e) i then b_order e else 0.
Definition osum (l : list dbond) : Z := zsum b_order l.
Definition isum (rows : list (list dbond)) (i : nat) : Z := zsum (fun l => zsum (inw i) l) rows.
(* bonds stored at i (to children, and ring bonds) + the tree bond stored at its parent *)
Definition valence (m : dmol) (i : nat) : Z := osum (row m i) + isum (adj m) i.

Record SumInv (m : dmol) : Prop := {
  si_val : forall i, (i < natoms m)%nat -> cnt m i = valence m i;
  si_nodup : forall i, NoDup (map b_dst (row m i));
  si_sym : forall i e, In e (row m i) -> b_ring e = true ->
           exists e', In e' (row m (b_dst e)) /\ b_dst e' = i /\ b_order e' = b_order e /\ b_ring e' = true
}.

Section Prims.
Variable P : atom -> Z -> Prop.
Notation WF := (MolWF P SumInv).

Lemma In_rows m l : In l (adj m) -> exists j, (j < length (adj m))%nat /\ l = row m j.
Proof. intro H. destruct (In_nth _ _ [] H) as (j & Hj & E). exists j. split; [exact Hj|]. unfold row. now rewrite E. Qed.

Lemma row_in_adj m j : (j < length (adj m))%nat -> In (row m j) (adj m).
Proof. intro H. unfold row. now apply nth_In. Qed.

Lemma inw_nonneg m j e i : WF m -> In e (row m j) -> 0 <= inw i e.
Proof. intros Hm He. destruct (wf_bonds _ _ _ Hm j e He) as (_ & Ho & _). unfold inw. destruct (_ && _); lia. Qed.

Lemma isum_zero_of m i : (forall j e, In e (row m j) -> b_ring e = false -> b_dst e <> i) -> isum (adj m) i = 0.
Proof.
  intro H. unfold isum. apply zsum_zero. intros l Hl. destruct (In_rows m l Hl) as (j & _ & ->).
  apply zsum_zero. intros e He. unfold inw. destruct (b_ring e) eqn:Er; [reflexivity|]. cbn [negb andb].
  destruct (Nat.eqb_spec (b_dst e) i) as [E|]; [|reflexivity]. exfalso. exact (H j e He Er E).
Qed.

(* an atom whose counter is 0 has no bond at all *)
Lemma fresh_of_zero m i : WF m -> (i < natoms m)%nat -> cnt m i = 0 ->
  row m i = [] /\ forall j e, In e (row m j) -> b_dst e <> i.
Proof.
  intros Hm Hi Hz. pose proof (wf_extra _ _ _ Hm) as [Hv Hnd Hsy].
  rewrite (Hv i Hi) in Hz. unfold valence in Hz.
  assert (H1 : 0 <= osum (row m i)).
  { apply zsum_nonneg. intros e He. destruct (wf_bonds _ _ _ Hm i e He) as (_ & Ho & _). lia. }
  assert (H2 : 0 <= isum (adj m) i).
  { apply zsum_nonneg. intros l Hl. destruct (In_rows m l Hl) as (j & _ & ->). apply zsum_nonneg. intros e He. eapply inw_nonneg; eassumption. }
  assert (Hrow : row m i = []).
  { destruct (row m i) as [|e r] eqn:E; [reflexivity|]. exfalso.
    assert (He : In e (row m i)) by (rewrite E; now left).
    destruct (wf_bonds _ _ _ Hm i e He) as (_ & Ho & _).
    assert (0 <= zsum b_order r).
    { apply zsum_nonneg. intros y Hy. assert (Hy' : In y (row m i)) by (rewrite E; now right).
      destruct (wf_bonds _ _ _ Hm i y Hy') as (_ & Ho' & _). lia. }
    unfold osum in *. cbn [zsum] in *. lia. }
  split; [exact Hrow|].
  intros j e He Hd. destruct (b_ring e) eqn:Er.
  - destruct (Hsy j e He Er) as (e' & He' & _). rewrite Hd, Hrow in He'. destruct He'.
  - assert (Hj : (j < length (adj m))%nat).
    { destruct (Nat.lt_ge_cases j (length (adj m))) as [L|L]; [exact L|]. unfold row in He. rewrite nth_overflow in He by exact L. destruct He. }
    assert (Z0 : isum (adj m) i = 0) by lia.
    pose proof (zsum_zero_inv (fun l => zsum (inw i) l) (adj m)) as ZI.
    assert (Zr : zsum (inw i) (row m j) = 0).
    { apply ZI; [|exact Z0|now apply row_in_adj].
      intros l Hl. destruct (In_rows m l Hl) as (j' & _ & ->). apply zsum_nonneg. intros y Hy. eapply inw_nonneg; eassumption. }
    pose proof (zsum_zero_inv (inw i) (row m j)) as ZJ.
    assert (Ze : inw i e = 0) by (apply ZJ; [intros y Hy; eapply inw_nonneg; eassumption|exact Zr|exact He]).
    unfold inw in Ze. rewrite Er, Hd, Nat.eqb_refl in Ze. cbn in Ze.
    destruct (wf_bonds _ _ _ Hm j e He) as (_ & Ho & _). lia.
Qed.

(* ---------- empty graph, add_atom ---------- *)
Lemma sum_empty : SumInv empty_mol.
Proof.
  constructor.
  - intros i H. cbn in H. lia.
  - intros [|i]; cbn; constructor.
  - intros [|i] e H; destruct H.
Qed.

Lemma sum_add_atom m a cap at_ root : WF m -> SumInv (fst (add_atom m a cap at_ root)).
Proof.
  intro Hm. pose proof (wf_extra _ _ _ Hm) as [Hv Hnd Hsy].
  pose proof (wf_adj _ _ _ Hm) as Ha. pose proof (wf_cnt _ _ _ Hm) as Hc.
  set (m' := fst (add_atom m a cap at_ root)).
  assert (Hrow : forall j, row m' j = row m j).
  { intro j. unfold row, m'. cbn [add_atom fst adj].
    destruct (Nat.lt_ge_cases j (length (adj m))) as [L|L]; [now rewrite app_nth1|].
    rewrite (nth_overflow (adj m)) by exact L. rewrite app_nth2 by exact L.
    destruct (j - length (adj m))%nat as [|[|k]]; reflexivity. }
  assert (Hval : forall i, valence m' i = valence m i).
  { intro i. unfold valence. rewrite Hrow. f_equal. unfold isum, m'. cbn [add_atom fst adj]. rewrite zsum_app. cbn [zsum]. lia. }
  constructor.
  - intros i Hi. rewrite Hval. unfold cnt, m', natoms in *. cbn [add_atom fst counts atoms] in *. rewrite app_length in Hi. cbn [length] in Hi.
    destruct (Nat.lt_ge_cases i (length (atoms m))) as [L|L].
    + rewrite app_nth1 by (rewrite Hc; exact L). now apply Hv.
    + assert (i = length (atoms m)) by lia. subst i. rewrite app_nth2 by (rewrite Hc; unfold natoms; lia).
      rewrite Hc. unfold natoms. rewrite Nat.sub_diag. cbn [nth]. unfold valence.
      rewrite (row_nil_out m (length (atoms m))) by (rewrite Ha; unfold natoms; lia). unfold osum. cbn [zsum].
      rewrite isum_zero_of; [reflexivity|]. intros j e He _ Hd. destruct (wf_bonds _ _ _ Hm j e He) as (B1 & _). unfold natoms in B1. lia.
  - intro i. rewrite Hrow. apply Hnd.
  - intros i e He Hr. rewrite Hrow in *. exact (Hsy i e He Hr).
Qed.

(* ---------- add_bond ---------- *)
Lemma sum_add_bond m src dst order st at_ m' : WF m -> (src < dst)%nat -> (dst < natoms m)%nat ->
  1 <= order <= 3 -> nth dst (counts m) 0 = 0 -> add_bond m src dst order st at_ = Ok m' -> SumInv m'.
Proof.
  intros Hm Hlt Hd Ho Hz E. pose proof (wf_extra _ _ _ Hm) as [Hv Hnd Hsy].
  pose proof (wf_adj _ _ _ Hm) as Ha. pose proof (wf_cnt _ _ _ Hm) as Hc.
  destruct (fresh_of_zero m dst Hm Hd Hz) as [Hrd Hfresh].
  unfold add_bond in E. destruct (negb (src <? dst)%nat); [discriminate|].
  destruct (negb _); [discriminate|]. injection E as E'.
  set (b := {| b_src := src; b_dst := dst; b_order := order; b_stereo := st; b_ring := false; b_attr := at_ |}) in *.
  assert (Hs : (src < length (adj m))%nat) by lia.
  assert (Hrow : forall i, row m' i = if Nat.eqb i src then row m i ++ [b] else row m i).
  { intro i. unfold row. rewrite <- E'. cbn [adj]. rewrite nth_upd, (Nat.eqb_sym src i).
    destruct (Nat.eqb_spec i src) as [->|]; cbn [andb]; [|reflexivity].
    assert (X : (src <? length (adj m))%nat = true) by (apply Nat.ltb_lt; lia). now rewrite X. }
  assert (Hcnt : forall i, cnt m' i = if Nat.eqb i src || Nat.eqb i dst then cnt m i + order else cnt m i).
  { intro i. unfold cnt. rewrite <- E'. cbn [counts]. rewrite !nth_upd, !upd_length.
    rewrite (Nat.eqb_sym dst i), (Nat.eqb_sym src i).
    assert (Xs : (src <? length (counts m))%nat = true) by (apply Nat.ltb_lt; lia).
    assert (Xd : (dst <? length (counts m))%nat = true) by (apply Nat.ltb_lt; lia).
    destruct (Nat.eqb_spec i src) as [E1'|N1]; destruct (Nat.eqb_spec i dst) as [E2'|N2]; cbn [andb orb].
    - exfalso. lia.
    - subst i. now rewrite Xs.
    - subst i. now rewrite Xd.
    - reflexivity. }
  assert (His : forall i, isum (adj m') i = isum (adj m) i + inw i b).
  { intro i. rewrite <- E'. cbn [adj]. unfold isum. rewrite (zsum_upd _ _ _ _ []) by exact Hs.
    fold (row m src). rewrite zsum_app. cbn [zsum]. lia. }
  assert (Hinw : forall i, inw i b = if Nat.eqb i dst then order else 0).
  { intro i. unfold inw, b. cbn. now rewrite (Nat.eqb_sym dst i). }
  assert (Hn : natoms m' = natoms m) by (unfold natoms; rewrite <- E'; reflexivity).
  constructor.
  - intros i Hi. rewrite Hn in Hi. rewrite Hcnt. unfold valence. rewrite His, Hinw, Hrow.
    pose proof (Hv i Hi) as Hvi. unfold valence in Hvi.
    destruct (Nat.eqb_spec i src) as [E1|N1]; destruct (Nat.eqb_spec i dst) as [E2|N2]; cbn [orb]; try (exfalso; lia).
    + unfold osum in *. rewrite zsum_app. cbn [zsum b_order b]. lia.
    + lia.
    + lia.
  - intro i. rewrite Hrow. destruct (Nat.eqb i src); [|apply Hnd].
    rewrite map_app. cbn [map b_dst b]. apply NoDup_app_single; [apply Hnd|].
    intro Hin. apply in_map_iff in Hin as (e & Ed & He). exact (Hfresh _ _ He Ed).
  - intros i e He Hr. rewrite Hrow in He.
    assert (Hold : In e (row m i) -> exists e', In e' (row m' (b_dst e)) /\ b_dst e' = i /\ b_order e' = b_order e /\ b_ring e' = true).
    { intro He0. destruct (Hsy i e He0 Hr) as (e' & He' & R). exists e'. split; [|exact R].
      rewrite Hrow. destruct (Nat.eqb (b_dst e) src); [apply in_app_iff; now left|exact He']. }
    destruct (Nat.eqb i src); [|now apply Hold].
    apply in_app_iff in He as [He|[<-|[]]]; [now apply Hold|]. cbn in Hr. discriminate.
Qed.


(* ---------- add_ring_bond ---------- *)
Lemma insert_at_perm {A} : forall (l : list A) pos x, Permutation (x :: l) (insert_at l pos x).
Proof.
  induction l as [|y l IH]; intros [|pos] x; cbn [insert_at]; try apply Permutation_refl.
  eapply perm_trans; [apply perm_swap|]. apply perm_skip. apply IH.
Qed.

Lemma add_at_loc_perm l pos b l' : add_at_loc l pos b = Ok l' -> Permutation (b :: l) l'.
Proof.
  unfold add_at_loc. destruct (pos =? length l)%nat.
  - intro E. injection E as <-. apply Permutation_cons_append.
  - destruct (pos <? length l)%nat; [|discriminate]. intro E. injection E as <-. apply insert_at_perm.
Qed.

Lemma no_bond_of_has_bond m l rr : (l < rr)%nat -> has_bond m l rr = false -> forall e, In e (row m l) -> b_dst e <> rr.
Proof.
  intros Hlt H e He Hd. unfold has_bond in H. replace (Nat.min l rr) with l in H by lia. replace (Nat.max l rr) with rr in H by lia.
  unfold find_bond in H. fold (row m l) in H. destruct (find _ (row m l)) eqn:Ef; [discriminate|].
  eapply find_none in Ef; [|exact He]. cbn in Ef. rewrite Hd, Nat.eqb_refl in Ef. discriminate.
Qed.

Lemma sum_add_ring m l rr order sa sb pl pr m' : WF m -> (l < rr)%nat -> (rr < natoms m)%nat -> 1 <= order <= 3 ->
  has_bond m l rr = false -> add_ring_bond m l rr order sa sb pl pr = Ok m' -> SumInv m'.
Proof.
  intros Hm Hlt Hrn Ho Hnb E. pose proof (wf_extra _ _ _ Hm) as [Hv Hnd Hsy].
  pose proof (wf_adj _ _ _ Hm) as Ha. pose proof (wf_cnt _ _ _ Hm) as Hc.
  pose proof (no_bond_of_has_bond m l rr Hlt Hnb) as Hno.
  assert (Hno2 : forall e, In e (row m rr) -> b_dst e <> l).
  { intros e He Hd. destruct (wf_bonds _ _ _ Hm rr e He) as (_ & _ & B3 & _). destruct (b_ring e) eqn:Er.
    - destruct (Hsy rr e He Er) as (e' & He' & Hd' & _). rewrite Hd in He'. exact (Hno e' He' Hd').
    - specialize (B3 eq_refl). lia. }
  unfold add_ring_bond in E.
  set (ba := {| b_src := l; b_dst := rr; b_order := order; b_stereo := sa; b_ring := true; b_attr := None |}) in *.
  set (bb := {| b_src := rr; b_dst := l; b_order := order; b_stereo := sb; b_ring := true; b_attr := None |}) in *.
  destruct (nth_error (adj m) l) as [la|] eqn:Ela; [|discriminate].
  assert (Hla : la = row m l) by (unfold row; now rewrite (nth_error_nth _ _ [] Ela)). subst la.
  destruct (add_at_loc (row m l) pl ba) as [la'|] eqn:Ela'; cbn [bind] in E; [|discriminate].
  rewrite nth_error_upd_other in E by lia.
  destruct (nth_error (adj m) rr) as [lb|] eqn:Elb; [|discriminate].
  assert (Hlb : lb = row m rr) by (unfold row; now rewrite (nth_error_nth _ _ [] Elb)). subst lb.
  destruct (add_at_loc (row m rr) pr bb) as [lb'|] eqn:Elb'; cbn [bind] in E; [|discriminate].
  injection E as E'.
  pose proof (add_at_loc_perm _ _ _ _ Ela') as Pa. pose proof (add_at_loc_perm _ _ _ _ Elb') as Pb.
  assert (Hrow : forall j, row m' j = if Nat.eqb j l then la' else if Nat.eqb j rr then lb' else row m j).
  { intro j. unfold row. rewrite <- E'. cbn [adj]. rewrite !nth_upd, !upd_length, Ha.
    rewrite (Nat.eqb_sym rr j), (Nat.eqb_sym l j).
    assert (Xl : (l <? natoms m)%nat = true) by (apply Nat.ltb_lt; lia).
    assert (Xr : (rr <? natoms m)%nat = true) by (apply Nat.ltb_lt; lia).
    destruct (Nat.eqb_spec j rr) as [E1'|N1']; destruct (Nat.eqb_spec j l) as [E2'|N2']; cbn [andb].
    - exfalso. lia.
    - subst j. now rewrite Xr.
    - subst j. now rewrite Xl.
    - reflexivity. }
  assert (Hcnt : forall j, cnt m' j = if Nat.eqb j l || Nat.eqb j rr then cnt m j + order else cnt m j).
  { intro j. unfold cnt. rewrite <- E'. cbn [counts]. rewrite !nth_upd, !upd_length, Hc.
    rewrite (Nat.eqb_sym rr j), (Nat.eqb_sym l j).
    assert (Xl : (l <? natoms m)%nat = true) by (apply Nat.ltb_lt; lia).
    assert (Xr : (rr <? natoms m)%nat = true) by (apply Nat.ltb_lt; lia).
    destruct (Nat.eqb_spec j rr) as [E1'|N1']; destruct (Nat.eqb_spec j l) as [E2'|N2']; cbn [andb orb].
    - exfalso. lia.
    - subst j. now rewrite Xr.
    - subst j. now rewrite Xl.
    - reflexivity. }
  assert (His : forall i, isum (adj m') i = isum (adj m) i).
  { intro i. rewrite <- E'. cbn [adj]. unfold isum.
    rewrite (zsum_upd _ _ _ _ []) by (rewrite upd_length; lia).
    rewrite (zsum_upd _ _ _ _ []) by lia.
    rewrite nth_upd. assert (X : Nat.eqb l rr = false) by (apply Nat.eqb_neq; lia). rewrite X. cbn [andb].
    fold (row m l). fold (row m rr).
    rewrite <- (zsum_perm (inw i) _ _ Pa), <- (zsum_perm (inw i) _ _ Pb). cbn [zsum].
    assert (Za : inw i ba = 0) by reflexivity. assert (Zb : inw i bb = 0) by reflexivity. rewrite Za, Zb. lia. }
  assert (Hn : natoms m' = natoms m) by (unfold natoms; rewrite <- E'; reflexivity).
  assert (Hgrow : forall j y, In y (row m j) -> In y (row m' j)).
  { intros j y Hy. rewrite Hrow. destruct (Nat.eqb_spec j l) as [->|]; [eapply Permutation_in; [exact Pa|now right]|].
    destruct (Nat.eqb_spec j rr) as [->|]; [eapply Permutation_in; [exact Pb|now right]|exact Hy]. }
  constructor.
  - intros i Hi. rewrite Hn in Hi. rewrite Hcnt. unfold valence. rewrite His, Hrow.
    pose proof (Hv i Hi) as Hvi. unfold valence in Hvi.
    destruct (Nat.eqb_spec i l) as [E1|N1]; destruct (Nat.eqb_spec i rr) as [E2|N2]; cbn [orb]; try (exfalso; lia).
    + subst i. unfold osum in *. rewrite <- (zsum_perm b_order _ _ Pa). cbn [zsum ba b_order]. lia.
    + subst i. unfold osum in *. rewrite <- (zsum_perm b_order _ _ Pb). cbn [zsum bb b_order]. lia.
    + lia.
  - intro i. rewrite Hrow. destruct (Nat.eqb_spec i l) as [->|N1]; [|destruct (Nat.eqb_spec i rr) as [->|N2]; [|apply Hnd]].
    + eapply Permutation_NoDup; [apply Permutation_map; exact Pa|]. cbn [map ba b_dst]. constructor; [|apply Hnd].
      intro Hin. apply in_map_iff in Hin as (e & Ed & He). exact (Hno e He Ed).
    + eapply Permutation_NoDup; [apply Permutation_map; exact Pb|]. cbn [map bb b_dst]. constructor; [|apply Hnd].
      intro Hin. apply in_map_iff in Hin as (e & Ed & He). exact (Hno2 e He Ed).
  - intros i e He Hr.
    assert (Hold : In e (row m i) -> exists e', In e' (row m' (b_dst e)) /\ b_dst e' = i /\ b_order e' = b_order e /\ b_ring e' = true).
    { intro He0. destruct (Hsy i e He0 Hr) as (e' & He' & R). exists e'. split; [now apply Hgrow|exact R]. }
    rewrite Hrow in He. destruct (Nat.eqb_spec i l) as [E1|N1].
    + subst i. apply (Permutation_in _ (Permutation_sym Pa)) in He as [<-|He]; [|now apply Hold].
      exists bb. split; [|repeat split]. cbn [ba b_dst]. rewrite Hrow.
      assert (X : Nat.eqb rr l = false) by (apply Nat.eqb_neq; lia). rewrite X, Nat.eqb_refl.
      eapply Permutation_in; [exact Pb|now left].
    + destruct (Nat.eqb_spec i rr) as [E2|N2]; [|now apply Hold].
      subst i. apply (Permutation_in _ (Permutation_sym Pb)) in He as [<-|He]; [|now apply Hold].
      exists ba. split; [|repeat split]. cbn [bb b_dst]. rewrite Hrow, Nat.eqb_refl.
      eapply Permutation_in; [exact Pa|now left].
Qed.


(* ---------- update_bond_order ---------- *)
Definition setord (e : dbond) (new : Z) : dbond :=
  {| b_src := b_src e; b_dst := b_dst e; b_order := new; b_stereo := b_stereo e; b_ring := b_ring e; b_attr := b_attr e |}.

Lemma set_order_map l d new : set_order l d new = map (fun e => if Nat.eqb (b_dst e) d then setord e new else e) l.
Proof. reflexivity. Qed.

Lemma set_order_dsts l d new : map b_dst (set_order l d new) = map b_dst l.
Proof. rewrite set_order_map, map_map. apply map_ext. intro e. destruct (Nat.eqb (b_dst e) d); reflexivity. Qed.

Lemma set_order_id l d new : (forall y, In y l -> b_dst y <> d) -> set_order l d new = l.
Proof.
  intro H. rewrite set_order_map. rewrite <- (map_id l) at 2. apply map_ext_in. intros y Hy.
  destruct (Nat.eqb_spec (b_dst y) d) as [E|]; [exfalso; exact (H y Hy E)|reflexivity].
Qed.

Lemma nodup_dst_eq l x y : NoDup (map b_dst l) -> In x l -> In y l -> b_dst x = b_dst y -> x = y.
Proof.
  induction l as [|z l IH]; intros Hnd Hx Hy E; [destruct Hx|]. cbn [map] in Hnd. inversion Hnd as [|? ? Hz Hnd']; subst.
  destruct Hx as [<-|Hx]; destruct Hy as [<-|Hy]; auto.
  - exfalso. apply Hz. rewrite E. now apply in_map.
  - exfalso. apply Hz. rewrite <- E. now apply in_map.
Qed.

Lemma zsum_set_order (f : dbond -> Z) l d new e : NoDup (map b_dst l) -> In e l -> b_dst e = d ->
  zsum f (set_order l d new) = zsum f l - f e + f (setord e new).
Proof.
  induction l as [|x l IH]; intros Hnd He Hd; [destruct He|]. cbn [map] in Hnd. inversion Hnd as [|? ? Hx Hnd']; subst.
  rewrite set_order_map. cbn [map zsum]. rewrite <- set_order_map.
  destruct (Nat.eqb_spec (b_dst x) (b_dst e)) as [E|N].
  - assert (x = e) by (apply (nodup_dst_eq (x :: l)); [exact Hnd|now left|exact He|exact E]). subst x.
    rewrite set_order_id; [lia|]. intros y Hy Ey. apply Hx. rewrite <- Ey. now apply in_map.
  - destruct He as [->|He]; [congruence|]. rewrite (IH Hnd' He eq_refl). lia.
Qed.

Lemma In_set_order_inv l d new y : In y (set_order l d new) ->
  exists e0, In e0 l /\ y = (if Nat.eqb (b_dst e0) d then setord e0 new else e0).
Proof. rewrite set_order_map. intro H. apply in_map_iff in H as (e0 & <- & H). eauto. Qed.

Lemma In_set_order_img l d new e0 : In e0 l -> In (if Nat.eqb (b_dst e0) d then setord e0 new else e0) (set_order l d new).
Proof. intro H. rewrite set_order_map. apply in_map_iff. eauto. Qed.

Lemma sum_upd m l rr new m' : WF m -> (l < rr)%nat -> (rr < natoms m)%nat -> 1 <= new <= 3 ->
  update_bond_order m l rr new = Ok m' -> SumInv m'.
Proof.
  intros Hm Hlt Hrn Hnew E. pose proof (wf_extra _ _ _ Hm) as SI. pose proof SI as [Hv Hnd Hsy].
  pose proof (wf_adj _ _ _ Hm) as Ha. pose proof (wf_cnt _ _ _ Hm) as Hc.
  unfold update_bond_order in E. destruct (negb _); [discriminate|].
  replace (Nat.min l rr) with l in E by lia. replace (Nat.max l rr) with rr in E by lia.
  destruct (find_bond m l rr) as [e|] eqn:Ef; [|discriminate].
  destruct (new =? b_order e) eqn:En; [injection E as <-; exact SI|].
  unfold find_bond in Ef. fold (row m l) in Ef. pose proof (find_some _ _ Ef) as [He Hed]. apply Nat.eqb_eq in Hed.
  set (old := b_order e) in *.
  assert (Xl : (l <? natoms m)%nat = true) by (apply Nat.ltb_lt; lia).
  assert (Xr : (rr <? natoms m)%nat = true) by (apply Nat.ltb_lt; lia).
  assert (Hcnt_gen : forall cs j, cs = upd (upd (counts m) l (fun c => c + (new - old))) rr (fun c => c + (new - old)) ->
            nth j cs 0 = if Nat.eqb j l || Nat.eqb j rr then cnt m j + (new - old) else cnt m j).
  { intros cs j ->. unfold cnt. rewrite !nth_upd, !upd_length, Hc. rewrite (Nat.eqb_sym rr j), (Nat.eqb_sym l j).
    destruct (Nat.eqb_spec j rr) as [E1'|N1']; destruct (Nat.eqb_spec j l) as [E2'|N2']; cbn [andb orb].
    - exfalso. lia.
    - subst j. now rewrite Xr.
    - subst j. now rewrite Xl.
    - reflexivity. }
  destruct (b_ring e) eqn:Ering.
  - (* ring bond: stored at both ends *)
    destruct (find_bond m rr l) as [e2x|] eqn:Ef2; [|discriminate]. cbn [bind] in E. injection E as E'.
    destruct (Hsy l e He Ering) as (e2 & He2 & Hd2 & Ho2 & Hr2). rewrite Hed in He2.
    assert (Hrow : forall j, row m' j = if Nat.eqb j l then set_order (row m j) rr new
                                        else if Nat.eqb j rr then set_order (row m j) l new else row m j).
    { intro j. unfold row. rewrite <- E'. cbn [adj]. rewrite !nth_upd, !upd_length, Ha.
      rewrite (Nat.eqb_sym rr j), (Nat.eqb_sym l j).
      destruct (Nat.eqb_spec j rr) as [E1'|N1']; destruct (Nat.eqb_spec j l) as [E2'|N2']; cbn [andb].
      - exfalso. lia.
      - subst j. now rewrite Xr.
      - subst j. now rewrite Xl.
      - reflexivity. }
    assert (Hcnt : forall j, cnt m' j = if Nat.eqb j l || Nat.eqb j rr then cnt m j + (new - old) else cnt m j).
    { intro j. unfold cnt at 1. apply Hcnt_gen. rewrite <- E'. reflexivity. }
    assert (His : forall i, isum (adj m') i = isum (adj m) i).
    { intro i. rewrite <- E'. cbn [adj]. unfold isum.
      rewrite (zsum_upd _ _ _ _ []) by (rewrite upd_length; lia).
      rewrite (zsum_upd _ _ _ _ []) by lia.
      rewrite nth_upd. assert (X : Nat.eqb l rr = false) by (apply Nat.eqb_neq; lia). rewrite X. cbn [andb].
      fold (row m l). fold (row m rr).
      rewrite (zsum_set_order (inw i) (row m l) rr new e (Hnd l) He Hed).
      rewrite (zsum_set_order (inw i) (row m rr) l new e2 (Hnd rr) He2 Hd2).
      assert (Z1 : inw i e = 0) by (unfold inw; now rewrite Ering).
      assert (Z2 : inw i (setord e new) = 0) by (unfold inw, setord; cbn; now rewrite Ering).
      assert (Z3 : inw i e2 = 0) by (unfold inw; now rewrite Hr2).
      assert (Z4 : inw i (setord e2 new) = 0) by (unfold inw, setord; cbn; now rewrite Hr2).
      lia. }
    assert (Hn : natoms m' = natoms m) by (unfold natoms; rewrite <- E'; reflexivity).
    constructor.
    + intros i Hi. rewrite Hn in Hi. rewrite Hcnt. unfold valence. rewrite His, Hrow.
      pose proof (Hv i Hi) as Hvi. unfold valence in Hvi.
      destruct (Nat.eqb_spec i l) as [E1|N1]; destruct (Nat.eqb_spec i rr) as [E2|N2]; cbn [orb]; try (exfalso; lia).
      * subst i. unfold osum in *. rewrite (zsum_set_order b_order (row m l) rr new e (Hnd l) He Hed). cbn [setord b_order]. fold old. lia.
      * subst i. unfold osum in *. rewrite (zsum_set_order b_order (row m rr) l new e2 (Hnd rr) He2 Hd2). cbn [setord b_order]. rewrite Ho2. fold old. lia.
      * lia.
    + intro i. rewrite Hrow. destruct (Nat.eqb i l); [rewrite set_order_dsts; apply Hnd|].
      destruct (Nat.eqb i rr); [rewrite set_order_dsts; apply Hnd|apply Hnd].
    + intros i y Hy Hry.
      (* y is the image of some e0 of the old row *)
      assert (Hpre : exists e0, In e0 (row m i) /\ b_dst y = b_dst e0 /\ b_ring y = b_ring e0 /\
                       b_order y = (if (Nat.eqb i l && Nat.eqb (b_dst e0) rr) || (Nat.eqb i rr && Nat.eqb (b_dst e0) l) then new else b_order e0)).
      { rewrite Hrow in Hy. destruct (Nat.eqb_spec i l) as [E1|N1]; cbn [andb orb].
        - apply In_set_order_inv in Hy as (e0 & H0 & ->). exists e0. split; [exact H0|].
          assert (X : Nat.eqb i rr = false) by (apply Nat.eqb_neq; lia). rewrite X. cbn [andb]. rewrite orb_false_r.
          destruct (Nat.eqb (b_dst e0) rr); cbn; auto.
        - destruct (Nat.eqb_spec i rr) as [E2|N2]; cbn [andb orb].
          + apply In_set_order_inv in Hy as (e0 & H0 & ->). exists e0. split; [exact H0|].
            destruct (Nat.eqb (b_dst e0) l); cbn; auto.
          + exists y. auto. }
      destruct Hpre as (e0 & H0 & Ed & Er & Eo). rewrite Er in Hry.
      destruct (Hsy i e0 H0 Hry) as (p0 & Hp0 & Hpd & Hpo & Hpr).
      set (k := b_dst e0) in *. rewrite Ed.
      (* the partner's image in the new row k *)
      assert (Himg : exists y', In y' (row m' k) /\ b_dst y' = i /\ b_ring y' = true /\
                       b_order y' = (if (Nat.eqb k l && Nat.eqb i rr) || (Nat.eqb k rr && Nat.eqb i l) then new else b_order p0)).
      { rewrite Hrow. destruct (Nat.eqb_spec k l) as [E1|N1]; cbn [andb orb].
        - exists (if Nat.eqb (b_dst p0) rr then setord p0 new else p0). split; [now apply In_set_order_img|].
          assert (X : Nat.eqb k rr = false) by (apply Nat.eqb_neq; lia). rewrite X. cbn [andb]. rewrite orb_false_r.
          rewrite Hpd. destruct (Nat.eqb i rr); cbn; auto.
        - destruct (Nat.eqb_spec k rr) as [E2|N2]; cbn [andb orb].
          + exists (if Nat.eqb (b_dst p0) l then setord p0 new else p0). split; [now apply In_set_order_img|].
            rewrite Hpd. destruct (Nat.eqb i l); cbn; auto.
          + exists p0. auto. }
      destruct Himg as (y' & Hy' & Hd' & Hr' & Ho').
      exists y'. split; [exact Hy'|]. split; [exact Hd'|]. split; [|exact Hr'].
      rewrite Ho', Eo, Hpo. rewrite (andb_comm (Nat.eqb k l)), (andb_comm (Nat.eqb k rr)), orb_comm. reflexivity.
  - (* tree bond: stored at the parent only *)
    cbn [bind] in E. injection E as E'.
    assert (Hrow : forall j, row m' j = if Nat.eqb j l then set_order (row m j) rr new else row m j).
    { intro j. unfold row. rewrite <- E'. cbn [adj]. rewrite nth_upd, Ha, (Nat.eqb_sym l j).
      destruct (Nat.eqb_spec j l) as [->|]; cbn [andb]; [now rewrite Xl|reflexivity]. }
    assert (Hcnt : forall j, cnt m' j = if Nat.eqb j l || Nat.eqb j rr then cnt m j + (new - old) else cnt m j).
    { intro j. unfold cnt at 1. apply Hcnt_gen. rewrite <- E'. reflexivity. }
    assert (His : forall i, isum (adj m') i = isum (adj m) i + (if Nat.eqb i rr then new - old else 0)).
    { intro i. rewrite <- E'. cbn [adj]. unfold isum.
      rewrite (zsum_upd _ _ _ _ []) by lia. fold (row m l).
      rewrite (zsum_set_order (inw i) (row m l) rr new e (Hnd l) He Hed).
      unfold inw, setord. cbn. rewrite Ering, Hed, (Nat.eqb_sym rr i). cbn [negb andb]. fold old.
      destruct (Nat.eqb i rr); lia. }
    assert (Hn : natoms m' = natoms m) by (unfold natoms; rewrite <- E'; reflexivity).
    constructor.
    + intros i Hi. rewrite Hn in Hi. rewrite Hcnt. unfold valence. rewrite His, Hrow.
      pose proof (Hv i Hi) as Hvi. unfold valence in Hvi.
      destruct (Nat.eqb_spec i l) as [E1|N1]; destruct (Nat.eqb_spec i rr) as [E2|N2]; cbn [orb]; try (exfalso; lia).
      * subst i. unfold osum in *. rewrite (zsum_set_order b_order (row m l) rr new e (Hnd l) He Hed). cbn [setord b_order]. fold old. lia.
      * lia.
      * lia.
    + intro i. rewrite Hrow. destruct (Nat.eqb i l); [rewrite set_order_dsts; apply Hnd|apply Hnd].
    + intros i y Hy Hry.
      (* no ring bond is touched: the only bond l -> rr is the tree bond e *)
      assert (Hy0 : In y (row m i)).
      { rewrite Hrow in Hy. destruct (Nat.eqb_spec i l) as [E1|N1]; [|exact Hy]. subst i.
        apply In_set_order_inv in Hy as (e0 & H0 & ->).
        destruct (Nat.eqb_spec (b_dst e0) rr) as [E0|N0]; [|exact H0]. exfalso.
        assert (e0 = e) by (apply (nodup_dst_eq (row m l)); [apply Hnd|exact H0|exact He|congruence]). subst e0.
        unfold setord in Hry. cbn in Hry. congruence. }
      destruct (Hsy i y Hy0 Hry) as (p0 & Hp0 & Hpd & Hpo & Hpr).
      exists p0. split; [|auto]. rewrite Hrow. destruct (Nat.eqb_spec (b_dst y) l) as [E1|N1]; [|exact Hp0].
      rewrite E1 in Hp0. destruct (Nat.eqb_spec i rr) as [E2|N2].
      * (* the partner of y would be the tree bond e itself *)
        exfalso. assert (p0 = e) by (apply (nodup_dst_eq (row m l)); [apply Hnd|exact Hp0|exact He|congruence]). subst p0. congruence.
      * pose proof (In_set_order_img (row m l) rr new p0 Hp0) as Hi.
        assert (X : Nat.eqb (b_dst p0) rr = false) by (apply Nat.eqb_neq; congruence). rewrite X in Hi. rewrite E1. exact Hi.
Qed.


End Prims.

(* ---------- everything instantiated ---------- *)
Definition CapOf (T : table) (a : atom) (c : Z) : Prop := bonding_capacity T a = Ok c.

Lemma pas_cap T t o st a cap : process_atom_symbol T t = Ok (Some (o, st, a, cap)) -> CapOf T a cap.
Proof.
  unfold process_atom_symbol, process_atom_symbol_c, CapOf. intro E.
  destruct (process_atom_nocache t) as [[[[o' st'] a']|]|]; cbn [bind] in E; try discriminate.
  fold (bonding_capacity T a') in E.
  destruct (bonding_capacity T a') as [c|] eqn:Ec; cbn [bind] in E; [|discriminate].
  destruct (c <? 0); inversion E; subst. exact Ec.
Qed.

Definition GraphOK (T : table) (m : dmol) : Prop := MolWF (CapOf T) SumInv m /\ TreeInv m.

Theorem decode_graph_ok T s attribute m : (exists c, assoc (lit "?") T = Some c) -> digits_ok s ->
  decode_graph T s false attribute = Ok m -> GraphOK T m.
Proof.
  intros Hq Hd E.
  exact (decode_graph_wf (CapOf T) SumInv sum_empty (sum_add_atom (CapOf T)) (sum_add_bond (CapOf T))
           (sum_upd (CapOf T)) (sum_add_ring (CapOf T)) TreeInv tree_empty (tree_root (CapOf T) SumInv) (tree_step (CapOf T) SumInv)
           (tree_upd (CapOf T) SumInv) (tree_ring (CapOf T) SumInv) T Hq (pas_cap T) s attribute m Hd E).
Qed.

Theorem decode_graph_ok_c T s compat attribute m : (exists c, assoc (lit "?") T = Some c) -> frags_ok s compat ->
  decode_graph T s compat attribute = Ok m -> GraphOK T m.
Proof.
  intros Hq Hd E.
  exact (decode_graph_wf_c (CapOf T) SumInv sum_empty (sum_add_atom (CapOf T)) (sum_add_bond (CapOf T))
           (sum_upd (CapOf T)) (sum_add_ring (CapOf T)) TreeInv tree_empty (tree_root (CapOf T) SumInv) (tree_step (CapOf T) SumInv)
           (tree_upd (CapOf T) SumInv) (tree_ring (CapOf T) SumInv) T Hq (pas_cap T) s compat attribute m Hd E).
Qed.

Theorem decoder_total_ok_c T s compat attribute : (exists c, assoc (lit "?") T = Some c) -> frags_ok s compat ->
  (exists out, decoder T s compat attribute = Ok out) \/ decoder T s compat attribute = Err DecoderError.
Proof.
  intros Hq Hd.
  exact (decoder_total_c (CapOf T) SumInv sum_empty (sum_add_atom (CapOf T)) (sum_add_bond (CapOf T))
           (sum_upd (CapOf T)) (sum_add_ring (CapOf T)) TreeInv tree_empty (tree_root (CapOf T) SumInv) (tree_step (CapOf T) SumInv)
           (tree_upd (CapOf T) SumInv) (tree_ring (CapOf T) SumInv) T Hq (pas_cap T) s compat attribute Hd).
Qed.

Theorem decoder_total_ok T s attribute : (exists c, assoc (lit "?") T = Some c) -> digits_ok s ->
  (exists out, decoder T s false attribute = Ok out) \/ decoder T s false attribute = Err DecoderError.
Proof.
  intros Hq Hd.
  exact (decoder_total (CapOf T) SumInv sum_empty (sum_add_atom (CapOf T)) (sum_add_bond (CapOf T))
           (sum_upd (CapOf T)) (sum_add_ring (CapOf T)) TreeInv tree_empty (tree_root (CapOf T) SumInv) (tree_step (CapOf T) SumInv)
           (tree_upd (CapOf T) SumInv) (tree_ring (CapOf T) SumInv) T Hq (pas_cap T) s attribute Hd).
Qed.

(* the valence guarantee, at the level of the graph the writer prints *)
Theorem graph_valence T m : GraphOK T m ->
  forall i a c at_, nth_error (atoms m) i = Some (a, c, at_) ->
    a_aromatic a = false /\ bonding_capacity T a = Ok c /\ 0 <= valence m i <= c.
Proof.
  intros [Hm _] i a c at_ E. destruct (wf_atoms _ _ _ Hm i a c at_ E) as (Hc0 & Har & Hcap).
  assert (Hi : (i < natoms m)%nat) by (unfold natoms; apply nth_error_Some; congruence).
  pose proof (wf_val _ _ _ Hm i Hi) as Hv. unfold capOf in Hv. rewrite E in Hv.
  rewrite (si_val _ (wf_extra _ _ _ Hm) i Hi) in Hv.
  split; [exact Har|]. split; [exact Hcap|]. split; [|exact Hv].
  unfold valence. 
  assert (0 <= osum (row m i)).
  { apply zsum_nonneg. intros e He. destruct (wf_bonds _ _ _ Hm i e He) as (_ & Ho & _). lia. }
  assert (0 <= isum (adj m) i).
  { apply zsum_nonneg. intros l Hl. destruct (In_rows m l Hl) as (j & _ & ->). apply zsum_nonneg. intros e He. eapply inw_nonneg; eassumption. }
  lia.
Qed.
