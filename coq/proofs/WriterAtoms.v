(* WriterAtoms.v — C01, the printed atoms: every atom the decoder puts into its graph
   comes from a SELFIES atom symbol, hence has one of two shapes, and the token the
   writer prints for it is read back by the independent reader (spec/Reader.v) as
   the same atom. *)
From Coq Require Import Ascii String List Arith ZArith NArith Bool Lia.
Import ListNotations.
From Selfies Require Import Base Generated Lex Atoms Decoder Reader BaseFacts DecoderInv TokFacts DecFacts AlphaClosure.
Local Open Scope Z_scope.

(* ---------- the fields of a matched symbol tile the symbol ---------- *)
Definition chi_ok (c : str) : Prop := c = [] \/ c = lit "@" \/ c = lit "@@".

Lemma match_tiles t f : match_selfies_atom t = Some f ->
  t = (91%N :: match f_bond f with Some c => [c] | None => [] end ++ f_iso f ++ f_elem f ++ f_chi f ++ f_h f ++ f_charge f ++ [93%N])%list /\
  match f_bond f with Some c => is_bond_prefix c = true | None => True end /\
  Forall (fun c => is_09 c = true) (f_iso f) /\
  elem_shape (f_elem f) = true /\ chi_ok (f_chi f) /\
  (f_h f = [] \/ exists d, f_h f = [72%N; d] /\ is_09 d = true) /\
  (f_charge f = [] \/ exists sg d1 ds, f_charge f = sg :: d1 :: ds /\ (sg = 43 \/ sg = 45)%N /\ is_19 d1 = true /\ Forall (fun c => is_09 c = true) ds).
Proof.
  unfold match_selfies_atom. destruct t as [|c0 s1]; [discriminate|].
  destruct (N.eqb_spec c0 91) as [->|]; [|discriminate]. cbn [negb].
  set (bs := match s1 with c :: r => if is_bond_prefix c then (Some c, r) else (None, s1) | [] => (None, s1) end).
  assert (Hbs : s1 = (match fst bs with Some c => [c] | None => [] end ++ snd bs)%list /\
                match fst bs with Some c => is_bond_prefix c = true | None => True end).
  { unfold bs. destruct s1 as [|c r]; cbn [fst snd app]; [auto|]. destruct (is_bond_prefix c) eqn:E; cbn [fst snd app]; auto. }
  destruct bs as [bond s2]. cbn [fst snd] in Hbs. destruct Hbs as [E1 Hb].
  destruct (span is_09 s2) as [iso s3] eqn:Ei. destruct (span_spec _ _ _ _ Ei) as [E2 Fi].
  destruct s3 as [|e1 s4]; [discriminate|]. destruct (is_upper e1) eqn:Eu; [|discriminate]. cbn [negb].
  set (es := match s4 with e2 :: r => if is_lower e2 then ([e1; e2], r) else ([e1], s4) | [] => ([e1], s4) end).
  assert (Hes : (e1 :: s4 = fst es ++ snd es)%list /\ elem_shape (fst es) = true).
  { unfold es. destruct s4 as [|e2 r]; cbn [fst snd app elem_shape]; [auto|]. destruct (is_lower e2) eqn:El; cbn [fst snd app elem_shape]; [rewrite Eu, El|]; auto. }
  destruct es as [elem s5]. cbn [fst snd] in Hes. destruct Hes as [E3 Hel].
  set (cs := if prefix_of (lit "@@") s5 then (lit "@@", skipn 2 s5) else if prefix_of (lit "@") s5 then (lit "@", skipn 1 s5) else ([], s5)).
  assert (Hcs : s5 = (fst cs ++ snd cs)%list /\ chi_ok (fst cs)).
  { unfold cs, chi_ok. destruct (prefix_of (lit "@@") s5) eqn:P2.
    - cbn [fst snd]. split; [|auto]. destruct s5 as [|a [|b r]]; cbn -[N.eqb] in P2; try discriminate; [rewrite andb_false_r in P2; discriminate|].
      apply andb_true_iff in P2 as [A B]. apply N.eqb_eq in A. destruct (N.eqb_spec 64 b); [|discriminate]. subst. reflexivity.
    - destruct (prefix_of (lit "@") s5) eqn:P1; cbn [fst snd]; [|auto].
      split; [|auto]. destruct s5 as [|a r]; cbn -[N.eqb] in P1; try discriminate. destruct (N.eqb_spec 64 a); [|discriminate]. subst. reflexivity. }
  destruct cs as [chi s6]. cbn [fst snd] in Hcs. destruct Hcs as [E4 Hchi].
  set (hs := match s6 with c :: d :: r => if (c =? 72)%N && is_09 d then ([c; d], r) else ([], s6) | _ => ([], s6) end).
  assert (Hhs : s6 = (fst hs ++ snd hs)%list /\ (fst hs = [] \/ exists d, fst hs = [72%N; d] /\ is_09 d = true)).
  { unfold hs. destruct s6 as [|c [|d r]]; cbn [fst snd app]; auto.
    destruct ((c =? 72)%N && is_09 d) eqn:X; cbn [fst snd app]; auto.
    apply andb_true_iff in X as [X1 X2]. apply N.eqb_eq in X1. subst. split; [reflexivity|right; eauto]. }
  destruct hs as [h s7]. cbn [fst snd] in Hhs. destruct Hhs as [E5 Hh].
  set (gs := match s7 with
             | sg :: r => if ((sg =? 43) || (sg =? 45))%N then
                            match r with
                            | d1 :: r1 => if is_19 d1 then let '(ds, r') := span is_09 r1 in (sg :: d1 :: ds, r') else ([], s7)
                            | [] => ([], s7) end
                          else ([], s7)
             | [] => ([], s7) end).
  assert (Hgs : s7 = (fst gs ++ snd gs)%list /\
                (fst gs = [] \/ exists sg d1 ds, fst gs = sg :: d1 :: ds /\ (sg = 43 \/ sg = 45)%N /\ is_19 d1 = true /\ Forall (fun c => is_09 c = true) ds)).
  { unfold gs. destruct s7 as [|sg r]; cbn [fst snd app]; auto.
    destruct ((sg =? 43) || (sg =? 45))%N eqn:Es; cbn [fst snd app]; auto.
    destruct r as [|d1 r1]; cbn [fst snd app]; auto. destruct (is_19 d1) eqn:X; cbn [fst snd app]; auto.
    destruct (span is_09 r1) as [ds r'] eqn:Sp. cbn [fst snd]. destruct (span_spec _ _ _ _ Sp) as [-> Fd].
    split; [reflexivity|]. right. exists sg, d1, ds. split; [reflexivity|]. split; [|auto].
    apply orb_true_iff in Es as [Es|Es]; apply N.eqb_eq in Es; auto. }
  destruct gs as [chg s8]. cbn [fst snd] in Hgs. destruct Hgs as [E6 Hg].
  destruct (str_eqb s8 (lit "]")) eqn:E8; [|discriminate]. apply str_eqb_eq in E8. intro X. inversion X; subst f; clear X.
  cbn [f_bond f_iso f_elem f_chi f_h f_charge].
  split; [|auto 10]. rewrite E1, E2, E3, E4, E5, E6, E8. rewrite <- ?app_assoc. reflexivity.
Qed.

(* ---------- the two shapes of a decoded atom ---------- *)
Definition AtomShape (a : atom) : Prop :=
  a_aromatic a = false /\
  ((a_isotope a = None /\ a_chirality a = None /\ a_hcount a = None /\ a_charge a = 0 /\ In (a_element a) organic_subset)
   \/ (elem_shape (a_element a) = true /\ In (a_element a) elements /\ (exists h, a_hcount a = Some h /\ (h <= 9)%N) /\
       match a_chirality a with None => True | Some c => c = lit "@" \/ c = lit "@@" end)).

Lemma organic_shapes : forallb elem_shape organic_subset = true.
Proof. vm_compute. reflexivity. Qed.

Lemma body_is_elem iso elem chi h chg :
  In (iso ++ elem ++ chi ++ h ++ chg)%list organic_subset ->
  Forall (fun c => is_09 c = true) iso -> elem_shape elem = true -> chi_ok chi ->
  (h = [] \/ exists d, h = [72%N; d] /\ is_09 d = true) ->
  (chg = [] \/ exists sg d1 ds, chg = sg :: d1 :: ds /\ (sg = 43 \/ sg = 45)%N /\ is_19 d1 = true /\ Forall (fun c => is_09 c = true) ds) ->
  (iso ++ elem ++ chi ++ h ++ chg)%list = elem.
Proof.
  intros Hin Fi He Hc Hh Hg. pose proof organic_shapes as F. rewrite forallb_forall in F. specialize (F _ Hin).
  destruct iso as [|i0 iso'].
  2:{ exfalso. inversion Fi as [|? ? Hi _]; subst. cbn [app] in F. cbn [elem_shape] in F.
      destruct (iso' ++ elem ++ chi ++ h ++ chg)%list as [|x [|y z]]; try discriminate.
      - destruct (upper_facts i0 F) as (U & _). congruence.
      - apply andb_true_iff in F as [F _]. destruct (upper_facts i0 F) as (U & _). congruence. }
  cbn [app] in *.
  destruct elem as [|E1 [|e2 [|? ?]]]; try discriminate.
  - (* one-letter element: nothing may follow *)
    cbn [app] in *. destruct (chi ++ h ++ chg)%list as [|x [|y z]] eqn:Er; [reflexivity| |discriminate].
    exfalso. cbn [elem_shape] in F. apply andb_true_iff in F as [_ Fx].
    (* a single trailing character can only be '@' *)
    destruct Hc as [->|[->| ->]]; cbn [app lit] in Er.
    + destruct Hh as [->|(d & -> & _)]; cbn [app] in Er; [|discriminate].
      destruct Hg as [->|(sg & d1 & ds & -> & _)]; discriminate.
    + destruct Hh as [->|(d & -> & _)]; cbn [app] in Er; [|discriminate].
      destruct Hg as [->|(sg & d1 & ds & -> & _)]; [|discriminate]. inversion Er; subst. discriminate.
    + discriminate.
  - cbn [app] in *. destruct (chi ++ h ++ chg)%list as [|x z] eqn:Er; [reflexivity|]. exfalso. cbn [elem_shape] in F. discriminate.
Qed.

Lemma int_digit d : is_09 d = true -> int_of_decimals [d] = Ok (d - 48)%N /\ (d - 48 <= 9)%N.
Proof.
  intro H. unfold int_of_decimals.
  assert (X : ((int_max_str_digits <? N.of_nat (length [d])) && negb (int_max_str_digits =? 0))%N = false).
  { cbn [length]. change (N.of_nat 1) with 1%N. destruct (N.eq_dec int_max_str_digits 0) as [->|Nz]; [reflexivity|].
    apply andb_false_iff. left. apply N.ltb_ge. lia. }
  rewrite X. rewrite (decimal_val_09_eq d H). unfold is_09 in H. apply andb_true_iff in H as [A B]. apply N.leb_le in A, B.
  split; [f_equal; lia|lia].
Qed.

Theorem nocache_shape t o st a : process_atom_nocache t = Ok (Some (o, st, a)) -> AtomShape a.
Proof.
  unfold process_atom_nocache. destruct (match_selfies_atom t) as [f|] eqn:Em; [|discriminate].
  destruct (match_tiles t f Em) as (Et & Hb & Fi & He & Hc & Hh & Hg).
  destruct (smiles_to_bond2 (f_bond f)) as [o2 stereo].
  assert (Ebody : slice t (1 + match f_bond f with Some _ => 1 | None => 0 end) (length t - 1) =
                  (f_iso f ++ f_elem f ++ f_chi f ++ f_h f ++ f_charge f)%list).
  { set (p := (91%N :: match f_bond f with Some c => [c] | None => [] end)%list).
    set (x := (f_iso f ++ f_elem f ++ f_chi f ++ f_h f ++ f_charge f)%list).
    assert (Et' : t = (p ++ x ++ [93%N])%list) by (rewrite Et at 1; unfold p, x; cbn [app]; rewrite <- !app_assoc; reflexivity).
    assert (Lp : (1 + match f_bond f with Some _ => 1 | None => 0 end = length p)%nat) by (unfold p; destruct (f_bond f); reflexivity).
    rewrite Lp. rewrite Et' at 1 2. replace (length (p ++ x ++ [93%N]) - 1)%nat with (length p + length x)%nat by (rewrite !app_length; cbn; lia).
    apply slice_mid. }
  rewrite Ebody. destruct (mem_str _ organic_subset) eqn:Eo.
  - intro X. injection X as _ _ Xa. subst a. split; [reflexivity|]. left. cbn [a_element a_aromatic a_isotope a_chirality a_hcount a_charge]. repeat split.
    apply mem_str_In in Eo. rewrite <- (body_is_elem _ _ _ _ _ Eo Fi He Hc Hh Hg). exact Eo.
  - destruct (match f_iso f with [] => _ | _ => _ end) as [iso|]; cbn [bind]; [|discriminate].
    destruct (mem_str (f_elem f) elements) eqn:Eel; cbn [negb]; [|discriminate].
    destruct (match f_h f with [] => _ | _ => _ end) as [h|] eqn:Eh; cbn [bind]; [|discriminate].
    destruct (match f_charge f with [] => _ | _ => _ end) as [chg|]; cbn [bind]; [|discriminate].
    intro X. injection X as _ _ Xa. subst a. split; [reflexivity|]. right. cbn [a_element a_aromatic a_isotope a_chirality a_hcount a_charge].
    split; [exact He|]. split; [now apply mem_str_In|]. split.
    + exists h. split; [reflexivity|]. destruct Hh as [E0|(d & E0 & Hd)]; rewrite E0 in Eh.
      * inversion Eh; subst. lia.
      * destruct (int_digit d Hd) as [E1 L]. rewrite E1 in Eh. inversion Eh; subst. exact L.
    + destruct Hc as [->|[->| ->]]; cbn [lit]; auto.
Qed.

(* ---------- what the reader makes of a printed atom ---------- *)
Definition abs_atom (a : atom) : satom :=
  {| sa_elem := a_element a; sa_arom := false; sa_iso := a_isotope a; sa_chi := a_chirality a;
     sa_h := a_hcount a; sa_charge := a_charge a |}.

Definition safe_start (rest : str) : Prop := match rest with [] => True | c :: _ => is_low c = false end.

Lemma take_while_stop (p : N -> bool) ds x r : Forall (fun c => p c = true) ds -> p x = false ->
  take_while p (ds ++ x :: r) = (ds, x :: r).
Proof. intros F Hx. induction F as [|c l Hc F IH]; cbn [app take_while]; [now rewrite Hx|]. now rewrite Hc, IH. Qed.

Lemma take_while_all (p : N -> bool) ds : Forall (fun c => p c = true) ds -> take_while p ds = (ds, []).
Proof. intros F. induction F as [|c l Hc F IH]; cbn [take_while]; [reflexivity|]. now rewrite Hc, IH. Qed.

Lemma split_at_rb_app body rest : ~ In 93%N body -> split_at_rb (body ++ 93%N :: rest) = Some (body, rest).
Proof.
  induction body as [|c b IH]; intro H; cbn [app split_at_rb]; [reflexivity|].
  destruct (N.eqb_spec c 93) as [->|]; [exfalso; apply H; now left|]. rewrite IH; [reflexivity|]. intro X. apply H. now right.
Qed.

(* decimal strings as the reader sees them *)
Lemma str_of_N_digits n : Forall (fun c => is_digit c = true) (str_of_N n) /\ str_of_N n <> [] /\ number (str_of_N n) = n /\ ~ In 93%N (str_of_N n).
Proof.
  unfold str_of_N. pose proof (digits_range 10 n ltac:(lia)) as R. destruct (digits_shape 10 n ltac:(lia)) as (Hne & _).
  split; [|split; [|split]].
  - apply Forall_forall. intros c Hc. apply in_map_iff in Hc as (d & <- & Hd). rewrite Forall_forall in R. specialize (R d Hd).
    unfold is_digit. apply andb_true_iff. split; apply N.leb_le; lia.
  - destruct (digits 10 n); [contradiction|discriminate].
  - unfold number. rewrite <- (digits_value 10 n ltac:(lia)) at 2. rewrite horner_unfold.
    clear Hne. generalize 0%N as acc. induction (digits 10 n) as [|d l IH]; intro acc; [reflexivity|]. cbn [map fold_left].
    inversion R as [|? ? Hd R']; subst. rewrite IH by exact R'. unfold hstep, dval. f_equal. lia.
  - intro Hin. apply in_map_iff in Hin as (d & Ed & Hd). rewrite Forall_forall in R. specialize (R d Hd). lia.
Qed.

(* the unbracketed atoms *)
Lemma organic_lex x rest f l : In x organic_subset -> safe_start rest -> lex_smiles f rest = Some l ->
  lex_smiles (S f) (x ++ rest) = Some (RAtom (plain x false) :: l).
Proof.
  intros Hin Hs Hl.
  assert (Hc2 : forall c, match rest with [] => True | c2 :: _ => mem_str [c; c2] organic = false end).
  { intro c. destruct rest as [|c2 r]; [exact I|]. cbn in Hs. unfold is_low in Hs.
    cbn -[N.eqb]. destruct (N.eqb_spec c2 108) as [->|]; [discriminate|]. destruct (N.eqb_spec c2 114) as [->|]; [discriminate|].
    rewrite !andb_false_r. reflexivity. }
  cbn in Hin.
  repeat (destruct Hin as [<-|Hin]; [
    cbn [app lex_smiles]; cbn -[lex_smiles mem_str organic aromatic_organic];
    try (destruct rest as [|c2 r]; [cbn; cbn in Hl; rewrite Hl; reflexivity|]; rewrite (Hc2 _); cbn; rewrite Hl; reflexivity);
    try (cbn; rewrite Hl; reflexivity) |]).
  destruct Hin.
Qed.

(* the bracket atoms: iso? Elem chi? (H digit)? charge? *)
Definition hpart (hs : str) (h : N) : Prop :=
  (hs = [] /\ h = 0%N) \/ (hs = [72%N; 48%N] /\ h = 0%N) \/ (hs = [72%N; (48 + h)%N] /\ (1 <= h <= 9)%N).
Definition cpart (cs : str) (c : Z) : Prop :=
  (cs = [] /\ c = 0) \/ (exists p, cs = 43%N :: str_of_N (Npos p) /\ c = Zpos p) \/ (exists p, cs = 45%N :: str_of_N (Npos p) /\ c = Zneg p).

Lemma parse_bracket_print ds iso elem chs chi hs h cs c :
  ((ds = [] /\ iso = None) \/ (exists n, ds = str_of_N n /\ iso = Some n)) ->
  elem_shape elem = true ->
  ((chs = [] /\ chi = None) \/ (chs = [64%N] /\ chi = Some [64%N]) \/ (chs = [64%N; 64%N] /\ chi = Some [64%N; 64%N])) ->
  hpart hs h -> cpart cs c ->
  parse_bracket (ds ++ elem ++ chs ++ hs ++ cs) =
  Some {| sa_elem := elem; sa_arom := false; sa_iso := iso; sa_chi := chi; sa_h := Some h; sa_charge := c |}.
Proof.
  intros Hiso Hel Hchi Hh Hc.
  assert (Hds : Forall (fun x => is_digit x = true) ds /\ match ds with [] => None | _ => Some (number ds) end = iso).
  { destruct Hiso as [[-> ->]|(n & -> & ->)]; [split; [constructor|reflexivity]|].
    destruct (str_of_N_digits n) as (A & B & C & _). split; [exact A|]. destruct (str_of_N n); [contradiction|now rewrite C]. }
  destruct Hds as [Fds Eiso]. clear Hiso.
  destruct elem as [|E1 [|e2 [|? ?]]]; try discriminate; cbn [elem_shape] in Hel.
  - (* one-letter element *)
    destruct (upper_facts E1 Hel) as (U1 & _ & U3 & _).
    assert (D1 : is_digit E1 = false) by exact U1. assert (L1 : is_low E1 = false) by exact U3. assert (Up1 : is_up E1 = true) by exact Hel.
    unfold parse_bracket. cbn [app]. rewrite (take_while_stop is_digit ds E1 _ Fds D1). rewrite Up1. cbn [orb negb].
    destruct Hchi as [[-> ->]|[[-> ->]|[-> ->]]]; destruct Hh as [[-> ->]|[[-> ->]|[-> Hh9]]];
      destruct Hc as [[-> ->]|[(p & -> & ->)|(p & -> & ->)]]; cbn [app];
      repeat first
        [ rewrite L1
        | rewrite (eq_refl : is_low 43 = false) | rewrite (eq_refl : is_low 45 = false) | rewrite (eq_refl : is_low 64 = false) | rewrite (eq_refl : is_low 72 = false)
        | rewrite (eq_refl : is_digit 48 = true) | rewrite (eq_refl : dval 48 = 0%N)
        | rewrite Eiso
        | match goal with |- context [take_while is_digit (str_of_N (N.pos ?p))] =>
            let A := fresh in let B := fresh in let C := fresh in
            destruct (str_of_N_digits (N.pos p)) as (A & B & C & _); rewrite (take_while_all is_digit _ A);
            destruct (str_of_N (N.pos p)) eqn:?; [contradiction|]; rewrite C end
        | match goal with |- context [is_digit (48 + h)] =>
            assert (Hd' : is_digit (48 + h) = true) by (unfold is_digit; apply andb_true_iff; split; apply N.leb_le; lia);
            assert (Hv' : dval (48 + h) = h) by (unfold dval; lia); rewrite Hd', Hv' end
        | progress cbn -[is_digit is_up is_low take_while number dval str_of_N N.add] ];
      rewrite ?Pos.mul_1_r; try reflexivity.
  - (* two-letter element *)
    apply andb_true_iff in Hel as [Hel Hl2]. assert (L2 : is_low e2 = true) by exact Hl2.
    destruct (upper_facts E1 Hel) as (U1 & _ & U3 & _).
    assert (D1 : is_digit E1 = false) by exact U1. assert (L1 : is_low E1 = false) by exact U3. assert (Up1 : is_up E1 = true) by exact Hel.
    unfold parse_bracket. cbn [app]. rewrite (take_while_stop is_digit ds E1 _ Fds D1). rewrite Up1. cbn [orb negb].
    destruct Hchi as [[-> ->]|[[-> ->]|[-> ->]]]; destruct Hh as [[-> ->]|[[-> ->]|[-> Hh9]]];
      destruct Hc as [[-> ->]|[(p & -> & ->)|(p & -> & ->)]]; cbn [app];
      repeat first
        [ rewrite L1 | rewrite L2
        | rewrite (eq_refl : is_low 43 = false) | rewrite (eq_refl : is_low 45 = false) | rewrite (eq_refl : is_low 64 = false) | rewrite (eq_refl : is_low 72 = false)
        | rewrite (eq_refl : is_digit 48 = true) | rewrite (eq_refl : dval 48 = 0%N)
        | rewrite Eiso
        | match goal with |- context [take_while is_digit (str_of_N (N.pos ?p))] =>
            let A := fresh in let B := fresh in let C := fresh in
            destruct (str_of_N_digits (N.pos p)) as (A & B & C & _); rewrite (take_while_all is_digit _ A);
            destruct (str_of_N (N.pos p)) eqn:?; [contradiction|]; rewrite C end
        | match goal with |- context [is_digit (48 + h)] =>
            assert (Hd' : is_digit (48 + h) = true) by (unfold is_digit; apply andb_true_iff; split; apply N.leb_le; lia);
            assert (Hv' : dval (48 + h) = h) by (unfold dval; lia); rewrite Hd', Hv' end
        | progress cbn -[is_digit is_up is_low take_while number dval str_of_N N.add] ];
      rewrite ?Pos.mul_1_r; try reflexivity.
Qed.

Lemma str_of_N_small h : (1 <= h <= 9)%N -> str_of_N h = [(48 + h)%N].
Proof.
  intro H. assert (C : (h = 1 \/ h = 2 \/ h = 3 \/ h = 4 \/ h = 5 \/ h = 6 \/ h = 7 \/ h = 8 \/ h = 9)%N) by lia.
  repeat (destruct C as [->|C]; [reflexivity|]). subst. reflexivity.
Qed.

Lemma elem_no_rb e : elem_shape e = true -> ~ In 93%N e.
Proof.
  destruct e as [|E1 [|e2 [|? ?]]]; try discriminate; cbn [elem_shape]; intros H Hin.
  - destruct Hin as [->|[]]. discriminate H.
  - apply andb_true_iff in H as [A B]. destruct Hin as [->|[->|[]]]; [discriminate A|discriminate B].
Qed.

Definition first_ok (tok : str) : Prop := match tok with c :: _ => is_low c = false | [] => False end.

(* the token printed for a decoded atom is read back as that atom *)
Theorem atom_token_read a : AtomShape a ->
  exists tok, atom_to_smiles a true = Ok tok /\ first_ok tok /\
    forall f rest l, safe_start rest -> lex_smiles f rest = Some l ->
      lex_smiles (S f) (tok ++ rest) = Some (RAtom (abs_atom a) :: l).
Proof.
  intros [Har [(Ei & Ec & Eh & Eq & Ho)|(Hsh & Hel & (h & Eh & Hh9) & Hchi)]]; unfold atom_to_smiles; rewrite Har.
  - rewrite Ei, Ec, Eh, Eq. cbn [Z.eqb]. exists (a_element a). split; [reflexivity|].
    pose proof organic_shapes as F. rewrite forallb_forall in F. specialize (F _ Ho).
    assert (Hcap : cap_first (a_element a) = a_element a /\ first_ok (a_element a)).
    { destruct (a_element a) as [|c r]; [discriminate|].
      assert (U : is_upper c = true) by (destruct r as [|? [|? ?]]; cbn [elem_shape] in F; [exact F|apply andb_true_iff in F; tauto|discriminate]).
      destruct (upper_facts c U) as (_ & _ & L & _). split; [cbn; change (is_low c) with (is_lower c); now rewrite L|exact L]. }
    destruct Hcap as [Hcap Hf]. split; [exact Hf|]. intros f rest l Hs Hl. rewrite (organic_lex _ rest f l Ho Hs Hl). f_equal. f_equal.
    unfold plain, abs_atom. rewrite Hcap, Ei, Ec, Eh, Eq. reflexivity.
  - rewrite Eh.
    set (ds := match a_isotope a with Some n => str_of_N n | None => [] end).
    set (chs := match a_chirality a with Some c => c | None => [] end).
    set (hs := match h with
               | 0%N => match a_isotope a, a_chirality a, (a_charge a =? 0) with
                        | None, None, true => if mem_str (a_element a) organic_subset then lit "H0" else []
                        | _, _, _ => [] end
               | _ => ch "H" :: str_of_N h end).
    set (cs := if (a_charge a =? 0) then [] else str_of_Z_signed (a_charge a)).
    assert (Etok : match a_isotope a, a_chirality a, Some h, (a_charge a =? 0) with
                   | None, None, None, true => Ok (a_element a)
                   | iso, chi, hc, ch0 =>
                       Ok ((if true then lit "[" else []) ++
                           match iso with Some n => str_of_N n | None => [] end ++ a_element a ++
                           match chi with Some c => c | None => [] end ++
                           match hc with
                           | None => lit "HNone"
                           | Some 0%N => match iso, chi, ch0 with
                                         | None, None, true => if mem_str (a_element a) organic_subset then lit "H0" else []
                                         | _, _, _ => [] end
                           | Some h0 => ch "H" :: str_of_N h0 end ++
                           (if ch0 then [] else str_of_Z_signed (a_charge a)) ++ (if true then lit "]" else []))
                   end = Ok (91%N :: (ds ++ a_element a ++ chs ++ hs ++ cs) ++ [93%N])%list).
    { unfold ds, chs, hs, cs. destruct (a_isotope a); destruct (a_chirality a); destruct (a_charge a =? 0); destruct h;
        cbn [app lit]; f_equal; f_equal; repeat (rewrite <- app_assoc; cbn [app]); rewrite ?app_nil_r; reflexivity. }
    eexists. split; [exact Etok|]. split; [reflexivity|].
    intros f rest l Hs Hl.
    assert (Hiso : (ds = [] /\ a_isotope a = None) \/ (exists n, ds = str_of_N n /\ a_isotope a = Some n))
      by (unfold ds; destruct (a_isotope a); [right; eauto|left; auto]).
    assert (Hch : (chs = [] /\ a_chirality a = None) \/ (chs = [64%N] /\ a_chirality a = Some [64%N]) \/ (chs = [64%N; 64%N] /\ a_chirality a = Some [64%N; 64%N])).
    { unfold chs. destruct (a_chirality a) as [c|]; [|auto]. destruct Hchi as [-> | ->]; auto. }
    assert (Hhp : hpart hs h).
    { unfold hs, hpart. destruct h as [|p]; [|right; right; rewrite (str_of_N_small (N.pos p)) by lia; split; [reflexivity|lia]].
      destruct (a_isotope a); destruct (a_chirality a); destruct (a_charge a =? 0); auto. destruct (mem_str _ _); auto. }
    assert (Hcp : cpart cs (a_charge a)).
    { unfold cs, cpart. destruct (a_charge a) as [|p|p]; cbn [Z.eqb]; [auto|right; left; exists p; auto|right; right; exists p; auto]. }
    pose proof (parse_bracket_print ds (a_isotope a) (a_element a) chs (a_chirality a) hs h cs (a_charge a) Hiso Hsh Hch Hhp Hcp) as Pb.
    assert (Hnorb : ~ In 93%N (ds ++ a_element a ++ chs ++ hs ++ cs)%list).
    { intro Hin. repeat (apply in_app_iff in Hin as [Hin|Hin]).
      - unfold ds in Hin. destruct (a_isotope a); [exact (proj2 (proj2 (proj2 (str_of_N_digits n))) Hin)|destruct Hin].
      - exact (elem_no_rb _ Hsh Hin).
      - destruct Hch as [[-> _]|[[-> _]|[-> _]]]; cbn [In] in Hin; intuition discriminate.
      - destruct Hhp as [[-> _]|[[-> _]|[-> Hr]]]; cbn [In] in Hin; [tauto|intuition discriminate|]. destruct Hin as [X|[X|[]]]; [discriminate|lia].
      - destruct Hcp as [[-> _]|[(p & -> & _)|(p & -> & _)]]; [destruct Hin| |];
          (destruct Hin as [X|Hin]; [discriminate|exact (proj2 (proj2 (proj2 (str_of_N_digits _))) Hin)]). }
    cbn [app lex_smiles]. cbn -[lex_smiles split_at_rb parse_bracket is_digit].
    rewrite <- app_assoc. cbn [app]. rewrite (split_at_rb_app _ rest Hnorb), Pb, Hl. unfold abs_atom. rewrite Eh. reflexivity.
Qed.
