(* EncArom.v — C05/C09: when kekulize succeeds, no atom is left aromatic.  Every aromatic atom is a key of the
   delocalisation subgraph from the moment the reader adds it (add_atom), keys are never removed, and kekulize clears the
   flag of every key: so the emitting walk never meets an aromatic atom (its assertion cannot fail). *)
From Coq Require Import Ascii String List Arith ZArith NArith Bool Lia.
Import ListNotations.
From Selfies Require Import Base Generated Lex Atoms Grammar Decoder Smiles PySet Matching Kekulize Encoder BaseFacts ConfigFacts DecoderInv
  EncHyp EncShape.
Local Open Scope nat_scope.

(* ---------- the dict int -> list of int ---------- *)
Lemma arr_set_same {A} : forall (l : list (option A)) k v, nth_error (arr_set l k v) k = Some (Some v).
Proof. induction l as [|x r IH]; induction k as [|k IHk]; intro v; cbn [arr_set nth_error]; try reflexivity; [apply IHk|apply IH]. Qed.

Lemma arr_set_other {A} : forall (l : list (option A)) k v j, j <> k ->
  match nth_error (arr_set l k v) j with Some (Some x) => Some x | _ => None end = match nth_error l j with Some (Some x) => Some x | _ => None end.
Proof.
  induction l as [|x r IH]; intros k v j Hne.
  - revert j Hne. induction k as [|k IHk]; intros j Hne; destruct j as [|j]; cbn [arr_set nth_error]; try congruence; try reflexivity.
    + destruct j; reflexivity.
    + rewrite IHk by congruence. destruct j; reflexivity.
  - destruct k as [|k], j as [|j]; cbn [arr_set nth_error]; try congruence; try reflexivity. apply IH. congruence.
Qed.

Lemma lookup_store_same ds k v : ds_lookup (ds_store ds k v) k = Some v.
Proof. unfold ds_lookup, ds_store. cbn [ds_vals]. now rewrite arr_set_same. Qed.
Lemma lookup_store_other ds k v j : j <> k -> ds_lookup (ds_store ds k v) j = ds_lookup ds j.
Proof. intro H. unfold ds_lookup, ds_store. cbn [ds_vals]. now apply arr_set_other. Qed.

Definition dsWF (ds : dsub) : Prop := forall k, ds_lookup ds k <> None -> In k (ds_keys ds).

Lemma store_wf ds k v : dsWF ds -> dsWF (ds_store ds k v).
Proof.
  intros H j Hj. destruct (Nat.eq_dec j k) as [->|Hne].
  - unfold ds_store. cbn [ds_keys]. destruct (ds_lookup ds k) eqn:E; [apply H; congruence|apply in_app_iff; right; now left].
  - rewrite lookup_store_other in Hj by exact Hne. specialize (H j Hj). unfold ds_store. cbn [ds_keys].
    destruct (ds_lookup ds k); [exact H|apply in_app_iff; now left].
Qed.

Lemma store_keeps ds k v j : ds_lookup ds j <> None -> ds_lookup (ds_store ds k v) j <> None.
Proof. intro H. destruct (Nat.eq_dec j k) as [->|Hne]; [rewrite lookup_store_same; discriminate|now rewrite lookup_store_other]. Qed.

Lemma append_wf ds k x : dsWF ds -> dsWF (ds_append ds k x). Proof. apply store_wf. Qed.
Lemma append_keeps ds k x j : ds_lookup ds j <> None -> ds_lookup (ds_append ds k x) j <> None. Proof. apply store_keeps. Qed.

Lemma items_in ds k : In k (ds_keys ds) -> ds_lookup ds k <> None -> In k (map fst (ds_items ds)).
Proof.
  intros Hk Hl. unfold ds_items. apply in_map_iff. destruct (ds_lookup ds k) as [v|] eqn:E; [|congruence].
  exists (k, v). split; [reflexivity|]. apply in_flat_map. exists k. split; [exact Hk|]. rewrite E. now left.
Qed.

(* ---------- the invariant of the reader ---------- *)
Definition Aro (m : emol) : Prop :=
  dsWF (m_ds m) /\ forall i p, nth_error (m_atoms m) i = Some p -> a_aromatic (fst p) = true -> ds_lookup (m_ds m) i <> None.

Lemma aro_same m m' : m_atoms m' = m_atoms m -> m_ds m' = m_ds m -> Aro m -> Aro m'.
Proof. unfold Aro. intros -> ->. auto. Qed.

Lemma add_count_ds m i d m' : mg_add_count2 m i d = Ok m' -> m_ds m' = m_ds m.
Proof. unfold mg_add_count2. destruct (lupd _ _ _); cbn [bind]; [intro E; inversion E; reflexivity|discriminate]. Qed.
Lemma at_loc_ds m b pos m' : mg_add_bond_at_loc m b pos = Ok m' -> m_ds m' = m_ds m.
Proof.
  unfold mg_add_bond_at_loc. destruct (lget _ _); cbn [bind]; [|discriminate].
  destruct (add_bond_at_loc _ _ _); cbn [bind]; [intro E; inversion E; reflexivity|discriminate].
Qed.

Lemma aro_append m a b : Aro m -> Aro (set_ds m (ds_append (ds_append (m_ds m) a b) b a)).
Proof.
  intros [W H]. split; cbn [set_ds m_ds m_atoms]; [now apply append_wf, append_wf|].
  intros i p Hi Ha. apply append_keeps, append_keeps. exact (H i p Hi Ha).
Qed.

Lemma add_bond_aro m src dst o2 st at_ m' : Aro m -> mg_add_bond m src dst o2 st at_ = Ok m' -> Aro m'.
Proof.
  intros Hm. unfold mg_add_bond. destruct (negb _); [discriminate|].
  destruct (mg_add_bond_at_loc _ _ _) as [m1|] eqn:E1; cbn [bind]; [|discriminate].
  destruct (mg_add_count2 m1 _ _) as [m2|] eqn:E2; cbn [bind]; [|discriminate].
  destruct (mg_add_count2 m2 _ _) as [m3|] eqn:E3; cbn [bind]; [|discriminate].
  assert (A3 : Aro m3).
  { apply (aro_same m); [| |exact Hm].
    - rewrite (add_count_atoms _ _ _ _ E3), (add_count_atoms _ _ _ _ E2). exact (add_at_loc_atoms _ _ _ _ E1).
    - rewrite (add_count_ds _ _ _ _ E3), (add_count_ds _ _ _ _ E2). exact (at_loc_ds _ _ _ _ E1). }
  destruct (_ =? _)%Z; intro E; inversion E; subst; [now apply aro_append|exact A3].
Qed.

Lemma placeholder_ds m src m' k : mg_add_placeholder_bond m src = Ok (m', k) -> m_ds m' = m_ds m.
Proof. unfold mg_add_placeholder_bond. destruct (lget _ _); cbn [bind]; [intro E; inversion E; reflexivity|discriminate]. Qed.

Lemma add_ring_aro m a b o2 sa sb pa pb m' : Aro m -> mg_add_ring_bond m a b o2 sa sb pa pb = Ok m' -> Aro m'.
Proof.
  intros Hm. unfold mg_add_ring_bond.
  destruct (mg_add_bond_at_loc m _ _) as [m1|] eqn:E1; cbn [bind]; [|discriminate].
  destruct (mg_add_bond_at_loc m1 _ _) as [m2|] eqn:E2; cbn [bind]; [|discriminate].
  destruct (mg_add_count2 m2 _ _) as [m3|] eqn:E3; cbn [bind]; [|discriminate].
  destruct (mg_add_count2 m3 _ _) as [m4|] eqn:E4; cbn [bind]; [|discriminate].
  destruct (lupd (m_ringflags m4) _ _) as [f1|]; cbn [bind]; [|discriminate].
  destruct (lupd f1 _ _) as [f2|]; cbn [bind]; [|discriminate].
  assert (A4 : Aro (set_ringflags m4 f2)).
  { apply (aro_same m); [| |exact Hm]; cbn [set_ringflags m_atoms m_ds].
    - rewrite (add_count_atoms _ _ _ _ E4), (add_count_atoms _ _ _ _ E3), (add_at_loc_atoms _ _ _ _ E2). exact (add_at_loc_atoms _ _ _ _ E1).
    - rewrite (add_count_ds _ _ _ _ E4), (add_count_ds _ _ _ _ E3), (at_loc_ds _ _ _ _ E2). exact (at_loc_ds _ _ _ _ E1). }
  destruct (_ =? _)%Z; intro E; inversion E; subst; [exact (aro_append _ a b A4)|exact A4].
Qed.

Lemma make_ring_aro m lt la lp rt ra m' : Aro m -> make_ring_bonds m lt la lp rt ra = Ok m' -> Aro m'.
Proof.
  intro Hm. unfold make_ring_bonds. destruct (_ =? _); [discriminate|]. destruct (mg_has_bond _ _ _); [discriminate|].
  match goal with |- (let '(b0, b1) := ?X in _) = _ -> _ => destruct X as [b0 b1] end.
  destruct (negb _); [discriminate|].
  destruct (smiles_to_bond2 (t_bond lt)) as [lo ls]. destruct (smiles_to_bond2 (t_bond rt)) as [ro rs].
  destruct (mg_get_atom m la); cbn [bind]; [|discriminate]. destruct (mg_get_atom m ra); cbn [bind]; [|discriminate].
  match goal with |- (let '(x, y) := ?X in _) = _ -> _ => destruct X as [lo' ro'] end. now apply add_ring_aro.
Qed.

Lemma attach_aro m tok a prev i m' idx i' : Aro m -> attach_atom m tok a prev i = Ok (m', idx, i') -> Aro m'.
Proof.
  intros [W H]. unfold attach_atom. destruct (mg_add_atom m a _) as [m1 ix] eqn:Ea.
  assert (A1 : Aro m1).
  { unfold mg_add_atom in Ea. inversion Ea; subst m1 ix; clear Ea. split; cbn [m_ds m_atoms].
    - destruct (a_aromatic a); [now apply store_wf|exact W].
    - intros j p Hj Hp. destruct (Nat.lt_ge_cases j (length (m_atoms m))) as [L|G].
      + rewrite nth_error_app1 in Hj by exact L. specialize (H j p Hj Hp). destruct (a_aromatic a); [now apply store_keeps|exact H].
      + rewrite nth_error_app2 in Hj by exact G. destruct (j - length (m_atoms m)) as [|q] eqn:Eq; cbn in Hj; [|destruct q; discriminate].
        inversion Hj; subst p. cbn [fst] in Hp. rewrite Hp. assert (j = mg_len m) by (unfold mg_len; lia). subst j.
        unfold ds_set_empty. rewrite lookup_store_same. discriminate. }
  destruct (mg_add_attr_atom m1 ix _) as [m2|] eqn:E2; cbn [bind]; [|discriminate].
  assert (A2 : Aro m2).
  { unfold mg_add_attr_atom in E2. destruct (m_attributable m1); [|inversion E2; subst; exact A1].
    destruct (lupd (m_atoms m1) ix _) as [l|] eqn:El; cbn [bind] in E2; [|discriminate]. inversion E2; subst. apply lupd_eq in El. subst l.
    destruct A1 as [W1 H1]. split; cbn [set_atoms m_ds m_atoms]; [exact W1|]. intros j p Hj Hp.
    rewrite nth_error_upd in Hj. destruct (Nat.eqb ix j); [|exact (H1 j p Hj Hp)].
    destruct (nth_error (m_atoms m1) j) as [p0|] eqn:E0; [|discriminate]. cbn in Hj. inversion Hj; subst p. exact (H1 j p0 E0 Hp). }
  destruct prev as [src|]; [|intro E; inversion E; subst; exact A2].
  destruct (smiles_to_bond2 (t_bond tok)) as [o2 st]. destruct (mg_get_atom m2 src); cbn [bind]; [|discriminate].
  destruct (mg_add_bond m2 _ _ _ _ _) as [m3|] eqn:E3; cbn [bind]; [|discriminate].
  apply add_bond_aro in E3; [|exact A2]. intro E; inversion E; subst. exact E3.
Qed.

Lemma derive_loop_aro : forall ts st st' rest, Aro (p_mol st) -> derive_loop ts st = Ok (st', rest) -> Aro (p_mol st').
Proof.
  induction ts as [|tok r IH]; intros st st' rest Hm E; cbn [derive_loop] in E; [inversion E; subst; exact Hm|].
  destruct (p_prev st) as [|prev below]; [discriminate|].
  destruct (t_type tok).
  - destruct (smiles_to_atom (t_text tok)) as [[a|]|]; cbn [bind] in E; try discriminate.
    destruct (attach_atom _ _ _ _ _) as [[[m' idx] i']|] eqn:Eat; cbn [bind] in E; [|discriminate].
    apply IH in E; [exact E|]. cbn [p_mol]. exact (attach_aro _ _ _ _ _ _ _ _ Hm Eat).
  - destruct (p_chain_start st); [discriminate|].
    destruct (str_eqb _ _); [apply IH in E; [exact E|exact Hm]|].
    destruct (p_branch st); [discriminate|]. apply IH in E; [exact E|exact Hm].
  - destruct (p_chain_start st); [discriminate|].
    destruct (ring_log_find _ _) as [[[ltok latom] lpos]|].
    + destruct (atom_index prev) as [ratom|]; cbn [bind] in E; [|discriminate].
      destruct (make_ring_bonds _ _ _ _ _ _) as [m'|] eqn:Er; cbn [bind] in E; [|discriminate].
      apply IH in E; [exact E|]. cbn [p_mol]. exact (make_ring_aro _ _ _ _ _ _ _ Hm Er).
    + destruct (atom_index prev) as [src|]; cbn [bind] in E; [|discriminate].
      destruct (mg_add_placeholder_bond _ _) as [[m' lpos]|] eqn:Epl; cbn [bind] in E; [|discriminate].
      apply IH in E; [exact E|]. cbn [p_mol]. apply (aro_same (p_mol st)); [exact (placeholder_atoms _ _ _ _ Epl)|exact (placeholder_ds _ _ _ _ Epl)|exact Hm].
  - inversion E; subst. exact Hm.
Qed.

Lemma fragments_aro : forall fuel m ts i m', Aro m -> fragments_loop fuel m ts i = Ok m' -> Aro m'.
Proof.
  induction fuel as [|f IH]; intros m ts i m' Hm E; [discriminate|]. cbn [fragments_loop] in E.
  destruct ts as [|t r]; [inversion E; subst; exact Hm|].
  destruct (derive_mol_from_tokens m (t :: r) i) as [[[m1 i1] rest]|] eqn:Ed; cbn [bind] in E; [|discriminate].
  apply IH in E; [exact E|]. unfold derive_mol_from_tokens in Ed.
  destruct (derive_loop (t :: r) _) as [[st rest']|] eqn:El; cbn [bind] in Ed; [|discriminate].
  apply derive_loop_aro in El; [|exact Hm].
  destruct (_ =? _); [discriminate|]. destruct (p_branch st); [|discriminate]. destruct (p_rings st); [|discriminate].
  inversion Ed; subst. exact El.
Qed.

Theorem parsed_aro smiles attributable m : smiles_to_mol smiles attributable = Ok m -> Aro m.
Proof.
  unfold smiles_to_mol. destruct smiles as [|c s]; [discriminate|].
  destruct (tokenize_smiles (c :: s)) as [ts|]; cbn [bind]; [|discriminate].
  apply fragments_aro. split; [intros k Hk; unfold ds_lookup in Hk; cbn in Hk; destruct k; contradiction|].
  intros i p Hi. destruct i; discriminate.
Qed.

(* ---------- kekulize clears every key ---------- *)
Definition arom_at (m : emol) (i : nat) : Prop := exists p, nth_error (m_atoms m) i = Some p /\ a_aromatic (fst p) = true.

Lemma dearomatize_clears : forall L m m', dearomatize m L = Ok m' ->
  forall i, arom_at m' i -> ~ In i (map fst L) /\ arom_at m i.
Proof.
  induction L as [|[node adjs] r IH]; intros m m' E i Hi; cbn [dearomatize] in E; [inversion E; subst; split; [intros []|exact Hi]|].
  destruct (set_single_bonds m node adjs) as [m1|] eqn:E1; cbn [bind] in E; [|discriminate].
  destruct (lupd (m_atoms m1) _ _) as [atoms'|] eqn:Ea; cbn [bind] in E; [|discriminate].
  destruct (lupd (m_counts2 m1) _ _) as [counts'|]; cbn [bind] in E; [|discriminate].
  destruct (IH _ _ E i Hi) as [Hn (p & Hp & Har)]. cbn [set_counts2 set_atoms m_atoms] in Hp.
  apply lupd_eq in Ea. subst atoms'. rewrite nth_error_upd in Hp. pose proof (single_bonds_atoms _ _ _ _ E1) as S1.
  destruct (Nat.eqb_spec node i) as [->|Hne].
  - destruct (nth_error (m_atoms m1) i); [|discriminate]. cbn in Hp. inversion Hp; subst p. cbn in Har. discriminate.
  - split; [cbn [map fst]; intros [H|H]; [congruence|exact (Hn H)]|]. exists p. rewrite <- S1. auto.
Qed.

Theorem kekulize_dearomatizes m m' : Aro m -> kekulize m = Ok (Some m') -> Forall (fun p => a_aromatic (fst p) = false) (m_atoms m').
Proof.
  intros [W H]. unfold kekulize.
  assert (Fin : forall mm, (forall i, ~ arom_at mm i) -> Forall (fun p => a_aromatic (fst p) = false) (m_atoms mm)).
  { intros mm Hn. apply Forall_forall. intros p Hp. apply In_nth_error in Hp as [i Hi]. destruct (a_aromatic (fst p)) eqn:E; [|reflexivity].
    exfalso. apply (Hn i). exists p. auto. }
  destruct (ds_is_empty (m_ds m)) eqn:Ee.
  - intro E; inversion E; subst. apply Fin. intros i (p & Hp & Ha). specialize (W i (H i p Hp Ha)).
    unfold ds_is_empty in Ee. destruct (ds_keys (m_ds m')); [destruct W|discriminate].
  - destruct (any_bad_element _ _) as [bad|]; cbn [bind]; [|discriminate]. destruct bad; [discriminate|].
    destruct (kept_nodes_of _ _) as [kn|]; cbn [bind]; [|discriminate].
    destruct (pruned_ds_of _ _ _) as [pruned|]; cbn [bind]; [|discriminate].
    destruct (find_perfect_matching pruned) as [[mt|]|]; cbn [bind]; try discriminate.
    destruct (dearomatize m _) as [m1|] eqn:E1; cbn [bind]; [|discriminate].
    destruct (set_double_bonds m1 _ _) as [m2|] eqn:E2; cbn [bind]; [|discriminate].
    intro E; inversion E; subst. apply Fin. intros i (p & Hp & Ha). cbn [set_ds m_atoms] in Hp. rewrite (double_bonds_atoms _ _ _ _ E2) in Hp.
    destruct (dearomatize_clears _ _ _ E1 i (ex_intro _ p (conj Hp Ha))) as [Hn (p0 & Hp0 & Ha0)].
    apply Hn. apply items_in; [apply W|]; exact (H i p0 Hp0 Ha0).
Qed.
