(* BaseFacts.v — lemmas about the Python-string layer of the model (Base.v). *)
From Coq Require Import Ascii String List Arith ZArith NArith Bool Lia.
Import ListNotations.
From Selfies Require Import Base.

Lemma str_eqb_refl : forall a, str_eqb a a = true.
Proof. induction a as [|x a IH]; cbn; [reflexivity|]. now rewrite N.eqb_refl, IH. Qed.

Lemma str_eqb_eq : forall a b, str_eqb a b = true <-> a = b.
Proof.
  induction a as [|x a IH]; destruct b as [|y b]; cbn; split; intro H; try congruence; try reflexivity.
  - apply andb_true_iff in H as [H1 H2]. apply N.eqb_eq in H1. apply IH in H2. congruence.
  - inversion H; subst. now rewrite N.eqb_refl, str_eqb_refl.
Qed.

Lemma str_eqb_neq : forall a b, str_eqb a b = false <-> a <> b.
Proof.
  intros a b. split; intro H.
  - intro E. apply str_eqb_eq in E. congruence.
  - destruct (str_eqb a b) eqn:E; [|reflexivity]. apply str_eqb_eq in E. contradiction.
Qed.

Lemma str_eqb_sym : forall a b, str_eqb a b = str_eqb b a.
Proof.
  intros a b. destruct (str_eqb a b) eqn:E.
  - apply str_eqb_eq in E. subst. now rewrite str_eqb_refl.
  - destruct (str_eqb b a) eqn:E2; [|reflexivity]. apply str_eqb_eq in E2. subst.
    now rewrite str_eqb_refl in E.
Qed.

Lemma mem_str_In : forall s l, mem_str s l = true <-> In s l.
Proof.
  induction l as [|x l IH]; cbn; [split; [discriminate|tauto]|].
  rewrite orb_true_iff, IH, str_eqb_eq. split; intros [H|H]; auto.
Qed.

Lemma assoc_none {A} : forall k (l : list (str * A)), ~ In k (map fst l) -> assoc k l = None.
Proof.
  induction l as [|[k' v] l IH]; cbn; intro H; [reflexivity|].
  destruct (str_eqb k k') eqn:E.
  - apply str_eqb_eq in E. subst. tauto.
  - apply IH. tauto.
Qed.

Lemma assoc_in {A} : forall k (l : list (str * A)) v, assoc k l = Some v -> In (k, v) l.
Proof.
  induction l as [|[k' v'] l IH]; cbn; intros v H; [discriminate|].
  destruct (str_eqb k k') eqn:E.
  - apply str_eqb_eq in E. inversion H; subst. now left.
  - right. now apply IH.
Qed.

(* ---------- positional digits ---------- *)
Definition hstep (base : N) (acc d : N) : N := (acc * base + d)%N.

Lemma horner_unfold base ds : horner base ds = fold_left (hstep base) ds 0%N.
Proof. reflexivity. Qed.

Lemma digits_fuel_value : forall base fuel n acc,
  (2 <= base)%N -> (N.log2 n < N.of_nat fuel)%N ->
  fold_left (hstep base) (digits_fuel fuel base n acc) 0%N = fold_left (hstep base) acc n.
Proof.
  intros base fuel. induction fuel as [|f IH]; intros n acc Hb Hf; [lia|].
  cbn [digits_fuel]. destruct (N.eqb_spec (n / base) 0) as [E|E].
  - cbn [fold_left]. unfold hstep at 2. f_equal.
    rewrite N.mul_0_l, N.add_0_l. apply N.mod_small. apply N.div_small_iff in E; lia.
  - rewrite IH; [|exact Hb|].
    + cbn [fold_left]. unfold hstep at 2. f_equal.
      rewrite N.mul_comm. symmetry. apply N.div_mod. lia.
    + assert (Hn : (base <= n)%N).
      { destruct (N.lt_ge_cases n base) as [L|L]; [|exact L]. apply N.div_small in L. contradiction. }
      assert (H2 : (n / base <= n / 2)%N) by (apply N.div_le_compat_l; lia).
      assert (H3 : (N.log2 (n / base) <= N.log2 (n / 2))%N) by (apply N.log2_le_mono; exact H2).
      assert (H4 : (N.log2 (n / 2) = N.log2 n - 1)%N).
      { rewrite <- N.div2_div, N.div2_spec. apply N.log2_shiftr. }
      assert (0 < N.log2 n)%N by (apply N.log2_pos; lia).
      lia.
Qed.

Lemma digits_value base n : (2 <= base)%N -> horner base (digits base n) = n.
Proof.
  intro Hb. unfold digits. rewrite horner_unfold, digits_fuel_value; [reflexivity|exact Hb|lia].
Qed.

Lemma digits_fuel_range : forall base fuel n acc,
  (0 < base)%N -> Forall (fun d => d < base)%N acc ->
  Forall (fun d => d < base)%N (digits_fuel fuel base n acc).
Proof.
  intros base fuel. induction fuel as [|f IH]; intros n acc Hb Ha; [exact Ha|].
  cbn [digits_fuel].
  assert (Forall (fun d => d < base)%N (n mod base :: acc)%N).
  { constructor; [apply N.mod_lt; lia|exact Ha]. }
  destruct (n / base =? 0)%N; [assumption|]. now apply IH.
Qed.

Lemma digits_range base n : (0 < base)%N -> Forall (fun d => d < base)%N (digits base n).
Proof. intro Hb. unfold digits. now apply digits_fuel_range. Qed.

(* shape: result = (digits of n, at least one) ++ acc; leading digit non-zero when n > 0 *)
Lemma digits_fuel_shape : forall base fuel n acc,
  (2 <= base)%N -> (N.log2 n < N.of_nat fuel)%N ->
  exists ds, digits_fuel fuel base n acc = ds ++ acc /\ ds <> [] /\
             ((0 < n)%N -> (0 < hd 0 ds)%N) /\
             (n < base ^ N.of_nat (length ds))%N /\
             ((0 < n)%N -> (base ^ N.of_nat (length ds - 1) <= n)%N).
Proof.
  intros base fuel. induction fuel as [|f IH]; intros n acc Hb Hf; [lia|].
  cbn [digits_fuel]. destruct (N.eqb_spec (n / base) 0) as [E|E].
  - exists [n mod base]%N. apply N.div_small_iff in E; [|lia].
    cbn [length hd Nat.sub]. rewrite N.mod_small by exact E.
    split; [reflexivity|]. split; [discriminate|]. split; [intros; lia|].
    split; [change (N.of_nat 1) with 1%N; rewrite N.pow_1_r; exact E|].
    intros; change (N.of_nat 0) with 0%N; rewrite N.pow_0_r; lia.
  - assert (Hn : (base <= n)%N).
    { destruct (N.lt_ge_cases n base) as [L|L]; [|exact L]. apply N.div_small in L. contradiction. }
    destruct (IH (n / base)%N (n mod base :: acc)%N Hb) as (ds & Hds & Hne & Hhd & Hlt & Hge).
    { assert (H2 : (n / base <= n / 2)%N) by (apply N.div_le_compat_l; lia).
      assert (H3 : (N.log2 (n / base) <= N.log2 (n / 2))%N) by (apply N.log2_le_mono; exact H2).
      assert (H4 : (N.log2 (n / 2) = N.log2 n - 1)%N).
      { rewrite <- N.div2_div, N.div2_spec. apply N.log2_shiftr. }
      assert (0 < N.log2 n)%N by (apply N.log2_pos; lia). lia. }
    exists (ds ++ [n mod base])%N. rewrite Hds, <- app_assoc. cbn [app].
    assert (Hq : (0 < n / base)%N) by (apply N.neq_0_lt_0; exact E).
    repeat split.
    + destruct ds; cbn; discriminate.
    + intros _. destruct ds as [|d ds']; [contradiction|]. cbn. apply Hhd. exact Hq.
    + rewrite app_length. cbn [length]. rewrite Nat.add_1_r, Nat2N.inj_succ, N.pow_succ_r'.
      pose proof (N.div_mod n base ltac:(lia)) as Hdm.
      pose proof (N.mod_lt n base ltac:(lia)) as Hm.
      nia.
    + intros _. rewrite app_length. cbn [length].
      replace (length ds + 1 - 1)%nat with (S (length ds - 1))%nat.
      2:{ destruct ds; [contradiction|cbn; lia]. }
      rewrite Nat2N.inj_succ, N.pow_succ_r'.
      specialize (Hge Hq).
      pose proof (N.div_mod n base ltac:(lia)) as Hdm.
      apply N.le_trans with (base * (n / base))%N; [apply N.mul_le_mono_l; exact Hge|apply N.mul_div_le; lia].
Qed.

Lemma digits_shape base n : (2 <= base)%N ->
  digits base n <> [] /\ ((0 < n)%N -> (0 < hd 0 (digits base n))%N) /\
  (n < base ^ N.of_nat (length (digits base n)))%N /\
  ((0 < n)%N -> (base ^ N.of_nat (length (digits base n) - 1) <= n)%N).
Proof.
  intro Hb. unfold digits.
  destruct (digits_fuel_shape base (S (N.to_nat (N.log2 n))) n [] Hb ltac:(lia))
    as (ds & Hds & H1 & H2 & H3 & H4).
  rewrite Hds, app_nil_r. auto.
Qed.
