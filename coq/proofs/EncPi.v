(* EncPi.v — C05: where kekulize puts the double bonds, relative to its own pruning decision.  For every graph the reader
   built on which kekulize succeeds: (1) every atom the pruning keeps ("needs a pi bond") ends with a double bond to
   another kept atom along a bond that was aromatic; (2) an atom the pruning drops has no bond raised: every bond at
   such an atom keeps its order, except that an aromatic one becomes single. *)
From Coq Require Import Ascii String List Arith ZArith NArith Bool Lia.
Import ListNotations.
From Selfies Require Import Base Generated Lex Atoms Grammar Decoder Smiles PySet Matching Kekulize Encoder BaseFacts ConfigFacts DecoderInv
  ParserTotal EncHyp EncShape EncTokens EncRows EncAttr EncStereo EncFuel EncIndex EncKey EncAttrErr EncArom EncUniq EncOrders EncKek EncMatch EncKeep.
Local Open Scope nat_scope.

(* ---------- Rel with the set of new orders as a parameter ---------- *)
Definition RS' (S : Z -> Prop) (x y : Z) : Prop := y = x \/ (x = 3%Z /\ S y).
Definition RelS (S : Z -> Prop) (m0 m : emol) : Prop :=
  forall j row' e', nth_error (m_adj m) j = Some row' -> In (Some e') row' ->
    exists row0 e0, nth_error (m_adj m0) j = Some row0 /\ In (Some e0) row0 /\ e_dst e' = e_dst e0 /\ RS' S (e_order2 e0) (e_order2 e').

Lemma relS_refl (Sg : Z -> Prop) m : RelS Sg m m.
Proof. intros j row e Hn Hin. exists row, e. split; [exact Hn|]. split; [exact Hin|]. split; [reflexivity|now left]. Qed.

Lemma update_relS (Sg : Z -> Prop) m0 m a0 b0 o m' : U m0 -> EQ m0 -> edge3 m0 a0 b0 -> Sg o -> RelS Sg m0 m ->
  mg_update_bond_order m a0 b0 o = Ok m' -> RelS Sg m0 m'.
Proof.
  intros Hu Hq (r3 & e3 & Hn3 & Hi3 & Hd3 & Ho3) Ho Hr E. destruct (update_desc _ _ _ _ _ E) as (rowa & ab & Era & Ef & Cases). cbv zeta in Cases.
  set (a := Nat.min a0 b0) in *. set (b := Nat.max a0 b0) in *.
  destruct Cases as [[_ ->]|[_ Hdesc]]; [exact Hr|].
  intros j row' e' Hn' Hin'. destruct (Hdesc j row' e' Hn' Hin') as (row1 & e1 & Hn1 & Hi1 & Hd1 & Hord).
  destruct (Hr j row1 e1 Hn1 Hi1) as (row0 & e0 & Hn0 & Hi0 & Hd0 & Hr0). exists row0, e0. split; [exact Hn0|]. split; [exact Hi0|]. split; [congruence|].
  match type of Hord with _ = (if ?c then _ else _) => destruct c eqn:Ec end; [|rewrite Hord; exact Hr0].
  rewrite Hord. right. split; [|exact Ho].
  assert (Hcase : (a = j /\ e_dst e0 = b) \/ (b = j /\ e_dst e0 = a)).
  { rewrite Hd0 in Ec. destruct (e_ring ab).
    - apply orb_true_iff in Ec as [Ec|Ec]; apply andb_true_iff in Ec as [X Y]; apply Nat.eqb_eq in X, Y; [right|left]; auto.
    - apply andb_true_iff in Ec as [X Y]; apply Nat.eqb_eq in X, Y. left; auto. }
  destruct Hcase as [[<- Hdb]|[<- Hda]].
  - rewrite Hn3 in Hn0. inversion Hn0; subst row0.
    destruct (In_pos _ _ Hi3) as [p Hp]. destruct (In_pos _ _ Hi0) as [q Hq0].
    assert (p = q) by (apply (Hu a r3 p q e3 e0 Hn3 Hp Hq0); congruence). subst q. congruence.
  - rewrite <- Ho3. symmetry. exact (Hq a b r3 row0 e3 e0 Hn3 Hi3 Hd3 Hn0 Hi0 Hda).
Qed.

Lemma single_bonds_relS (Sg : Z -> Prop) m0 : U m0 -> EQ m0 -> Sg 2%Z -> forall adjs m node m', (forall d, In d adjs -> edge3 m0 node d) -> RelS Sg m0 m ->
  set_single_bonds m node adjs = Ok m' -> RelS Sg m0 m'.
Proof.
  intros Hu Hq HS. induction adjs as [|x r IH]; intros m node m' Ha Hr E; cbn [set_single_bonds] in E; [inversion E; subst; exact Hr|].
  destruct (mg_update_bond_order m node x 2) as [m1|] eqn:E1; cbn [bind] in E; [|discriminate].
  apply (IH m1 node m'); [intros d Hd; apply Ha; now right| |exact E].
  exact (update_relS Sg m0 m node x 2 m1 Hu Hq (Ha x (or_introl eq_refl)) HS Hr E1).
Qed.

Lemma dearomatize_relS (Sg : Z -> Prop) m0 : U m0 -> EQ m0 -> Sg 2%Z -> forall L m m', (forall node adjs, In (node, adjs) L -> forall d, In d adjs -> edge3 m0 node d) -> RelS Sg m0 m ->
  dearomatize m L = Ok m' -> RelS Sg m0 m'.
Proof.
  intros Hu Hq HS. induction L as [|[node adjs] r IH]; intros m m' Hl Hr E; cbn [dearomatize] in E; [inversion E; subst; exact Hr|].
  destruct (set_single_bonds m node adjs) as [m1|] eqn:E1; cbn [bind] in E; [|discriminate].
  destruct (lupd (m_atoms m1) _ _) as [atoms'|]; cbn [bind] in E; [|discriminate].
  destruct (lupd (m_counts2 m1) _ _) as [counts'|]; cbn [bind] in E; [|discriminate].
  pose proof (single_bonds_relS Sg m0 Hu Hq HS adjs m node m1 (Hl node adjs (or_introl eq_refl)) Hr E1) as R1.
  apply (IH (set_counts2 (set_atoms m1 atoms') counts') m'); [intros n0 a0 Hin; apply Hl; now right|exact R1|exact E].
Qed.

(* ---------- raising the matched pairs ---------- *)
Definition has4 (m : emol) (x y : nat) : Prop :=
  exists row e, nth_error (m_adj m) (Nat.min x y) = Some row /\ In (Some e) row /\ e_dst e = Nat.max x y /\ e_order2 e = 4%Z.

Lemma update_sets4 m a0 b0 m' : mg_update_bond_order m a0 b0 4 = Ok m' -> has4 m' a0 b0.
Proof.
  intro E. pose proof (update_order_grows _ _ _ _ _ E) as G. destruct (update_desc _ _ _ _ _ E) as (rowa & ab & Era & Ef & Cases). cbv zeta in Cases.
  set (a := Nat.min a0 b0) in *. set (b := Nat.max a0 b0) in *.
  destruct Cases as [[Ho ->]|[_ Hdesc]]; [exists rowa, ab; split; [exact Era|]; split; [exact (find_edge_In _ _ _ Ef)|]; split; [exact (find_edge_dst _ _ _ Ef)|exact Ho]|].
  assert (He : edge_in m' a b (e_ring ab)) by (apply G; left; exists rowa, ab; split; [exact Era|]; split; [exact (find_edge_In _ _ _ Ef)|]; split; [exact (find_edge_dst _ _ _ Ef)|reflexivity]).
  destruct He as (row' & e' & Hn' & Hi' & Hd' & _). exists row', e'. split; [exact Hn'|]. split; [exact Hi'|]. split; [exact Hd'|].
  destruct (Hdesc a row' e' Hn' Hi') as (row0 & e0 & Hn0 & Hi0 & Hd0 & Hord). rewrite Hord.
  assert (Eb : (e_dst e0 =? b) = true) by (apply Nat.eqb_eq; congruence). rewrite Nat.eqb_refl, Eb. cbn [andb]. destruct (e_ring ab); [rewrite orb_true_r|]; reflexivity.
Qed.

Lemma update_keeps4 m a0 b0 m' x y : U m -> mg_update_bond_order m a0 b0 4 = Ok m' -> has4 m x y -> has4 m' x y.
Proof.
  intros Hu E (row & e & Hn & Hi & Hd & Ho). pose proof (update_order_grows _ _ _ _ _ E) as G. destruct (update_desc _ _ _ _ _ E) as (rowa & ab & Era & Ef & Cases). cbv zeta in Cases.
  destruct Cases as [[_ ->]|[_ Hdesc]]; [exists row, e; auto|].
  assert (He : edge_in m' (Nat.min x y) (Nat.max x y) (e_ring e)) by (apply G; left; exists row, e; auto).
  destruct He as (row' & e' & Hn' & Hi' & Hd' & _). exists row', e'. split; [exact Hn'|]. split; [exact Hi'|]. split; [exact Hd'|].
  destruct (Hdesc _ row' e' Hn' Hi') as (row0 & e0 & Hn0 & Hi0 & Hd0 & Hord). rewrite Hn in Hn0. inversion Hn0; subst row0.
  assert (e0 = e).
  { destruct (In_pos _ _ Hi0) as [p Hp]. destruct (In_pos _ _ Hi) as [q Hq]. assert (p = q) by (apply (Hu _ row p q e0 e Hn Hp Hq); congruence). subst q. congruence. }
  subst e0. rewrite Hord, Ho. destruct (if e_ring ab then _ else _); reflexivity.
Qed.

Lemma double_bonds_has4 l2n : forall prs m m', Q4 m -> set_double_bonds m l2n prs = Ok m' ->
  (forall i j a b, In (i, Some j) prs -> nth_error l2n i = Some a -> nth_error l2n j = Some b -> has4 m' a b) /\ (forall x y, has4 m x y -> has4 m' x y).
Proof.
  induction prs as [|[i oj] r IH]; intros m m' HQ E; cbn [set_double_bonds] in E; [inversion E; subst; split; [intros ? ? ? ? []|auto]|].
  destruct (lget l2n i) as [a|] eqn:Ea; cbn [bind] in E; [|discriminate]. destruct oj as [j|]; [|discriminate].
  destruct (lget l2n j) as [b|] eqn:Eb; cbn [bind] in E; [|discriminate].
  destruct (mg_update_bond_order m a b 4) as [m1|] eqn:E1; cbn [bind] in E; [|discriminate].
  destruct (IH m1 m' (update_order_q4 _ _ _ _ _ HQ E1) E) as [H1 H2]. pose proof HQ as (_ & _ & Hu & _). split.
  - intros i0 j0 a1 b1 [Hin|Hin] Hi Hj; [|exact (H1 i0 j0 a1 b1 Hin Hi Hj)]. inversion Hin; subst i0 j0. apply lget_In in Ea, Eb.
    rewrite Hi in Ea. rewrite Hj in Eb. inversion Ea; inversion Eb; subst. apply H2. exact (update_sets4 _ _ _ _ E1).
  - intros x y H. apply H2. exact (update_keeps4 _ _ _ _ x y Hu E1 H).
Qed.

(* an update between a and b leaves the bonds at any other atom alone *)
Lemma update_elsewhere m a0 b0 o m' p : mg_update_bond_order m a0 b0 o = Ok m' -> p <> a0 -> p <> b0 ->
  forall j row' e', nth_error (m_adj m') j = Some row' -> In (Some e') row' -> j = p \/ e_dst e' = p ->
    exists row0 e0, nth_error (m_adj m) j = Some row0 /\ In (Some e0) row0 /\ e_dst e' = e_dst e0 /\ e_order2 e' = e_order2 e0.
Proof.
  intros E Ha Hb j row' e' Hn Hin Hp. destruct (update_desc _ _ _ _ _ E) as (rowa & ab & Era & Ef & Cases). cbv zeta in Cases.
  destruct Cases as [[_ ->]|[_ Hdesc]]; [exists row', e'; auto|].
  destruct (Hdesc j row' e' Hn Hin) as (row0 & e0 & Hn0 & Hi0 & Hd0 & Hord). exists row0, e0. split; [exact Hn0|]. split; [exact Hi0|]. split; [exact Hd0|].
  rewrite Hord.
  assert (Hmm : p <> Nat.min a0 b0 /\ p <> Nat.max a0 b0) by (split; [destruct (Nat.min_spec a0 b0) as [[_ ->]|[_ ->]]|destruct (Nat.max_spec a0 b0) as [[_ ->]|[_ ->]]]; assumption).
  destruct Hmm as [Hmi Hma].
  assert (C1 : ((Nat.min a0 b0 =? j) && (e_dst e0 =? Nat.max a0 b0)) = false).
  { destruct (Nat.eqb_spec (Nat.min a0 b0) j) as [X|X]; [|reflexivity]. destruct (Nat.eqb_spec (e_dst e0) (Nat.max a0 b0)) as [Y|Y]; [|reflexivity]. exfalso. destruct Hp; congruence. }
  assert (C2 : ((Nat.max a0 b0 =? j) && (e_dst e0 =? Nat.min a0 b0)) = false).
  { destruct (Nat.eqb_spec (Nat.max a0 b0) j) as [X|X]; [|reflexivity]. destruct (Nat.eqb_spec (e_dst e0) (Nat.min a0 b0)) as [Y|Y]; [|reflexivity]. exfalso. destruct Hp; congruence. }
  rewrite C1, C2. destruct (e_ring ab); reflexivity.
Qed.

Lemma double_bonds_elsewhere l2n p : ~ In p l2n -> forall prs m m', set_double_bonds m l2n prs = Ok m' ->
  forall j row' e', nth_error (m_adj m') j = Some row' -> In (Some e') row' -> j = p \/ e_dst e' = p ->
    exists row0 e0, nth_error (m_adj m) j = Some row0 /\ In (Some e0) row0 /\ e_dst e' = e_dst e0 /\ e_order2 e' = e_order2 e0.
Proof.
  intros Hp. induction prs as [|[i oj] r IH]; intros m m' E j row' e' Hn Hin Hj; cbn [set_double_bonds] in E; [inversion E; subst; exists row', e'; auto|].
  destruct (lget l2n i) as [a|] eqn:Ea; cbn [bind] in E; [|discriminate]. destruct oj as [j0|]; [|discriminate].
  destruct (lget l2n j0) as [b|] eqn:Eb; cbn [bind] in E; [|discriminate].
  destruct (mg_update_bond_order m a b 4) as [m1|] eqn:E1; cbn [bind] in E; [|discriminate].
  destruct (IH m1 m' E j row' e' Hn Hin Hj) as (row1 & e1 & Hn1 & Hi1 & Hd1 & Ho1).
  apply lget_In, nth_error_In in Ea, Eb.
  destruct (update_elsewhere m a b 4 m1 p E1 ltac:(intros ->; contradiction) ltac:(intros ->; contradiction) j row1 e1 Hn1 Hi1 ltac:(destruct Hj; [now left|right; congruence]))
    as (row0 & e0 & Hn0 & Hi0 & Hd0 & Ho0).
  exists row0, e0. split; [exact Hn0|]. split; [exact Hi0|]. split; congruence.
Qed.

Lemma insert_sorted_in' x y : forall l, y = x \/ In y l -> In y (insert_sorted x l).
Proof.
  induction l as [|z r IH]; cbn [insert_sorted]; [intros [->|[]]; now left|].
  destruct (x <=? z); [intros [->|H]; [now left|now right]|intros [->|[->|H]]; [right; apply IH; now left|now left|right; apply IH; now right]].
Qed.
Lemma sort_nat_in' y : forall l, In y l -> In y (sort_nat l).
Proof. induction l as [|x r IH]; cbn [sort_nat fold_right]; [intros []|]. intros [->|H]; apply insert_sorted_in'; [now left|right; now apply IH]. Qed.

(* ---------- the theorem ---------- *)
Theorem kekulize_pi m m' : Q4 m -> K3 m (m_ds m) -> kekulize m = Ok (Some m') ->
  exists kept, (ds_is_empty (m_ds m) = false -> kept_nodes_of m (ds_keys (m_ds m)) = Ok kept) /\
    (forall k, In k kept -> exists k', In k' kept /\ edge3 m k k' /\ has4 m' k k') /\
    (forall p, ~ In p kept -> forall j row' e', nth_error (m_adj m') j = Some row' -> In (Some e') row' -> j = p \/ e_dst e' = p ->
       exists row0 e0, nth_error (m_adj m) j = Some row0 /\ In (Some e0) row0 /\ e_dst e' = e_dst e0 /\
         (e_order2 e' = e_order2 e0 \/ (e_order2 e0 = 3 /\ e_order2 e' = 2))%Z).
Proof.
  intros HQ Hk E. pose proof HQ as (_ & _ & Hu & Hq). unfold kekulize in E. destruct (ds_is_empty (m_ds m)) eqn:Eemp.
  { inversion E; subst m'. exists []. split; [discriminate|]. split; [intros k []|]. intros p _ j row' e' Hn Hin _. exists row', e'. auto. }
  destruct (any_bad_element _ _) as [bad|]; cbn [bind] in E; [|discriminate]. destruct bad; [discriminate|].
  destruct (kept_nodes_of _ _) as [kept|] eqn:Ekept; cbn [bind] in E; [|discriminate].
  destruct (pruned_ds_of _ _ _) as [g|] eqn:Eg; cbn [bind] in E; [|discriminate].
  destruct (find_perfect_matching g) as [[mt|]|] eqn:Em; cbn [bind] in E; try discriminate.
  destruct (dearomatize m _) as [m1|] eqn:E1; cbn [bind] in E; [|discriminate].
  destruct (set_double_bonds m1 _ _) as [m2|] eqn:E2; cbn [bind] in E; [|discriminate].
  inversion E; subst m'. cbn [set_ds m_adj]. exists kept. split; [reflexivity|].
  destruct (perfect_matching_valid _ _ Em) as [[Lm Hm] Hperf]. destruct (pruned_spec _ _ _ _ Eg) as [Lg _].
  pose proof (dearomatize_q4 _ _ _ HQ E1) as Q1. destruct (double_bonds_has4 (sort_nat kept) _ m1 m2 Q1 E2) as [H4 _].
  split.
  - intros k Hkin. apply sort_nat_in' in Hkin. destruct (In_nth_error _ _ Hkin) as [i Hi].
    assert (Li : i < length mt) by (rewrite Lm, Lg; apply nth_error_Some; congruence).
    destruct (Hperf i Li) as [j Hj]. pose proof (enum_from_in mt 0 i (Some j) Hj) as Hin. cbn [plus] in Hin.
    assert (X : exists nj, nth_error (sort_nat kept) j = Some nj /\ edge3 m k nj).
    { destruct (Hm i j Hj) as [He|He].
      - destruct (gedge_link3 m _ g Hk Eg i j He) as (ni & nj & A & B & C). rewrite Hi in A. inversion A; subst ni. eauto.
      - destruct (gedge_link3 m _ g Hk Eg j i He) as (nj & ni & A & B & C). rewrite Hi in B. inversion B; subst ni. exists nj. split; [exact A|exact (edge3_sym _ _ _ C)]. }
    destruct X as (nj & Hnj & He3). exists nj. split; [exact (sort_nat_in _ _ (nth_error_In _ _ Hnj))|]. split; [exact He3|].
    destruct (H4 i j k nj Hin Hi Hnj) as (row & e & A & B & C & D). exists row, e. auto.
  - intros p Hp j row' e' Hn Hin Hj.
    destruct (double_bonds_elsewhere (sort_nat kept) p (fun H => Hp (sort_nat_in _ _ H)) _ m1 m2 E2 j row' e' Hn Hin Hj) as (row1 & e1 & Hn1 & Hi1 & Hd1 & Ho1).
    pose proof (dearomatize_relS (fun y => y = 2%Z) m Hu Hq eq_refl (ds_items (m_ds m)) m m1
                  (fun node adjs Hin0 d Hd => Hk node adjs d (proj1 (items_spec _ _ _ Hin0)) Hd) (relS_refl _ m) E1) as R1.
    destruct (R1 j row1 e1 Hn1 Hi1) as (row0 & e0 & Hn0 & Hi0 & Hd0 & HR). exists row0, e0. split; [exact Hn0|]. split; [exact Hi0|]. split; [congruence|].
    rewrite Ho1. destruct HR as [HR|[H3 HR]]; [left; exact HR|right; auto].
Qed.

Theorem parsed_kekulize_pi smiles attributable m0 m1 : smiles_to_mol smiles attributable = Ok m0 -> kekulize m0 = Ok (Some m1) ->
  exists kept, (ds_is_empty (m_ds m0) = false -> kept_nodes_of m0 (ds_keys (m_ds m0)) = Ok kept) /\
    (forall k, In k kept -> exists k', In k' kept /\ edge3 m0 k k' /\ has4 m1 k k') /\
    (forall p, ~ In p kept -> forall j row' e', nth_error (m_adj m1) j = Some row' -> In (Some e') row' -> j = p \/ e_dst e' = p ->
       exists row0 e0, nth_error (m_adj m0) j = Some row0 /\ In (Some e0) row0 /\ e_dst e' = e_dst e0 /\
         (e_order2 e' = e_order2 e0 \/ (e_order2 e0 = 3 /\ e_order2 e' = 2))%Z).
Proof.
  intros Ep Ek. destruct (parsed_gue _ _ _ Ep) as (_ & _ & _ & Hrs & Hrow & _ & Hu & Hq).
  exact (kekulize_pi m0 m1 (conj Hrow (conj Hrs (conj Hu Hq))) (parsed_k3 _ _ _ Ep) Ek).
Qed.
