(* ConfigFacts.v — C12 (and the state part of C11): the configuration API over
   all call histories. *)
From Coq Require Import Ascii String List Arith ZArith NArith Bool Lia.
Import ListNotations.
From Selfies Require Import Base Generated Atoms Grammar Decoder Encoder Config History BaseFacts.

(* ---------- heap facts ---------- *)
Lemma hget_alloc_old h o i : (i < length h)%nat -> hget (fst (alloc h o)) i = hget h i.
Proof. intro H. unfold alloc, hget. cbn [fst]. now rewrite nth_error_app1. Qed.

Lemma hget_alloc_new h o : hget (fst (alloc h o)) (snd (alloc h o)) = Some o.
Proof. unfold alloc, hget. cbn [fst snd]. rewrite nth_error_app2, Nat.sub_diag by lia. reflexivity. Qed.

Lemma alloc_length h o : length (fst (alloc h o)) = S (length h).
Proof. unfold alloc. cbn [fst]. rewrite app_length. cbn. lia. Qed.

Lemma upd_length {A} (l : list A) i f : length (upd l i f) = length l.
Proof. revert i. induction l as [|x l IH]; intros [|i]; cbn; auto. Qed.

Lemma nth_error_upd_other {A} (l : list A) i j f : i <> j -> nth_error (upd l i f) j = nth_error l j.
Proof.
  revert i j. induction l as [|x l IH]; intros [|i] [|j] H; cbn; try reflexivity; try congruence.
  apply IH. congruence.
Qed.

Lemma mutate_length h i m : length (mutate h i m) = length h.
Proof.
  unfold mutate. destruct (hget h i) as [[d|s]|]; destruct m; unfold hset; try rewrite upd_length; reflexivity.
Qed.

Lemma mutate_other h i m j : i <> j -> hget (mutate h i m) j = hget h j.
Proof.
  intro H. unfold mutate. destruct (hget h i) as [[d|s]|]; destruct m; unfold hset, hget;
    try rewrite nth_error_upd_other by exact H; reflexivity.
Qed.

(* ---------- the invariant ---------- *)
(* dict objects the library owns: the presets and the current table *)
Definition lib_dicts (st : lib) : list objid := l_current st :: map snd (l_presets st).

Record Inv (w : world) : Prop := {
  inv_held : forall i, In i (w_held w) -> (i < length (l_heap (w_lib w)))%nat;
  inv_lib : forall i, In i (lib_dicts (w_lib w)) -> (i < length (l_heap (w_lib w)))%nat;
  inv_sep : forall i, In i (w_held w) -> ~ In i (lib_dicts (w_lib w));
  inv_alpha : forall o, l_alpha_cache (w_lib w) = Some o ->
                (o < length (l_heap (w_lib w)))%nat /\ ~ In o (lib_dicts (w_lib w));
  inv_pre1 : l_presets (w_lib w) = l_presets init_lib;
  inv_pre2 : forall n i, In (n, i) (l_presets (w_lib w)) -> hget (l_heap (w_lib w)) i = hget (l_heap init_lib) i
}.

Lemma inv_init : Inv init_world.
Proof.
  constructor; cbn [w_held w_lib init_world].
  - intros i [].
  - intros i H. revert i H. apply Forall_forall. vm_compute. repeat constructor.
  - intros i [].
  - intros o H. discriminate.
  - reflexivity.
  - intros. reflexivity.
Qed.

Lemma preset_id_in_lib st n i : In (n, i) (l_presets st) -> In i (lib_dicts st).
Proof. intro H. right. apply in_map_iff. exists (n, i). auto. Qed.

(* the caller receives a freshly allocated object *)
Lemma inv_alloc_held : forall w st' o,
  Inv w -> l_heap st' = l_heap (w_lib w) ++ [o] -> l_presets st' = l_presets (w_lib w) ->
  l_current st' = l_current (w_lib w) ->
  (l_alpha_cache st' = l_alpha_cache (w_lib w) \/ l_alpha_cache st' = Some (length (l_heap (w_lib w)))) ->
  Inv {| w_lib := st'; w_held := w_held w ++ [length (l_heap (w_lib w))] |}.
Proof.
  intros w st' o [Hh Hl Hs Ha Hp1 Hp2] Eh Ep Ec Eal.
  assert (Eld : lib_dicts st' = lib_dicts (w_lib w)) by (unfold lib_dicts; now rewrite Ep, Ec).
  constructor; cbn [w_lib w_held]; rewrite ?Eh, ?Eld, ?Ep, ?app_length; cbn [length].
  - intros i Hi. apply in_app_iff in Hi as [Hi|[<-|[]]]; [apply Hh in Hi|]; lia.
  - intros i Hi. apply Hl in Hi. lia.
  - intros i Hi Hc. apply in_app_iff in Hi as [Hi|[<-|[]]]; [exact (Hs i Hi Hc)|]. apply Hl in Hc. lia.
  - intros x Hx. destruct Eal as [Eal|Eal]; rewrite Eal in Hx.
    + destruct (Ha x Hx) as [A B]. split; [lia|exact B].
    + inversion Hx; subst x. split; [lia|]. intro Hc. apply Hl in Hc. lia.
  - exact Hp1.
  - intros n i Hi. rewrite <- (Hp2 n i Hi). unfold hget. apply nth_error_app1. apply Hl.
    eapply preset_id_in_lib; eassumption.
Qed.

(* a successful set_semantic_constraints: the new current table is a fresh private copy *)
Lemma inv_alloc_current : forall w st' o,
  Inv w -> l_heap st' = l_heap (w_lib w) ++ [o] -> l_presets st' = l_presets (w_lib w) ->
  l_current st' = length (l_heap (w_lib w)) -> l_alpha_cache st' = None ->
  Inv {| w_lib := st'; w_held := w_held w |}.
Proof.
  intros w st' o [Hh Hl Hs Ha Hp1 Hp2] Eh Ep Ec Eal.
  constructor; cbn [w_lib w_held]; rewrite ?Eh, ?Ep, ?app_length; cbn [length]; unfold lib_dicts; rewrite ?Ep, ?Ec.
  - intros i Hi. apply Hh in Hi. lia.
  - intros i [<-|Hi]; [lia|]. specialize (Hl i (or_intror Hi)). lia.
  - intros i Hi [<-|Hc]; [apply Hh in Hi; lia|]. exact (Hs i Hi (or_intror Hc)).
  - intros x Hx. rewrite Eal in Hx. discriminate.
  - exact Hp1.
  - intros n i Hi. rewrite <- (Hp2 n i Hi). unfold hget. apply nth_error_app1. apply Hl.
    eapply preset_id_in_lib; eassumption.
Qed.

(* the caller mutates an object it holds: no library dict is touched *)
Lemma inv_mutate : forall w st' i m,
  Inv w -> In i (w_held w) -> l_heap st' = mutate (l_heap (w_lib w)) i m ->
  l_presets st' = l_presets (w_lib w) -> l_current st' = l_current (w_lib w) ->
  l_alpha_cache st' = l_alpha_cache (w_lib w) ->
  Inv {| w_lib := st'; w_held := w_held w |}.
Proof.
  intros w st' i m [Hh Hl Hs Ha Hp1 Hp2] Hi Eh Ep Ec Eal.
  assert (Eld : lib_dicts st' = lib_dicts (w_lib w)) by (unfold lib_dicts; now rewrite Ep, Ec).
  constructor; cbn [w_lib w_held]; rewrite ?Eh, ?Eld, ?Ep, ?Eal, ?mutate_length; auto.
  intros n j Hj. rewrite <- (Hp2 n j Hj). apply mutate_other. intro; subst j.
  apply (Hs i Hi). eapply preset_id_in_lib; eassumption.
Qed.

(* nothing but caches changes *)
Lemma inv_caches : forall w st' held',
  Inv w -> l_heap st' = l_heap (w_lib w) -> l_presets st' = l_presets (w_lib w) ->
  l_current st' = l_current (w_lib w) -> l_alpha_cache st' = l_alpha_cache (w_lib w) ->
  (forall i, In i held' -> In i (w_held w) \/ l_alpha_cache (w_lib w) = Some i) ->
  Inv {| w_lib := st'; w_held := held' |}.
Proof.
  intros w st' held' [Hh Hl Hs Ha Hp1 Hp2] Eh Ep Ec Eal Hheld.
  assert (Eld : lib_dicts st' = lib_dicts (w_lib w)) by (unfold lib_dicts; now rewrite Ep, Ec).
  constructor; cbn [w_lib w_held]; rewrite ?Eh, ?Eld, ?Ep, ?Eal; auto.
  - intros i Hi. destruct (Hheld i Hi) as [H|H]; [now apply Hh|now apply Ha].
  - intros i Hi. destruct (Hheld i Hi) as [H|H]; [now apply Hs|now apply Ha].
Qed.

Lemma step_inv : forall w o, Inv w -> Inv (fst (step w o)).
Proof.
  intros w o HI. destruct w as [st held]. destruct o; cbn [step w_lib w_held].
  - (* NewDict *) cbn [alloc fst]. unfold hold. cbn [w_held w_lib].
    eapply (inv_alloc_held {| w_lib := st; w_held := held |}); try eassumption; cbn; auto.
  - (* Set *)
    destruct r as [name|k|]; cbn [fst].
    + unfold set_semantic_constraints, get_preset_constraints.
      destruct (assoc name (l_presets st)) as [pid|] eqn:Ea; cbn [bind fst]; [|exact HI].
      destruct (hget (l_heap st) pid) as [[d|s]|] eqn:Eg; cbn [bind fst alloc]; try exact HI.
      unfold with_lib, clear_caches. cbn [w_held w_lib l_heap l_presets].
      eapply (inv_alloc_current {| w_lib := st; w_held := held |}); try eassumption; cbn; auto.
    + destruct (nth_error held k) as [i0|] eqn:Ek; cbn [fst]; [|exact HI].
      unfold set_semantic_constraints.
      destruct (hget (l_heap st) i0) as [[d|s]|] eqn:Eg; cbn [fst]; try exact HI.
      destruct (has_key (lit "?") d); cbn [negb fst]; [|exact HI].
      destruct (validate_items d); cbn [bind fst alloc]; [|exact HI].
      unfold with_lib, clear_caches. cbn [w_held w_lib].
      eapply (inv_alloc_current {| w_lib := st; w_held := held |}); try eassumption; cbn; auto.
    + exact HI.
  - (* Get *) unfold get_semantic_constraints. cbn [alloc fst]. unfold hold. cbn [w_held w_lib].
    eapply (inv_alloc_held {| w_lib := st; w_held := held |}); try eassumption; cbn; auto.
  - (* GetPreset *) unfold get_preset_constraints.
    destruct (assoc name (l_presets st)) as [pid|] eqn:Ea; cbn [fst]; [|exact HI].
    destruct (hget (l_heap st) pid) as [[d|s]|] eqn:Eg; cbn [fst alloc]; try exact HI.
    unfold hold. cbn [w_held w_lib].
    eapply (inv_alloc_held {| w_lib := st; w_held := held |}); try eassumption; cbn; auto.
  - (* GetAlphabet *) unfold get_semantic_robust_alphabet.
    destruct (l_alpha_cache st) as [o|] eqn:Ec; cbn [fst alloc]; unfold hold; cbn [w_held w_lib].
    + eapply (inv_caches {| w_lib := st; w_held := held |}); try eassumption; cbn; auto.
      intros i Hi. apply in_app_iff in Hi as [Hi|[<-|[]]]; auto.
    + eapply (inv_alloc_held {| w_lib := st; w_held := held |}); try eassumption; cbn; auto.
  - (* Mutate *)
    destruct (nth_error held k) as [i0|] eqn:Ek; cbn [fst]; [|exact HI].
    unfold with_lib. cbn [w_held w_lib].
    eapply (inv_mutate {| w_lib := st; w_held := held |}); try eassumption; cbn; auto.
    eapply nth_error_In; eassumption.
  - (* Decode *) cbn [fst]. unfold with_lib, after_translation. cbn [w_held w_lib].
    eapply (inv_caches {| w_lib := st; w_held := held |}); try eassumption; cbn; auto.
  - (* Encode *) cbn [fst]. exact HI.
Qed.

Theorem run_inv : forall ops w, Inv w -> Inv (fst (run w ops)).
Proof.
  induction ops as [|o ops IH]; intros w H; [exact H|]. cbn [run].
  pose proof (step_inv w o H) as H1. destruct (step w o) as [w1 ob]. cbn [fst] in H1.
  specialize (IH w1 H1). destruct (run w1 ops) as [w2 obs]. exact IH.
Qed.

(* ---------- C12 theorems ---------- *)
(* no dict object of the library is ever in the caller's hands *)
Theorem separation_of_dicts : forall ops i,
  In i (w_held (fst (run init_world ops))) -> ~ In i (lib_dicts (w_lib (fst (run init_world ops)))).
Proof. intros ops. apply (inv_sep _ (run_inv ops init_world inv_init)). Qed.

(* presets never change, whatever the history *)
Theorem presets_never_change : forall ops name,
  let st := w_lib (fst (run init_world ops)) in
  match assoc name (l_presets st) with
  | Some i => hget (l_heap st) i = option_map (fun t => ODict (dict_of_table t)) (assoc name preset_constraints)
  | None => assoc name preset_constraints = None
  end.
Proof.
  intros ops name. cbv zeta. pose proof (run_inv ops init_world inv_init) as HI.
  destruct HI as [_ _ _ _ Hp1 Hp2]. rewrite Hp1.
  destruct (assoc name (l_presets init_lib)) as [i|] eqn:E.
  - rewrite (Hp2 name i) by (rewrite Hp1; now apply assoc_in).
    revert name i E. 
    assert (F : forallb (fun ni => match hget (l_heap init_lib) (snd ni), assoc (fst ni) preset_constraints with
                                  | Some (ODict d), Some t => true | _, _ => false end) (l_presets init_lib) = true)
      by (vm_compute; reflexivity).
    intros name i E. clear -E.
    (* finite table: decide by computation on the three presets *)
    assert (G : forall n j, In (n, j) (l_presets init_lib) ->
                hget (l_heap init_lib) j = option_map (fun t => ODict (dict_of_table t)) (assoc n preset_constraints)).
    { intros n j Hin. vm_compute in Hin. destruct Hin as [H|[H|[H|[]]]]; inversion H; subst n j; vm_compute; reflexivity. }
    apply G. now apply assoc_in.
  - revert E. generalize name. clear.
    intros name E.
    assert (G : forall n, assoc n (l_presets init_lib) = None -> assoc n preset_constraints = None).
    { intros n. unfold init_lib. cbn [l_presets]. generalize preset_constraints as pc.
      intro pc. generalize 0%nat as k. induction pc as [|[a t] pc IH]; intros k H; [reflexivity|].
      cbn [map fst combine length seq assoc] in *. destruct (str_eqb n a); [discriminate|]. eapply IH. exact H. }
    now apply G.
Qed.

(* a rejected update changes nothing at all *)
Theorem rejected_set_is_atomic : forall w r e, snd (step w (OpSet r)) = ObsErr e -> fst (step w (OpSet r)) = w.
Proof.
  intros w r e H. destruct r as [name|k|]; cbn [step] in *.
  - destruct (set_semantic_constraints (w_lib w) (ArgName name)); cbn [fst snd] in *; [discriminate H|reflexivity].
  - destruct (nth_error (w_held w) k); cbn [fst snd] in *; [|discriminate H].
    destruct (set_semantic_constraints (w_lib w) (ArgObj o)); cbn [fst snd] in *; [discriminate H|reflexivity].
  - reflexivity.
Qed.

(* which updates are rejected *)
Theorem set_rejections : forall st,
  (forall name, assoc name (l_presets st) = None -> set_semantic_constraints st (ArgName name) = Err ValueError) /\
  set_semantic_constraints st ArgJunk = Err ValueError /\
  (forall i d, hget (l_heap st) i = Some (ODict d) -> has_key (lit "?") d = false ->
     set_semantic_constraints st (ArgObj i) = Err ValueError) /\
  (forall i d e, hget (l_heap st) i = Some (ODict d) -> has_key (lit "?") d = true -> validate_items d = Err e ->
     set_semantic_constraints st (ArgObj i) = Err e) /\
  (forall i s, hget (l_heap st) i = Some (OSet s) -> set_semantic_constraints st (ArgObj i) = Err ValueError).
Proof.
  intro st. repeat split.
  - intros name H. unfold set_semantic_constraints, get_preset_constraints. now rewrite H.
  - intros i d H1 H2. unfold set_semantic_constraints. now rewrite H1, H2.
  - intros i d e H1 H2 H3. unfold set_semantic_constraints. now rewrite H1, H2, H3.
  - intros i s H. unfold set_semantic_constraints. now rewrite H.
Qed.

Lemma validate_items_reasons : forall d e, validate_items d = Err e -> e = ValueError \/ e = AttributeError.
Proof.
  induction d as [|[[k|] v] d IH]; intros e H; cbn [validate_items] in H; [discriminate| |inversion H; auto].
  destruct (valid_key k); cbn in H; [|inversion H; auto].
  destruct (valid_value v); cbn in H; [|inversion H; auto]. now apply IH.
Qed.

(* set(t); get() returns a dict equal to t — at once, and after any later calls
   that are not successful sets (failed sets, gets, caller mutations, translations) *)
Definition is_successful_set (w : world) (o : op) : bool :=
  match o with OpSet _ => match snd (step w o) with ObsErr _ => false | _ => true end | _ => false end.

Lemma step_keeps_current : forall w o, Inv w -> is_successful_set w o = false ->
  current_dict (w_lib (fst (step w o))) = current_dict (w_lib w).
Proof.
  intros w o HI Hn. pose proof HI as [Hh Hl Hs Ha Hp1 Hp2]. destruct w as [st held].
  unfold current_dict. destruct o; cbn [step w_lib w_held fst] in *.
  - cbn. rewrite <- (hget_alloc_old (l_heap st) (ODict d) (l_current st)) by (apply Hl; now left). reflexivity.
  - unfold is_successful_set in Hn. cbn [step w_lib w_held] in Hn.
    destruct r as [name|k|]; cbn [w_lib w_held] in *.
    + destruct (set_semantic_constraints st (ArgName name)); cbn [fst snd] in *; [discriminate Hn|reflexivity].
    + destruct (nth_error held k); cbn [fst snd] in *; [|reflexivity].
      destruct (set_semantic_constraints st (ArgObj o)); cbn [fst snd] in *; [discriminate Hn|reflexivity].
    + reflexivity.
  - unfold get_semantic_constraints. cbn [alloc fst hold w_lib l_heap l_current].
    unfold hget. rewrite nth_error_app1 by (apply Hl; now left). reflexivity.
  - unfold get_preset_constraints.
    destruct (assoc name (l_presets st)) as [pid|]; cbn [fst]; [|reflexivity].
    destruct (hget (l_heap st) pid) as [[d|s]|]; cbn [fst alloc hold w_lib l_heap l_current]; try reflexivity.
    unfold hget. rewrite nth_error_app1 by (apply Hl; now left). reflexivity.
  - unfold get_semantic_robust_alphabet.
    destruct (l_alpha_cache st); cbn [fst alloc hold w_lib l_heap l_current]; [reflexivity|].
    unfold hget. rewrite nth_error_app1 by (apply Hl; now left). reflexivity.
  - destruct (nth_error held k) as [i0|] eqn:Ek; cbn [fst with_lib w_lib l_heap l_current]; [|reflexivity].
    rewrite mutate_other; [reflexivity|]. intro; subst i0.
    apply (Hs (l_current st)); [eapply nth_error_In; eassumption|now left].
  - reflexivity.
  - reflexivity.
Qed.

Theorem set_then_get : forall w k i d, Inv w ->
  nth_error (w_held w) k = Some i -> hget (l_heap (w_lib w)) i = Some (ODict d) ->
  has_key (lit "?") d = true -> validate_items d = Ok tt ->
  let w1 := fst (step w (OpSet (RHeld k))) in
  snd (step w (OpSet (RHeld k))) = ObsNone /\ current_dict (w_lib w1) = d /\
  snd (step w1 OpGet) = ObsDict d.
Proof.
  intros w k i d HI Hk Hg Hq Hv. cbv zeta. cbn [step]. rewrite Hk.
  unfold set_semantic_constraints. rewrite Hg, Hq, Hv. cbn [negb bind alloc fst snd with_lib w_lib].
  unfold clear_caches, current_dict. cbn [l_heap l_current].
  assert (E : hget (l_heap (w_lib w) ++ [ODict d]) (length (l_heap (w_lib w))) = Some (ODict d)).
  { unfold hget. rewrite nth_error_app2, Nat.sub_diag by lia. reflexivity. }
  split; [reflexivity|]. split; [now rewrite E|].
  unfold get_semantic_constraints, current_dict, content, hold, alloc.
  cbn [l_heap l_current snd fst w_lib]. rewrite E. cbn [l_heap].
  unfold hget. rewrite nth_error_app2, Nat.sub_diag by lia. reflexivity.
Qed.

(* the aliasing defect of the alphabet, kept visible: the full separation statement is false *)
Definition full_separation : Prop :=
  forall ops i, In i (w_held (fst (run init_world ops))) ->
    l_alpha_cache (w_lib (fst (run init_world ops))) <> Some i.

Theorem alphabet_alias_refuted : ~ full_separation.
Proof.
  intro H. specialize (H [OpGetAlphabet] 3%nat). apply H; vm_compute; auto.
Qed.

Theorem alphabet_alias_observable :
  let ops := [OpGetAlphabet; OpMutate 0 (MAdd (lit "[BOGUS]")); OpGetAlphabet] in
  match snd (run init_world ops) with
  | [ObsSet a; _; ObsSet b] => mem_str (lit "[BOGUS]") a = false /\ mem_str (lit "[BOGUS]") b = true
  | _ => False
  end.
Proof. vm_compute. split; reflexivity. Qed.
