(* EncAttr.v — C17, encoder side, truthfulness: every SELFIES atom symbol is attributed to the SMILES atom token it was
   made from.  The reader stores, for the k-th atom token of the input, the pair (position, text) of that token with the
   atom read from that text; kekulize and the inversion pass keep the stored pairs; the walk copies the pair of the atom
   it prints into the attribution map of the symbol. *)
From Coq Require Import Ascii String List Arith ZArith NArith Bool Lia.
Import ListNotations.
From Selfies Require Import Base Generated Lex Atoms Grammar Decoder Smiles PySet Matching Kekulize Encoder BaseFacts ConfigFacts
  EncHyp EncShape.
Local Open Scope nat_scope.

(* the atom tokens of a token list with their positions: a bond character counts as a position of its own,
   '.' is not counted *)
Fixpoint expect (ts : list token) (i : nat) : list (nat * token) :=
  match ts with
  | [] => []
  | tok :: r =>
    match t_type tok with
    | TDot => expect r i
    | TAtom => let i' := match t_bond tok with Some _ => S i | None => i end in (i', tok) :: expect r (S i')
    | _ => expect r (S i)
    end
  end.

(* what the graph holds for an atom token *)
Definition made_from (p : atom * attrs) (e : nat * token) : Prop :=
  smiles_to_atom (t_text (snd e)) = Ok (Some (fst p)) /\ snd p = Some [(fst e, t_text (snd e))].

(* ---------- the attributable flag never changes ---------- *)
Lemma add_count_flag m i d m' : mg_add_count2 m i d = Ok m' -> m_attributable m' = m_attributable m.
Proof. unfold mg_add_count2. destruct (lupd _ _ _); cbn [bind]; [intro E; inversion E; reflexivity|discriminate]. Qed.
Lemma at_loc_flag m b pos m' : mg_add_bond_at_loc m b pos = Ok m' -> m_attributable m' = m_attributable m.
Proof.
  unfold mg_add_bond_at_loc. destruct (lget _ _); cbn [bind]; [|discriminate].
  destruct (add_bond_at_loc _ _ _); cbn [bind]; [intro E; inversion E; reflexivity|discriminate].
Qed.
Lemma add_bond_flag m src dst o2 st at_ m' : mg_add_bond m src dst o2 st at_ = Ok m' -> m_attributable m' = m_attributable m.
Proof.
  unfold mg_add_bond. destruct (negb _); [discriminate|].
  destruct (mg_add_bond_at_loc _ _ _) as [m1|] eqn:E1; cbn [bind]; [|discriminate].
  destruct (mg_add_count2 m1 _ _) as [m2|] eqn:E2; cbn [bind]; [|discriminate].
  destruct (mg_add_count2 m2 _ _) as [m3|] eqn:E3; cbn [bind]; [|discriminate].
  apply at_loc_flag in E1. apply add_count_flag in E2, E3.
  destruct (_ =? _)%Z; intro E; inversion E; subst; cbn [set_ds m_attributable]; congruence.
Qed.
Lemma placeholder_flag m src m' k : mg_add_placeholder_bond m src = Ok (m', k) -> m_attributable m' = m_attributable m.
Proof. unfold mg_add_placeholder_bond. destruct (lget _ _); cbn [bind]; [intro E; inversion E; reflexivity|discriminate]. Qed.
Lemma add_ring_flag m a b o2 sa sb pa pb m' : mg_add_ring_bond m a b o2 sa sb pa pb = Ok m' -> m_attributable m' = m_attributable m.
Proof.
  unfold mg_add_ring_bond.
  destruct (mg_add_bond_at_loc m _ _) as [m1|] eqn:E1; cbn [bind]; [|discriminate].
  destruct (mg_add_bond_at_loc m1 _ _) as [m2|] eqn:E2; cbn [bind]; [|discriminate].
  destruct (mg_add_count2 m2 _ _) as [m3|] eqn:E3; cbn [bind]; [|discriminate].
  destruct (mg_add_count2 m3 _ _) as [m4|] eqn:E4; cbn [bind]; [|discriminate].
  destruct (lupd (m_ringflags m4) _ _) as [f1|]; cbn [bind]; [|discriminate].
  destruct (lupd f1 _ _) as [f2|]; cbn [bind]; [|discriminate].
  apply at_loc_flag in E1, E2. apply add_count_flag in E3, E4.
  destruct (_ =? _)%Z; intro E; inversion E; subst; cbn [set_ds set_ringflags m_attributable]; congruence.
Qed.
Lemma make_ring_flag m lt la lp rt ra m' : make_ring_bonds m lt la lp rt ra = Ok m' -> m_attributable m' = m_attributable m.
Proof.
  unfold make_ring_bonds. destruct (_ =? _); [discriminate|]. destruct (mg_has_bond _ _ _); [discriminate|].
  match goal with |- (let '(b0, b1) := ?X in _) = _ -> _ => destruct X as [b0 b1] end.
  destruct (negb _); [discriminate|].
  destruct (smiles_to_bond2 (t_bond lt)) as [lo ls]. destruct (smiles_to_bond2 (t_bond rt)) as [ro rs].
  destruct (mg_get_atom m la); cbn [bind]; [|discriminate]. destruct (mg_get_atom m ra); cbn [bind]; [|discriminate].
  match goal with |- (let '(x, y) := ?X in _) = _ -> _ => destruct X as [lo' ro'] end. apply add_ring_flag.
Qed.

(* ---------- the reader stores (position, text) with the atom read from the text ---------- *)
Lemma attach_attr m tok a prev i m' idx i' : m_attributable m = true -> attach_atom m tok a prev i = Ok (m', idx, i') ->
  m_atoms m' = m_atoms m ++ [(a, Some [(i', t_text tok)])] /\ i' = (match t_bond tok with Some _ => S i | None => i end) /\ m_attributable m' = true.
Proof.
  intros Hat. unfold attach_atom. set (j := match t_bond tok with Some _ => S i | None => i end).
  destruct (mg_add_atom m a _) as [m1 ix] eqn:Ea. unfold mg_add_atom in Ea. inversion Ea; subst m1 ix; clear Ea.
  unfold mg_add_attr_atom. cbn [m_attributable m_atoms]. rewrite Hat.
  unfold lupd. rewrite app_length. cbn [length]. unfold mg_len.
  destruct (Nat.ltb_spec (length (m_atoms m)) (length (m_atoms m) + 1)) as [_|H]; [|lia]. cbn [bind].
  assert (Eu : upd (m_atoms m ++ [(a, None)]) (length (m_atoms m)) (fun p => (fst p, merge_attr (snd p) [(j, t_text tok)])) = m_atoms m ++ [(a, Some [(j, t_text tok)])]).
  { clear. induction (m_atoms m) as [|x r IH]; cbn [app length upd]; [reflexivity|now rewrite IH]. }
  rewrite Eu.
  destruct prev as [src|]; [|intro E; inversion E; subst; cbn [set_atoms m_atoms m_attributable]; auto].
  destruct (smiles_to_bond2 (t_bond tok)) as [o2 st].
  match goal with |- (do pa <- ?X; _) = _ -> _ => destruct X as [pa|]; cbn [bind]; [|discriminate] end.
  match goal with |- (do m3 <- ?X; _) = _ -> _ => destruct X as [m3|] eqn:E3; cbn [bind]; [|discriminate] end.
  intro E; inversion E; subst. pose proof (add_bond_atoms _ _ _ _ _ _ _ E3) as A. pose proof (add_bond_flag _ _ _ _ _ _ _ E3) as F.
  cbn [set_atoms m_atoms m_attributable] in A, F. rewrite A, F. auto.
Qed.

Lemma derive_loop_attr : forall ts st st' rest, m_attributable (p_mol st) = true -> derive_loop ts st = Ok (st', rest) ->
  forall pre, Forall2 made_from (m_atoms (p_mol st)) pre ->
  exists X, Forall2 made_from (m_atoms (p_mol st')) (pre ++ X) /\ expect ts (p_i st) = X ++ expect rest (p_i st') /\
            m_attributable (p_mol st') = true.
Proof.
  induction ts as [|tok r IH]; intros st st' rest Hat E pre Hpre; cbn [derive_loop] in E.
  { inversion E; subst. exists []. rewrite app_nil_r. auto. }
  destruct (p_prev st) as [|prev below]; [discriminate|]. cbn [expect].
  destruct (t_type tok).
  - destruct (smiles_to_atom (t_text tok)) as [[a|]|] eqn:Ea; cbn [bind] in E; try discriminate.
    destruct (attach_atom _ _ _ _ _) as [[[m' idx] i']|] eqn:Eat; cbn [bind] in E; [|discriminate].
    destruct (attach_attr _ _ _ _ _ _ _ _ Hat Eat) as (A & Ei & F).
    assert (IHE := fun H => IH _ _ _ H E). cbn [p_mol p_i] in IHE.
    destruct (IHE F (pre ++ [(i', tok)])) as (X & H1 & H2 & H3).
    { rewrite A. apply Forall2_app; [exact Hpre|]. constructor; [|constructor]. split; [exact Ea|reflexivity]. }
    exists ((i', tok) :: X). rewrite <- app_assoc in H1. split; [exact H1|]. split; [|exact H3].
    rewrite <- Ei. cbn [app]. now rewrite H2.
  - destruct (p_chain_start st); [discriminate|].
    destruct (str_eqb _ _).
    + assert (IHE := fun H => IH _ _ _ H E). cbn [p_mol p_i] in IHE. destruct (IHE Hat pre Hpre) as (X & H1 & H2 & H3). exists X. auto.
    + destruct (p_branch st); [discriminate|].
      assert (IHE := fun H => IH _ _ _ H E). cbn [p_mol p_i] in IHE. destruct (IHE Hat pre Hpre) as (X & H1 & H2 & H3). exists X. auto.
  - destruct (p_chain_start st); [discriminate|].
    destruct (ring_log_find _ _) as [[[ltok latom] lpos]|].
    + destruct (atom_index prev) as [ratom|]; cbn [bind] in E; [|discriminate].
      destruct (make_ring_bonds _ _ _ _ _ _) as [m'|] eqn:Er; cbn [bind] in E; [|discriminate].
      pose proof (make_ring_atoms _ _ _ _ _ _ _ Er) as A. pose proof (make_ring_flag _ _ _ _ _ _ _ Er) as F.
      assert (IHE := fun H => IH _ _ _ H E). cbn [p_mol p_i] in IHE.
      destruct (IHE ltac:(congruence) pre ltac:(rewrite A; exact Hpre)) as (X & H1 & H2 & H3). exists X. auto.
    + destruct (atom_index prev) as [src|]; cbn [bind] in E; [|discriminate].
      destruct (mg_add_placeholder_bond _ _) as [[m' lpos]|] eqn:Epl; cbn [bind] in E; [|discriminate].
      pose proof (placeholder_atoms _ _ _ _ Epl) as A. pose proof (placeholder_flag _ _ _ _ Epl) as F.
      assert (IHE := fun H => IH _ _ _ H E). cbn [p_mol p_i] in IHE.
      destruct (IHE ltac:(congruence) pre ltac:(rewrite A; exact Hpre)) as (X & H1 & H2 & H3). exists X. auto.
  - inversion E; subst. exists []. cbn [p_mol p_i]. rewrite app_nil_r. auto.
Qed.

Lemma fragments_attr : forall fuel m ts i m', m_attributable m = true -> fragments_loop fuel m ts i = Ok m' ->
  forall pre, Forall2 made_from (m_atoms m) pre -> Forall2 made_from (m_atoms m') (pre ++ expect ts i) /\ m_attributable m' = true.
Proof.
  induction fuel as [|f IH]; intros m ts i m' Hat E pre Hpre; [discriminate|]. cbn [fragments_loop] in E.
  destruct ts as [|t r]; [inversion E; subst; cbn [expect]; rewrite app_nil_r; auto|].
  destruct (derive_mol_from_tokens m (t :: r) i) as [[[m1 i1] rest]|] eqn:Ed; cbn [bind] in E; [|discriminate].
  unfold derive_mol_from_tokens in Ed.
  destruct (derive_loop (t :: r) _) as [[st rest']|] eqn:El; cbn [bind] in Ed; [|discriminate].
  assert (DL := fun H => derive_loop_attr _ _ _ _ H El). cbn [p_mol p_i] in DL.
  destruct (DL Hat pre Hpre) as (X & H1 & H2 & H3).
  destruct (_ =? _); [discriminate|]. destruct (p_branch st); [|discriminate]. destruct (p_rings st); [|discriminate].
  inversion Ed; subst. rewrite H2, app_assoc. exact (IH _ _ _ _ H3 E _ H1).
Qed.

Theorem parsed_attr smiles m ts : smiles_to_mol smiles true = Ok m -> tokenize_smiles smiles = Ok ts ->
  Forall2 made_from (m_atoms m) (expect ts 0) /\ m_attributable m = true.
Proof.
  unfold smiles_to_mol. destruct smiles as [|c s]; [discriminate|]. intros E Et. rewrite Et in E. cbn [bind] in E.
  exact (fragments_attr _ (mg_empty true) _ _ _ eq_refl E [] (Forall2_nil _)).
Qed.

(* ---------- kekulize and the inversion pass keep the stored pairs ---------- *)
(* the same atom up to the aromatic flag and the chirality tag *)
Definition kin (a a' : atom) : Prop :=
  a_element a' = a_element a /\ a_isotope a' = a_isotope a /\ a_hcount a' = a_hcount a /\ a_charge a' = a_charge a.
Definition kept (p q : atom * attrs) : Prop := snd q = snd p /\ kin (fst p) (fst q).

Lemma kin_refl a : kin a a. Proof. repeat split. Qed.
Lemma kin_trans a b c : kin a b -> kin b c -> kin a c.
Proof. intros (A1 & A2 & A3 & A4) (B1 & B2 & B3 & B4). repeat split; congruence. Qed.
Lemma kept_refl l : Forall2 kept l l.
Proof. induction l; constructor; [split; [reflexivity|apply kin_refl]|assumption]. Qed.
Lemma kept_trans : forall l1 l2 l3, Forall2 kept l1 l2 -> Forall2 kept l2 l3 -> Forall2 kept l1 l3.
Proof.
  induction l1 as [|x r IH]; intros l2 l3 H1 H2; inversion H1 as [|? ? ? ? Hx Hr]; subst; inversion H2 as [|? ? ? ? Hy Hs]; subst; constructor.
  - destruct Hx as [A B], Hy as [C D]. split; [congruence|eapply kin_trans; eassumption].
  - eapply IH; eassumption.
Qed.
Lemma kept_upd (f : atom * attrs -> atom * attrs) : (forall p, kept p (f p)) -> forall l i, Forall2 kept l (upd l i f).
Proof.
  intro H. induction l as [|x r IH]; intro i; [constructor|]. destruct i; cbn [upd]; constructor.
  - apply H. - apply kept_refl. - split; [reflexivity|apply kin_refl]. - apply IH.
Qed.

Lemma update_order_flag m a b o m' : mg_update_bond_order m a b o = Ok m' -> m_attributable m' = m_attributable m.
Proof.
  unfold mg_update_bond_order. destruct (negb _); [discriminate|].
  destruct (mg_get_dirbond m _ _) as [ab|]; cbn [bind]; [|discriminate].
  destruct (_ =? _)%Z; [intro E; now inversion E|].
  destruct (if e_ring ab then _ else _) as [adj1|]; cbn [bind]; [|discriminate].
  destruct (mg_add_count2 (set_adj m adj1) _ _) as [m1|] eqn:E1; cbn [bind]; [|discriminate].
  intro E2. apply add_count_flag in E1, E2. rewrite E2, E1. reflexivity.
Qed.
Lemma single_bonds_flag : forall adjs m node m', set_single_bonds m node adjs = Ok m' -> m_attributable m' = m_attributable m.
Proof.
  induction adjs as [|x r IH]; intros m node m' E; cbn [set_single_bonds] in E; [now inversion E|].
  destruct (mg_update_bond_order m node x 2) as [m1|] eqn:E1; cbn [bind] in E; [|discriminate].
  apply update_order_flag in E1. apply IH in E. congruence.
Qed.
Lemma double_bonds_flag : forall pairs m l2n m', set_double_bonds m l2n pairs = Ok m' -> m_attributable m' = m_attributable m.
Proof.
  induction pairs as [|[i oj] r IH]; intros m l2n m' E; cbn [set_double_bonds] in E; [now inversion E|].
  destruct (lget l2n i); cbn [bind] in E; [|discriminate]. destruct oj as [j|]; [|discriminate].
  destruct (lget l2n j); cbn [bind] in E; [|discriminate].
  destruct (mg_update_bond_order m _ _ 4) as [m1|] eqn:E1; cbn [bind] in E; [|discriminate].
  apply update_order_flag in E1. apply IH in E. congruence.
Qed.

Lemma dearomatize_kept : forall ds m m', dearomatize m ds = Ok m' -> Forall2 kept (m_atoms m) (m_atoms m') /\ m_attributable m' = m_attributable m.
Proof.
  induction ds as [|[node adjs] r IH]; intros m m' E; cbn [dearomatize] in E; [inversion E; subst; split; [apply kept_refl|reflexivity]|].
  destruct (set_single_bonds m node adjs) as [m1|] eqn:E1; cbn [bind] in E; [|discriminate].
  destruct (lupd (m_atoms m1) _ _) as [atoms'|] eqn:Ea; cbn [bind] in E; [|discriminate].
  destruct (lupd (m_counts2 m1) _ _) as [counts'|]; cbn [bind] in E; [|discriminate].
  apply IH in E as [A B]. cbn [set_counts2 set_atoms m_atoms m_attributable] in A, B.
  pose proof (single_bonds_atoms _ _ _ _ E1) as S1. pose proof (single_bonds_flag _ _ _ _ E1) as F1. apply lupd_eq in Ea. subst atoms'.
  split; [|congruence]. rewrite <- S1. eapply kept_trans; [|exact A]. apply kept_upd. intro p. split; [reflexivity|cbn [fst]; destruct (fst p); repeat split].
Qed.

Theorem kekulize_kept m m' : kekulize m = Ok (Some m') -> Forall2 kept (m_atoms m) (m_atoms m') /\ m_attributable m' = m_attributable m.
Proof.
  unfold kekulize. destruct (ds_is_empty _); [intro E; inversion E; subst; split; [apply kept_refl|reflexivity]|].
  destruct (any_bad_element _ _) as [bad|]; cbn [bind]; [|discriminate]. destruct bad; [discriminate|].
  destruct (kept_nodes_of _ _) as [kn|]; cbn [bind]; [|discriminate].
  destruct (pruned_ds_of _ _ _) as [pruned|]; cbn [bind]; [|discriminate].
  destruct (find_perfect_matching pruned) as [[mt|]|]; cbn [bind]; try discriminate.
  destruct (dearomatize m _) as [m1|] eqn:E1; cbn [bind]; [|discriminate].
  destruct (set_double_bonds m1 _ _) as [m2|] eqn:E2; cbn [bind]; [|discriminate].
  intro E; inversion E; subst. cbn [set_ds m_atoms m_attributable].
  apply dearomatize_kept in E1 as [A B]. rewrite (double_bonds_atoms _ _ _ _ E2), (double_bonds_flag _ _ _ _ E2). auto.
Qed.

Lemma invert_pass_kept m : forall atoms idx atoms', invert_pass m atoms idx = Ok atoms' -> Forall2 kept atoms atoms'.
Proof.
  induction atoms as [|[a at_] r IH]; intros idx atoms' E; cbn [invert_pass] in E; [inversion E; constructor|].
  match type of E with (do a' <- ?X; _) = _ => destruct X as [a'|] eqn:Ea end; cbn [bind] in E; [|discriminate].
  destruct (invert_pass m r (S idx)) as [rest|] eqn:Er; cbn [bind] in E; [|discriminate].
  inversion E; subst. constructor; [|exact (IH _ _ Er)]. split; [reflexivity|]. cbn [fst].
  destruct (a_chirality a); [|inversion Ea; subst; apply kin_refl].
  destruct (mg_has_out_ring_bond m idx) as [flag|]; cbn [bind] in Ea; [|discriminate].
  destruct flag; [|inversion Ea; subst; apply kin_refl].
  destruct (should_invert_chirality m idx) as [inv|]; cbn [bind] in Ea; [|discriminate].
  inversion Ea; subst. destruct inv; [destruct a; repeat split|apply kin_refl].
Qed.

(* ---------- the walk: which entry belongs to which symbol ---------- *)
Definition entry := (str * attrs)%type.
Definition ent (a : amap) : entry := (am_token a, am_attr a).

(* [P i a at_ tok]: what is known of an atom symbol tok printed from atom i = (a, at_) of the graph *)
Inductive Walked (P : nat -> atom -> attrs -> str -> Prop) (m : emol) : list str -> list entry -> Prop :=
| W_atom i a at_ tok ts es : P i a at_ tok -> Rest P m ts es ->
    Walked P m (tok :: ts) ((tok, mg_get_attr m at_) :: es)                (* an atom symbol carries the attribution of its atom *)
with Rest (P : nat -> atom -> attrs -> str -> Prop) (m : emol) : list str -> list entry -> Prop :=
| R_nil : Rest P m [] []
| R_ring toks at_ ts es : Rest P m ts es -> Rest P m (toks ++ ts) (map (fun t => (t, at_)) toks ++ es)      (* ring symbol and its index symbols *)
| R_branch bsym Q at_ branch bes ts es : Walked P m branch bes -> Rest P m ts es ->
    Rest P m (bsym :: Q ++ branch ++ ts) (bes ++ map (fun t => (t, at_)) Q ++ (bsym, at_) :: es)          (* branch symbol, index symbols, the branch *)
| R_last ts es : Walked P m ts es -> Rest P m ts es.

(* the atom symbol is printed from atom i of the graph *)
Definition printed_from (m : emol) (i : nat) (a : atom) (at_ : attrs) (tok : str) : Prop :=
  mg_get_atom m i = Ok (a, at_) /\ exists b, atom_to_selfies b a = Ok tok.

Lemma maps_for_ent toks pos aidx at_ : map ent (maps_for toks pos aidx at_) = map (fun t => (t, at_)) toks.
Proof. revert pos. induction toks as [|t r IH]; intro pos; cbn [maps_for map]; [reflexivity|]. now rewrite IH. Qed.

Section WalkP.
Variable P : nat -> atom -> attrs -> str -> Prop.
Variable m : emol.
Hypothesis HP : forall i a at_ tok, printed_from m i a at_ tok -> P i a at_ tok.

Lemma out_loop_walked (walk : ebond -> nat -> nat -> res (list str * list amap)) :
  (forall b ai o ts ms, walk b ai o = Ok (ts, ms) -> Walked P m ts (map ent ms)) ->
  forall bonds aidx off ts ms, out_loop m walk bonds aidx off = Ok (ts, ms) -> Rest P m ts (map ent ms).
Proof.
  intro Hw. induction bonds as [|b rest IH]; intros aidx off ts ms E; cbn [out_loop] in E; [inversion E; subst; constructor|].
  destruct (e_ring b).
  - destruct (e_src b <? e_dst b); [exact (IH _ _ _ _ E)|].
    destruct (mg_get_dirbond m (e_dst b) (e_src b)) as [rv|]; cbn [bind] in E; [|discriminate].
    destruct (get_selfies_from_index _) as [Q|]; cbn [bind] in E; [|discriminate].
    destruct (ring_bonds_to_selfies rv b) as [rs|]; cbn [bind] in E; [|discriminate].
    match type of E with (do _ <- ?X; _) = _ => destruct X as [[ts1 ms1]|] eqn:E1 end; cbn [bind] in E; [|discriminate].
    cbv zeta in E. inversion E; subst; clear E. cbn [map]. rewrite map_app, maps_for_ent.
    match goal with |- Rest P m (?sym :: Q ++ ts1) _ => apply (R_ring P m (sym :: Q) (mg_get_attr m (e_attr b)) ts1 (map ent ms1)) end. exact (IH _ _ _ _ E1).
  - destruct rest as [|b2 rest2]; [apply R_last; exact (Hw _ _ _ _ _ E)|].
    destruct (walk b off 0) as [[branch bmaps]|] eqn:Eb; cbn [bind] in E; [|discriminate].
    destruct (get_selfies_from_index _) as [Q|]; cbn [bind] in E; [|discriminate].
    destruct (bond_to_selfies b false) as [bs|]; cbn [bind] in E; [|discriminate].
    match type of E with (do _ <- ?X; _) = _ => destruct X as [[ts1 ms1]|] eqn:E1 end; cbn [bind] in E; [|discriminate].
    cbv zeta in E. inversion E; subst; clear E. rewrite !map_app, map_map, maps_for_ent. cbn [map].
    replace (map (fun x => ent (shift_amap (S (length Q)) x)) bmaps) with (map ent bmaps) by (apply map_ext; reflexivity).
    apply (R_branch P m _ Q _ branch); [exact (Hw _ _ _ _ _ Eb)|exact (IH _ _ _ _ E1)].
Qed.

Lemma walk_walked : forall fuel b curr aidx off ts ms, fragment_walk fuel m b curr aidx off = Ok (ts, ms) -> Walked P m ts (map ent ms).
Proof.
  induction fuel as [|f IH]; intros b curr aidx off ts ms E; [discriminate|]. cbn [fragment_walk] in E.
  destruct (mg_get_atom m curr) as [[a at_]|] eqn:Ea; cbn [bind fst snd] in E; [|discriminate].
  destruct (atom_to_selfies b a) as [tok|] eqn:Et; cbn [bind fst] in E; [|discriminate].
  destruct (mg_get_out_dirbonds m curr) as [raw|]; cbn [bind] in E; [|discriminate].
  destruct (Encoder.all_some raw) as [bonds|]; cbn [bind] in E; [|discriminate].
  match type of E with (do _ <- ?X; _) = _ => destruct X as [[ts1 ms1]|] eqn:E1 end; cbn [bind] in E; [|discriminate].
  inversion E; subst; clear E. cbn [map ent mk_amap am_token am_attr]. unfold ent at 1. cbn [mk_amap am_token am_attr].
  apply (W_atom P m curr a at_); [apply HP; split; [exact Ea|exists b; exact Et]|]. eapply out_loop_walked; [|exact E1]. intros b0 ai o ts0 ms0 H. exact (IH _ _ _ _ _ _ H).
Qed.

Lemma encode_roots_walked : forall roots aidx frags maps, encode_roots m roots aidx = Ok (frags, maps) ->
  exists tss mss, frags = map (@concat N) tss /\ maps = concat mss /\ Forall2 (fun ts ms => Walked P m ts (map ent ms)) tss mss.
Proof.
  induction roots as [|r rest IH]; intros aidx frags maps E; cbn [encode_roots] in E.
  - inversion E; subst. exists [], []. repeat split; constructor.
  - destruct (fragment_to_selfies m r aidx) as [[derived mp]|] eqn:Ef; cbn [bind] in E; [|discriminate].
    destruct (encode_roots m rest _) as [[frags' maps']|] eqn:Er; cbn [bind] in E; [|discriminate]. inversion E; subst; clear E.
    destruct (IH _ _ _ Er) as (tss & mss & -> & -> & F). exists (derived :: tss), (mp :: mss). repeat split.
    constructor; [|exact F]. unfold fragment_to_selfies in Ef. exact (walk_walked _ _ _ _ _ _ _ Ef).
Qed.
End WalkP.

(* ---------- the theorem ---------- *)
(* what the graph the walk runs over holds for the k-th atom token of the input *)
Definition attributed_to (p : atom * attrs) (e : nat * token) : Prop :=
  snd p = Some [(fst e, t_text (snd e))] /\ exists a0, smiles_to_atom (t_text (snd e)) = Ok (Some a0) /\ kin a0 (fst p).

Theorem encoder_attribution_truthful T smiles strict x maps ts :
  encoder T smiles strict true = Ok (x, maps) -> tokenize_smiles smiles = Ok ts ->
  exists m tss mss,
    Forall2 attributed_to (m_atoms m) (expect ts 0) /\ m_attributable m = true /\
    x = join (lit ".") (map (@concat N) tss) /\
    maps = filter (fun a => match am_token a with [] => false | _ => true end) (concat mss) /\
    Forall2 (fun toks ms => Walked (printed_from m) m toks (map ent ms)) tss mss.
Proof.
  intros E Et. unfold encoder, encoder_c in E.
  destruct (smiles_to_mol smiles true) as [m0|e] eqn:Ep; [|destruct e; discriminate].
  destruct (parsed_attr _ _ _ Ep Et) as [A0 F0]. unfold encode_mol in E.
  destruct (kekulize m0) as [[m1|]|] eqn:Ek; cbn [bind] in E; try discriminate.
  destruct (kekulize_kept _ _ Ek) as [K1 F1].
  match type of E with (do _ <- ?X; _) = _ => destruct X; cbn [bind] in E; [|discriminate] end.
  destruct (invert_pass m1 (m_atoms m1) 0) as [atoms'|] eqn:Ei; cbn [bind] in E; [|discriminate].
  pose proof (invert_pass_kept _ _ _ _ Ei) as K2.
  destruct (encode_roots (set_atoms m1 atoms') _ 0) as [[frags maps0]|] eqn:Er; cbn [bind] in E; [|discriminate].
  inversion E; subst x maps; clear E.
  destruct (encode_roots_walked (printed_from (set_atoms m1 atoms')) _ (fun _ _ _ _ H => H) _ _ _ _ Er) as (tss & mss & -> & -> & W).
  exists (set_atoms m1 atoms'), tss, mss. cbn [set_atoms m_atoms m_attributable]. split; [|split; [congruence|repeat split; exact W]].
  pose proof (kept_trans _ _ _ K1 K2) as K. clear -A0 K.
  revert K. generalize (expect ts 0) A0. generalize (m_atoms m0) atoms'. clear.
  induction l as [|p r IH]; intros atoms' ex A K; inversion A as [|? ? ? ? Hx Hr]; subst; inversion K as [|? ? ? ? Hy Hs]; subst; constructor.
  - destruct Hx as [S1 S2], Hy as [T1 T2]. split; [congruence|]. exists (fst p). split; [exact S1|exact T2].
  - eapply IH; eassumption.
Qed.
