(* EncMatchT.v — C09: the search for an augmenting path terminates.  BFS: a node enters the queue only when its parents
   entry is set for the first time, so "queue length + number of empty entries" goes down with every dequeue; path
   reconstruction: every entry points to a node whose own entry was set earlier, so the chain back to the root visits
   nodes in strictly decreasing order of that time. *)
From Coq Require Import Ascii String List Arith ZArith NArith Bool Lia.
Import ListNotations.
From Selfies Require Import Base Generated Lex Atoms Grammar Decoder Smiles PySet Matching Kekulize Encoder BaseFacts ConfigFacts
  ParserTotal EncShape EncKey EncIndex EncAttrErr EncKek EncMatch EncMatchSafe.
Local Open Scope nat_scope.

Definition pnone (x : option (option nat * option nat)) : bool := match x with None => true | Some _ => false end.
Definition cnone (parents : parents_t) : nat := length (filter pnone parents).

Lemma cnone_upd_le parents x e : cnone (upd parents x (fun _ => Some e)) <= cnone parents.
Proof.
  unfold cnone. revert x. induction parents as [|y r IH]; intros [|x]; cbn [upd filter pnone]; try lia.
  - destruct (pnone y); cbn [length]; lia.
  - specialize (IH x). destruct (pnone y); cbn [length]; lia.
Qed.
Lemma cnone_upd_none parents x e : nth_error parents x = Some None -> S (cnone (upd parents x (fun _ => Some e))) = cnone parents.
Proof.
  unfold cnone. revert x. induction parents as [|y r IH]; intros [|x] H; cbn in H; try discriminate.
  - inversion H; subst. cbn [upd filter pnone length]. reflexivity.
  - cbn [upd filter]. specialize (IH x H). destruct (pnone y); cbn [length]; lia.
Qed.

Lemma scan_adj_pot node root m : forall adjs parents queue p' q' oe, scan_adj adjs node root m parents queue = Ok (p', q', oe) ->
  length q' + cnone p' <= length queue + cnone parents.
Proof.
  induction adjs as [|adj r IH]; intros parents queue p' q' oe E; cbn [scan_adj] in E; [inversion E; subst; lia|].
  destruct (get m adj) as [[adj_mate|]|]; cbn [bind] in E; [| |discriminate].
  - destruct (get parents adj_mate) as [[pm|]|] eqn:Eg; cbn [bind] in E; [exact (IH _ _ _ _ _ E)| |discriminate].
    destruct (set_at parents adj_mate _) as [p1|] eqn:Es; cbn [bind] in E; [|discriminate].
    apply IH in E. apply set_at_spec in Es as [-> _]. apply get_spec in Eg. pose proof (cnone_upd_none parents adj_mate (Some node, Some adj) Eg). rewrite app_length in E. cbn [length] in E. lia.
  - destruct (adj =? root); [exact (IH _ _ _ _ _ E)|].
    destruct (set_at parents adj _) as [p1|] eqn:Es; cbn [bind] in E; [|discriminate]. inversion E; subst. apply set_at_spec in Es as [-> _].
    pose proof (cnone_upd_le parents adj (Some node, Some adj)). lia.
Qed.

Section Term.
Variable g : graph.
Hypothesis GR : forall i li j, nth_error g i = Some li -> In j li -> j < length g.
Variable root : nat.
Variable m : matching.
Hypothesis HM : MR g m.
Hypothesis Hroot : root < length g.
Hypothesis Hfree : nth_error m root = Some None.

Lemma bfs_total : forall fuel parents queue, PJ g root m parents -> Forall (okn g root m parents) queue -> length queue + cnone parents < fuel ->
  exists r, bfs fuel g root m parents queue = Ok r.
Proof.
  induction fuel as [|f IH]; intros parents queue HP Hq Hf; [lia|]. cbn [bfs].
  destruct queue as [|node q]; [eauto|]. inversion Hq as [|? ? Hnode Hq']; subst.
  destruct (get_ok g node (proj1 Hnode)) as (adjs & Eg & Hn). rewrite Eg. cbn [bind].
  destruct (scan_adj_safe g root m HM Hroot Hfree adjs node parents q HP Hnode (fun a Ha => GR node adjs a Hn Ha) Hq') as (p1 & q1 & oe & Es & HP1 & Hq1 & _). rewrite Es. cbn [bind].
  destruct oe as [x|]; [eauto|]. apply (IH p1 q1 HP1 Hq1). pose proof (scan_adj_pot _ _ _ _ _ _ _ _ _ Es). cbn [length] in Hf. lia.
Qed.

(* the order in which the entries were written *)
Definition before (ord : list nat) (a v : nat) : Prop := exists i j, i < j /\ nth_error ord i = Some a /\ nth_error ord j = Some v.
Record OD (parents : parents_t) (ord : list nat) : Prop := {
  od_nd : NoDup ord;
  od_in : forall v, In v ord <-> (v = root \/ full parents v);
  od_bef : forall v a b, nth_error parents v = Some (Some (Some a, Some b)) -> before ord a v
}.

Lemma before_app ord x a v : before ord a v -> before (ord ++ [x]) a v.
Proof. intros (i & j & Hij & Hi & Hj). exists i, j. split; [exact Hij|]. split; rewrite nth_error_app1; auto; apply nth_error_Some; congruence. Qed.

Lemma od_set parents ord x node adj : OD parents ord -> x < length parents -> x <> root -> ~ full parents x -> In node ord ->
  OD (upd parents x (fun _ => Some (Some node, Some adj))) (ord ++ [x]).
Proof.
  intros [Hnd Hin Hbef] Lx Hxr Hnf Hnode.
  assert (Hx : ~ In x ord) by (intro H; apply Hin in H as [H|H]; contradiction).
  assert (Fu : forall v, full (upd parents x (fun _ => Some (Some node, Some adj))) v <-> (v = x \/ full parents v)).
  { intro v. unfold full. rewrite nth_set by exact Lx. destruct (Nat.eqb_spec x v) as [->|Hne]; split.
    - now left. - intros _. eauto. - intro H; now right. - intros [->|H]; [congruence|exact H]. }
  constructor.
  - apply NoDup_snoc; assumption.
  - intro v. rewrite in_app_iff, Hin, Fu. cbn [In]. split; [intros [[H|H]|[H|[]]]; auto|intros [H|[H|H]]; auto].
  - intros v a b Hn. rewrite nth_set in Hn by exact Lx. destruct (Nat.eqb_spec x v) as [->|Hne].
    + inversion Hn; subst a b. destruct (In_nth_error _ _ Hnode) as [i Hi]. exists i, (length ord). split; [apply nth_error_Some; congruence|].
      split; [rewrite nth_error_app1; [exact Hi|apply nth_error_Some; congruence]|]. rewrite nth_error_app2 by lia. now rewrite Nat.sub_diag.
    + apply before_app. exact (Hbef v a b Hn).
Qed.

Lemma okn_in parents ord v : OD parents ord -> okn g root m parents v -> In v ord.
Proof. intros Ho [_ [->|[Hf _]]]; apply (od_in _ _ Ho); [now left|now right]. Qed.

(* while the search runs every complete entry belongs to a matched node; the free end is written last *)
Lemma scan_adj_od : forall adjs node parents queue ord p' q' oe, PJ g root m parents -> OD parents ord -> (forall v, full parents v -> matched m v) -> In node ord ->
  (forall a, In a adjs -> a < length g) ->
  scan_adj adjs node root m parents queue = Ok (p', q', oe) ->
  exists ord', OD p' ord' /\ (oe = None -> forall v, full p' v -> matched m v).
Proof.
  induction adjs as [|adj r IH]; intros node parents queue ord p' q' oe HP Ho Hm Hnode Ha E; cbn [scan_adj] in E; [inversion E; subst; eauto|].
  assert (Hr : forall a, In a r -> a < length g) by (intros; apply Ha; now right). pose proof (Ha adj (or_introl eq_refl)) as Hadj.
  destruct (get m adj) as [[adj_mate|]|] eqn:Egm; cbn [bind] in E; [| |discriminate]; apply get_spec in Egm.
  - pose proof (mr_rng _ _ HM _ _ Egm) as Hmate. pose proof (mr_wm _ _ HM _ _ Egm) as Hmm.
    destruct (get parents adj_mate) as [[pm|]|] eqn:Egp; cbn [bind] in E; [exact (IH _ _ _ _ _ _ _ HP Ho Hm Hnode Hr E)| |discriminate]. apply get_spec in Egp.
    assert (Lx : adj_mate < length parents) by (rewrite (pj_len _ _ _ _ HP); exact Hmate).
    rewrite (set_at_ok parents adj_mate _ Lx) in E. cbn [bind] in E.
    assert (Hxr : adj_mate <> root) by (intros ->; destruct Hmm as [y Hy]; congruence).
    assert (Hnf : ~ full parents adj_mate) by (intros (a & b & H); congruence).
    assert (Hokn : okn g root m parents node) by (split; [|apply (od_in _ _ Ho) in Hnode as [->|Hf]; [now left|right; split; [exact Hf|exact (Hm _ Hf)]]];
      apply (od_in _ _ Ho) in Hnode as [->|(a & b & Hf)]; [exact Hroot|rewrite <- (pj_len _ _ _ _ HP); apply nth_error_Some; congruence]).
    apply (IH node _ (queue ++ [adj_mate]) (ord ++ [adj_mate]) p' q' oe
             (pj_set g root m Hroot parents adj_mate node adj HP Hmate Hxr Hokn Hadj (or_intror (ex_intro _ adj_mate Egm)))
             (od_set parents ord adj_mate node adj Ho Lx Hxr Hnf Hnode)); [| |exact Hr|exact E].
    + intros v (a & b & Hv). rewrite nth_set in Hv by exact Lx. destruct (Nat.eqb_spec adj_mate v) as [<-|Hne]; [exact Hmm|apply Hm; exists a, b; exact Hv].
    + apply in_app_iff. now left.
  - destruct (adj =? root) eqn:Er; [exact (IH _ _ _ _ _ _ _ HP Ho Hm Hnode Hr E)|]. apply Nat.eqb_neq in Er.
    assert (Lx : adj < length parents) by (rewrite (pj_len _ _ _ _ HP); exact Hadj).
    rewrite (set_at_ok parents adj _ Lx) in E. cbn [bind] in E. inversion E; subst.
    assert (Hnf : ~ full parents adj) by (intro Hf; destruct (Hm _ Hf) as [y Hy]; congruence).
    exists (ord ++ [adj]). split; [exact (od_set parents ord adj node adj Ho Lx Er Hnf Hnode)|discriminate].
Qed.

Lemma bfs_od : forall fuel parents queue ord p' oe, PJ g root m parents -> Forall (okn g root m parents) queue -> OD parents ord -> (forall v, full parents v -> matched m v) ->
  bfs fuel g root m parents queue = Ok (p', oe) -> exists ord', OD p' ord'.
Proof.
  induction fuel as [|f IH]; intros parents queue ord p' oe HP Hq Ho Hm E; [discriminate|]. cbn [bfs] in E.
  destruct queue as [|node q]; [inversion E; subst; eauto|]. inversion Hq as [|? ? Hnode Hq']; subst.
  destruct (get_ok g node (proj1 Hnode)) as (adjs & Eg & Hn). rewrite Eg in E. cbn [bind] in E.
  destruct (scan_adj_safe g root m HM Hroot Hfree adjs node parents q HP Hnode (fun a Ha => GR node adjs a Hn Ha) Hq') as (p1 & q1 & oe1 & Es & HP1 & Hq1 & _). rewrite Es in E. cbn [bind] in E.
  destruct (scan_adj_od adjs node parents q ord p1 q1 oe1 HP Ho Hm (okn_in _ _ _ Ho Hnode) (fun a Ha => GR node adjs a Hn Ha) Es) as (ord1 & Ho1 & Hm1).
  destruct oe1 as [x|]; [inversion E; subst; eauto|]. exact (IH p1 q1 ord1 p' oe HP1 Hq1 Ho1 (Hm1 eq_refl) E).
Qed.

Lemma build_path_total parents ord : PJ g root m parents -> OD parents ord -> forall k fuel node acc, nth_error ord k = Some node -> k + 2 <= fuel ->
  exists path, build_path fuel parents root node acc = Ok path.
Proof.
  intros HP Ho. induction k as [k IH] using lt_wf_ind. intros fuel node acc Hk Hf. destruct fuel as [|f]; [lia|]. cbn [build_path].
  destruct (Nat.eqb_spec node root) as [->|Hne]; [eauto|].
  assert (Hin : In node ord) by (eapply nth_error_In; exact Hk). apply (od_in _ _ Ho) in Hin as [Hin|(a & b & Hent)]; [contradiction|].
  unfold get. rewrite Hent. cbn [bind]. destruct (od_bef _ _ Ho node a b Hent) as (i & j & Hij & Hi & Hj).
  assert (j = k) by (apply (proj1 (NoDup_nth_error ord) (od_nd _ _ Ho) j k); [apply nth_error_Some; congruence|congruence]). subst j.
  apply (IH i Hij f a (a :: b :: acc) Hi). lia.
Qed.
End Term.

Lemma cnone_map_none {A} (l : list A) : cnone (map (fun _ => @None (option nat * option nat)) l) = length l.
Proof. unfold cnone. induction l as [|x r IH]; cbn; [reflexivity|now rewrite IH]. Qed.

Lemma nodup_bound : forall (l : list nat) n, NoDup l -> (forall x, In x l -> x < n) -> length l <= n.
Proof.
  intros l n Hn Hb. rewrite <- (seq_length n 0). apply NoDup_incl_length; [exact Hn|]. intros x Hx. apply in_seq. specialize (Hb x Hx). lia.
Qed.

Theorem find_path_total g (GR : forall i li j, nth_error g i = Some li -> In j li -> j < length g) root m :
  MR g m -> root < length g -> nth_error m root = Some None -> exists r, find_augmenting_path g root m = Ok r.
Proof.
  intros HM Hroot Hfree. unfold find_augmenting_path. unfold get. rewrite Hfree. cbn [bind].
  set (p0 := map (fun _ : list nat => @None (option nat * option nat)) g).
  assert (L0 : root < length p0) by (unfold p0; rewrite map_length; exact Hroot).
  rewrite (set_at_ok _ root _ L0). cbn [bind]. set (p1 := upd p0 root (fun _ => Some (None, None))).
  assert (N0 : forall v, nth_error p0 v = Some None \/ nth_error p0 v = None).
  { intro v. unfold p0. rewrite nth_error_map. destruct (nth_error g v); cbn; auto. }
  assert (NF : forall v, ~ full p1 v).
  { intros v (a & b & H). unfold p1 in H. rewrite nth_set in H by exact L0. destruct (root =? v); [discriminate|]. destruct (N0 v) as [X|X]; congruence. }
  assert (HP1 : PJ g root m p1).
  { constructor; [unfold p1, p0; now rewrite upd_length, map_length|]. intros v a b Hn. exfalso. apply (NF v). exists a, b. exact Hn. }
  assert (HO1 : OD root p1 [root]).
  { constructor; [constructor; [intros []|constructor]| |].
    - intro v. split; [intros [<-|[]]; now left|intros [->|H]; [now left|exfalso; exact (NF v H)]].
    - intros v a b Hn. exfalso. apply (NF v). exists a, b. exact Hn. }
  assert (Hq1 : Forall (okn g root m p1) [root]) by (constructor; [split; [exact Hroot|now left]|constructor]).
  assert (Pot : length [root] + cnone p1 < S (S (length g))).
  { assert (X : S (cnone p1) = cnone p0) by (apply cnone_upd_none; destruct (N0 root) as [X|X]; [exact X|apply nth_error_None in X; lia]).
    assert (Y : cnone p0 = length g) by (unfold p0; apply cnone_map_none). cbn [length]. lia. }
  destruct (bfs_total g GR root m HM Hroot Hfree _ p1 [root] HP1 Hq1 Pot) as [[parents oe] Eb]. rewrite Eb. cbn [bind].
  destruct oe as [oend|]; [|eauto].
  pose proof (bfs_safe g GR root m HM Hroot Hfree (S (S (length g))) p1 [root] HP1 Hq1) as B. rewrite Eb in B. destruct B as [HP Hf].
  destruct (bfs_od g GR root m HM Hroot Hfree _ p1 [root] [root] parents (Some oend) HP1 Hq1 HO1 (fun v H => match NF v H with end) Eb) as [ord Ho].
  destruct (Hf oend eq_refl) as (_ & _ & (a0 & Hent) & _).
  assert (Hin : In oend ord) by (apply (od_in _ _ _ Ho); right; exists a0, oend; exact Hent).
  destruct (In_nth_error _ _ Hin) as [k Hk].
  assert (Lk : length ord <= length g).
  { apply nodup_bound; [exact (od_nd _ _ _ Ho)|]. intros x Hx. apply (od_in _ _ _ Ho) in Hx as [->|(a & b & Hx)]; [exact Hroot|].
    rewrite <- (pj_len _ _ _ _ HP). apply nth_error_Some. congruence. }
  assert (Kk : k < length ord) by (apply nth_error_Some; congruence).
  destruct (build_path_total g root m Hroot parents ord HP Ho k (S (S (length g))) oend [] Hk ltac:(lia)) as [path Ep]. rewrite Ep. cbn [bind]. eauto.
Qed.

(* ---------- the loop over `unmatched`: only a set operation can fail ---------- *)
(* Q: any property of the set that pop and discard keep (used below with the table invariants of EncProbe.v) *)
Definition set_err_q (Q : pyset -> Prop) (e : exn) : Prop :=
  (exists s, Q s /\ SI s /\ ps_nonempty s = true /\ ps_pop s = Err e) \/ (exists k s, Q s /\ ps_discard k s = Err e).
Definition set_err (e : exn) : Prop := (exists s, ps_pop s = Err e) \/ (exists k s, ps_discard k s = Err e).

Lemma ps_pop_used s k s' : ps_pop s = Ok (k, s') -> S (ps_used s') = ps_used s.
Proof.
  unfold ps_pop. destruct (Nat.eqb_spec (ps_used s) 0) as [|Hne]; [discriminate|].
  destruct (match first_key_from _ _ with Some h => Some h | None => _ end) as [[j k0]|]; [|discriminate]. intro H; inversion H; subst. cbn [ps_used]. lia.
Qed.
Lemma ps_discard_used key s s' : ps_discard key s = Ok s' -> ps_used s' <= ps_used s.
Proof. unfold ps_discard. destruct (look_probe _ _ _ _ _ _) as [[j|]|]; cbn [bind]; try discriminate; intro H; inversion H; subst; cbn [ps_used]; lia. Qed.

Lemma augment_total_q (Q : pyset -> Prop) (Qpop : forall s k s', Q s -> ps_pop s = Ok (k, s') -> Q s') (Qdis : forall s k s', Q s -> ps_discard k s = Ok s' -> Q s')
  g (GR : forall i li j, nth_error g i = Some li -> In j li -> j < length g) : forall fuel m u, AJ g m u -> Q u -> ps_used u < fuel ->
  match augment_loop pyset ps_nonempty ps_pop ps_discard fuel g m u with Ok _ => True | Err e => set_err_q Q e end.
Proof.
  induction fuel as [|f IH]; intros m u [Hm Hs Hu Hl Hin Hout] HQ Hfu; [lia|]. cbn [augment_loop].
  destruct (ps_nonempty u) eqn:En; cbn [negb]; [|exact I].
  destruct (ps_pop u) as [[root u1]|e] eqn:Epop; cbn [bind]; [|left; exists u; auto].
  destruct (ps_pop_full _ _ _ Hu Hl Epop) as (U1 & L1 & Nr1 & Mr). destruct (ps_pop_spec _ _ _ Hs Epop) as [S1 K1].
  pose proof (Hout root Mr) as Hfree. assert (Hroot : root < length g) by (rewrite <- (mr_len _ _ Hm); apply nth_error_Some; congruence).
  pose proof (find_path_safe g GR root m Hm Hroot Hfree) as FP. pose proof (find_path_spec g root m) as FS.
  destruct (find_path_total g GR root m Hm Hroot Hfree) as [r0 Ef]. rewrite Ef in FP. rewrite Ef. cbn [bind].
  destruct r0 as [path|]; [|exact I].
  destruct FP as (oend & Hoend & Hne & Hpn & Hhd). destruct (FS path Ef) as [Pp Pr].
  assert (Hrng : Forall (fun x => x < length g) path) by (eapply Forall_impl; [|exact Hpn]; intros x [Hx _]; exact Hx).
  destruct (flip_safe g path m Pp ltac:(rewrite (mr_len _ _ Hm); exact Hrng)) as [m' Efl]. rewrite Efl. cbn [bind].
  destruct path as [|p0 rest] eqn:Epath; [destruct Pr|]. cbn [get nth_error bind].
  destruct (get_ok (p0 :: rest) (length (p0 :: rest) - 1) ltac:(cbn [length]; lia)) as (pl & Egl & Hnl). rewrite Egl. cbn [bind].
  pose proof (Qpop _ _ _ HQ Epop) as Q1.
  destruct (ps_discard p0 u1) as [u2|e] eqn:Ed2; cbn [bind]; [|right; exists p0, u1; auto].
  pose proof (Qdis _ _ _ Q1 Ed2) as Q2.
  destruct (ps_discard pl u2) as [u3|e] eqn:Ed3; cbn [bind]; [|right; exists pl, u2; auto].
  pose proof (Qdis _ _ _ Q2 Ed3) as Q3.
  destruct (ps_discard_full _ _ _ U1 L1 Ed2) as (U2 & L2 & N2). destruct (ps_discard_spec _ _ _ S1 Ed2) as [S2 K2].
  destruct (ps_discard_full _ _ _ U2 L2 Ed3) as (U3 & L3 & N3). destruct (ps_discard_spec _ _ _ S2 Ed3) as [S3 K3].
  apply IH; [|exact Q3|pose proof (ps_pop_used _ _ _ Epop); pose proof (ps_discard_used _ _ _ Ed2); pose proof (ps_discard_used _ _ _ Ed3); lia].
  constructor; [exact (flip_mr g GR _ _ _ Hm Hrng Efl)|exact S3|exact U3|exact L3| |].
  - intros i Hi.
    assert (Np : ~ In i (p0 :: rest)).
    { intro Hin'. destruct (flip_inside _ _ _ _ Efl Hin') as [y Hy]. congruence. }
    rewrite (flip_outside _ _ _ _ Efl Np) in Hi. pose proof (Hin i Hi) as Hmem.
    apply nth_error_In in Hnl.
    apply K3; [intros ->; contradiction|]. apply K2; [intros ->; apply Np; now left|]. apply K1; [intros ->; contradiction|exact Hmem].
  - intros i Hi. pose proof (ps_discard_sub _ _ _ _ Ed3 Hi) as H2. pose proof (ps_discard_sub _ _ _ _ Ed2 H2) as H1. pose proof (ps_pop_sub _ _ _ _ Epop H1) as H0.
    pose proof (Hout i H0) as Hnone.
    assert (Np : ~ In i (p0 :: rest)).
    { intro Hin'. rewrite Forall_forall in Hpn. destruct (Hpn i Hin') as [_ [->|[->|[y Hy]]]]; [contradiction| |congruence].
      cbn [hd_error] in Hhd. inversion Hhd; subst p0. exact (N2 H2). }
    rewrite (flip_outside _ _ _ _ Efl Np). exact Hnone.
Qed.

Lemma augment_total g (GR : forall i li j, nth_error g i = Some li -> In j li -> j < length g) : forall fuel m u, AJ g m u -> ps_used u < fuel ->
  match augment_loop pyset ps_nonempty ps_pop ps_discard fuel g m u with Ok _ => True | Err e => set_err e end.
Proof.
  intros fuel m u Ha Hf. pose proof (augment_total_q (fun _ => True) (fun _ _ _ _ _ => I) (fun _ _ _ _ _ => I) g GR fuel m u Ha I Hf) as A.
  destruct (augment_loop pyset ps_nonempty ps_pop ps_discard fuel g m u) as [r|e]; [exact I|].
  destruct A as [(s & _ & _ & _ & H)|(k & s & _ & H)]; [left; eauto|right; eauto].
Qed.

(* ---------- assembled ---------- *)
From Selfies Require Import EncRows EncUniq EncCount EncGreedy EncGreedyT.
From Coq Require Import Permutation.

Theorem matching_fails_only_in_set_ops g e :
  (forall i li j, nth_error g i = Some li -> In j li -> j < length g) ->
  (forall i li, nth_error g i = Some li -> ~ In i li) ->
  (forall u v lu lv, nth_error g u = Some lu -> nth_error g v = Some lv -> occ lu v = occ lv u) ->
  find_perfect_matching g = Err e -> (exists l, ps_of_list l = Err e) \/ set_err e.
Proof.
  intros GR NSL SYM. unfold find_perfect_matching, find_perfect_matching_with.
  destruct (greedy_total g GR NSL SYM) as [m0 Eg]. rewrite Eg. cbn [bind].
  destruct (ps_of_list (unmatched_nodes m0)) as [u|e0] eqn:Eu; cbn [bind]; [|intro H; inversion H; subst; left; eauto].
  destruct (ps_of_list_full _ _ (nodup_enum _ m0 0) Eu) as (Su & Uu & Lu & Mu).
  pose proof (greedy_mr g GR m0 Eg) as Hm.
  intro E. right. pose proof (augment_total g GR (S (length g)) m0 u) as A. rewrite E in A. apply A.
  - constructor; [exact Hm|exact Su|exact Uu|exact Lu| |]; intros i Hi; [apply Mu; now apply unmatched_spec|apply unmatched_spec; now apply Mu].
  - unfold SI in Su. rewrite Su. unfold cnt. pose proof (ps_of_list_keys _ _ (nodup_enum _ m0 0) Eu) as P. rewrite (Permutation_length P).
    apply Nat.lt_succ_r. apply nodup_bound; [exact (nodup_enum _ m0 0)|].
    intros x Hx. apply unmatched_spec in Hx. rewrite <- (mr_len _ _ Hm). apply nth_error_Some. congruence.
Qed.

Theorem parsed_matching_fails_only_in_set_ops smiles attributable m0 g e :
  smiles_to_mol smiles attributable = Ok m0 -> pruned_ds m0 = Ok g -> find_perfect_matching g = Err e ->
  (exists l, ps_of_list l = Err e) \/ set_err e.
Proof.
  intros Ep Eg Em. unfold pruned_ds in Eg. destruct (kept_nodes_of m0 (ds_keys (m_ds m0))) as [kept|] eqn:Ek; cbn [bind] in Eg; [|discriminate].
  assert (Hns : NoSelf m0).
  { destruct (parsed_gue _ _ _ Ep) as (_ & _ & _ & _ & Hrow & _). destruct (parsed_gi _ _ _ Ep) as [Hi _].
    intros j d r (row & e0 & Hn & Hin & Hd & _). subst d. destruct (Hi j row e0 Hn Hin) as [_ Hne]. rewrite (proj1 (Hrow _ _ _ Hn Hin)) in Hne. congruence. }
  destruct (pruned_graph_ok m0 kept g (parsed_kpre _ _ _ Ep) (parsed_dsp _ _ _ Ep) Hns Ek Eg) as (GR & NSL & SYM).
  exact (matching_fails_only_in_set_ops g e GR NSL SYM Em).
Qed.
