(* LexFacts.v — C14: split_selfies / len_selfies / get_alphabet_from_selfies on
   well-formed strings. *)
From Coq Require Import Ascii String List Arith NArith Bool Lia.
Import ListNotations.
From Selfies Require Import Base Lex BaseFacts WfSpec.

Lemma body_char_spec c : body_char c = true -> c <> 91%N /\ c <> 93%N /\ c <> 46%N.
Proof.
  unfold body_char. rewrite negb_true_iff, !orb_false_iff, !N.eqb_neq. tauto.
Qed.

Lemma lex_in_body : forall body acc rest,
  forallb body_char body = true ->
  lex (LIn acc) (body ++ rest) = lex (LIn (rev body ++ acc)) rest.
Proof.
  induction body as [|c body IH]; intros acc rest H; [reflexivity|].
  cbn [forallb] in H. apply andb_true_iff in H as [Hc Hb].
  apply body_char_spec in Hc as (_ & H93 & _).
  cbn [app lex]. unfold c_rb. apply N.eqb_neq in H93. rewrite H93.
  rewrite IH by exact Hb. cbn [rev]. now rewrite <- app_assoc.
Qed.

Lemma render_nil_iff l : render l = [] <-> l = [].
Proof.
  split; [|intros ->; reflexivity]. destruct l as [|[b d] l]; [reflexivity|discriminate].
Qed.

Lemma render_head l : l <> [] -> exists r, render l = 91%N :: r.
Proof. destruct l as [|[b d] l]; [congruence|]. intros _. cbn. eauto. Qed.

(* the lexer from the "start of a symbol" state *)
Lemma lex_start_render : forall l, wf l -> lex LStart (render l) = (tokens l, false).
Proof.
  induction l as [|[b d] l IH]; intro H; [reflexivity|].
  inversion H as [|? ? Hi Hl]; subst. specialize (IH Hl).
  unfold wf_item in Hi. cbn [fst] in Hi.
  change (render ((b, d) :: l)) with (render_item (b, d) ++ render l).
  change (tokens ((b, d) :: l)) with (tokens_item (b, d) ++ tokens l).
  unfold render_item, tokens_item, sym_of. cbn [fst snd].
  cbn [app lex]. rewrite <- !app_assoc. rewrite lex_in_body by exact Hi.
  cbn [app lex]. unfold c_rb. rewrite N.eqb_refl.
  assert (Hsym : rev (93%N :: rev b ++ [91%N]) = 91%N :: b ++ [93%N]).
  { cbn [rev]. rewrite rev_app_distr, rev_involutive. reflexivity. }
  rewrite Hsym.
  destruct d.
  - cbn [app]. unfold c_dot. rewrite N.eqb_refl. rewrite IH. reflexivity.
  - cbn [app]. destruct l as [|i l'].
    + reflexivity.
    + destruct (render_head (i :: l') ltac:(discriminate)) as (r & Hr).
      rewrite Hr in IH |- *. unfold c_dot. change (91 =? 46)%N with false. cbv iota.
      rewrite IH. reflexivity.
Qed.

Theorem split_wf : forall l, wf l -> split_selfies (render l) = (tokens l, false).
Proof.
  intros l H. unfold split_selfies. pose proof (lex_start_render _ H) as E.
  destruct l as [|[b d] l']; [reflexivity|].
  cbn [render flat_map render_item fst sym_of app] in E |- *.
  cbn [lex] in E |- *. unfold c_lb. rewrite N.eqb_refl. exact E.
Qed.

Lemma concat_tokens : forall l, concat (tokens l) = render l.
Proof.
  induction l as [|[b d] l IH]; [reflexivity|].
  change (tokens ((b, d) :: l)) with (tokens_item (b, d) ++ tokens l).
  change (render ((b, d) :: l)) with (render_item (b, d) ++ render l).
  rewrite concat_app, IH. f_equal. unfold tokens_item, render_item. cbn [fst snd].
  destruct d; cbn; rewrite ?app_nil_r; reflexivity.
Qed.

Theorem split_concat_identity : forall l, wf l ->
  concat (fst (split_selfies (render l))) = render l /\ snd (split_selfies (render l)) = false.
Proof. intros l H. rewrite split_wf by exact H. split; [apply concat_tokens|reflexivity]. Qed.

Lemma count_char_app c a b : count_char c (a ++ b) = count_char c a + count_char c b.
Proof. induction a as [|x a IH]; cbn; [reflexivity|]. rewrite IH. lia. Qed.

Lemma count_body c b : forallb body_char b = true -> (c = 91 \/ c = 46)%N -> count_char c b = 0.
Proof.
  induction b as [|x b IH]; intros H Hc; [reflexivity|].
  cbn [forallb] in H. apply andb_true_iff in H as [Hx Hb].
  apply body_char_spec in Hx as (H1 & _ & H3).
  cbn [count_char]. rewrite IH by assumption.
  destruct (N.eqb_spec x c); [|reflexivity]. subst. destruct Hc; contradiction.
Qed.

Theorem len_wf : forall l, wf l -> len_selfies (render l) = length (tokens l).
Proof.
  induction l as [|[b d] l IH]; intro H; [reflexivity|].
  inversion H as [|? ? Hi Hl]; subst. specialize (IH Hl). unfold wf_item in Hi. cbn [fst] in Hi.
  change (tokens ((b, d) :: l)) with (tokens_item (b, d) ++ tokens l).
  change (render ((b, d) :: l)) with (render_item (b, d) ++ render l).
  unfold len_selfies in *. rewrite !count_char_app, app_length.
  unfold render_item, tokens_item, sym_of. cbn [fst snd].
  assert (A : count_char c_lb (91%N :: b ++ [93%N]) = 1).
  { cbn [count_char]. unfold c_lb. rewrite N.eqb_refl, count_char_app, count_body; auto. }
  assert (B : count_char c_dot (91%N :: b ++ [93%N]) = 0).
  { cbn [count_char]. unfold c_dot. change (91 =? 46)%N with false.
    rewrite count_char_app, count_body; auto. }
  rewrite !count_char_app, A, B. destruct d; cbn; lia.
Qed.

Theorem len_equals_items_yielded : forall l, wf l ->
  len_selfies (render l) = length (fst (split_selfies (render l))).
Proof. intros l H. rewrite split_wf by exact H. now apply len_wf. Qed.

(* ---------- get_alphabet_from_selfies ---------- *)
Lemma add_set_In x y acc : In y (add_set x acc) <-> y = x \/ In y acc.
Proof.
  unfold add_set. destruct (mem_str x acc) eqn:E.
  - apply mem_str_In in E. split; [auto|]. intros [->|H]; assumption.
  - rewrite in_app_iff. cbn. intuition congruence.
Qed.

Lemma NoDup_snoc {A} (l : list A) x : NoDup l -> ~ In x l -> NoDup (l ++ [x]).
Proof.
  induction l as [|y l IH]; intros H Hx; cbn; [constructor; [tauto|constructor]|].
  inversion H; subst. constructor.
  - rewrite in_app_iff. cbn in *. intuition congruence.
  - apply IH; [assumption|]. cbn in Hx. tauto.
Qed.

Lemma add_set_NoDup x acc : NoDup acc -> NoDup (add_set x acc).
Proof.
  intro H. unfold add_set. destruct (mem_str x acc) eqn:E; [exact H|].
  apply NoDup_snoc; [exact H|].
  intro Hin. apply mem_str_In in Hin. congruence.
Qed.

Lemma fold_add_In : forall ts acc y,
  In y (fold_left (fun a t => add_set t a) ts acc) <-> In y ts \/ In y acc.
Proof.
  induction ts as [|t ts IH]; intros acc y; cbn [fold_left]; [cbn; tauto|].
  rewrite IH, add_set_In. cbn. intuition congruence.
Qed.

Lemma fold_add_NoDup : forall ts acc, NoDup acc -> NoDup (fold_left (fun a t => add_set t a) ts acc).
Proof. induction ts as [|t ts IH]; intros acc H; cbn; [exact H|]. apply IH, add_set_NoDup, H. Qed.

Lemma alphabet_from_wf : forall ls acc, Forall wf ls -> NoDup acc ->
  exists out, alphabet_from (map render ls) acc = Ok out /\ NoDup out /\
    forall y, In y out <-> (y <> dot_tok /\ (In y acc \/ exists l, In l ls /\ In y (tokens l))).
Proof.
  induction ls as [|l ls IH]; intros acc H Hnd.
  - exists (filter (fun x => negb (str_eqb x dot_tok)) acc). split; [reflexivity|].
    split; [now apply NoDup_filter|]. intro y. rewrite filter_In, negb_true_iff, str_eqb_neq.
    split; [intros [? ?]; split; auto|intros [? [?|(l & [] & _)]]; auto].
  - inversion H as [|? ? Hl Hls]; subst.
    cbn [map alphabet_from]. rewrite split_wf by exact Hl.
    destruct (IH (fold_left (fun a t => add_set t a) (tokens l) acc) Hls (fold_add_NoDup _ _ Hnd))
      as (out & Ho & Hn & Hin).
    exists out. split; [exact Ho|]. split; [exact Hn|]. intro y. rewrite Hin, fold_add_In.
    split; intros [Hd Hy]; (split; [exact Hd|]).
    + destruct Hy as [[Hy|Hy]|(l' & Hl' & Hy)]; [right; exists l; cbn; auto|auto|right; exists l'; cbn; auto].
    + destruct Hy as [Hy|(l' & [->|Hl'] & Hy)]; [auto|auto|right; eauto].
Qed.

Lemma tokens_In l y : In y (tokens l) <->
  exists i, In i l /\ (y = sym_of (fst i) \/ (snd i = true /\ y = dot_tok)).
Proof.
  unfold tokens. rewrite in_flat_map. split; intros (i & Hi & H); exists i; (split; [exact Hi|]).
  - unfold tokens_item in H. destruct (snd i); cbn in H.
    + destruct H as [H|[H|[]]]; [left; now symmetry|right; split; [reflexivity|now symmetry]].
    + destruct H as [H|[]]. left; now symmetry.
  - unfold tokens_item. destruct H as [->|[Hs ->]]; [now left|]. rewrite Hs. right. now left.
Qed.

Lemma sym_not_dot b : sym_of b <> dot_tok.
Proof. unfold sym_of, dot_tok, c_dot. intro H. inversion H. Qed.

Theorem alphabet_wf : forall ls, Forall wf ls ->
  exists out, get_alphabet_from_selfies (map render ls) = Ok out /\ NoDup out /\
    forall y, In y out <-> exists l, In l ls /\ In y (symbols l).
Proof.
  intros ls H. destruct (alphabet_from_wf ls [] H (NoDup_nil _)) as (out & Ho & Hn & Hin).
  exists out. split; [exact Ho|]. split; [exact Hn|]. intro y. rewrite Hin.
  split.
  - intros (Hd & [[]|(l & Hl & Hy)]). exists l. split; [exact Hl|].
    apply tokens_In in Hy as (i & Hi & [->|[_ ->]]); [|contradiction].
    unfold symbols. apply in_map_iff. exists i. auto.
  - intros (l & Hl & Hy). unfold symbols in Hy. apply in_map_iff in Hy as (i & <- & Hi). split.
    + apply sym_not_dot.
    + right. exists l. split; [exact Hl|]. apply tokens_In. exists i. auto.
Qed.

(* the hypothesis is needed: outside the language the two definitions differ *)
Example dot_inside_breaks_len :
  len_selfies (lit "[C.C]") = 2 /\ fst (split_selfies (lit "[C.C]")) = [lit "[C.C]"].
Proof. split; vm_compute; reflexivity. Qed.
Example double_dot_breaks_len :
  len_selfies (lit "[C]..[C]") = 4 /\ fst (split_selfies (lit "[C]..[C]")) = [lit "[C]"; lit "."; lit ".[C]"].
Proof. split; vm_compute; reflexivity. Qed.
Example wf_example :
  wf [(lit "C", false); (lit "=Branch1", true); (lit "", false); (lit "x y", true)] /\
  render [(lit "C", false); (lit "=Branch1", true); (lit "", false); (lit "x y", true)] = lit "[C][=Branch1].[][x y].".
Proof. split; [repeat constructor|reflexivity]. Qed.

(* ---------- the recogniser used as oracle is sound and complete ---------- *)
Lemma take_body_sound : forall s b r, take_body s = Some (b, r) ->
  s = b ++ 93%N :: r /\ forallb body_char b = true.
Proof.
  induction s as [|c s IH]; intros b r H; [discriminate|]. cbn [take_body] in H.
  destruct (N.eqb_spec c 93) as [->|Hc].
  - inversion H; subst. split; reflexivity.
  - destruct (body_char c) eqn:Eb; [|discriminate].
    destruct (take_body s) as [[b' r']|] eqn:Et; [|discriminate].
    inversion H; subst. destruct (IH _ _ eq_refl) as [-> Hb]. split; [reflexivity|].
    cbn. now rewrite Eb, Hb.
Qed.

Theorem wf_parse_sound : forall s l, wf_parse s = Some l -> render l = s /\ wf l.
Proof.
  unfold wf_parse. intro s. generalize (S (length s)) as fuel. intro fuel. revert s.
  induction fuel as [|f IH]; intros s l H; [discriminate|]. cbn [wf_parse_fuel] in H.
  destruct s as [|c r]; [inversion H; split; [reflexivity|constructor]|].
  destruct (N.eqb_spec c 91) as [->|]; [|discriminate].
  destruct (take_body r) as [[b r']|] eqn:Et; [|discriminate].
  apply take_body_sound in Et as [-> Hb].
  destruct r' as [|d r''].
  - inversion H; subst. split; [unfold render, render_item, sym_of; cbn [flat_map fst snd]; rewrite !app_nil_r; reflexivity|repeat constructor; exact Hb].
  - destruct (N.eqb_spec d 46) as [->|Hd].
    + destruct (wf_parse_fuel f r'') as [l'|] eqn:E; [|discriminate]. inversion H; subst.
      destruct (IH _ _ E) as [<- Hw]. split.
      * change (render ((b, true) :: l')) with (render_item (b, true) ++ render l').
        unfold render_item, sym_of. cbn [fst snd]. cbn [app]. rewrite <- !app_assoc. reflexivity.
      * constructor; [exact Hb|exact Hw].
    + destruct (wf_parse_fuel f (d :: r'')) as [l'|] eqn:E; [|discriminate]. inversion H; subst.
      destruct (IH _ _ E) as [Hr Hw]. split.
      * change (render ((b, false) :: l')) with (render_item (b, false) ++ render l').
        unfold render_item, sym_of. cbn [fst snd]. rewrite app_nil_r. cbn [app]. rewrite <- !app_assoc.
        cbn [app]. now rewrite Hr.
      * constructor; [exact Hb|exact Hw].
Qed.

Lemma take_body_complete : forall b r, forallb body_char b = true -> take_body (b ++ 93%N :: r) = Some (b, r).
Proof.
  induction b as [|c b IH]; intros r H; [reflexivity|].
  cbn [forallb] in H. apply andb_true_iff in H as [Hc Hb].
  cbn [app take_body]. pose proof (body_char_spec _ Hc) as (_ & H93 & _).
  apply N.eqb_neq in H93. rewrite H93, Hc, IH by exact Hb. reflexivity.
Qed.

Lemma wf_parse_fuel_complete : forall l fuel, wf l -> (length (render l) < fuel)%nat ->
  wf_parse_fuel fuel (render l) = Some l.
Proof.
  induction l as [|[b d] l IH]; intros fuel H Hf.
  - destruct fuel; [cbn in Hf; lia|reflexivity].
  - inversion H as [|? ? Hi Hl]; subst. unfold wf_item in Hi. cbn [fst] in Hi.
    destruct fuel as [|f]; [lia|].
    change (render ((b, d) :: l)) with (render_item (b, d) ++ render l) in *.
    unfold render_item, sym_of in *. cbn [fst snd] in *. cbn [app] in *.
    assert (Hlen : (length (render l) < f)%nat).
    { cbn [length] in Hf. rewrite !app_length in Hf. lia. }
    clear Hf.
    cbn [wf_parse_fuel]. change (91 =? 91)%N with true. cbv iota.
    rewrite <- !app_assoc. cbn [app]. rewrite take_body_complete by exact Hi.
    destruct d.
    + cbn [app]. change (46 =? 46)%N with true. cbv iota.
      rewrite IH; [reflexivity|exact Hl|exact Hlen].
    + cbn [app]. pose proof (IH f Hl Hlen) as IH'. destruct l as [|i l'].
      * reflexivity.
      * destruct (render_head (i :: l') ltac:(discriminate)) as (r & Hr).
        rewrite Hr in IH' |- *.
        change (91 =? 46)%N with false. cbv iota.
        rewrite IH'. reflexivity.
Qed.

Theorem wf_parse_complete : forall l, wf l -> wf_parse (render l) = Some l.
Proof. intros l H. unfold wf_parse. apply wf_parse_fuel_complete; [exact H|lia]. Qed.
