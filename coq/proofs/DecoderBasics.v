(* DecoderBasics.v — small facts shared by C01 / C02 / C08. *)
From Coq Require Import Ascii String List Arith ZArith NArith Bool Lia.
Import ListNotations.
From Selfies Require Import Base Generated Lex Atoms Grammar Compat Decoder BaseFacts StateFacts Reader DocGrammar.
Local Open Scope Z_scope.

(* the decoder's symbol tables are the documented symbol sets *)
Lemma branch_table_documented :
  map (fun kv => (fst kv, fst (snd kv))) branch_cache = branch_symbols /\
  forallb (fun kv => Nat.eqb (snd (snd kv)) (ring_len (fst kv))) branch_cache = true.
Proof. split; vm_compute; reflexivity. Qed.

Lemma ring_table_documented :
  map (fun kv => (fst kv, (fst (fst (snd kv)), fst (snd (snd kv)), snd (snd (snd kv))))) ring_cache = ring_symbols /\
  forallb (fun kv => Nat.eqb (snd (fst (snd kv))) (ring_len (fst kv))) ring_cache = true.
Proof. split; vm_compute; reflexivity. Qed.

(* the asserts inside next_branch_state / next_ring_state cannot fire at their call sites *)
Lemma branch_pre_holds : forall sym btype n state,
  process_branch_symbol sym = Some (btype, n) -> (state <=? 1) = false ->
  next_branch_state_pre btype state = true.
Proof.
  intros sym btype n state H Hs. unfold process_branch_symbol in H. apply assoc_in in H.
  assert (F : forallb (fun kv => (1 <=? fst (snd kv)) && (fst (snd kv) <=? 3)) branch_cache = true)
    by (vm_compute; reflexivity).
  rewrite forallb_forall in F. specialize (F _ H). cbn [fst snd] in F.
  unfold next_branch_state_pre. rewrite F. cbn [andb]. apply Z.leb_gt in Hs. apply Z.gtb_lt. lia.
Qed.

Lemma ring_pre_holds : forall rtype state, 0 <= state -> (state =? 0) = false ->
  next_ring_state_pre rtype state = true.
Proof.
  intros rtype state H0 Hs. unfold next_ring_state_pre. apply Z.eqb_neq in Hs. apply Z.gtb_lt. lia.
Qed.

Lemma ring_types : forall sym rtype n st, process_ring_symbol sym = Some (rtype, n, st) -> 1 <= rtype <= 3.
Proof.
  intros sym rtype n st H. unfold process_ring_symbol in H. apply assoc_in in H.
  assert (F : forallb (fun kv => (1 <=? fst (fst (snd kv))) && (fst (fst (snd kv)) <=? 3)) ring_cache = true)
    by (vm_compute; reflexivity).
  rewrite forallb_forall in F. specialize (F _ H). cbn [fst snd] in F.
  apply andb_true_iff in F as [A B]. apply Z.leb_le in A, B. lia.
Qed.

(* the 100-ring witness of the property text: legal decoding, illegal label *)
Definition hundred_rings : str :=
  lit "[C]" ++ concat (repeat (lit "[C][C][Ring1][Ring1][C]") 100).

Lemma label_refuted :
  exists out, decoder_str default_constraints hundred_rings false = Ok out /\
              contains (lit "%100") out = true /\
              valid_smiles_under default_constraints out = false.
Proof. eexists. split; [vm_compute; reflexivity|]. split; vm_compute; reflexivity. Qed.

Lemma ninety_nine_rings_fine :
  exists out, decoder_str default_constraints
                (lit "[C]" ++ concat (repeat (lit "[C][C][Ring1][Ring1][C]") 99)) false = Ok out /\
              valid_smiles_under default_constraints out = true.
Proof. eexists. split; [vm_compute; reflexivity|]. vm_compute; reflexivity. Qed.
