(* EncGood.v — C10: every symbol the encoder emits is a symbol the decoder's derivation accepts.
   (1) what the SMILES reader makes of an atom token (PShape), kept by kekulize and by the inversion pass;
   (2) the SELFIES symbol printed from such an atom parses back (EncAtoms.sel_atom_parses) and has a capacity;
   (3) index, branch and ring symbols are symbols of the tables. *)
From Coq Require Import Ascii String List Arith ZArith NArith Bool Lia.
Import ListNotations.
From Selfies Require Import Base Generated Lex Atoms Grammar Decoder Smiles PySet Matching Kekulize Encoder Reader DocGrammar
  BaseFacts WfSpec DecoderInv TokFacts DecFacts DeriveOk AlphaClosure WriterAtoms CompatTotal DocAtoms DocConverse
  IndexSpec IndexCode EncHyp EncShape EncTokens EncAtoms.
Local Open Scope Z_scope.

(* ---------- (1) the atoms of the reader ---------- *)

Definition PShape (a : atom) : Prop :=
  In (a_element a) elements /\
  ((a_isotope a = None /\ a_chirality a = None /\ a_hcount a = None /\ a_charge a = 0) \/
   ((exists h, a_hcount a = Some h /\ (h <= 9)%N) /\
    match a_chirality a with None => True | Some c => c = lit "@" \/ c = lit "@@" end)) /\
  IntOK a.

(* a token short enough for the count of its sign characters to be printable (str() of an int has the same limit
   as int() of a str): fewer than 10^4300 characters *)
Definition Qlen (n : nat) : Prop := (int_max_str_digits = 0 \/ N.of_nat n < 10 ^ int_max_str_digits)%N.

Lemma within_limit_1 : within_limit 1.
Proof. unfold within_limit. destruct (N.eq_dec int_max_str_digits 0) as [E|E]; [now left|right; lia]. Qed.

Lemma int_of_decimals_within s n : int_of_decimals s = Ok n -> within_limit (length s).
Proof.
  unfold int_of_decimals, within_limit. destruct (_ && _) eqn:E; [discriminate|]. intros _.
  apply andb_false_iff in E as [E|E]; [right; apply N.ltb_ge in E; exact E|left].
  apply negb_false_iff in E. now apply N.eqb_eq in E.
Qed.

Lemma int_nil : int_of_decimals [] = Ok 0%N.
Proof. unfold int_of_decimals. cbn [length]. change (N.of_nat 0) with 0%N. destruct (int_max_str_digits <? 0)%N eqn:E; [apply N.ltb_lt in E; lia|reflexivity]. Qed.

Lemma printed_within s n : int_of_decimals s = Ok n -> within_limit (length (str_of_N n)).
Proof.
  intro E. destruct s as [|c r].
  - rewrite int_nil in E. inversion E; subst. exact within_limit_1.
  - eapply within_limit_le; [|exact (int_of_decimals_within _ _ E)]. apply printed_int_len; [discriminate|exact E].
Qed.

Lemma printed_len_within (k n : nat) : (1 <= k)%nat -> (k <= n)%nat -> Qlen n -> within_limit (length (str_of_N (N.of_nat k))).
Proof.
  intros Hk Hkn [E|E]; [now left|]. right.
  destruct (N.eq_dec int_max_str_digits 0) as [Z|NZ]; [rewrite Z in E; cbn in E; lia|].
  assert (L : (length (str_of_N (N.of_nat k)) <= N.to_nat int_max_str_digits)%nat).
  { apply str_of_N_len; [lia|]. rewrite N2Nat.id. lia. }
  lia.
Qed.

Lemma bracket_chi sym g : match_bracket_atom sym = Some g -> chi_ok (g_chi g).
Proof.
  unfold match_bracket_atom. destruct sym as [|c0 s1]; [discriminate|].
  destruct (negb (N.eqb c0 91)); [discriminate|].
  destruct (span isdecimal s1) as [iso s3].
  destruct s3 as [|e1 s4]; [discriminate|]. destruct (negb (is_letter e1)); [discriminate|].
  set (es := match s4 with e2 :: r => if is_lower e2 then ([e1; e2], r) else ([e1], s4) | [] => ([e1], s4) end).
  destruct es as [elem s5].
  set (cs := if prefix_of (lit "@@") s5 then (lit "@@", skipn 2 s5) else if prefix_of (lit "@") s5 then (lit "@", skipn 1 s5) else ([], s5)).
  assert (Hcs : chi_ok (fst cs)).
  { unfold cs, chi_ok. destruct (prefix_of (lit "@@") s5); [cbn; tauto|]. destruct (prefix_of (lit "@") s5); cbn; tauto. }
  destruct cs as [chi s6]. cbn [fst] in Hcs.
  set (hs := match s6 with
             | c :: r => if N.eqb c 72 then match r with
                                            | d :: r' => if isdecimal d then ([c; d], r') else ([c], r)
                                            | [] => ([c], r) end
                         else ([], s6)
             | [] => ([], s6) end).
  destruct hs as [h s7].
  intro E.
  change (match charge_part tail_def s7 with
          | Some (chg, cl) => Some {| g_iso := iso; g_elem := elem; g_chi := chi; g_h := h; g_charge := chg; g_class := cl |}
          | None => None end = Some g) in E.
  destruct (charge_part tail_def s7) as [[chg cl]|]; [|discriminate].
  injection E as <-. exact Hcs.
Qed.

Lemma organic_in_elements e : In e organic_subset -> In e elements.
Proof.
  assert (F : forallb (fun x => mem_str x elements) organic_subset = true) by (vm_compute; reflexivity).
  rewrite forallb_forall in F. intro H. apply mem_str_In. now apply F.
Qed.

Lemma aromatic_in_elements e : In e aromatic_subset -> In (capitalize e) elements.
Proof.
  assert (F : forallb (fun x => mem_str (capitalize x) elements) aromatic_subset = true) by (vm_compute; reflexivity).
  rewrite forallb_forall in F. intro H. apply mem_str_In. now apply F.
Qed.

Lemma sign_abs n sg : Z.to_N (Z.abs (Z.of_N n * sign_of sg)) = n.
Proof. unfold sign_of. destruct (N.eqb sg 43); lia. Qed.
Lemma sign_abs_nat (k : nat) sg : Z.to_N (Z.abs (Z.of_nat k * sign_of sg)) = N.of_nat k.
Proof. unfold sign_of. destruct (N.eqb sg 43); lia. Qed.

Theorem smiles_atom_shape t a : Qlen (length t) -> smiles_to_atom t = Ok (Some a) -> PShape a.
Proof.
  intros Hq. unfold smiles_to_atom. destruct t as [|c0 r]; [discriminate|].
  destruct (_ && _).
  - destruct (match_bracket_atom (c0 :: r)) as [g|] eqn:Em; [|discriminate].
    destruct (bracket_fields_len _ _ Em) as [Hlen Hh]. pose proof (bracket_chi _ _ Em) as Hc.
    destruct (match g_iso g with [] => Ok None | _ => _ end) as [iso|] eqn:E1; cbn [bind]; [|discriminate].
    destruct (negb (mem_str _ elements)) eqn:Eel; [discriminate|]. apply negb_false_iff in Eel. apply mem_str_In in Eel.
    destruct (match g_h g with [] => Ok 0%N | _ => _ end) as [h|] eqn:E2; cbn [bind]; [|discriminate].
    destruct (match g_charge g with [] => Ok 0 | _ => _ end) as [chg|] eqn:E3; cbn [bind]; [|discriminate].
    intro E; inversion E; subst; clear E. unfold PShape, IntOK. cbn [a_element a_isotope a_chirality a_hcount a_charge].
    split; [exact Eel|]. split; [right; split|split].
    + exists h. split; [reflexivity|]. destruct Hh as [Z|[(c & Z)|(c & d & Z)]]; rewrite Z in E2.
      * inversion E2; lia.
      * inversion E2; lia.
      * apply int_of_decimals_lt in E2. cbn [length] in E2. change (10 ^ N.of_nat 1)%N with 10%N in E2. lia.
    + destruct Hc as [Z|[Z|Z]]; rewrite Z; cbn; tauto.
    + intros n Hn. subst iso. destruct (g_iso g) as [|d ds]; [discriminate|].
      destruct (int_of_decimals (d :: ds)) as [k|] eqn:Ek; cbn [bind] in E1; [|discriminate]. inversion E1; subst.
      exact (printed_within _ _ Ek).
    + destruct (g_charge g) as [|sg rest] eqn:Eg; [inversion E3; subst; exact within_limit_1|].
      destruct (last_char (sg :: rest)) as [l|]; [|inversion E3; subst; exact within_limit_1].
      destruct (isdigit l).
      * destruct (int_of_decimals rest) as [k|] eqn:Ek; cbn [bind] in E3; [|discriminate]. inversion E3; subst.
        rewrite sign_abs. exact (printed_within _ _ Ek).
      * assert (Ek : chg = Z.of_nat (length (sg :: rest)) * sign_of sg) by congruence. rewrite Ek, sign_abs_nat. apply (printed_len_within _ (length (c0 :: r))); [cbn [length]; lia| |exact Hq].
        cbn [length] in *. lia.
  - destruct (mem_str (c0 :: r) organic_subset) eqn:Eo.
    + intro E; inversion E; subst; clear E. apply mem_str_In in Eo. unfold PShape, IntOK. cbn [a_element a_isotope a_chirality a_hcount a_charge].
      split; [now apply organic_in_elements|]. split; [left; tauto|]. split; [discriminate|exact within_limit_1].
    + destruct (mem_str (c0 :: r) aromatic_subset) eqn:Ea; [|discriminate].
      intro E; inversion E; subst; clear E. apply mem_str_In in Ea. unfold PShape, IntOK. cbn [a_element a_isotope a_chirality a_hcount a_charge].
      split; [exact (aromatic_in_elements _ Ea)|]. split; [left; tauto|]. split; [discriminate|exact within_limit_1].
Qed.

Lemma pshape_clear a : PShape a -> PShape (clear_aromatic a).
Proof. destruct a; exact (fun H => H). Qed.

Lemma pshape_invert a : PShape a -> PShape (invert_chirality a).
Proof.
  destruct a as [e ar i c h g]. unfold PShape, IntOK, invert_chirality. cbn [a_element a_isotope a_chirality a_hcount a_charge].
  intros (He & Hs & Hi). split; [exact He|]. split; [|exact Hi].
  destruct Hs as [(A & B & C & D)|(A & B)]; [left; subst c; tauto|right; split; [exact A|]].
  destruct c as [c|]; [|exact I]. destruct B as [-> | ->]; cbn; tauto.
Qed.

(* the capacity the table gives the atom covers its explicit hydrogens *)
Definition cap_ok (T : table) (a : atom) : Prop :=
  exists c, get_bonding_capacity T (a_element a) (a_charge a) = Ok c /\ hv a <= c.
Lemma cap_clear T a : cap_ok T a -> cap_ok T (clear_aromatic a).
Proof. destruct a; exact (fun H => H). Qed.
Lemma cap_invert T a : cap_ok T a -> cap_ok T (invert_chirality a).
Proof. destruct a; exact (fun H => H). Qed.

(* ---------- (2) atom symbols ---------- *)
Lemma lower_body c : is_lower c = true -> body_char c = true.
Proof. unfold is_lower, body_char. intro H. apply andb_true_iff in H as [A B]. apply N.leb_le in A, B.
  apply negb_true_iff. apply orb_false_iff. split; [apply orb_false_iff; split|]; apply N.eqb_neq; lia. Qed.

Lemma elem_body e : elem_shape e = true -> forallb body_char e = true.
Proof.
  destruct e as [|a [|b [|c r]]]; cbn [elem_shape]; try discriminate; intro H.
  - cbn. rewrite (proj2 (proj2 (proj2 (upper_facts a H)))). reflexivity.
  - apply andb_true_iff in H as [A B]. cbn. rewrite (proj2 (proj2 (proj2 (upper_facts a A)))), (lower_body b B). reflexivity.
Qed.

Lemma digits_body ds : Forall (fun c => is_09 c = true) ds -> forallb body_char ds = true.
Proof. intro F. apply forallb_forall. intros c Hc. rewrite Forall_forall in F. apply digit_body. now apply F. Qed.

Lemma prefix_body c : is_bond_prefix c = true -> body_char c = true.
Proof.
  unfold is_bond_prefix. cbn [lit mem_N]. intro H.
  repeat (apply orb_true_iff in H as [H|H]; [apply N.eqb_eq in H; subst; reflexivity|]). discriminate.
Qed.

Theorem nocache_is_symbol t x : process_atom_nocache t = Ok (Some x) -> is_symbol t.
Proof.
  unfold process_atom_nocache. destruct (match_selfies_atom t) as [f|] eqn:Em; [|discriminate]. intros _.
  destruct (match_tiles t f Em) as (Et & Hb & Fi & He & Hc & Hh & Hg).
  exists (match f_bond f with Some c => [c] | None => [] end ++ f_iso f ++ f_elem f ++ f_chi f ++ f_h f ++ f_charge f)%list.
  split; [rewrite Et at 1; unfold sym_of; now rewrite <- !app_assoc|].
  rewrite !forallb_app. repeat (apply andb_true_iff; split).
  - destruct (f_bond f) as [c|]; [cbn; now rewrite (prefix_body c Hb)|reflexivity].
  - now apply digits_body.
  - now apply elem_body.
  - destruct Hc as [->|[->| ->]]; reflexivity.
  - destruct Hh as [->|(d & -> & Hd)]; [reflexivity|]. cbn. now rewrite (digit_body d Hd).
  - destruct Hg as [->|(sg & d1 & ds & -> & Hs & H1 & Hds)]; [reflexivity|]. cbn [forallb].
    assert (H1' : is_09 d1 = true).
    { unfold is_19 in H1. unfold is_09. apply andb_true_iff in H1 as [A B]. apply N.leb_le in A, B. apply andb_true_iff. split; apply N.leb_le; lia. }
    rewrite (digit_body d1 H1'), (digits_body ds Hds). destruct Hs as [-> | ->]; reflexivity.
Qed.

(* an atom symbol the decoder's reader accepts is a good token once its atom has a non-negative capacity *)
Lemma atom_good T t o st a c : process_atom_nocache t = Ok (Some (o, st, a)) ->
  get_bonding_capacity T (a_element a) (a_charge a) = Ok c -> hv a <= c -> good_tok T t.
Proof.
  intros Ep Ec Hc.
  assert (Epas : process_atom_symbol T t = Ok (Some (o, st, a, c - hv a))).
  { unfold process_atom_symbol, process_atom_symbol_c. rewrite Ep. cbn [bind]. unfold bonding_capacity_c. rewrite Ec. cbn [bind].
    fold (hv a). destruct (c - hv a <? 0) eqn:El; [apply Z.ltb_lt in El; lia|reflexivity]. }
  split; [exists (Some (o, st, a)); exact Ep|].
  pose proof (doc_parse_of_model _ _ _ _ Ep) as Ed.
  destruct (is_branch_like t) eqn:Eb; [apply branch_like_not_atom in Eb; congruence|].
  destruct (is_ring_like t) eqn:Er; [apply ring_like_not_atom in Er; congruence|].
  destruct (is_eps_like t); [exact I|]. eexists; exact Epas.
Qed.

Theorem atom_token_good T a bc t : PShape a -> a_aromatic a = false -> cap_ok T a -> In bc bond5 -> atom_to_smiles a false = Ok t ->
  good_tok T (lit "[" ++ bc ++ t ++ lit "]") /\ is_symbol (lit "[" ++ bc ++ t ++ lit "]").
Proof.
  intros (Hel & Hs & Hint) Har (c & Ec & Hc) Hbc Et.
  pose proof (elements_mem _ Hel) as [_ Hshape].
  assert (Hp : exists o st a', process_atom_nocache (lit "[" ++ bc ++ t ++ lit "]") = Ok (Some (o, st, a')) /\
                               a_element a' = a_element a /\ a_charge a' = a_charge a /\ hv a' = hv a).
  { destruct Hs as [(Hi & Hch & Hh & Hg)|(Hh & Hch)].
    - destruct (mem_str (a_element a) organic_subset) eqn:Eo.
      + apply mem_str_In in Eo. do 2 eexists. exists a. split; [|tauto].
        apply sel_atom_parses; [split; [exact Har|left; tauto]|exact Hint|exact Hbc|exact Et].
      + (* a bare element outside the organic subset: the decoder reads it as a bracket atom with no hydrogens *)
        set (a0 := {| a_element := a_element a; a_aromatic := false; a_isotope := None; a_chirality := None; a_hcount := Some 0%N; a_charge := 0 |}).
        assert (Et0 : atom_to_smiles a0 false = Ok t).
        { unfold atom_to_smiles in Et |- *. rewrite Har, Hi, Hch, Hh, Hg in Et. cbn in Et. inversion Et; subst t.
          cbn [a0 a_aromatic a_isotope a_chirality a_hcount a_charge a_element]. cbn [Z.eqb]. rewrite Eo. cbn [app]. now rewrite !app_nil_r. }
        do 2 eexists. exists a0. split; [|cbn; unfold hv; rewrite Hh, Hg; cbn; tauto].
        apply sel_atom_parses; [split; [reflexivity|right; cbn; repeat split; auto; exists 0%N; split; [reflexivity|lia]]| |exact Hbc|exact Et0].
        split; [discriminate|cbn; exact within_limit_1].
    - do 2 eexists. exists a. split; [|tauto].
      apply sel_atom_parses; [split; [exact Har|right; tauto]|exact Hint|exact Hbc|exact Et]. }
  destruct Hp as (o & st & a' & Ep & E1 & E2 & E3).
  split; [|exact (nocache_is_symbol _ _ Ep)].
  apply (atom_good T _ o st a' c Ep); [now rewrite E1, E2|now rewrite E3].
Qed.

(* ---------- (3) index, branch and ring symbols ---------- *)
Definition tok_okb (t : str) : bool := match process_atom_nocache t with Ok _ => true | Err _ => false end.
Definition structb (t : str) : bool :=
  tok_okb t && wfsym t &&
  (if is_branch_like t then match process_branch_symbol t with Some _ => true | None => false end
   else if is_ring_like t then match process_ring_symbol t with Some _ => true | None => false end
   else false).

Lemma structb_good T t : structb t = true -> good_tok T t /\ is_symbol t.
Proof.
  unfold structb, tok_okb. intro H. apply andb_true_iff in H as [H H3]. apply andb_true_iff in H as [H1 H2].
  split; [|now apply wfsym_is_symbol]. split.
  - unfold tok_ok. destruct (process_atom_nocache t) as [o|]; [now exists o|discriminate].
  - destruct (is_branch_like t); [destruct (process_branch_symbol t); [discriminate|discriminate]|].
    destruct (is_ring_like t); [destruct (process_ring_symbol t); discriminate|discriminate].
Qed.

Definition branch_tokens : list str :=
  flat_map (fun p => map (fun n => lit "[" ++ p ++ lit "Branch" ++ str_of_nat n ++ lit "]")%list [1; 2; 3]%nat) branch_prefixes.
Definition ring_tokens : list str :=
  flat_map (fun p => map (fun n => lit "[" ++ p ++ lit "Ring" ++ str_of_nat n ++ lit "]")%list [1; 2; 3]%nat) ring_prefixes.

Lemma struct_tokens_ok : forallb structb (branch_tokens ++ ring_tokens) = true.
Proof. vm_compute. reflexivity. Qed.

Lemma index_nonempty idx Q : get_selfies_from_index idx = Ok Q -> (1 <= length Q)%nat.
Proof.
  intro E. assert (H0 : 0 <= idx) by (unfold get_selfies_from_index in E; destruct (idx <? 0) eqn:El; [discriminate|apply Z.ltb_ge in El; exact El]).
  destruct (from_index_spec (Z.to_N idx)) as (syms & Hs & _ & _ & Hne & _). rewrite Z2N.id in Hs by exact H0. rewrite E in Hs. inversion Hs; subst.
  destruct syms; [contradiction|cbn; lia].
Qed.

Lemma branch_token_good T bs Q idx : In bs branch_prefixes -> get_selfies_from_index idx = Ok Q -> (length Q <= 3)%nat ->
  let t := (lit "[" ++ bs ++ lit "Branch" ++ str_of_nat (length Q) ++ lit "]")%list in good_tok T t /\ is_symbol t.
Proof.
  intros Hb EQ H3 t. apply structb_good. pose proof struct_tokens_ok as F. rewrite forallb_forall in F. apply F.
  apply in_app_iff. left. unfold branch_tokens. apply in_flat_map. exists bs. split; [exact Hb|]. apply in_map_iff. exists (length Q). split; [reflexivity|].
  pose proof (index_nonempty _ _ EQ). cbn. lia.
Qed.

Lemma ring_token_good T rs Q idx : In rs ring_prefixes -> get_selfies_from_index idx = Ok Q -> (length Q <= 3)%nat ->
  let t := (lit "[" ++ rs ++ lit "Ring" ++ str_of_nat (length Q) ++ lit "]")%list in good_tok T t /\ is_symbol t.
Proof.
  intros Hb EQ H3 t. apply structb_good. pose proof struct_tokens_ok as F. rewrite forallb_forall in F. apply F.
  apply in_app_iff. right. unfold ring_tokens. apply in_flat_map. exists rs. split; [exact Hb|]. apply in_map_iff. exists (length Q). split; [reflexivity|].
  pose proof (index_nonempty _ _ EQ). cbn. lia.
Qed.

(* the sixteen index symbols: branch and ring symbols of the tables, or atom symbols of elements whose capacity the
   table (or its '?' entry) gives *)
Definition index_atoms : list (str * atom) :=
  let mk (e : string) := {| a_element := lit e; a_aromatic := false; a_isotope := None; a_chirality := None; a_hcount := None; a_charge := 0 |} in
  [([], mk "C"%string); ([], mk "O"%string); ([], mk "N"%string); ([61%N], mk "N"%string); ([61%N], mk "C"%string); ([35%N], mk "C"%string); ([], mk "S"%string); ([], mk "P"%string)].

Definition index_is (t : str) : bool :=
  structb t || existsb (fun ba => str_eqb t (lit "[" ++ fst ba ++ a_element (snd ba) ++ lit "]")
                                   && mem_str (a_element (snd ba)) organic_subset && mem_str (fst ba) bond5) index_atoms.

Lemma index_alphabet_is : forallb index_is index_alphabet = true.
Proof. vm_compute. reflexivity. Qed.

Lemma cap_any T e g : table_ok T -> exists c, get_bonding_capacity T e g = Ok c /\ 0 <= c.
Proof.
  intros HT. destruct HT as ((c0 & Hq) & Hnd & Hv).
  unfold get_bonding_capacity. destruct (assoc (constraint_key e g) T) as [v|] eqn:Ea.
  - exists v. split; [reflexivity|]. apply assoc_in in Ea. exact (proj1 (proj2 (Hv _ _ Ea))).
  - rewrite Hq. exists c0. split; [reflexivity|]. apply assoc_in in Hq. exact (proj1 (proj2 (Hv _ _ Hq))).
Qed.

Lemma index_token_good T t : table_ok T -> In t index_alphabet -> good_tok T t /\ is_symbol t.
Proof.
  intros HT Hin. pose proof index_alphabet_is as F. rewrite forallb_forall in F. specialize (F t Hin). unfold index_is in F.
  apply orb_true_iff in F as [F|F]; [now apply structb_good|].
  apply existsb_exists in F as ([bc a] & Hba & F). cbn [fst snd] in F.
  apply andb_true_iff in F as [F F3]. apply andb_true_iff in F as [F1 F2]. apply str_eqb_eq in F1. apply mem_str_In in F2, F3. subst t.
  assert (Ha : a_aromatic a = false /\ a_isotope a = None /\ a_chirality a = None /\ a_hcount a = None /\ a_charge a = 0).
  { unfold index_atoms in Hba. repeat (destruct Hba as [Hba|Hba]; [inversion Hba; subst; cbn; tauto|]). destruct Hba. }
  destruct Ha as (A1 & A2 & A3 & A4 & A5).
  assert (Et : atom_to_smiles a false = Ok (a_element a)).
  { unfold atom_to_smiles. rewrite A1, A2, A3, A4, A5. reflexivity. }
  apply (atom_token_good T a bc (a_element a)); [| exact A1 | | exact F3 | exact Et].
  - split; [now apply organic_in_elements|]. split; [left; tauto|]. split; [intros n Hn; congruence|rewrite A5; exact within_limit_1].
  - destruct (cap_any T (a_element a) (a_charge a) HT) as (c & Ec & Hc). exists c. split; [exact Ec|]. unfold hv. now rewrite A4.
Qed.
