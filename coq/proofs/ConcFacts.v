(* ConcFacts.v — C19: under every schedule of atomic cache operations each call
   computes what it computes alone. *)
From Coq Require Import List Arith Bool Lia.
Import ListNotations.
From Selfies Require Import Conc.

Section ConcFacts.
Variables key val res : Type.
Variable key_eqb : key -> key -> bool.
Hypothesis key_eqb_eq : forall a b, key_eqb a b = true -> a = b.
Variable F : key -> val.

Notation tprog := (tprog key val res).
Notation tstate := (tstate key val res).
Notation lookup := (lookup key val key_eqb).
Notation tstep := (tstep key val res key_eqb F).
Notation pure_of := (pure_of key val res F).
Notation sched_step := (sched_step key val res key_eqb F).
Notation run_schedule := (run_schedule key val res key_eqb F).

(* every stored pair is a value of the pure function *)
Definition coherent (m : memo key val) : Prop := Forall (fun kv => snd kv = F (fst kv)) m.

Lemma coherent_lookup m k v : coherent m -> lookup m k = Some v -> v = F k.
Proof.
  induction m as [|[k' v'] m IH]; intros H E; [discriminate|]. inversion H; subst. cbn [Conc.lookup] in E.
  destruct (key_eqb k k') eqn:Ek; [|now apply IH].
  inversion E; subst. apply key_eqb_eq in Ek. subst. assumption.
Qed.

Lemma coherent_filter : forall m keep, coherent m -> coherent (filter_by m keep).
Proof.
  induction m as [|kv m IH]; intros keep H; [destruct keep; constructor|].
  inversion H; subst. destruct keep as [|b keep]; [constructor|]. cbn [filter_by].
  destruct b; [constructor; [assumption|]|]; now apply IH.
Qed.

(* one step of one thread: coherence kept, and the thread still computes the same result *)
Lemma tstep_ok m s : coherent m ->
  coherent (fst (tstep m s)) /\ pure_of (snd (tstep m s)) = pure_of s.
Proof.
  intro H. destruct s as [[r|k c|k c]|k c]; cbn [Conc.tstep].
  - split; [exact H|reflexivity].
  - destruct (lookup m k) as [v|] eqn:E; cbn [fst snd].
    + split; [exact H|]. cbn [Conc.pure_of Conc.run_pure]. now rewrite (coherent_lookup _ _ _ H E).
    + split; [constructor; [reflexivity|exact H]|reflexivity].
  - destruct (lookup m k) as [v|] eqn:E; cbn [fst snd].
    + split; [exact H|]. cbn [Conc.pure_of Conc.run_pure]. now rewrite (coherent_lookup _ _ _ H E).
    + split; [exact H|reflexivity].
  - cbn [fst snd]. split; [constructor; [reflexivity|exact H]|reflexivity].
Qed.

Lemma map_set_nth {A B} (f : A -> B) : forall (l : list A) i x y,
  nth_error l i = Some y -> f x = f y -> map f (set_nth l i x) = map f l.
Proof.
  induction l as [|z l IH]; intros [|i] x y H E; cbn in *; try discriminate.
  - inversion H; subst. now rewrite E.
  - f_equal. eapply IH; eassumption.
Qed.

Lemma sched_step_ok st e : coherent (fst st) ->
  coherent (fst (sched_step st e)) /\ map pure_of (snd (sched_step st e)) = map pure_of (snd st).
Proof.
  destruct st as [m ts]. cbn [fst snd]. intro H. destruct e as [i|keep]; cbn [Conc.sched_step].
  - destruct (nth_error ts i) as [s|] eqn:E; [|split; [exact H|reflexivity]].
    destruct (tstep_ok m s H) as [H1 H2]. destruct (tstep m s) as [m' s']. cbn [fst snd] in *.
    split; [exact H1|]. eapply map_set_nth; eassumption.
  - cbn [fst snd]. split; [now apply coherent_filter|reflexivity].
Qed.

(* C19 (cache protocol): for EVERY schedule — any interleaving of single cache
   operations of any number of concurrent calls, with arbitrary evictions —
   starting from a coherent (e.g. empty, or warm) cache, the cache stays coherent
   and every call still evaluates to what it returns when run alone *)
Theorem any_schedule_equals_serial : forall es m ts, coherent m ->
  coherent (fst (run_schedule m ts es)) /\
  map pure_of (snd (run_schedule m ts es)) = map pure_of ts.
Proof.
  unfold Conc.run_schedule. induction es as [|e es IH]; intros m ts H; [split; [exact H|reflexivity]|].
  cbn [fold_left]. destruct (sched_step_ok (m, ts) e H) as [H1 H2].
  destruct (sched_step (m, ts) e) as [m' ts'] eqn:E. cbn [fst snd] in *.
  destruct (IH m' ts' H1) as [H3 H4]. split; [exact H3|]. now rewrite H4.
Qed.

(* in particular a call that has finished holds the serial result *)
Corollary finished_call_has_serial_result : forall es m (ps : list tprog) i r, coherent m ->
  nth_error (snd (run_schedule m (map (@Running key val res) ps) es)) i = Some (Running key val res (TRet key val res r)) ->
  exists p, nth_error ps i = Some p /\ run_pure key val res F p = r.
Proof.
  intros es m ps i r H E.
  destruct (any_schedule_equals_serial es m (map (@Running key val res) ps) H) as [_ Hm].
  assert (Hn : nth_error (map pure_of (snd (run_schedule m (map (@Running key val res) ps) es))) i = Some r).
  { rewrite nth_error_map, E. reflexivity. }
  rewrite Hm, map_map in Hn. rewrite nth_error_map in Hn.
  destruct (nth_error ps i) as [p|]; [|discriminate]. exists p. split; [reflexivity|].
  cbn in Hn. now inversion Hn.
Qed.
End ConcFacts.
