(* AlphaFacts.v — C07: the robust alphabet is the documented set, and its atom
   symbols are symbols of the decoder's grammar with room for their bond. *)
From Coq Require Import Ascii String List Arith ZArith NArith Bool Lia.
Import ListNotations.
From Selfies Require Import Base Generated Atoms Grammar Config BaseFacts IndexSpec IndexCode AlphaSpec.

Lemma add_unique_In x y l : In y (add_unique x l) <-> y = x \/ In y l.
Proof.
  unfold add_unique. destruct (mem_str x l) eqn:E.
  - apply mem_str_In in E. split; [auto|]. intros [->|H]; assumption.
  - rewrite in_app_iff. cbn. intuition congruence.
Qed.

Lemma fold_add_unique_In : forall xs acc y,
  In y (fold_left (fun a x => add_unique x a) xs acc) <-> In y xs \/ In y acc.
Proof.
  induction xs as [|x xs IH]; intros acc y; cbn [fold_left]; [cbn; tauto|].
  rewrite IH, add_unique_In. cbn. intuition congruence.
Qed.

Lemma fixed_is_spec : forall y, In y (fixed_symbols ++ index_alphabet) <-> In y spec_fixed.
Proof.
  intro y. rewrite index_alphabet_documented.
  assert (E : forall l1 l2 : list str, (forallb (fun x => mem_str x l2) l1 = true) -> forall y, In y l1 -> In y l2).
  { intros l1 l2 H z Hz. rewrite forallb_forall in H. apply mem_str_In. now apply H. }
  split; apply E; vm_compute; reflexivity.
Qed.

Lemma atom_symbols_In : forall t y,
  In y (atom_symbols t) <->
  exists k c b m, In (k, c) t /\ In (b, m) bond_prefix_orders /\ k <> lit "?" /\ (m <= c)%Z /\
                  y = lit "[" ++ b ++ k ++ lit "]".
Proof.
  intros t y. unfold atom_symbols.
  (* generalise over the accumulator *)
  assert (G : forall t acc,
    In y (fold_left (fun acc '(a, c) =>
       fold_left (fun acc '(b, m) =>
          if ((c <? m)%Z || str_eqb a (lit "?")) then acc
          else add_unique (lit "[" ++ b ++ a ++ lit "]") acc) bond_prefix_orders acc) t acc) <->
    In y acc \/ exists k c b m, In (k, c) t /\ In (b, m) bond_prefix_orders /\ k <> lit "?" /\ (m <= c)%Z /\
                                y = lit "[" ++ b ++ k ++ lit "]").
  { clear t. induction t as [|[a c] t IH]; intro acc; cbn [fold_left].
    - split; [auto|]. intros [H|(k & c & b & m & [] & _)]. exact H.
    - rewrite IH. clear IH.
      assert (Inner : forall bs acc0,
        In y (fold_left (fun acc '(b, m) =>
                if ((c <? m)%Z || str_eqb a (lit "?")) then acc
                else add_unique (lit "[" ++ b ++ a ++ lit "]") acc) bs acc0) <->
        In y acc0 \/ exists b m, In (b, m) bs /\ a <> lit "?" /\ (m <= c)%Z /\ y = lit "[" ++ b ++ a ++ lit "]").
      { induction bs as [|[b m] bs IHb]; intro acc0; cbn [fold_left].
        - split; [auto|]. intros [H|(b & m & [] & _)]. exact H.
        - rewrite IHb. destruct ((c <? m)%Z || str_eqb a (lit "?")) eqn:Ec.
          + split.
            * intros [H|(b' & m' & Hin & R)]; [auto|]. right. exists b', m'. split; [now right|exact R].
            * intros [H|(b' & m' & [Hin|Hin] & Hq & Hle & Hy)]; [auto| |right; exists b', m'; auto].
              inversion Hin; subst b' m'. apply orb_true_iff in Ec as [E1|E1].
              -- apply Z.ltb_lt in E1. lia.
              -- apply str_eqb_eq in E1. contradiction.
          + apply orb_false_iff in Ec as [E1 E2]. apply Z.ltb_ge in E1. apply str_eqb_neq in E2.
            rewrite add_unique_In. split.
            * intros [[H|H]|(b' & m' & Hin & R)]; [right; exists b, m; cbn; auto|auto|right; exists b', m'; split; [now right|exact R]].
            * intros [H|(b' & m' & [Hin|Hin] & Hq & Hle & Hy)]; [auto| |right; exists b', m'; auto].
              inversion Hin; subst b' m'. left. now left. }
      rewrite Inner. split.
      + intros [[H|(b & m & Hin & Hq & Hle & Hy)]|(k & c' & b & m & Hin & R)]; [auto| |].
        * right. exists a, c, b, m. cbn; auto.
        * right. exists k, c', b, m. split; [now right|exact R].
      + intros [H|(k & c' & b & m & [Hin|Hin] & Hb & Hq & Hle & Hy)]; [auto| |].
        * inversion Hin; subst k c'. left. right. exists b, m. auto.
        * right. exists k, c', b, m. auto. }
  rewrite G. split; [intros [[]|H]; exact H|auto].
Qed.

(* (a) the alphabet, as a set, is exactly the documented one *)
Theorem alphabet_is_spec : forall t y, In y (compute_alphabet t) <-> in_alphabet_spec t y.
Proof.
  intros t y. unfold compute_alphabet, in_alphabet_spec.
  rewrite fold_add_unique_In, fixed_is_spec, atom_symbols_In. reflexivity.
Qed.

(* (b) neutral keys, all 118 elements x 3 bond prefixes (finite sweep): the
   alphabet's atom symbol parses to that element, charge 0, with the bond order of its prefix *)
Definition neutral_symbol_ok (e : str) (b : str) (m : Z) : bool :=
  match process_atom_nocache (lit "[" ++ b ++ e ++ lit "]") with
  | Ok (Some (order, None, a)) =>
      Z.eqb order m && str_eqb (a_element a) e && Z.eqb (a_charge a) 0
      && match a_hcount a with None => true | Some h => N.eqb h 0 end
  | _ => false
  end.

Lemma neutral_symbols_parse :
  forallb (fun e => forallb (fun bm => neutral_symbol_ok e (fst bm) (snd bm)) bond_prefix_orders) elements = true.
Proof. vm_compute. reflexivity. Qed.

Theorem neutral_alphabet_symbol_in_grammar : forall (t : table) e c b m,
  In e elements -> In (b, m) bond_prefix_orders -> assoc e t = Some c -> (m <= c)%Z ->
  exists a, process_atom_symbol t (lit "[" ++ b ++ e ++ lit "]") = Ok (Some (m, None, a, c)) /\
            a_element a = e /\ a_charge a = 0%Z.
Proof.
  intros t e c b m He Hb Ht Hle.
  pose proof neutral_symbols_parse as F. rewrite forallb_forall in F. specialize (F e He).
  rewrite forallb_forall in F. specialize (F (b, m) Hb). cbn [fst snd] in F.
  unfold neutral_symbol_ok in F.
  destruct (process_atom_nocache (lit "[" ++ b ++ e ++ lit "]")) as [[[[order st] a]|]|] eqn:E; try discriminate.
  destruct st; [discriminate|].
  apply andb_true_iff in F as [F Fh]. apply andb_true_iff in F as [F Fc]. apply andb_true_iff in F as [Fo Fe].
  apply Z.eqb_eq in Fo, Fc. apply str_eqb_eq in Fe. subst order.
  exists a. split; [|auto].
  unfold process_atom_symbol, process_atom_symbol_c. rewrite E. cbn [bind].
  unfold bonding_capacity_c, get_bonding_capacity, constraint_key. rewrite Fc, Fe. cbn [Z.eqb]. rewrite Ht. cbn [bind].
  assert (Eh : (c - match a_hcount a with None => 0 | Some h => Z.of_N h end = c)%Z).
  { destruct (a_hcount a) as [h|]; [apply N.eqb_eq in Fh; subst; cbn|]; lia. }
  rewrite Eh. assert (Hc : (c <? 0)%Z = false).
  { apply Z.ltb_ge. destruct Hb as [Hb|[Hb|[Hb|[]]]]; inversion Hb; subst; lia. }
  now rewrite Hc.
Qed.
