(* CompatFacts.v — C18: compatible=True is a conservative extension. *)
From Coq Require Import Ascii String List Arith ZArith NArith Bool Lia.
Import ListNotations.
From Selfies Require Import Base Generated Lex Atoms Grammar Compat Decoder BaseFacts WfSpec LexFacts NopFacts CompatSpec.

(* the table in compatibility.py is the documented one *)
Lemma update_table_documented :
  forall k v, assoc k symbol_update_table = Some v <-> assoc k doc_legacy_table = Some v.
Proof.
  assert (E : symbol_update_table = doc_legacy_table) by (vm_compute; reflexivity).
  intros. now rewrite E.
Qed.

Definition not_legacy (t : str) : Prop :=
  assoc t symbol_update_table = None /\ str_eqb (suffix t 5) (lit "expl]") = false.

Lemma not_legacy_fixed t : not_legacy t -> modernize_symbol t = Ok t.
Proof. intros [H1 H2]. unfold modernize_symbol. now rewrite H1, H2. Qed.

Lemma modernize_all_id : forall ts bad, Forall (fun t => modernize_symbol t = Ok t) ts ->
  modernize_all ts bad = (ts, bad).
Proof.
  induction ts as [|t r IH]; intros bad H; [reflexivity|]. inversion H; subst.
  cbn [modernize_all]. rewrite H2, IH by assumption. reflexivity.
Qed.

Lemma modernize_all_map : forall ts ts' bad, Forall2 (fun t t' => modernize_symbol t = Ok t') ts ts' ->
  modernize_all ts bad = (ts', bad).
Proof.
  intros ts ts' bad H. induction H as [|t t' r r' Ht _ IH]; [reflexivity|].
  cbn [modernize_all]. rewrite Ht, IH. reflexivity.
Qed.

Lemma tokenize_all_true frs : frs <> [] -> Forall wfd frs ->
  tokenize_all (render_frags frs) true = map (fun fr => modernize_all (filter not_nop (symbols fr)) None) frs.
Proof. intros Hne H. rewrite (tokenize_all_frags frs true Hne H). reflexivity. Qed.
Lemma tokenize_all_false frs : frs <> [] -> Forall wfd frs ->
  tokenize_all (render_frags frs) false = map (fun fr => (filter not_nop (symbols fr), @None exn)) frs.
Proof. intros Hne H. rewrite (tokenize_all_frags frs false Hne H). reflexivity. Qed.

(* (a) strings without legacy symbols: the flag changes nothing *)
Theorem compat_conservative : forall T attribute frs,
  frs <> [] -> Forall wfd frs ->
  (forall fr t, In fr frs -> In t (filter not_nop (symbols fr)) -> not_legacy t) ->
  decoder T (render_frags frs) true attribute = decoder T (render_frags frs) false attribute.
Proof.
  intros T attribute frs Hne H Hl. unfold decoder, decoder_c, decode_graph_c.
  rewrite (tokenize_all_true frs Hne H), (tokenize_all_false frs Hne H).
  assert (E : map (fun fr => modernize_all (filter not_nop (symbols fr)) None) frs
              = map (fun fr => (filter not_nop (symbols fr), @None exn)) frs).
  { apply map_ext_in. intros fr Hin. apply modernize_all_id.
    apply Forall_forall. intros t Ht. apply not_legacy_fixed. eapply Hl; eassumption. }
  rewrite E. reflexivity.
Qed.

(* (b) with legacy symbols: same as decoding the string with every symbol
   replaced by its modern equivalent *)
Theorem compat_is_modernization : forall T attribute frs frs',
  frs <> [] -> Forall wfd frs -> Forall wfd frs' ->
  Forall2 (fun fr fr' => Forall2 (fun t t' => modernize_symbol t = Ok t')
                                 (filter not_nop (symbols fr)) (filter not_nop (symbols fr'))) frs frs' ->
  decoder T (render_frags frs) true attribute = decoder T (render_frags frs') false attribute.
Proof.
  intros T attribute frs frs' Hne H H' H2.
  assert (Hne' : frs' <> []) by (intro; subst; inversion H2; congruence).
  unfold decoder, decoder_c, decode_graph_c.
  rewrite (tokenize_all_true frs Hne H), (tokenize_all_false frs' Hne' H').
  assert (E : map (fun fr => modernize_all (filter not_nop (symbols fr)) None) frs
              = map (fun fr => (filter not_nop (symbols fr), @None exn)) frs').
  { clear Hne Hne' H H'. induction H2 as [|fr fr' frs frs' Hf _ IH]; [reflexivity|].
    cbn [map]. rewrite IH. f_equal. now apply modernize_all_map. }
  rewrite E. reflexivity.
Qed.

(* the table part of modernize_symbol is the documented mapping *)
Theorem table_symbols_modernized : forall k v, assoc k doc_legacy_table = Some v -> modernize_symbol k = Ok v.
Proof.
  intros k v H. apply update_table_documented in H. unfold modernize_symbol. now rewrite H.
Qed.

(* (c) without the flag a legacy table symbol is outside the grammar: whenever
   the derivation reaches it, DecoderError *)
Definition outside_grammar (sym : str) : bool :=
  if is_branch_like sym then match process_branch_symbol sym with None => true | Some _ => false end
  else if is_ring_like sym then match process_ring_symbol sym with None => true | Some _ => false end
  else if is_eps_like sym then false
  else match process_atom_nocache sym with Ok None => true | _ => false end.

Lemma legacy_keys_outside_grammar :
  forallb (fun kv => outside_grammar (fst kv)) symbol_update_table = true.
Proof. vm_compute. reflexivity. Qed.

Lemma derive_rejects : forall T bad aidx fuel idx sym rest m maxd state prev rings astack nd,
  outside_grammar sym = true -> below nd maxd = true ->
  derive T bad aidx (S fuel) ((idx, sym) :: rest) m maxd state prev rings astack nd = Err DecoderError.
Proof.
  intros T bad aidx fuel idx sym rest m maxd state prev rings astack nd Ho Hb.
  unfold derive. cbn [derive_c]. rewrite Hb. cbn [negb]. unfold outside_grammar in Ho.
  destruct (is_branch_like sym).
  - destruct (process_branch_symbol sym); [discriminate|reflexivity].
  - destruct (is_ring_like sym).
    + destruct (process_ring_symbol sym); [discriminate|reflexivity].
    + destruct (is_eps_like sym); [discriminate|].
      unfold process_atom_symbol_c. destruct (process_atom_nocache sym) as [[x|]|e]; try discriminate.
      reflexivity.
Qed.

Theorem legacy_symbol_rejected_when_reached : forall k v, assoc k symbol_update_table = Some v ->
  forall T bad aidx fuel idx rest m maxd state prev rings astack nd, below nd maxd = true ->
  derive T bad aidx (S fuel) ((idx, k) :: rest) m maxd state prev rings astack nd = Err DecoderError.
Proof.
  intros k v H. intros. apply derive_rejects; [|assumption].
  pose proof legacy_keys_outside_grammar as F. rewrite forallb_forall in F.
  apply assoc_in in H. apply (F (k, v) H).
Qed.

Example compat_example :
  modernize_symbol (lit "[Branch1_2]") = Ok (lit "[=Branch1]") /\
  modernize_symbol (lit "[C@@Hexpl]") = Ok (lit "[C@@H1]") /\
  modernize_symbol (lit "[Expl\Ring2]") = Ok (lit "[\\Ring2]") /\
  modernize_symbol (lit "[C]") = Ok (lit "[C]").
Proof. repeat split; vm_compute; reflexivity. Qed.
