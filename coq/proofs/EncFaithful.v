(* EncFaithful.v — C03 (atom for atom, at the level of symbols): every atom symbol of the encoder's output is printed from
   the atom read from one atom token of the input - the k-th atom of the graph from the k-th atom token - and the decoder's
   own symbol reader reads it back as an atom with the same element, isotope, charge and hydrogen count. *)
From Coq Require Import Ascii String List Arith ZArith NArith Bool Lia.
Import ListNotations.
From Selfies Require Import Base Generated Lex Atoms Grammar Decoder Smiles PySet Matching Kekulize Encoder BaseFacts
  TokFacts AlphaClosure WriterAtoms EncHyp EncShape EncTokens EncAtoms EncGood EncDecodes EncAttr.
Local Open Scope Z_scope.

Definition same_fields (a0 a' : atom) : Prop :=
  a_element a' = a_element a0 /\ a_isotope a' = a_isotope a0 /\ a_charge a' = a_charge a0 /\ hv a' = hv a0.

Lemma pshape_parses a bc t : PShape a -> a_aromatic a = false -> In bc bond5 -> atom_to_smiles a false = Ok t ->
  exists o st a', process_atom_nocache (lit "[" ++ bc ++ t ++ lit "]") = Ok (Some (o, st, a')) /\ same_fields a a'.
Proof.
  intros (Hel & Hs & Hint) Har Hbc Et. unfold same_fields.
  destruct Hs as [(Hi & Hch & Hh & Hg)|(Hh & Hch)].
  - destruct (mem_str (a_element a) organic_subset) eqn:Eo.
    + apply mem_str_In in Eo. do 2 eexists. exists a. split; [|tauto].
      apply sel_atom_parses; [split; [exact Har|left; tauto]|exact Hint|exact Hbc|exact Et].
    + set (a0 := {| a_element := a_element a; a_aromatic := false; a_isotope := None; a_chirality := None; a_hcount := Some 0%N; a_charge := 0 |}).
      pose proof (elements_mem _ Hel) as [_ Hshape].
      assert (Et0 : atom_to_smiles a0 false = Ok t).
      { unfold atom_to_smiles in Et |- *. rewrite Har, Hi, Hch, Hh, Hg in Et. cbn in Et. inversion Et; subst t.
        cbn [a0 a_aromatic a_isotope a_chirality a_hcount a_charge a_element]. cbn [Z.eqb]. rewrite Eo. cbn [app]. now rewrite !app_nil_r. }
      do 2 eexists. exists a0. split; [|cbn; unfold hv; rewrite Hh, Hg, Hi; cbn; tauto].
      apply sel_atom_parses; [split; [reflexivity|right; cbn; repeat split; auto; exists 0%N; split; [reflexivity|lia]]| |exact Hbc|exact Et0].
      split; [discriminate|cbn; exact within_limit_1].
  - do 2 eexists. exists a. split; [|tauto].
    pose proof (elements_mem _ Hel) as [_ Hshape].
    apply sel_atom_parses; [split; [exact Har|right; tauto]|exact Hint|exact Hbc|exact Et].
Qed.

Lemma Forall2_nth {A B} (R : A -> B -> Prop) : forall l1 l2 i x, Forall2 R l1 l2 -> nth_error l1 i = Some x -> exists y, nth_error l2 i = Some y /\ R x y.
Proof.
  induction l1 as [|a r IH]; intros l2 i x F Hn; [destruct i; discriminate|]. inversion F; subst.
  destruct i as [|i]; cbn in Hn |- *; [inversion Hn; subst; eauto|exact (IH _ _ _ H3 Hn)].
Qed.

(* what is known of an atom symbol of the output *)
Definition reads_back (ts : list token) (i : nat) (a : atom) (at_ : attrs) (tok : str) : Prop :=
  exists pos tk a0 o st a', nth_error (expect ts 0) i = Some (pos, tk) /\ smiles_to_atom (t_text tk) = Ok (Some a0) /\
    at_ = Some [(pos, t_text tk)] /\ process_atom_nocache tok = Ok (Some (o, st, a')) /\ same_fields a0 a'.

Theorem encoder_symbols_faithful T smiles strict x maps ts :
  Qlen (length smiles) -> encoder T smiles strict true = Ok (x, maps) -> tokenize_smiles smiles = Ok ts ->
  exists m tss mss,
    x = join (lit ".") (map (@concat N) tss) /\
    maps = filter (fun a => match am_token a with [] => false | _ => true end) (concat mss) /\
    Forall2 (fun toks ms => Walked (reads_back ts) m toks (map ent ms)) tss mss.
Proof.
  intros Hlen E Et. unfold encoder, encoder_c in E.
  destruct (smiles_to_mol smiles true) as [m0|e] eqn:Ep; [|destruct e; discriminate].
  destruct (parsed_attr _ _ _ Ep Et) as [A0 F0].
  assert (S0 : Forall PShape (atoms_of m0)).
  { apply (parsed_atoms (fun tok => Qlen (length (t_text tok))) PShape (fun tok a Hq Ea => smiles_atom_shape _ a Hq Ea) smiles true m0); [|exact Ep].
    intros ts' Et'. unfold tokenize_smiles in Et'. apply tokenize_loop_texts in Et'. eapply Forall_impl; [|exact Et'].
    cbn beta. intros tok Hl. exact (Qlen_le _ _ Hl Hlen). }
  unfold encode_mol in E.
  destruct (kekulize m0) as [[m1|]|] eqn:Ek; cbn [bind] in E; try discriminate.
  destruct (kekulize_kept _ _ Ek) as [K1 F1].
  pose proof (kekulize_atoms PShape pshape_clear m0 m1 S0 Ek) as S1.
  match type of E with (do _ <- ?X; _) = _ => destruct X; cbn [bind] in E; [|discriminate] end.
  destruct (invert_pass m1 (m_atoms m1) 0) as [atoms'|] eqn:Ei; cbn [bind] in E; [|discriminate].
  pose proof (invert_pass_kept _ _ _ _ Ei) as K2.
  pose proof (invert_pass_atoms PShape pshape_invert m1 (m_atoms m1) 0%nat atoms' S1 Ei) as S2.
  set (m2 := set_atoms m1 atoms') in *.
  assert (G : Forall2 attributed_to (m_atoms m2) (expect ts 0)).
  { pose proof (kept_trans _ _ _ K1 K2) as K. unfold m2. cbn [set_atoms m_atoms]. clear -A0 K.
    revert K. generalize (expect ts 0) A0. generalize (m_atoms m0) atoms'. clear.
    induction l as [|p r IH]; intros atoms' ex A K; inversion A as [|? ? ? ? Hx Hr]; subst; inversion K as [|? ? ? ? Hy Hs]; subst; constructor.
    - destruct Hx as [X1 X2], Hy as [T1 T2]. split; [congruence|]. exists (fst p). split; [exact X1|exact T2].
    - eapply IH; eassumption. }
  destruct (encode_roots m2 _ 0) as [[frags maps0]|] eqn:Er; cbn [bind] in E; [|discriminate].
  inversion E; subst x maps; clear E.
  assert (HP : forall i a9 at_ tok, printed_from m2 i a9 at_ tok -> reads_back ts i a9 at_ tok).
  { intros i a9 at_ tok [Hg (b & Hb)]. unfold mg_get_atom in Hg. apply lget_In in Hg.
    destruct (Forall2_nth _ _ _ _ _ G Hg) as ([pos tk] & Hn & Hat & a0 & Ha0 & Hk). cbn [fst snd] in *.
    assert (Hps : PShape a9).
    { unfold m2 in Hg. cbn [set_atoms m_atoms] in Hg. rewrite Forall_forall in S2. apply S2. apply in_map_iff. exists (a9, at_). split; [reflexivity|eapply nth_error_In; exact Hg]. }
    unfold atom_to_selfies in Hb. destruct (a_aromatic a9) eqn:Ear; [discriminate|].
    destruct (match b with None => Ok [] | Some b0 => bond_to_selfies b0 true end) as [bc|] eqn:Ebc; cbn [bind] in Hb; [|discriminate].
    destruct (atom_to_smiles a9 false) as [t|] eqn:Eas; cbn [bind] in Hb; [|discriminate]. inversion Hb; subst tok.
    assert (Hbc : In bc bond5) by (destruct b as [b0|]; [exact (bond_sel_cases _ _ Ebc)|inversion Ebc; now left]).
    destruct (pshape_parses a9 bc t Hps Ear Hbc Eas) as (o & st & a' & Hp & F1' & F2' & F3' & F4').
    exists pos, tk, a0, o, st, a'. repeat split; try assumption.
    - destruct Hk as (K1' & _). congruence.
    - destruct Hk as (_ & K2' & _). congruence.
    - destruct Hk as (_ & _ & _ & K4'). congruence.
    - destruct Hk as (_ & _ & K3' & _). unfold hv in *. rewrite F4'. now rewrite K3'. }
  destruct (encode_roots_walked (reads_back ts) m2 HP _ _ _ _ Er) as (tss & mss & -> & -> & W).
  exists m2, tss, mss. repeat split. exact W.
Qed.
