(* DeriveOk.v — when does the decoder NOT raise?  If the token generator raises
   nothing and every token is a symbol of the grammar under the table in force,
   the derivation, the ring pass and the writer all succeed (C07's "decodes
   without error"; with DecoderSum.v the result is valence-valid). *)
From Coq Require Import Ascii String List Arith ZArith NArith Bool Lia.
Import ListNotations.
From Selfies Require Import Base Generated Lex Atoms Grammar Compat Decoder BaseFacts StateFacts DecoderBasics ConfigFacts DecoderInv.
Local Open Scope Z_scope.

Definition P0 : atom -> Z -> Prop := fun _ _ => True.
Definition Q0 : dmol -> Prop := fun _ => True.
Notation WF0 := (MolWF P0 Q0).

Definition Q20 : dmol -> Prop := fun _ => True.
Lemma q2_root : forall m a cap at_, WF0 m -> Q20 m -> Q20 (fst (add_atom m a cap at_ true)).
Proof. intros; exact I. Qed.
Lemma q2_step : forall m a cap at_ p mu st at2 m3, WF0 m -> Q20 m -> (p < natoms m)%nat -> 1 <= mu <= 3 ->
  add_bond (fst (add_atom m a cap at_ false)) p (natoms m) mu st at2 = Ok m3 -> Q20 m3.
Proof. intros; exact I. Qed.
Lemma q2_upd : forall m l rr new m', WF0 m -> Q20 m -> (l < rr)%nat -> (rr < natoms m)%nat -> 1 <= new <= 3 ->
  update_bond_order m l rr new = Ok m' -> Q20 m'.
Proof. intros; exact I. Qed.
Lemma q2_ring : forall m l rr order sa sb pl pr m', WF0 m -> Q20 m -> (l < rr)%nat -> (rr < natoms m)%nat -> 1 <= order <= 3 ->
  has_bond m l rr = false -> add_ring_bond m l rr order sa sb pl pr = Ok m' -> Q20 m'.
Proof. intros; exact I. Qed.

Lemma q_atom : forall m a cap at_ root, WF0 m -> Q0 (fst (add_atom m a cap at_ root)).
Proof. intros; exact I. Qed.
Lemma q_bond : forall m src dst order st at_ m', WF0 m -> (src < dst)%nat -> (dst < natoms m)%nat ->
  1 <= order <= 3 -> nth dst (counts m) 0 = 0 -> add_bond m src dst order st at_ = Ok m' -> Q0 m'.
Proof. intros; exact I. Qed.
Lemma q_upd : forall m l rr new m', WF0 m -> (l < rr)%nat -> (rr < natoms m)%nat -> 1 <= new <= 3 ->
  update_bond_order m l rr new = Ok m' -> Q0 m'.
Proof. intros; exact I. Qed.
Lemma q_ring : forall m l rr order sa sb pl pr m', WF0 m -> (l < rr)%nat -> (rr < natoms m)%nat -> 1 <= order <= 3 ->
  has_bond m l rr = false -> add_ring_bond m l rr order sa sb pl pr = Ok m' -> Q0 m'.
Proof. intros; exact I. Qed.

(* a token the derivation can process, whatever state it is met in *)
Definition good_tok (T : table) (t : str) : Prop :=
  tok_ok t /\
  if is_branch_like t then process_branch_symbol t <> None
  else if is_ring_like t then process_ring_symbol t <> None
  else if is_eps_like t then True
  else exists x, process_atom_symbol T t = Ok (Some x).

Lemma drain_ok ts maxd nd : exists r, drain ts None maxd nd = Ok r.
Proof. unfold drain. destruct maxd as [mx|]; [destruct (_ <=? _)%nat|]; cbn; eauto. Qed.

Lemma finish_ok ts (m : dmol) (rings : list ringreq) maxd nd :
  exists r, (do (ts', nd') <- drain ts None maxd nd; Ok (ts', m, rings, nd')) = Ok r.
Proof. destruct (drain_ok ts maxd nd) as [[a b] ->]. cbn. eauto. Qed.

Lemma read_index_ok : forall n ts acc k, exists r, read_index n ts None acc k = Ok r.
Proof.
  induction n as [|n IH]; intros ts acc k; cbn [read_index]; [eauto|].
  destruct ts as [|[i s] r]; [cbn; apply IH|apply IH].
Qed.

Section Main.
Variable T : table.
Hypothesis Hq : exists c, assoc (lit "?") T = Some c.
Variable aidx : nat.

Let HP : forall t o st a cap, process_atom_symbol T t = Ok (Some (o, st, a, cap)) -> P0 a cap := fun _ _ _ _ _ _ => I.
Let Hnone : (@None exn) = None \/ (@None exn) = Some DecoderError := or_introl eq_refl.

Definition goods (ts : toks) : Prop := Forall (fun it => good_tok T (snd it)) ts.

Lemma goods_toks_ok ts : goods ts -> toks_ok ts.
Proof. intro H. eapply Forall_impl; [|exact H]. intros it [A _]. exact A. Qed.

Lemma goods_suffix pre ts : goods (pre ++ ts) -> goods ts.
Proof. intro H. apply Forall_app in H. tauto. Qed.

Lemma derive_ok : forall fuel ts m maxd state prev rings astack nd,
  (length ts < fuel)%nat -> WF0 m -> RingsOK m rings -> StOK m state prev -> goods ts ->
  exists r, derive T None aidx fuel ts m maxd state prev rings astack nd = Ok r.
Proof.
  induction fuel as [|f IH]; intros ts m maxd state prev rings astack nd Hlen Hm Hr Hst Hg; [lia|].
  pose proof Hst as [Hs0 Hsp].
  unfold derive. cbn [derive_c]. cbv zeta.
  destruct (negb (below nd maxd)); [apply finish_ok|].
  destruct ts as [|[idx sym] rest]; [cbn [raise_or]; apply finish_ok|].
  cbn [length] in Hlen. assert (Hl : (length rest < f)%nat) by lia.
  inversion Hg as [|? ? [Htk Hsym] Hrest]; subst. cbn [snd] in Htk, Hsym.
  assert (Same : forall st' nd' astack', 0 <= st' <= state -> (0 < st' -> 0 < state) ->
            exists r, derive_c (get_bonding_capacity T) None aidx f rest m maxd st' prev rings astack' nd' = Ok r).
  { intros st' nd' astack' Hst' Hpos. apply (IH rest m maxd st' prev rings astack' nd' Hl Hm Hr); [|exact Hrest].
    split; [lia|]. intro Hp0. destruct (Hsp (Hpos Hp0)) as (p & E & L & V). exists p. repeat split; auto; lia. }
  destruct (is_branch_like sym).
  { destruct (process_branch_symbol sym) as [[btype n]|] eqn:Eb; [|contradiction].
    destruct (state <=? 1) eqn:E1; [apply Same; [lia|auto]|].
    rewrite (branch_pre_holds _ _ _ _ Eb E1). cbn [negb].
    destruct (next_branch_state btype state) as [binit nstate] eqn:En.
    destruct (nbs_spec _ _ _ _ En (branch_pre_holds _ _ _ _ Eb E1)) as (_ & _ & Hb13 & Hn1 & Hsum).
    apply Z.leb_gt in E1.
    destruct (Hsp ltac:(lia)) as (p & Ep & Lp & Vp).
    pose proof (read_index_good None Hnone n rest [] 0%nat) as RI.
    destruct (read_index_ok n rest [] 0%nat) as [[[syms rest2] nread] Eri]. rewrite Eri in *. cbn [bind].
    destruct RI as [pre2 Hpre2].
    assert (Hl2 : (length rest2 < f)%nat) by (rewrite Hpre2, app_length in Hl; lia).
    assert (Hg2 : goods rest2) by (rewrite Hpre2 in Hrest; now apply goods_suffix in Hrest).
    assert (StSub : StOK m binit prev).
    { split; [lia|]. intros _. exists p. repeat split; auto. lia. }
    pose proof (derive_good P0 Q0 q_atom q_bond Q20 q2_root q2_step T Hq None Hnone aidx HP f rest2 m (Some (N.to_nat (get_index_from_selfies syms) + 1)%nat)
                  binit prev rings (push_attr astack ((idx + aidx)%nat, sym)) 0%nat Hl2 Hm I Hr StSub (goods_toks_ok _ Hg2)) as Sub.
    destruct (IH rest2 m (Some (N.to_nat (get_index_from_selfies syms) + 1)%nat) binit prev rings
                (push_attr astack ((idx + aidx)%nat, sym)) 0%nat Hl2 Hm Hr StSub Hg2) as [[[[rest3 m2] rings2] nsub] Esub].
    unfold derive in Sub, Esub. rewrite Esub in *. cbn [bind].
    unfold Good, Post in Sub. destruct Sub as (Hm2 & Hr2 & F2 & (pre3 & Hpre3) & _).
    assert (Hl3 : (length rest3 < f)%nat) by (rewrite Hpre3, app_length in Hl2; lia).
    assert (Hg3 : goods rest3) by (rewrite Hpre3 in Hg2; now apply goods_suffix in Hg2).
    destruct F2 as (A2 & B2 & C2 & D2).
    apply (IH rest3 m2 maxd nstate prev rings2 astack _ Hl3 Hm2 Hr2); [|exact Hg3].
    split; [lia|]. intros _. exists p. split; [exact Ep|]. split; [lia|].
    rewrite (B2 p Lp). specialize (D2 p Ep Lp). lia. }
  destruct (is_ring_like sym).
  { destruct (process_ring_symbol sym) as [[[rtype n] [ls rs]]|] eqn:Er; [|contradiction].
    destruct (state =? 0) eqn:E0; [apply Same; [lia|auto]|].
    rewrite (ring_pre_holds rtype state Hs0 E0). cbn [negb].
    destruct (next_ring_state rtype state) as [rorder nstate] eqn:En.
    pose proof (ring_types _ _ _ _ Er) as Hrt.
    destruct (nrs_spec _ _ _ _ En (ring_pre_holds rtype state Hs0 E0) ltac:(lia)) as (_ & Ho1 & Hort & Hos & Hns).
    apply Z.eqb_neq in E0.
    destruct (Hsp ltac:(lia)) as (p & Ep & Lp & Vp).
    pose proof (read_index_good None Hnone n rest [] 0%nat) as RI.
    destruct (read_index_ok n rest [] 0%nat) as [[[syms rest2] nread] Eri]. rewrite Eri in *. cbn [bind].
    destruct RI as [pre2 Hpre2].
    assert (Hl2 : (length rest2 < f)%nat) by (rewrite Hpre2, app_length in Hl; lia).
    assert (Hg2 : goods rest2) by (rewrite Hpre2 in Hrest; now apply goods_suffix in Hrest).
    subst prev.
    assert (Hlt : (p - (N.to_nat (get_index_from_selfies syms) + 1) <? length (atoms m))%nat = true).
    { apply Nat.ltb_lt. unfold natoms in Lp. lia. }
    rewrite Hlt. cbn [negb].
    set (rq := {| r_l := (p - (N.to_nat (get_index_from_selfies syms) + 1))%nat; r_r := p;
                  r_order := rorder; r_ls := ls; r_rs := rs |}).
    assert (Hr' : RingsOK m (rings ++ [rq])).
    { apply Forall_app. split; [exact Hr|]. constructor; [|constructor]. cbn. repeat split; lia. }
    destruct nstate as [st|]; [|apply finish_ok].
    destruct Hns as [-> Hst'].
    apply (IH rest2 m maxd (state - rorder) (PAtom p) (rings ++ [rq]) astack _ Hl2 Hm Hr'); [|exact Hg2].
    split; [lia|]. intros _. exists p. repeat split; auto. lia. }
  destruct (is_eps_like sym).
  { destruct (state =? 0) eqn:E0; [|apply finish_ok].
    apply Z.eqb_eq in E0. subst state. apply Same; [lia|auto]. }
  destruct Hsym as [[[[border stereo] a] cap] Eo]. unfold process_atom_symbol in Eo. rewrite Eo. cbn [bind].
  destruct (pas_facts T _ _ _ _ _ Eo) as (Hbo & Hcap & Har).
  destruct (next_atom_state border cap state) as [mu nstate] eqn:En.
  destruct (nas_spec _ _ _ _ _ En ltac:(lia) Hcap Hs0) as (Hmu & Hmu0 & Hmub & Hmuc & Hmus & Hz & Hns).
  destruct (mu =? 0) eqn:Em.
  + apply Z.eqb_eq in Em. rewrite Em in *. clear Em.
    destruct (state =? 0) eqn:E0.
    * apply Z.eqb_eq in E0.
      destruct (add_atom m a cap (push_attr astack ((idx + aidx)%nat, sym)) true) as [m2 i] eqn:Ea.
      pose proof (add_atom_wf P0 Q0 q_atom m a cap (push_attr astack ((idx + aidx)%nat, sym)) true Hm Hcap Har I) as Hm2.
      pose proof (add_atom_obs P0 Q0 m a cap (push_attr astack ((idx + aidx)%nat, sym)) true Hm) as Ob.
      pose proof (add_atom_facts m a cap (push_attr astack ((idx + aidx)%nat, sym)) true) as Fa.
      rewrite Ea in Hm2, Ob, Fa. cbn [fst snd] in Hm2, Ob, Fa. cbv zeta in Ob, Fa.
      destruct Ob as (N2 & Oold & Ocnt & Ocap). destruct Fa as (Ei & _).
      assert (Hr2 : RingsOK m2 rings) by (eapply RingsOK_ext; [|exact Hr]; lia).
      destruct nstate as [st|]; [|apply finish_ok].
      destruct Hns as [-> Hst']. subst i.
      apply (IH rest m2 maxd (cap - 0) (PAtom (natoms m)) rings astack _ Hl Hm2 Hr2); [|exact Hrest].
      split; [lia|]. intros _. exists (natoms m). repeat split; auto; lia.
    * apply Z.eqb_neq in E0. assert (cap = 0) by lia. subst cap.
      destruct nstate as [st|]; [lia|]. apply finish_ok.
  + apply Z.eqb_neq in Em. assert (Hmu1 : 1 <= mu) by lia.
    assert (Hspos : 0 < state) by lia.
    destruct (Hsp Hspos) as (p & Ep & Lp & Vp). subst prev.
    destruct (add_atom m a cap (push_attr astack ((idx + aidx)%nat, sym)) false) as [m2 i] eqn:Ea.
    pose proof (add_atom_wf P0 Q0 q_atom m a cap (push_attr astack ((idx + aidx)%nat, sym)) false Hm Hcap Har I) as Hm2.
    pose proof (add_atom_obs P0 Q0 m a cap (push_attr astack ((idx + aidx)%nat, sym)) false Hm) as Ob.
    pose proof (add_atom_facts m a cap (push_attr astack ((idx + aidx)%nat, sym)) false) as Fa.
    rewrite Ea in Hm2, Ob, Fa. cbn [fst snd] in Hm2, Ob, Fa. cbv zeta in Ob, Fa.
    destruct Ob as (N2 & Oold & Ocnt & Ocap). destruct Fa as (Ei & _). subst i.
    destruct (Oold p Lp) as [Ocp Ocapp].
    destruct (add_bond_ok P0 Q0 q_bond m2 p (natoms m) mu stereo (push_attr astack ((idx + aidx)%nat, sym)) Hm2)
      as (m3 & Eb & Hm3 & Eat3 & _ & Hcnt3); try lia; try exact Ocnt.
    rewrite Eb. cbn [bind].
    assert (N3 : natoms m3 = S (natoms m)) by (unfold natoms in *; now rewrite Eat3).
    assert (Hcap3 : forall j, capOf m3 j = capOf m2 j) by (intro j; unfold capOf; now rewrite Eat3).
    assert (Hr3 : RingsOK m3 rings) by (eapply RingsOK_ext; [|exact Hr]; lia).
    destruct nstate as [st|]; [|apply finish_ok].
    destruct Hns as [-> Hst'].
    apply (IH rest m3 maxd (cap - mu) (PAtom (natoms m)) rings astack _ Hl Hm3 Hr3); [|exact Hrest].
    split; [lia|]. intros _. exists (natoms m). split; [reflexivity|]. split; [lia|].
    rewrite Hcnt3, Hcap3, Nat.eqb_refl, orb_true_r, Ocnt, Ocap. lia.
Qed.
End Main.

(* ---------- fragments and the whole decoder ---------- *)
Definition frag_good (T : table) (f : list str * option exn) : Prop := snd f = None /\ Forall (good_tok T) (fst f).

Section Whole.
Variable T : table.
Hypothesis Hq : exists c, assoc (lit "?") T = Some c.

Lemma frag_good_ok f : frag_good T f -> frag_ok f.
Proof. intros [A B]. split; [now left|]. eapply Forall_impl; [|exact B]. intros t [X _]. exact X. Qed.

Lemma derive_frags_ok : forall attribute tfrags m rings aidx,
  WF0 m -> RingsOK m rings -> Forall (frag_good T) tfrags ->
  exists m' rings', derive_frags T attribute tfrags m rings aidx = Ok (m', rings') /\ WF0 m' /\ RingsOK m' rings'.
Proof.
  intros attribute. induction tfrags as [|[ts bad] rest IH]; intros m rings aidx Hm Hr Hf; [cbn; eauto|].
  inversion Hf as [|? ? [Hb Ht] Hrest]; subst. cbn [fst snd] in *. subst bad.
  unfold derive_frags. cbn [derive_frags_c]. fold (derive_frags_c (get_bonding_capacity T)).
  assert (Hg : goods T (enumerate_from 0 ts)).
  { unfold goods. apply Forall_forall. intros it Hin. rewrite Forall_forall in Ht. apply Ht.
    rewrite <- (enumerate_from_snd ts 0%nat). now apply in_map. }
  assert (Hst : StOK m 0 PNone) by (split; [lia|intro; lia]).
  assert (Hlen : (length (enumerate_from 0 ts) < S (length ts))%nat) by (rewrite enumerate_from_length; lia).
  destruct (derive_ok T Hq aidx (S (length ts)) (enumerate_from 0 ts) m None 0 PNone rings
              (if attribute then Some [] else None) 0%nat Hlen Hm Hr Hst Hg) as [[[[ts' m2] rings2] n] E].
  pose proof (derive_good P0 Q0 q_atom q_bond Q20 q2_root q2_step T Hq None (or_introl eq_refl) aidx (fun _ _ _ _ _ _ => I) (S (length ts)) (enumerate_from 0 ts) m None 0 PNone rings
                (if attribute then Some [] else None) 0%nat Hlen Hm I Hr Hst (goods_toks_ok T _ Hg)) as G.
  unfold derive in E, G. rewrite E in *. cbn [bind].
  destruct G as (Hm2 & Hr2 & _ & _ & _). apply (IH m2 rings2 (aidx + n)%nat Hm2 Hr2 Hrest).
Qed.

(* every fragment tokenises without a hanging bracket into symbols of the grammar => the decoder returns *)
Theorem decoder_ok s compat attribute : Forall (frag_good T) (tokenize_all s compat) ->
  exists out, decoder T s compat attribute = Ok out.
Proof.
  intro H. unfold decoder, decoder_c, decode_graph_c.
  destruct (derive_frags_ok attribute (tokenize_all s compat) empty_mol [] 0%nat (wf_empty P0 Q0 I) (Forall_nil _) H)
    as (m1 & rings & E & Hm1 & Hr1).
  unfold derive_frags in E. rewrite E. cbn [bind].
  destruct (form_rings_good P0 Q0 q_upd q_ring Q20 q2_upd q2_ring rings m1 Hm1 I Hr1) as (m' & E' & Hm' & _). rewrite E'. cbn [bind].
  apply (mol_to_smiles_ok P0 Q0 m' Hm').
Qed.
End Whole.
