(* DocAccept.v — C02, "rejected exactly when": for well-formed strings the decoder accepts exactly the strings
   the documented derivation accepts. *)
From Coq Require Import Ascii String List Arith ZArith NArith Bool Lia.
Import ListNotations.
From Selfies Require Import Base Generated Lex Atoms Grammar Decoder IndexSpec Reader DocGrammar WfSpec BaseFacts StateFacts ConfigFacts DecoderBasics
  LexFacts NopFacts CompatFacts DecoderInv DecoderTree DecoderSum DeriveOk TokFacts WriterAtoms WriterLex WriterSim WriterFinal RingCount CompatTotal
  DocAtoms DocDerive DocRings DocFinal DocConverse DocReject.
Local Open Scope Z_scope.

Lemma frags_err_sim T attribute : (exists c, assoc (lit "?") T = Some c) ->
  forall (frs : list (list str)) m rings aidx e d,
  derive_frags T attribute (map (fun fr => (fr, @None exn)) frs) m rings aidx = Err e ->
  Rel m rings d -> W m -> Forall (Forall tok_ok) frs -> exists e', derive_all T frs d = Err e'.
Proof.
  intro Hq. induction frs as [|fr rest IH]; intros m rings aidx e d E HR HW Hok; [discriminate|].
  inversion Hok as [|? ? Hfr Hrest]; subst.
  unfold derive_frags in E. cbn [map derive_frags_c] in E. fold (derive_frags T) in E. fold (derive T) in E.
  cbn [derive_all].
  destruct (derive T None aidx (S (length fr)) (enumerate_from 0 fr) m None 0 PNone rings _ 0) as [[[[ts' m2] rings2] n]|e1] eqn:Ed; cbn [bind] in E.
  - destruct (derive_sim T fr aidx _ _ _ _ _ _ _ _ _ _ _ _ _ Ed 0%nat d (At_start fr) HR ltac:(lia) ltac:(discriminate) ltac:(intros p Hp; discriminate))
      as (pos' & d2 & D & _ & R2 & _).
    cbn [left_of cur_of] in D. rewrite D. cbn [bind].
    exact (IH _ _ _ _ _ E R2 (derive_W _ _ _ _ _ _ _ _ _ _ _ _ _ _ _ _ Ed HW) Hrest).
  - destruct (derive_err_sim T Hq fr Hfr aidx _ _ _ _ _ _ _ _ _ _ Ed 0%nat d (At_start fr) HR HW ltac:(lia) ltac:(discriminate) ltac:(intros p Hp; discriminate)) as [e' D].
    cbn [left_of cur_of] in D. rewrite D. cbn [bind]. eauto.
Qed.

(* the decoder's first stage is the only one that can reject *)
Lemma decoder_err_is_derive T s attribute e : (exists c, assoc (lit "?") T = Some c) -> frags_ok s false ->
  decoder T s false attribute = Err e -> exists e1, derive_frags T attribute (tokenize_all s false) empty_mol [] 0 = Err e1.
Proof.
  intros Hq Hd E. unfold decoder, decoder_c, decode_graph_c in E. fold (derive_frags T) in E.
  destruct (derive_frags T attribute (tokenize_all s false) empty_mol [] 0) as [[m1 rings]|e1] eqn:Ed; [|eauto]. exfalso.
  pose proof (derive_frags_good P0 Q0 q_atom q_bond Q20 q2_root q2_step T Hq (fun _ _ _ _ _ _ => I) attribute _ empty_mol [] 0%nat
                (wf_empty P0 Q0 I) I (Forall_nil _) Hd) as G.
  rewrite Ed in G. destruct G as (G1 & RO & _).
  destruct (form_rings_good P0 Q0 q_upd q_ring Q20 q2_upd q2_ring rings m1 G1 I RO) as (m' & E' & Hm' & _).
  cbn [bind] in E. rewrite E' in E. cbn [bind] in E.
  destruct (mol_to_smiles_ok P0 Q0 m' Hm') as [x Ex]. rewrite Ex in E. discriminate.
Qed.

Theorem decoder_reject_grammar T (frs : list (list item)) attribute e :
  (exists c, assoc (lit "?") T = Some c) -> frs <> [] -> Forall wfd frs -> symbols_short (render_frags frs) ->
  decoder T (render_frags frs) false attribute = Err e -> exists e', grammar_eval T (dtoks frs) = Err e'.
Proof.
  intros Hq Hne Hwf Hs E. set (s := render_frags frs) in *.
  pose proof (frags_ok_of_symbols s false Hs) as Hd.
  destruct (decoder_err_is_derive T s attribute e Hq Hd E) as [e1 Ed].
  set (frs' := map (fun fr => filter not_nop (symbols fr)) frs).
  assert (Htok : tokenize_all s false = map (fun fr => (fr, @None exn)) frs').
  { unfold s, frs'. rewrite (tokenize_all_false frs Hne Hwf), map_map. reflexivity. }
  assert (Hok : Forall (Forall tok_ok) frs').
  { unfold frags_ok in Hd. rewrite Htok in Hd. apply Forall_forall. intros fr Hfr. rewrite Forall_forall in Hd.
    destruct (Hd (fr, None) ltac:(apply in_map_iff; eauto)) as [_ X]. exact X. }
  rewrite Htok in Ed.
  destruct (frags_err_sim T attribute Hq frs' empty_mol [] 0%nat e1 dg_empty Ed rel_empty eq_refl Hok) as [e' D].
  assert (Hfrag : fragments (dtoks frs) [] = frs').
  { rewrite (fragments_dtoks frs [] Hne). unfold frs'. destruct frs as [|fr rest]; [congruence|]. reflexivity. }
  exists e'. unfold grammar_eval. rewrite Hfrag, D. reflexivity.
Qed.

(* acceptance coincides *)
Theorem decoder_accepts_iff_grammar T (frs : list (list item)) attribute :
  (exists c, assoc (lit "?") T = Some c) -> frs <> [] -> Forall wfd frs -> symbols_short (render_frags frs) ->
  ((exists out, decoder T (render_frags frs) false attribute = Ok out) <-> (exists g, grammar_eval T (dtoks frs) = Ok g)).
Proof.
  intros Hq Hne Hwf Hs. set (s := render_frags frs) in *.
  pose proof (frags_ok_of_symbols s false Hs) as Hd.
  split.
  - intros [out E]. unfold decoder, decoder_c in E. change (decode_graph_c (get_bonding_capacity T) s false attribute) with (decode_graph T s false attribute) in E.
    destruct (decode_graph T s false attribute) as [m|] eqn:Eg; cbn [bind] in E; [|discriminate].
    set (frs' := map (fun fr => filter not_nop (symbols fr)) frs).
    assert (Htok : tokenize_all s false = map (fun fr => (fr, @None exn)) frs').
    { unfold s, frs'. rewrite (tokenize_all_false frs Hne Hwf), map_map. reflexivity. }
    assert (Hok : Forall (Forall tok_ok) frs').
    { unfold frags_ok in Hd. rewrite Htok in Hd. apply Forall_forall. intros fr Hfr. rewrite Forall_forall in Hd.
      destruct (Hd (fr, None) ltac:(apply in_map_iff; eauto)) as [_ X]. exact X. }
    destruct (decode_graph_doc T s attribute frs' m Hq Htok Hok Eg) as (d0 & rings & made & D0 & HI).
    assert (Hfrag : fragments (dtoks frs) [] = frs').
    { rewrite (fragments_dtoks frs [] Hne). unfold frs'. destruct frs as [|fr rest]; [congruence|]. reflexivity. }
    eexists. unfold grammar_eval. rewrite Hfrag, D0. cbn [bind]. reflexivity.
  - intros [g Eg]. destruct (decoder_total_ok_c T s false attribute Hq Hd) as [[out Ho]|He]; [eauto|].
    destruct (decoder_reject_grammar T frs attribute _ Hq Hne Hwf Hs He) as [e' X]. congruence.
Qed.
