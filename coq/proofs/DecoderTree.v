(* DecoderTree.v — the tree bonds of the decoder's graph form a forest over the
   roots: every atom is a root or has exactly one parent, roots have none (C01:
   the writer therefore prints every atom exactly once).  Instantiates the second
   invariant Q2 of DecoderInv.v. *)
From Coq Require Import Ascii String List Arith ZArith NArith Bool Lia.
Import ListNotations.
From Selfies Require Import Base Generated Lex Atoms Grammar Compat Decoder BaseFacts StateFacts DecoderBasics ConfigFacts DecoderInv.
Local Open Scope Z_scope.

Lemma nodup_snoc {A} (l : list A) x : NoDup l -> ~ In x l -> NoDup (l ++ [x]).
Proof.
  intros H Hx. induction H as [|y l Hy H IH]; cbn; [constructor; [intros []|constructor]|].
  constructor; [|apply IH; intro; apply Hx; now right].
  intro Hin. apply in_app_iff in Hin as [Hin|[<-|[]]]; [contradiction|]. apply Hx. now left.
Qed.

(* x is a child of i: a tree (non-ring) bond i -> x is stored at i *)
Definition child (m : dmol) (i x : nat) : Prop := exists e, In e (row m i) /\ b_ring e = false /\ b_dst e = x.

Record TreeInv (m : dmol) : Prop := {
  t_par : forall i1 i2 x, child m i1 x -> child m i2 x -> i1 = i2;
  t_rooted : forall j, (j < natoms m)%nat -> In j (roots m) \/ exists i, child m i j;
  t_rootfree : forall j i, In j (roots m) -> ~ child m i j;
  t_nodup : NoDup (roots m);
  t_noself : forall i e, In e (row m i) -> b_dst e <> i;
  t_src : forall i e, In e (row m i) -> b_src e = i
}.

Lemma tree_empty : TreeInv empty_mol.
Proof.
  constructor.
  - intros i1 i2 x (e & He & _). destruct i1; destruct He.
  - intros j H. cbn in H. lia.
  - intros j i [].
  - constructor.
  - intros [|i] e H; destruct H.
  - intros [|i] e H; destruct H.
Qed.

Section Prims.
Variable P : atom -> Z -> Prop.
Variable Q : dmol -> Prop.
Notation WF := (MolWF P Q).

Lemma child_lt m i x : WF m -> child m i x -> (i < x)%nat /\ (x < natoms m)%nat.
Proof. intros Hm (e & He & Hr & <-). destruct (wf_bonds _ _ _ Hm i e He) as (A & _ & C & _). split; [now apply C|exact A]. Qed.

Lemma row_add_atom m a cap at_ root j : row (fst (add_atom m a cap at_ root)) j = row m j.
Proof.
  unfold row. cbn [add_atom fst adj].
  destruct (Nat.lt_ge_cases j (length (adj m))) as [L|L]; [now rewrite app_nth1|].
  rewrite (nth_overflow (adj m)) by exact L. rewrite app_nth2 by exact L.
  destruct (j - length (adj m))%nat as [|[|k]]; reflexivity.
Qed.

Lemma child_add_atom m a cap at_ root i x : child (fst (add_atom m a cap at_ root)) i x <-> child m i x.
Proof. unfold child. now rewrite row_add_atom. Qed.

Lemma tree_root m a cap at_ : WF m -> TreeInv m -> TreeInv (fst (add_atom m a cap at_ true)).
Proof.
  intros Hm [Tp Tr Tf Tn Ts Tc]. set (m' := fst (add_atom m a cap at_ true)).
  assert (Hn : natoms m' = S (natoms m)) by (unfold natoms, m'; cbn; rewrite app_length; cbn; lia).
  assert (Hro : roots m' = roots m ++ [natoms m]) by reflexivity.
  constructor.
  - intros i1 i2 x H1 H2. apply (child_add_atom m a cap at_ true) in H1, H2. eauto.
  - intros j Hj. rewrite Hn in Hj. destruct (Nat.eq_dec j (natoms m)) as [->|N].
    + left. rewrite Hro. apply in_app_iff. right. now left.
    + destruct (Tr j ltac:(lia)) as [H|[i H]]; [left; rewrite Hro; apply in_app_iff; now left|right; exists i; now apply (child_add_atom m a cap at_ true)].
  - intros j i Hj Hc. apply (child_add_atom m a cap at_ true) in Hc. rewrite Hro in Hj. apply in_app_iff in Hj as [Hj|[<-|[]]]; [exact (Tf j i Hj Hc)|].
    destruct (child_lt m i _ Hm Hc). lia.
  - rewrite Hro. apply nodup_snoc; [exact Tn|]. intro H. apply (wf_roots _ _ _ Hm) in H. lia.
  - intros i e He. unfold m' in He. rewrite (row_add_atom m a cap at_ true i) in He. exact (Ts i e He).
  - intros i e He. unfold m' in He. rewrite (row_add_atom m a cap at_ true i) in He. exact (Tc i e He).
Qed.

(* an atom added together with the bond from its parent *)
Lemma tree_step m a cap at_ p mu st at2 m3 : WF m -> TreeInv m -> (p < natoms m)%nat -> 1 <= mu <= 3 ->
  add_bond (fst (add_atom m a cap at_ false)) p (natoms m) mu st at2 = Ok m3 -> TreeInv m3.
Proof.
  intros Hm [Tp Tr Tf Tn Ts Tc] Hp Hmu E. set (m2 := fst (add_atom m a cap at_ false)) in *.
  assert (Hn2 : natoms m2 = S (natoms m)) by (unfold natoms, m2; cbn; rewrite app_length; cbn; lia).
  pose proof (wf_adj _ _ _ Hm) as Ha. pose proof (wf_cnt _ _ _ Hm) as Hc.
  unfold add_bond in E. destruct (negb (p <? natoms m)%nat) eqn:E1; [discriminate|].
  destruct (negb _) eqn:E2 in E; [discriminate|]. injection E as E'.
  set (b := {| b_src := p; b_dst := natoms m; b_order := mu; b_stereo := st; b_ring := false; b_attr := at2 |}) in *.
  assert (Hrow : forall i, row m3 i = if Nat.eqb i p then row m i ++ [b] else row m i).
  { intro i. unfold row. rewrite <- E'. cbn [adj]. rewrite nth_upd, (Nat.eqb_sym p i).
    assert (R : nth i (adj m ++ [[]]) [] = nth i (adj m) []) by exact (row_add_atom m a cap at_ false i).
    cbn [m2 add_atom fst adj]. rewrite R.
    destruct (Nat.eqb_spec i p) as [->|]; cbn [andb]; [|reflexivity].
    assert (X : (p <? length (adj m ++ [[]]))%nat = true) by (apply Nat.ltb_lt; rewrite app_length; lia).
    now rewrite X. }
  assert (Hch : forall i x, child m3 i x <-> child m i x \/ (i = p /\ x = natoms m)).
  { intros i x. unfold child. rewrite Hrow. destruct (Nat.eqb_spec i p) as [->|N].
    - split.
      + intros (e & He & Hr & Hd). apply in_app_iff in He as [He|[<-|[]]]; [left; eauto|right; split; [reflexivity|symmetry; exact Hd]].
      + intros [(e & He & Hr & Hd)|[_ ->]]; [exists e; split; [apply in_app_iff; now left|auto]|exists b; split; [apply in_app_iff; right; now left|auto]].
    - split; [intros H; now left|intros [H|[H _]]; [exact H|contradiction]]. }
  assert (Hn3 : natoms m3 = S (natoms m)) by (unfold natoms; rewrite <- E'; cbn [atoms]; fold (natoms m2); exact Hn2).
  assert (Hro : roots m3 = roots m) by (rewrite <- E'; reflexivity).
  constructor.
  - intros i1 i2 x H1 H2. apply Hch in H1, H2.
    destruct H1 as [H1|[-> ->]]; destruct H2 as [H2|[-> E2x]]; eauto.
    + subst x. destruct (child_lt m i1 _ Hm H1). lia.
    + destruct (child_lt m i2 _ Hm H2). lia.
  - intros j Hj. rewrite Hn3 in Hj. rewrite Hro. destruct (Nat.eq_dec j (natoms m)) as [->|N].
    + right. exists p. apply Hch. now right.
    + destruct (Tr j ltac:(lia)) as [H|[i H]]; [now left|right; exists i; apply Hch; now left].
  - intros j i Hj Hcj. rewrite Hro in Hj. apply Hch in Hcj as [Hcj|[_ ->]]; [exact (Tf j i Hj Hcj)|].
    apply (wf_roots _ _ _ Hm) in Hj. lia.
  - now rewrite Hro.
  - intros i e He. rewrite Hrow in He. destruct (Nat.eqb_spec i p) as [->|]; [|exact (Ts i e He)].
    apply in_app_iff in He as [He|[<-|[]]]; [exact (Ts p e He)|cbn; lia].
  - intros i e He. rewrite Hrow in He. destruct (Nat.eqb_spec i p) as [->|]; [|exact (Tc i e He)].
    apply in_app_iff in He as [He|[<-|[]]]; [exact (Tc p e He)|reflexivity].
Qed.

(* raising the order of a bond changes no target and no ring flag *)
Lemma child_set_order l d new x :
  (exists e, In e (set_order l d new) /\ b_ring e = false /\ b_dst e = x) <-> (exists e, In e l /\ b_ring e = false /\ b_dst e = x).
Proof.
  unfold set_order. split.
  - intros (e' & He' & Hr & Hd). apply in_map_iff in He' as (e & <- & He). exists e. split; [exact He|].
    destruct (Nat.eqb (b_dst e) d); cbn in *; auto.
  - intros (e & He & Hr & Hd).
    exists (if Nat.eqb (b_dst e) d then {| b_src := b_src e; b_dst := b_dst e; b_order := new; b_stereo := b_stereo e; b_ring := b_ring e; b_attr := b_attr e |} else e).
    split; [apply in_map_iff; exists e; auto|]. destruct (Nat.eqb (b_dst e) d); cbn; auto.
Qed.

Lemma tree_upd m l rr new m' : WF m -> TreeInv m -> (l < rr)%nat -> (rr < natoms m)%nat -> 1 <= new <= 3 ->
  update_bond_order m l rr new = Ok m' -> TreeInv m'.
Proof.
  intros Hm T Hlt Hrn Hnew E. pose proof (wf_adj _ _ _ Hm) as Ha.
  unfold update_bond_order in E. destruct (negb _); [discriminate|].
  destruct (find_bond m (Nat.min l rr) (Nat.max l rr)) as [e|]; [|discriminate].
  destruct (new =? b_order e); [injection E as <-; exact T|].
  assert (Hch : forall adj', (forall j, (exists e0, In e0 (nth j adj' []) /\ b_ring e0 = false /\ b_dst e0 = j) <-> True) -> True) by auto. clear Hch.
  assert (G : forall m'', atoms m'' = atoms m -> roots m'' = roots m ->
            (forall i x, child m'' i x <-> child m i x) ->
            (forall i e0, In e0 (row m'' i) -> exists e1, In e1 (row m i) /\ b_dst e1 = b_dst e0 /\ b_src e1 = b_src e0) -> TreeInv m'').
  { intros m'' Eat Ero Hc Hd. destruct T as [Tp Tr Tf Tn Ts Tc]. constructor.
    - intros i1 i2 x H1 H2. apply Hc in H1, H2. eauto.
    - intros j Hj. unfold natoms in Hj. rewrite Eat in Hj. rewrite Ero. destruct (Tr j Hj) as [H|[i H]]; [now left|right; exists i; now apply Hc].
    - intros j i Hj H. rewrite Ero in Hj. apply Hc in H. exact (Tf j i Hj H).
    - now rewrite Ero.
    - intros i e0 He0. destruct (Hd i e0 He0) as (e1 & He1 & <- & _). exact (Ts i e1 He1).
    - intros i e0 He0. destruct (Hd i e0 He0) as (e1 & He1 & _ & <-). exact (Tc i e1 He1). }
  assert (Hone : forall (ad : list (list dbond)) k d i x,
            (exists e0, In e0 (nth i (upd ad k (fun l0 => set_order l0 d new)) []) /\ b_ring e0 = false /\ b_dst e0 = x) <->
            (exists e0, In e0 (nth i ad []) /\ b_ring e0 = false /\ b_dst e0 = x)).
  { intros ad k d i x. rewrite nth_upd. destruct (Nat.eqb k i && (i <? length ad)%nat); [apply child_set_order|reflexivity]. }
  assert (Hdst : forall (ad : list (list dbond)) k d i e0, In e0 (nth i (upd ad k (fun l0 => set_order l0 d new)) []) ->
            exists e1, In e1 (nth i ad []) /\ b_dst e1 = b_dst e0 /\ b_src e1 = b_src e0).
  { intros ad k d i e0. rewrite nth_upd. destruct (Nat.eqb k i && (i <? length ad)%nat); [|eauto].
    intro H. apply In_set_order in H as (e1 & H1 & H2 & _ & H3 & _). eauto. }
  destruct (b_ring e).
  - destruct (find_bond m (Nat.max l rr) (Nat.min l rr)); [|discriminate]. cbn [bind] in E. injection E as E'.
    apply G; try (rewrite <- E'; reflexivity).
    + intros i x. unfold child, row. rewrite <- E'. cbn [adj]. rewrite Hone. apply Hone.
    + intros i e0. unfold row. rewrite <- E'. cbn [adj]. intro H. apply Hdst in H as (e1 & H1 & <- & <-). apply Hdst in H1 as (e2 & H2 & <- & <-). eauto.
  - cbn [bind] in E. injection E as E'. apply G; try (rewrite <- E'; reflexivity).
    + intros i x. unfold child, row. rewrite <- E'. cbn [adj]. apply Hone.
    + intros i e0. unfold row. rewrite <- E'. cbn [adj]. apply Hdst.
Qed.

Lemma add_at_loc_in l pos b l' : add_at_loc l pos b = Ok l' -> forall y, In y l' <-> y = b \/ In y l.
Proof.
  unfold add_at_loc. destruct (pos =? length l)%nat.
  - intro E. injection E as <-. intro y. rewrite in_app_iff. cbn. intuition congruence.
  - destruct (pos <? length l)%nat; [|discriminate]. intro E. injection E as <-. apply In_insert_at.
Qed.

Lemma tree_ring m l rr order sa sb pl pr m' : WF m -> TreeInv m -> (l < rr)%nat -> (rr < natoms m)%nat -> 1 <= order <= 3 ->
  has_bond m l rr = false -> add_ring_bond m l rr order sa sb pl pr = Ok m' -> TreeInv m'.
Proof.
  intros Hm [Tp Tr Tf Tn Ts Tc] Hlt Hrn Ho Hnb E. pose proof (wf_adj _ _ _ Hm) as Ha.
  unfold add_ring_bond in E.
  set (ba := {| b_src := l; b_dst := rr; b_order := order; b_stereo := sa; b_ring := true; b_attr := None |}) in *.
  set (bb := {| b_src := rr; b_dst := l; b_order := order; b_stereo := sb; b_ring := true; b_attr := None |}) in *.
  destruct (nth_error (adj m) l) as [la|] eqn:Ela; [|discriminate].
  assert (Hla : la = row m l) by (unfold row; now rewrite (nth_error_nth _ _ [] Ela)). subst la.
  destruct (add_at_loc (row m l) pl ba) as [la'|] eqn:Ela'; cbn [bind] in E; [|discriminate].
  rewrite nth_error_upd_other in E by lia.
  destruct (nth_error (adj m) rr) as [lb|] eqn:Elb; [|discriminate].
  assert (Hlb : lb = row m rr) by (unfold row; now rewrite (nth_error_nth _ _ [] Elb)). subst lb.
  destruct (add_at_loc (row m rr) pr bb) as [lb'|] eqn:Elb'; cbn [bind] in E; [|discriminate].
  injection E as E'.
  pose proof (add_at_loc_in _ _ _ _ Ela') as Ia. pose proof (add_at_loc_in _ _ _ _ Elb') as Ib.
  assert (Hrow : forall j, row m' j = if Nat.eqb j l then la' else if Nat.eqb j rr then lb' else row m j).
  { intro j. unfold row. rewrite <- E'. cbn [adj]. rewrite !nth_upd, !upd_length, Ha.
    rewrite (Nat.eqb_sym rr j), (Nat.eqb_sym l j).
    assert (Xl : (l <? natoms m)%nat = true) by (apply Nat.ltb_lt; lia).
    assert (Xr : (rr <? natoms m)%nat = true) by (apply Nat.ltb_lt; lia).
    destruct (Nat.eqb_spec j rr) as [E1'|N1']; destruct (Nat.eqb_spec j l) as [E2'|N2']; cbn [andb].
    - exfalso. lia.
    - subst j. now rewrite Xr.
    - subst j. now rewrite Xl.
    - reflexivity. }
  assert (Hc : forall i x, child m' i x <-> child m i x).
  { intros i x. unfold child. rewrite Hrow. destruct (Nat.eqb_spec i l) as [->|N1]; [|destruct (Nat.eqb_spec i rr) as [->|N2]; [|reflexivity]].
    - split; intros (e & He & Hr & Hd).
      + apply Ia in He as [->|He]; [discriminate Hr|eauto].
      + exists e. split; [apply Ia; now right|auto].
    - split; intros (e & He & Hr & Hd).
      + apply Ib in He as [->|He]; [discriminate Hr|eauto].
      + exists e. split; [apply Ib; now right|auto]. }
  assert (Eat : atoms m' = atoms m) by (rewrite <- E'; reflexivity).
  assert (Ero : roots m' = roots m) by (rewrite <- E'; reflexivity).
  constructor.
  - intros i1 i2 x H1 H2. apply Hc in H1, H2. eauto.
  - intros j Hj. unfold natoms in Hj. rewrite Eat in Hj. rewrite Ero. destruct (Tr j Hj) as [H|[i H]]; [now left|right; exists i; now apply Hc].
  - intros j i Hj H. rewrite Ero in Hj. apply Hc in H. exact (Tf j i Hj H).
  - now rewrite Ero.
  - intros i e He. rewrite Hrow in He. destruct (Nat.eqb_spec i l) as [->|N1]; [|destruct (Nat.eqb_spec i rr) as [->|N2]; [|exact (Ts i e He)]].
    + apply Ia in He as [->|He]; [cbn; lia|exact (Ts l e He)].
    + apply Ib in He as [->|He]; [cbn; lia|exact (Ts rr e He)].
  - intros i e He. rewrite Hrow in He. destruct (Nat.eqb_spec i l) as [->|N1]; [|destruct (Nat.eqb_spec i rr) as [->|N2]; [|exact (Tc i e He)]].
    + apply Ia in He as [->|He]; [reflexivity|exact (Tc l e He)].
    + apply Ib in He as [->|He]; [reflexivity|exact (Tc rr e He)].
Qed.
End Prims.
